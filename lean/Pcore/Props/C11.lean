import Pcore.Proofs.JsonRead
import Pcore.Generated.JsonTable
import Pcore.Generated.PbArms
import Pcore.Proofs.SerWf
/-!
# C11 — JSON and protobuf transports carry Data exactly

Property (properties.jsonl): streaming any serializer output as JSON always produces syntactically valid
JSON, and reading it back delivers the same events (nesting, scalar kinds, back-reference indices); the
protobuf encoding of any Data value or event stream decodes to an equal value.

Full statement / proved / missing
* `C11_table_ok`   — the statement lists regenerated from `jsonstreamer.go` satisfy `TblOK` (by `decide` over the
                     regenerated table: this is the obligation a code change breaks).
* `C11_write`      — for ANY table satisfying `TblOK`, what the streamer state machine writes for an event tree
                     equals the table-independent reference printer `ref1`.
* `C11_valid`      — the written token sequence is in the JSON grammar `JVal`, for every well-formed event tree
                     (hashes get alternating string keys and values — what the serializer emits for a consumer
                     without complex-key support).
* `C11_read_write` — `read (write t e) = some e`: same nesting, same scalar kinds (a float stays a float token, an
                     integer an integer token), same reference indices — for trees that do not use the reserved
                     key `__pref` first in a hash; `C11_pref_collision` shows the excluded case is real
                     (known finding C11-reserved-pref-key).
* `C11_pb_arms_ok` — the arm table regenerated from `proto/convert.go` satisfies `PBArmsOK` (by `decide`).
* `C11_pb_value`, `C11_pb_stream`, `C11_pb_events` — protobuf round trips for ANY arm table satisfying `PBArmsOK`;
                     `C11_impl_pb` instantiates them on the regenerated table.
* `C11_serializer_output_valid` (audit addition) — the property's first sentence with its own quantifier: for EVERY value, option
                     combination and string threshold, what the C10 serializer model emits for the JSON streamer's capabilities
                     (no binary, no complex keys), streamed through the table-driven writer, is in the grammar `JVal`; the
                     hypothesis `WF` of `C11_valid` is discharged by C10's stream law (`C11_wf_of_serializer_stream`).
                     Reading back needs `NoPref` and is NOT claimed for every serializer output (the known finding).
* read with care (audit): the protobuf model is the in-memory `datapb` tree (a copy of the value with one constructor per
                     kind), not the wire encoding; `C11_pb_value` therefore says "both type switches have an arm for every
                     Data kind and recurse" — close to a restatement, its content is the regenerated arm table.
* missing: bytes ↔ tokens (encoding/json tokenizer, string escaping, number text) — trusted, exercised by the
  correspondence run which re-tokenizes the emitted bytes (DESIGN.md §5).
-/
namespace Pcore.Json
open Pcore.Generated

/-- obligation over the regenerated table -/
theorem C11_table_ok : TblOK jsonTbl := tblOKb_sound jsonTbl (by decide)

theorem C11_write (t : Tbl) (h : TblOK t) (e : Ev) : write t e = ref1 e := by
  simp [write, wEv_ref t h, h.2.2.2.2.2, sepOf]

theorem C11_valid (t : Tbl) (h : TblOK t) (e : Ev) (hw : WF e = true) : JVal (write t e) := by
  rw [C11_write t h]; exact valid_ev e hw

theorem C11_read_write (t : Tbl) (h : TblOK t) (e : Ev) (hw : WF e = true) (hp : NoPref e = true) :
    read (write t e) = some e := by
  rw [C11_write t h]; exact read_ref1 e hw hp

/-- instantiated on the code as it is now -/
theorem C11_impl_valid (e : Ev) (hw : WF e = true) : JVal (write jsonTbl e) := C11_valid _ C11_table_ok e hw
theorem C11_impl_read_write (e : Ev) (hw : WF e = true) (hp : NoPref e = true) :
    read (write jsonTbl e) = some e := C11_read_write _ C11_table_ok e hw hp

/-- non-vacuity: a nested tree with a hash at a non-first array position meets the hypotheses -/
def sampleEv : Ev :=
  .arr [.sc (.int 1), .hsh [.sc (.str "a"), .sc (.flt 4607182418800017408), .sc (.str "b"), .arr []], .ref 1, .hsh []]
example : WF sampleEv = true ∧ NoPref sampleEv = true := by decide
example : read (write jsonTbl sampleEv) = some sampleEv := C11_impl_read_write _ (by decide) (by decide)

/-- the excluded case is real: a user hash whose first key is `__pref` comes back as a reference
    (known finding C11-reserved-pref-key) -/
theorem C11_pref_collision :
    ∃ e, WF e = true ∧ read (write jsonTbl e) ≠ some e :=
  ⟨.hsh [.sc (.str "__pref"), .sc (.int 1)], by decide, by
    have h : read (write jsonTbl (.hsh [.sc (.str "__pref"), .sc (.int 1)])) = some (.ref 1) := by rfl
    rw [h]; intro h'; cases h'⟩

/-- the FULL statement of the read-back law (no exclusion of the reserved key): `C11_read_write` is the partial theorem
    (hypothesis `NoPref`), although its name does not end in `_partial` -/
def C11_read_write_full : Prop := ∀ e : Ev, WF e = true → read (write jsonTbl e) = some e

/-- … refuted (known finding C11-reserved-pref-key) -/
theorem C11_read_write_full_fails : ¬ C11_read_write_full := by
  intro h
  obtain ⟨e, hw, hne⟩ := C11_pref_collision
  exact hne (h e hw)

/-- the table before the fix "JSON streamer lost the array state after a nested hash at a non-first position":
    the side condition is refuted and the model reproduces the invalid output `[1,{"a":1},2:3]` -/
def tblBefore : Tbl := { jsonTbl with arms := [
    (some .firstInArray, [.doer, .set .afterElement]), (some .firstInObject, [.doer, .set .afterKey]),
    (some .afterKey, [.write ':', .doer, .set .afterValue]), (some .afterValue, [.write ',', .doer, .set .afterKey]),
    (none, [.write ',', .doer])] }
example : tblOKb tblBefore = false := by decide
example : write tblBefore (.arr [.sc (.int 1), .hsh [.sc (.str "a"), .sc (.int 1)], .sc (.int 2), .sc (.int 3)]) =
    [.lb, .sc (.int 1), .comma, .lc, .sc (.str "a"), .colon, .sc (.int 1), .rc, .comma, .sc (.int 2), .colon,
     .sc (.int 3), .rb] := by decide

/-- the hypothesis `WF` is needed: a hash with a non-string key / an odd number of children is written as something the
    reader rejects -/
example : write jsonTbl (.hsh [.sc (.int 1), .sc (.int 2)]) = [.lc, .sc (.int 1), .colon, .sc (.int 2), .rc] ∧
    read (write jsonTbl (.hsh [.sc (.int 1), .sc (.int 2)])) = none ∧
    read (write jsonTbl (.hsh [.sc (.str "a")])) = none := ⟨by decide, by rfl, by rfl⟩

/-- … and is not in the grammar: `JVal` does reject something -/
example : ¬ JVal (write jsonTbl (.hsh [.sc (.int 1), .sc (.int 2)])) := by
  have hw : write jsonTbl (.hsh [.sc (.int 1), .sc (.int 2)]) = [.lc, .sc (.int 1), .colon, .sc (.int 2), .rc] := by decide
  rw [hw]
  intro h
  generalize hl : [Tok.lc, .sc (.int 1), .colon, .sc (.int 2), .rc] = l at h
  cases h with
  | sc s => simp at hl
  | arr0 => simp at hl
  | arr _ => simp at hl
  | obj0 => simp at hl
  | obj hm =>
    rename_i ts
    have h1 : [Tok.sc (.int 1), .colon, .sc (.int 2)] ++ [Tok.rc] = ts ++ [Tok.rc] := by simpa using hl
    have h2 := List.append_inj_left' h1 rfl
    subst h2
    generalize hl2 : [Tok.sc (.int 1), .colon, .sc (.int 2)] = m at hm
    cases hm <;> simp at hl2

/-! ### audit addition: "any serializer output" — the hypothesis `WF` of `C11_valid` is what the serializer model of C10
    emits for the JSON streamer's capabilities (CanDoBinary = false, CanDoComplexKeys = false) -/

/-- a scalar of the serializer's stream as the JSON transport's scalar (Binary never reaches a consumer without binary
    support — hypothesis `nb` below; it is mapped to `null` only to keep the function total) -/
def ofSerSc : Pcore.Ser.Sc → Sc
  | .undef => .null | .bool b => .bool b | .int i => .int i | .flt f => .flt f | .str s => .str s | .bin _ => .null

mutual
def ofSer : Pcore.Ser.Ev → Ev
  | .add d => .sc (ofSerSc d)
  | .ref n => .ref n
  | .arr es => .arr (ofSers es)
  | .hsh es => .hsh (ofSers es)
def ofSers : List Pcore.Ser.Ev → List Ev
  | [] => []
  | e :: es => ofSer e :: ofSers es
end

theorem isStrKey_ofSer (k : Pcore.Ser.Ev) (h : k.isStr = true) : isStrKey (ofSer k) = true := by
  cases k with
  | add d => cases d <;> simp_all [Pcore.Ser.Ev.isStr, ofSer, ofSerSc, isStrKey]
  | _ => simp [Pcore.Ser.Ev.isStr] at h

mutual
theorem wf_ofSer : ∀ e : Pcore.Ser.Ev, e.wf true true = true → WF (ofSer e) = true
  | .add _, _ => by simp [ofSer, WF]
  | .ref _, _ => by simp [ofSer, WF]
  | .arr es, h => by
      simp only [Pcore.Ser.Ev.wf] at h
      simpa [ofSer, WF] using wfs_ofSers es h
  | .hsh es, h => by
      simp only [Pcore.Ser.Ev.wf, Bool.and_eq_true] at h
      simpa [ofSer, WF] using wfkv_ofSers es h.1 h.2
theorem wfs_ofSers : ∀ es : List Pcore.Ser.Ev, Pcore.Ser.wfList true true es = true → WFs (ofSers es) = true
  | [], _ => by simp [ofSers, WFs]
  | e :: es, h => by
      simp only [Pcore.Ser.wfList, Bool.and_eq_true] at h
      simp [ofSers, WFs, wf_ofSer e h.1, wfs_ofSers es h.2]
theorem wfkv_ofSers : ∀ es : List Pcore.Ser.Ev, Pcore.Ser.hkeys true es = true → Pcore.Ser.wfList true true es = true →
    WFkv (ofSers es) = true
  | [], _, _ => by simp [ofSers, WFkv]
  | [_], h, _ => by simp [Pcore.Ser.hkeys] at h
  | k :: v :: es, h, hw => by
      simp only [Pcore.Ser.hkeys, Bool.and_eq_true, Bool.not_true, Bool.false_or] at h
      simp only [Pcore.Ser.wfList, Bool.and_eq_true] at hw
      simp [ofSers, WFkv, isStrKey_ofSer k h.1, wf_ofSer v hw.2.1, wfkv_ofSers es h.2 hw.2.2]
end

/-- the stream laws of C10 for a consumer without binary and complex-key support give `WF` -/
theorem C11_wf_of_serializer_stream (e : Pcore.Ser.Ev) (h : e.wf true true = true) : WF (ofSer e) = true := wf_ofSer e h

/-- the property's first sentence with its own quantifier: streaming ANY serializer output (any value, any options, any
    string threshold) through the JSON streamer writes syntactically valid JSON -/
theorem C11_serializer_output_valid (o : Pcore.Ser.Opts) (thr : Nat) (v : Pcore.Ser.V) :
    JVal (write jsonTbl (ofSer (Pcore.Ser.serialize o ⟨false, false, thr⟩ v))) := by
  apply C11_impl_valid
  apply wf_ofSer
  exact (Pcore.Ser.toData_good (Pcore.Ser.mkCfg o ⟨false, false, thr⟩) true true
    (fun _ => by
      refine ⟨by simp [Pcore.Ser.mkCfg], ?_⟩
      simp only [Pcore.Ser.mkCfg, and_true]
      split <;> split <;> omega)
    (fun _ => by simp [Pcore.Ser.mkCfg]) 1 v Pcore.Ser.St.init).1

/-- non-vacuity / what it says: a value with a Sensitive Binary under a non-string key, used twice -/
def serSample : Pcore.Ser.V :=
  .arr 1 [.hash 2 [(.int 1, .sens 3 (.bin 4 [1, 2, 3]))], .hash 2 [(.int 1, .sens 3 (.bin 4 [1, 2, 3]))]]
example : write jsonTbl (ofSer (Pcore.Ser.serialize ⟨true, true, 2⟩ ⟨false, false, 20⟩ serSample)) =
    [.lb, .lc, .sc (.str "__ptype"), .colon, .sc (.str "Hash"), .comma, .sc (.str "__pvalue"), .colon,
       .lb, .sc (.int 1), .comma,
         .lc, .sc (.str "__ptype"), .colon, .sc (.str "Sensitive"), .comma, .sc (.str "__pvalue"), .colon,
           .lc, .sc (.str "__ptype"), .colon, .sc (.str "Binary"), .comma, .sc (.str "__pvalue"), .colon, .sc (.str "AQID"), .rc,
         .rc,
       .rb, .rc, .comma,
     .lc, .sc (.str "__pref"), .colon, .sc (.int 1), .rc, .rb] := by decide

/-! ### protobuf -/

mutual
def NoBin : DVal → Bool
  | .bin _ => false
  | .arr vs => NoBins vs
  | .hsh es => NoBines es
  | _ => true
def NoBins : List DVal → Bool
  | [] => true | v :: vs => NoBin v && NoBins vs
def NoBines : List (DVal × DVal) → Bool
  | [] => true | (k, v) :: es => NoBin k && NoBin v && NoBines es
end

/-- side condition on the regenerated arm table: the Data kinds have an arm in `ToPBData` and `FromPBData`,
    every kind has one in `ConsumePBData` -/
def PBArmsOK (a : PBArms) : Bool :=
  [PKind.bool, .flt, .int, .str, .arr, .hsh].all (fun k => a.toPB.contains k && a.fromPB.contains k) &&
  [PKind.bool, .flt, .int, .str, .arr, .hsh, .bin, .ref].all (fun k => a.consume.contains k)

theorem C11_pb_arms_ok : PBArmsOK pbArms = true := by decide

theorem pbArmsOK_mem {a : PBArms} (h : PBArmsOK a = true) :
    (PKind.bool ∈ a.toPB ∧ PKind.flt ∈ a.toPB ∧ PKind.int ∈ a.toPB ∧ PKind.str ∈ a.toPB ∧ PKind.arr ∈ a.toPB ∧
      PKind.hsh ∈ a.toPB) ∧
    (PKind.bool ∈ a.fromPB ∧ PKind.flt ∈ a.fromPB ∧ PKind.int ∈ a.fromPB ∧ PKind.str ∈ a.fromPB ∧
      PKind.arr ∈ a.fromPB ∧ PKind.hsh ∈ a.fromPB) ∧
    (PKind.bool ∈ a.consume ∧ PKind.flt ∈ a.consume ∧ PKind.int ∈ a.consume ∧ PKind.str ∈ a.consume ∧
      PKind.arr ∈ a.consume ∧ PKind.hsh ∈ a.consume ∧ PKind.bin ∈ a.consume ∧ PKind.ref ∈ a.consume) := by
  simp [PBArmsOK, List.all_cons] at h
  obtain ⟨⟨⟨h1, h1'⟩, ⟨h2, h2'⟩, ⟨h3, h3'⟩, ⟨h4, h4'⟩, ⟨h5, h5'⟩, h6, h6'⟩, c1, c2, c3, c4, c5, c6, c7, c8⟩ := h
  exact ⟨⟨h1, h2, h3, h4, h5, h6⟩, ⟨h1', h2', h3', h4', h5', h6'⟩, c1, c2, c3, c4, c5, c6, c7, c8⟩

mutual
theorem pb_value (a : PBArms) (ha : PBArmsOK a = true) : ∀ v : DVal, NoBin v = true → fromPB a (toPB a v) = v
  | .undef, _ => by simp [toPB, fromPB]
  | .bool _, _ => by simp [toPB, fromPB, (pbArmsOK_mem ha).1.1, (pbArmsOK_mem ha).2.1.1]
  | .int _, _ => by simp [toPB, fromPB, (pbArmsOK_mem ha).1.2.2.1, (pbArmsOK_mem ha).2.1.2.2.1]
  | .flt _, _ => by simp [toPB, fromPB, (pbArmsOK_mem ha).1.2.1, (pbArmsOK_mem ha).2.1.2.1]
  | .str _, _ => by simp [toPB, fromPB, (pbArmsOK_mem ha).1.2.2.2.1, (pbArmsOK_mem ha).2.1.2.2.2.1]
  | .bin _, h => by simp [NoBin] at h
  | .arr vs, h => by
      simp [toPB, fromPB, (pbArmsOK_mem ha).1.2.2.2.2.1, (pbArmsOK_mem ha).2.1.2.2.2.2.1, pb_values a ha vs (by simpa [NoBin] using h)]
  | .hsh es, h => by
      simp [toPB, fromPB, (pbArmsOK_mem ha).1.2.2.2.2.2, (pbArmsOK_mem ha).2.1.2.2.2.2.2, pb_entries a ha es (by simpa [NoBin] using h)]
theorem pb_values (a : PBArms) (ha : PBArmsOK a = true) :
    ∀ vs : List DVal, NoBins vs = true → fromPBs a (toPBs a vs) = vs
  | [], _ => rfl
  | v :: vs, h => by
      have h' : NoBin v = true ∧ NoBins vs = true := by simpa [NoBins] using h
      simp [toPBs, fromPBs, pb_value a ha v h'.1, pb_values a ha vs h'.2]
theorem pb_entries (a : PBArms) (ha : PBArmsOK a = true) :
    ∀ es : List (DVal × DVal), NoBines es = true → fromPBes a (toPBes a es) = es
  | [], _ => rfl
  | (k, v) :: es, h => by
      have h' : (NoBin k = true ∧ NoBin v = true) ∧ NoBines es = true := by simpa [NoBines] using h
      simp [toPBes, fromPBes, pb_value a ha k h'.1.1, pb_value a ha v h'.1.2, pb_entries a ha es h'.2]
end

/-- `FromPBData(ToPBData(v)) = v` for every Data value, for ANY arm table satisfying `PBArmsOK`
    (Binary is not Data; on the current tree `FromPBData` has no Binary arm) -/
theorem C11_pb_value (a : PBArms) (ha : PBArmsOK a = true) (v : DVal) (h : NoBin v = true) :
    fromPB a (toPB a v) = v := pb_value a ha v h

mutual
/-- feeding the events of `ConsumePBData(p)` to a `protoConsumer` rebuilds `p` -/
theorem pb_stream (a : PBArms) (ha : PBArmsOK a = true) : ∀ p : PB, protoConsume (consumePB a p) = some p
  | .bool _ => by simp [consumePB, PB.kind, (pbArmsOK_mem ha).2.2.1, protoConsume]
  | .flt _ => by simp [consumePB, PB.kind, (pbArmsOK_mem ha).2.2.2.1, protoConsume]
  | .int _ => by simp [consumePB, PB.kind, (pbArmsOK_mem ha).2.2.2.2.1, protoConsume]
  | .str _ => by simp [consumePB, PB.kind, (pbArmsOK_mem ha).2.2.2.2.2.1, protoConsume]
  | .undef => by simp [consumePB, PB.kind, protoConsume]
  | .bin _ => by simp [consumePB, PB.kind, (pbArmsOK_mem ha).2.2.2.2.2.2.2.2.1, protoConsume]
  | .ref _ => by simp [consumePB, (pbArmsOK_mem ha).2.2.2.2.2.2.2.2.2, protoConsume]
  | .arr vs => by simp [consumePB, (pbArmsOK_mem ha).2.2.2.2.2.2.1, protoConsume, pb_streams a ha vs]
  | .hsh es => by
      have ih := pb_streames a ha es
      cases h : protoConsumes (consumePBes a es) with
      | none => simp [h] at ih
      | some cs =>
        simp only [h, Option.bind_some] at ih
        simp [consumePB, (pbArmsOK_mem ha).2.2.2.2.2.2.2.1, protoConsume, h, ih]
theorem pb_streams (a : PBArms) (ha : PBArmsOK a = true) :
    ∀ vs : List PB, protoConsumes (consumePBs a vs) = some vs
  | [] => rfl
  | v :: vs => by simp [consumePBs, protoConsumes, pb_stream a ha v, pb_streams a ha vs]
theorem pb_streames (a : PBArms) (ha : PBArmsOK a = true) :
    ∀ es : List (PB × PB), (protoConsumes (consumePBes a es)).bind pairUp = some es
  | [] => rfl
  | (k, v) :: es => by
      have ih := pb_streames a ha es
      cases h : protoConsumes (consumePBes a es) with
      | none => simp [h] at ih
      | some cs =>
        simp [h] at ih
        simp [consumePBes, protoConsumes, pb_stream a ha k, pb_stream a ha v, h, pairUp, ih]
end

theorem C11_pb_stream (a : PBArms) (ha : PBArmsOK a = true) (p : PB) : protoConsume (consumePB a p) = some p :=
  pb_stream a ha p

/-- value → protobuf → event stream → protobuf consumer → value -/
theorem C11_pb_events (a : PBArms) (ha : PBArmsOK a = true) (v : DVal) (h : NoBin v = true) :
    (protoConsume (consumePB a (toPB a v))).map (fromPB a) = some v := by
  simp [C11_pb_stream a ha, C11_pb_value a ha v h]

/-- instantiated on the arm table regenerated from proto/convert.go -/
theorem C11_impl_pb (v : DVal) (h : NoBin v = true) :
    fromPB pbArms (toPB pbArms v) = v ∧ (protoConsume (consumePB pbArms (toPB pbArms v))).map (fromPB pbArms) = some v :=
  ⟨C11_pb_value _ C11_pb_arms_ok v h, C11_pb_events _ C11_pb_arms_ok v h⟩

example : NoBin (.hsh [(.str "a", .arr [.int 1, .flt 0, .undef])]) = true := by decide

/-! ### audit additions (protobuf): the hypotheses are needed, the side condition is not idle -/

/-- the hypothesis `NoBin` is needed on the current tree: `FromPBData` has no Binary arm -/
example : (match fromPB pbArms (toPB pbArms (.bin [1, 2, 3])) with | .undef => true | _ => false) = true := by rfl

/-- an arm table that lacks the Float arm of `FromPBData` is refuted by the side condition, and the model driven by it
    loses the float -/
def pbArmsNoFlt : PBArms := { pbArms with fromPB := [.bool, .int, .str, .undef, .arr, .hsh] }
example : PBArmsOK pbArmsNoFlt = false := by decide
example : (match fromPB pbArmsNoFlt (toPB pbArmsNoFlt (.arr [.flt 0])) with | .arr [.undef] => true | _ => false) = true := by rfl
/-- … and the protobuf theorems say something about a concrete value: nested, float, int, undef, non-string key -/
def pbSample : DVal := .hsh [(.str "a", .arr [.int 1, .flt 4607182418800017408, .undef]), (.int 2, .hsh [])]
example : NoBin pbSample = true := by decide
example : (match toPB pbArms pbSample with
    | .hsh [(.str "a", .arr [.int 1, .flt 4607182418800017408, .undef]), (.int 2, .hsh [])] => true | _ => false) = true := by rfl

end Pcore.Json
