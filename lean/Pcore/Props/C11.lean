import Pcore.Proofs.JsonRead
import Pcore.Generated.JsonTable
import Pcore.Generated.PbArms
/-!
# C11 — JSON and protobuf transports carry Data exactly

Property (properties.jsonl): streaming any serializer output as JSON always produces syntactically valid
JSON, and reading it back delivers the same events (nesting, scalar kinds, back-reference indices); the
protobuf encoding of any Data value or event stream decodes to an equal value.

Full statement / proved / missing
* `C11_table_ok`   — the statement lists regenerated from `jsonstreamer.go` satisfy `TblOK` (by `decide` over the
                     regenerated table: this is the obligation a code change breaks).
* `C11_write`      — for ANY table satisfying `TblOK`, what the streamer state machine writes for an event tree
                     equals the table-independent reference printer `ref1`.
* `C11_valid`      — the written token sequence is in the JSON grammar `JVal`, for every well-formed event tree
                     (hashes get alternating string keys and values — what the serializer emits for a consumer
                     without complex-key support).
* `C11_read_write` — `read (write t e) = some e`: same nesting, same scalar kinds (a float stays a float token, an
                     integer an integer token), same reference indices — for trees that do not use the reserved
                     key `__pref` first in a hash; `C11_pref_collision` shows the excluded case is real
                     (known finding C11-reserved-pref-key).
* `C11_pb_arms_ok` — the arm table regenerated from `proto/convert.go` satisfies `PBArmsOK` (by `decide`).
* `C11_pb_value`, `C11_pb_stream`, `C11_pb_events` — protobuf round trips for ANY arm table satisfying `PBArmsOK`;
                     `C11_impl_pb` instantiates them on the regenerated table.
* missing: bytes ↔ tokens (encoding/json tokenizer, string escaping, number text) — trusted, exercised by the
  correspondence run which re-tokenizes the emitted bytes (DESIGN.md §5).
-/
namespace Pcore.Json
open Pcore.Generated

/-- obligation over the regenerated table -/
theorem C11_table_ok : TblOK jsonTbl := tblOKb_sound jsonTbl (by decide)

theorem C11_write (t : Tbl) (h : TblOK t) (e : Ev) : write t e = ref1 e := by
  simp [write, wEv_ref t h, h.2.2.2.2.2, sepOf]

theorem C11_valid (t : Tbl) (h : TblOK t) (e : Ev) (hw : WF e = true) : JVal (write t e) := by
  rw [C11_write t h]; exact valid_ev e hw

theorem C11_read_write (t : Tbl) (h : TblOK t) (e : Ev) (hw : WF e = true) (hp : NoPref e = true) :
    read (write t e) = some e := by
  rw [C11_write t h]; exact read_ref1 e hw hp

/-- instantiated on the code as it is now -/
theorem C11_impl_valid (e : Ev) (hw : WF e = true) : JVal (write jsonTbl e) := C11_valid _ C11_table_ok e hw
theorem C11_impl_read_write (e : Ev) (hw : WF e = true) (hp : NoPref e = true) :
    read (write jsonTbl e) = some e := C11_read_write _ C11_table_ok e hw hp

/-- non-vacuity: a nested tree with a hash at a non-first array position meets the hypotheses -/
def sampleEv : Ev :=
  .arr [.sc (.int 1), .hsh [.sc (.str "a"), .sc (.flt 4607182418800017408), .sc (.str "b"), .arr []], .ref 1, .hsh []]
example : WF sampleEv = true ∧ NoPref sampleEv = true := by decide
example : read (write jsonTbl sampleEv) = some sampleEv := C11_impl_read_write _ (by decide) (by decide)

/-- the excluded case is real: a user hash whose first key is `__pref` comes back as a reference
    (known finding C11-reserved-pref-key) -/
theorem C11_pref_collision :
    ∃ e, WF e = true ∧ read (write jsonTbl e) ≠ some e :=
  ⟨.hsh [.sc (.str "__pref"), .sc (.int 1)], by decide, by
    have h : read (write jsonTbl (.hsh [.sc (.str "__pref"), .sc (.int 1)])) = some (.ref 1) := by rfl
    rw [h]; intro h'; cases h'⟩

/-- the table before the fix "JSON streamer lost the array state after a nested hash at a non-first position":
    the side condition is refuted and the model reproduces the invalid output `[1,{"a":1},2:3]` -/
def tblBefore : Tbl := { jsonTbl with arms := [
    (some .firstInArray, [.doer, .set .afterElement]), (some .firstInObject, [.doer, .set .afterKey]),
    (some .afterKey, [.write ':', .doer, .set .afterValue]), (some .afterValue, [.write ',', .doer, .set .afterKey]),
    (none, [.write ',', .doer])] }
example : tblOKb tblBefore = false := by decide
example : write tblBefore (.arr [.sc (.int 1), .hsh [.sc (.str "a"), .sc (.int 1)], .sc (.int 2), .sc (.int 3)]) =
    [.lb, .sc (.int 1), .comma, .lc, .sc (.str "a"), .colon, .sc (.int 1), .rc, .comma, .sc (.int 2), .colon,
     .sc (.int 3), .rb] := by decide

/-! ### protobuf -/

mutual
def NoBin : DVal → Bool
  | .bin _ => false
  | .arr vs => NoBins vs
  | .hsh es => NoBines es
  | _ => true
def NoBins : List DVal → Bool
  | [] => true | v :: vs => NoBin v && NoBins vs
def NoBines : List (DVal × DVal) → Bool
  | [] => true | (k, v) :: es => NoBin k && NoBin v && NoBines es
end

/-- side condition on the regenerated arm table: the Data kinds have an arm in `ToPBData` and `FromPBData`,
    every kind has one in `ConsumePBData` -/
def PBArmsOK (a : PBArms) : Bool :=
  [PKind.bool, .flt, .int, .str, .arr, .hsh].all (fun k => a.toPB.contains k && a.fromPB.contains k) &&
  [PKind.bool, .flt, .int, .str, .arr, .hsh, .bin, .ref].all (fun k => a.consume.contains k)

theorem C11_pb_arms_ok : PBArmsOK pbArms = true := by decide

theorem pbArmsOK_mem {a : PBArms} (h : PBArmsOK a = true) :
    (PKind.bool ∈ a.toPB ∧ PKind.flt ∈ a.toPB ∧ PKind.int ∈ a.toPB ∧ PKind.str ∈ a.toPB ∧ PKind.arr ∈ a.toPB ∧
      PKind.hsh ∈ a.toPB) ∧
    (PKind.bool ∈ a.fromPB ∧ PKind.flt ∈ a.fromPB ∧ PKind.int ∈ a.fromPB ∧ PKind.str ∈ a.fromPB ∧
      PKind.arr ∈ a.fromPB ∧ PKind.hsh ∈ a.fromPB) ∧
    (PKind.bool ∈ a.consume ∧ PKind.flt ∈ a.consume ∧ PKind.int ∈ a.consume ∧ PKind.str ∈ a.consume ∧
      PKind.arr ∈ a.consume ∧ PKind.hsh ∈ a.consume ∧ PKind.bin ∈ a.consume ∧ PKind.ref ∈ a.consume) := by
  simp [PBArmsOK, List.all_cons] at h
  obtain ⟨⟨⟨h1, h1'⟩, ⟨h2, h2'⟩, ⟨h3, h3'⟩, ⟨h4, h4'⟩, ⟨h5, h5'⟩, h6, h6'⟩, c1, c2, c3, c4, c5, c6, c7, c8⟩ := h
  exact ⟨⟨h1, h2, h3, h4, h5, h6⟩, ⟨h1', h2', h3', h4', h5', h6'⟩, c1, c2, c3, c4, c5, c6, c7, c8⟩

mutual
theorem pb_value (a : PBArms) (ha : PBArmsOK a = true) : ∀ v : DVal, NoBin v = true → fromPB a (toPB a v) = v
  | .undef, _ => by simp [toPB, fromPB]
  | .bool _, _ => by simp [toPB, fromPB, (pbArmsOK_mem ha).1.1, (pbArmsOK_mem ha).2.1.1]
  | .int _, _ => by simp [toPB, fromPB, (pbArmsOK_mem ha).1.2.2.1, (pbArmsOK_mem ha).2.1.2.2.1]
  | .flt _, _ => by simp [toPB, fromPB, (pbArmsOK_mem ha).1.2.1, (pbArmsOK_mem ha).2.1.2.1]
  | .str _, _ => by simp [toPB, fromPB, (pbArmsOK_mem ha).1.2.2.2.1, (pbArmsOK_mem ha).2.1.2.2.2.1]
  | .bin _, h => by simp [NoBin] at h
  | .arr vs, h => by
      simp [toPB, fromPB, (pbArmsOK_mem ha).1.2.2.2.2.1, (pbArmsOK_mem ha).2.1.2.2.2.2.1, pb_values a ha vs (by simpa [NoBin] using h)]
  | .hsh es, h => by
      simp [toPB, fromPB, (pbArmsOK_mem ha).1.2.2.2.2.2, (pbArmsOK_mem ha).2.1.2.2.2.2.2, pb_entries a ha es (by simpa [NoBin] using h)]
theorem pb_values (a : PBArms) (ha : PBArmsOK a = true) :
    ∀ vs : List DVal, NoBins vs = true → fromPBs a (toPBs a vs) = vs
  | [], _ => rfl
  | v :: vs, h => by
      have h' : NoBin v = true ∧ NoBins vs = true := by simpa [NoBins] using h
      simp [toPBs, fromPBs, pb_value a ha v h'.1, pb_values a ha vs h'.2]
theorem pb_entries (a : PBArms) (ha : PBArmsOK a = true) :
    ∀ es : List (DVal × DVal), NoBines es = true → fromPBes a (toPBes a es) = es
  | [], _ => rfl
  | (k, v) :: es, h => by
      have h' : (NoBin k = true ∧ NoBin v = true) ∧ NoBines es = true := by simpa [NoBines] using h
      simp [toPBes, fromPBes, pb_value a ha k h'.1.1, pb_value a ha v h'.1.2, pb_entries a ha es h'.2]
end

/-- `FromPBData(ToPBData(v)) = v` for every Data value, for ANY arm table satisfying `PBArmsOK`
    (Binary is not Data; on the current tree `FromPBData` has no Binary arm) -/
theorem C11_pb_value (a : PBArms) (ha : PBArmsOK a = true) (v : DVal) (h : NoBin v = true) :
    fromPB a (toPB a v) = v := pb_value a ha v h

mutual
/-- feeding the events of `ConsumePBData(p)` to a `protoConsumer` rebuilds `p` -/
theorem pb_stream (a : PBArms) (ha : PBArmsOK a = true) : ∀ p : PB, protoConsume (consumePB a p) = some p
  | .bool _ => by simp [consumePB, PB.kind, (pbArmsOK_mem ha).2.2.1, protoConsume]
  | .flt _ => by simp [consumePB, PB.kind, (pbArmsOK_mem ha).2.2.2.1, protoConsume]
  | .int _ => by simp [consumePB, PB.kind, (pbArmsOK_mem ha).2.2.2.2.1, protoConsume]
  | .str _ => by simp [consumePB, PB.kind, (pbArmsOK_mem ha).2.2.2.2.2.1, protoConsume]
  | .undef => by simp [consumePB, PB.kind, protoConsume]
  | .bin _ => by simp [consumePB, PB.kind, (pbArmsOK_mem ha).2.2.2.2.2.2.2.2.1, protoConsume]
  | .ref _ => by simp [consumePB, (pbArmsOK_mem ha).2.2.2.2.2.2.2.2.2, protoConsume]
  | .arr vs => by simp [consumePB, (pbArmsOK_mem ha).2.2.2.2.2.2.1, protoConsume, pb_streams a ha vs]
  | .hsh es => by
      have ih := pb_streames a ha es
      cases h : protoConsumes (consumePBes a es) with
      | none => simp [h] at ih
      | some cs =>
        simp only [h, Option.bind_some] at ih
        simp [consumePB, (pbArmsOK_mem ha).2.2.2.2.2.2.2.1, protoConsume, h, ih]
theorem pb_streams (a : PBArms) (ha : PBArmsOK a = true) :
    ∀ vs : List PB, protoConsumes (consumePBs a vs) = some vs
  | [] => rfl
  | v :: vs => by simp [consumePBs, protoConsumes, pb_stream a ha v, pb_streams a ha vs]
theorem pb_streames (a : PBArms) (ha : PBArmsOK a = true) :
    ∀ es : List (PB × PB), (protoConsumes (consumePBes a es)).bind pairUp = some es
  | [] => rfl
  | (k, v) :: es => by
      have ih := pb_streames a ha es
      cases h : protoConsumes (consumePBes a es) with
      | none => simp [h] at ih
      | some cs =>
        simp [h] at ih
        simp [consumePBes, protoConsumes, pb_stream a ha k, pb_stream a ha v, h, pairUp, ih]
end

theorem C11_pb_stream (a : PBArms) (ha : PBArmsOK a = true) (p : PB) : protoConsume (consumePB a p) = some p :=
  pb_stream a ha p

/-- value → protobuf → event stream → protobuf consumer → value -/
theorem C11_pb_events (a : PBArms) (ha : PBArmsOK a = true) (v : DVal) (h : NoBin v = true) :
    (protoConsume (consumePB a (toPB a v))).map (fromPB a) = some v := by
  simp [C11_pb_stream a ha, C11_pb_value a ha v h]

/-- instantiated on the arm table regenerated from proto/convert.go -/
theorem C11_impl_pb (v : DVal) (h : NoBin v = true) :
    fromPB pbArms (toPB pbArms v) = v ∧ (protoConsume (consumePB pbArms (toPB pbArms v))).map (fromPB pbArms) = some v :=
  ⟨C11_pb_value _ C11_pb_arms_ok v h, C11_pb_events _ C11_pb_arms_ok v h⟩

example : NoBin (.hsh [(.str "a", .arr [.int 1, .flt 0, .undef])]) = true := by decide

end Pcore.Json
