import Pcore.Proofs.FilesSound
import Pcore.Proofs.FilesOnce
import Pcore.Proofs.FilesPath
import Pcore.Proofs.FilesGlobal
import Pcore.Proofs.FilesModule
import Pcore.Proofs.FilesError
import Pcore.Proofs.FilesAbsent
import Pcore.Proofs.FilesFlat
import Pcore.Proofs.FilesKinds
import Pcore.Proofs.FilesDeep
import Pcore.Proofs.FilesAncestor
import Pcore.Proofs.FilesTypeset
import Pcore.Proofs.FilesTermMain
import Pcore.Proofs.FilesTypesetChild
import Pcore.Proofs.FilesFuelMono
import Pcore.Proofs.FilesTypesetDep
import Pcore.Proofs.FilesAncestorMod
import Pcore.Proofs.FilesInitDep
import Pcore.Proofs.FilesDepRefind
/-!
# C15 — File-based loading maps names to definition files faithfully

Property (properties.jsonl): for every module directory layout and every requested name, a type is found if and only if a
definition file exists at the path derived from the name (module prefix, types directory, lower-cased name segments, .pp
extension), the loaded definition carries the requested name, lookups ignore letter case, and each file is parsed at most
once.  A name without a file stays absent without side effects, and a malformed or misnamed file surfaces as a reported
error that names that file and the line.

All theorems are about the executable model `Pcore.Model.Files` (the code as it is now, after fixes 80f753b, 51b01c7,
8bf8d8e, 9d272bd); the model is tied to the code by the correspondence run (`./check C15`).  They quantify over every tree (a list
of (path, body) in any walk order), every module list, every context loader, every lookup sequence and every fuel.

Full statement / proved / missing
* `C15_path_name` (proved, full) — name → path → name: the file at `EffectivePath(n)` is indexed (by `TypedNames`) under
  exactly the key of `n`, for every smart path and every name except the two reserved names of a module
  (`<mod>::init`, `<mod>::init_typeset`; `C15_reserved_names` shows the exclusion is real — by design).
  `C15_index_iff` restates it on the index `find` consults.
* `C15_once` (proved, full) — for ANY tree, module list, context loader, fuel and lookup sequence, no path is read twice.
  `C15_once_needs_guard`: with the code before fix 51b01c7 (`guardInit := false`) the module's `init_typeset.pp` is read
  again and again until the fuel (the Go stack) is exhausted and the answer is `diverges`.
* `C15_name`, `C15_found_sound` (proved, full: the "only if" half of found ⇔ file, and the name clause) — whenever a lookup
  answers `found d`, `d` carries the requested name up to letter case and is justified: it is a core type, or some file of
  the tree that sits where the index points for that name (or for the enclosing type set) defines it.
* `C15_absent` (proved, FULL: every context loader, name, state and fuel) — when no loader has an origin for the name or
  any of its prefixes (and its first segment's module has no `init_typeset`), the lookup never answers `found`, reads
  nothing and changes the caches by nil placeholders only.
* `C15_found_iff_global`, `C15_absent_global`, `C15_error_global` (proved; PARTIAL with respect to `C15_found_iff_full` /
  `C15_error_full`) — the "if" half, absence and error location for the global loader used as the
  context's loader, for a name the cache does not hold yet whose first origin is not a type set.
* `C15_found_iff_module`, `C15_found_iff_dependency`, `C15_module_outcome`, `C15_dependency_outcome` (proved; partial) —
  the same for a module-relative name `Mod::X` through the module's loader and through the dependency loader, when the
  global loader has no file for `Mod::X` nor for `Mod`: the whole parent-first route (global miss, parent type-set search,
  placeholder, module index, definition into the context's loader, the dependency loader answering what `SetEntry`
  returns — fix 80f753b) is evaluated symbolically; found ⇔ the module's file defines the name, errors name that file,
  the file is the only read.
  `C15_absent_module`: no file anywhere on the route ⇒ `notfound`, no read, placeholders only.
* `C15_error_no_binding` (proved, full: every loader, context loader, state and fuel) — `instantiate` of a defective file
  (misnamed, malformed, no definition, unreadable) panics with the error that names the file and leaves the state changed
  by the read and the placeholder of the REQUESTED name only: no loader gets a definition, in particular not for the name
  a misnamed file declares.  `C15_error_state_global`: the same for a whole lookup through the global loader.
  `C15_absent_stays_absent` (proved, full): a name whose key has no source (no core type, no file where the index points
  for it, no member of a type set that sits at its own place) is never answered `found`, at any position of any lookup
  sequence — whatever was looked up, found or reported before.
* `C15_unqualified_not_routed` (proved, full) — `dependencyLoader.find` routes by first segment only when the name is
  QUALIFIED: for an unqualified name it is exactly the loop over the members (the global loader first in the flat
  topology).  `C15_found_iff_flat_unqualified`, `C15_flat_unqualified_outcome` (proved): hence, in the flat topology, a
  one-segment name through the dependency loader is answered exactly as the global loader's first origin dictates — also
  when a module of that name exists (without `init_typeset`), in either letter case; the modules read nothing.
* `C15_ctor_agrees_isGlobal`, `C15_toplevel_outcome`, `C15_found_iff_toplevel`, `C15_absent_toplevel` (proved) — the three
  kinds of loader `newFileBasedLoader` distinguishes (module name ``, pseudo name `environment`, ordinary name): smart
  paths are module-name relative exactly for non-global loaders; for a top-level loader of any kind as the context's
  loader and any name (any depth) `find` lets through (`Routed`), the first origin in the loader's own index decides.
  `C15_has_iff_load_toplevel` (proved) — `HasEntry` ⇔ the lookup does not answer `notfound`, for such loaders and names;
  `C15_has_load_disagree`, `C15_has_load_disagree_reserved` — `C15_has_load_agree_full` is false in general (`HasEntry`
  consults the index only, `find` filters first).
  `C15_case_irrelevant_toplevel` (audit; proved) — "lookups ignore letter case" for this class: two spellings of one name
  get the same outcome and the same read (first origin not a bare expression).  Elsewhere letter case is covered by the
  name clause of `C15_name` and by examples.  NOTE: "a file at the derived path" is read through the index everywhere (a
  file matches when its LOWER-CASED relative path is the derived one: `Thing.pp` answers `Thing`).
* `C15_find_miss`, `C15_absent_global_deep` (proved) — the complete miss of a file loader for a name of ANY depth (every
  proper prefix cached or without origin): nothing answered, state untouched, fuel `3 * length`; `notfound` + one
  placeholder through the global loader.  `C15_module_outcome_deep`, `C15_found_iff_module_deep`,
  `C15_dependency_outcome_deep`, `C15_found_iff_dependency_deep` (proved) — the "if" half and error location for names of
  three and more segments through a module's loader / the dependency loader.  `C15_ancestor_loaded`, `C15_ancestor_error`
  (proved, global loader) — a name whose PARENT has a plain file: the parent is loaded on the way and the child stays
  absent; a defective parent file is the error of the child's lookup.
* `C15_typeset_toplevel`, `C15_init_typeset_toplevel`, `C15_member_via_parent_search`, `C15_member_cached` (proved, for a
  TOP-LEVEL loader as the context's loader: the global loader, a module's loader in the flat topology) — type sets with
  any number of members at any depth: loading one (index route and the module's `init_typeset` route) finds it, reads its
  file only, defines every member (kind by position) and leaves exactly `typesetState`; a member requested first is found
  through the parent search; members afterwards are answered from the cache.
* `C15_typeset_module`, `C15_init_typeset_module`, `C15_member_cached_module` (proved) — the same for a module's loader in
  the DEFAULT topology (child of the global loader, the context's loader): each lookup asks the global loader first, so a
  member costs a placeholder there, one in the module loader and the definition over the latter (`typesetState2`).
* `C15_typeset_dependency`, `C15_member_cached_dependency` (proved) — a qualified type set `Mod::…` through the DEPENDENCY
  loader: three placeholders per member (global, module, dependency loader) and the definitions in the dependency loader
  (`typesetState3`).
* `C15_ancestor_loaded_module`, `C15_ancestor_error_module` (proved) — `Mod::A::B` requested where only `Mod::A` has a file,
  through the module's loader below the global loader: `Mod::A` is loaded on the way, `Mod::A::B` stays absent; a defective
  `Mod::A` file is the error of the lookup of `Mod::A::B`.
* `C15_init_typeset_dependency` (proved) — a module's own unqualified name through the dependency loader, for any list of
  distinct ordinary modules: the loop over all members, `init_typeset.pp` the only read, exact state.
* `C15_dependency_miss_not_final`, `C15_dependency_miss_again` (proved; fix 9d272bd of /repo) — a miss recorded by the
  dependency loader is not final: a definition made meanwhile through the module's DefiningLoader is found, stored over
  the miss and answered; with nothing new `find` misses again and the state is untouched.
* missing: several existing ancestors at once, ancestors through the dependency loader, a module called `environment`
  among the members of that loop; it is false as
  stated for layouts that define one name twice (`C15_duplicate_redefine`, known finding C15-duplicate-redefine) and the
  error of a misnamed file carries no line (`C15_misnamed_no_line`, known finding C15-misnamed-no-line).  The OS (Walk
  order, permissions, symlinks), the parser and type resolution are parameters (DESIGN.md §5).
* `C15_terminates`, `C15_terminates_seq` (proved, full: any tree, modules, context loader, topology, state, names) —
  termination of the model: with `guardInit` and fuel `(W+1) * (|mods| + T + 3(|name| + W) + 14)` no lookup answers
  `diverges` (`W` = instantiable (loader, key) pairs without an entry, `T` = largest type set), and no lookup removes an
  entry.  `C15_fuel_irrelevant`, `C15_fuel_irrelevant_seq` (proved, full) — a lookup that does not run out of fuel
  answers the same (outcome and state) with any larger fuel; `C15_answer_determined` — hence with the guard every fuel
  from `seqBound` on gives the same outcomes and state.
-/
namespace Pcore.Files

/-! ## name ↔ path -/

theorem C15_path_name (sp : SmartPath) (n : Name) (p : Path) (hn : n ≠ [])
    (h : effectivePath sp n = .path p) (hr : ¬ Reserved sp n) :
    ∀ k, k ∈ fileKeys sp p ↔ k = keyOf n := by
  intro k
  rw [fileKeys_effectivePath sp n p hn h hr]
  simp

/-- on the index: a file of the tree sits at the effective path of `n` exactly when `find` gets it as an origin of `n` -/
theorem C15_index_iff (cfg : Cfg) (l : Lid) (n : Name) (p : Path) (hn : n ≠ [])
    (h : effectivePath (spOf l) n = .path p) (hr : ¬ Reserved (spOf l) n) :
    p ∈ idx cfg l (keyOf n) ↔ ∃ b, (p, b) ∈ cfg.tree := by
  unfold idx
  simp only [List.mem_map, List.mem_filter]
  constructor
  · rintro ⟨f, ⟨hf, _⟩, rfl⟩
    exact ⟨f.2, hf⟩
  · rintro ⟨b, hb⟩
    refine ⟨(p, b), ⟨hb, ?_⟩, rfl⟩
    rw [fileKeys_effectivePath (spOf l) n p hn h hr]
    simp

/-- non-vacuity: a nested, module-relative name in mixed case -/
example : effectivePath (spOf (.m "mymod")) ["MyMod", "Sub", "DEEP"] = .path ["modules", "mymod", "types", "sub", "deep.pp"] ∧
    ¬ Reserved (spOf (.m "mymod")) ["MyMod", "Sub", "DEEP"] := by
  refine ⟨by decide, ?_⟩
  rintro ⟨_, m, s, h, _⟩
  have : (keyOf ["MyMod", "Sub", "DEEP"]).length = 2 := by rw [h]; rfl
  exact absurd this (by decide)

/-- the exclusion is real (by design): `Mymod::Init_typeset` derives the path of the module's `init_typeset.pp`, which is
    indexed under the bare name `init_typeset` and stands for the module's own name -/
theorem C15_reserved_names :
    effectivePath (spOf (.m "mymod")) ["Mymod", "Init_typeset"] = .path ["modules", "mymod", "types", "init_typeset.pp"] ∧
    fileKeys (spOf (.m "mymod")) ["modules", "mymod", "types", "init_typeset.pp"] = [["init_typeset"]] := by
  decide

/-! ## each file is parsed at most once -/

theorem C15_once (cfg : Cfg) (hg : cfg.guardInit = true) (fuel : Nat) (names : List Name) (p : Path) :
    readCount (runLoads fuel cfg {} names).2 p ≤ 1 :=
  (once_runLoads hg fuel names {} once_init).1 p

/-- the same from any state the loaders can have reached -/
theorem C15_once_from (cfg : Cfg) (hg : cfg.guardInit = true) (fuel : Nat) (names : List Name) (s : St)
    (hs : InvOnce cfg s) (p : Path) : readCount (runLoads fuel cfg s names).2 p ≤ 1 :=
  (once_runLoads hg fuel names s hs).1 p

def tsCfg : Cfg :=
  { mods := ["mymod"], via := .d,
    tree := [(["modules", "mymod", "types", "init_typeset.pp"], .typ .typeset ["Mymod"] ["Ta", "Tb"]),
             (["modules", "mymod", "types", "thing.pp"], .typ .alias ["Mymod", "Thing"] [])] }

/-- non-vacuity: a sequence that reads both files (a type set, its members, a plain file, twice each) -/
example : (runLoads 60 tsCfg {} [["Mymod", "Ta"], ["mymod"], ["Mymod", "Thing"], ["MYMOD", "THING"], ["Mymod", "Tb"]]).1 =
    [.found ⟨.alias, ["Mymod", "Ta"]⟩, .found ⟨.typeset, ["Mymod"]⟩, .found ⟨.alias, ["Mymod", "Thing"]⟩,
     .found ⟨.alias, ["Mymod", "Thing"]⟩, .found ⟨.object, ["Mymod", "Tb"]⟩] ∧
    (runLoads 60 tsCfg {} [["Mymod", "Ta"], ["mymod"], ["Mymod", "Thing"], ["MYMOD", "THING"], ["Mymod", "Tb"]]).2.reads =
    [["modules", "mymod", "types", "init_typeset.pp"], ["modules", "mymod", "types", "thing.pp"]] := by
  decide

set_option maxRecDepth 8000 in
/-- fixed defect (51b01c7): without the placeholder guard on the `init_typeset` route the lookup of a module's type set
    re-reads the file until the fuel runs out — the stack overflow of the original code -/
theorem C15_once_needs_guard :
    (loadS 100 { tsCfg with guardInit := false } {} ["Mymod"]).1 = .failed .diverges ∧
    readCount (loadS 100 { tsCfg with guardInit := false } {} ["Mymod"]).2
      ["modules", "mymod", "types", "init_typeset.pp"] > 1 := by
  decide

/-! ## found ⇒ a file at the derived place defines it, under the requested name -/

theorem C15_found_sound (cfg : Cfg) (fuel : Nat) (s : St) (hs : Inv cfg s) (name : Name) (d : Def)
    (h : (loadS fuel cfg s name).1 = .found d) :
    keyOf d.name = keyOf name ∧ Justified cfg d ∧ Inv cfg (loadS fuel cfg s name).2 :=
  let r := sound_loadS fuel cfg s name hs
  ⟨(r.2 d h).1, (r.2 d h).2, r.1⟩

/-- over a whole lookup sequence from the empty caches: the i-th answer, when it is `found d`, carries the i-th requested
    name up to letter case and is justified by a file of the tree -/
theorem C15_name (cfg : Cfg) (fuel : Nat) (names : List Name) :
    ∀ (s : St), Inv cfg s → ∀ (i : Nat) (d : Def), (runLoads fuel cfg s names).1[i]? = some (Outcome.found d) →
      ∃ name, names[i]? = some name ∧ keyOf d.name = keyOf name ∧ Justified cfg d := by
  induction names with
  | nil => intro s _ i d h; simp [runLoads] at h
  | cons n ns ih =>
    intro s hs i d h
    simp only [runLoads] at h
    cases i with
    | zero =>
      simp only [List.getElem?_cons_zero, Option.some.injEq] at h
      exact ⟨n, rfl, (C15_found_sound cfg fuel s hs n d h).1, (C15_found_sound cfg fuel s hs n d h).2.1⟩
    | succ j =>
      simp only [List.getElem?_cons_succ] at h
      exact ih _ (sound_loadS fuel cfg s n hs).1 j d h

theorem C15_name_fresh (cfg : Cfg) (fuel : Nat) (names : List Name) (i : Nat) (d : Def)
    (h : (runLoads fuel cfg {} names).1[i]? = some (Outcome.found d)) :
    ∃ name, names[i]? = some name ∧ keyOf d.name = keyOf name ∧ Justified cfg d :=
  C15_name cfg fuel names {} (inv_init cfg) i d h

/-- non-vacuity: a lookup in another letter case is found and carries the name as defined -/
example : (loadS 60 tsCfg {} ["MYMOD", "thing"]).1 = .found ⟨.alias, ["Mymod", "Thing"]⟩ := by decide

/-! ## the global loader as the context's loader: found ⇔ file, absent, errors (partial) -/

/-- full statement (not proved in general; false for layouts with two definitions of one name, see below): through any
    context loader a name the caches do not hold is found iff the first file the index offers for it — or the type set
    of an enclosing name — defines it -/
def C15_found_iff_full : Prop :=
  ∀ (cfg : Cfg) (name : Name) (fuel : Nat), fuel ≥ 5000 → sysLoad name = none →
    ((∃ d, (loadS fuel cfg {} name).1 = .found d) ↔
      ∃ d, keyOf d.name = keyOf name ∧ d.kind ≠ .core ∧ Justified cfg d)

theorem C15_found_iff_global (cfg : Cfg) (hv : cfg.via = .g) (name : Name) (s : St) (n : Nat)
    (hsys : sysLoad name = none) (hget : s.get .g (keyOf name) = none)
    (habs : idx cfg .g (keyOf name) = [] → qualified name = false) (hnt : NotTypeset cfg name) :
    (∃ d, (loadS (n+7) cfg s name).1 = .found d) ↔
      ∃ p ps, idx cfg .g (keyOf name) = p :: ps ∧
        ((∃ k nm ts, bodyAt cfg.tree p = some (.typ k nm ts) ∧ keyOf nm = keyOf name) ∨ bodyAt cfg.tree p = some .bare) := by
  rw [(global_plain cfg hv name s n hsys hget habs hnt).1]
  unfold plainOutcome
  cases hi : idx cfg .g (keyOf name) with
  | nil => simp
  | cons p ps =>
    simp only []
    cases hb : bodyAt cfg.tree p with
    | none => simp [hb]
    | some b =>
      cases b with
      | unreadable => simp [hb]
      | malformed ln => simp [hb]
      | nodef => simp [hb]
      | bare => simp [hb]
      | typ k nm ts =>
        by_cases hk : keyOf nm = keyOf name
        · simp [hb, hk]
          exact ⟨k, nm, ⟨rfl, rfl⟩, hk⟩
        · simp [hb, hk]

/-- FULL, for every context loader, name, state and fuel: when no loader has an origin for the name or for any of its
    prefixes (and the module named by its first segment has no `init_typeset`; no prefix is a core type) and no cache holds
    a definition for them, the lookup never answers `found` (it answers `notfound`, or reports the invalid characters of
    the name), reads nothing, and changes the caches by nil placeholders only -/
theorem C15_absent (cfg : Cfg) (name : Name) (hne : name ≠ []) (fuel : Nat) (s : St)
    (ha : AbsentRoute cfg name) (h0 : NoDef name s) :
    (∀ d, (loadS fuel cfg s name).1 ≠ .found d) ∧ (loadS fuel cfg s name).2.reads = s.reads ∧
      Frame s (loadS fuel cfg s name).2 :=
  absent_loadS ha h0 hne fuel

def absCfg : Cfg :=
  { mods := ["mymod", "other"], via := .d, tree := [(["env", "types", "thing.pp"], .typ .alias ["Thing"] [])] }

/-- non-vacuity: a nested absent name below a module, through the dependency loader, next to a file that does exist -/
example : AbsentRoute absCfg ["Other", "Sub", "Nope"] ∧ NoDef ["Other", "Sub", "Nope"] ({} : St) ∧
    loadS 40 absCfg {} ["Other", "Sub", "Nope"] =
      (.notfound, (({} : St).put .g ["other", "sub", "nope"] none |>.put (.m "other") ["other", "sub", "nope"] none
        |>.put .d ["other", "sub", "nope"] none)) := by
  have hpre : ∀ nm : Name, OnRoute ["Other", "Sub", "Nope"] nm →
      nm = ["Other"] ∨ nm = ["Other", "Sub"] ∨ nm = ["Other", "Sub", "Nope"] := by
    intro nm ⟨hne, t, ht⟩
    match nm, hne, ht with
    | [], hne, _ => exact absurd rfl hne
    | [x], _, ht =>
      simp at ht
      exact Or.inl (by rw [ht.1])
    | [x, y], _, ht =>
      simp at ht
      exact Or.inr (Or.inl (by rw [ht.1, ht.2.1]))
    | [x, y, z], _, ht =>
      simp at ht
      exact Or.inr (Or.inr (by rw [ht.1, ht.2.1, ht.2.2.1]))
    | x :: y :: z :: w :: r, _, ht => simp at ht
  refine ⟨⟨?_, ?_, ?_⟩, ?_, by decide⟩
  · intro l nm hr
    cases l with
    | m mod =>
      -- the only file lies below `env`: no module indexes it
      simp [idx, absCfg, fileKeys, relOf, spOf, SmartPath.generic]
    | g => rcases hpre nm hr with h | h | h <;> subst h <;> decide
    | d => rcases hpre nm hr with h | h | h <;> subst h <;> decide
  · intro mod _
    simp [idx, absCfg, fileKeys, relOf, spOf, SmartPath.generic]
  · intro nm hr
    rcases hpre nm hr with h | h | h <;> subst h <;> decide
  · intro l nm d _ h; cases h

/-- no file: the answer is `notfound`, nothing is read, and the only change is a placeholder for that name -/
theorem C15_absent_global (cfg : Cfg) (hv : cfg.via = .g) (name : Name) (s : St) (n : Nat)
    (hsys : sysLoad name = none) (hget : s.get .g (keyOf name) = none)
    (hq : qualified name = false) (hi : idx cfg .g (keyOf name) = []) :
    loadS (n+7) cfg s name = (.notfound, s.put .g (keyOf name) none) ∧
    (loadS (n+7) cfg s name).2.reads = s.reads := by
  have hnt : NotTypeset cfg name := by
    intro p ps nm ts h; rw [hi] at h; cases h
  have h := global_plain cfg hv name s n hsys hget (fun _ => hq) hnt
  have h1 : (loadS (n+7) cfg s name).1 = .notfound := by rw [h.1]; unfold plainOutcome; rw [hi]
  have h2 := h.2.2 hi
  refine ⟨Prod.ext h1 h2, ?_⟩
  rw [h.2.1, hi]; simp

/-- full statement: a defective file is reported with its path and — when the defect has a place in the file — the line.
    False for misnamed files (`C15_misnamed_no_line`). -/
def C15_error_full : Prop :=
  ∀ (cfg : Cfg) (name : Name) (fuel : Nat) (p : Path) (ps : List Path) (k : Kind) (nm : Name) (ts : List String),
    cfg.via = .g → fuel ≥ 7 → sysLoad name = none → idx cfg .g (keyOf name) = p :: ps →
    bodyAt cfg.tree p = some (.typ k nm ts) → keyOf nm ≠ keyOf name →
    ∃ code line, line ≥ 1 ∧ (loadS fuel cfg {} name).1 = .failed (.reported code (some p) line)

/-- malformed / misnamed / empty / unreadable first origin: the error names that file (and the line of a syntax error),
    the file is read once, the name keeps a placeholder -/
theorem C15_error_global (cfg : Cfg) (hv : cfg.via = .g) (name : Name) (s : St) (n : Nat) (p : Path) (ps : List Path)
    (hsys : sysLoad name = none) (hget : s.get .g (keyOf name) = none) (hi : idx cfg .g (keyOf name) = p :: ps) :
    (∀ ln, bodyAt cfg.tree p = some (.malformed ln) →
      (loadS (n+7) cfg s name).1 = .failed (.reported "PARSE_ERROR" (some p) ln)) ∧
    (∀ k nm ts, bodyAt cfg.tree p = some (.typ k nm ts) → keyOf nm ≠ keyOf name →
      (loadS (n+7) cfg s name).1 = .failed (.reported "PCORE_WRONG_DEFINITION" (some p) 0)) ∧
    (bodyAt cfg.tree p = some .nodef →
      (loadS (n+7) cfg s name).1 = .failed (.reported "PCORE_NO_DEFINITION" (some p) 0)) ∧
    (bodyAt cfg.tree p = some .unreadable →
      (loadS (n+7) cfg s name).1 = .failed (.reported "PCORE_UNABLE_TO_READ_FILE" (some p) 0)) := by
  have habs : idx cfg .g (keyOf name) = [] → qualified name = false := by intro h; rw [hi] at h; cases h
  refine ⟨?_, ?_, ?_, ?_⟩
  · intro ln hb
    have hnt : NotTypeset cfg name := by
      intro p' ps' nm ts h; rw [hi] at h; cases h; rw [hb]; intro h'; cases h'
    rw [(global_plain cfg hv name s n hsys hget habs hnt).1]; unfold plainOutcome; rw [hi]; simp only []; rw [hb]
  · intro k nm ts hb hk
    -- a misnamed type set is refused before its members are looked at: evaluate directly
    by_cases hkt : k = .typeset
    · subst hkt
      obtain ⟨mods, tree, via, gi, fl⟩ := cfg
      simp only at hv
      subst hv
      unfold loadS load
      simp only [loadEntry, fbLoadEntry, find_g, findTail, bind, pure, getSt, hsys, hget, hi, instantiate, setEntry,
        instantiator, modifySt]
      simp only at hb
      simp [hb, hk, raise]
    · have hnt : NotTypeset cfg name := by
        intro p' ps' nm' ts' h; rw [hi] at h; cases h; rw [hb]; intro h'; injection h' with h'; injection h' with h1
        exact hkt h1
      rw [(global_plain cfg hv name s n hsys hget habs hnt).1]; unfold plainOutcome; rw [hi]; simp only []; rw [hb]
      simp [hk]
  · intro hb
    have hnt : NotTypeset cfg name := by
      intro p' ps' nm ts h; rw [hi] at h; cases h; rw [hb]; intro h'; cases h'
    rw [(global_plain cfg hv name s n hsys hget habs hnt).1]; unfold plainOutcome; rw [hi]; simp only []; rw [hb]
  · intro hb
    have hnt : NotTypeset cfg name := by
      intro p' ps' nm ts h; rw [hi] at h; cases h; rw [hb]; intro h'; cases h'
    rw [(global_plain cfg hv name s n hsys hget habs hnt).1]; unfold plainOutcome; rw [hi]; simp only []; rw [hb]

def gCfg : Cfg :=
  { mods := [], via := .g,
    tree := [(["env", "types", "Thing.pp"], .typ .object ["Thing"] []),
             (["env", "types", "bad.pp"], .malformed 3),
             (["env", "types", "ns", "deep.pp"], .typ .alias ["Ns", "Other"] []),
             (["env", "types", "stray.txt"], .typ .alias ["Stray"] [])] }

/-- non-vacuity of the hypotheses and of each conclusion, on one tree: found (file-name case irrelevant), absent (a stray
    extension is no file), syntax error with its line, misnamed -/
example : idx gCfg .g (keyOf ["THING"]) = [["env", "types", "Thing.pp"]] ∧ sysLoad ["THING"] = none ∧
    (loadS 7 gCfg {} ["THING"]).1 = .found ⟨.object, ["Thing"]⟩ ∧
    idx gCfg .g (keyOf ["Stray"]) = [] ∧ loadS 7 gCfg {} ["Stray"] = (.notfound, ({} : St).put .g ["stray"] none) ∧
    (loadS 7 gCfg {} ["Bad"]).1 = .failed (.reported "PARSE_ERROR" (some ["env", "types", "bad.pp"]) 3) ∧
    (loadS 7 gCfg {} ["Ns", "Deep"]).1 = .failed (.reported "PCORE_WRONG_DEFINITION" (some ["env", "types", "ns", "deep.pp"]) 0) := by
  decide

/-- added by the audit (notes/audit-C15.md) — the hypothesis `NotTypeset` of `C15_found_iff_global`, which the example above
    leaves implicit, holds of that tree and name -/
example : NotTypeset gCfg ["THING"] := by
  intro p ps nm ts h
  have hi : idx gCfg .g (keyOf ["THING"]) = [["env", "types", "Thing.pp"]] := by decide
  have hb : bodyAt gCfg.tree ["env", "types", "Thing.pp"] = some (.typ .object ["Thing"] []) := by decide
  rw [hi] at h
  cases h
  rw [hb]
  intro h'
  cases h'

/-- added by the audit — HOW "a definition file exists at the path derived from the name" IS READ by every theorem of this
    file: through the INDEX (`idx`: the files whose lower-cased relative path yields the key), not through `effectivePath`.
    The two agree for lower-case file names (`C15_index_iff`); a file whose NAME has capitals is found although no file sits
    at the derived (lower-cased) path — the oracle of the harness reads the property the same way ("lookups ignore letter
    case" applied to the file name too), and on a case-sensitive file system the implementation behaves like this -/
example : effectivePath (spOf .g) ["THING"] = .path ["env", "types", "thing.pp"] ∧
    bodyAt gCfg.tree ["env", "types", "thing.pp"] = none ∧
    idx gCfg .g (keyOf ["THING"]) = [["env", "types", "Thing.pp"]] ∧
    (loadS 7 gCfg {} ["THING"]).1 = .found ⟨.object, ["Thing"]⟩ := by decide

/-! ## a module-relative name through the module loader and through the dependency loader (partial) -/

/-- the outcome (found / wrong definition / parse error with its line / no definition / unreadable) is decided by the
    first origin of the key in the module's index, and that file is the only one read -/
theorem C15_module_outcome (cfg : Cfg) (mod : String) (hv : cfg.via = .m mod) (hflat : cfg.flat = false)
    (hm : isGlobalMod mod = false)
    (a b : String) (s : St) (n : Nat)
    (hparts : partsOf [a, b] = some [mod, lowerS b]) (hsys : sysLoad [a, b] = none)
    (hg1 : s.get .g (keyOf [a, b]) = none) (hg2 : s.get .g (keyOf [a]) = none)
    (hm1 : s.get (.m mod) (keyOf [a, b]) = none)
    (hi1 : idx cfg .g (keyOf [a, b]) = []) (hi2 : idx cfg .g (keyOf [a]) = [])
    (p : Path) (ps : List Path) (hi : idx cfg (.m mod) (keyOf [a, b]) = p :: ps)
    (hnt : ∀ nm ts, bodyAt cfg.tree p ≠ some (.typ .typeset nm ts)) :
    (loadS (n+9) cfg s [a, b]).1 = plainOutcomeAt cfg (.m mod) [a, b] ∧
    (loadS (n+9) cfg s [a, b]).2.reads = s.reads ++ [p] :=
  module_plain cfg mod hv hflat hm a b s n hparts hsys hg1 hg2 hm1 hi1 hi2 p ps hi hnt

theorem C15_found_iff_module (cfg : Cfg) (mod : String) (hv : cfg.via = .m mod) (hflat : cfg.flat = false)
    (hm : isGlobalMod mod = false)
    (a b : String) (s : St) (n : Nat)
    (hparts : partsOf [a, b] = some [mod, lowerS b]) (hsys : sysLoad [a, b] = none)
    (hg1 : s.get .g (keyOf [a, b]) = none) (hg2 : s.get .g (keyOf [a]) = none)
    (hm1 : s.get (.m mod) (keyOf [a, b]) = none)
    (hi1 : idx cfg .g (keyOf [a, b]) = []) (hi2 : idx cfg .g (keyOf [a]) = [])
    (p : Path) (ps : List Path) (hi : idx cfg (.m mod) (keyOf [a, b]) = p :: ps)
    (hnt : ∀ nm ts, bodyAt cfg.tree p ≠ some (.typ .typeset nm ts)) :
    (∃ d, (loadS (n+9) cfg s [a, b]).1 = .found d) ↔
      ((∃ k nm ts, bodyAt cfg.tree p = some (.typ k nm ts) ∧ keyOf nm = keyOf [a, b]) ∨ bodyAt cfg.tree p = some .bare) := by
  rw [(module_plain cfg mod hv hflat hm a b s n hparts hsys hg1 hg2 hm1 hi1 hi2 p ps hi hnt).1, plainOutcomeAt_found]
  constructor
  · rintro ⟨p', ps', h', hb⟩
    rw [hi] at h'; cases h'; exact hb
  · intro hb; exact ⟨p, ps, hi, hb⟩

theorem C15_dependency_outcome (cfg : Cfg) (mod : String) (hv : cfg.via = .d) (hflat : cfg.flat = false)
    (hmods : cfg.mods.contains mod = true)
    (hm : isGlobalMod mod = false) (a b : String) (s : St) (n : Nat)
    (hparts : partsOf [a, b] = some [mod, lowerS b]) (hsys : sysLoad [a, b] = none)
    (hd1 : s.get .d (keyOf [a, b]) = none)
    (hg1 : s.get .g (keyOf [a, b]) = none) (hg2 : s.get .g (keyOf [a]) = none)
    (hm1 : s.get (.m mod) (keyOf [a, b]) = none)
    (hi1 : idx cfg .g (keyOf [a, b]) = []) (hi2 : idx cfg .g (keyOf [a]) = [])
    (p : Path) (ps : List Path) (hi : idx cfg (.m mod) (keyOf [a, b]) = p :: ps)
    (hnt : ∀ nm ts, bodyAt cfg.tree p ≠ some (.typ .typeset nm ts)) :
    (loadS (n+11) cfg s [a, b]).1 = plainOutcomeAt cfg (.m mod) [a, b] ∧
    (loadS (n+11) cfg s [a, b]).2.reads = s.reads ++ [p] :=
  dependency_plain cfg mod hv hflat hmods hm a b s n hparts hsys hd1 hg1 hg2 hm1 hi1 hi2 p ps hi hnt

/-- through the dependency loader the first lookup already finds the type (fixed defect 80f753b: it used to answer the
    module loader's nil placeholder) -/
theorem C15_found_iff_dependency (cfg : Cfg) (mod : String) (hv : cfg.via = .d) (hflat : cfg.flat = false)
    (hmods : cfg.mods.contains mod = true)
    (hm : isGlobalMod mod = false) (a b : String) (s : St) (n : Nat)
    (hparts : partsOf [a, b] = some [mod, lowerS b]) (hsys : sysLoad [a, b] = none)
    (hd1 : s.get .d (keyOf [a, b]) = none)
    (hg1 : s.get .g (keyOf [a, b]) = none) (hg2 : s.get .g (keyOf [a]) = none)
    (hm1 : s.get (.m mod) (keyOf [a, b]) = none)
    (hi1 : idx cfg .g (keyOf [a, b]) = []) (hi2 : idx cfg .g (keyOf [a]) = [])
    (p : Path) (ps : List Path) (hi : idx cfg (.m mod) (keyOf [a, b]) = p :: ps)
    (hnt : ∀ nm ts, bodyAt cfg.tree p ≠ some (.typ .typeset nm ts)) :
    (∃ d, (loadS (n+11) cfg s [a, b]).1 = .found d) ↔
      ((∃ k nm ts, bodyAt cfg.tree p = some (.typ k nm ts) ∧ keyOf nm = keyOf [a, b]) ∨ bodyAt cfg.tree p = some .bare) := by
  rw [(dependency_plain cfg mod hv hflat hmods hm a b s n hparts hsys hd1 hg1 hg2 hm1 hi1 hi2 p ps hi hnt).1,
    plainOutcomeAt_found]
  constructor
  · rintro ⟨p', ps', h', hb⟩
    rw [hi] at h'; cases h'; exact hb
  · intro hb; exact ⟨p, ps, hi, hb⟩

/-- a module-relative name with no file anywhere on its route (global loader: `Mod::X`, `Mod`; module: `Mod::X`,
    `init_typeset`): `notfound`, nothing is read, and the only change is a placeholder for that name in the two loaders
    that were asked -/
theorem C15_absent_module (cfg : Cfg) (mod : String) (hv : cfg.via = .m mod) (hflat : cfg.flat = false)
    (hm : isGlobalMod mod = false)
    (a b : String) (s : St) (n : Nat)
    (hparts : partsOf [a, b] = some [mod, lowerS b]) (hparts1 : partsOf [a] = some [mod])
    (hsys : sysLoad [a, b] = none)
    (hg1 : s.get .g (keyOf [a, b]) = none) (hg2 : s.get .g (keyOf [a]) = none)
    (hm1 : s.get (.m mod) (keyOf [a, b]) = none) (hm2 : s.get (.m mod) (keyOf [a]) = none)
    (hi1 : idx cfg .g (keyOf [a, b]) = []) (hi2 : idx cfg .g (keyOf [a]) = [])
    (hi3 : idx cfg (.m mod) (keyOf [a, b]) = []) (hi4 : idx cfg (.m mod) ["init_typeset"] = []) :
    loadS (n+9) cfg s [a, b] = (.notfound, (s.put .g (keyOf [a, b]) none).put (.m mod) (keyOf [a, b]) none) ∧
    (loadS (n+9) cfg s [a, b]).2.reads = s.reads := by
  have h := module_absent cfg mod hv hflat hm a b s n hparts hparts1 hsys hg1 hg2 hm1 hm2 hi1 hi2 hi3 hi4
  exact ⟨h, by rw [h]; rfl⟩

def modCfg (via : Lid) : Cfg :=
  { mods := ["other", "mymod"], via := via,
    tree := [(["modules", "mymod", "types", "Thing.pp"], .typ .alias ["Mymod", "Thing"] []),
             (["modules", "mymod", "types", "bad.pp"], .malformed 2),
             (["modules", "other", "types", "thing.pp"], .bare)] }

/-- non-vacuity: the hypotheses hold from the empty caches and the conclusions are the interesting ones (found in another
    letter case, a syntax error with its line, a bare expression taking the requested name) -/
example : partsOf ["MYMOD", "thing"] = some ["mymod", lowerS "thing"] ∧ sysLoad ["MYMOD", "thing"] = none ∧
    idx (modCfg (.m "mymod")) .g (keyOf ["MYMOD", "thing"]) = [] ∧ idx (modCfg (.m "mymod")) .g (keyOf ["MYMOD"]) = [] ∧
    idx (modCfg (.m "mymod")) (.m "mymod") (keyOf ["MYMOD", "thing"]) = [["modules", "mymod", "types", "Thing.pp"]] ∧
    (loadS 9 (modCfg (.m "mymod")) {} ["MYMOD", "thing"]).1 = .found ⟨.alias, ["Mymod", "Thing"]⟩ ∧
    (loadS 11 (modCfg .d) {} ["MYMOD", "thing"]).1 = .found ⟨.alias, ["Mymod", "Thing"]⟩ ∧
    (loadS 11 (modCfg .d) {} ["Mymod", "Bad"]).1 =
      .failed (.reported "PARSE_ERROR" (some ["modules", "mymod", "types", "bad.pp"]) 2) ∧
    (loadS 11 (modCfg .d) {} ["other", "THING"]).1 = .found ⟨.alias, ["other", "THING"]⟩ ∧
    partsOf ["Mymod"] = some ["mymod"] ∧ idx (modCfg (.m "mymod")) (.m "mymod") ["init_typeset"] = [] ∧
    idx (modCfg (.m "mymod")) (.m "mymod") (keyOf ["Mymod", "Nope"]) = [] ∧
    (loadS 9 (modCfg (.m "mymod")) {} ["Mymod", "Nope"]).1 = .notfound := by
  decide

/-! ## the dependency loader never routes an unqualified name by its first segment -/

theorem C15_unqualified_not_routed (n : Nat) (cfg : Cfg) (name : Name) (hq : qualified name = false) :
    dFind (n+1) cfg name = dMembers n cfg name :=
  dFind_unqualified n cfg name hq

/-- flat topology (the global loader is the first member of the dependency loader): a one-segment name is answered as the
    global loader's first origin dictates, whatever the modules are called — a module of the same name only matters when
    it has an `init_typeset` — and that origin is the only file read -/
theorem C15_flat_unqualified_outcome (cfg : Cfg) (hv : cfg.via = .d) (hflat : cfg.flat = true) (a x : String) (s : St)
    (n : Nat) (hparts : partsOf [a] = some [x]) (hsys : sysLoad [a] = none)
    (hd : s.get .d (keyOf [a]) = none) (hg : s.get .g (keyOf [a]) = none)
    (hmd : ∀ m d, s.get (.m m) (keyOf [a]) ≠ some (some d))
    (hmods : ∀ m ∈ cfg.mods, isGlobalMod m = false ∧ (m = x → idx cfg (.m m) ["init_typeset"] = []))
    (hnt : ∀ p ps nm ts, idx cfg .g (keyOf [a]) = p :: ps → bodyAt cfg.tree p ≠ some (.typ .typeset nm ts)) :
    (loadS (n + cfg.mods.length + 10) cfg s [a]).1 = plainOutcomeAt cfg .g [a] ∧
    (loadS (n + cfg.mods.length + 10) cfg s [a]).2.reads = s.reads ++ (idx cfg .g (keyOf [a])).head?.toList :=
  flat_unqualified cfg hv hflat a x s n hparts hsys hd hg hmd hmods hnt

theorem C15_found_iff_flat_unqualified (cfg : Cfg) (hv : cfg.via = .d) (hflat : cfg.flat = true) (a x : String) (s : St)
    (n : Nat) (hparts : partsOf [a] = some [x]) (hsys : sysLoad [a] = none)
    (hd : s.get .d (keyOf [a]) = none) (hg : s.get .g (keyOf [a]) = none)
    (hmd : ∀ m d, s.get (.m m) (keyOf [a]) ≠ some (some d))
    (hmods : ∀ m ∈ cfg.mods, isGlobalMod m = false ∧ (m = x → idx cfg (.m m) ["init_typeset"] = []))
    (hnt : ∀ p ps nm ts, idx cfg .g (keyOf [a]) = p :: ps → bodyAt cfg.tree p ≠ some (.typ .typeset nm ts)) :
    (∃ d, (loadS (n + cfg.mods.length + 10) cfg s [a]).1 = .found d) ↔
      ∃ p ps, idx cfg .g (keyOf [a]) = p :: ps ∧
        ((∃ k nm ts, bodyAt cfg.tree p = some (.typ k nm ts) ∧ keyOf nm = keyOf [a]) ∨ bodyAt cfg.tree p = some .bare) := by
  rw [(flat_unqualified cfg hv hflat a x s n hparts hsys hd hg hmd hmods hnt).1, plainOutcomeAt_found]

def flatCfg : Cfg :=
  { mods := ["other", "billing"], via := .d, flat := true,
    tree := [(["env", "types", "billing.pp"], .typ .alias ["Billing"] []),
             (["modules", "billing", "types", "invoice.pp"], .typ .object ["Billing", "Invoice"] [])] }

/-- non-vacuity: a global type named like a module (which has no `init_typeset`), looked up in both letter cases, and the
    module's own qualified type next to it -/
example : partsOf ["BILLING"] = some ["billing"] ∧ sysLoad ["BILLING"] = none ∧
    idx flatCfg .g (keyOf ["BILLING"]) = [["env", "types", "billing.pp"]] ∧
    idx flatCfg (.m "billing") ["init_typeset"] = [] ∧
    (runLoads 14 flatCfg {} [["BILLING"], ["billing"], ["Billing", "Invoice"], ["Other"]]).1 =
      [.found ⟨.alias, ["Billing"]⟩, .found ⟨.alias, ["Billing"]⟩, .found ⟨.object, ["Billing", "Invoice"]⟩, .notfound] ∧
    (runLoads 14 flatCfg {} [["BILLING"], ["billing"], ["Billing", "Invoice"], ["Other"]]).2.reads =
      [["env", "types", "billing.pp"], ["modules", "billing", "types", "invoice.pp"]] := by
  decide

/-! ## error lookups bind nothing; a name without a source stays absent whatever happened before -/

theorem C15_error_no_binding (cfg : Cfg) (n : Nat) (l : Lid) (name : Name) (p : Path) (ps : List Path) (s : St) (b : Body)
    (hb : bodyAt cfg.tree p = some b) (hd : Defective b name) (hget : s.get l (keyOf name) = none) :
    instantiate (n+2) cfg l name (p :: ps) s = .fail (defectErr p b) ((s.put l (keyOf name) none).addRead p) ∧
    (∀ l' k' d, ((s.put l (keyOf name) none).addRead p).get l' k' = some (some d) → s.get l' k' = some (some d)) := by
  refine ⟨instantiate_defective cfg n l name p ps s b hb hd hget, ?_⟩
  intro l' k' d h
  rw [get_addRead, get_put] at h
  by_cases hk : (l', k') = (l, keyOf name)
  · rw [if_pos hk] at h; cases h
  · rw [if_neg hk] at h; exact h

/-- a whole lookup through the global loader that meets a defective first origin: the error, and the exact state left —
    the placeholder of the requested name and the read, nothing else -/
theorem C15_error_state_global (cfg : Cfg) (hv : cfg.via = .g) (name : Name) (s : St) (n : Nat) (p : Path) (ps : List Path)
    (b : Body) (hsys : sysLoad name = none) (hget : s.get .g (keyOf name) = none)
    (hi : idx cfg .g (keyOf name) = p :: ps) (hb : bodyAt cfg.tree p = some b) (hd : Defective b name) :
    loadS (n+7) cfg s name = (.failed (defectErr p b), (s.put .g (keyOf name) none).addRead p) :=
  global_defective_state cfg hv name s n p ps b hsys hget hi hb hd

/-- the key has no source: no core type, no file where the index points for it, no type set (at its own place) listing it -/
def NoSource (cfg : Cfg) (k : Key) : Prop :=
  (∀ e ∈ staticTypes, e.1 ≠ k) ∧ (∀ p, ¬ At cfg p k) ∧
  (∀ p nm ts t, bodyAt cfg.tree p = some (.typ .typeset nm ts) → t ∈ ts → keyOf (nm ++ [t]) = k → ¬ At cfg p (keyOf nm))

theorem C15_absent_stays_absent (cfg : Cfg) (fuel : Nat) (names : List Name) (i : Nat) (name : Name)
    (hno : NoSource cfg (keyOf name)) (hn : names[i]? = some name) (d : Def) :
    (runLoads fuel cfg {} names).1[i]? ≠ some (Outcome.found d) := by
  intro h
  obtain ⟨name', hn', hk, hj⟩ := C15_name_fresh cfg fuel names i d h
  rw [hn] at hn'
  cases hn'
  obtain ⟨hstatic, hat, hts⟩ := hno
  cases hj with
  | inl hs =>
    obtain ⟨e, he, hed⟩ := hs
    have hkeys : ∀ e ∈ staticTypes, keyOf e.2.name = e.1 := by decide
    apply hstatic e he
    rw [← hkeys e he, hed, hk]
  | inr hf =>
    obtain ⟨p, b, hb, hcase⟩ := hf
    cases hcase with
    | inl h1 =>
      obtain ⟨ts, _, hat1⟩ := h1
      rw [hk] at hat1
      exact hat p hat1
    | inr h2 =>
      cases h2 with
      | inl h3 =>
        obtain ⟨nm, ts, t, j, hb', ht, hd, hat3⟩ := h3
        rw [hb'] at hb
        refine hts p nm ts t hb ht ?_ hat3
        rw [← hk, hd]
      | inr h4 =>
        obtain ⟨_, _, hat4⟩ := h4
        rw [hk] at hat4
        exact hat p hat4

def wrongCfg : Cfg :=
  { mods := [], via := .g,
    tree := [(["env", "types", "real.pp"], .typ .object ["Real"] []),
             (["env", "types", "wrong.pp"], .typ .alias ["Other"] []),
             (["env", "types", "wrong2.pp"], .typ .alias ["Real"] [])] }

/-- non-vacuity: `Other` (declared by the misnamed `wrong.pp`, no file of its own) has no source and stays absent after
    the error; `Real` (declared by the misnamed `wrong2.pp` too) is answered from `real.pp` in both orders, and the error
    of the misnamed file stays the same -/
example : Defective (.typ .alias ["Other"] []) ["Wrong"] ∧
    (runLoads 9 wrongCfg {} [["Other"], ["Wrong"], ["Other"], ["Wrong2"], ["Real"]]).1 =
      [.notfound, .failed (.reported "PCORE_WRONG_DEFINITION" (some ["env", "types", "wrong.pp"]) 0), .notfound,
       .failed (.reported "PCORE_WRONG_DEFINITION" (some ["env", "types", "wrong2.pp"]) 0), .found ⟨.object, ["Real"]⟩] ∧
    (runLoads 9 wrongCfg {} [["Real"], ["Wrong2"], ["Real"]]).1 =
      [.found ⟨.object, ["Real"]⟩, .failed (.reported "PCORE_WRONG_DEFINITION" (some ["env", "types", "wrong2.pp"]) 0),
       .found ⟨.object, ["Real"]⟩] ∧
    (runLoads 9 wrongCfg {} [["Wrong2"], ["Real"]]).2.reads = [["env", "types", "wrong2.pp"], ["env", "types", "real.pp"]] := by
  refine ⟨?_, by decide, by decide, by decide⟩
  show keyOf ["Other"] ≠ keyOf ["Wrong"]
  decide

/-- added by the audit — the hypothesis `NoSource` of `C15_absent_stays_absent` is satisfiable: the example above only SAYS that
    `Other` has no source in `wrongCfg`; here it is proved (no core type; no loader — global, dependency, a module of ANY
    name — indexes a file under `other`; no file of the tree holds a type set) -/
example : NoSource wrongCfg (keyOf ["Other"]) := by
  have hg : idx wrongCfg .g (keyOf ["Other"]) = [] := by decide
  have hd : idx wrongCfg .d (keyOf ["Other"]) = [] := by decide
  refine ⟨by decide, ?_, ?_⟩
  · rintro p ⟨l, h⟩
    cases l with
    | m mod =>
      rcases h with h | ⟨_, _, _, hk, _⟩
      · simp [idx, wrongCfg, fileKeys, relOf, spOf, SmartPath.generic] at h
      · cases hk
        simp [idx, wrongCfg, fileKeys, relOf, spOf, SmartPath.generic] at *
    | g =>
      rcases h with h | ⟨_, hl, _⟩
      · rw [hg] at h; cases h
      · cases hl
    | d =>
      rcases h with h | ⟨_, hl, _⟩
      · rw [hd] at h; cases h
      · cases hl
  · intro p nm ts t hb
    exfalso
    unfold bodyAt at hb
    cases hf : wrongCfg.tree.find? (fun f => f.1 = p) with
    | none => rw [hf] at hb; cases hb
    | some f =>
      rw [hf] at hb
      simp only [Option.some.injEq] at hb
      have hm := List.mem_of_find?_eq_some hf
      simp only [wrongCfg, List.mem_cons, List.not_mem_nil, or_false] at hm
      rcases hm with rfl | rfl | rfl <;> cases hb

/-! ## the three kinds of loader the constructor distinguishes; `HasEntry` against `LoadEntry` -/

/-- `newFileBasedLoader` and `isGlobal()` agree: a loader's smart paths are module-name relative exactly when the loader
    is not global — for the module name ``, for the pseudo name `environment` and for every other name (seeded change
    C15-s8 made the constructor treat `environment` as an ordinary name) -/
theorem C15_ctor_agrees_isGlobal (l : Lid) : (spOf l).moduleNameRelative = !isGlobalMod l.moduleName :=
  spOf_relative l

/-- the constructor as a function (`Model/FilesCtor.lean`, op `ctor`): for ANY root, module name and list of path types,
    every smart path it builds carries the flag `!isGlobal(moduleName)` (and the loader's name and root) — one per path
    type; it refuses (PCORE_ILLEGAL_ARGUMENT) exactly the lists that hold a path type without a factory; and the smart path
    `find` / `HasEntry` / `Discover` of the model consult (`spOf`) IS the one it builds for the data-type path -/
theorem C15_ctor_paths (root : Path) (mod : String) (pts : List String) :
    ((∃ sps, newLoaderPaths root mod pts = .ok sps) ↔ ∀ pt ∈ pts, pt = "puppetDataType") ∧
    (∀ sps, newLoaderPaths root mod pts = .ok sps →
      sps.length = pts.length ∧
      ∀ sp ∈ sps, sp.moduleNameRelative = !isGlobalMod mod ∧ sp.moduleName = mod ∧ sp.root = root) ∧
    (∀ l : Lid, newLoaderPaths (spOf l).root l.moduleName ["puppetDataType"] = .ok [spOf l]) :=
  ⟨newLoaderPaths_ok_iff root mod pts, newLoaderPaths_flag root mod pts, spOf_is_ctor⟩

/-- non-vacuity: the registered path type is accepted for each kind of name, `plan` is refused -/
example : (∃ sps, newLoaderPaths ["r"] "environment" ["puppetDataType", "puppetDataType"] = .ok sps) ∧
    newLoaderPaths ["r"] "mymod" ["puppetDataType", "plan"] = .error illegalArgument := by
  exact ⟨⟨_, rfl⟩, rfl⟩

/-- a TOP-LEVEL file loader of any kind as the context's loader (the global loader; a module's loader in the flat
    topology, whatever its name): for every name `find` lets through to the index, the first origin of the key in the
    loader's OWN index decides the outcome, and that file is the only one read -/
theorem C15_toplevel_outcome (cfg : Cfg) (l : Lid) (hv : cfg.via = l)
    (hl : l = .g ∨ (∃ mod, l = .m mod) ∧ cfg.flat = true) (name : Name) (s : St) (n : Nat)
    (hsys : sysLoad name = none) (hget : s.get l (keyOf name) = none) (hroute : Routed l name)
    (p : Path) (ps : List Path) (hi : idx cfg l (keyOf name) = p :: ps)
    (hnt : ∀ nm ts, bodyAt cfg.tree p ≠ some (.typ .typeset nm ts)) :
    (loadS (n+7) cfg s name).1 = plainOutcomeAt cfg l name ∧ (loadS (n+7) cfg s name).2.reads = s.reads ++ [p] :=
  toplevel_plain cfg l hv hl name s n hsys hget hroute p ps hi hnt

theorem C15_found_iff_toplevel (cfg : Cfg) (l : Lid) (hv : cfg.via = l)
    (hl : l = .g ∨ (∃ mod, l = .m mod) ∧ cfg.flat = true) (name : Name) (s : St) (n : Nat)
    (hsys : sysLoad name = none) (hget : s.get l (keyOf name) = none) (hroute : Routed l name)
    (p : Path) (ps : List Path) (hi : idx cfg l (keyOf name) = p :: ps)
    (hnt : ∀ nm ts, bodyAt cfg.tree p ≠ some (.typ .typeset nm ts)) :
    (∃ d, (loadS (n+7) cfg s name).1 = .found d) ↔
      ((∃ k nm ts, bodyAt cfg.tree p = some (.typ k nm ts) ∧ keyOf nm = keyOf name) ∨ bodyAt cfg.tree p = some .bare) := by
  rw [(toplevel_plain cfg l hv hl name s n hsys hget hroute p ps hi hnt).1, plainOutcomeAt_found]
  constructor
  · rintro ⟨p', ps', h', hb⟩
    rw [hi] at h'; cases h'; exact hb
  · intro hb; exact ⟨p, ps, hi, hb⟩

/-- an unqualified name without an origin in the loader's own index: `notfound`, nothing read, one placeholder -/
theorem C15_absent_toplevel (cfg : Cfg) (l : Lid) (hv : cfg.via = l)
    (hl : l = .g ∨ (∃ mod, l = .m mod) ∧ cfg.flat = true) (name : Name) (s : St) (n : Nat)
    (hsys : sysLoad name = none) (hget : s.get l (keyOf name) = none) (hroute : Routed l name)
    (hq : qualified name = false) (hi : idx cfg l (keyOf name) = []) :
    loadS (n+7) cfg s name = (.notfound, s.put l (keyOf name) none) :=
  toplevel_absent cfg l hv hl name s n hsys hget hroute hq hi

def kindCfg (via : Lid) : Cfg :=
  { mods := ["mymod", "environment"], via := via, flat := true,
    tree := [(["env", "types", "environment", "thing.pp"], .typ .object ["Environment", "Thing"] []),
             (["env", "types", "thing.pp"], .typ .alias ["Thing"] []),
             (["modules", "environment", "types", "environment", "thing.pp"], .typ .object ["Environment", "Thing"] []),
             (["modules", "environment", "types", "mymod", "thing.pp"], .typ .alias ["Mymod", "Thing"] []),
             (["modules", "environment", "types", "thing.pp"], .typ .alias ["Thing"] []),
             (["modules", "mymod", "types", "mymod", "thing.pp"], .typ .object ["Mymod", "Mymod", "Thing"] []),
             (["modules", "mymod", "types", "thing.pp"], .typ .alias ["Mymod", "Thing"] [])] }

/-- non-vacuity, the three kinds side by side with files at BOTH candidate locations of a name (`types/thing.pp` and
    `types/<loader name>/thing.pp`): the global loader and the `environment` loader key them `thing` and
    `environment::thing` (not module-name relative), the ordinary module `mymod::thing` and `mymod::mymod::thing`; the
    hypotheses of `C15_toplevel_outcome` hold (`Routed`) and each lookup reads the file its own kind of path derives -/
example :
    Routed (.m "environment") ["Thing"] ∧ Routed (.m "environment") ["Environment", "Thing"] ∧
    Routed (.m "mymod") ["Mymod", "Thing"] ∧ Routed .g ["Environment", "Thing"] ∧
    idx (kindCfg .g) (.m "environment") (keyOf ["Thing"]) = [["modules", "environment", "types", "thing.pp"]] ∧
    idx (kindCfg .g) (.m "environment") (keyOf ["Environment", "Thing"]) =
      [["modules", "environment", "types", "environment", "thing.pp"]] ∧
    idx (kindCfg .g) (.m "mymod") (keyOf ["Mymod", "Thing"]) = [["modules", "mymod", "types", "thing.pp"]] ∧
    idx (kindCfg .g) (.m "mymod") (keyOf ["Mymod", "Mymod", "Thing"]) = [["modules", "mymod", "types", "mymod", "thing.pp"]] ∧
    idx (kindCfg .g) .g (keyOf ["Environment", "Thing"]) = [["env", "types", "environment", "thing.pp"]] ∧
    (runLoads 7 (kindCfg (.m "environment")) {} [["Thing"], ["Environment", "Thing"], ["Mymod", "Thing"]]).1 =
      [.found ⟨.alias, ["Thing"]⟩, .found ⟨.object, ["Environment", "Thing"]⟩, .notfound] ∧
    (runLoads 7 (kindCfg (.m "environment")) {} [["Thing"], ["Environment", "Thing"], ["Mymod", "Thing"]]).2.reads =
      [["modules", "environment", "types", "thing.pp"], ["modules", "environment", "types", "environment", "thing.pp"]] ∧
    (runLoads 7 (kindCfg (.m "mymod")) {} [["Thing"], ["Mymod", "Thing"], ["Mymod", "Mymod", "Thing"]]).1 =
      [.notfound, .found ⟨.alias, ["Mymod", "Thing"]⟩, .found ⟨.object, ["Mymod", "Mymod", "Thing"]⟩] ∧
    (runLoads 7 (kindCfg .g) {} [["Thing"], ["Environment", "Thing"]]).2.reads =
      [["env", "types", "thing.pp"], ["env", "types", "environment", "thing.pp"]] := by
  refine ⟨Or.inr ⟨rfl, rfl⟩, Or.inl ⟨rfl, Or.inr ⟨_, rfl, rfl⟩⟩, Or.inl ⟨rfl, Or.inr ⟨_, rfl, rfl⟩⟩, Or.inl ⟨rfl, Or.inl rfl⟩,
    by decide, by decide, by decide, by decide, by decide, by decide, by decide, by decide, by decide⟩

/-- `HasEntry` and `LoadEntry` of a top-level file loader agree on every name `find` lets through to the index (not cached
    yet, first origin not a type set, and — when there is no origin — unqualified, so that no parent search starts):
    `HasEntry` answers true exactly when the lookup does not answer `notfound` (it finds the type or reports the file) -/
theorem C15_has_iff_load_toplevel (cfg : Cfg) (l : Lid) (hv : cfg.via = l)
    (hl : l = .g ∨ (∃ mod, l = .m mod) ∧ cfg.flat = true) (name : Name) (s : St) (n : Nat)
    (hsys : sysLoad name = none) (hget : s.get l (keyOf name) = none) (hroute : Routed l name)
    (habs : idx cfg l (keyOf name) = [] → qualified name = false)
    (hnt : ∀ p ps nm ts, idx cfg l (keyOf name) = p :: ps → bodyAt cfg.tree p ≠ some (.typ .typeset nm ts)) :
    hasEntry cfg s l (keyOf name) = true ↔ (loadS (n+7) cfg s name).1 ≠ .notfound := by
  have hld : l ≠ .d := by
    rcases hl with h | ⟨⟨mod, h⟩, _⟩ <;> rw [h] <;> intro h' <;> cases h'
  have hst := sysLoad_none_static name hsys
  have hthird : ¬ ((∃ mod, l = .m mod) ∧ cfg.flat = false ∧ idx cfg .g (keyOf name) ≠ []) := by
    rintro ⟨⟨mod, hm⟩, hf, _⟩
    rcases hl with h | ⟨_, h⟩
    · rw [h] at hm; cases hm
    · rw [h] at hf; cases hf
  rw [hasEntry_file cfg s l hld]
  cases hi : idx cfg l (keyOf name) with
  | nil =>
    rw [toplevel_absent cfg l hv hl name s n hsys hget hroute (habs hi) hi]
    constructor
    · rintro (h | h | h)
      · rw [hst] at h; cases h
      · exact absurd rfl h
      · exact absurd h hthird
    · intro h; exact absurd rfl h
  | cons p ps =>
    rw [(toplevel_plain cfg l hv hl name s n hsys hget hroute p ps hi (hnt p ps · · hi)).1]
    constructor
    · intro _ h
      rw [plainOutcomeAt_notfound, hi] at h
      cases h
    · intro _; exact Or.inr (Or.inl (by simp))

/-- full statement (false, see `C15_has_load_disagree`): `HasEntry` of a file loader answers true exactly for the names a
    lookup through it does not answer `notfound` -/
def C15_has_load_agree_full : Prop :=
  ∀ (cfg : Cfg) (name : Name) (fuel : Nat), fuel ≥ 7 → cfg.via ≠ .d → sysLoad name = none →
    (hasEntry cfg {} cfg.via (keyOf name) = true ↔ (loadS fuel cfg {} name).1 ≠ .notfound)

/-- `HasEntry` looks at the index only, `find` filters first.  Two witnesses: (1) a loader called `environment` indexes
    `types/mymod/thing.pp` as `mymod::thing` (not module-name relative) but `find` refuses every qualified name that does
    not start with `environment`; (2) the reserved file `init_typeset.pp` of an ordinary module is indexed under the bare
    key `init_typeset`, which `find` refuses as an unqualified name other than the module's.  (The property speaks about
    lookups only; both sides agree — correspondence ops `has`.) -/
theorem C15_has_load_disagree : ¬ C15_has_load_agree_full := by
  intro h
  have h1 := (h (kindCfg (.m "environment")) ["Mymod", "Thing"] 7 (Nat.le_refl _) (by decide) (by decide)).mp (by decide)
  exact h1 (by decide)

theorem C15_has_load_disagree_reserved :
    hasEntry tsCfg {} (.m "mymod") (keyOf ["Init_typeset"]) = true ∧
    (loadS 40 { tsCfg with via := .m "mymod" } {} ["Init_typeset"]).1 = .notfound := by
  decide

/-- added by the audit — both sides of `C15_has_iff_load_toplevel` on concrete inputs (its hypotheses are those of
    `C15_toplevel_outcome`, shown above): `HasEntry` true / the lookup finds; `HasEntry` false / `notfound`; `HasEntry` true /
    the lookup REPORTS (a malformed file: "does not answer notfound" is not "finds") -/
example : hasEntry (kindCfg (.m "environment")) {} (.m "environment") (keyOf ["Thing"]) = true ∧
    (loadS 7 (kindCfg (.m "environment")) {} ["Thing"]).1 ≠ .notfound ∧
    hasEntry (kindCfg (.m "environment")) {} (.m "environment") (keyOf ["Nope"]) = false ∧
    (loadS 7 (kindCfg (.m "environment")) {} ["Nope"]).1 = .notfound ∧
    hasEntry gCfg {} .g (keyOf ["Bad"]) = true ∧
    (loadS 7 gCfg {} ["Bad"]).1 = .failed (.reported "PARSE_ERROR" (some ["env", "types", "bad.pp"]) 3) := by decide

/-- added by the audit — "lookups ignore letter case" as a THEOREM for the class of `C15_toplevel_outcome` (elsewhere it is only
    the name clause of `C15_name` plus examples): two spellings of one name (same key) are answered alike — same outcome, same
    file read — through a top-level loader of any kind, when the first origin is not a bare expression (a bare expression
    takes the name AS SPELLED by the caller: `plainOutcomeAt`).  The hypotheses are asked of one spelling only; they depend on
    the key alone. -/
theorem C15_case_irrelevant_toplevel (cfg : Cfg) (l : Lid) (hv : cfg.via = l)
    (hl : l = .g ∨ (∃ mod, l = .m mod) ∧ cfg.flat = true) (name name' : Name) (hk : keyOf name' = keyOf name)
    (s : St) (n : Nat)
    (hsys : sysLoad name = none) (hget : s.get l (keyOf name) = none) (hroute : Routed l name)
    (p : Path) (ps : List Path) (hi : idx cfg l (keyOf name) = p :: ps)
    (hnt : ∀ nm ts, bodyAt cfg.tree p ≠ some (.typ .typeset nm ts)) (hnb : bodyAt cfg.tree p ≠ some .bare) :
    (loadS (n+7) cfg s name').1 = (loadS (n+7) cfg s name).1 ∧
    (loadS (n+7) cfg s name').2.reads = (loadS (n+7) cfg s name).2.reads := by
  have hlen : name'.length = name.length := by
    have := congrArg List.length hk
    simpa [keyOf] using this
  have hsys' : sysLoad name' = none := by unfold sysLoad at hsys ⊢; rw [hk]; exact hsys
  have hroute' : Routed l name' := by
    unfold Routed at hroute ⊢
    unfold qualified partsOf at hroute ⊢
    rw [hk, hlen]; exact hroute
  have h1 := toplevel_plain cfg l hv hl name s n hsys hget hroute p ps hi hnt
  have h2 := toplevel_plain cfg l hv hl name' s n hsys' (hk ▸ hget) hroute' p ps (hk ▸ hi) hnt
  refine ⟨?_, by rw [h1.2, h2.2]⟩
  rw [h1.1, h2.1]
  unfold plainOutcomeAt
  rw [hk, hi]
  simp only []
  cases hb : bodyAt cfg.tree p with
  | none => rfl
  | some b =>
    cases b with
    | bare => exact absurd hb hnb
    | _ => rfl
-- non-vacuity: two spellings with one key below the `environment` loader (hypotheses: the `kindCfg` example above); the first
-- origin is an alias definition, no bare expression; both are answered with the name as DEFINED
example : keyOf ["THING"] = keyOf ["Thing"] ∧
    bodyAt (kindCfg (.m "environment")).tree ["modules", "environment", "types", "thing.pp"] = some (.typ .alias ["Thing"] []) ∧
    (loadS 7 (kindCfg (.m "environment")) {} ["THING"]).1 = .found ⟨.alias, ["Thing"]⟩ ∧
    (loadS 7 (kindCfg (.m "environment")) {} ["Thing"]).1 = .found ⟨.alias, ["Thing"]⟩ := by decide
-- … and the exclusion is real: a bare expression is answered under the caller's spelling (`modCfg`: `other/types/thing.pp`)
example : (loadS 11 (modCfg .d) {} ["other", "THING"]).1 = .found ⟨.alias, ["other", "THING"]⟩ ∧
    (loadS 11 (modCfg .d) {} ["Other", "Thing"]).1 = .found ⟨.alias, ["Other", "Thing"]⟩ := by decide

/-! ## names of any depth; names whose ancestors exist -/

/-- the complete miss of one file loader, for a name of ANY depth: no origin for the name, every proper prefix cached (it
    is skipped) or without origin (`QuietAnc`) — `find` answers nothing and leaves the state untouched, given fuel
    `3 * length` (the nested recursion `find → findTail → parentSearch → find` unwound by induction on the length) -/
theorem C15_find_miss (cfg : Cfg) (l : Lid) (s : St) (name : Name) (hne : name ≠ []) (hq : QuietAnc cfg l s name)
    (hi : idx cfg l (keyOf name) = []) (fuel : Nat) (hf : 3 * name.length ≤ fuel) :
    find fuel cfg l name s = .ok none s :=
  find_miss cfg l s name hne hq hi fuel hf

/-- absence through the global loader for a name of any depth: `notfound`, nothing read, exactly one placeholder -/
theorem C15_absent_global_deep (cfg : Cfg) (hv : cfg.via = .g) (name : Name) (hne : name ≠ []) (s : St) (m : Nat)
    (hfuel : 3 * name.length ≤ m) (hsys : sysLoad name = none)
    (hq : QuietAnc cfg .g s name) (hi : idx cfg .g (keyOf name) = []) :
    loadS (m+2) cfg s name = (.notfound, s.put .g (keyOf name) none) :=
  global_absent_deep cfg hv name hne s m hfuel hsys hq hi

/-- a name of ANY depth (two, three and more segments) through a module's loader — an ordinary module or one called
    `environment` — in the children-of-global topology: when the global loader misses completely, the first origin of the
    key in the module's index decides (found / the error naming that file and line), and that file is the only one read -/
theorem C15_module_outcome_deep (cfg : Cfg) (mod : String) (hv : cfg.via = .m mod) (hflat : cfg.flat = false)
    (name : Name) (hne : name ≠ []) (s : St) (m : Nat) (hfuel : 3 * name.length ≤ m + 5)
    (hsys : sysLoad name = none)
    (hqg : QuietAnc cfg .g s name) (hig : idx cfg .g (keyOf name) = [])
    (hm1 : s.get (.m mod) (keyOf name) = none) (hroute : Routed (.m mod) name)
    (p : Path) (ps : List Path) (hi : idx cfg (.m mod) (keyOf name) = p :: ps)
    (hnt : ∀ nm ts, bodyAt cfg.tree p ≠ some (.typ .typeset nm ts)) :
    (loadS (m+8) cfg s name).1 = plainOutcomeAt cfg (.m mod) name ∧
    (loadS (m+8) cfg s name).2.reads = s.reads ++ [p] :=
  module_deep cfg mod hv hflat name hne s m hfuel hsys hqg hig hm1 hroute p ps hi hnt

theorem C15_found_iff_module_deep (cfg : Cfg) (mod : String) (hv : cfg.via = .m mod) (hflat : cfg.flat = false)
    (name : Name) (hne : name ≠ []) (s : St) (m : Nat) (hfuel : 3 * name.length ≤ m + 5)
    (hsys : sysLoad name = none)
    (hqg : QuietAnc cfg .g s name) (hig : idx cfg .g (keyOf name) = [])
    (hm1 : s.get (.m mod) (keyOf name) = none) (hroute : Routed (.m mod) name)
    (p : Path) (ps : List Path) (hi : idx cfg (.m mod) (keyOf name) = p :: ps)
    (hnt : ∀ nm ts, bodyAt cfg.tree p ≠ some (.typ .typeset nm ts)) :
    (∃ d, (loadS (m+8) cfg s name).1 = .found d) ↔
      ((∃ k nm ts, bodyAt cfg.tree p = some (.typ k nm ts) ∧ keyOf nm = keyOf name) ∨ bodyAt cfg.tree p = some .bare) := by
  rw [(module_deep cfg mod hv hflat name hne s m hfuel hsys hqg hig hm1 hroute p ps hi hnt).1, plainOutcomeAt_found]
  constructor
  · rintro ⟨p', ps', h', hb⟩
    rw [hi] at h'; cases h'; exact hb
  · intro hb; exact ⟨p, ps, hi, hb⟩

/-- the same through the dependency loader (a qualified name is routed to the module its first segment names) -/
theorem C15_dependency_outcome_deep (cfg : Cfg) (mod : String) (hv : cfg.via = .d) (hflat : cfg.flat = false)
    (hmods : cfg.mods.contains mod = true)
    (name : Name) (hne : name ≠ []) (hqual : qualified name = true) (s : St) (m : Nat) (hfuel : 3 * name.length ≤ m + 5)
    (hparts : ∃ ps, partsOf name = some ps ∧ ps.head? = some mod)
    (hsys : sysLoad name = none) (hd1 : s.get .d (keyOf name) = none)
    (hqg : QuietAnc cfg .g s name) (hig : idx cfg .g (keyOf name) = [])
    (hm1 : s.get (.m mod) (keyOf name) = none)
    (p : Path) (ps : List Path) (hi : idx cfg (.m mod) (keyOf name) = p :: ps)
    (hnt : ∀ nm ts, bodyAt cfg.tree p ≠ some (.typ .typeset nm ts)) :
    (loadS (m+10) cfg s name).1 = plainOutcomeAt cfg (.m mod) name ∧
    (loadS (m+10) cfg s name).2.reads = s.reads ++ [p] :=
  dependency_deep cfg mod hv hflat hmods name hne hqual s m hfuel hparts hsys hd1 hqg hig hm1 p ps hi hnt

theorem C15_found_iff_dependency_deep (cfg : Cfg) (mod : String) (hv : cfg.via = .d) (hflat : cfg.flat = false)
    (hmods : cfg.mods.contains mod = true)
    (name : Name) (hne : name ≠ []) (hqual : qualified name = true) (s : St) (m : Nat) (hfuel : 3 * name.length ≤ m + 5)
    (hparts : ∃ ps, partsOf name = some ps ∧ ps.head? = some mod)
    (hsys : sysLoad name = none) (hd1 : s.get .d (keyOf name) = none)
    (hqg : QuietAnc cfg .g s name) (hig : idx cfg .g (keyOf name) = [])
    (hm1 : s.get (.m mod) (keyOf name) = none)
    (p : Path) (ps : List Path) (hi : idx cfg (.m mod) (keyOf name) = p :: ps)
    (hnt : ∀ nm ts, bodyAt cfg.tree p ≠ some (.typ .typeset nm ts)) :
    (∃ d, (loadS (m+10) cfg s name).1 = .found d) ↔
      ((∃ k nm ts, bodyAt cfg.tree p = some (.typ k nm ts) ∧ keyOf nm = keyOf name) ∨ bodyAt cfg.tree p = some .bare) := by
  rw [(dependency_deep cfg mod hv hflat hmods name hne hqual s m hfuel hparts hsys hd1 hqg hig hm1 p ps hi hnt).1,
    plainOutcomeAt_found]
  constructor
  · rintro ⟨p', ps', h', hb⟩
    rw [hi] at h'; cases h'; exact hb
  · intro hb; exact ⟨p, ps, hi, hb⟩

def deepCfg (via : Lid) : Cfg :=
  { mods := ["other", "mymod"], via := via,
    tree := [(["env", "types", "ns", "a.pp"], .typ .alias ["Ns", "A"] []),
             (["env", "types", "ns", "bad.pp"], .malformed 4),
             (["modules", "mymod", "types", "sub", "deep", "Leaf.pp"], .typ .object ["Mymod", "Sub", "Deep", "Leaf"] []),
             (["modules", "mymod", "types", "sub", "deep", "bad.pp"], .malformed 3)] }

/-- non-vacuity: a four-segment name in another letter case — the hypotheses hold from the empty caches (the global loader
    is quiet for it: `quietAnc_of_check`), it is found through the module loader and through the dependency loader; its
    malformed sibling is reported with file and line -/
example : QuietAnc (deepCfg .d) .g {} ["MYMOD", "sub", "Deep", "LEAF"] ∧
    idx (deepCfg .d) .g (keyOf ["MYMOD", "sub", "Deep", "LEAF"]) = [] ∧
    Routed (.m "mymod") ["MYMOD", "sub", "Deep", "LEAF"] ∧
    idx (deepCfg .d) (.m "mymod") (keyOf ["MYMOD", "sub", "Deep", "LEAF"]) =
      [["modules", "mymod", "types", "sub", "deep", "Leaf.pp"]] ∧
    (loadS 15 (deepCfg (.m "mymod")) {} ["MYMOD", "sub", "Deep", "LEAF"]).1 = .found ⟨.object, ["Mymod", "Sub", "Deep", "Leaf"]⟩ ∧
    (loadS 17 (deepCfg .d) {} ["MYMOD", "sub", "Deep", "LEAF"]).1 = .found ⟨.object, ["Mymod", "Sub", "Deep", "Leaf"]⟩ ∧
    (loadS 17 (deepCfg .d) {} ["Mymod", "Sub", "Deep", "Bad"]).1 =
      .failed (.reported "PARSE_ERROR" (some ["modules", "mymod", "types", "sub", "deep", "bad.pp"]) 3) := by
  refine ⟨quietAnc_of_check (by decide), by decide, Or.inl ⟨rfl, Or.inr ⟨_, rfl, rfl⟩⟩, by decide, by decide, by decide,
    by decide⟩

/-- a name whose PARENT has a file (a plain definition, no type set): the parent type-set search loads the parent on the
    way — its file is the only read, it is defined — and the child, having no file, is `notfound` with a placeholder -/
theorem C15_ancestor_loaded (cfg : Cfg) (hv : cfg.via = .g) (name : Name) (hqual : qualified name = true) (s : St)
    (m : Nat) (hfuel : 3 * name.length ≤ m + 8)
    (hsys : sysLoad name = none) (hfresh : s.get .g (keyOf name) = none) (hi : idx cfg .g (keyOf name) = [])
    (hqa : QuietAnc cfg .g s name.dropLast)
    (p : Path) (ps : List Path) (hip : idx cfg .g (keyOf name.dropLast) = p :: ps)
    (b : Body) (d : Def) (hb : bodyAt cfg.tree p = some b) (hd : definedBy b name.dropLast = some d)
    (hk : d.kind ≠ .typeset) :
    loadS (m+11) cfg s name =
      (.notfound, ((((s.put .g (keyOf name.dropLast) none).addRead p).put .g (keyOf name.dropLast) (some d)).put .g
        (keyOf name) none)) :=
  ancestor_global_good cfg hv name hqual s m hfuel hsys hfresh hi hqa p ps hip b d hb hd hk

/-- error location when the PARENT's file is defective: the lookup of the (absent) child reports the error naming the
    parent's file — and the line of a syntax error —, binds nothing and reads that file only -/
theorem C15_ancestor_error (cfg : Cfg) (hv : cfg.via = .g) (name : Name) (hqual : qualified name = true) (s : St)
    (m : Nat)
    (hsys : sysLoad name = none) (hfresh : s.get .g (keyOf name) = none) (hi : idx cfg .g (keyOf name) = [])
    (hpfresh : s.get .g (keyOf name.dropLast) = none)
    (p : Path) (ps : List Path) (hip : idx cfg .g (keyOf name.dropLast) = p :: ps)
    (b : Body) (hb : bodyAt cfg.tree p = some b) (hd : Defective b name.dropLast) :
    loadS (m+11) cfg s name = (.failed (defectErr p b), (s.put .g (keyOf name.dropLast) none).addRead p) :=
  ancestor_global_defective cfg hv name hqual s m hsys hfresh hi hpfresh p ps hip b hb hd

/-- non-vacuity, both directions: `Ns::A::B` (absent; parent `Ns::A` has a file) loads the parent and stays absent, the
    second lookup is answered from the placeholder; `Ns::Bad::X` reports the parent's syntax error with its line; vice
    versa `Mymod::Sub` (only deeper files exist) is absent and reads nothing -/
example : QuietAnc (deepCfg .g) .g {} ["Ns", "A"] ∧ definedBy (.typ .alias ["Ns", "A"] []) ["Ns", "A"] = some ⟨.alias, ["Ns", "A"]⟩ ∧
    (runLoads 14 (deepCfg .g) {} [["Ns", "A", "B"], ["Ns", "A", "B"], ["Ns", "A"]]).1 =
      [.notfound, .notfound, .found ⟨.alias, ["Ns", "A"]⟩] ∧
    (runLoads 14 (deepCfg .g) {} [["Ns", "A", "B"], ["Ns", "A", "B"], ["Ns", "A"]]).2.reads = [["env", "types", "ns", "a.pp"]] ∧
    (loadS 14 (deepCfg .g) {} ["Ns", "Bad", "X"]).1 = .failed (.reported "PARSE_ERROR" (some ["env", "types", "ns", "bad.pp"]) 4) ∧
    (loadS 17 (deepCfg .d) {} ["Mymod", "Sub"]).1 = .notfound ∧ (loadS 17 (deepCfg .d) {} ["Mymod", "Sub"]).2.reads = [] := by
  refine ⟨quietAnc_of_check (by decide), by decide, by decide, by decide, by decide, by decide, by decide⟩

/-! ## type sets: loading one, member resolution, the parent search that finds one, `init_typeset` -/

/-- the lookup of a type set through a TOP-LEVEL loader that is the context's loader (the global loader; a module's loader
    in the flat topology), for any number of members and any depth of name: found; the file is the only read; on the way
    every member is looked up through the defining loader (a complete miss: one placeholder) and defined over it with the
    kind its position dictates; finally the type set is defined over the placeholder of the requested name
    (`typesetState`).  `MemHyp`: members are no core types, have no files of their own, are addressable; the proper
    prefixes of the type set's name are cached or without origin. -/
theorem C15_typeset_toplevel (cfg : Cfg) (l : Lid) (hv : cfg.via = l) (hl : TopLevel cfg l) (name nm : Name)
    (ts : List String) (p : Path) (ps : List Path) (s : St) (k : Nat)
    (hk : 3 * (nm.length + 1) + ts.length ≤ k)
    (hsys : sysLoad name = none) (hroute : Routed l name) (hi : idx cfg l (keyOf name) = p :: ps)
    (hb : bodyAt cfg.tree p = some (.typ .typeset nm ts)) (hkey : keyOf nm = keyOf name)
    (hget : s.get l (keyOf name) = none)
    (hh : MemHyp cfg l nm ((s.put l (keyOf name) none).addRead p) ts)
    (hfresh : ∀ t ∈ ts, s.get l (keyOf (nm ++ [t])) = none) :
    loadS (k+10) cfg s name = (.found ⟨.typeset, nm⟩, typesetState l name nm ts p s) ∧
    (typesetState l name nm ts p s).reads = s.reads ++ [p] ∧
    ∀ j t, ts[j]? = some t →
      (typesetState l name nm ts p s).get l (keyOf (nm ++ [t])) = some (some ⟨kindAt j, nm ++ [t]⟩) :=
  ⟨typeset_toplevel cfg l hv hl name nm ts p ps s k hk hsys hroute hi hb hkey hget hh hfresh,
    typesetState_reads l name nm ts p s,
    fun j t ht => typesetState_member l name nm ts p s hkey hh.nodup j t ht⟩

/-- the module's own name through its (top-level) loader: `init_typeset.pp` is the file, the same resolution -/
theorem C15_init_typeset_toplevel (cfg : Cfg) (mod : String) (hv : cfg.via = .m mod) (hflat : cfg.flat = true)
    (hguard : cfg.guardInit = true) (hm : isGlobalMod mod = false) (a : String) (nm : Name)
    (ts : List String) (o : Path) (os : List Path) (s : St) (k : Nat)
    (hk : 3 * (nm.length + 1) + ts.length ≤ k)
    (hsys : sysLoad [a] = none) (hparts : partsOf [a] = some [mod]) (hi : idx cfg (.m mod) ["init_typeset"] = o :: os)
    (hb : bodyAt cfg.tree o = some (.typ .typeset nm ts)) (hkey : keyOf nm = keyOf [a])
    (hget : s.get (.m mod) (keyOf [a]) = none)
    (hh : MemHyp cfg (.m mod) nm ((s.put (.m mod) (keyOf [a]) none).addRead o) ts)
    (hfresh : ∀ t ∈ ts, s.get (.m mod) (keyOf (nm ++ [t])) = none) :
    loadS (k+9) cfg s [a] = (.found ⟨.typeset, nm⟩, typesetState (.m mod) [a] nm ts o s) :=
  init_typeset_toplevel cfg mod hv hflat hguard hm a nm ts o os s k hk hsys hparts hi hb hkey hget hh hfresh

/-- the parent search that FINDS a type set: a member is requested before its type set — there is no file for the member,
    the type-set file of the parent name is loaded, the member is thereby defined and answered at once (kind by position,
    name as the type set spells it); the type-set file is the only read -/
theorem C15_member_via_parent_search (cfg : Cfg) (l : Lid) (hv : cfg.via = l) (hl : TopLevel cfg l) (child nm : Name)
    (ts : List String) (p : Path) (ps : List Path) (s : St) (k : Nat)
    (hk : 3 * (nm.length + 1) + ts.length ≤ k)
    (hqual : qualified child = true)
    (hsys : sysLoad child = none) (hroute : Routed l child) (hic : idx cfg l (keyOf child) = [])
    (hgetc : s.get l (keyOf child) = none)
    (hroutep : Routed l child.dropLast) (hi : idx cfg l (keyOf child.dropLast) = p :: ps)
    (hb : bodyAt cfg.tree p = some (.typ .typeset nm ts)) (hkey : keyOf nm = keyOf child.dropLast)
    (hget : s.get l (keyOf child.dropLast) = none)
    (hh : MemHyp cfg l nm ((s.put l (keyOf child.dropLast) none).addRead p) ts)
    (hfresh : ∀ t ∈ ts, s.get l (keyOf (nm ++ [t])) = none)
    (j : Nat) (t : String) (ht : ts[j]? = some t) (hmem : keyOf (nm ++ [t]) = keyOf child) :
    loadS (k+13) cfg s child = (.found ⟨kindAt j, nm ++ [t]⟩, typesetState l child.dropLast nm ts p s) :=
  member_via_parent cfg l hv hl child nm ts p ps s k hk hqual hsys hroute hic hgetc hroutep hi hb hkey hget hh hfresh j t ht
    hmem

/-- member resolution afterwards: a name the loader holds a definition for is answered from the cache — nothing is read,
    nothing changes (with `C15_typeset_toplevel`: every member of a loaded type set) -/
theorem C15_member_cached (cfg : Cfg) (l : Lid) (hv : cfg.via = l) (hl : TopLevel cfg l) (name : Name) (s : St) (d : Def)
    (n : Nat) (hsys : sysLoad name = none) (hget : s.get l (keyOf name) = some (some d)) :
    loadS (n+2) cfg s name = (.found d, s) :=
  toplevel_cached cfg l hv hl name s d n hsys hget

def setCfg (via : Lid) : Cfg :=
  { mods := ["mymod", "other"], via := via, flat := true,
    tree := [(["env", "types", "geo", "shapes.pp"], .typ .typeset ["Geo", "Shapes"] ["Circle", "Square", "Tri"]),
             (["modules", "mymod", "types", "init_typeset.pp"], .typ .typeset ["Mymod"] ["Ta", "Tb"]),
             (["modules", "other", "types", "sub", "set.pp"], .typ .typeset ["Other", "Sub", "Set"] ["Leaf"])] }

/-- non-vacuity: the hypotheses hold from the empty caches (`memHyp_of_check`) for a two-segment type set of three members
    below the global loader, for a module's `init_typeset` and for a three-segment type set below a module; a member asked
    first is found through the parent search (kind by position: the second member is an object), the type set and the
    other members afterwards come from the cache; each file is read once -/
example :
    MemHyp (setCfg .g) .g ["Geo", "Shapes"]
      ((({} : St).put .g (keyOf ["GEO", "shapes"]) none).addRead ["env", "types", "geo", "shapes.pp"]) ["Circle", "Square", "Tri"] ∧
    Routed .g ["GEO", "shapes"] ∧ Routed .g ["Geo", "Shapes", "Square"] ∧
    (runLoads 25 (setCfg .g) {} [["Geo", "Shapes", "SQUARE"], ["GEO", "shapes"], ["Geo", "Shapes", "Tri"], ["Geo", "Shapes", "Nope"]]).1 =
      [.found ⟨.object, ["Geo", "Shapes", "Square"]⟩, .found ⟨.typeset, ["Geo", "Shapes"]⟩,
       .found ⟨.alias, ["Geo", "Shapes", "Tri"]⟩, .notfound] ∧
    (runLoads 25 (setCfg .g) {} [["Geo", "Shapes", "SQUARE"], ["GEO", "shapes"], ["Geo", "Shapes", "Tri"], ["Geo", "Shapes", "Nope"]]).2.reads =
      [["env", "types", "geo", "shapes.pp"]] ∧
    MemHyp (setCfg (.m "mymod")) (.m "mymod") ["Mymod"]
      ((({} : St).put (.m "mymod") (keyOf ["MYMOD"]) none).addRead ["modules", "mymod", "types", "init_typeset.pp"]) ["Ta", "Tb"] ∧
    MemHyp (setCfg (.m "other")) (.m "other") ["Other", "Sub", "Set"]
      ((({} : St).put (.m "other") (keyOf ["Other", "Sub", "Set"]) none).addRead ["modules", "other", "types", "sub", "set.pp"]) ["Leaf"] ∧
    (runLoads 25 (setCfg (.m "mymod")) {} [["MYMOD"], ["Mymod", "Tb"], ["Mymod", "Nope"]]).1 =
      [.found ⟨.typeset, ["Mymod"]⟩, .found ⟨.object, ["Mymod", "Tb"]⟩, .notfound] ∧
    (runLoads 25 (setCfg (.m "other")) {} [["Other", "Sub", "Set", "Leaf"], ["Other", "Sub", "Set"]]).1 =
      [.found ⟨.alias, ["Other", "Sub", "Set", "Leaf"]⟩, .found ⟨.typeset, ["Other", "Sub", "Set"]⟩] ∧
    (runLoads 25 (setCfg (.m "other")) {} [["Other", "Sub", "Set", "Leaf"], ["Other", "Sub", "Set"]]).2.reads =
      [["modules", "other", "types", "sub", "set.pp"]] := by
  refine ⟨memHyp_of_check (by decide), Or.inl ⟨rfl, Or.inl rfl⟩, Or.inl ⟨rfl, Or.inl rfl⟩, by decide, by decide,
    memHyp_of_check (by decide), memHyp_of_check (by decide), by decide, by decide, by decide⟩

/-! ## termination of the model -/

/-- with the placeholder guard (fix 51b01c7) no lookup diverges: for ANY tree, module list, context loader, topology, state
    and name, fuel `fuelBound cfg s name` = `(W + 1) * (|mods| + T + 3 * (|name| + W) + 14)` suffices, where `W` =
    `pot cfg s` is the number of instantiable (loader, key) pairs the state holds nothing for and `T` the largest number of
    members of a type-set file; moreover a lookup never removes an entry.  (`instantiate` installs the placeholder before
    the recursion re-enters, so `W` drops at every instantiation; `C15_once_needs_guard`: without the guard the answer IS
    `diverges`.) -/
theorem C15_terminates (cfg : Cfg) (hg : cfg.guardInit = true) (s : St) (name : Name) (fuel : Nat)
    (hf : fuelBound cfg s name ≤ fuel) :
    (loadS fuel cfg s name).1 ≠ .failed .diverges ∧ Mono s (loadS fuel cfg s name).2 :=
  load_terminates cfg hg s name fuel hf

/-- a whole lookup sequence: one bound (longest name, initial potential) for every lookup of it -/
theorem C15_terminates_seq (cfg : Cfg) (hg : cfg.guardInit = true) (names : List Name) (s : St) (fuel : Nat)
    (hf : seqBound cfg s names ≤ fuel) : ∀ o ∈ (runLoads fuel cfg s names).1, o ≠ .failed .diverges :=
  runLoads_terminates cfg hg names s fuel hf

/-- non-vacuity: the bound is a small number for a concrete tree (far below the driver's fuel 5000), and with that fuel
    the type-set sequence of `C15_once` is answered -/
example : fuelBound tsCfg {} ["Mymod", "Ta"] = 228 ∧ tsCfg.guardInit = true ∧
    seqBound tsCfg {} [["Mymod", "Ta"], ["mymod"], ["Mymod", "Thing"]] = 228 ∧
    (runLoads 228 tsCfg {} [["Mymod", "Ta"], ["mymod"], ["Mymod", "Thing"]]).1 =
      [.found ⟨.alias, ["Mymod", "Ta"]⟩, .found ⟨.typeset, ["Mymod"]⟩, .found ⟨.alias, ["Mymod", "Thing"]⟩] := by
  refine ⟨by decide, rfl, by decide, by decide⟩

/-! ## type sets through a module's loader in the default topology (child of the global loader) -/

/-- a type set `Mod::…` (index route) through the module's loader below the global loader: the global loader is asked
    first and misses completely (one placeholder), the module's file is the only read, every member costs a placeholder in
    the global loader, one in the module loader and the definition over the latter (kind by position) — exact state
    `typesetState2` -/
theorem C15_typeset_module (cfg : Cfg) (mod : String) (hv : cfg.via = .m mod) (hflat : cfg.flat = false)
    (name nm : Name) (hne : name ≠ []) (ts : List String) (p : Path) (ps : List Path) (s : St) (k : Nat)
    (hk : 3 * (nm.length + 1) + ts.length ≤ k)
    (hsys : sysLoad name = none) (hroute : Routed (.m mod) name)
    (hqg : QuietAnc cfg .g s name) (hig : idx cfg .g (keyOf name) = [])
    (hi : idx cfg (.m mod) (keyOf name) = p :: ps)
    (hb : bodyAt cfg.tree p = some (.typ .typeset nm ts)) (hkey : keyOf nm = keyOf name)
    (hget : s.get (.m mod) (keyOf name) = none)
    (hhg : MemHyp cfg .g nm (((s.put .g (keyOf name) none).put (.m mod) (keyOf name) none).addRead p) ts)
    (hhm : MemHyp cfg (.m mod) nm (((s.put .g (keyOf name) none).put (.m mod) (keyOf name) none).addRead p) ts)
    (hfreshg : ∀ t ∈ ts, s.get .g (keyOf (nm ++ [t])) = none)
    (hfreshm : ∀ t ∈ ts, s.get (.m mod) (keyOf (nm ++ [t])) = none) :
    loadS (k+11) cfg s name =
      (.found ⟨.typeset, nm⟩, typesetState2 mod name nm ts p (s.put .g (keyOf name) none)) ∧
    (typesetState2 mod name nm ts p (s.put .g (keyOf name) none)).reads = s.reads ++ [p] ∧
    ∀ j t, ts[j]? = some t →
      (typesetState2 mod name nm ts p (s.put .g (keyOf name) none)).get (.m mod) (keyOf (nm ++ [t])) =
        some (some ⟨kindAt j, nm ++ [t]⟩) ∧
      (typesetState2 mod name nm ts p (s.put .g (keyOf name) none)).get .g (keyOf (nm ++ [t])) = some none :=
  ⟨typeset_child cfg mod hv hflat name nm hne ts p ps s k hk hsys hroute hqg hig hi hb hkey hget hhg hhm hfreshg hfreshm,
    by rw [typesetState2_reads]; rfl,
    fun j t ht => typesetState2_member mod name nm ts p _ hkey hhm.nodup j t ht⟩

/-- the module's own name through its loader below the global loader: `init_typeset.pp`, the same resolution -/
theorem C15_init_typeset_module (cfg : Cfg) (mod : String) (hv : cfg.via = .m mod) (hflat : cfg.flat = false)
    (hguard : cfg.guardInit = true) (hm : isGlobalMod mod = false) (a : String) (nm : Name)
    (ts : List String) (o : Path) (os : List Path) (s : St) (k : Nat)
    (hk : 3 * (nm.length + 1) + ts.length ≤ k)
    (hsys : sysLoad [a] = none) (hparts : partsOf [a] = some [mod])
    (hgetg : s.get .g (keyOf [a]) = none) (hig : idx cfg .g (keyOf [a]) = [])
    (hi : idx cfg (.m mod) ["init_typeset"] = o :: os)
    (hb : bodyAt cfg.tree o = some (.typ .typeset nm ts)) (hkey : keyOf nm = keyOf [a])
    (hget : s.get (.m mod) (keyOf [a]) = none)
    (hhg : MemHyp cfg .g nm (((s.put .g (keyOf [a]) none).put (.m mod) (keyOf [a]) none).addRead o) ts)
    (hhm : MemHyp cfg (.m mod) nm (((s.put .g (keyOf [a]) none).put (.m mod) (keyOf [a]) none).addRead o) ts)
    (hfreshg : ∀ t ∈ ts, s.get .g (keyOf (nm ++ [t])) = none)
    (hfreshm : ∀ t ∈ ts, s.get (.m mod) (keyOf (nm ++ [t])) = none) :
    loadS (k+10) cfg s [a] =
      (.found ⟨.typeset, nm⟩, typesetState2 mod [a] nm ts o (s.put .g (keyOf [a]) none)) :=
  init_typeset_child cfg mod hv hflat hguard hm a nm ts o os s k hk hsys hparts hgetg hig hi hb hkey hget hhg hhm hfreshg
    hfreshm

/-- member resolution afterwards, default topology: answered from the module loader's cache (the global loader above it
    holds the member's placeholder), nothing read, nothing changed -/
theorem C15_member_cached_module (cfg : Cfg) (mod : String) (hv : cfg.via = .m mod) (hflat : cfg.flat = false)
    (name : Name) (s : St) (d : Def) (n : Nat) (hsys : sysLoad name = none) (hg : s.get .g (keyOf name) = some none)
    (hget : s.get (.m mod) (keyOf name) = some (some d)) :
    loadS (n+3) cfg s name = (.found d, s) :=
  child_cached cfg mod hv hflat name s d n hsys hg hget

def setCfg2 (via : Lid) : Cfg :=
  { mods := ["mymod", "other"], via := via,
    tree := [(["modules", "mymod", "types", "init_typeset.pp"], .typ .typeset ["Mymod"] ["Ta", "Tb"]),
             (["modules", "other", "types", "sub", "set.pp"], .typ .typeset ["Other", "Sub", "Set"] ["Leaf", "Twig"])] }

/-- non-vacuity, default topology: the hypotheses hold from the empty caches for a module's `init_typeset` and for a
    three-segment type set; the type set is found, its members afterwards come from the cache, one read each -/
example :
    MemHyp (setCfg2 (.m "mymod")) .g ["Mymod"]
      (((({} : St).put .g (keyOf ["MYMOD"]) none).put (.m "mymod") (keyOf ["MYMOD"]) none).addRead
        ["modules", "mymod", "types", "init_typeset.pp"]) ["Ta", "Tb"] ∧
    MemHyp (setCfg2 (.m "mymod")) (.m "mymod") ["Mymod"]
      (((({} : St).put .g (keyOf ["MYMOD"]) none).put (.m "mymod") (keyOf ["MYMOD"]) none).addRead
        ["modules", "mymod", "types", "init_typeset.pp"]) ["Ta", "Tb"] ∧
    (runLoads 25 (setCfg2 (.m "mymod")) {} [["MYMOD"], ["Mymod", "Tb"], ["Mymod", "Nope"]]).1 =
      [.found ⟨.typeset, ["Mymod"]⟩, .found ⟨.object, ["Mymod", "Tb"]⟩, .notfound] ∧
    (runLoads 25 (setCfg2 (.m "mymod")) {} [["MYMOD"], ["Mymod", "Tb"], ["Mymod", "Nope"]]).2.reads =
      [["modules", "mymod", "types", "init_typeset.pp"]] ∧
    QuietAnc (setCfg2 (.m "other")) .g {} ["Other", "Sub", "Set"] ∧ Routed (.m "other") ["Other", "Sub", "Set"] ∧
    MemHyp (setCfg2 (.m "other")) .g ["Other", "Sub", "Set"]
      (((({} : St).put .g (keyOf ["Other", "Sub", "Set"]) none).put (.m "other") (keyOf ["Other", "Sub", "Set"]) none).addRead
        ["modules", "other", "types", "sub", "set.pp"]) ["Leaf", "Twig"] ∧
    MemHyp (setCfg2 (.m "other")) (.m "other") ["Other", "Sub", "Set"]
      (((({} : St).put .g (keyOf ["Other", "Sub", "Set"]) none).put (.m "other") (keyOf ["Other", "Sub", "Set"]) none).addRead
        ["modules", "other", "types", "sub", "set.pp"]) ["Leaf", "Twig"] ∧
    (runLoads 25 (setCfg2 (.m "other")) {} [["Other", "Sub", "Set"], ["Other", "Sub", "Set", "Twig"]]).1 =
      [.found ⟨.typeset, ["Other", "Sub", "Set"]⟩, .found ⟨.object, ["Other", "Sub", "Set", "Twig"]⟩] := by
  refine ⟨memHyp_of_check (by decide), memHyp_of_check (by decide), by decide, by decide, quietAnc_of_check (by decide),
    Or.inl ⟨rfl, Or.inr ⟨_, rfl, rfl⟩⟩, memHyp_of_check (by decide), memHyp_of_check (by decide), by decide⟩

/-! ## the fuel is immaterial -/

/-- a lookup that does not run out of fuel answers the same — outcome AND state — with any larger fuel (for any tree,
    modules, context loader, state, name; also without the guard).  Hence every theorem above that names a fuel (`n+7`,
    `m+8`, `k+10`, …) holds for every larger fuel as well. -/
theorem C15_fuel_irrelevant (cfg : Cfg) (s : St) (name : Name) (n m : Nat) (hnm : n ≤ m)
    (h : (loadS n cfg s name).1 ≠ .failed .diverges) : loadS m cfg s name = loadS n cfg s name :=
  loadS_fuel_mono cfg s name n m hnm h

theorem C15_fuel_irrelevant_seq (cfg : Cfg) (n m : Nat) (hnm : n ≤ m) (names : List Name) (s : St)
    (h : ∀ o ∈ (runLoads n cfg s names).1, o ≠ .failed .diverges) : runLoads m cfg s names = runLoads n cfg s names :=
  runLoads_fuel_mono cfg n m hnm names s h

/-- with the guard the answer of a lookup sequence is DETERMINED: every fuel from `seqBound` on gives the same outcomes
    and the same state (termination + fuel irrelevance) — in particular the driver's `max 5000 (seqBound …)` -/
theorem C15_answer_determined (cfg : Cfg) (hg : cfg.guardInit = true) (names : List Name) (s : St) (fuel : Nat)
    (hf : seqBound cfg s names ≤ fuel) :
    runLoads fuel cfg s names = runLoads (seqBound cfg s names) cfg s names :=
  runLoads_fuel_mono cfg _ fuel hf names s (runLoads_terminates cfg hg names s _ (Nat.le_refl _))

/-- non-vacuity: fuel 14 is enough for this sequence (no `diverges`), so fuel 5000 gives the very same result -/
example : (∀ o ∈ (runLoads 14 flatCfg {} [["BILLING"], ["Billing", "Invoice"], ["Other"]]).1, o ≠ .failed .diverges) ∧
    runLoads 5000 flatCfg {} [["BILLING"], ["Billing", "Invoice"], ["Other"]] =
      runLoads 14 flatCfg {} [["BILLING"], ["Billing", "Invoice"], ["Other"]] := by
  have h : ∀ o ∈ (runLoads 14 flatCfg {} [["BILLING"], ["Billing", "Invoice"], ["Other"]]).1, o ≠ .failed .diverges := by
    decide
  exact ⟨h, C15_fuel_irrelevant_seq flatCfg 14 5000 (by decide) _ _ h⟩

/-! ## type sets through the dependency loader (the default context loader) -/

/-- a type set `Mod::…` through the DEPENDENCY loader (module loaders below the global loader): the name is routed to the
    module its first segment names; the global loader misses completely, the module's file is the only read; every member
    costs a placeholder in the global loader, one in the module loader, one in the dependency loader and the definition
    over the latter (kind by position); the type set is defined in the dependency loader and answered through what
    `SetEntry` returns (fix 80f753b) — exact state `typesetState3` -/
theorem C15_typeset_dependency (cfg : Cfg) (mod : String) (hv : cfg.via = .d) (hflat : cfg.flat = false)
    (hmods : cfg.mods.contains mod = true) (hmne : mod ≠ "")
    (name nm : Name) (hne : name ≠ []) (hqual : qualified name = true) (ts : List String) (p : Path) (ps : List Path)
    (s : St) (k : Nat) (hk : 3 * (nm.length + 1) + ts.length ≤ k)
    (hparts : ∃ ps, partsOf name = some ps ∧ ps.head? = some mod)
    (hsys : sysLoad name = none) (hd : s.get .d (keyOf name) = none)
    (hqg : QuietAnc cfg .g s name) (hig : idx cfg .g (keyOf name) = [])
    (hi : idx cfg (.m mod) (keyOf name) = p :: ps)
    (hb : bodyAt cfg.tree p = some (.typ .typeset nm ts)) (hkey : keyOf nm = keyOf name)
    (hget : s.get (.m mod) (keyOf name) = none)
    (hhg : MemHyp cfg .g nm (((s.put .g (keyOf name) none).put (.m mod) (keyOf name) none).addRead p) ts)
    (hhm : MemHyp cfg (.m mod) nm (((s.put .g (keyOf name) none).put (.m mod) (keyOf name) none).addRead p) ts)
    (hfreshg : ∀ t ∈ ts, s.get .g (keyOf (nm ++ [t])) = none)
    (hfreshm : ∀ t ∈ ts, s.get (.m mod) (keyOf (nm ++ [t])) = none)
    (hfreshd : ∀ t ∈ ts, s.get .d (keyOf (nm ++ [t])) = none) :
    loadS (k+15) cfg s name =
      (.found ⟨.typeset, nm⟩, typesetState3 mod name nm ts p (s.put .g (keyOf name) none)) ∧
    (typesetState3 mod name nm ts p (s.put .g (keyOf name) none)).reads = s.reads ++ [p] ∧
    ∀ j t, ts[j]? = some t →
      (typesetState3 mod name nm ts p (s.put .g (keyOf name) none)).get .d (keyOf (nm ++ [t])) =
        some (some ⟨kindAt j, nm ++ [t]⟩) :=
  ⟨typeset_dep cfg mod hv hflat hmods hmne name nm hne hqual ts p ps s k hk hparts hsys hd hqg hig hi hb hkey hget hhg hhm
      hfreshg hfreshm hfreshd,
    by rw [typesetState3_reads]; rfl,
    fun j t ht => typesetState3_member mod name nm ts p _ hkey hhm.nodup j t ht⟩

/-- member resolution afterwards through the dependency loader: from its own cache, nothing read, nothing changed -/
theorem C15_member_cached_dependency (cfg : Cfg) (hv : cfg.via = .d) (name : Name) (s : St) (d : Def) (n : Nat)
    (hget : s.get .d (keyOf name) = some (some d)) : loadS (n+2) cfg s name = (.found d, s) :=
  dep_cached cfg hv name s d n hget

/-- non-vacuity: the three-segment type set of `setCfg2` through the dependency loader, from the empty caches -/
example :
    QuietAnc (setCfg2 .d) .g {} ["Other", "Sub", "Set"] ∧
    MemHyp (setCfg2 .d) .g ["Other", "Sub", "Set"]
      (((({} : St).put .g (keyOf ["Other", "Sub", "Set"]) none).put (.m "other") (keyOf ["Other", "Sub", "Set"]) none).addRead
        ["modules", "other", "types", "sub", "set.pp"]) ["Leaf", "Twig"] ∧
    MemHyp (setCfg2 .d) (.m "other") ["Other", "Sub", "Set"]
      (((({} : St).put .g (keyOf ["Other", "Sub", "Set"]) none).put (.m "other") (keyOf ["Other", "Sub", "Set"]) none).addRead
        ["modules", "other", "types", "sub", "set.pp"]) ["Leaf", "Twig"] ∧
    (runLoads 30 (setCfg2 .d) {} [["OTHER", "sub", "SET"], ["Other", "Sub", "Set", "Twig"], ["Other", "Sub", "Set", "Nope"]]).1 =
      [.found ⟨.typeset, ["Other", "Sub", "Set"]⟩, .found ⟨.object, ["Other", "Sub", "Set", "Twig"]⟩, .notfound] ∧
    (runLoads 30 (setCfg2 .d) {} [["OTHER", "sub", "SET"], ["Other", "Sub", "Set", "Twig"], ["Other", "Sub", "Set", "Nope"]]).2.reads =
      [["modules", "other", "types", "sub", "set.pp"]] := by
  refine ⟨quietAnc_of_check (by decide), memHyp_of_check (by decide), memHyp_of_check (by decide), by decide, by decide⟩

/-! ## `Mod::A::B` requested where only `Mod::A` has a file (module loader, default topology) -/

/-- `Mod::A::B` has no file, `Mod::A` has a plain one below the module: the global loader misses completely (one
    placeholder), the module loader's parent search loads `Mod::A` — its file is the only read, it is defined — and
    `Mod::A::B` is `notfound` with a placeholder in each loader.  (Vice versa — `Mod::A` requested, only `Mod::A::B` has
    a file — nothing below the name is consulted: `C15_absent`, `C15_find_miss`.) -/
theorem C15_ancestor_loaded_module (cfg : Cfg) (mod : String) (hv : cfg.via = .m mod) (hflat : cfg.flat = false)
    (name : Name) (hqual : qualified name = true) (s : St) (m : Nat) (hfuel : 3 * name.length ≤ m + 8)
    (hsys : sysLoad name = none)
    (hqg : QuietAnc cfg .g s name) (hig : idx cfg .g (keyOf name) = [])
    (hroute : Routed (.m mod) name) (hroutep : Routed (.m mod) name.dropLast)
    (hvalid : (partsOf name).isSome)
    (hfresh : s.get (.m mod) (keyOf name) = none) (hi : idx cfg (.m mod) (keyOf name) = [])
    (hqa : QuietAnc cfg (.m mod) s name.dropLast)
    (p : Path) (ps : List Path) (hip : idx cfg (.m mod) (keyOf name.dropLast) = p :: ps)
    (b : Body) (d : Def) (hb : bodyAt cfg.tree p = some b) (hd : definedBy b name.dropLast = some d)
    (hk : d.kind ≠ .typeset) :
    loadS (m+13) cfg s name =
      (.notfound, (((((s.put .g (keyOf name) none).put (.m mod) (keyOf name.dropLast) none).addRead p).put (.m mod)
        (keyOf name.dropLast) (some d)).put (.m mod) (keyOf name) none)) :=
  ancestor_module_good cfg mod hv hflat name hqual s m hfuel hsys hqg hig hroute hroutep hvalid hfresh hi hqa p ps hip b d
    hb hd hk

/-- a defective `Mod::A` file is the error of the lookup of `Mod::A::B`, naming that file (and the line of a syntax
    error); nothing is bound -/
theorem C15_ancestor_error_module (cfg : Cfg) (mod : String) (hv : cfg.via = .m mod) (hflat : cfg.flat = false)
    (name : Name) (hqual : qualified name = true) (s : St) (m : Nat) (hfuel : 3 * name.length ≤ m + 8)
    (hsys : sysLoad name = none)
    (hqg : QuietAnc cfg .g s name) (hig : idx cfg .g (keyOf name) = [])
    (hroute : Routed (.m mod) name) (hroutep : Routed (.m mod) name.dropLast)
    (hfresh : s.get (.m mod) (keyOf name) = none) (hi : idx cfg (.m mod) (keyOf name) = [])
    (hpfresh : s.get (.m mod) (keyOf name.dropLast) = none)
    (p : Path) (ps : List Path) (hip : idx cfg (.m mod) (keyOf name.dropLast) = p :: ps)
    (b : Body) (hb : bodyAt cfg.tree p = some b) (hd : Defective b name.dropLast) :
    loadS (m+13) cfg s name =
      (.failed (defectErr p b), ((s.put .g (keyOf name) none).put (.m mod) (keyOf name.dropLast) none).addRead p) :=
  ancestor_module_defective cfg mod hv hflat name hqual s m hfuel hsys hqg hig hroute hroutep hfresh hi hpfresh p ps hip b
    hb hd

def ancCfg : Cfg :=
  { mods := ["mymod"], via := .m "mymod",
    tree := [(["modules", "mymod", "types", "a.pp"], .typ .object ["Mymod", "A"] []),
             (["modules", "mymod", "types", "bad.pp"], .malformed 2),
             (["modules", "mymod", "types", "c", "d.pp"], .typ .alias ["Mymod", "C", "D"] [])] }

/-- non-vacuity: `Mymod::A::B` loads `Mymod::A` on the way and stays absent; `Mymod::Bad::X` reports the parse error of
    `bad.pp` with its line; vice versa `Mymod::C` (only `Mymod::C::D` has a file) is absent and reads nothing -/
example : QuietAnc ancCfg .g {} ["Mymod", "A", "B"] ∧ QuietAnc ancCfg (.m "mymod") {} ["Mymod", "A"] ∧
    Routed (.m "mymod") ["Mymod", "A", "B"] ∧ Routed (.m "mymod") ["Mymod", "A"] ∧
    (runLoads 20 ancCfg {} [["Mymod", "A", "B"], ["Mymod", "A"], ["Mymod", "A", "B"]]).1 =
      [.notfound, .found ⟨.object, ["Mymod", "A"]⟩, .notfound] ∧
    (runLoads 20 ancCfg {} [["Mymod", "A", "B"], ["Mymod", "A"], ["Mymod", "A", "B"]]).2.reads =
      [["modules", "mymod", "types", "a.pp"]] ∧
    (loadS 20 ancCfg {} ["Mymod", "Bad", "X"]).1 =
      .failed (.reported "PARSE_ERROR" (some ["modules", "mymod", "types", "bad.pp"]) 2) ∧
    (loadS 20 ancCfg {} ["Mymod", "C"]).1 = .notfound ∧ (loadS 20 ancCfg {} ["Mymod", "C"]).2.reads = [] := by
  refine ⟨quietAnc_of_check (by decide), quietAnc_of_check (by decide), Or.inl ⟨rfl, Or.inr ⟨_, rfl, rfl⟩⟩,
    Or.inl ⟨rfl, Or.inr ⟨_, rfl, rfl⟩⟩, by decide, by decide, by decide, by decide, by decide⟩

/-! ## a module's own name through the dependency loader: `init_typeset.pp` -/

/-- the lookup `Mod` (unqualified) through the DEPENDENCY loader in the default topology, for any list of distinct,
    ordinary modules: the name is not routed but offered to every module loader in turn — each asks the global loader
    first (a complete miss and a placeholder the first time, the placeholder afterwards); a module of another name refuses
    it (a placeholder); the module of that name reads `init_typeset.pp` — the only read — and resolves the type set into
    the dependency loader (three placeholders and a definition per member), answering its own placeholder, so the loop
    goes on over the remaining modules and ends with the entry the dependency loader holds by then: found, with the exact
    state `skipMods after (typesetState3 … (skipMods before …))` -/
theorem C15_init_typeset_dependency (cfg : Cfg) (mod a : String) (hv : cfg.via = .d) (hflat : cfg.flat = false)
    (hguard : cfg.guardInit = true) (before after : List String) (hmodsEq : cfg.mods = before ++ mod :: after)
    (hnd : cfg.mods.Nodup) (hoth : ∀ m ∈ before ++ after, isGlobalMod m = false) (hmg : isGlobalMod mod = false)
    (hparts : partsOf [a] = some [mod]) (hsys : sysLoad [a] = none)
    (nm : Name) (ts : List String) (o : Path) (os : List Path) (s : St) (k : Nat)
    (hk : 3 * (nm.length + 1) + ts.length ≤ k)
    (hi : idx cfg (.m mod) ["init_typeset"] = o :: os)
    (hb : bodyAt cfg.tree o = some (.typ .typeset nm ts)) (hkey : keyOf nm = [mod])
    (hd : s.get .d [mod] = none) (hgs : s.get .g [mod] = none) (hig : idx cfg .g [mod] = [])
    (hfm : ∀ m ∈ cfg.mods, s.get (.m m) [mod] = none)
    (hhg : MemHyp cfg .g nm (((skipMods [mod] before (s.put .g [mod] none)).put (.m mod) [mod] none).addRead o) ts)
    (hhm : MemHyp cfg (.m mod) nm (((skipMods [mod] before (s.put .g [mod] none)).put (.m mod) [mod] none).addRead o) ts)
    (hfreshg : ∀ t ∈ ts, s.get .g (keyOf (nm ++ [t])) = none)
    (hfreshm : ∀ t ∈ ts, s.get (.m mod) (keyOf (nm ++ [t])) = none)
    (hfreshd : ∀ t ∈ ts, s.get .d (keyOf (nm ++ [t])) = none) :
    loadS (k + cfg.mods.length + 16) cfg s [a] =
      (.found ⟨.typeset, nm⟩,
        skipMods [mod] after (typesetState3 mod [a] nm ts o (skipMods [mod] before (s.put .g [mod] none)))) ∧
    (skipMods [mod] after (typesetState3 mod [a] nm ts o (skipMods [mod] before (s.put .g [mod] none)))).reads =
      s.reads ++ [o] :=
  ⟨init_typeset_dep cfg mod a hv hflat hguard before after hmodsEq hnd hoth hmg hparts hsys nm ts o os s k hk hi hb hkey hd hgs
      hig hfm hhg hhm hfreshg hfreshm hfreshd,
    by rw [skipMods_reads, typesetState3_reads, skipMods_reads]; rfl⟩

def initCfg : Cfg :=
  { mods := ["other", "mymod", "m3"], via := .d,
    tree := [(["modules", "mymod", "types", "init_typeset.pp"], .typ .typeset ["Mymod"] ["Ta", "Tb"])] }

/-- non-vacuity: three modules, the one in the middle has the `init_typeset`; hypotheses from the empty caches -/
example :
    MemHyp initCfg .g ["Mymod"]
      (((skipMods ["mymod"] ["other"] (({} : St).put .g ["mymod"] none)).put (.m "mymod") ["mymod"] none).addRead
        ["modules", "mymod", "types", "init_typeset.pp"]) ["Ta", "Tb"] ∧
    MemHyp initCfg (.m "mymod") ["Mymod"]
      (((skipMods ["mymod"] ["other"] (({} : St).put .g ["mymod"] none)).put (.m "mymod") ["mymod"] none).addRead
        ["modules", "mymod", "types", "init_typeset.pp"]) ["Ta", "Tb"] ∧
    partsOf ["MYMOD"] = some ["mymod"] ∧
    (runLoads 40 initCfg {} [["MYMOD"], ["Mymod", "Tb"], ["Mymod"]]).1 =
      [.found ⟨.typeset, ["Mymod"]⟩, .found ⟨.object, ["Mymod", "Tb"]⟩, .found ⟨.typeset, ["Mymod"]⟩] ∧
    (runLoads 40 initCfg {} [["MYMOD"], ["Mymod", "Tb"], ["Mymod"]]).2.reads =
      [["modules", "mymod", "types", "init_typeset.pp"]] := by
  refine ⟨memHyp_of_check (by decide), memHyp_of_check (by decide), by decide, by decide, by decide⟩

/-! ## a miss recorded by the dependency loader is not final (fix 9d272bd) -/

/-- the dependency loader holds a recorded miss for `Mod::X`; meanwhile `Mod::X` has been defined through the module's
    DefiningLoader (no file: `px.AddTypes`): the lookup runs `find` again, finds the module's definition, stores it over
    the miss and answers it — 'found iff a file / definition exists NOW' -/
theorem C15_dependency_miss_not_final (cfg : Cfg) (mod : String) (hv : cfg.via = .d) (hflat : cfg.flat = false)
    (hmods : cfg.mods.contains mod = true) (name : Name) (hqual : qualified name = true)
    (hparts : ∃ ps, partsOf name = some ps ∧ ps.head? = some mod) (hsys : sysLoad name = none)
    (s : St) (d : Def) (n : Nat)
    (hd : s.get .d (keyOf name) = some none) (hg : s.get .g (keyOf name) = some none)
    (hm : s.get (.m mod) (keyOf name) = some (some d)) :
    loadS (n+5) cfg s name = (.found d, s.put .d (keyOf name) (some d)) :=
  dep_refind_found cfg mod hv hflat hmods name hqual hparts hsys s d n hd hg hm

/-- … and when the module still has nothing, `find` misses again: `notfound`, the state is untouched (the miss is recorded
    only once); a cached VALUE is final (`C15_member_cached_dependency`) -/
theorem C15_dependency_miss_again (cfg : Cfg) (mod : String) (hv : cfg.via = .d) (hflat : cfg.flat = false)
    (hmods : cfg.mods.contains mod = true) (name : Name) (hqual : qualified name = true)
    (hparts : ∃ ps, partsOf name = some ps ∧ ps.head? = some mod) (hsys : sysLoad name = none)
    (s : St) (n : Nat)
    (hd : s.get .d (keyOf name) = some none) (hg : s.get .g (keyOf name) = some none)
    (hm : s.get (.m mod) (keyOf name) = some none) :
    loadS (n+5) cfg s name = (.notfound, s) :=
  dep_refind_miss cfg mod hv hflat hmods name hqual hparts hsys s n hd hg hm

/-- non-vacuity, the whole story from the empty caches (no file at all): miss, miss again (same state), definition through
    the module's loader, found in either letter case, found from the cache -/
example :
    let s1 := (loadS 20 absCfg {} ["Other", "Late"]).2
    let s2 := (defineS s1 (.m "other") ["Other", "Late"]).2
    (loadS 20 absCfg {} ["Other", "Late"]).1 = .notfound ∧
    s1.get .d (keyOf ["Other", "Late"]) = some none ∧ s1.get .g (keyOf ["Other", "Late"]) = some none ∧
    s1.get (.m "other") (keyOf ["Other", "Late"]) = some none ∧
    loadS 20 absCfg s1 ["Other", "Late"] = (.notfound, s1) ∧
    defineS s1 (.m "other") ["Other", "Late"] = (none, s1.put (.m "other") (keyOf ["Other", "Late"]) (some ⟨.alias, ["Other", "Late"]⟩)) ∧
    s2.get (.m "other") (keyOf ["Other", "Late"]) = some (some ⟨.alias, ["Other", "Late"]⟩) ∧
    (runLoads 20 absCfg s2 [["OTHER", "late"], ["Other", "Late"]]).1 =
      [.found ⟨.alias, ["Other", "Late"]⟩, .found ⟨.alias, ["Other", "Late"]⟩] := by
  decide

/-! ## negation witnesses for the known findings -/

/-- known finding C15-misnamed-no-line: the error for a misnamed file names the file but no line (`C15_error_full` asks
    for one) -/
theorem C15_misnamed_no_line : ¬ C15_error_full := by
  intro h
  obtain ⟨code, line, hl, he⟩ := h gCfg ["Ns", "Deep"] 7 ["env", "types", "ns", "deep.pp"] [] .alias ["Ns", "Other"] []
    rfl (Nat.le_refl _) (by decide) (by decide) (by decide) (by decide)
  have h2 : (loadS 7 gCfg {} ["Ns", "Deep"]).1 =
      .failed (.reported "PCORE_WRONG_DEFINITION" (some ["env", "types", "ns", "deep.pp"]) 0) := by decide
  rw [h2] at he
  injection he with he
  injection he with _ _ h3
  omega

def dupCfg : Cfg :=
  { mods := ["mymod"], via := .d,
    tree := [(["env", "types", "mymod", "thing.pp"], .typ .object ["Mymod", "Thing"] []),
             (["modules", "mymod", "types", "thing.pp"], .typ .alias ["Mymod", "Thing"] [])] }

/-- known finding C15-duplicate-redefine: a name with a file below the global loader and a file below the module, loaded
    through the dependency loader, is answered by a redefinition error the first time (both files are read) and found
    afterwards — although a justified definition exists -/
theorem C15_duplicate_redefine :
    (runLoads 40 dupCfg {} [["Mymod", "Thing"], ["Mymod", "Thing"]]).1 =
      [.failed (.reported "PCORE_ATTEMPT_TO_REDEFINE_TYPE" none 0), .found ⟨.object, ["Mymod", "Thing"]⟩] ∧
    (runLoads 40 dupCfg {} [["Mymod", "Thing"], ["Mymod", "Thing"]]).2.reads =
      [["env", "types", "mymod", "thing.pp"], ["modules", "mymod", "types", "thing.pp"]] := by
  decide

/-- the full "found ⇔ a justified definition exists" is false as stated: for the layout of `C15_duplicate_redefine` the
    first lookup reports a redefinition although a file at the derived path defines the name -/
theorem C15_found_iff_fails : ¬ C15_found_iff_full := by
  intro h
  have h1 := (h dupCfg ["Mymod", "Thing"] 5000 (Nat.le_refl _) (by decide)).mpr
    ⟨⟨.object, ["Mymod", "Thing"]⟩, rfl, by decide,
      Or.inr ⟨["env", "types", "mymod", "thing.pp"], .typ .object ["Mymod", "Thing"] [], by decide,
        Or.inl ⟨[], rfl, .g, Or.inl (by decide)⟩⟩⟩
  obtain ⟨d, hd⟩ := h1
  have h2 : (loadS 5000 dupCfg {} ["Mymod", "Thing"]).1 = .failed (.reported "PCORE_ATTEMPT_TO_REDEFINE_TYPE" none 0) := by
    decide
  rw [h2] at hd
  cases hd

end Pcore.Files
