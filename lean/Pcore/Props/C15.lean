import Pcore.Model.Files
namespace Pcore.Files
end Pcore.Files
