import Pcore.Proofs.Parse
import Pcore.Proofs.LexLoops
import Pcore.Generated.LexLoops
/-!
# C06 — The parser is total: it terminates and fails only with located parse errors

Property (properties.jsonl): for every input text, parsing terminates and either returns a value or raises a reported
parse error whose line and column lie within the input; it never hangs and never lets a Go runtime fault (nil
dereference, index or slice out of range, failed type assertion) escape, whether raw or wrapped as a parse error.
Resolving the parsed expression to a type likewise returns a type or raises a reported error.

Model: `Pcore/Model/Lex.lean` (lexer over `List Sym`, `Sym = chr c | bad`), `Pcore/Model/Parse.lean` (recursive descent
parser, result `PR = ok | err (located) | fault | nofuel`), for ANY oracle `Env` (`unicode.IsLetter`, `regexp.Compile`
succeeds, `strconv.ParseFloat`) and ANY input — every sequence of decodable characters and undecodable bytes.

Full statement / proved / missing
* termination of lexing          — `lexStr`, `lexRx`, `lexNum`, `lexIdent`, `nextTok` are accepted by Lean as structural
                                   recursions on the remaining input (no fuel, no `partial`): every loop iteration of the
                                   Go lexer that does not return or panic consumes a symbol.  `C06_lex_progress`: a token
                                   other than `end` is produced only after consuming at least one symbol;
                                   `C06_lex_suffix`: what is left is a suffix of the input.
* second tie (regenerated facts) — `C06_loops_exit`: the loop-exit table that `extract/lexloops.go` regenerates from
                                   `types/lexer.go` on every check (for each `for { … }` loop: per switch arm, the reader
                                   results it is taken for and how each path through it ends) satisfies `loopsOK`, by
                                   `decide`; `C06_loops_progress` / `C06_loops_terminate`: for ANY table accepted by `loopOK`
                                   every iteration that returns to the loop head has consumed a character, so the loop
                                   terminates.  An arm that falls back to the loop head at end of input without leaving
                                   the loop (the shape that hung the original lexer) makes the `decide` fail.
* termination of parsing         — `C06_terminates`: the fuel `2·|input| + 2` that `parseFile` hands to the mutually
                                   recursive `parseItem / arrayLoop / hashLoop` is never exhausted (each recursive call is
                                   preceded by a token read that consumed a symbol), i.e. the recursive descent terminates.
* no runtime fault               — `C06_no_fault`: the explicit fault sites (`PopLast().(*Array)`, slicing an empty
                                   parameter list) are unreachable.
* outcome                        — `C06_outcome`: value or located parse error, nothing else.
* location within the input      — `C06_location`: 1 ≤ line ≤ number of lines, column ≤ width of that line + 2.  (The
                                   reader counts the newline as column 1 of the next line and bumps the column once when
                                   it is asked for a symbol at the end, hence `+ 2`; columns are natural numbers — the
                                   implementation clamps at 0 since fix 153f591.)
* missing: resolution totality (`Context.ParseType` returns a type or a reported error) is NOT a theorem here: the
  positional creators of all ~40 types are not modelled.  It is checked on the implementation only (direct predicate of
  harness/c06 over every type name × every argument list of length ≤ 2 over 29 argument kinds, plus samples).
* not provable in this model: stack exhaustion on very deep nestings (a resource of the Go runtime).
-/
namespace Pcore.Syntax

/-- lexer progress: `nextToken` either consumes input or is at the end -/
theorem C06_lex_progress (il : Char → Bool) (s : List Sym) (t : Tok) (rest : List Sym) (b : Bool)
    (h : nextToken il s = .tok t rest b) : rest.length < s.length ∨ t.k = .eoi := by
  rcases nextTok_progress il false s t rest b h with h | ⟨h, _, _⟩
  · exact Or.inl h
  · exact Or.inr h

/-- whatever the lexer leaves (after a token or at a panic) is a suffix of what it was given -/
theorem C06_lex_suffix (il : Char → Bool) (s : List Sym) : (nextToken il s).rest <:+ s :=
  nextTok_suffix il false s

/-- the recursive descent terminates: the fuel bound is never hit -/
theorem C06_terminates (env : Env) (inp : List Sym) : parse env inp ≠ .nofuel := by
  have h := parseFile_fine env inp
  unfold parse
  cases hp : parseFile env inp <;> simp_all [PR.Fine]

/-- no Go runtime fault: the fault sites of the parser are unreachable -/
theorem C06_no_fault (env : Env) (inp : List Sym) : parse env inp ≠ .fault := by
  have h := parseFile_fine env inp
  unfold parse
  cases hp : parseFile env inp <;> simp_all [PR.Fine]

/-- parsing yields a value or a located parse error -/
theorem C06_outcome (env : Env) (inp : List Sym) :
    (∃ e, parse env inp = .value e) ∨ (∃ l c, parse env inp = .parseError l c) := by
  have h := parseFile_fine env inp
  unfold parse
  cases hp : parseFile env inp <;> simp_all [PR.Fine]

/-- the location of a parse error lies within the input -/
theorem C06_location (env : Env) (inp : List Sym) (l c : Nat) (h : parse env inp = .parseError l c) :
    1 ≤ l ∧ l ≤ lineCount inp ∧ c ≤ lineWidth inp (l - 1) + 2 := by
  have hf := parseFile_fine env inp
  unfold parse at h
  cases hp : parseFile env inp with
  | ok e => simp [hp] at h
  | fault k => simp [hp] at h
  | nofuel => simp [hp] at h
  | err e =>
    rw [hp] at hf h
    have hb := pos_bound inp e.rest e.bumped hf
    simp only [locate, Outcome.parseError.injEq] at h
    obtain ⟨rfl, rfl⟩ := h
    refine ⟨hb.1, hb.2.1, ?_⟩
    have := hb.2.2
    omega

/-! ### the regenerated loop-exit table -/

open Pcore.LexLoops in
/-- obligation over the regenerated table: no lexer loop has an arm that can return to the loop head without having
    consumed a character -/
theorem C06_loops_exit : loopsOK Pcore.Generated.lexLoops = true := by decide

open Pcore.LexLoops in
/-- for any accepted table: an iteration that returns to the loop head leaves strictly fewer characters -/
theorem C06_loops_progress (l : Loop) (hl : l ∈ Pcore.Generated.lexLoops) (n n' : Nat) (hs : Step l n (some n')) :
    n' < n := by
  have h : loopOK l = true := by
    have := C06_loops_exit
    simp only [loopsOK, List.all_eq_true] at this
    exact this l hl
  exact loopOK_progress l h n n' hs

open Pcore.LexLoops in
/-- hence every lexer loop terminates -/
theorem C06_loops_terminate (l : Loop) (hl : l ∈ Pcore.Generated.lexLoops) :
    ∀ n, Acc (fun n' n => Step l n (some n')) n := by
  have h : loopOK l = true := by
    have := C06_loops_exit
    simp only [loopsOK, List.all_eq_true] at this
    exact this l hl
  exact loopOK_terminates l h

open Pcore.LexLoops in
/-- the table of the original `consumeUnsignedInteger` (empty `case 0:`) is refuted; and the accepted loops are not
    trivially accepted: `consumeNumber` really has arms that go back to the loop head -/
example : loopOK { fn := "consumeUnsignedInteger", kind := .peek, arms := [
    { labels := [.runeError], outs := [.panic] }, { labels := [.zero], outs := [.loop false false] },
    { labels := [.char], outs := [.panic] }, { labels := [.dflt], outs := [.loop true true, .panic, .ret] }] } = false := by
  decide
open Pcore.LexLoops in
example : (Pcore.Generated.lexLoops.filter fun l => l.arms.any fun a => a.outs.any isLoopOut).length ≥ 8 := by decide

/-! ### non-vacuity: the inputs that broke the original code, on the model of the code as it is now -/

/-- an oracle for examples (kernel-evaluable): no letters beyond ASCII, every regexp compiles, floats read as 0 -/
def env0 : Env := { isLetter := fun c => isUpper c || isLower c, rxOK := fun _ => true, pf := fun _ => some 0 }

def ofChars (cs : List Char) : List Sym := cs.map .chr

/-- `1e5` at end of input (hung the original lexer): a float token -/
example : nextToken env0.isLetter (ofChars ['1', 'e', '5']) = .tok ⟨.float, ['1', 'e', '5']⟩ [] false := by decide
/-- an invalid first token (nil `p.lt` in the original `location`): a parse error at line 1, column 1 -/
example : (match parse env0 (ofChars ['\r']) with | .parseError 1 1 => true | _ => false) = true := by decide
/-- `Deferred()` (sliced `[1:0]` in the original): a parse error, not a fault -/
example : (match parse env0 (ofChars ['D', 'e', 'f', 'e', 'r', 'r', 'e', 'd', '(', ')']) with | .parseError 1 9 => true | _ => false) = true := by
  decide
/-- top level `a =>` (indexed an empty collector before fix 18fd032): a parse error -/
example : (match parse env0 (ofChars ['a', '=', '>']) with | .parseError 1 4 => true | _ => false) = true := by decide
/-- a parse that succeeds with nesting, so that `C06_outcome` is not vacuous on the value side -/
example : (match parse env0 (ofChars ['A', '[', 'b', ',', '{', 'c', '=', '>', '[', '1', ']', '}', ']']) with | .value _ => true | _ => false) = true := by decide
/-- an undecodable byte is a located error -/
example : (match parse env0 [.chr '[', .bad] with | .parseError 1 1 => true | _ => false) = true := by decide
/-- a location on a later line -/
example : (match parse env0 (ofChars ['[', '\n', '1', '\n', ' ', ')']) with | .parseError 3 2 => true | _ => false) = true := by
  decide

end Pcore.Syntax
