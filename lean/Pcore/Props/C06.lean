import Pcore.Proofs.Parse
import Pcore.Proofs.Resolve
import Pcore.Proofs.LexLoops
import Pcore.Proofs.CoreNames
import Pcore.Proofs.ArgCounts
import Pcore.Generated.LexLoops
import Pcore.Generated.CoreTypes
import Pcore.Generated.ArgCounts
/-!
# C06 — The parser is total: it terminates and fails only with located parse errors

Property (properties.jsonl): for every input text, parsing terminates and either returns a value or raises a reported
parse error whose line and column lie within the input; it never hangs and never lets a Go runtime fault (nil
dereference, index or slice out of range, failed type assertion) escape, whether raw or wrapped as a parse error.
Resolving the parsed expression to a type likewise returns a type or raises a reported error.

Model: `Pcore/Model/Lex.lean` (lexer over `List Sym`, `Sym = chr c | bad`), `Pcore/Model/Parse.lean` (recursive descent
parser, result `PR = ok | err (located) | fault | nofuel`), for ANY oracle `Env` (`unicode.IsLetter`, `regexp.Compile`
succeeds, `strconv.ParseFloat`) and ANY input — every sequence of decodable characters and undecodable bytes.

Full statement / proved / missing
* termination of lexing          — `lexStr`, `lexRx`, `lexNum`, `lexIdent`, `nextTok` are accepted by Lean as structural
                                   recursions on the remaining input (no fuel, no `partial`): every loop iteration of the
                                   Go lexer that does not return or panic consumes a symbol.  `C06_lex_progress`: a token
                                   other than `end` is produced only after consuming at least one symbol;
                                   `C06_lex_suffix`: what is left is a suffix of the input.
* second tie (regenerated facts) — `C06_loops_exit`: the loop-exit table that `extract/lexloops.go` regenerates from
                                   `types/lexer.go` on every check (for each `for { … }` loop: per switch arm, the reader
                                   results it is taken for and how each path through it ends) satisfies `loopsOK`, by
                                   `decide`; `C06_loops_progress` / `C06_loops_terminate`: for ANY table accepted by `loopOK`
                                   every iteration that returns to the loop head has consumed a character, so the loop
                                   terminates.  An arm that falls back to the loop head at end of input without leaving
                                   the loop (the shape that hung the original lexer) makes the `decide` fail.
* termination of parsing         — `C06_terminates`: the fuel `2·|input| + 2` that `parseFile` hands to the mutually
                                   recursive `parseItem / arrayLoop / hashLoop` is never exhausted (each recursive call is
                                   preceded by a token read that consumed a symbol), i.e. the recursive descent terminates.
* no runtime fault               — `C06_no_fault`: the explicit fault sites (`PopLast().(*Array)`, slicing an empty
                                   parameter list) are unreachable.
* outcome                        — `C06_outcome`: value or located parse error, nothing else.
* location within the input      — `C06_location`: 1 ≤ line ≤ number of lines, column ≤ width of that line + 2.  (The
                                   reader counts the newline as column 1 of the next line and bumps the column once when
                                   it is asked for a symbol at the end, hence `+ 2`; columns are natural numbers — the
                                   implementation clamps at 0 since fix 153f591.)
* resolution                     — `Model/Resolve.lean`: the resolver's decision structure `resolveR : Expr → ok type |
                                   reported issue-code | outside | fault`, for the 22 parameterized core types of the C05
                                   fragment, the parameterless ones, unknown names and second spellings: which issue code
                                   each positional creator reports for arguments it refuses, in the implementation's order of
                                   evaluation (parameters first, left to right, depth first; then the creator's own tests);
                                   `newEnumType3` statement by statement with its self-sized slice (`enums[idx] = …`,
                                   `enums[:idx]`) as explicit fault sites.
                                   `C06_resolve_total`: NO fault result is reachable, for every expression and every oracle
                                   (in particular the index arithmetic of the Enum creator stays in range:
                                   `C06_enum_index_in_range`, and the recursion of the creators through nested array
                                   arguments ends); `C06_parse_type_outcome`: `Context.ParseType` on any input is a type, a
                                   reported issue, a located parse error, or outside the model — never a fault.
                                   `C06_resolve_agrees`: the accepting half is exactly the creator model of C05
                                   (`resolve`), so every type this resolver returns is the one whose print/parse round trip
                                   C05 proves; `C06_enum_low_agrees`: the statement-level Enum creator computes `enumArgs` +
                                   `NewEnumType`.  Arity lemmas per type name: `C06_arity_*`, `C06_not_parameterized`,
                                   `C06_unknown_name`, `C06_non_type`.
                                   `outside` (no claim): constructor calls, `Init[…]`, `Like`, `Object[…]`, `TypeSet[…]`,
                                   `Timespan/Timestamp/SemVer/SemVerRange/URI[…]`, names the loader may know, `type X = …`
                                   — for these the property is checked on the implementation only
                                   (direct predicate of harness/c06: type or reported error, never a Go fault).
* not provable in this model: stack exhaustion on very deep nestings (a resource of the Go runtime).
-/
namespace Pcore.Syntax

/-- lexer progress: `nextToken` either consumes input or is at the end -/
theorem C06_lex_progress (il : Char → Bool) (s : List Sym) (t : Tok) (rest : List Sym) (b : Bool)
    (h : nextToken il s = .tok t rest b) : rest.length < s.length ∨ t.k = .eoi := by
  rcases nextTok_progress il false s t rest b h with h | ⟨h, _, _⟩
  · exact Or.inl h
  · exact Or.inr h

/-- whatever the lexer leaves (after a token or at a panic) is a suffix of what it was given -/
theorem C06_lex_suffix (il : Char → Bool) (s : List Sym) : (nextToken il s).rest <:+ s :=
  nextTok_suffix il false s

/-- the recursive descent terminates: the fuel bound is never hit -/
theorem C06_terminates (env : Env) (inp : List Sym) : parse env inp ≠ .nofuel := by
  have h := parseFile_fine env inp
  unfold parse
  cases hp : parseFile env inp <;> simp_all [PR.Fine]

/-- no Go runtime fault: the fault sites of the parser are unreachable -/
theorem C06_no_fault (env : Env) (inp : List Sym) : parse env inp ≠ .fault := by
  have h := parseFile_fine env inp
  unfold parse
  cases hp : parseFile env inp <;> simp_all [PR.Fine]

/-- parsing yields a value or a located parse error -/
theorem C06_outcome (env : Env) (inp : List Sym) :
    (∃ e, parse env inp = .value e) ∨ (∃ l c, parse env inp = .parseError l c) := by
  have h := parseFile_fine env inp
  unfold parse
  cases hp : parseFile env inp <;> simp_all [PR.Fine]

/-- the location of a parse error lies within the input -/
theorem C06_location (env : Env) (inp : List Sym) (l c : Nat) (h : parse env inp = .parseError l c) :
    1 ≤ l ∧ l ≤ lineCount inp ∧ c ≤ lineWidth inp (l - 1) + 2 := by
  have hf := parseFile_fine env inp
  unfold parse at h
  cases hp : parseFile env inp with
  | ok e => simp [hp] at h
  | fault k => simp [hp] at h
  | nofuel => simp [hp] at h
  | err e =>
    rw [hp] at hf h
    have hb := pos_bound inp e.rest e.bumped hf
    simp only [locate, Outcome.parseError.injEq] at h
    obtain ⟨rfl, rfl⟩ := h
    refine ⟨hb.1, hb.2.1, ?_⟩
    have := hb.2.2
    omega

/-! ### the regenerated loop-exit table -/

open Pcore.LexLoops in
/-- obligation over the regenerated table: no lexer loop has an arm that can return to the loop head without having
    consumed a character -/
theorem C06_loops_exit : loopsOK Pcore.Generated.lexLoops = true := by decide

open Pcore.LexLoops in
/-- for any accepted table: an iteration that returns to the loop head leaves strictly fewer characters -/
theorem C06_loops_progress (l : Loop) (hl : l ∈ Pcore.Generated.lexLoops) (n n' : Nat) (hs : Step l n (some n')) :
    n' < n := by
  have h : loopOK l = true := by
    have := C06_loops_exit
    simp only [loopsOK, List.all_eq_true] at this
    exact this l hl
  exact loopOK_progress l h n n' hs

open Pcore.LexLoops in
/-- hence every lexer loop terminates -/
theorem C06_loops_terminate (l : Loop) (hl : l ∈ Pcore.Generated.lexLoops) :
    ∀ n, Acc (fun n' n => Step l n (some n')) n := by
  have h : loopOK l = true := by
    have := C06_loops_exit
    simp only [loopsOK, List.all_eq_true] at this
    exact this l hl
  exact loopOK_terminates l h

open Pcore.LexLoops in
/-- the table of the original `consumeUnsignedInteger` (empty `case 0:`) is refuted; and the accepted loops are not
    trivially accepted: `consumeNumber` really has arms that go back to the loop head -/
example : loopOK { fn := "consumeUnsignedInteger", kind := .peek, arms := [
    { labels := [.runeError], outs := [.panic] }, { labels := [.zero], outs := [.loop false false] },
    { labels := [.char], outs := [.panic] }, { labels := [.dflt], outs := [.loop true true, .panic, .ret] }] } = false := by
  decide
open Pcore.LexLoops in
example : (Pcore.Generated.lexLoops.filter fun l => l.arms.any fun a => a.outs.any isLoopOut).length ≥ 8 := by decide

/-! ### resolution -/

/-- **resolution is total**: no fault result is reachable from any parsed expression -/
theorem C06_resolve_total (env : Env) (e : Expr) (k : RFault) : resolveR env e ≠ .fault k := by
  unfold resolveR
  split
  · simp
  · exact evalR_no_fault env k e

/-- the statement-level model of `newEnumType3`: every index it writes and every bound it re-slices to lies within the
    slice it sized itself, whatever the arguments -/
theorem C06_enum_index_in_range (l : List Arg) (k : RFault) :
    enumLoop l.length l 0 (List.replicate l.length []) false ≠ .fault k :=
  enumLoop_no_fault l.length l 0 _ false (by simp) (fun _ => by simp) k

/-- … and it computes what the creator model of C05 computes -/
theorem C06_enum_low_agrees (args : List Arg) :
    enumLow (argDepth (.arr args) + 1) args =
      match enumArgs (argDepth (.arr args) + 1) args with
      | some (vs, f) => enumLow.fin vs f
      | none => .reported .argType :=
  enumLow_spec _ args (by omega)

/-- the accepting half of the resolver is the creator model whose print/parse round trip C05 proves -/
theorem C06_resolve_agrees (env : Env) (e : Expr) (t : Ty) (h : e.outsideB env = false) :
    resolveR env e = .ok t ↔ resolve env e = some t := by
  unfold resolveR
  simp only [h, Bool.false_eq_true, if_false]
  exact evalR_ok env e t

/-- `Context.ParseType(text)`: a type, a reported issue, a located parse error, or outside the model -/
theorem C06_parse_type_outcome (env : Env) (inp : List Sym) : parseTypeR env inp ≠ .fault := by
  unfold parseTypeR
  have h1 := C06_no_fault env inp
  have h2 := C06_terminates env inp
  cases hp : parse env inp with
  | value e =>
    simp only
    cases hr : resolveR env e with
    | fault k => exact absurd hr (C06_resolve_total env e k)
    | _ => simp
  | parseError l c => simp
  | fault => exact absurd hp h1
  | nofuel => exact absurd hp h2

/-! #### arity and kind of parameters, per type name -/

/-- an expression that is not a type expression: `PCORE_FAILURE` -/
theorem C06_non_type (env : Env) (e : Expr) (h : ∀ n ps, e ≠ .dtype n ps) : evalR env e = .reported .failure := by
  cases e with
  | dtype n ps => exact absurd rfl (h n ps)
  | _ => simp [evalR]

/-- a core type without a positional creator refuses every parameter list -/
theorem C06_not_parameterized (env : Env) (n : Str) (args : List Arg) (h : n ∈ notParamNames) :
    createR env n args = .reported .notParam := by
  have : ∀ m ∈ notParamNames, kindOf (canonName m) = none ∧ plainNames.contains (canonName m) = true ∧
      notParamNames.contains (canonName m) = true := by decide
  obtain ⟨h1, h2, h3⟩ := this n h
  have h2' : canonName n ∈ plainNames := by simpa using h2
  have h3' : canonName n ∈ notParamNames := by simpa using h3
  simp [createR, h1, h2', h3']

/-- an unknown name is a TypeReference to itself; with parameters it takes those of `TypeReference` -/
theorem C06_unknown_name (env : Env) (n : Str) (hk : kindOf (canonName n) = none)
    (hp : canonName n ∉ plainNames) (hc : canonName n ∉ coreOther) (hu : env.unknown n = true) :
    evalR env (.dtype n none) = .ok (.typeRef n) ∧
    ∀ args, createR env n args = createKR env .typeRef args := by
  constructor
  · simp [evalR, nameR, resolveName, hk, hp, hc, hu]
  · intro args; simp [createR, hk, hp, hc, hu]

theorem C06_arity_wrap (env : Env) (k : WrapKind) (a b : Arg) (rest : List Arg) :
    createKR env (.wrap k) (a :: b :: rest) = .reported .argCount := by
  simp [createKR, createK, wrapOf, diagK]

theorem C06_arity_boolean (env : Env) (a b : Arg) (rest : List Arg) :
    createKR env .boolean (a :: b :: rest) = .reported .argCount := by
  simp [createKR, createK, diagK]

theorem C06_arity_regexp (env : Env) (a b : Arg) (rest : List Arg) :
    createKR env .regexp (a :: b :: rest) = .reported .argCount := by
  simp [createKR, createK, diagK]

theorem C06_arity_typeRef (env : Env) (a b : Arg) (rest : List Arg) :
    createKR env .typeRef (a :: b :: rest) = .reported .argCount := by
  simp [createKR, createK, typeRefCreate, diagK]

theorem C06_arity_collection (env : Env) (a b c : Arg) (rest : List Arg) :
    createKR env .collection (a :: b :: c :: rest) = .reported .argCount := by
  simp [createKR, createK, diagK]

theorem C06_arity_string (env : Env) (a b c : Arg) (rest : List Arg) :
    createKR env .string (a :: b :: c :: rest) = .reported .argCount := by
  simp [createKR, createK, diagK]

/-- Integer: the first argument is looked at before the count -/
theorem C06_arity_integer (env : Env) (a b c : Arg) (rest : List Arg) :
    createKR env .integer (a :: b :: c :: rest) = .reported (if a.isIntOrD then .argCount else .argType) := by
  by_cases h : a.isIntOrD = true <;> simp [createKR, createK, diagK, h]

theorem C06_arity_float (env : Env) (a b c : Arg) (rest : List Arg) :
    createKR env .float (a :: b :: c :: rest) = .reported (if a.isFloatOrD then .argCount else .argType) := by
  by_cases h : a.isFloatOrD = true <;> simp [createKR, createK, diagK, h]

theorem C06_arity_runtime (env : Env) (a b c d : Arg) (rest : List Arg) :
    createKR env .runtime (a :: b :: c :: d :: rest) = .reported .argCount := by
  simp [createKR, createK, runtimeCreate, diagK]

theorem C06_arity_hash_one (env : Env) (a : Arg) : createKR env .hash [a] = .reported .argCount := by
  simp [createKR, createK, diagK]

theorem C06_arity_hash_many (env : Env) (a b c d e : Arg) (rest : List Arg) :
    createKR env .hash (a :: b :: c :: d :: e :: rest) = .reported .argCount := by
  simp [createKR, createK, diagK]

/-- Array: at most an element type and two size arguments -/
theorem C06_arity_array (env : Env) (a b c : Arg) (rest : List Arg) (h : ∀ t, a ≠ .ty t) :
    createKR env .array (a :: b :: c :: rest) = .reported .argCount := by
  cases a with
  | ty t => exact absurd rfl (h t)
  | _ => simp [createKR, createK, diagK]

theorem C06_arity_array_typed (env : Env) (t : Ty) (a b c : Arg) (rest : List Arg) :
    createKR env .array (.ty t :: a :: b :: c :: rest) = .reported .argCount := by
  simp [createKR, createK, diagK]

/-! #### second tie: the table of core type names, regenerated from `types/zinit.go` -/

/-- the model's classification of core type names (`kindOf`, `plainNames`, `coreOther`, `spellings`) agrees with the table
    `coreTypes` of the code as it is now: every name of the table is classified and bound to the default constructor of its
    canonical name, and the model classifies no core name that the table lacks -/
theorem C06_core_names : coreTableOK Pcore.Generated.coreTypes = true := by decide +kernel

/-- hence no name of `coreTypes` is ever taken for an unknown name (a TypeReference through the loader), whatever the
    context knows; proved for ANY table that satisfies the side condition -/
theorem C06_core_names_not_loaded (env : Env) (u : Str → Bool) (n c : String) (h : (n, c) ∈ Pcore.Generated.coreTypes) :
    resolveName env n.toList = resolveName { env with unknown := u } n.toList :=
  classified_not_loaded env u n.toList (coreTable_known _ C06_core_names n c h)

example : ("Notundef", "DefaultNotUndefType") ∈ Pcore.Generated.coreTypes := by decide
/-- a table with a name the model does not classify, or a spelling bound to another type, is rejected -/
example : coreTableOK (Pcore.Generated.coreTypes ++ [("Newtype", "DefaultNewtypeType")]) = false := by decide +kernel
example : coreTableOK (Pcore.Generated.coreTypes.map fun r => if r.1 = "Uri" then ("Uri", "DefaultStringType") else r) = false := by
  decide +kernel
example : coreTableOK (Pcore.Generated.coreTypes.filter fun r => r.1 != "Typeset") = false := by decide +kernel

/-- second tie, arity: for every modelled kind whose creator can refuse an argument count, the count the creator DECLARES
    (the literal of its `illegalArgumentCount(label, counts, n)` call, regenerated from types/*.go) is the model's maximum
    (`modelMax`; Hash: the message says `0, 2, or 3`, the code and the model take four) -/
theorem C06_arg_counts : argCountsOK Pcore.Generated.argCounts = true := by decide +kernel

/-- above that maximum every creator of the model refuses — by count, or (Integer, Float: the first argument is looked at
    first) by the kind of the first argument; one statement for all kinds -/
theorem C06_over_max_refused (env : Env) (k : TKind) (n : Nat) (args : List Arg) (hk : modelMax k = some n)
    (hl : n < args.length) :
    createKR env k args = .reported .argCount ∨ createKR env k args = .reported .argType :=
  over_max_refused env k n args hk hl

example : modelMax .array = some 3 ∧ (3 : Nat) < [Arg.int 1, .int 2, .int 3, .int 4].length := by decide
/-- a table in which a creator declares another count is rejected -/
example : argCountsOK (Pcore.Generated.argCounts.map fun r => if r.2.1 = "Integer[]" then (r.1, r.2.1, "0 - 3") else r) = false := by
  decide +kernel
example : argCountsOK (Pcore.Generated.argCounts.filter fun r => r.2.1 != "Runtime[]") = false := by decide +kernel

/-! #### non-vacuity of the resolution theorems -/

/-- an oracle for examples: `Foo` is an unknown name -/
def envR : Env :=
  { isLetter := fun c => isUpper c || isLower c, rxOK := fun s => s ≠ ['('], pf := fun _ => none,
    unknown := fun n => n = "Foo".toList }

/-- `Enum[['a', true], 'b']` (the input of seeded change C06-s10: a flag inside the array form followed by a string) is
    refused with ILLEGAL_ARGUMENT_TYPE — the Boolean is not the last argument of the flattened list -/
def enumMisplacedFlag : Expr := .dtype "Enum".toList (some [.arr [.str ['a'], .bool true], .str ['b']])
example : enumMisplacedFlag.outsideB envR = false := by decide +kernel
example : (match resolveR envR enumMisplacedFlag with | .reported .argType => true | _ => false) = true := by decide +kernel
/-- accepted forms: `Enum[['a', 'B'], true]`, `Callable[[String], Integer[1, 2]]`, `Foo`, `Notundef['x']` -/
example : (match resolveR envR (.dtype "Enum".toList (some [.arr [.str ['a'], .str ['B']], .bool true])) with
    | .ok (.enum [['a'], ['b']] true) => true | _ => false) = true := by decide +kernel
example : (match resolveR envR (.dtype "Callable".toList (some [.arr [.dtype "String".toList none],
      .dtype "Integer".toList (some [.int 1, .int 2])])) with
    | .ok (.callable (some ([.named _], none)) (some (.int 1 2)) none) => true | _ => false) = true := by decide +kernel
example : (match resolveR envR (.dtype "Foo".toList none) with | .ok (.typeRef _) => true | _ => false) = true := by
  decide +kernel
example : (match resolveR envR (.dtype "Notundef".toList (some [.str ['x']])) with
    | .ok (.wrap .notUndef (.strVal ['x'])) => true | _ => false) = true := by decide +kernel
/-- every issue code is reachable: count, type, range, regexp, go runtime, not parameterized, not a type; the first
    failing PARAMETER wins over the creator's own refusal -/
example : (match resolveR envR (.dtype "Integer".toList (some [.int 1, .int 2, .int 3])) with
    | .reported .argCount => true | _ => false) = true := by decide +kernel
example : (match resolveR envR (.dtype "Integer".toList (some [.str ['a'], .int 2, .int 3])) with
    | .reported .argType => true | _ => false) = true := by decide +kernel
example : (match resolveR envR (.dtype "Integer".toList (some [.int 2, .int 1])) with
    | .reported .args => true | _ => false) = true := by decide +kernel
example : (match resolveR envR (.dtype "Pattern".toList (some [.str ['a'], .str ['('], .int 1])) with
    | .reported .invalidRegexp => true | _ => false) = true := by decide +kernel
example : (match resolveR envR (.dtype "Runtime".toList (some [.str ['g', 'o'], .str ['x']])) with
    | .reported .goRuntime => true | _ => false) = true := by decide +kernel
example : (match resolveR envR (.dtype "Any".toList (some [.int 1])) with
    | .reported .notParam => true | _ => false) = true := by decide +kernel
example : (match resolveR envR (.int 1) with | .reported .failure => true | _ => false) = true := by decide +kernel
example : (match resolveR envR (.dtype "Any".toList (some [.dtype "Integer".toList (some [.int 2, .int 1])])) with
    | .reported .args => true | _ => false) = true := by decide +kernel
/-- outside the model: a constructor call, `Init[…]`, a name the loader may know -/
example : (match resolveR envR (.dtype "Array".toList (some [.call (some ['n', 'e', 'w']) [.str ['F']]])) with
    | .outside => true | _ => false) = true := by decide +kernel
example : (match resolveR envR (.dtype "Init".toList (some [.dtype "String".toList none])) with
    | .outside => true | _ => false) = true := by decide +kernel
example : (match resolveR envR (.dtype "Bar".toList none) with | .outside => true | _ => false) = true := by decide +kernel
/-- hypotheses of the lemmas above are satisfiable -/
example : "Any".toList ∈ notParamNames := by decide
example : kindOf (canonName "Foo".toList) = none ∧ canonName "Foo".toList ∉ plainNames ∧
    canonName "Foo".toList ∉ coreOther ∧ envR.unknown "Foo".toList = true := by decide
example : ∀ t, Arg.int 1 ≠ .ty t := by intro t; simp
example : ∀ n ps, Expr.int 1 ≠ .dtype n ps := by intro n ps; simp

/-! ### non-vacuity: the inputs that broke the original code, on the model of the code as it is now -/

/-- an oracle for examples (kernel-evaluable): no letters beyond ASCII, every regexp compiles, floats read as 0 -/
def env0 : Env := { isLetter := fun c => isUpper c || isLower c, rxOK := fun _ => true, pf := fun _ => some 0 }

def ofChars (cs : List Char) : List Sym := cs.map .chr

/-- `1e5` at end of input (hung the original lexer): a float token -/
example : nextToken env0.isLetter (ofChars ['1', 'e', '5']) = .tok ⟨.float, ['1', 'e', '5']⟩ [] false := by decide
/-- an invalid first token (nil `p.lt` in the original `location`): a parse error at line 1, column 1 -/
example : (match parse env0 (ofChars ['\r']) with | .parseError 1 1 => true | _ => false) = true := by decide
/-- `Deferred()` (sliced `[1:0]` in the original): a parse error, not a fault -/
example : (match parse env0 (ofChars ['D', 'e', 'f', 'e', 'r', 'r', 'e', 'd', '(', ')']) with | .parseError 1 9 => true | _ => false) = true := by
  decide
/-- top level `a =>` (indexed an empty collector before fix 18fd032): a parse error -/
example : (match parse env0 (ofChars ['a', '=', '>']) with | .parseError 1 4 => true | _ => false) = true := by decide
/-- a parse that succeeds with nesting, so that `C06_outcome` is not vacuous on the value side -/
example : (match parse env0 (ofChars ['A', '[', 'b', ',', '{', 'c', '=', '>', '[', '1', ']', '}', ']']) with | .value _ => true | _ => false) = true := by decide
/-- an undecodable byte is a located error -/
example : (match parse env0 [.chr '[', .bad] with | .parseError 1 1 => true | _ => false) = true := by decide
/-- a location on a later line -/
example : (match parse env0 (ofChars ['[', '\n', '1', '\n', ' ', ')']) with | .parseError 3 2 => true | _ => false) = true := by
  decide

end Pcore.Syntax
