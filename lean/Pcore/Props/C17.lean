import Pcore.Proofs.ObjectDefine
import Pcore.Proofs.ObjectSchema
import Pcore.Proofs.ObjectInitHash
import Pcore.Proofs.ObjectClosure
import Pcore.Model.ObjectParams
import Pcore.Proofs.ObjectAsg
import Pcore.Proofs.ObjectFuncs
import Pcore.Proofs.ObjectTyped
import Pcore.Proofs.ObjectLiskov
import Pcore.Generated.ObjectSchema
import Mathlib.Data.List.Perm.Subperm
/-!
# C17 — Object types: constructors, init-hash, equality and inheritance cohere

Property (properties.jsonl): for every object type definition (attributes with defaults and kinds, inheritance, equality
and serialization lists) and all attribute values: positional and named construction yield equal objects, rebuilding an
object from its init-hash yields an equal object, and each attribute reads back the value given or its default.  Objects
compare equal exactly when their declared equality attributes are equal, an instance of a subtype is an instance of every
ancestor and never the reverse, and every definition the declared schema admits is accepted.

All theorems are about the executable model `Pcore.Model.Object` (tied to the code by the correspondence run) and are
unbounded: ANY type `t : OType` (any number of levels, attributes, any equality / serialization lists) satisfying the layout
invariant `WF t`, any value list.  `WF t` (names of the positional attributes distinct, every position from the required
count on optional, no given_or_derived attribute with a declared value) is what `InitFromHash` establishes:
`C17_wf_define` proves it for EVERY definition accepted by `define` over an environment of accepted definitions,
`C17_wf_env` for every type of every accepted list of definitions (any inheritance depth), given only the shape the
driver's universe guarantees (`DefShape`: the keys of `attributes` and of `constants` distinct — hash literals).

Full statement / proved / missing
* `C17_get`            — proved: `get (newPos t vs) a = vs[pos a]` or, beyond the given values, the default
                         (`undef` for given_or_derived);  `C17_get_named` the same for the named constructor;
                         `C17_get_constant`: a constant reads back its value (after the fix "Get of a constant attribute …").
* `C17_pos_named`      — proved: `newNamed t (toHash t vs)` succeeds and is `equals` to `newPos t vs` (both directions), and
                         denotes the same value at EVERY position (not only the ones Equals looks at).
* `C17_inithash`       — proved: `newNamed t (initHash o)` succeeds, is `equals` to `o`, same value at every position.
* `C17_equality`       — proved at FULL strength (after the fix 2607361 "equality_include_type => false was ignored"):
                         `equals o o' = true ↔ (types Equal ∧ ∀ a ∈ eqAttrNames t, get o a = get o' a) ∨ (types differ ∧
                         both say equality_include_type => false ∧ both compare equally many attributes ∧ every equality
                         attribute of `o`'s type is one of `o'`'s type with the same value)`; `equals` never faults
                         (`C17_equals_total`); the relation is symmetric (`C17_equality_symmetric`: the name lists are
                         duplicate-free, so "equally many and included" is "the same set").  `eqAttrNames` = the equality
                         lists declared through the chain, each name once, that have a position (a derived / unlisted
                         attribute is skipped, an explicitly empty list is a declaration), or every positional attribute
                         when none is declared.  Hypothesis `hname`: a name identifies a type within a loader (`tyEq` implies
                         same type).  `C17_include_type_honoured`: the former known finding, replayed in the model.
* `C17_equality_default`, `C17_equality_default_all` — proved: with no equality declared anywhere in the chain the compared
                         attributes are all positional ones, i.e. (without a serialization list) every attribute of the chain
                         that is neither constant nor derived.
* `C17_valid_named`, `C17x_valid`, `C17_typed_define`, `C17_typed_env` — proved: accepted definitions hold well-typed defaults
                         (`TypeTyped`), hence EVERY instance either constructor builds (named, fall-through, parameterized)
                         is `Valid` — the hypothesis of `C17_equality` / `C17_equals_total` / `C17_inithash` is met by every
                         constructed object, not only by positional ones.
* `C17_names_identify`, `C17_equality_env` — proved, END TO END: for any accepted list of definitions (`defineAll [] ds = ok env`,
                         hash-literal shape `DefShape`), any two of its types and any two instances made by either
                         constructor, `Equals` is total and characterised as in `C17_equality` — the hypotheses `WF`, `Valid`
                         and `hname` are all discharged (`C17_wf_env`, `C17_typed_env`, `C17_valid_named`, `C17_names_identify`).
* `C17x_equality_env`  — the same end to end with type parameters (instances of `T` and of `T[p => v]`).
* `C17_laws_env`       — proved, END TO END: for any accepted list of definitions, any of its types and any values — Get = given or
                         default, positional = named, and the init-hash round trip for every instance EITHER constructor makes.
* `C17_subtype`        — proved: an ancestor (any non-empty suffix of the level list) accepts every instance;
                         `C17_subtype_strict`: a type never accepts an instance of a proper ancestor.
* `C17_instance_closure` — proved: among the types of one loader (`defineAll [] ds = .ok env`, any number of definitions)
                         `isInstance env[i] o` for an object of type `env[j]` holds exactly when `i` is reached from `j`
                         by following `parent` (Relation.ReflTransGen of `parentRel ds`); `C17_assignable_closure` the same
                         for `IsAssignable`.  (Interfaces — attribute-less types with functions, matched structurally —
                         are outside the model: implementation-only streams `@iface`, `@objd`.)
* `C17_schema`         — proved: every `WellFormedDef` (attributes well-formed on their own, each a fresh name or a proper
                         override; equality names non-constant attributes not already in an inherited equality;
                         serialization names positional attributes, each once, with required never after optional) whose names match
                         MemberNamePattern passes the schema assertion AND the definition proper (`defineChecked`), for ANY
                         member table satisfying the decidable side condition `schemaOKb` (no member listed twice, all
                         optional, the six members of the universe with the value types `sinst` implements, every key
                         `InitFromHash` reads declared, the pinned source texts of TypeEquality & co.).
                         `C17_schema_table_ok` discharges the side condition by `decide` on the table REGENERATED from
                         types/objecttype.go on every run (second tie: duplicating a member — the defect repaired by
                         54779d2 — breaks this obligation, and the model, which uses the same table, then reproduces the
                         TYPE_MISMATCH: see `schemaBefore`).  `C17_schema_admits`: the Struct instance test
                         (StructType.IsInstance, `structInst`) accepts the init-hash of every definition of the universe;
                         `C17_schema_partial`: the definition proper.  Missing: the text parser (C05) and the general
                         instance relation of Pattern/Variant/Hash types (C02) — `sinst` implements them on the value shapes
                         an object definition holds only.
* `C17_type_inithash`  — every accepted definition re-created from the InitHash of the type it defined (`typeDef`:
                         attribute.initHash / objectType.initHash) is accepted again and is the same type up to the order of
                         the own attributes (`constants` last).  PROVED IN FULL since the fix 86875be (a constant writes its
                         value even when it is undef); `C17_type_inithash_partial` (the statement proved before the fix,
                         with the exclusion) is kept as a corollary; `C17_type_inithash_same`: the re-created type has the
                         same layout (`attrInfo`), member lookup, `Get` and init-hashes.  `C17_type_inithash_before_fix`:
                         the fixed finding C17-type-inithash-constant-undef replayed — what the type printed as before the
                         fix (`typeDefBefore`) is rejected with CONSTANT_REQUIRES_VALUE, what it prints as now is accepted.
* type parameters    — inside the model (Model/ObjectParams: `newPosX`, `newNamedX`, `equalsX`; an instance carries the bindings
                         of its type, `T[p => v]`).  `C17x_plain`: on a type without type parameters the X constructors and
                         `Equals` ARE the plain ones (every theorem above applies); `C17x_get`: Get = given or default on any
                         type; `C17x_equality`: the full equality statement with "same type" = same definition and same
                         bindings; `C17x_pos_named` (FULL, a `def`): positional = named on parameterized types — FALSE of
                         model and code (known finding C17-tparam-explicit-default: a NON-undef default given explicitly;
                         negation `C17x_pos_named_explicit_default`); proved part `C17x_pos_named_partial`: … when no
                         parameter's attribute is given its default explicitly, an undef excepted (the undef face,
                         C17-tparam-explicit-undef, is fixed by de95e71: `bindParams` binds no undef,
                         `C17x_pos_named_before_fix` / `C17x_inithash_before_fix` replay it).  `C17x_inithash` (FULL, a `def`): the init-hash round trip
                         on parameterized types, refuted by the same finding (`C17x_inithash_explicit_default`); proved part
                         `C17x_inithash_partial` for every instance whose bindings are those of its own init-hash (`ExtOK`),
                         which every positional construction is (`C17x_extOK_pos`).  Missing: `IsInstance` of a
                         parameterized type `T[p => v]` itself (implementation-only `@tparam`).
* `C17_asg_sound`      — proved: the assignability of the override check (`asg`, the model of GuardedIsAssignable on the alphabet) is
                         sound for `inst`; `C17_override_sound`: in every accepted definition an overriding attribute admits
                         only values the overridden declaration admits (inheritance coheres attribute by attribute).
* `C17_liskov_attributes` — proved, along the WHOLE chain: for every type of an accepted list of definitions and every ancestor
                         (any depth), each attribute of the ancestor is by name an attribute of the subtype, and the
                         subtype's declaration admits only values the ancestor's admits (`C17_chain_env`: the invariant).
* `C17_get_typed`, `C17_get_liskov` — proved: `Get` of a positional attribute of a `Valid` instance is an instance of the attribute's
                         type, hence of the type ANY ancestor declares for that attribute.
* the attribute-type alphabet is Integer, String, Boolean, Float, Any, Undef, Optional[T], NotUndef[T], Variant[A,B], Array[T]
  (`inst`, `asg`, `tyInit` tied to pcore by the ops `tinst` / `asg` on every pair of 85 type expressions).
* member functions / interfaces — inside the model (Model/ObjectFuncs: `isInterface`, `allFuncs`, `memberFn`, `implements`,
                         `isAssignableF`).  `C17f_not_interface`: a receiver that is no interface (every type of a chain
                         without functions) accepts what the nominal `isAssignable` accepts, so the theorems above apply;
                         `C17f_instance_closure`: the closure theorem for such receivers with functions in the universe;
                         `C17f_subtype` (FULL, a `def`): every ancestor, interface or not, accepts the subtype — FALSE of model
                         and code (known finding C17-iface-override-covariant, negation `C17f_iface_override_covariant`);
                         proved part `C17f_subtype_partial`: … unless a function of the interface is re-declared at another
                         type.  Not claimed: "never the reverse" for interfaces (an interface accepts every type that has its
                         functions, descendant or not — that is what an interface is; asserted on the implementation by `@ifacex`).
* missing altogether: annotations (implementation-only stream `@objd`; name clashes between functions and attributes / constants and
  `equality` / `serialization` naming a function ARE modelled: `fnShadow`, `attrShadow`, `memberAttr`, `checkEqualityF`), Go-reflected objects (`reflectedObject`); the Go-implemented object types are checked on the
  implementation only (`@goobj`).
-/
namespace Pcore.Object

/-! ### what `InitFromHash` establishes: every accepted definition satisfies the layout invariant -/

/-- the part of a definition's shape the universe of the driver guarantees: the keys of the `attributes` hash and of the
    `constants` hash are distinct (hash literals) -/
structure DefShape (d : Def) : Prop where
  names : (d.attrs.map (·.name)).Nodup
  constNames : (d.constants.map (·.1)).Nodup

theorem C17_wf_define {env : List OType} {d : Def} {t : OType} (henv : ∀ t' ∈ env, TypeOK t') (hd : DefShape d)
    (h : define env d = .ok t) : TypeOK t ∧ WF t :=
  define_wf henv hd.names hd.constNames h

/-- any number of definitions, any inheritance depth: every type of the resulting environment is well laid out -/
theorem C17_wf_env {env0 env : List OType} {ds : List Def} (h0 : ∀ t ∈ env0, TypeOK t ∧ WF t)
    (hds : ∀ d ∈ ds, DefShape d) (h : defineAll env0 ds = .ok env) : ∀ t ∈ env, TypeOK t ∧ WF t := by
  induction ds generalizing env0 with
  | nil => simp [defineAll] at h; subst h; exact h0
  | cons d ds ih =>
    unfold defineAll at h
    cases hd : define env0 d with
    | error c => simp [hd] at h
    | ok t =>
      simp only [hd] at h
      have ht := C17_wf_define (fun t' ht' => (h0 t' ht').1) (hds d (by simp)) hd
      apply ih (env0 := env0 ++ [t]) _ (fun d' hd' => hds d' (by simp [hd'])) h
      intro t' ht'
      simp only [List.mem_append, List.mem_singleton] at ht'
      rcases ht' with ht' | ht'
      · exact h0 t' ht'
      · subst ht'; exact ht

theorem C17_wf_noSerialization {l : Level} {p : OType} (hok : TypeOK (l :: p)) (hs : l.serialization = none) :
    WF (l :: p) := wf_noSerialization hok hs

/-! ### every definition the declared schema admits is accepted -/

/-- a well-formed definition, in the model's terms: no name both in `attributes` and in `constants`; the attribute
    specifications (`attributes`, then `constants` with their inferred type) well-formed on their own, each a fresh name or a
    proper override of an inherited attribute; equality names are (own or inherited) attributes that are not constants and not already part of
    an inherited equality; serialization names are attributes with a position, required never after optional -/
structure WellFormedDef (env : List OType) (d : Def) : Prop where
  /-- no type parameter re-declares an inherited one (trivially true of a definition without `type_parameters`) -/
  params : d.params.any (fun q => (typeParams (parentOf env d)).any (fun r => r.1 == q.1)) = false
  noBoth : d.constants.any (fun c => d.attrs.any (fun a => a.name == c.1)) = false
  /-- every member function is a fresh name or a proper override of an inherited function (trivially true of a definition
      without `functions`) -/
  funcs : defineFuncs (parentOf env d) (d.attrs.map (·.name)) d.funcs = .ok ()
  /-- `equality` / `serialization` name no member function -/
  noFnNames : ∀ as, defineAttrs (parentOf env d) (d.decls (parentOf env d)) = .ok as →
    ∀ n ∈ d.equality.toList?.getD [] ++ d.serialization.getD [], isFnName as d.funcs (parentOf env d) n = false
  attrs : ∀ a ∈ d.decls (parentOf env d), AttrDeclOK a
  override : ∀ a ∈ d.decls (parentOf env d), OverrideOK (parentOf env d) a
  equality : ∀ as, defineAttrs (parentOf env d) (d.decls (parentOf env d)) = .ok as →
    ∀ n ∈ d.equality.toList?.getD [],
      ∃ a, lookupMember as (parentOf env d) n = some a ∧ a.kind ≠ .constant ∧ n ∉ equalityAttributes (parentOf env d)
  serialization : ∀ as, defineAttrs (parentOf env d) (d.decls (parentOf env d)) = .ok as →
    ∀ ser, d.serialization = some ser →
      (∀ n ∈ ser, ∃ a, lookupMember as (parentOf env d) n = some a ∧ a.settable = true) ∧
        SerSorted as (parentOf env d) ser ∧ ser.Nodup

/-- model-level statement of "every definition the schema admits is accepted".  Missing (not modelled): that the parsed
    text / init-hash of such a definition is an instance of the Struct `TypeObjectInitHash` (checked by the
    correspondence run, predicate class `schema-admitted-rejected`). -/
theorem C17_schema_partial {env : List OType} {d : Def} (h : WellFormedDef env d) : ∃ t, define env d = .ok t := by
  obtain ⟨as, has⟩ := defineAttrs_succeeds h.attrs h.override
  have heq := checkEquality_succeeds (h.equality as has)
  have hser : checkSerialization as (parentOf env d) false [] (d.serialization.getD []) = .ok () := by
    rcases Option.eq_none_or_eq_some d.serialization with hs | ⟨ser, hs⟩
    · simp [hs, checkSerialization]
    · obtain ⟨h1, h2, h3⟩ := h.serialization as has ser hs
      rw [hs]
      exact checkSerialization_succeeds h1 (fun hb => by cases hb) h2 h3 (by simp)
  have hnf := h.noFnNames as has
  have heqF := checkEqualityF_of (own := as) (ownF := d.funcs) (parent := parentOf env d)
    (fun n hn => hnf n (List.mem_append.mpr (Or.inl hn)))
  have hserF := checkSerializationF_of (own := as) (ownF := d.funcs) (parent := parentOf env d)
    (fun n hn => hnf n (List.mem_append.mpr (Or.inr hn)))
  unfold define
  simp only [h.params, h.noBoth, h.funcs, Bool.false_eq_true, if_false, has, heqF, hserF, heq, hser]
  exact ⟨_, rfl⟩

/-! ### … and its init-hash is an instance of the declared schema `TypeObjectInitHash` (regenerated table) -/

/-- obligation over the regenerated member table of `TypeObjectInitHash` (types/objecttype.go): this is what a change of
    the schema breaks (e.g. listing `equality` twice, the defect repaired by 54779d2) -/
theorem C17_schema_table_ok : schemaOKb Pcore.Generated.objectSchema = true := by decide +kernel

/-- every name of the definition matches MemberNamePattern (what the driver's universe guarantees: `nameOf`) -/
structure DefNamesValid (d : Def) : Prop where
  params : ∀ q ∈ d.params, memberName q.1 = true
  attrs : ∀ a ∈ d.attrs, memberName a.name = true
  constants : ∀ c ∈ d.constants, memberName c.1 = true
  funcs : ∀ f ∈ d.funcs, memberName f.name = true
  equality : ∀ n ∈ d.equality.toList?.getD [], memberName n = true
  serialization : ∀ ser, d.serialization = some ser → ∀ n ∈ ser, memberName n = true

theorem keys_nodup : ∀ b1 b2 b8 b3 b4 b5 b6 b7 b9 : Bool,
    ((if b1 then ["name"] else []) ++ (if b2 then ["parent"] else []) ++
     (if b8 then ["type_parameters"] else []) ++ (if b3 then ["attributes"] else []) ++
     (if b7 then ["constants"] else []) ++ (if b9 then ["functions"] else []) ++
     (if b4 then ["equality"] else []) ++ (if b5 then ["equality_include_type"] else []) ++
     (if b6 then ["serialization"] else [])).Nodup := by
  intro b1 b2 b8 b3 b4 b5 b6 b7 b9
  cases b1 <;> cases b2 <;> cases b8 <;> cases b3 <;> cases b4 <;> cases b5 <;> cases b6 <;> cases b7 <;> cases b9 <;>
    decide

theorem defHash_keys (name : Option String) (pk : Bool) (d : Def) :
    (defHash name pk d).map (·.1) =
      (if name.isSome then ["name"] else []) ++ (if pk then ["parent"] else []) ++
      (if !d.params.isEmpty then ["type_parameters"] else []) ++
      (if !d.attrs.isEmpty then ["attributes"] else []) ++
      (if !d.constants.isEmpty then ["constants"] else []) ++
      (if !d.funcs.isEmpty then ["functions"] else []) ++
      (if d.equality != .absent then ["equality"] else []) ++
      (if d.includeType.isSome then ["equality_include_type"] else []) ++
      (if d.serialization.isSome then ["serialization"] else []) := by
  have hite : ∀ (c : Bool) (k : String) (v : SVal),
      ((if c = true then [] else [(k, v)] : List (String × SVal))).map (·.1) = if (!c) = true then [k] else [] := by
    intro c k v; cases c <;> rfl
  unfold defHash
  simp only [List.map_append, hite]
  cases name <;> cases pk <;> cases d.equality <;> cases d.includeType <;> cases d.serialization <;> rfl

/-- for ANY member table satisfying the side condition, the init-hash of every definition of the universe — as parsed
    text (no `name`/`parent` entry) or as a complete init-hash — is an instance of the Struct, whatever the definition
    declares (StructType.IsInstance modelled by `structInst`) -/
theorem C17_schema_admits (s : Schema) (hs : schemaOKb s = true) (d : Def) (hd : DefNamesValid d)
    (name : Option String) (hn : ∀ n, name = some n → typeName n = true) (pk : Bool) :
    structInst s.members (defHash name pk d) = true := by
  unfold schemaOKb at hs
  simp only [Bool.and_eq_true, decide_eq_true_eq, List.all_eq_true, beq_iff_eq] at hs
  obtain ⟨⟨⟨⟨⟨⟨⟨⟨⟨⟨⟨⟨hnd, hopt⟩, h1⟩, h2⟩, h8⟩, h3⟩, h7⟩, h9⟩, h4⟩, h5⟩, h6⟩, _⟩, _⟩ := hs
  apply structInst_of hnd hopt
  · rw [defHash_keys]; exact keys_nodup _ _ _ _ _ _ _ _ _
  · intro e he
    unfold defHash at he
    simp only [List.mem_append] at he
    rcases he with (((((((he | he) | he) | he) | he) | he) | he) | he) | he
    · cases name with
      | none => simp at he
      | some n =>
        simp at he; subst he
        obtain ⟨m, hm, hmn, hmt⟩ := memberTy_mem h1
        exact ⟨m, hm, hmn, by rw [hmt]; exact hn n rfl⟩
    · cases pk with
      | false => simp at he
      | true =>
        simp at he; subst he
        obtain ⟨m, hm, hmn, hmt⟩ := memberTy_mem h2
        exact ⟨m, hm, hmn, by rw [hmt]; rfl⟩
    · by_cases hemp : d.params.isEmpty = true
      · simp [hemp] at he
      · simp [hemp] at he; subst he
        obtain ⟨m, hm, hmn, hmt⟩ := memberTy_mem h8
        refine ⟨m, hm, hmn, ?_⟩
        rw [hmt]
        simp only [sinst, List.all_eq_true, List.mem_map]
        rintro n ⟨q, hq, rfl⟩
        exact hd.params q hq
    · by_cases hemp : d.attrs.isEmpty = true
      · simp [hemp] at he
      · simp [hemp] at he; subst he
        obtain ⟨m, hm, hmn, hmt⟩ := memberTy_mem h3
        refine ⟨m, hm, hmn, ?_⟩
        rw [hmt]
        simp only [sinst, List.all_eq_true, List.mem_map]
        rintro n ⟨a, ha, rfl⟩
        exact hd.attrs a ha
    · by_cases hemp : d.constants.isEmpty = true
      · simp [hemp] at he
      · simp [hemp] at he; subst he
        obtain ⟨m, hm, hmn, hmt⟩ := memberTy_mem h7
        refine ⟨m, hm, hmn, ?_⟩
        rw [hmt]
        simp only [sinst, List.all_eq_true, List.mem_map]
        rintro n ⟨c, hc, rfl⟩
        exact hd.constants c hc
    · by_cases hemp : d.funcs.isEmpty = true
      · simp [hemp] at he
      · simp [hemp] at he; subst he
        obtain ⟨m, hm, hmn, hmt⟩ := memberTy_mem h9
        refine ⟨m, hm, hmn, ?_⟩
        rw [hmt]
        simp only [sinst, List.all_eq_true, List.mem_map, Bool.or_eq_true]
        rintro n ⟨f, hf, rfl⟩
        exact Or.inl (hd.funcs f hf)
    · obtain ⟨m, hm, hmn, hmt⟩ := memberTy_mem h4
      cases hq : d.equality with
      | absent => simp [hq] at he
      | one q =>
        simp [hq] at he; subst he
        exact ⟨m, hm, hmn, by rw [hmt]; exact hd.equality q (by simp [hq, EqDecl.toList?])⟩
      | many l =>
        simp [hq] at he; subst he
        refine ⟨m, hm, hmn, ?_⟩
        rw [hmt]
        simp only [sinst, List.all_eq_true]
        intro n hn'
        exact hd.equality n (by simp [hq, EqDecl.toList?, hn'])
    · cases hi : d.includeType with
      | none => simp [hi] at he
      | some b =>
        simp [hi] at he; subst he
        obtain ⟨m, hm, hmn, hmt⟩ := memberTy_mem h5
        exact ⟨m, hm, hmn, by rw [hmt]; rfl⟩
    · cases hser : d.serialization with
      | none => simp [hser] at he
      | some l =>
        simp [hser] at he; subst he
        obtain ⟨m, hm, hmn, hmt⟩ := memberTy_mem h6
        refine ⟨m, hm, hmn, ?_⟩
        rw [hmt]
        simp only [sinst, List.all_eq_true]
        exact hd.serialization l hser

/-- every definition the declared schema admits is accepted: a well-formed definition passes the schema assertion (for any
    table satisfying the side condition) and the definition proper.  Instantiated on the regenerated table below. -/
theorem C17_schema (s : Schema) (hs : schemaOKb s = true) {env : List OType} {d : Def} (h : WellFormedDef env d)
    (hd : DefNamesValid d) : ∃ t, defineChecked s.members env d = .ok t := by
  unfold defineChecked
  rw [C17_schema_admits s hs d hd none (by intro n hn; cases hn) d.parent.isSome]
  exact C17_schema_partial h

theorem C17_schema_impl {env : List OType} {d : Def} (h : WellFormedDef env d) (hd : DefNamesValid d) :
    ∃ t, defineChecked Pcore.Generated.objectSchema.members env d = .ok t :=
  C17_schema _ C17_schema_table_ok h hd

/-- the table before the fix 54779d2 (`equality` listed twice): the side condition is refuted and the model reproduces the
    defect — the (well-formed) definition `{equality => []}` is rejected with TYPE_MISMATCH -/
def schemaBefore : Schema := { Pcore.Generated.objectSchema with
  members := Pcore.Generated.objectSchema.members ++ [{ name := "equality", optional := true, ty := .equality }] }
example : schemaOKb schemaBefore = false := by decide
example : defineChecked schemaBefore.members []
    { parent := none, attrs := [], equality := .many [], includeType := none, serialization := none } =
    .error .typeMismatch := by decide
example : ∃ t, defineChecked Pcore.Generated.objectSchema.members []
    { parent := none, attrs := [], equality := .many [], includeType := none, serialization := none } = .ok t :=
  ⟨_, rfl⟩

/-! ### each attribute reads back the value given or its default -/

theorem newPos_ok {t : OType} {vs : List Val} {o : Obj} (h : newPos t vs = .ok o) :
    o = { typ := t, values := vs } ∧ requiredCount t ≤ vs.length ∧ allInst (posAttrs t) vs = true := by
  unfold newPos at h
  by_cases hm : posMatches (attrInfo t) vs = true
  · simp only [hm, if_true] at h
    unfold posMatches at hm
    simp only [Bool.and_eq_true, attrInfo_required, attrInfo_attrs] at hm
    exact ⟨by cases h; rfl, of_decide_eq_true hm.1, hm.2⟩
  · simp [hm] at h

theorem C17_get {t : OType} {vs : List Val} {o : Obj} (hw : WF t) (hn : newPos t vs = .ok o)
    {i : Nat} {a : Attr} (ha : (posAttrs t)[i]? = some a) :
    get o a.name = .ok (some ((vs[i]?).getD a.implicitT)) := by
  obtain ⟨ho, hreq, _⟩ := newPos_ok hn
  subst ho
  rw [get_pos hw.nodup hw.tailOpt hreq ha, den_get ha]

/-- (`memberAttr`: the member `Member(n)` finds is the attribute `a` — the nearest attribute of that name, not hidden by a
    function of the same name at a nearer level; without functions of that name this is `findAttr`) -/
theorem C17_get_constant {o : Obj} {n : String} {a : Attr} (hf : memberAttr o.typ n = some a) (hk : a.kind = .constant)
    (hp : ∀ b ∈ posAttrs o.typ, b.name ≠ n) : get o n = .ok a.value := by
  unfold get
  simp [nameToPos_none.mpr hp, hf, hk]

/-- without a function of that name anywhere in the chain, `Member` finds what `findAttr` finds -/
theorem memberAttr_eq_findAttr {t : OType} {n : String} (h : ∀ l ∈ t, l.funcs.any (fun f => f.name == n) = false) :
    memberAttr t n = findAttr t n := by
  induction t with
  | nil => rfl
  | cons l p ih =>
    unfold memberAttr findAttr
    cases l.attrs.find? (fun a => a.name == n) with
    | some a => rfl
    | none =>
      simp only [h l (by simp), Bool.false_eq_true, if_false]
      exact ih (fun x hx => h x (by simp [hx]))

/-! ### positional and named construction yield equal objects -/

theorem namedMatches_toHash {t : OType} {vs : List Val} (hw : WF t) (hreq : requiredCount t ≤ vs.length)
    (hall : allInst (posAttrs t) vs = true) : namedMatches (attrInfo t) (toHash (posAttrs t) vs) = true := by
  unfold namedMatches
  simp only [Bool.and_eq_true, List.all_eq_true, attrInfo_attrs]
  constructor
  · intro e he
    obtain ⟨i, a, h1, h2, h3⟩ := mem_toHash he
    rw [h3, find_of_nodup hw.nodup h1]
    exact inst_tyInit _ _ (allInst_get hall h1 h2)
  · intro a ha
    obtain ⟨i, hi⟩ := List.getElem?_of_mem ha
    by_cases hopt : a.optional = true
    · simp [hopt]
    · have hlt : i < requiredCount t := by
        rcases Nat.lt_or_ge i (requiredCount t) with h | h
        · exact h
        · exact absurd (hw.tailOpt i a hi h) hopt
      have hv : vs[i]? = some vs[i] := List.getElem?_eq_getElem (by omega)
      simp [lookup_toHash hw.nodup hi, hv]

theorem named_result {t : OType} {es : List (String × Val)} {h : Val}
    (hm : namedMatches (attrInfo t) es = true) (hc : coerceOk (attrInfo t) es = true) {full : List Val}
    (hfull : (posAttrs t).map (fun a => (es.lookup a.name).getD a.implicitT) = full) :
    newNamed t es h = .ok { typ := t, values := trim (requiredCount t) (posAttrs t) full } := by
  have hfill : fillAll es (posAttrs t) = .ok full := by
    rw [← hfull]
    apply fillAll_eq
    intro a ha
    unfold namedMatches at hm
    simp only [Bool.and_eq_true, List.all_eq_true, attrInfo_attrs] at hm
    have := hm.2 a ha
    simpa using this
  unfold newNamed positionalFromHash
  simp [hm, hc, hfill]

/-- the values of a well-typed positional construction, given by name, are instances of their attributes' own types -/
theorem coerceOk_toHash {t : OType} {vs : List Val} (hw : WF t) (hall : allInst (posAttrs t) vs = true) :
    coerceOk (attrInfo t) (toHash (posAttrs t) vs) = true := by
  unfold coerceOk
  simp only [List.all_eq_true, attrInfo_attrs]
  intro a ha
  obtain ⟨i, hi⟩ := List.getElem?_of_mem ha
  rw [lookup_toHash hw.nodup hi]
  cases hv : vs[i]? with
  | none => rfl
  | some v => exact allInst_get hall hi hv

theorem C17_pos_named {t : OType} {vs : List Val} {o : Obj} (h : Val) (hw : WF t) (hn : newPos t vs = .ok o) :
    ∃ o', newNamed t (toHash (posAttrs t) vs) h = .ok o' ∧ o'.typ = t ∧
      equals o o' = .ok true ∧ equals o' o = .ok true ∧
      den (posAttrs t) o'.values = den (posAttrs t) o.values := by
  obtain ⟨ho, hreq, hall⟩ := newPos_ok hn
  subst ho
  have hlen := allInst_length hall
  have hm := namedMatches_toHash hw hreq hall
  have hres := named_result (h := h) hm (coerceOk_toHash hw hall) (map_toHash_eq_den hw.nodup hlen)
  have hdl : (den (posAttrs t) vs).length = (posAttrs t).length := den_length hlen
  have hden : den (posAttrs t) (trim (requiredCount t) (posAttrs t) (den (posAttrs t) vs)) = den (posAttrs t) vs := by
    rw [den_trim hw.god, den_full (by omega)]
  have hk' : requiredCount t ≤ (trim (requiredCount t) (posAttrs t) (den (posAttrs t) vs)).length :=
    trim_length_ge _ _ _ (by omega)
  refine ⟨_, hres, rfl, ?_, ?_, hden⟩
  · rw [equals_den hw.tailOpt hreq hk', hden]; simp
  · rw [equals_den hw.tailOpt hk' hreq, hden]; simp

/-- the named constructor: every positional attribute reads back the value of its key, or its default.  `hm`: the hash is
    an instance of the init Struct; `hc`: every given value is an instance of its attribute's OWN type (the init Struct
    writes `NotUndef[T]` as `Optional[T]` — `typeAndInit` —, so it admits an undef that the attribute type rejects; the named
    creator then fails to coerce it: `C17_named_notundef_undef`).  For attribute types without `NotUndef` the second
    hypothesis follows from the first (`coerceOk_of_plain`, `C17_get_named_plain`: the statement as it stood for the
    narrower alphabet). -/
theorem C17_get_named {t : OType} {es : List (String × Val)} {h : Val} (hw : WF t)
    (hm : namedMatches (attrInfo t) es = true) (hc : coerceOk (attrInfo t) es = true)
    {i : Nat} {a : Attr} (ha : (posAttrs t)[i]? = some a) :
    ∃ o, newNamed t es h = .ok o ∧ get o a.name = .ok (some ((es.lookup a.name).getD a.implicitT)) := by
  refine ⟨_, named_result hm hc rfl, ?_⟩
  have hlen : ((posAttrs t).map (fun a => (es.lookup a.name).getD a.implicitT)).length = (posAttrs t).length := by simp
  have hk : requiredCount t ≤ (trim (requiredCount t) (posAttrs t)
      ((posAttrs t).map (fun a => (es.lookup a.name).getD a.implicitT))).length := by
    apply trim_length_ge
    rw [hlen]
    unfold requiredCount
    exact List.length_filter_le _ _
  rw [get_pos hw.nodup hw.tailOpt hk ha, den_trim hw.god, den_full (by omega), List.getElem?_map, ha]
  rfl

/-- attribute types in which `NotUndef` does not occur: `typeAndInit` leaves them as they are -/
def Ty.plain : Ty → Bool
  | .opt t => t.plain
  | .notUndef _ => false
  | .variant a b => a.plain && b.plain
  | .array t => t.plain
  | _ => true

theorem tyInit_plain {t : Ty} (h : t.plain = true) : tyInit t = t := by
  induction t with
  | opt t ih => simp only [Ty.plain] at h; simp [tyInit, ih h]
  | notUndef t _ => simp [Ty.plain] at h
  | variant a b iha ihb =>
    simp only [Ty.plain, Bool.and_eq_true] at h
    simp [tyInit, iha h.1, ihb h.2]
  | array t ih => simp only [Ty.plain] at h; simp [tyInit, ih h]
  | _ => rfl

theorem mem_of_lookup {es : List (String × Val)} {n : String} {v : Val} (h : es.lookup n = some v) : (n, v) ∈ es := by
  induction es with
  | nil => simp at h
  | cons e es ih =>
    obtain ⟨k, w⟩ := e
    simp only [List.lookup] at h
    split at h
    · rename_i heq
      simp only [beq_iff_eq] at heq
      cases h
      simp [heq]
    · exact List.mem_cons_of_mem _ (ih h)

/-- for attribute types without `NotUndef` the init Struct admits exactly what the attribute types admit -/
theorem coerceOk_of_plain {t : OType} {es : List (String × Val)} (hw : WF t)
    (hp : ∀ a ∈ posAttrs t, a.ty.plain = true) (hm : namedMatches (attrInfo t) es = true) :
    coerceOk (attrInfo t) es = true := by
  unfold namedMatches at hm
  unfold coerceOk
  simp only [Bool.and_eq_true, List.all_eq_true, attrInfo_attrs] at hm ⊢
  intro a ha
  cases hl : es.lookup a.name with
  | none => rfl
  | some v =>
    obtain ⟨i, hi⟩ := List.getElem?_of_mem ha
    have := hm.1 _ (mem_of_lookup hl)
    simp only [find_of_nodup hw.nodup hi, tyInit_plain (hp a ha)] at this
    exact this

/-- the statement of `C17_get_named` as it stood for the alphabet without `NotUndef` -/
theorem C17_get_named_plain {t : OType} {es : List (String × Val)} {h : Val} (hw : WF t)
    (hp : ∀ a ∈ posAttrs t, a.ty.plain = true) (hm : namedMatches (attrInfo t) es = true)
    {i : Nat} {a : Attr} (ha : (posAttrs t)[i]? = some a) :
    ∃ o, newNamed t es h = .ok o ∧ get o a.name = .ok (some ((es.lookup a.name).getD a.implicitT)) :=
  C17_get_named hw hm (coerceOk_of_plain hw hp hm) ha

def lvNU : Level :=
  { id := 0, attrs := [{ name := "a", ty := .notUndef .int, kind := .normal, value := none }], equality := none,
    includeType := true, serialization := none }

/-- the quirk the second hypothesis of `C17_get_named` is about, replayed in the model: for an attribute of type
    `NotUndef[Integer]` the init Struct of the named constructor says `Optional[Integer]` (objecttype.go typeAndInit), so
    `new(T, {a => undef})` passes the dispatcher and fails in the creator (INSTANCE_DOES_NOT_RESPOND), while the positional
    `new(T, undef)` is refused by the dispatcher (ILLEGAL_ARGUMENTS).  Both are refused: no ill-typed object exists. -/
theorem C17_named_notundef_undef :
    namedMatches (attrInfo [lvNU]) [("a", .undef)] = true ∧
    newNamed [lvNU] [("a", .undef)] (.hash "") = .error .instanceDoesNotRespond ∧
    newPos [lvNU] [.undef] = .error .illegalArguments := by
  refine ⟨by decide, by decide, by decide⟩

/-! ### rebuilding an object from its init-hash yields an equal object -/

/-- an instance as the constructors produce it -/
structure Valid (o : Obj) : Prop where
  req : requiredCount o.typ ≤ o.values.length
  inst : allInst (posAttrs o.typ) o.values = true

theorem valid_newPos {t : OType} {vs : List Val} {o : Obj} (hn : newPos t vs = .ok o) : Valid o := by
  obtain ⟨ho, hreq, hall⟩ := newPos_ok hn
  subst ho
  exact ⟨hreq, hall⟩

theorem namedMatches_initHash {o : Obj} (hw : WF o.typ) (hv : Valid o) :
    namedMatches (attrInfo o.typ) (initHash o) = true := by
  unfold namedMatches initHash
  simp only [Bool.and_eq_true, List.all_eq_true, attrInfo_attrs]
  constructor
  · intro e he
    obtain ⟨i, a, h1, h2, h3⟩ := mem_mvh he
    rw [h3, find_of_nodup hw.nodup h1]
    exact inst_tyInit _ _ (allInst_get hv.inst h1 h2)
  · intro a ha
    obtain ⟨i, hi⟩ := List.getElem?_of_mem ha
    by_cases hopt : a.optional = true
    · simp [hopt]
    · have hlt : i < requiredCount o.typ := by
        rcases Nat.lt_or_ge i (requiredCount o.typ) with h | h
        · exact h
        · exact absurd (hw.tailOpt i a hi h) hopt
      have hil : i < o.values.length := by have := hv.req; omega
      have hval : o.values[i]? = some o.values[i] := List.getElem?_eq_getElem hil
      have hns : skips a o.values[i] = false := by
        unfold Attr.optional at hopt
        simp only [Bool.or_eq_true, not_or] at hopt
        unfold skips
        have h1 : a.hasValue = false := by simpa using hopt.2
        have h2 : (a.kind == Kind.givenOrDerived) = false := by simpa using hopt.1
        simp [h1, h2]
      simp [lookup_mvh hw.nodup hi, hval, hns]

theorem coerceOk_initHash {o : Obj} (hw : WF o.typ) (hv : Valid o) : coerceOk (attrInfo o.typ) (initHash o) = true := by
  unfold coerceOk initHash
  simp only [List.all_eq_true, attrInfo_attrs]
  intro a ha
  obtain ⟨i, hi⟩ := List.getElem?_of_mem ha
  rw [lookup_mvh hw.nodup hi]
  cases hval : o.values[i]? with
  | none => rfl
  | some v =>
    simp only [Option.bind_some]
    by_cases hs : skips a v = true
    · simp [hs]
    · simp only [hs, Bool.false_eq_true, if_false]
      exact allInst_get hv.inst hi hval

theorem C17_inithash {o : Obj} (h : Val) (hw : WF o.typ) (hv : Valid o) :
    ∃ o', newNamed o.typ (initHash o) h = .ok o' ∧ o'.typ = o.typ ∧
      equals o' o = .ok true ∧ equals o o' = .ok true ∧
      den (posAttrs o.typ) o'.values = den (posAttrs o.typ) o.values := by
  obtain ⟨t, vs⟩ := o
  simp only at hw hv ⊢
  have hlen : vs.length ≤ (posAttrs t).length := allInst_length hv.inst
  have hm := namedMatches_initHash hw hv
  have hres := named_result (h := h) hm (coerceOk_initHash (o := ⟨t, vs⟩) hw hv) (map_mvh_eq_den hw.nodup hw.god hlen)
  have hdl : (den (posAttrs t) vs).length = (posAttrs t).length := den_length hlen
  have hden : den (posAttrs t) (trim (requiredCount t) (posAttrs t) (den (posAttrs t) vs)) = den (posAttrs t) vs := by
    rw [den_trim hw.god, den_full (by omega)]
  have hreq : requiredCount t ≤ vs.length := hv.req
  have hk' : requiredCount t ≤ (trim (requiredCount t) (posAttrs t) (den (posAttrs t) vs)).length :=
    trim_length_ge _ _ _ (by omega)
  refine ⟨_, hres, rfl, ?_, ?_, hden⟩
  · rw [equals_den hw.tailOpt hk' hreq, hden]; simp
  · rw [equals_den hw.tailOpt hreq hk', hden]; simp

/-! ### objects compare equal exactly when their declared equality attributes are equal -/

theorem C17_equals_total {o o' : Obj} (hw : WF o.typ) (hw' : WF o'.typ) (hv : Valid o) (hv' : Valid o')
    (hname : tyEq o.typ o'.typ = true → o'.typ = o.typ) : ∃ b, equals o o' = .ok b := by
  obtain ⟨t, vs⟩ := o
  obtain ⟨t', vs'⟩ := o'
  simp only at hw hw' hv hv' hname ⊢
  by_cases ht : tyEq t t' = true
  · have := hname ht
    subst this
    exact ⟨_, equals_den hw.tailOpt hv.req hv'.req⟩
  · exact ⟨_, equals_cross (by simpa using ht) hw.tailOpt hw'.tailOpt hv.req hv'.req⟩

/-- objects of ONE type (`sameType = true`): equal exactly when `Get` agrees on every equality attribute -/
theorem equalityWith_same {t : OType} {vs vs' : List Val} (hw : WF t) (hv : Valid { typ := t, values := vs })
    (hv' : Valid { typ := t, values := vs' }) :
    equalsWith true { typ := t, values := vs } { typ := t, values := vs' } = .ok true ↔
      ∀ n ∈ eqAttrNames t, get { typ := t, values := vs } n = get { typ := t, values := vs' } n := by
  rw [equalsWith_den hw.tailOpt hv.req hv'.req]
  simp only [Except.ok.injEq, List.all_eq_true, beq_iff_eq]
  constructor
  · intro hall n hn
    obtain ⟨i, hi⟩ := eqAttrNames_pos hw.nodup hn
    obtain ⟨a, ha, han⟩ := nameToPos_get hi
    subst han
    have hmem : i ∈ eqPositions t := (mem_eqPositions hw.nodup).mpr ⟨_, hn, hi⟩
    rw [get_pos hw.nodup hw.tailOpt hv.req ha, get_pos hw.nodup hw.tailOpt hv'.req ha, hall i hmem]
  · intro hget i hi
    obtain ⟨n, hn, hpos⟩ := (mem_eqPositions hw.nodup).mp hi
    obtain ⟨a, ha, han⟩ := nameToPos_get hpos
    subst han
    have := hget _ hn
    rw [get_pos hw.nodup hw.tailOpt hv.req ha, get_pos hw.nodup hw.tailOpt hv'.req ha] at this
    exact Except.ok.inj this

/-- objects of ONE type: equal exactly when `Get` agrees on every equality attribute -/
theorem equality_same {t : OType} {vs vs' : List Val} (hw : WF t) (hv : Valid { typ := t, values := vs })
    (hv' : Valid { typ := t, values := vs' }) :
    equals { typ := t, values := vs } { typ := t, values := vs' } = .ok true ↔
      ∀ n ∈ eqAttrNames t, get { typ := t, values := vs } n = get { typ := t, values := vs' } n := by
  have h := equalityWith_same hw hv hv'
  unfold equals
  simp only [tyEq_refl]
  exact h

/-- objects of DIFFERENT types (`sameType = false`): equal exactly when both types leave the type out of equality, compare
    equally many attributes, and every equality attribute of the receiver is an equality attribute of the other type with
    the same value (looked up by name) -/
theorem equalityWith_cross {t t' : OType} {vs vs' : List Val} (hw : WF t) (hw' : WF t')
    (hv : Valid { typ := t, values := vs }) (hv' : Valid { typ := t', values := vs' }) :
    equalsWith false { typ := t, values := vs } { typ := t', values := vs' } = .ok true ↔
      (includesType t = false ∧ includesType t' = false ∧ (eqAttrNames t).length = (eqAttrNames t').length ∧
        ∀ n ∈ eqAttrNames t, n ∈ eqAttrNames t' ∧
          get { typ := t, values := vs } n = get { typ := t', values := vs' } n) := by
  rw [equalsWith_cross hw.tailOpt hw'.tailOpt hv.req hv'.req]
  simp only [Except.ok.injEq, Bool.and_eq_true, Bool.not_eq_true', Bool.or_eq_false_iff, beq_iff_eq,
    List.all_eq_true, eqPositions_length]
  constructor
  · rintro ⟨⟨⟨h1, h2⟩, hl⟩, hall⟩
    refine ⟨h1, h2, hl, ?_⟩
    intro n hn
    obtain ⟨i, hi⟩ := eqAttrNames_pos hw.nodup hn
    obtain ⟨a, ha, han⟩ := nameToPos_get hi
    subst han
    have hstep := hall i ((mem_eqPositions hw.nodup).mpr ⟨_, hn, hi⟩)
    unfold crossStep at hstep
    simp only [ha] at hstep
    cases hj : nameToPos (posAttrs t') a.name with
    | none => simp [hj] at hstep
    | some j =>
      simp only [hj, Bool.and_eq_true, List.contains_eq_mem, decide_eq_true_eq, beq_iff_eq] at hstep
      obtain ⟨hmem, hden⟩ := hstep
      obtain ⟨m, hm, hmj⟩ := (mem_eqPositions hw'.nodup).mp hmem
      obtain ⟨b, hb, hbm⟩ := nameToPos_get hmj
      obtain ⟨b', hb', hbn⟩ := nameToPos_get hj
      have : m = a.name := by rw [← hbm, ← hbn]; rw [hb] at hb'; cases hb'; rfl
      subst this
      refine ⟨hm, ?_⟩
      rw [get_pos hw.nodup hw.tailOpt hv.req ha, hden]
      have := get_pos hw'.nodup hw'.tailOpt hv'.req (vs := vs') hb'
      rw [hbn] at this
      exact this.symm
  · rintro ⟨h1, h2, hl, hall⟩
    refine ⟨⟨⟨h1, h2⟩, hl⟩, ?_⟩
    intro i hi
    obtain ⟨n, hn, hpos⟩ := (mem_eqPositions hw.nodup).mp hi
    obtain ⟨a, ha, han⟩ := nameToPos_get hpos
    subst han
    obtain ⟨hn', hget⟩ := hall _ hn
    obtain ⟨j, hj⟩ := eqAttrNames_pos hw'.nodup hn'
    obtain ⟨b', hb', hbn⟩ := nameToPos_get hj
    have hmem : j ∈ eqPositions t' := (mem_eqPositions hw'.nodup).mpr ⟨_, hn', hj⟩
    unfold crossStep
    simp only [ha, hj, Bool.and_eq_true, List.contains_eq_mem, decide_eq_true_eq, beq_iff_eq]
    refine ⟨hmem, ?_⟩
    have h2' := get_pos hw'.nodup hw'.tailOpt hv'.req (vs := vs') hb'
    rw [hbn] at h2'
    rw [get_pos hw.nodup hw.tailOpt hv.req ha, h2'] at hget
    exact Except.ok.inj hget

theorem equality_cross {t t' : OType} {vs vs' : List Val} (hne : tyEq t t' = false) (hw : WF t) (hw' : WF t')
    (hv : Valid { typ := t, values := vs }) (hv' : Valid { typ := t', values := vs' }) :
    equals { typ := t, values := vs } { typ := t', values := vs' } = .ok true ↔
      (includesType t = false ∧ includesType t' = false ∧ (eqAttrNames t).length = (eqAttrNames t').length ∧
        ∀ n ∈ eqAttrNames t, n ∈ eqAttrNames t' ∧
          get { typ := t, values := vs } n = get { typ := t', values := vs' } n) := by
  have h := equalityWith_cross hw hw' hv hv'
  unfold equals
  simp only [hne]
  exact h

/-- FULL statement (after the fix "equality_include_type => false was ignored by Equals").  Objects compare equal exactly
    when their equality attributes are equal: for one type by `equality_same`; across types only when BOTH types say
    `equality_include_type => false` and compare the same attributes.  `hname`: a name identifies a type within a loader. -/
theorem C17_equality {o o' : Obj} (hw : WF o.typ) (hw' : WF o'.typ) (hv : Valid o) (hv' : Valid o')
    (hname : tyEq o.typ o'.typ = true → o'.typ = o.typ) :
    equals o o' = .ok true ↔
      ((tyEq o.typ o'.typ = true ∧ ∀ n ∈ eqAttrNames o.typ, get o n = get o' n) ∨
       (tyEq o.typ o'.typ = false ∧ includesType o.typ = false ∧ includesType o'.typ = false ∧
          (eqAttrNames o.typ).length = (eqAttrNames o'.typ).length ∧
          ∀ n ∈ eqAttrNames o.typ, n ∈ eqAttrNames o'.typ ∧ get o n = get o' n)) := by
  obtain ⟨t, vs⟩ := o
  obtain ⟨t', vs'⟩ := o'
  simp only at hw hw' hv hv' hname ⊢
  by_cases ht : tyEq t t' = true
  · have := hname ht
    subst this
    rw [equality_same hw hv hv']
    simp [ht]
  · have hf : tyEq t t' = false := by simpa using ht
    rw [equality_cross hf hw hw' hv hv']
    simp [hf]

/-- the compared name lists are duplicate-free, so "equally many and every one of the receiver's is one of the other's"
    says that both types compare the same SET of attributes: the relation is symmetric -/
theorem C17_equality_symmetric {o o' : Obj} (hw : WF o.typ) (hw' : WF o'.typ) (hv : Valid o) (hv' : Valid o')
    (hname : tyEq o.typ o'.typ = true → o'.typ = o.typ) (hname' : tyEq o'.typ o.typ = true → o.typ = o'.typ)
    (hsym : tyEq o.typ o'.typ = tyEq o'.typ o.typ) (h : equals o o' = .ok true) : equals o' o = .ok true := by
  rw [C17_equality hw hw' hv hv' hname] at h
  rw [C17_equality hw' hw hv' hv hname']
  rcases h with ⟨ht, hall⟩ | ⟨ht, h1, h2, hl, hall⟩
  · left
    have hT := hname ht
    refine ⟨hsym ▸ ht, ?_⟩
    intro n hn
    rw [hT] at hn
    exact (hall n hn).symm
  · right
    refine ⟨hsym ▸ ht, h2, h1, hl.symm, ?_⟩
    -- an injective map between duplicate-free lists of equal length is onto
    have hsub : ∀ n ∈ eqAttrNames o.typ, n ∈ eqAttrNames o'.typ := fun n hn => (hall n hn).1
    have honto : ∀ n ∈ eqAttrNames o'.typ, n ∈ eqAttrNames o.typ := by
      have hnd := eqAttrNames_nodup hw.nodup
      have hnd' := eqAttrNames_nodup hw'.nodup
      have hsubl : (eqAttrNames o.typ).Subperm (eqAttrNames o'.typ) := hnd.subperm (fun n hn => hsub n hn)
      have hperm := hsubl.perm_of_length_le (by omega)
      intro n hn
      exact hperm.mem_iff.mpr hn
    intro n hn
    have hn' := honto n hn
    exact ⟨hn', ((hall n hn').2).symm⟩

def lvA (id : Nat) : Level :=
  { id := id, attrs := [{ name := "a", ty := .int, kind := .normal, value := none }], equality := none,
    includeType := false, serialization := none }

/-- the former known finding C17-equality-include-type, now repaired: two identically shaped types (different names) with
    `equality_include_type => false` and equal attribute values are Equal; with a different value they are not -/
theorem C17_include_type_honoured :
    equals { typ := [lvA 0], values := [.int 1] } { typ := [lvA 1], values := [.int 1] } = .ok true ∧
    equals { typ := [lvA 0], values := [.int 1] } { typ := [lvA 1], values := [.int 2] } = .ok false := by
  constructor <;> rfl

/-- "all non-constant attributes when no list is declared anywhere in the chain": with no `equality` declared by the type or
    any ancestor, `Equals` compares EVERY positional attribute — and without a `serialization` list those are exactly the
    attributes of the chain (an overriding one in place of the overridden) that are neither constant nor derived -/
theorem C17_equality_default {t : OType} (hd : equalityDeclared t = false) :
    eqAttrNames t = (posAttrs t).map (·.name) := by
  simp [eqAttrNames, hd]

theorem C17_equality_default_all {l : Level} {p : OType} (hs : l.serialization = none) (n : String) :
    n ∈ (posAttrs (l :: p)).map (·.name) ↔ ∃ a ∈ eachAttribute (l :: p), a.settable = true ∧ a.name = n := by
  simp only [posAttrs, hs, List.mem_map, List.mem_append, List.mem_filter]
  constructor
  · rintro ⟨a, (⟨⟨ha, hset⟩, _⟩ | ⟨⟨ha, hset⟩, _⟩), hn⟩ <;> exact ⟨a, ha, hset, hn⟩
  · rintro ⟨a, ha, hset, hn⟩
    refine ⟨a, ?_, hn⟩
    by_cases ho : a.optional = true
    · exact Or.inr ⟨⟨ha, hset⟩, ho⟩
    · exact Or.inl ⟨⟨ha, hset⟩, by simpa using ho⟩

example : equalityDeclared [lvA 0] = false ∧ eqAttrNames [lvA 0] = ["a"] := ⟨by decide, by decide⟩

/-! ### an instance of a subtype is an instance of every ancestor and never the reverse -/

theorem isAssignable_suffix {p t : OType} (hp : p ≠ []) (h : p <:+ t) : isAssignable p t = true := by
  induction t with
  | nil => simp at h; exact absurd h hp
  | cons l q ih =>
    unfold isAssignable
    rcases List.suffix_cons_iff.mp h with h | h
    · subst h; simp [tyEq_refl]
    · simp [ih h]

theorem tyEqDeep_length {t o : OType} (h : tyEqDeep t o = true) : t.length = o.length := by
  induction t generalizing o with
  | nil => cases o <;> simp [tyEqDeep] at h ⊢
  | cons l p ih =>
    cases o with
    | nil => simp [tyEqDeep] at h
    | cons l' p' =>
      simp only [tyEqDeep, Bool.and_eq_true] at h
      simp [ih h.1.1.1.1.1.2]

theorem tyEq_length {t o : OType} (h : tyEq t o = true) : t.length = o.length := by
  unfold tyEq at h
  simp only [Bool.or_eq_true, beq_iff_eq] at h
  rcases h with h | h
  · rw [h]
  · exact tyEqDeep_length h

theorem isAssignable_length {t o : OType} (h : isAssignable t o = true) : t.length ≤ o.length := by
  induction o with
  | nil => simp [isAssignable] at h
  | cons l p ih =>
    unfold isAssignable at h
    simp only [Bool.or_eq_true] at h
    rcases h with h | h
    · rw [tyEq_length h]; exact Nat.le_refl _
    · have := ih h; simp; omega

/-- `p` is `t` or an ancestor of `t` (a non-empty suffix of its level list): every instance of `t` is an instance of `p` -/
theorem C17_subtype {p t : OType} (hp : p ≠ []) (h : p <:+ t) (o : Obj) (ho : o.typ = t) : isInstance p o = true := by
  unfold isInstance; rw [ho]; exact isAssignable_suffix hp h

/-- never the reverse: an instance of a proper ancestor is not an instance of the subtype -/
theorem C17_subtype_strict {p t : OType} (h : p <:+ t) (hne : p ≠ t) (o : Obj) (ho : o.typ = p) :
    isInstance t o = false := by
  unfold isInstance; rw [ho]
  cases hc : isAssignable t p with
  | false => rfl
  | true =>
    exfalso
    have hl := isAssignable_length hc
    have hle := h.length_le
    exact hne (h.eq_of_length (by omega))

/-- instance-of is the REFLEXIVE-TRANSITIVE CLOSURE of `parent`: among the types of one loader (ANY accepted list of
    definitions, any depth, forks and unrelated roots included) an object of type `j` is an instance of type `i` exactly
    when `i` is reached from `j` by following the declared parent zero or more times — every ancestor accepts, and
    nothing else does (no descendant, no sibling, no stranger).  `parentRel ds p j`: definition `j` names the earlier
    definition `p` as its parent. -/
theorem C17_instance_closure {ds : List Def} {env : List OType} (h : defineAll [] ds = .ok env) {i j : Nat}
    {ti tj : OType} (hi : env[i]? = some ti) (hj : env[j]? = some tj) (o : Obj) (ho : o.typ = tj) :
    isInstance ti o = true ↔ Relation.ReflTransGen (parentRel ds) i j := by
  have hg : GoodEnv ds env := by simpa using defineAll_good goodEnv_nil h
  unfold isInstance
  rw [ho]
  exact isAssignable_closure hg hi j tj hj

/-- the same for types: `IsAssignable` -/
theorem C17_assignable_closure {ds : List Def} {env : List OType} (h : defineAll [] ds = .ok env) {i j : Nat}
    {ti tj : OType} (hi : env[i]? = some ti) (hj : env[j]? = some tj) :
    isAssignable ti tj = true ↔ Relation.ReflTransGen (parentRel ds) i j := by
  have hg : GoodEnv ds env := by simpa using defineAll_good goodEnv_nil h
  exact isAssignable_closure hg hi j tj hj

/-- every type of an accepted list of definitions satisfies the chain invariant (distinct names at every level, every
    override admits only what it overrides admits) -/
theorem C17_chain_env {env0 env : List OType} {ds : List Def} (h0 : ∀ t ∈ env0, ChainOK t)
    (hds : ∀ d ∈ ds, DefShape d) (h : defineAll env0 ds = .ok env) : ∀ t ∈ env, ChainOK t := by
  induction ds generalizing env0 with
  | nil => simp [defineAll] at h; subst h; exact h0
  | cons d ds ih =>
    unfold defineAll at h
    cases hd : define env0 d with
    | error c => simp [hd] at h
    | ok t =>
      simp only [hd] at h
      apply ih (env0 := env0 ++ [t]) _ (fun d' hd' => hds d' (by simp [hd'])) h
      intro t' ht'
      simp only [List.mem_append, List.mem_singleton] at ht'
      rcases ht' with ht' | ht'
      · exact h0 t' ht'
      · subst ht'
        exact define_chainOK h0 (hds d (by simp)).names (hds d (by simp)).constNames hd

/-- INHERITANCE COHERES ATTRIBUTE BY ATTRIBUTE, along the whole chain: for every type `t` of an accepted list of definitions
    and every ancestor `p` of `t` (any depth), every attribute of `p` is — by name — an attribute of `t` (the inherited one,
    or the one that overrides it, possibly several levels down), and every value `t`'s declaration of it admits, `p`'s
    declaration admits.  An instance of a subtype, read through ANY ancestor's declarations, is well-typed. -/
theorem C17_liskov_attributes {ds : List Def} {env : List OType} (h : defineAll [] ds = .ok env)
    (hds : ∀ d ∈ ds, DefShape d) {t p : OType} (ht : t ∈ env) (hp : p <:+ t) :
    ∀ a ∈ eachAttribute p, ∃ a' ∈ eachAttribute t, a'.name = a.name ∧ ∀ v, inst a'.ty v = true → inst a.ty v = true := by
  obtain ⟨pre, rfl⟩ := hp
  exact chain_sound pre (C17_chain_env (env0 := []) (by simp) hds h _ ht)

/-! ### member functions and INTERFACES (Model/ObjectFuncs) -/

/-- a type that is no interface — in particular every type of a chain that declares no function
    (`isInterface_of_noFuncs`) — accepts exactly what the nominal `IsAssignable` accepts: every theorem about `isAssignable` /
    `isInstance` above is a theorem about the instance-of the driver computes (`isInstanceF`) -/
theorem C17f_not_interface {t : OType} (h : isInterface t = false) (o : Obj) (ho : o.typ ≠ []) :
    isInstanceF t o = isInstance t o := by
  unfold isInstanceF isInstance
  exact isAssignableF_of_not_interface h ho

/-- the closure theorem with functions in the universe: for a receiver that is no interface, instance-of is the
    reflexive-transitive closure of `parent` -/
theorem C17f_instance_closure {ds : List Def} {env : List OType} (h : defineAll [] ds = .ok env) {i j : Nat}
    {ti tj : OType} (hi : env[i]? = some ti) (hj : env[j]? = some tj) (hni : isInterface ti = false)
    (o : Obj) (ho : o.typ = tj) :
    isInstanceF ti o = true ↔ Relation.ReflTransGen (parentRel ds) i j := by
  have hg : GoodEnv ds env := by simpa using defineAll_good goodEnv_nil h
  obtain ⟨l, r, htj, -⟩ := good_head hg hj
  rw [C17f_not_interface hni o (by rw [ho, htj]; simp)]
  exact C17_instance_closure h hi hj o ho

/-- FULL statement with interfaces: every ancestor — interface or not — accepts the subtype.  FALSE of model and code: the
    known finding C17-iface-override-covariant (`C17f_iface_override_covariant`). -/
def C17f_subtype : Prop :=
  ∀ (p : OType) (pre : List Level), p ≠ [] → (∀ l ∈ pre ++ p, (l.funcs.map (·.name)).Nodup) →
    isAssignableF p (pre ++ p) = true

/-- proved part: an ancestor that is no interface accepts every subtype; an INTERFACE ancestor accepts a subtype none of
    whose additional levels declares an attribute named like one of the interface's functions (impossible in the universe)
    or re-declares one of them at ANOTHER type.  Missing: exactly the finding (an override at a narrower type). -/
theorem C17f_subtype_partial {p : OType} {pre : List Level} (hp : p ≠ [])
    (hnd : ∀ l ∈ p, (l.funcs.map (·.name)).Nodup)
    (hpre : isInterface p = true → ∀ l ∈ pre, ∀ f ∈ allFuncs p, l.attrs.any (fun a => a.name == f.name) = false ∧
      ∀ g ∈ l.funcs, g.name = f.name → g.ret = f.ret) :
    isAssignableF p (pre ++ p) = true := by
  have hne : pre ++ p ≠ [] := by simp [hp]
  by_cases hi : isInterface p = true
  · unfold isAssignableF
    cases hpp : pre ++ p with
    | nil => exact absurd hpp hne
    | cons l q =>
      simp only [hi, if_true]
      rw [← hpp]
      exact implements_suffix (isInterface_attrs hi) hnd pre (hpre hi)
  · have hf : isInterface p = false := by simpa using hi
    rw [isAssignableF_of_not_interface hf hne]
    exact isAssignable_suffix hp ⟨pre, rfl⟩

/-- every type accepts itself, interface or not -/
theorem C17f_reflexive {t : OType} (ht : t ≠ []) (hnd : ∀ l ∈ t, (l.funcs.map (·.name)).Nodup) :
    isAssignableF t t = true := by
  have := C17f_subtype_partial (p := t) (pre := []) ht hnd (fun _ l hl => by simp at hl)
  simpa using this

def lvI : Level :=
  { id := 0, attrs := [], equality := none, includeType := true, serialization := none,
    funcs := [{ name := "fx", ret := .any }] }
def lvC : Level :=
  { id := 1, attrs := [], equality := none, includeType := true, serialization := none,
    funcs := [{ name := "fx", ret := .int, override := true }] }

/-- the known finding C17-iface-override-covariant, replayed in the model: `I = {functions => {fx => Callable[[0,0],Any]}}` is an
    interface, its subtype `C` overrides `fx` at `Callable[[0,0],Integer]` (the override check admits it: `asg any int`), and
    `I` does not accept `C` -/
theorem C17f_iface_override_covariant : ¬ C17f_subtype := by
  intro h
  have := h [lvI] [lvC] (by simp) (by decide)
  revert this
  decide

/-- hypotheses of `C17f_subtype_partial` / `C17f_instance_closure`: the definition of `C` is ACCEPTED on top of `I` (the
    override is proper), `I` is an interface, a subtype that re-declares `fx` at the same type is accepted by it, and a
    type with an attribute is no interface -/
def defC : Def :=
  { parent := some 0, attrs := [], equality := .absent, includeType := none, serialization := none,
    funcs := [{ name := "fx", ret := .int, override := true }] }
def lvCsame : Level := { lvC with funcs := [{ name := "fx", ret := .any, override := true }] }
example : define [[lvI]] defC = .ok [lvC, lvI] := by decide
example : isInterface [lvI] = true ∧ isInterface [lvC, lvI] = true ∧ isInterface [lvA 0] = false ∧
    isAssignableF [lvI] [lvCsame, lvI] = true := by decide

/-! ### inheritance coheres at the attribute level: an override may only narrow -/

/-- the assignability the override check uses (`asg`: types.go GuardedIsAssignable with the `IsAssignable` methods of the
    alphabet's types) is SOUND for the instance relation: every instance of `b` is an instance of `a` -/
theorem C17_asg_sound {a b : Ty} (h : asg a b = true) {v : Val} (hv : inst b v = true) : inst a v = true :=
  asg_sound h hv

theorem assertOverride_asg {parent : OType} {a pa : Attr} (ho : assertOverride parent a = .ok ())
    (hf : findAttr parent a.name = some pa) : asg pa.ty a.ty = true := by
  have hsh := assertOverride_noShadow ho
  unfold assertOverride at ho
  simp only [hsh, Bool.false_eq_true, if_false, hf] at ho
  split at ho
  · cases ho
  · split at ho
    · cases ho
    · split at ho
      · cases ho
      · rename_i hn
        simpa using hn

/-- every attribute of an accepted definition that overrides an inherited one admits only values the inherited
    declaration admits: an instance of the subtype, read through an ancestor's declaration of the attribute, is well-typed
    (the value of an overriding attribute — given, default or constant — is an instance of the overridden attribute's type) -/
theorem C17_override_sound {env : List OType} {d : Def} {l : Level} {p : OType} (h : define env d = .ok (l :: p))
    {a pa : Attr} (ha : a ∈ l.attrs) (hf : findAttr p a.name = some pa) {v : Val} (hv : inst a.ty v = true) :
    inst pa.ty v = true := by
  obtain ⟨-, -, attrs, hattrs, -, -, -, -, ht⟩ := define_parts h
  have hl : l.attrs = attrs := by rw [(List.cons.inj ht).1]
  have hp : p = parentOf env d := (List.cons.inj ht).2
  rw [hl] at ha
  obtain ⟨dd, -, -, ho⟩ := forall₂_right_mem (defineAttrs_iff.mp hattrs) a ha
  rw [← hp] at ho
  exact C17_asg_sound (assertOverride_asg ho hf) hv

/-- hypotheses of `C17_asg_sound` / `C17_override_sound`: narrowing overrides the check admits (and one it refuses) -/
example : asg (.opt .int) .int = true ∧ asg (.variant .int .undefT) (.opt .int) = true ∧
    asg (.opt (.array (.opt .int))) (.array (.notUndef .int)) = true ∧ asg (.notUndef .any) (.opt .int) = false ∧
    asg .int (.variant .int .str) = false := by decide
def lvOptA : Level :=
  { id := 0, attrs := [{ name := "a", ty := .opt .int, kind := .normal, value := some .undef }],
    equality := none, includeType := true, serialization := none }
def defNarrowA : Def :=
  { parent := some 0, attrs := [{ name := "a", ty := .int, kind := .normal, dflt := some (.int 3), override := true }],
    equality := .absent, includeType := none, serialization := none }
example : ∃ l p, define [[lvOptA]] defNarrowA = .ok (l :: p) ∧
    ∃ a ∈ l.attrs, ∃ pa, findAttr p a.name = some pa ∧ pa.ty = .opt .int ∧ a.ty = .int :=
  ⟨_, _, rfl, _, List.mem_cons_self, _, rfl, rfl, rfl⟩

/-! ### instances of types that declare TYPE PARAMETERS (Model/ObjectParams) -/

theorem pfh_result {t : OType} {es : List (String × Val)} (hm : namedMatches (attrInfo t) es = true) :
    positionalFromHash (attrInfo t) es = .ok (trim (requiredCount t) (posAttrs t)
      ((posAttrs t).map (fun a => (es.lookup a.name).getD a.implicitT))) := by
  have hfill : fillAll es (posAttrs t) = .ok ((posAttrs t).map (fun a => (es.lookup a.name).getD a.implicitT)) := by
    apply fillAll_eq
    intro a ha
    unfold namedMatches at hm
    simp only [Bool.and_eq_true, List.all_eq_true, attrInfo_attrs] at hm
    have := hm.2 a ha
    simpa using this
  unfold positionalFromHash
  simp [hfill]

theorem bindParams_plain {t : OType} (hp : isParameterized t = false) (es : List (String × Val)) (va : List Val) :
    bindParams t es va = [] := by
  have htp : typeParams t = [] := by simpa [isParameterized] using hp
  unfold bindParams
  rw [htp]
  simp

/-- on a type WITHOUT type parameters (none declared along the chain) the constructors and `Equals` of Model/ObjectParams
    are those of Model/Object: every theorem above applies to the instances the driver builds -/
theorem C17x_plain {t : OType} (hp : isParameterized t = false) :
    (∀ vs, newPosX t vs = (match newPos t vs with | .ok o => .ok { obj := o, ext := [] } | .error c => .error c)) ∧
    (∀ es h, newNamedX t es h =
      (match newNamed t es h with | .ok o => .ok { obj := o, ext := [] } | .error c => .error c)) ∧
    (∀ o o' : Obj, equalsX { obj := o, ext := [] } { obj := o', ext := [] } = equals o o') := by
  have h1 : ∀ vs, newPosX t vs =
      (match newPos t vs with | .ok o => .ok { obj := o, ext := [] } | .error c => .error c) := by
    intro vs
    unfold newPosX newPos
    by_cases hm : posMatches (attrInfo t) vs = true <;> simp [hm, hp]
  refine ⟨h1, ?_, ?_⟩
  · intro es h
    unfold newNamedX newNamed
    by_cases hm : namedMatches (attrInfo t) es = true
    · by_cases hc : coerceOk (attrInfo t) es = true
      · simp only [hm, hc, if_true]
        cases positionalFromHash (attrInfo t) es with
        | error c => rfl
        | ok va => simp [bindParams_plain hp]
      · simp [hm, hc]
    · simp only [hm, Bool.false_eq_true, if_false]
      exact h1 _
  · intro o o'
    simp [equalsX, equals, sameTypeX]

/-- what the positional constructor of ANY type (parameterized or not) builds: the values given, or — on a parameterized
    type — the trimmed values of the hash `makeValueHash` makes of them; the same attribute values either way -/
theorem newPosX_ok {t : OType} {vs : List Val} {o : PObj} (hw : WF t) (hn : newPosX t vs = .ok o) :
    o.obj.typ = t ∧ Valid { typ := t, values := vs } ∧ requiredCount t ≤ o.obj.values.length ∧
      den (posAttrs t) o.obj.values = den (posAttrs t) vs ∧
      ((o.obj.values = vs ∧ o.ext = [] ∧ (vs = [] ∨ isParameterized t = false)) ∨
       (o.obj.values = trim (requiredCount t) (posAttrs t) (den (posAttrs t) vs) ∧
        o.ext = bindParams t (makeValueHash (posAttrs t) vs) o.obj.values)) := by
  unfold newPosX at hn
  by_cases hm : posMatches (attrInfo t) vs = true
  · have hm' := hm
    unfold posMatches at hm'
    simp only [Bool.and_eq_true, attrInfo_required, attrInfo_attrs] at hm'
    have hv : Valid { typ := t, values := vs } := ⟨of_decide_eq_true hm'.1, hm'.2⟩
    simp only [hm, if_true] at hn
    by_cases hp : (!vs.isEmpty && isParameterized t) = true
    · simp only [hp, if_true] at hn
      have hlen : vs.length ≤ (posAttrs t).length := allInst_length hv.inst
      have hnm : namedMatches (attrInfo t) (makeValueHash (posAttrs t) vs) = true :=
        namedMatches_initHash (o := { typ := t, values := vs }) hw hv
      have hpf := pfh_result hnm
      rw [map_mvh_eq_den hw.nodup hw.god hlen] at hpf
      have hpf' : positionalFromHash (attrInfo t) (makeValueHash (attrInfo t).attrs vs) =
          .ok (trim (requiredCount t) (posAttrs t) (den (posAttrs t) vs)) := hpf
      rw [hpf'] at hn
      simp only [Except.ok.injEq] at hn
      subst hn
      have hdl : (den (posAttrs t) vs).length = (posAttrs t).length := den_length hlen
      refine ⟨rfl, hv, trim_length_ge _ _ _ (by have := hv.req; simp only at this; omega), ?_, Or.inr ⟨rfl, rfl⟩⟩
      simp only
      rw [den_trim hw.god, den_full (by omega)]
    · simp only [hp, Bool.false_eq_true, if_false, Except.ok.injEq] at hn
      subst hn
      refine ⟨rfl, hv, hv.req, rfl, Or.inl ⟨rfl, rfl, ?_⟩⟩
      simp only [Bool.and_eq_true, Bool.not_eq_true', not_and, Bool.not_eq_true] at hp
      cases vs with
      | nil => exact Or.inl rfl
      | cons v vs' => exact Or.inr (hp (by simp))
  · simp [hm] at hn

theorem lookup_toHash_none {attrs : List Attr} {vs : List Val} {n : String} (h : ∀ a ∈ attrs, a.name ≠ n) :
    (toHash attrs vs).lookup n = none := by
  induction attrs generalizing vs with
  | nil => simp [toHash]
  | cons b bs ih =>
    cases vs with
    | nil => simp [toHash]
    | cons v vs' =>
      have hb : (n == b.name) = false := by
        have := h b (by simp)
        simpa using fun he => this he.symm
      simp only [toHash, List.lookup, hb]
      exact ih (fun a ha => h a (by simp [ha]))

theorem bindParams_congr {t : OType} {es es' : List (String × Val)} {va va' : List Val}
    (hl : ∀ q ∈ typeParams t, es.lookup q.1 = es'.lookup q.1) (hv : va.isEmpty = va'.isEmpty) :
    bindParams t es va = bindParams t es' va' := by
  unfold bindParams
  rw [hv]
  split
  · rfl
  · apply List.filterMap_congr
    intro q hq
    rw [hl q hq]

/-- what a hash binds a type parameter to: an undef binds nothing (fix de95e71) -/
def bound (es : List (String × Val)) (n : String) : Option Val := (es.lookup n).filter (· != .undef)

theorem bindParams_congr' {t : OType} {es es' : List (String × Val)} {va va' : List Val}
    (hl : ∀ q ∈ typeParams t, bound es q.1 = bound es' q.1) (hv : va.isEmpty = va'.isEmpty) :
    bindParams t es va = bindParams t es' va' := by
  unfold bindParams
  rw [hv]
  split
  · rfl
  · apply List.filterMap_congr
    intro q hq
    have h := hl q hq
    unfold bound at h
    cases h1 : es.lookup q.1 with
    | none =>
      cases h2 : es'.lookup q.1 with
      | none => rfl
      | some v' =>
        rw [h1, h2] at h
        by_cases hu' : v' = .undef <;> simp_all [Option.filter]
    | some v =>
      cases h2 : es'.lookup q.1 with
      | none =>
        rw [h1, h2] at h
        by_cases hu : v = .undef <;> simp_all [Option.filter]
      | some v' =>
        rw [h1, h2] at h
        by_cases hu : v = .undef <;> by_cases hu' : v' = .undef <;> simp_all [Option.filter]

theorem bindParams_nil (t : OType) (va : List Val) : bindParams t [] va = [] := by
  unfold bindParams
  split
  · rfl
  · rw [List.filterMap_eq_nil_iff]
    intro q _
    simp

/-- no type parameter's attribute is given (positionally) the value that is its default — unless that value is undef
    (since the fix de95e71 an undef binds nothing, given or left out) -/
def NoParamDefault (t : OType) (vs : List Val) : Prop :=
  ∀ q ∈ typeParams t, ∀ (i : Nat) (a : Attr) (v : Val),
    (posAttrs t)[i]? = some a → a.name = q.1 → vs[i]? = some v → skips a v = false ∨ v = .undef

/-- FULL statement for parameterized types: positional and named construction yield Equal objects (of the same
    parameterized type).  FALSE of model and code — known finding C17-tparam-explicit-default
    (`C17x_pos_named_explicit_default`; its undef face, C17-tparam-explicit-undef, is fixed by de95e71:
    `C17x_pos_named_before_fix`). -/
def C17x_pos_named : Prop :=
  ∀ (t : OType) (vs : List Val) (o : PObj) (h : Val), WF t → newPosX t vs = .ok o →
    ∃ o', newNamedX t (toHash (posAttrs t) vs) h = .ok o' ∧ equalsX o o' = .ok true ∧ equalsX o' o = .ok true

/-- proved part: … when no type parameter's attribute is given its default explicitly — an undef excepted, since the fix
    de95e71 (`NoParamDefault`; trivially true of a type without type parameters).  Then the named twin exists, has the same bindings (the same parameterized type),
    denotes the same value at every position and is Equal in both directions.  Missing: exactly the finding. -/
theorem C17x_pos_named_partial {t : OType} {vs : List Val} {o : PObj} (h : Val) (hw : WF t)
    (hn : newPosX t vs = .ok o) (hnd : NoParamDefault t vs) :
    ∃ o', newNamedX t (toHash (posAttrs t) vs) h = .ok o' ∧ equalsX o o' = .ok true ∧ equalsX o' o = .ok true ∧
      den (posAttrs t) o'.obj.values = den (posAttrs t) o.obj.values ∧ o'.ext = o.ext := by
  obtain ⟨ht, hv, hreq, hden, hcase⟩ := newPosX_ok hw hn
  obtain ⟨⟨t', va⟩, ext⟩ := o
  simp only at ht hreq hden hcase
  subst ht
  have hall := hv.inst
  have hvreq := hv.req
  simp only at hall hvreq
  have hlen := allInst_length hall
  have hm := namedMatches_toHash hw hvreq hall
  have hc := coerceOk_toHash hw hall
  have hpf := pfh_result hm
  rw [map_toHash_eq_den hw.nodup hlen] at hpf
  have hdl : (den (posAttrs t') vs).length = (posAttrs t').length := den_length hlen
  have hden' : den (posAttrs t') (trim (requiredCount t') (posAttrs t') (den (posAttrs t') vs)) = den (posAttrs t') vs := by
    rw [den_trim hw.god, den_full (by omega)]
  have hk' : requiredCount t' ≤ (trim (requiredCount t') (posAttrs t') (den (posAttrs t') vs)).length :=
    trim_length_ge _ _ _ (by omega)
  -- the bindings of the named twin
  have hext : bindParams t' (toHash (posAttrs t') vs) (trim (requiredCount t') (posAttrs t') (den (posAttrs t') vs)) = ext := by
    rcases hcase with ⟨-, hx, hnp⟩ | ⟨hva, hx⟩
    · rw [hx]
      rcases hnp with hnil | hnp
      · subst hnil
        have : toHash (posAttrs t') [] = [] := by cases posAttrs t' <;> rfl
        rw [this]
        exact bindParams_nil _ _
      · exact bindParams_plain hnp _ _
    · rw [hx, hva]
      apply bindParams_congr' _ rfl
      intro q hq
      unfold bound
      by_cases hex : ∃ (i : Nat) (a : Attr), (posAttrs t')[i]? = some a ∧ a.name = q.1
      · obtain ⟨i, a, hi, han⟩ := hex
        rw [← han, lookup_toHash hw.nodup hi, lookup_mvh hw.nodup hi]
        cases hvi : vs[i]? with
        | none => rfl
        | some v =>
          rcases hnd q hq i a v hi han hvi with hs | hu
          · simp [hs]
          · subst hu
            by_cases hs : skips a .undef <;> simp [hs, Option.filter]
      · have hno : ∀ a ∈ posAttrs t', a.name ≠ q.1 := by
          intro a ha han
          obtain ⟨i, hi⟩ := List.getElem?_of_mem ha
          exact hex ⟨i, a, hi, han⟩
        rw [lookup_toHash_none hno, lookup_mvh_none hno]
  refine ⟨{ obj := { typ := t', values := trim (requiredCount t') (posAttrs t') (den (posAttrs t') vs) }, ext := ext }, ?_, ?_, ?_, ?_, rfl⟩
  · unfold newNamedX
    simp only [hm, hc, hpf, if_true, hext]
  · unfold equalsX sameTypeX
    simp only [tyEq_refl, beq_self_eq_true, Bool.and_self]
    rw [equalsWith_den hw.tailOpt hreq hk', hden', hden]
    simp
  · unfold equalsX sameTypeX
    simp only [tyEq_refl, beq_self_eq_true, Bool.and_self]
    rw [equalsWith_den hw.tailOpt hk' hreq, hden', hden]
    simp
  · simp only
    rw [hden', hden]

/-- objects compare equal exactly when their equality attributes are equal — instances of parameterized types included:
    "the same type" is the same definition AND the same bindings of the type parameters (`sameTypeX`) -/
theorem C17x_equality {o o' : PObj} (hw : WF o.obj.typ) (hw' : WF o'.obj.typ) (hv : Valid o.obj) (hv' : Valid o'.obj)
    (hname : tyEq o.obj.typ o'.obj.typ = true → o'.obj.typ = o.obj.typ) :
    equalsX o o' = .ok true ↔
      ((sameTypeX o o' = true ∧ ∀ n ∈ eqAttrNames o.obj.typ, get o.obj n = get o'.obj n) ∨
       (sameTypeX o o' = false ∧ includesType o.obj.typ = false ∧ includesType o'.obj.typ = false ∧
          (eqAttrNames o.obj.typ).length = (eqAttrNames o'.obj.typ).length ∧
          ∀ n ∈ eqAttrNames o.obj.typ, n ∈ eqAttrNames o'.obj.typ ∧ get o.obj n = get o'.obj n)) := by
  obtain ⟨⟨t, vs⟩, ext⟩ := o
  obtain ⟨⟨t', vs'⟩, ext'⟩ := o'
  simp only at hw hw' hv hv' hname ⊢
  unfold equalsX
  by_cases hs : sameTypeX { obj := { typ := t, values := vs }, ext := ext } { obj := { typ := t', values := vs' }, ext := ext' } = true
  · have hty : tyEq t t' = true := by
      unfold sameTypeX at hs
      simp only [Bool.and_eq_true] at hs
      exact hs.1
    have := hname hty
    subst this
    rw [hs, equalityWith_same hw hv hv']
    simp
  · have hf : sameTypeX { obj := { typ := t, values := vs }, ext := ext } { obj := { typ := t', values := vs' }, ext := ext' } = false := by
      simpa using hs
    rw [hf, equalityWith_cross hw hw' hv hv']
    simp

def lvP : Level :=
  { id := 0, attrs := [{ name := "a", ty := .int, kind := .normal, value := none },
                       { name := "p", ty := .opt .int, kind := .normal, value := some .undef }],
    equality := none, includeType := true, serialization := none, params := [("p", .int)] }

theorem wf_lvP : WF [lvP] :=
  wf_noSerialization ⟨by decide, by
    intro a ha
    simp only [eachAttribute, lvP, List.map_nil, List.nil_append, List.any_nil, Bool.not_false, List.filter_cons,
      if_true, List.filter_nil, List.mem_cons, List.not_mem_nil, or_false] at ha
    rcases ha with rfl | rfl <;> intro hk <;> cases hk⟩ rfl

/-- `T3 = {type_parameters => {p => Integer}, a => Integer, p => {type => Integer, value => 3}}` -/
def lvP3 : Level :=
  { id := 0, attrs := [{ name := "a", ty := .int, kind := .normal, value := none },
                       { name := "p", ty := .int, kind := .normal, value := some (.int 3) }],
    equality := none, includeType := true, serialization := none, params := [("p", .int)] }

theorem wf_lvP3 : WF [lvP3] :=
  wf_noSerialization ⟨by decide, by
    intro a ha
    simp only [eachAttribute, lvP3, List.map_nil, List.nil_append, List.any_nil, Bool.not_false, List.filter_cons,
      if_true, List.filter_nil, List.mem_cons, List.not_mem_nil, or_false] at ha
    rcases ha with rfl | rfl <;> intro hk <;> cases hk⟩ rfl

/-- the known finding C17-tparam-explicit-default (what the fix de95e71 left), replayed in the model: `new(T3, 1, 3)` is a
    `T3` (makeValueHash leaves the value equal to the default out), its named twin `new(T3, {a => 1, p => 3})` a
    `T3[p => 3]`, and the two are not Equal -/
theorem C17x_pos_named_explicit_default : ¬ C17x_pos_named := by
  intro h
  have h1 : newPosX [lvP3] [.int 1, .int 3] = .ok { obj := { typ := [lvP3], values := [.int 1] }, ext := [] } := by decide
  obtain ⟨o', hn, he, -⟩ := h [lvP3] [.int 1, .int 3] _ (.hash "") wf_lvP3 h1
  have h2 : newNamedX [lvP3] (toHash (posAttrs [lvP3]) [.int 1, .int 3]) (.hash "") =
      .ok { obj := { typ := [lvP3], values := [.int 1] }, ext := [("p", .int 3)] } := by decide
  rw [h2] at hn
  cases hn
  have h3 : equalsX { obj := { typ := [lvP3], values := [.int 1] }, ext := [] }
      { obj := { typ := [lvP3], values := [.int 1] }, ext := [("p", .int 3)] } = .ok false := by decide
  rw [h3] at he
  cases he

/-- the finding C17-tparam-explicit-undef (fixed by de95e71), replayed: `T = {type_parameters => {p => Integer}, a => Integer,
    p => Optional[Integer]}`; `new(T, 1, undef)` is a `T`; BEFORE the fix the bindings of its named twin
    `new(T, {a => 1, p => undef})` were `p => undef` (`bindParamsBefore`: a `T[p => undef]`, not Equal); now the twin is a
    `T` too and Equal -/
theorem C17x_pos_named_before_fix :
    newPosX [lvP] [.int 1, .undef] = .ok { obj := { typ := [lvP], values := [.int 1] }, ext := [] } ∧
    bindParamsBefore [lvP] (toHash (posAttrs [lvP]) [.int 1, .undef]) [.int 1] = [("p", .undef)] ∧
    newNamedX [lvP] (toHash (posAttrs [lvP]) [.int 1, .undef]) (.hash "") =
      .ok { obj := { typ := [lvP], values := [.int 1] }, ext := [] } ∧
    NoParamDefault [lvP] [.int 1, .undef] := by
  refine ⟨by decide, by decide, by decide, ?_⟩
  intro q hq i a v hi han hv
  have hp : posAttrs [lvP] = lvP.attrs := rfl
  simp only [typeParams, lvP, List.nil_append, List.mem_cons, List.not_mem_nil, or_false] at hq
  subst hq
  rw [hp] at hi
  rcases i with _ | _ | i
  · simp [lvP] at hi; subst hi; simp at han
  · simp [lvP] at hi hv; subst hv; exact Or.inr rfl
  · simp [lvP] at hi

/-- hypotheses of `C17x_pos_named_partial` / `C17x_get` / `C17x_equality` on a parameterized type: a construction that BINDS
    the parameter (`new(T, 1, 5)` is a `T[p => 5]`), its named twin, and an instance of another parameterized type of the
    same definition (`T[p => 6]`): not Equal, although no equality attribute... is declared (all attributes compare) -/
example : newPosX [lvP] [.int 1, .int 5] =
    .ok { obj := { typ := [lvP], values := [.int 1, .int 5] }, ext := [("p", .int 5)] } := by decide
example : NoParamDefault [lvP] [.int 1, .int 5] := by
  intro q hq i a v hi han hv
  have hp : posAttrs [lvP] = lvP.attrs := rfl
  simp only [typeParams, lvP, List.nil_append, List.mem_cons, List.not_mem_nil, or_false] at hq
  subst hq
  rw [hp] at hi
  rcases i with _ | _ | i
  · simp [lvP] at hi; subst hi; simp at han
  · simp [lvP] at hi hv; subst hi; subst hv; exact Or.inl rfl
  · simp [lvP] at hi
example : sameTypeX { obj := { typ := [lvP], values := [.int 1, .int 5] }, ext := [("p", .int 5)] }
    { obj := { typ := [lvP], values := [.int 1, .int 6] }, ext := [("p", .int 6)] } = false := by decide
example : isParameterized [lvP] = true := by decide

/-- the bindings of the instance's type are those its own init-hash yields -/
def ExtOK (o : PObj) : Prop := o.ext = bindParams o.obj.typ (initHash o.obj) o.obj.values

/-- every POSITIONAL construction is `ExtOK` (its values went through `makeValueHash`) -/
theorem C17x_extOK_pos {t : OType} {vs : List Val} {o : PObj} (hw : WF t) (hn : newPosX t vs = .ok o) : ExtOK o := by
  obtain ⟨ht, hv, -, -, hcase⟩ := newPosX_ok hw hn
  obtain ⟨⟨t', va⟩, ext⟩ := o
  simp only at ht hcase
  subst ht
  unfold ExtOK initHash
  simp only [attrInfo_attrs]
  rcases hcase with ⟨hva, hx, hnp⟩ | ⟨hva, hx⟩
  · rw [hx]
    rcases hnp with hnil | hnp
    · subst hnil; subst hva
      rw [mvh_nil]
      exact (bindParams_nil _ _).symm
    · exact (bindParams_plain hnp _ _).symm
  · rw [hx, hva, mvh_trim, mvh_den]
    intro i a hi hle
    have := hv.req
    simp only at this
    exact hw.tailOpt i a hi (by omega)

/-- FULL statement for parameterized types: the object rebuilt from its init-hash is Equal to the original, whichever
    constructor made it.  FALSE of model and code — the known finding C17-tparam-explicit-default again
    (`C17x_inithash_explicit_default`: the init-hash leaves the default out, the rebuilt object has the plain type; the
    undef face is fixed by de95e71, `C17x_inithash_before_fix`). -/
def C17x_inithash : Prop :=
  ∀ (t : OType) (es : List (String × Val)) (h : Val) (o : PObj), WF t → newNamedX t es h = .ok o → Valid o.obj →
    ∃ o', newNamedX t (initHash o.obj) h = .ok o' ∧ equalsX o' o = .ok true

/-- proved part: … for every instance whose bindings are those of its own init-hash (`ExtOK`: every positional construction —
    `C17x_extOK_pos` —, and every named one that does not give a parameter's attribute its default).  The rebuilt object
    exists, has the same bindings (the same parameterized type), denotes the same value at every position and is Equal in
    both directions. -/
theorem C17x_inithash_partial {o : PObj} (h : Val) (hw : WF o.obj.typ) (hv : Valid o.obj) (hx : ExtOK o) :
    ∃ o', newNamedX o.obj.typ (initHash o.obj) h = .ok o' ∧ equalsX o' o = .ok true ∧ equalsX o o' = .ok true ∧
      den (posAttrs o.obj.typ) o'.obj.values = den (posAttrs o.obj.typ) o.obj.values ∧ o'.ext = o.ext := by
  obtain ⟨⟨t, vs⟩, ext⟩ := o
  unfold ExtOK at hx
  simp only at hw hv hx ⊢
  have hlen : vs.length ≤ (posAttrs t).length := allInst_length hv.inst
  have hm := namedMatches_initHash (o := { typ := t, values := vs }) hw hv
  have hc := coerceOk_initHash (o := { typ := t, values := vs }) hw hv
  have hpf := pfh_result hm
  have hmap : (posAttrs t).map (fun a => ((initHash { typ := t, values := vs }).lookup a.name).getD a.implicitT) =
      den (posAttrs t) vs := map_mvh_eq_den hw.nodup hw.god hlen
  simp only at hpf
  rw [hmap] at hpf
  have hdl : (den (posAttrs t) vs).length = (posAttrs t).length := den_length hlen
  have hden : den (posAttrs t) (trim (requiredCount t) (posAttrs t) (den (posAttrs t) vs)) = den (posAttrs t) vs := by
    rw [den_trim hw.god, den_full (by omega)]
  have hreq : requiredCount t ≤ vs.length := hv.req
  have hk' : requiredCount t ≤ (trim (requiredCount t) (posAttrs t) (den (posAttrs t) vs)).length :=
    trim_length_ge _ _ _ (by omega)
  -- the bindings of the rebuilt object
  have hext : bindParams t (initHash { typ := t, values := vs })
      (trim (requiredCount t) (posAttrs t) (den (posAttrs t) vs)) = ext := by
    rw [hx]
    have hih : initHash { typ := t, values := vs } = makeValueHash (posAttrs t) vs := rfl
    by_cases hvs : vs = []
    · subst hvs
      rw [hih, mvh_nil, bindParams_nil, bindParams_nil]
    · by_cases htr : trim (requiredCount t) (posAttrs t) (den (posAttrs t) vs) = []
      · have hes : makeValueHash (posAttrs t) vs = [] := by
          have h1 := mvh_trim (requiredCount t) (posAttrs t) (den (posAttrs t) vs)
          rw [htr, mvh_nil] at h1
          rw [← mvh_den (attrs := posAttrs t) (vs := vs) (fun i a hi hle => hw.tailOpt i a hi (by omega))]
          exact h1.symm
        rw [hih, hes, bindParams_nil, bindParams_nil]
      · apply bindParams_congr (fun _ _ => rfl)
        cases hvs' : vs with
        | nil => exact absurd hvs' hvs
        | cons v vs' =>
          cases htr' : trim (requiredCount t) (posAttrs t) (den (posAttrs t) (v :: vs')) with
          | nil => rw [hvs'] at htr; exact absurd htr' htr
          | cons x xs => rfl
  refine ⟨{ obj := { typ := t, values := trim (requiredCount t) (posAttrs t) (den (posAttrs t) vs) }, ext := ext }, ?_, ?_, ?_, ?_, rfl⟩
  · unfold newNamedX
    simp only [hm, hc, hpf, if_true, hext]
  · unfold equalsX sameTypeX
    simp only [tyEq_refl, beq_self_eq_true, Bool.and_self]
    rw [equalsWith_den hw.tailOpt hk' hreq, hden]
    simp
  · unfold equalsX sameTypeX
    simp only [tyEq_refl, beq_self_eq_true, Bool.and_self]
    rw [equalsWith_den hw.tailOpt hreq hk', hden]
    simp
  · simp only
    rw [hden]

/-- the known finding, second face: `new(T3, {a => 1, p => 3})` is a `T3[p => 3]`; its init-hash is `{a => 1}`; the
    object rebuilt from it is a plain `T3` and not Equal to the original -/
theorem C17x_inithash_explicit_default : ¬ C17x_inithash := by
  intro h
  have h1 : newNamedX [lvP3] [("a", .int 1), ("p", .int 3)] (.hash "") =
      .ok { obj := { typ := [lvP3], values := [.int 1] }, ext := [("p", .int 3)] } := by decide
  obtain ⟨o', hn, he⟩ := h [lvP3] _ (.hash "") _ wf_lvP3 h1 ⟨by decide, by decide⟩
  have h2 : newNamedX [lvP3] (initHash { typ := [lvP3], values := [.int 1] }) (.hash "") =
      .ok { obj := { typ := [lvP3], values := [.int 1] }, ext := [] } := by decide
  rw [h2] at hn
  cases hn
  have h3 : equalsX { obj := { typ := [lvP3], values := [.int 1] }, ext := [] }
      { obj := { typ := [lvP3], values := [.int 1] }, ext := [("p", .int 3)] } = .ok false := by decide
  rw [h3] at he
  cases he

/-- the fixed undef face: `new(T, {a => 1, p => undef})` was a `T[p => undef]` (`bindParamsBefore`) whose init-hash `{a => 1}`
    rebuilt a plain `T`; now it is a plain `T`, `ExtOK`, and `C17x_inithash_partial` applies -/
theorem C17x_inithash_before_fix :
    bindParamsBefore [lvP] [("a", .int 1), ("p", .undef)] [.int 1] = [("p", .undef)] ∧
    newNamedX [lvP] [("a", .int 1), ("p", .undef)] (.hash "") =
      .ok { obj := { typ := [lvP], values := [.int 1] }, ext := [] } ∧
    ExtOK { obj := { typ := [lvP], values := [.int 1] }, ext := [] } := by
  refine ⟨by decide, by decide, ?_⟩
  unfold ExtOK
  decide

/-- hypotheses of `C17x_inithash_partial`: a positional construction that binds the parameter is `ExtOK` -/
example : ExtOK { obj := { typ := [lvP], values := [.int 1, .int 5] }, ext := [("p", .int 5)] } :=
  C17x_extOK_pos wf_lvP (by decide : newPosX [lvP] [.int 1, .int 5] =
    .ok { obj := { typ := [lvP], values := [.int 1, .int 5] }, ext := [("p", .int 5)] })

/-- each attribute reads back the value given or its default — also on a parameterized type -/
theorem C17x_get {t : OType} {vs : List Val} {o : PObj} (hw : WF t) (hn : newPosX t vs = .ok o)
    {i : Nat} {a : Attr} (ha : (posAttrs t)[i]? = some a) :
    get o.obj a.name = .ok (some ((vs[i]?).getD a.implicitT)) := by
  obtain ⟨ht, -, hreq, hden, -⟩ := newPosX_ok hw hn
  obtain ⟨⟨t', vs'⟩, ext⟩ := o
  simp only at ht hreq hden ⊢
  subst ht
  rw [get_pos hw.nodup hw.tailOpt hreq ha, hden, den_get ha]

example : get { typ := [lvP], values := [.int 1, .int 5] } "p" = .ok (some (.int 5)) :=
  C17x_get (i := 1) wf_lvP (by decide : newPosX [lvP] [.int 1, .int 5] =
    .ok { obj := { typ := [lvP], values := [.int 1, .int 5] }, ext := [("p", .int 5)] }) rfl

/-! ### every constructed instance is `Valid`: the hypotheses of the equality theorems hold for the NAMED constructor too -/

/-- `InitFromHash` leaves well-typed defaults: every attribute of an accepted definition holds a declared value that is an
    instance of its type, and a given_or_derived attribute's type accepts undef (`TypeTyped`) -/
theorem C17_typed_define {env : List OType} {d : Def} {t : OType} (henv : ∀ t' ∈ env, TypeTyped t')
    (h : define env d = .ok t) : TypeTyped t := define_typed henv h

theorem C17_typed_env {env0 env : List OType} {ds : List Def} (h0 : ∀ t ∈ env0, TypeTyped t)
    (h : defineAll env0 ds = .ok env) : ∀ t ∈ env, TypeTyped t := by
  induction ds generalizing env0 with
  | nil => simp [defineAll] at h; subst h; exact h0
  | cons d ds ih =>
    unfold defineAll at h
    cases hd : define env0 d with
    | error c => simp [hd] at h
    | ok t =>
      simp only [hd] at h
      apply ih (env0 := env0 ++ [t]) _ h
      intro t' ht'
      simp only [List.mem_append, List.mem_singleton] at ht'
      rcases ht' with ht' | ht'
      · exact h0 t' ht'
      · subst ht'; exact C17_typed_define h0 hd

/-- whatever the named constructor builds — from a hash that matches the init Struct, or through the fall-through to the
    positional signature — stores, at every position, an instance of the attribute's type, and at least the required
    positions: it is `Valid`, like every positional construction (`valid_newPos`).  So `C17_equality`, `C17_equals_total`,
    `C17_inithash` … apply to every instance either constructor can make. -/
theorem C17_valid_named {t : OType} {es : List (String × Val)} {h : Val} {o : Obj} (hw : WF t) (ht : TypeTyped t)
    (hn : newNamed t es h = .ok o) : Valid o := by
  unfold newNamed at hn
  by_cases hm : namedMatches (attrInfo t) es = true
  · by_cases hc : coerceOk (attrInfo t) es = true
    · simp only [hm, hc, if_true, pfh_result hm] at hn
      cases hn
      have hm' := hm
      unfold namedMatches at hm'
      simp only [Bool.and_eq_true, List.all_eq_true, attrInfo_attrs] at hm'
      have hc' := hc
      unfold coerceOk at hc'
      simp only [List.all_eq_true, attrInfo_attrs] at hc'
      have hfull : allInst (posAttrs t) ((posAttrs t).map (fun a => (es.lookup a.name).getD a.implicitT)) = true := by
        apply allInst_filled
        · intro a ha; exact ht a (posAttrs_mem_each ha)
        · intro a ha v hv
          have := hc' a ha
          simpa [hv] using this
        · intro a ha
          have := hm'.2 a ha
          simpa using this
      obtain ⟨r, hr⟩ := trim_prefix (requiredCount t) (posAttrs t)
        ((posAttrs t).map (fun a => (es.lookup a.name).getD a.implicitT))
      constructor
      · simp only
        apply trim_length_ge
        simp only [List.length_map]
        unfold requiredCount
        exact List.length_filter_le _ _
      · simp only
        rw [hr] at hfull
        exact allInst_prefix hfull
    · simp [hm, hc] at hn
  · simp only [hm, Bool.false_eq_true, if_false] at hn
    exact valid_newPos hn

/-- the same for instances of parameterized types (either constructor of Model/ObjectParams) -/
theorem C17x_valid {t : OType} (hw : WF t) (ht : TypeTyped t) :
    (∀ vs o, newPosX t vs = .ok o → Valid o.obj) ∧ (∀ es h o, newNamedX t es h = .ok o → Valid o.obj) := by
  have hpos : ∀ vs o, newPosX t vs = .ok o → Valid o.obj := by
    intro vs o hn
    obtain ⟨hty, hv, hreq, hden, hcase⟩ := newPosX_ok hw hn
    obtain ⟨⟨t', va⟩, ext⟩ := o
    simp only at hty hreq hcase ⊢
    subst hty
    rcases hcase with ⟨hva, -, -⟩ | ⟨hva, -⟩
    · subst hva; exact hv
    · refine ⟨hreq, ?_⟩
      simp only
      rw [hva]
      have hlen : vs.length ≤ (posAttrs t').length := allInst_length hv.inst
      have hfull : allInst (posAttrs t') (den (posAttrs t') vs) = true := by
        have hnm := namedMatches_initHash (o := { typ := t', values := vs }) hw hv
        have hco := coerceOk_initHash (o := { typ := t', values := vs }) hw hv
        have hm' := hnm
        unfold namedMatches at hm'
        simp only [Bool.and_eq_true, List.all_eq_true, attrInfo_attrs] at hm'
        unfold coerceOk at hco
        simp only [List.all_eq_true, attrInfo_attrs] at hco
        rw [← map_mvh_eq_den hw.nodup hw.god hlen]
        apply allInst_filled
        · intro a ha; exact ht a (posAttrs_mem_each ha)
        · intro a ha v hv'
          have := hco a ha
          have hl : (initHash { typ := t', values := vs }).lookup a.name = some v := hv'
          simpa [hl] using this
        · intro a ha
          have := hm'.2 a ha
          simp only [Bool.or_eq_true] at this
          exact this
      obtain ⟨r, hr⟩ := trim_prefix (requiredCount t') (posAttrs t') (den (posAttrs t') vs)
      rw [hr] at hfull
      exact allInst_prefix hfull
  refine ⟨hpos, ?_⟩
  intro es h o hn
  unfold newNamedX at hn
  by_cases hm : namedMatches (attrInfo t) es = true
  · by_cases hc : coerceOk (attrInfo t) es = true
    · -- the stored values are those of the plain named constructor
      have hplain : ∃ o0, newNamed t es h = .ok o0 ∧ o0 = o.obj := by
        unfold newNamed
        simp only [hm, hc, if_true, pfh_result hm] at hn ⊢
        cases hn
        exact ⟨_, rfl, rfl⟩
      obtain ⟨o0, h0, he⟩ := hplain
      rw [← he]
      exact C17_valid_named hw ht h0
    · simp [hm, hc] at hn
  · simp only [hm, Bool.false_eq_true, if_false] at hn
    exact hpos _ _ hn

/-! ### one loader, end to end: the side conditions of the theorems above are met by everything `defineAll` accepts -/

/-- within one loader a name identifies a type: two types of an accepted list of definitions that `objectType.Equals`
    equates are the same type — the hypothesis `hname` of `C17_equality` / `C17_equals_total` / `C17_equality_symmetric` -/
theorem C17_names_identify {ds : List Def} {env : List OType} (h : defineAll [] ds = .ok env) {i j : Nat}
    {t t' : OType} (hi : env[i]? = some t) (hj : env[j]? = some t') (he : tyEq t t' = true) : t' = t := by
  have hg : GoodEnv ds env := by simpa using defineAll_good goodEnv_nil h
  obtain ⟨l, r, ht, hl⟩ := good_head hg hi
  obtain ⟨l', r', ht', hl'⟩ := good_head hg hj
  rw [ht, ht'] at he
  have hid := tyEq_head_id he
  have : i = j := by omega
  subst this
  rw [hi] at hj
  exact (Option.some.inj hj).symm

/-- END TO END: for ANY list of definitions the model of `InitFromHash` accepts (hash literals: `DefShape`), any two of its
    types, and any two instances made by either constructor: `Equals` answers (never faults), and answers true exactly when
    `Get` agrees on every equality attribute and either the two types are the same type or both leave the type out of
    equality and compare the same attributes.  No side condition is left but the shape of the input. -/
theorem C17_equality_env {ds : List Def} {env : List OType} (h : defineAll [] ds = .ok env)
    (hds : ∀ d ∈ ds, DefShape d) {i j : Nat} {t t' : OType} (hi : env[i]? = some t) (hj : env[j]? = some t')
    {o o' : Obj} (ho : (∃ vs, newPos t vs = .ok o) ∨ (∃ es hv, newNamed t es hv = .ok o))
    (ho' : (∃ vs, newPos t' vs = .ok o') ∨ (∃ es hv, newNamed t' es hv = .ok o')) :
    (∃ b, equals o o' = .ok b) ∧
    (equals o o' = .ok true ↔
      ((tyEq o.typ o'.typ = true ∧ ∀ n ∈ eqAttrNames o.typ, get o n = get o' n) ∨
       (tyEq o.typ o'.typ = false ∧ includesType o.typ = false ∧ includesType o'.typ = false ∧
          (eqAttrNames o.typ).length = (eqAttrNames o'.typ).length ∧
          ∀ n ∈ eqAttrNames o.typ, n ∈ eqAttrNames o'.typ ∧ get o n = get o' n))) := by
  have hwf := C17_wf_env (env0 := []) (by simp) hds h
  have hty := C17_typed_env (env0 := []) (by simp) h
  have hmem : t ∈ env := List.mem_of_getElem? hi
  have hmem' : t' ∈ env := List.mem_of_getElem? hj
  -- what a constructor builds has the type it was asked for, and is Valid
  have hmk : ∀ {u : OType} {x : Obj}, u ∈ env → ((∃ vs, newPos u vs = .ok x) ∨ (∃ es hv, newNamed u es hv = .ok x)) →
      x.typ = u ∧ Valid x := by
    intro u x hu hx
    rcases hx with ⟨vs, hx⟩ | ⟨es, hv, hx⟩
    · exact ⟨by rw [(newPos_ok hx).1], valid_newPos hx⟩
    · refine ⟨?_, C17_valid_named (hwf u hu).2 (hty u hu) hx⟩
      unfold newNamed at hx
      by_cases hm : namedMatches (attrInfo u) es = true
      · by_cases hc : coerceOk (attrInfo u) es = true
        · simp only [hm, hc, if_true, pfh_result hm] at hx
          cases hx; rfl
        · simp [hm, hc] at hx
      · simp only [hm, Bool.false_eq_true, if_false] at hx
        rw [(newPos_ok hx).1]
  obtain ⟨hot, hov⟩ := hmk hmem ho
  obtain ⟨hot', hov'⟩ := hmk hmem' ho'
  have hw : WF o.typ := by rw [hot]; exact (hwf t hmem).2
  have hw' : WF o'.typ := by rw [hot']; exact (hwf t' hmem').2
  have hname : tyEq o.typ o'.typ = true → o'.typ = o.typ := by
    rw [hot, hot']
    exact C17_names_identify h hi hj
  exact ⟨C17_equals_total hw hw' hov hov' hname, C17_equality hw hw' hov hov' hname⟩

/-- END TO END, the construction laws: for any accepted list of definitions, any of its types `t` and any values:
    (1) a positional construction reads every attribute back as the value given or the default, (2) its named twin exists and
    is Equal in both directions, and (3) EVERY instance — made by either constructor — is rebuilt from its init-hash into an
    Equal instance -/
theorem C17_laws_env {ds : List Def} {env : List OType} (h : defineAll [] ds = .ok env)
    (hds : ∀ d ∈ ds, DefShape d) {t : OType} (ht : t ∈ env) (hv : Val) :
    (∀ vs o, newPos t vs = .ok o →
      (∀ (i : Nat) (a : Attr), (posAttrs t)[i]? = some a → get o a.name = .ok (some ((vs[i]?).getD a.implicitT))) ∧
      (∃ o', newNamed t (toHash (posAttrs t) vs) hv = .ok o' ∧ equals o o' = .ok true ∧ equals o' o = .ok true)) ∧
    (∀ o, ((∃ vs, newPos t vs = .ok o) ∨ (∃ es hv', newNamed t es hv' = .ok o)) →
      ∃ o', newNamed t (initHash o) hv = .ok o' ∧ equals o' o = .ok true ∧ equals o o' = .ok true) := by
  have hw : WF t := (C17_wf_env (env0 := []) (by simp) hds h t ht).2
  have hty : TypeTyped t := C17_typed_env (env0 := []) (by simp) h t ht
  constructor
  · intro vs o hn
    refine ⟨fun i a ha => C17_get hw hn ha, ?_⟩
    obtain ⟨o', h1, -, h2, h3, -⟩ := C17_pos_named hv hw hn
    exact ⟨o', h1, h2, h3⟩
  · intro o ho
    have hot : o.typ = t ∧ Valid o := by
      rcases ho with ⟨vs, hx⟩ | ⟨es, hv', hx⟩
      · exact ⟨by rw [(newPos_ok hx).1], valid_newPos hx⟩
      · refine ⟨?_, C17_valid_named hw hty hx⟩
        unfold newNamed at hx
        by_cases hm : namedMatches (attrInfo t) es = true
        · by_cases hc : coerceOk (attrInfo t) es = true
          · simp only [hm, hc, if_true, pfh_result hm] at hx
            cases hx; rfl
          · simp [hm, hc] at hx
        · simp only [hm, Bool.false_eq_true, if_false] at hx
          rw [(newPos_ok hx).1]
    obtain ⟨hto, hvo⟩ := hot
    obtain ⟨o', h1, -, h2, h3, -⟩ := C17_inithash hv (by rw [hto]; exact hw) hvo
    rw [hto] at h1
    exact ⟨o', h1, h2, h3⟩

/-- END TO END with type parameters: for any accepted list of definitions, any two of its types and any two instances
    made by either constructor of Model/ObjectParams (so: instances of `T` and of `T[p => v]`), `Equals` is characterised as
    in `C17x_equality`, no side condition left -/
theorem C17x_equality_env {ds : List Def} {env : List OType} (h : defineAll [] ds = .ok env)
    (hds : ∀ d ∈ ds, DefShape d) {i j : Nat} {t t' : OType} (hi : env[i]? = some t) (hj : env[j]? = some t')
    {o o' : PObj} (ho : (∃ vs, newPosX t vs = .ok o) ∨ (∃ es hv, newNamedX t es hv = .ok o))
    (ho' : (∃ vs, newPosX t' vs = .ok o') ∨ (∃ es hv, newNamedX t' es hv = .ok o')) :
    equalsX o o' = .ok true ↔
      ((sameTypeX o o' = true ∧ ∀ n ∈ eqAttrNames o.obj.typ, get o.obj n = get o'.obj n) ∨
       (sameTypeX o o' = false ∧ includesType o.obj.typ = false ∧ includesType o'.obj.typ = false ∧
          (eqAttrNames o.obj.typ).length = (eqAttrNames o'.obj.typ).length ∧
          ∀ n ∈ eqAttrNames o.obj.typ, n ∈ eqAttrNames o'.obj.typ ∧ get o.obj n = get o'.obj n)) := by
  have hwf := C17_wf_env (env0 := []) (by simp) hds h
  have hty := C17_typed_env (env0 := []) (by simp) h
  have hmem : t ∈ env := List.mem_of_getElem? hi
  have hmem' : t' ∈ env := List.mem_of_getElem? hj
  have hmk : ∀ {u : OType} {x : PObj}, u ∈ env →
      ((∃ vs, newPosX u vs = .ok x) ∨ (∃ es hv, newNamedX u es hv = .ok x)) → x.obj.typ = u ∧ Valid x.obj := by
    intro u x hu hx
    have hv := C17x_valid (hwf u hu).2 (hty u hu)
    rcases hx with ⟨vs, hx⟩ | ⟨es, hv', hx⟩
    · exact ⟨(newPosX_ok (hwf u hu).2 hx).1, hv.1 vs x hx⟩
    · refine ⟨?_, hv.2 es hv' x hx⟩
      unfold newNamedX at hx
      by_cases hm : namedMatches (attrInfo u) es = true
      · by_cases hc : coerceOk (attrInfo u) es = true
        · simp only [hm, hc, if_true, pfh_result hm] at hx
          cases hx; rfl
        · simp [hm, hc] at hx
      · simp only [hm, Bool.false_eq_true, if_false] at hx
        exact (newPosX_ok (hwf u hu).2 hx).1
  obtain ⟨hot, hov⟩ := hmk hmem ho
  obtain ⟨hot', hov'⟩ := hmk hmem' ho'
  exact C17x_equality (by rw [hot]; exact (hwf t hmem).2) (by rw [hot']; exact (hwf t' hmem').2) hov hov'
    (by rw [hot, hot']; exact C17_names_identify h hi hj)

/-! ### `Get` is well-typed — through any ancestor's declaration -/

/-- what `Get` answers for a positional attribute of a `Valid` instance is an instance of the attribute's type: the stored
    value (checked by the dispatcher) or the implicit one (a well-typed default, or undef for a given_or_derived attribute) -/
theorem C17_get_typed {t : OType} (hw : WF t) (hty : TypeTyped t) {o : Obj} (ho : o.typ = t) (hv : Valid o)
    {i : Nat} {a : Attr} (ha : (posAttrs t)[i]? = some a) :
    ∃ v, get o a.name = .ok (some v) ∧ inst a.ty v = true := by
  obtain ⟨t', vs⟩ := o
  simp only at ho
  subst ho
  have hreq : requiredCount t' ≤ vs.length := hv.req
  rw [get_pos hw.nodup hw.tailOpt hreq ha, den_get ha]
  refine ⟨_, rfl, ?_⟩
  cases hvi : vs[i]? with
  | some v => simpa using allInst_get hv.inst ha hvi
  | none =>
    simp only [Option.getD_none]
    have hge : vs.length ≤ i := by
      rcases Nat.lt_or_ge i vs.length with hlt | hge
      · rw [List.getElem?_eq_getElem hlt] at hvi; cases hvi
      · exact hge
    have hopt : a.optional = true := hw.tailOpt i a ha (by omega)
    obtain ⟨hval, hgod⟩ := hty a (posAttrs_mem_each (List.mem_of_getElem? ha))
    unfold Attr.implicitT
    by_cases hk : a.kind = .givenOrDerived
    · simp [hk, hgod hk]
    · have hkb : (a.kind == Kind.givenOrDerived) = false := by simpa using hk
      unfold Attr.optional Attr.hasValue at hopt
      simp only [hkb, Bool.false_or] at hopt
      obtain ⟨x, hx⟩ := Option.isSome_iff_exists.mp hopt
      simp [hkb, hx, hval x hx]

/-- … and so, read through ANY ancestor's declaration: for a type `t` of an accepted list of definitions, an ancestor `p`
    and an attribute `a` of `p`, the attribute of that name in `t` — when it has a position — reads back, on every instance
    either constructor makes, a value that `p`'s declaration of `a` admits -/
theorem C17_get_liskov {ds : List Def} {env : List OType} (h : defineAll [] ds = .ok env)
    (hds : ∀ d ∈ ds, DefShape d) {t p : OType} (ht : t ∈ env) (hp : p <:+ t) {a : Attr} (ha : a ∈ eachAttribute p)
    {o : Obj} (ho : o.typ = t) (hv : Valid o) :
    ∃ a' ∈ eachAttribute t, a'.name = a.name ∧
      ∀ i : Nat, (posAttrs t)[i]? = some a' → ∃ v, get o a.name = .ok (some v) ∧ inst a.ty v = true := by
  obtain ⟨a', ha', hn, hs⟩ := C17_liskov_attributes h hds ht hp a ha
  refine ⟨a', ha', hn, ?_⟩
  intro i hi
  have hw : WF t := (C17_wf_env (env0 := []) (by simp) hds h t ht).2
  have hty : TypeTyped t := C17_typed_env (env0 := []) (by simp) h t ht
  obtain ⟨v, hg, hi'⟩ := C17_get_typed hw hty ho hv hi
  rw [hn] at hg
  exact ⟨v, hg, hs v hi'⟩

/-! ### the definition re-created from the InitHash of the type it defined -/

/-- every accepted definition, re-created from the InitHash of the type it defined (`typeDef`, what
    `objectType.InitHash()` / `String()` / the serializer print), is accepted again and yields the same type — the own
    attributes in the order of the printed definition, `constants` last (`reorder`).  Proved at full strength since the
    fix 86875be (finding C17-type-inithash-constant-undef, now fixed: `C17_type_inithash_before_fix` replays it).
    (`hfk`: a function shares its name only with a constant that is printed under `constants` — the only attribute a
    function can share its name with is a `constants` entry, and in the universe of the driver every such entry is
    `constLike`.) -/
theorem C17_type_inithash {env : List OType} {d : Def} {l : Level} {p : OType} (hd : DefShape d)
    (h : define env d = .ok (l :: p))
    (hfk : ∀ f ∈ l.funcs, ∀ a ∈ l.attrs, a.name = f.name → a.constLike = true) :
    define env (typeDef d.parent l) = .ok ({ l with attrs := reorder l.attrs } :: p) :=
  define_typeDef hd.names hd.constNames h hfk

/-- the statement proved before the fix (kept: same conclusion under the then necessary exclusion of a constant of an
    `Optional[…]` type whose value is undef; now a corollary) -/
theorem C17_type_inithash_partial {env : List OType} {d : Def} {l : Level} {p : OType} (hd : DefShape d)
    (h : define env d = .ok (l :: p)) (_hu : ∀ a ∈ l.attrs, a.undefConstant = false)
    (hfk : ∀ f ∈ l.funcs, ∀ a ∈ l.attrs, a.name = f.name → a.constLike = true) :
    define env (typeDef d.parent l) = .ok ({ l with attrs := reorder l.attrs } :: p) :=
  C17_type_inithash hd h hfk

/-- the re-created type lays out, finds and compares its attributes exactly like the original: same positional attributes,
    required count and equality positions (`attrInfo`), same member lookup — hence the same constructors, `Get`,
    init-hashes and equality on the same value lists -/
theorem C17_type_inithash_same {env : List OType} {d : Def} {l : Level} {p : OType} (hd : DefShape d)
    (h : define env d = .ok (l :: p)) :
    attrInfo ({ l with attrs := reorder l.attrs } :: p) = attrInfo (l :: p) ∧
    (∀ n, findAttr ({ l with attrs := reorder l.attrs } :: p) n = findAttr (l :: p) n) ∧
    (∀ vs n, get { typ := { l with attrs := reorder l.attrs } :: p, values := vs } n =
      get { typ := l :: p, values := vs } n) ∧
    (∀ vs, initHash { typ := { l with attrs := reorder l.attrs } :: p, values := vs } =
      initHash { typ := l :: p, values := vs }) := by
  obtain ⟨-, hboth, attrs, hattrs, -, -, -, -, ht⟩ := define_parts h
  have hla : l.attrs = attrs := by rw [(List.cons.inj ht).1]
  have hnd : (l.attrs.map (·.name)).Nodup := by
    rw [hla, (defineAttrs_ok hattrs).1]; exact decls_nodup hd.names hd.constNames hboth
  have hai := attrInfo_reorder (l' := { l with attrs := reorder l.attrs }) (p := p) hnd rfl rfl rfl
  have hfa := fun n => findAttr_reorder (l' := { l with attrs := reorder l.attrs }) (p := p) hnd rfl n
  have hma : ∀ n, memberAttr ({ l with attrs := reorder l.attrs } :: p) n = memberAttr (l :: p) n := by
    intro n
    simp only [memberAttr, find_reorder hnd]
  refine ⟨hai, hfa, ?_, ?_⟩
  · intro vs n
    unfold get
    simp only [hai, hma]
  · intro vs
    unfold initHash
    simp only [hai]

/-- the finding C17-type-inithash-constant-undef (fixed by 86875be), replayed in the model:
    `{a => {type => Optional[Integer], kind => constant, value => undef}}` is accepted; the definition its type printed
    as BEFORE the fix (`typeDefBefore`: the undef of every attribute of an Optional type left out) is rejected with
    CONSTANT_REQUIRES_VALUE; the one it prints as now is accepted and gives the same type -/
def undefConstDef : Def :=
  { parent := none, attrs := [{ name := "a", ty := .opt .int, kind := .constant, dflt := some .undef }],
    equality := .absent, includeType := none, serialization := none }
def undefConstLevel : Level :=
  { id := 0, attrs := [{ name := "a", ty := .opt .int, kind := .constant, value := some .undef, final := true }],
    equality := none, includeType := true, serialization := none }

theorem C17_type_inithash_before_fix :
    define [] undefConstDef = .ok [undefConstLevel] ∧
    define [] (typeDefBefore undefConstDef.parent undefConstLevel) = .error .constantRequiresValue ∧
    define [] (typeDef undefConstDef.parent undefConstLevel) = .ok [undefConstLevel] := by decide

/-! ### non-vacuity: a three-level chain with a constant, an Optional attribute, a given_or_derived attribute, a default,
    a declared equality and a serialization order meets every hypothesis used above -/

def sampleDefs : List Def := [
  { parent := none,
    attrs := [{ name := "a", ty := .int, kind := .normal, dflt := none }],
    constants := [("k", .int 7)],          -- `constants => {k => 7}`: type inferred, kind constant
    equality := .many ["a"], includeType := none, serialization := none },
  { parent := some 0,
    attrs := [{ name := "b", ty := .opt .str, kind := .normal, dflt := none },
              { name := "g", ty := .int, kind := .givenOrDerived, dflt := none }],
    equality := .absent, includeType := some false, serialization := none },
  { parent := some 1,
    attrs := [{ name := "c", ty := .bool, kind := .reference, dflt := some (.bool true) }],
    equality := .one "c", includeType := none, serialization := some ["a", "c", "b", "g"] },
  -- a sibling that overrides the inherited required `a` to give it a default
  { parent := some 0,
    attrs := [{ name := "z", ty := .str, kind := .normal, dflt := none },
              { name := "a", ty := .int, kind := .normal, dflt := some (.int 3), override := true }],
    equality := .absent, includeType := none, serialization := none }]

def sampleEnv : List OType :=
  match defineAll [] sampleDefs with
  | .ok env => env
  | .error _ => []

def sampleT0 : OType := (sampleEnv[0]?).getD []
def sampleT2 : OType := (sampleEnv[2]?).getD []
def sampleT3 : OType := (sampleEnv[3]?).getD []

example : defineAll [] sampleDefs = .ok sampleEnv := rfl
example : sampleEnv.length = 4 ∧ sampleT2.length = 3 := ⟨rfl, rfl⟩
example : (posAttrs sampleT2).map (·.name) = ["a", "c", "b", "g"] ∧ requiredCount sampleT2 = 1 := ⟨rfl, rfl⟩

theorem sampleShape : ∀ d ∈ sampleDefs, DefShape d := by
  intro d hd
  simp only [sampleDefs, List.mem_cons, List.not_mem_nil, or_false] at hd
  rcases hd with rfl | rfl | rfl | rfl
  · exact ⟨by decide, by decide⟩
  · exact ⟨by decide, by decide⟩
  · exact ⟨by decide, by decide⟩
  · exact ⟨by decide, by decide⟩

theorem sampleWF : WF sampleT2 :=
  (C17_wf_env (env0 := []) (by simp) sampleShape (rfl : defineAll [] sampleDefs = .ok sampleEnv) sampleT2
    (by decide)).2

/-- an overriding attribute takes the place of the one it overrides (one position, now optional) -/
theorem sampleWF3 : WF sampleT3 :=
  (C17_wf_env (env0 := []) (by simp) sampleShape (rfl : defineAll [] sampleDefs = .ok sampleEnv) sampleT3
    (by decide)).2
example : (posAttrs sampleT3).map (·.name) = ["z", "a"] ∧ requiredCount sampleT3 = 1 := ⟨rfl, rfl⟩
example : get { typ := sampleT3, values := [.str "x"] } "a" = .ok (some (.int 3)) :=
  C17_get (i := 1) sampleWF3 (rfl : newPos sampleT3 [.str "x"] = .ok _) rfl

/-- hypotheses of `C17_equality_env` / `C17_names_identify`: two types of the sample, one instance made positionally, one by
    name; `Equals` answers -/
example : ∃ b, equals { typ := sampleT2, values := [.int 1] } { typ := sampleT0, values := [.int 1] } = .ok b :=
  (C17_equality_env (rfl : defineAll [] sampleDefs = .ok sampleEnv) sampleShape (i := 2) (j := 0) rfl rfl
    (Or.inl ⟨[.int 1], rfl⟩) (Or.inr ⟨[("a", .int 1)], .hash "", rfl⟩)).1

/-- hypotheses of `C17_laws_env`: the grand-child of the sample; the round trip of an instance made BY NAME -/
example : ∃ o', newNamed sampleT2 (initHash { typ := sampleT2, values := [.int 1, .bool false] }) (.hash "") = .ok o' ∧
    equals o' { typ := sampleT2, values := [.int 1, .bool false] } = .ok true := by
  obtain ⟨o', h1, h2, -⟩ := (C17_laws_env (rfl : defineAll [] sampleDefs = .ok sampleEnv) sampleShape
    (t := sampleT2) (by decide) (.hash "")).2 { typ := sampleT2, values := [.int 1, .bool false] }
    (Or.inr ⟨[("c", .bool false), ("a", .int 1)], .hash "", by decide⟩)
  exact ⟨o', h1, h2⟩

/-- hypotheses of `C17_liskov_attributes`: the sibling branch of the sample overrides the root's required `a : Integer` by
    `a : Integer` with a default; the root is an ancestor; the theorem hands back the overriding attribute -/
example : ∃ a' ∈ eachAttribute sampleT3, a'.name = "a" ∧ ∀ v, inst a'.ty v = true → inst Ty.int v = true := by
  have h := C17_liskov_attributes (rfl : defineAll [] sampleDefs = .ok sampleEnv) sampleShape (t := sampleT3) (p := sampleT0)
    (by decide) ⟨sampleT3.take 1, rfl⟩ { name := "a", ty := .int, kind := .normal, value := none } (by decide)
  exact h

/-- hypotheses of `C17_valid_named`: the types of the sample hold well-typed defaults; a named construction on the grand-child -/
example : TypeTyped sampleT2 :=
  C17_typed_env (env0 := []) (by simp) (rfl : defineAll [] sampleDefs = .ok sampleEnv) sampleT2 (by decide)
example : Valid { typ := sampleT2, values := [.int 1, .bool false] } :=
  C17_valid_named (es := [("c", .bool false), ("a", .int 1)]) (h := .hash "") sampleWF
    (C17_typed_env (env0 := []) (by simp) (rfl : defineAll [] sampleDefs = .ok sampleEnv) sampleT2 (by decide)) (by decide)

/-- hypotheses of `C17_type_inithash_partial` / `C17_type_inithash_same`: the root of the sample (an attribute and a
    `constants` entry) and its grand-child (a default, a serialization order, an equality) are re-created from what they
    print as; the constant moves behind the attribute -/
example : ∃ l p, define [] (sampleDefs.headD default) = .ok (l :: p) ∧ (∀ a ∈ l.attrs, a.undefConstant = false) ∧
    (typeDef none l).constants = [("k", .int 7)] := ⟨_, _, rfl, by decide, rfl⟩
example : define [] (typeDef none (sampleT0.headD default)) = .ok sampleT0 := by decide

/-- hypotheses of `C17_get` / `C17_pos_named` hold; the conclusions, instantiated: an omitted trailing attribute reads back
    its default, a given_or_derived one `undef`, the constant its value -/
example : newPos sampleT2 [.int 1] = .ok { typ := sampleT2, values := [.int 1] } := rfl
example : get { typ := sampleT2, values := [.int 1] } "c" = .ok (some (.bool true)) :=
  C17_get (i := 1) sampleWF (rfl : newPos sampleT2 [.int 1] = .ok _) rfl
example : get { typ := sampleT2, values := [.int 1] } "g" = .ok (some .undef) :=
  C17_get (i := 3) sampleWF (rfl : newPos sampleT2 [.int 1] = .ok _) rfl
example : get { typ := sampleT2, values := [.int 1] } "k" = .ok (some (.int 7)) := rfl
example : ∃ o', newNamed sampleT2 [("a", .int 1)] (.hash "") = .ok o' ∧
    equals { typ := sampleT2, values := [.int 1] } o' = .ok true := by
  obtain ⟨o', h1, _, h2, _⟩ := C17_pos_named (.hash "") sampleWF (rfl : newPos sampleT2 [.int 1] = .ok _)
  exact ⟨o', h1, h2⟩
/-- hypotheses of `C17_inithash` / `C17_equality`: an object with a default-valued and a non-default trailing value -/
example : Valid { typ := sampleT2, values := [.int 1, .bool true, .str "x"] } := ⟨by decide, rfl⟩
example : initHash { typ := sampleT2, values := [.int 1, .bool true, .str "x"] } = [("a", .int 1), ("b", .str "x")] := rfl
example : eqAttrNames sampleT2 = ["c", "a"] := rfl
/-- hypotheses of the cross-type half of `C17_equality`: two types that are not Equal, both well laid out, both leaving the
    type out of equality -/
theorem wf_lvA (id : Nat) : WF [lvA id] :=
  wf_noSerialization ⟨by simp [eachAttribute, lvA], by
    intro a ha
    simp [eachAttribute, lvA] at ha
    subst ha
    intro hk; cases hk⟩ rfl
example : tyEq [lvA 0] [lvA 1] = false ∧ includesType [lvA 0] = false ∧ includesType [lvA 1] = false ∧
    eqAttrNames [lvA 0] = ["a"] ∧ eqAttrNames [lvA 1] = ["a"] := ⟨rfl, rfl, rfl, rfl, rfl⟩
example : equals { typ := [lvA 1], values := [.int 1] } { typ := [lvA 0], values := [.int 1] } = .ok true :=
  C17_equality_symmetric (wf_lvA 0) (wf_lvA 1) ⟨by decide, rfl⟩ ⟨by decide, rfl⟩
    (by intro h; cases h) (by intro h; cases h) rfl C17_include_type_honoured.1

/-- hypotheses of `C17_subtype` / `C17_subtype_strict`: the grand-parent is a proper ancestor -/
example : sampleT0 ≠ [] ∧ sampleT0 <:+ sampleT2 ∧ sampleT0 ≠ sampleT2 :=
  ⟨by decide, ⟨sampleT2.take 2, rfl⟩, by decide⟩
example : isInstance sampleT0 { typ := sampleT2, values := [.int 1] } = true ∧
    isInstance sampleT2 { typ := sampleT0, values := [.int 1] } = false := ⟨rfl, rfl⟩
/-- hypotheses of `C17_instance_closure` on the sample (0 ← 1 ← 2, 0 ← 3): the grand-parent is reached from the grand-child in
    two steps, so it accepts its instances; the sibling branch 3 is not reached from 2 (the theorem turns the model's
    `false` into the statement about the closure) -/
example : parentRel sampleDefs 1 2 ∧ parentRel sampleDefs 0 1 ∧ parentRel sampleDefs 0 3 :=
  ⟨⟨by decide, _, rfl, rfl⟩, ⟨by decide, _, rfl, rfl⟩, ⟨by decide, _, rfl, rfl⟩⟩
example : isInstance sampleT0 { typ := sampleT2, values := [.int 1] } = true :=
  (C17_instance_closure (rfl : defineAll [] sampleDefs = .ok sampleEnv) (i := 0) (j := 2) rfl rfl _ rfl).mpr
    ((Relation.ReflTransGen.single ⟨by decide, _, rfl, rfl⟩).tail ⟨by decide, _, rfl, rfl⟩)
example : ¬ Relation.ReflTransGen (parentRel sampleDefs) 3 2 := fun hr =>
  absurd ((C17_instance_closure (rfl : defineAll [] sampleDefs = .ok sampleEnv) (i := 3) (j := 2) rfl rfl
    { typ := sampleT2, values := [.int 1] } rfl).mpr hr) (by decide)

/-- hypotheses of `C17_schema_partial`: the first sample definition is well-formed in the model's terms -/
example : WellFormedDef [] (sampleDefs.headD default) := by
  have hdecls : (sampleDefs.headD default).decls (parentOf [] (sampleDefs.headD default)) =
      [{ name := "a", ty := .int, kind := .normal, dflt := none },
       { name := "k", ty := .int, kind := .constant, dflt := some (.int 7) }] := rfl
  refine ⟨rfl, rfl, rfl, ?_, ?_, ?_, ?_, ?_⟩
  · intro as _ n hn
    simp only [sampleDefs, List.headD_cons, EqDecl.toList?, Option.getD_some, Option.getD_none, List.append_nil,
      List.mem_cons, List.not_mem_nil, or_false] at hn
    subst hn
    simp [isFnName, sampleDefs, parentOf, fnShadow]
  · intro a ha
    rw [hdecls] at ha
    simp only [List.mem_cons, List.not_mem_nil, or_false] at ha
    rcases ha with rfl | rfl <;> simp [AttrDeclOK, inst]
  · intro a ha
    rw [hdecls] at ha
    simp only [List.mem_cons, List.not_mem_nil, or_false] at ha
    rcases ha with rfl | rfl <;> simp [OverrideOK, parentOf, findAttr, fnShadow, sampleDefs]
  · intro as has n hn
    have : as = [{ name := "a", ty := .int, kind := .normal, value := none },
                 { name := "k", ty := .int, kind := .constant, value := some (.int 7), final := true }] := by
      have h' : defineAttrs (parentOf [] (sampleDefs.headD default))
          ((sampleDefs.headD default).decls (parentOf [] (sampleDefs.headD default))) = .ok
          [{ name := "a", ty := .int, kind := .normal, value := none },
           { name := "k", ty := .int, kind := .constant, value := some (.int 7), final := true }] := rfl
      rw [h'] at has; exact (Except.ok.inj has).symm
    subst this
    simp only [sampleDefs, List.headD_cons, EqDecl.toList?, Option.getD_some, List.mem_cons, List.not_mem_nil,
      or_false] at hn
    subst hn
    exact ⟨_, rfl, by decide, by simp [parentOf, sampleDefs, equalityAttributes]⟩
  · intro as _ ser hs
    simp [sampleDefs] at hs

end Pcore.Object
