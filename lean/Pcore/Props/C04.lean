import Pcore.Proofs.LatFam
import Pcore.Proofs.LatMono
import Pcore.Proofs.LatGen
import Pcore.Proofs.LatGenVar
import Pcore.Proofs.LatCommonAll
import Pcore.Proofs.LatFamT
set_option linter.unusedSimpArgs false
/-!
# C04 — Inferred types contain their values; common type and generalisation are bounds

Property (properties.jsonl): every value is an instance of its own inferred type, both the generic and the detailed one.  Whenever a type
T accepts the detailed type inferred for a value, the value is an instance of T, and conversely for values that contain no undef-valued
hash entry.  The common type computed for two types accepts both of them, and the generalisation of a type accepts that type.

Model: `ptype` (`PType()`), `dtype` (`px.DetailedValueType`), `commonType` (`commonality.go`, the whole cascade in order, fuel = recursion
depth), `generalize` / `genericType` — `Pcore/Model/LatticeInfer.lean`, `LatticeInst.lean`; compared with the implementation on every
generated value / pair (ops `ptype dtype common gen infer`, byte-identical type terms).

Full statement / proved / missing
* `C04_ptype_full`, `C04_dtype_full`, `C04_common_full`, `C04_generalize_full`, `C04_accepts_sound_full`, `C04_accepts_complete_full` — the six laws as
  `def … : Prop`, kept visible.
* PROVED (unbounded): `C04_ptype_scalar` / `C04_dtype_scalar` — the law for every value that is not an Array or a Hash (scalars, regexps,
  binaries, timespans, types used as values — through reflexivity C03_refl —, object instances, Sensitive of those);
  `C04_dtype_struct` — the second law for arbitrarily nested, heterogeneous arrays and hashes keyed by pairwise different non-empty strings
  (the Tuple / Struct shape of `DetailedValueType`, where no `commonType` is involved), for both settings of the exempt rule;
  `C04_accepts_sound_partial` — the third law from C01_sound_partial (rule off, fragment `Ty.Frag`) for any value whose detailed type it
  is an instance of; `C04_common_unit` (Unit never absorbs: the repaired rule), `C04_common_accepts_left/right` — the first two branches
  of `commonType` are upper bounds given reflexivity; `C04_common_tail` — the Numeric/ScalarData/Scalar/Data/RichData/Any tail is an upper bound.
* REPAIRED in /repo and proved of the repaired code: `C04_generalize_float_inf_repaired` (the default Float has no bounds),
  `C04_scalar_timespan_repaired` (Scalar, and through it RichData, accepts the Timespan types whose values it admits).
* FALSE of the code, with witnesses (known findings): `C04_accepts_complete_fails_object` (Object has every type value as an instance but rejects Type[..]), `C04_accepts_complete_fails_hash`
  (the detailed type of a hash with non-string keys is a commonType fold).
  `C04_ptype` — THE FIRST LAW, unconditional, for every value that holds no type value (nested heterogeneous arrays, hashes with any
  keys, Sensitive, objects, scalars), for the code's setting of the exempt rule: fold invariant "every element seen so far is an instance
  of the accumulator" + C01 + `C04_common_fam` (commonType is an upper bound on the family `Ty.Fam` of inferred types and stays inside it);
  `C04_ptype_of_family` — the same for values with type values, conditional on a family on which commonType is an upper bound;
  `C04_generalize_partial` — the sixth law for every type without Variant (and with finite Float bounds: the excluded case is the finding);
  `C04_common_partial` — THE FIFTH LAW for ALL well-formed types without Unit (and, under the code's setting of the rule, without Struct):
  every structural merge of `commonality.go` (Enum / String / Pattern / Integer / Float / Array / Tuple / Variant / Type / Iterable /
  NotUndef) and the tail; the result is again well-formed and in the fragment (corollary of C03 stage 4: the Tuple fold needs transitivity);
  `C04_generalize_variant_partial` — the sixth law WITH Variant at any nesting (its `Generic()` removes members that became `Equals`: the
  kept member accepts the removed one's original by transitivity, C03 stage 4), on the fragment of transitivity `Ty.TA` (no Unit; no
  Struct under the code's setting of the rule; Data / RichData allowed);
  `C04_accepts_sound` — the third law with no hypothesis on the detailed type (rule off; same values as `C04_dtype`);
  `C04_dtype` — THE SECOND LAW, unconditional, for every value without type values and without a hash keyed by strings only with the
  empty string among them;
  `C04_ptype_typ`, `C04_dtype_typ`, `C04_accepts_sound_typ` — the FIRST, SECOND and THIRD law for values that HOLD TYPE VALUES at any
  depth (every type value a well-formed type without Unit, and without Struct under the code's setting of the rule), from the lifted
  C01 (`Type[T]` for every `T` of `Ty.TA`) and `C04_common_famT` (`commonType(Type[x], Type[y]) = Type[commonType(x,y)]` is an upper bound by
  `C04_common_partial`);
* missing: the first law for values holding a type value with Unit inside (or a Struct, under the code's setting of the rule), the
  second law for hashes keyed by strings only with the empty string among them;
  `C04_common` with Unit nested inside an argument (Unit absorbs: e.g. a Variant with a Unit member accepts everything) or a Struct under
  the code's setting of the rule; `C04_generalize` with Unit / Struct under the rule.  All six laws are evaluated on the
  implementation for every generated case.
-/
namespace Pcore.Lat

def C04_ptype_full : Prop := ∀ (cfg : Cfg) (v : Val), v.OK → inst cfg true (ptype cfg true v) v = true
def C04_dtype_full : Prop := ∀ (cfg : Cfg) (v : Val), v.OK → inst cfg true (dtype cfg true v) v = true
def C04_common_full : Prop :=
  ∀ (cfg : Cfg) (a b : Ty), Ty.WF cfg a → Ty.WF cfg b →
    asg cfg true (commonType cfg true a b) a = true ∧ asg cfg true (commonType cfg true a b) b = true
def C04_generalize_full : Prop := ∀ (cfg : Cfg) (t : Ty), Ty.WF cfg t → asg cfg true (generalize t) t = true
def C04_accepts_sound_full : Prop :=
  ∀ (cfg : Cfg) (t : Ty) (v : Val), Ty.WF cfg t → v.OK → asg cfg false t (dtype cfg false v) = true → inst cfg false t v = true
def C04_accepts_complete_full : Prop :=
  ∀ (cfg : Cfg) (t : Ty) (v : Val), Ty.WF cfg t → Ty.Ref t → v.OK → inst cfg true t v = true → asg cfg true t (dtype cfg true v) = true

/-- first and second law for every value that is neither an Array nor a Hash (`Val.Leafy`: scalars, regexps, binaries, timespans, object
    instances, types used as values — through reflexivity C03_refl —, Sensitive of those) -/
theorem C04_ptype_scalar (cfg : Cfg) (sfh : Bool) (v : Val) (h : Val.Leafy cfg v) :
    inst cfg sfh (ptype cfg sfh v) v = true := ptype_leafy cfg sfh v h

theorem C04_dtype_scalar (cfg : Cfg) (sfh : Bool) (v : Val) (h : Val.Leafy cfg v) :
    inst cfg sfh (dtype cfg sfh v) v = true :=
  dtype_structy cfg sfh v.w v (Nat.le_refl _) (Val.Structy.leaf v h)

/-- second law, unbounded, for every value built from arrays (any nesting, heterogeneous) and hashes keyed by pairwise different
    non-empty strings over such leaves: the detailed type (Tuple of detailed types, Struct of detailed member types with the
    Optional-key rule of `NewStructElement`) contains the value.  No `commonType` is involved for these values. -/
theorem C04_dtype_struct (cfg : Cfg) (sfh : Bool) (v : Val) (h : Val.Structy cfg sfh v) :
    inst cfg sfh (dtype cfg sfh v) v = true := dtype_structy cfg sfh v.w v (Nat.le_refl _) h

/-- FIRST LAW, unconditional and unbounded, for both settings of the exempt rule (`sfh = true` is the code): every value that holds no
    type value — arbitrarily nested, heterogeneous arrays and hashes (any keys), Sensitive, object instances, all scalars — is an
    instance of its inferred type.  Proof: the fold invariant of `privateReducedType` ("every element seen so far is an instance of the
    accumulator") carried through by C01 (soundness), with `commonType` shown to be an upper bound on the family `Ty.Fam` of inferred
    types (`C04_common_fam`) — exactly where a `commonType` that returns the wrong argument, or lets Unit absorb, breaks the proof. -/
theorem C04_ptype (cfg : Cfg) (sfh : Bool) (hl : ∀ s, (cfg.lower s).length = s.length) (v : Val)
    (ok : v.OK) (tv : Val.TyOKS cfg sfh v) (nt : Val.AllTyp (fun _ => False) v) : inst cfg sfh (ptype cfg sfh v) v = true :=
  ptype_fam cfg sfh hl v ok tv nt

/-- SECOND LAW, unconditional, for the code's setting of the rule: every value that holds no type value and no hash keyed by strings
    only with the empty string among them is an instance of its detailed type (Tuple of detailed types; Struct for hashes keyed by
    non-empty strings; the reduced type, by the first law, for hashes with a non-string key and for Sensitive) -/
theorem C04_dtype (cfg : Cfg) (sfh : Bool) (hl : ∀ s, (cfg.lower s).length = s.length) (v : Val)
    (ok : v.OK) (tv : Val.TyOKS cfg sfh v) (nt : Val.AllTyp (fun _ => False) v) (ne : Val.NoEmptyKey v) :
    inst cfg sfh (dtype cfg sfh v) v = true :=
  dtype_structy cfg sfh v.w v (Nat.le_refl _) (dtype_fam cfg sfh hl v.w v (Nat.le_refl _) ok tv nt ne)

/-- `commonType` on the family of inferred types: the result stays in the family and accepts both arguments -/
theorem C04_common_fam (cfg : Cfg) (sfh : Bool) (a b : Ty) (ha : a.Fam) (hb : b.Fam) :
    (commonType cfg sfh a b).Fam ∧ asg cfg sfh (commonType cfg sfh a b) a = true ∧ asg cfg sfh (commonType cfg sfh a b) b = true :=
  common_fam cfg sfh _ a b ha hb

/-- the first law for values WITH type values, conditional on a family `G` on which `commonType` is a well-behaved upper bound
    (`InferFam`; `C04_ptype` is the instance `G = Ty.Fam` without type values) -/
theorem C04_ptype_of_family (cfg : Cfg) (sfh : Bool) (hl : ∀ s, (cfg.lower s).length = s.length) (G TV : Ty → Prop)
    (U : InferFam cfg sfh G TV) (v : Val) (ok : v.OK) (tv : Val.TyOKS cfg sfh v) (at' : Val.AllTyp TV v) :
    inst cfg sfh (ptype cfg sfh v) v = true :=
  (ptype_inst cfg sfh hl G TV U v.w v (Nat.le_refl _) ok tv at').1

def idCfg4' : Cfg := { rxMatch := fun _ _ => false, lower := id }

/-! ### the first three laws for values that HOLD TYPE VALUES (extension round: C01 lifted to `Type[T]` for every `T` of `Ty.TA`) -/
/-- FIRST LAW WITH TYPE VALUES, unconditional and unbounded, both settings of the rule: every value — arbitrarily nested heterogeneous
    arrays and hashes, Sensitive, objects, scalars AND types used as values at any depth — is an instance of its inferred type, provided
    every type value inside is a well-formed type without Unit (and without Struct under the code's setting of the rule): `Val.TyOKS`, the
    side condition of C01.  `PType()` of a type value `T` is `Type[T]`, and `commonType(Type[x], Type[y]) = Type[commonType(x, y)]` recurses
    into arbitrary types, where it is an upper bound by `C04_common_partial`; the fold invariant is carried by the lifted C01.
    Assumes `strings.ToLower` idempotent and character-wise (as `C04_common_partial`). -/
theorem C04_ptype_typ (cfg : Cfg) (sfh : Bool) (hl : ∀ s, (cfg.lower s).length = s.length)
    (hidem : ∀ s, cfg.lower (cfg.lower s) = cfg.lower s) (v : Val) (ok : v.OK) (tv : Val.TyOKS cfg sfh v) :
    inst cfg sfh (ptype cfg sfh v) v = true :=
  (ptype_famT cfg sfh hl hidem v ok tv).1

/-- `commonType` on the family of inferred types WITH `Type[T]` (`Ty.FamT`): stays in the family, accepts both arguments -/
theorem C04_common_famT (cfg : Cfg) (sfh : Bool) (hl : ∀ s, (cfg.lower s).length = s.length)
    (hidem : ∀ s, cfg.lower (cfg.lower s) = cfg.lower s) (a b : Ty) (ha : a.FamT cfg sfh) (hb : b.FamT cfg sfh) :
    (commonType cfg sfh a b).FamT cfg sfh ∧ asg cfg sfh (commonType cfg sfh a b) a = true ∧
    asg cfg sfh (commonType cfg sfh a b) b = true :=
  common_famT cfg sfh hl hidem _ a b ha hb

/-- SECOND LAW WITH TYPE VALUES: as `C04_dtype`, type values allowed anywhere -/
theorem C04_dtype_typ (cfg : Cfg) (sfh : Bool) (hl : ∀ s, (cfg.lower s).length = s.length)
    (hidem : ∀ s, cfg.lower (cfg.lower s) = cfg.lower s) (v : Val) (ok : v.OK) (tv : Val.TyOKS cfg sfh v) (ne : Val.NoEmptyKey v) :
    inst cfg sfh (dtype cfg sfh v) v = true :=
  dtype_structy cfg sfh v.w v (Nat.le_refl _) (dtype_famT cfg sfh hl hidem v.w v (Nat.le_refl _) ok tv ne)

/-- THIRD LAW WITH TYPE VALUES (rule off): whatever fragment type accepts the detailed type of the value contains the value -/
theorem C04_accepts_sound_typ (cfg : Cfg) (hl : ∀ s, (cfg.lower s).length = s.length)
    (hidem : ∀ s, cfg.lower (cfg.lower s) = cfg.lower s) (t : Ty) (v : Val)
    (ft : t.Frag false) (wt : Ty.WF cfg t) (ok : v.OK) (tv : Val.TyOKS cfg false v) (ne : Val.NoEmptyKey v)
    (h : asg cfg false t (dtype cfg false v) = true) : inst cfg false t v = true :=
  have g := dtype_goodT cfg hl hidem v.w v (Nat.le_refl _) ok tv ne
  sound_all cfg false hl _ t _ v (Nat.le_refl _) ⟨ft, g.1, wt, g.2.1, g.2.2, ok, tv⟩ h (C04_dtype_typ cfg false hl hidem v ok tv ne)

/-- non-vacuity: `[Struct[{a => Integer[0,9]}], Array[String,1,2], 7]` (two type values and an integer) — the side conditions hold,
    and the inferred type is `Array[Variant-free common type …]`; the fold passes through `commonType(Type[Struct..], Type[Array..])` -/
example : Val.TyOKS idCfg4' false (.array [.typ (.struct [("a", false, .int ⟨0, 9⟩)]), .typ (.array .str ⟨1, 2⟩), .int 7]) ∧
    (Val.array [.typ (.struct [("a", false, .int ⟨0, 9⟩)]), .typ (.array .str ⟨1, 2⟩), .int 7]).OK := by
  constructor
  · exact Val.TyOKS.array _ (by simp [I64.max]) (by
      intro x hx; simp at hx
      rcases hx with rfl | rfl | rfl
      · exact Val.TyOKS.typ _ (by simp [Ty.TA]) (by simp [Ty.WF])
      · exact Val.TyOKS.typ _ (by simp [Ty.TA]) (by simp [Ty.WF])
      · constructor)
  · exact Val.OK.array _ (by intro x hx; simp at hx; rcases hx with rfl | rfl | rfl <;> constructor)

/-- sixth law: the generalisation (`px.Generalize`) and the generic type (`px.GenericType`) of a type accept that type — for every
    well-formed type without Variant and without Data/RichData nested inside, whose ranges are what the constructors allow (int64
    bounds, sizes ≥ 0) and whose Float bounds are doubles, the infinities included (`C04_generalize_float_inf_repaired`) -/
theorem C04_generalize_partial (cfg : Cfg) (sfh : Bool) (t : Ty) (wt : Ty.WF cfg t) (nt : t.NoAlias) (gt : t.GenOK) :
    asg cfg sfh (generalize t) t = true ∧ asg cfg sfh (genericType t) t = true :=
  gen_asg cfg sfh t.w t (Nat.le_refl _) wt nt gt

/-- FIFTH LAW on the stage-4 fragment of transitivity (corollary of C03 stage 4): the common type accepts both arguments — and is again
    well-formed and inside the fragment — for ALL well-formed types without Unit (`Ty.TA sfh`; under the code's setting `sfh = true` also
    without Struct), every structural merge of `commonality.go` included: Enum ∪ Enum / String literal (case-insensitive Enums too),
    String sizes, Pattern ∪ Pattern, Integer / Float hulls, Array, TUPLE (the element fold of `CommonElementType`: the accumulator
    accepts the earlier element types only by transitivity), VARIANT (`UniqueTypes` keeps one of two `Equals` members, which accepts the
    other), Type, Iterable, NotUndef, and the Numeric … Any tail.  `hidem`: `strings.ToLower` is idempotent (the merged case-insensitive
    Enum stores lower-cased values). -/
theorem C04_common_partial (cfg : Cfg) (sfh : Bool) (hl : ∀ s, (cfg.lower s).length = s.length)
    (hidem : ∀ s, cfg.lower (cfg.lower s) = cfg.lower s) (a b : Ty)
    (wa : Ty.WF cfg a) (wb : Ty.WF cfg b) (fa : a.TA sfh) (fb : b.TA sfh) :
    asg cfg sfh (commonType cfg sfh a b) a = true ∧ asg cfg sfh (commonType cfg sfh a b) b = true ∧
    Ty.WF cfg (commonType cfg sfh a b) ∧ (commonType cfg sfh a b).TA sfh := by
  obtain ⟨g, u1, u2⟩ := common_all cfg sfh hl hidem (a.w + b.w + 2) a b ⟨wa, fa⟩ ⟨wb, fb⟩
  exact ⟨u1, u2, g.1, g.2⟩

/-- non-vacuity: two Tuples whose merge folds over three element types, and two Variants sharing a member -/
example (cfg : Cfg) :
    (Ty.tuple [.int ⟨0, 5⟩, .strVal "a"] none).TA true ∧ (Ty.tuple [.float 0 1] none).TA true ∧
    (Ty.variant [.int ⟨0, 5⟩, .str]).TA true ∧ Ty.WF cfg (.variant [.int ⟨0, 5⟩, .float 0 1]) ∧
    commonType cfg true (.variant [.int ⟨0, 5⟩, .str]) (.variant [.int ⟨0, 5⟩, .float 0 1]) =
      .variant [.int ⟨0, 5⟩, .str, .float 0 1] := by
  refine ⟨by simp [Ty.TA, I64.max], by simp [Ty.TA, I64.max], by simp [Ty.TA], by simp [Ty.WF], ?_⟩
  simp [commonType, commonF, Ty.w, Ty.wl, Ty.isUnit, asg, asgRecv, asgAllR, asgAnyL, sameNullary, isStringFamily, uniqueTy, uniqueTyAux,
    mkVariant, tyEq, Rng.sub]

/-- sixth law WITH VARIANT (corollary of C03 stage 4): `Generic()` of a Variant generalises the members and removes those that became
    `Equals` to an earlier one (`UniqueTypes`); the kept member accepts the removed one's generalisation (equal types accept each other)
    and that accepts the original member, hence the kept one does, by TRANSITIVITY.  For every well-formed type of the stage-4 fragment
    of transitivity `Ty.TA sfh` (no Unit; with the code's setting `sfh = true` no Struct; Data / RichData allowed anywhere),
    ranges as the constructors allow (`Ty.GenOKV` = `Ty.GenOK` with Variant allowed, any nesting). -/
theorem C04_generalize_variant_partial (cfg : Cfg) (sfh : Bool) (hl : ∀ s, (cfg.lower s).length = s.length) (t : Ty)
    (wt : Ty.WF cfg t) (ft : t.TA sfh) (gt : t.GenOKV) :
    asg cfg sfh (generalize t) t = true ∧ asg cfg sfh (genericType t) t = true :=
  gen_asg_var cfg sfh hl t.w t (Nat.le_refl _) ⟨wt, ft⟩ gt

/-- non-vacuity: Variant[Integer[0,5], Integer[7,9], Array[String[1,1],0,3]] generalises to Variant[Integer, Array[String]] (the second
    Integer is removed as `Equals` to the first) -/
example (cfg : Cfg) :
    Ty.WF cfg (.variant [.int ⟨0, 5⟩, .int ⟨7, 9⟩, .array (.strSz ⟨1, 1⟩) ⟨0, 3⟩]) ∧
    (Ty.variant [.int ⟨0, 5⟩, .int ⟨7, 9⟩, .array (.strSz ⟨1, 1⟩) ⟨0, 3⟩]).TA true ∧
    (Ty.variant [.int ⟨0, 5⟩, .int ⟨7, 9⟩, .array (.strSz ⟨1, 1⟩) ⟨0, 3⟩]).GenOKV ∧
    generalize (.variant [.int ⟨0, 5⟩, .int ⟨7, 9⟩, .array (.strSz ⟨1, 1⟩) ⟨0, 3⟩]) = .variant [.int Rng.all, .array .str Rng.pos] := by
  refine ⟨by simp [Ty.WF], by simp [Ty.TA], ?_, ?_⟩
  · simp [Ty.GenOKV, Rng.inI64, Rng.isSize, I64.min, I64.max]
  · simp [generalize, generalizeL, uniqueTy, uniqueTyAux, mkVariant, tyEq, Ty.isAny, Rng.all, Rng.pos]

/-- third law, from C01: what accepts the detailed type contains the value (rule off, fragment of `C01_sound_partial`) -/
theorem C04_accepts_sound_partial (cfg : Cfg) (hl : ∀ s, (cfg.lower s).length = s.length) (t : Ty) (v : Val)
    (ft : t.Frag false) (fd : (dtype cfg false v).Frag false) (wt : Ty.WF cfg t) (wd : Ty.WF cfg (dtype cfg false v))
    (us : (dtype cfg false v).US) (ok : v.OK) (tv : Val.TyOKS cfg false v)
    (hd : inst cfg false (dtype cfg false v) v = true)
    (h : asg cfg false t (dtype cfg false v) = true) : inst cfg false t v = true :=
  sound_all cfg false hl _ t _ v (Nat.le_refl _) ⟨ft, fd, wt, wd, us, ok, tv⟩ h hd

/-- THIRD LAW without hypotheses on the detailed type (rule off): for a value without type values and without empty-string keys,
    whatever fragment type accepts its detailed type contains the value -/
theorem C04_accepts_sound (cfg : Cfg) (hl : ∀ s, (cfg.lower s).length = s.length) (t : Ty) (v : Val)
    (ft : t.Frag false) (wt : Ty.WF cfg t) (ok : v.OK) (tv : Val.TyOKS cfg false v)
    (nt : Val.AllTyp (fun _ => False) v) (ne : Val.NoEmptyKey v)
    (h : asg cfg false t (dtype cfg false v) = true) : inst cfg false t v = true :=
  have g := dtype_good cfg hl v.w v (Nat.le_refl _) ok tv nt ne
  C04_accepts_sound_partial cfg hl t v ft g.1 wt g.2.1 g.2.2 ok tv (C04_dtype cfg false hl v ok tv nt ne) h

/-! ### commonType: the branches that are bounds by themselves -/
theorem C04_common_unit (cfg : Cfg) (sfh : Bool) (n : Nat) (b : Ty) : commonF cfg sfh (n + 1) .unit b = b := by
  simp [commonF, Ty.isUnit]

theorem C04_common_accepts_left (cfg : Cfg) (sfh : Bool) (n : Nat) (a b : Ty) (ha : asg cfg sfh a a = true)
    (hau : a ≠ .unit) (hbu : b ≠ .unit) (h : asg cfg sfh a b = true) :
    asg cfg sfh (commonF cfg sfh (n + 1) a b) a = true ∧ asg cfg sfh (commonF cfg sfh (n + 1) a b) b = true := by
  have h1 : a.isUnit = false := by cases a <;> simp [Ty.isUnit]; exact absurd rfl hau
  have h2 : b.isUnit = false := by cases b <;> simp [Ty.isUnit]; exact absurd rfl hbu
  simp only [commonF, h1, h2, h, Bool.false_eq_true, if_false, if_true]
  simp [ha]

theorem C04_common_tail (cfg : Cfg) (sfh : Bool) (a b : Ty) :
    asg cfg sfh (commonTail cfg sfh a b) a = true ∧ asg cfg sfh (commonTail cfg sfh a b) b = true := by
  unfold commonTail
  split
  · rename_i h; simpa using h
  · split
    · rename_i h; simpa using h
    · split
      · rename_i h; simpa using h
      · split
        · rename_i h; simpa using h
        · split
          · rename_i h; simpa using h
          · exact ⟨asg_any_l cfg sfh a, asg_any_l cfg sfh b⟩

/-! ### the laws that are false of the code (known findings), with witnesses -/
def idCfg4 : Cfg := { rxMatch := fun _ _ => false, lower := id }

/-- the former witness of finding C04-float-infinity (the default Float was bounded by ±MaxFloat64 and rejected Float[-Inf, Inf]; /repo
    fix "an unbounded Float includes the infinities"): the generalisation of every Float type whose bounds are doubles accepts it -/
theorem C04_generalize_float_inf_repaired (cfg : Cfg) (sfh : Bool) :
    asg cfg sfh (generalize (.float (-Fl.inf) Fl.inf)) (.float (-Fl.inf) Fl.inf) = true ∧
    asg cfg sfh (generalize (.float Fl.inf Fl.inf)) (.float Fl.inf Fl.inf) = true ∧
    inst cfg sfh floatAll (.float Fl.inf) = true ∧ inst cfg sfh floatAll (.float (-Fl.inf)) = true := by
  have inf0 : -Fl.inf ≤ Fl.inf := by
    have h1 := Fl.maxFinite_le_inf
    have h2 : (0 : Int) ≤ Fl.maxFinite := by decide +kernel
    omega
  refine ⟨(C04_generalize_partial cfg sfh _ (by simp [Ty.WF]) (by simp [Ty.NoAlias]) (by simp [Ty.GenOK])).1,
          (C04_generalize_partial cfg sfh _ (by simp [Ty.WF]) (by simp [Ty.NoAlias]) (by simp [Ty.GenOK]; exact inf0)).1, ?_, ?_⟩
  · unfold floatAll inst; simp only [Bool.and_eq_true, decide_eq_true_eq]
    rw [Fl.effLo_default, Fl.effHi_default]; exact ⟨inf0, Int.le_refl _⟩
  · unfold floatAll inst; simp only [Bool.and_eq_true, decide_eq_true_eq]
    rw [Fl.effLo_default, Fl.effHi_default]; exact ⟨Int.le_refl _, inf0⟩

/-- the former witness of finding C04-incomplete-scalar-timespan (Scalar, and through it RichData, had Timespan values as instances
    but rejected the Timespan types; /repo fix "Scalar accepts the types of all the values it admits"): Scalar and RichData accept
    the detailed type of every Timespan value -/
theorem C04_scalar_timespan_repaired (cfg : Cfg) (sfh : Bool) (n : Int) (h1 : I64.min ≤ n) (h2 : n ≤ I64.max) :
    inst cfg sfh .scalar (.tspan n) = true ∧ asg cfg sfh .scalar (dtype cfg sfh (.tspan n)) = true ∧
    asg cfg sfh .richData (dtype cfg sfh (.tspan n)) = true := by
  have hs : asg cfg sfh (.tspan Rng.all) (.tspan ⟨n, n⟩) = true := by
    simp [asg, asgRecv, sameNullary, Ty.isAny, Rng.sub, Rng.all]; exact ⟨h1, h2⟩
  have hsc : asg cfg sfh .scalar (.tspan ⟨n, n⟩) = true := by
    rw [asg_plain_r cfg sfh _ _ rfl]; simp [Ty.isAny, sameNullary, asgRecv, hs]
  refine ⟨by simp [inst, isScalarVal], by simpa [dtype, ptype] using hsc, ?_⟩
  simp only [dtype, ptype]
  rw [asg_plain_r cfg sfh _ _ rfl]; simp [Ty.isAny, sameNullary, asgRecv, hsc]

/-! ### Timestamp (extension round: Timestamp[min,max] inside the model, instants counted in nanoseconds since 0001-01-01T00:00:00Z) -/
/-- Scalar, and RichData through it, accept the detailed type of every Timestamp value inside the default Timestamp type (from year 1 on) -/
theorem C04_scalar_timestamp (cfg : Cfg) (sfh : Bool) (n : Int) (h1 : tstampAll.lo ≤ n) (h2 : n ≤ tstampAll.hi) :
    inst cfg sfh .scalar (.tstamp n) = true ∧ asg cfg sfh .scalar (dtype cfg sfh (.tstamp n)) = true ∧
    asg cfg sfh .richData (dtype cfg sfh (.tstamp n)) = true := by
  have hs : asg cfg sfh (.tstamp tstampAll) (.tstamp ⟨n, n⟩) = true := by
    simp [asg, asgRecv, sameNullary, Ty.isAny, Rng.sub]; exact ⟨h1, h2⟩
  have hsc : asg cfg sfh .scalar (.tstamp ⟨n, n⟩) = true := by
    rw [asg_plain_r cfg sfh _ _ rfl]; simp [Ty.isAny, sameNullary, asgRecv, hs]
  refine ⟨by simp [inst, isScalarVal], by simpa [dtype, ptype] using hsc, ?_⟩
  simp only [dtype, ptype]
  rw [asg_plain_r cfg sfh _ _ rfl]; simp [Ty.isAny, sameNullary, asgRecv, hsc]

/-- OBSERVATION (defect candidate, work/defect-C04-timestamp-before-year1.md; model and implementation agree): an instant BEFORE year 1 is a
    Timestamp value (`time.Time` holds it, the text format parses it) that Scalar admits as an instance while rejecting its detailed type —
    the default Timestamp type starts at `MinTime` = year 1 — so the fourth law fails there.  The generators keep to the years 0001..9999. -/
theorem C04_accepts_complete_fails_timestamp_before_year1 :
    inst idCfg4 true .scalar (.tstamp (-5000000000)) = true ∧
    asg idCfg4 true .scalar (dtype idCfg4 true (.tstamp (-5000000000))) = false ∧
    inst idCfg4 true (.tstamp tstampAll) (.tstamp (-5000000000)) = false := by
  refine ⟨by simp [inst, isScalarVal], ?_, ?_⟩
  · simp [dtype, ptype, asg, asgRecv, sameNullary, isStringFamily, Rng.sub, tstampAll]
  · simp [inst, Rng.contains, tstampAll]

theorem C04_accepts_complete_fails_object :
    inst idCfg4 true (.object none) (.typ .str) = true ∧ asg idCfg4 true (.object none) (dtype idCfg4 true (.typ .str)) = false := by
  constructor
  · simp [inst]
  · simp [dtype, ptype, asg, asgRecv, sameNullary]

/-! non-vacuity -/
example : Val.AllTyp (fun _ => False) (.array [.int 1, .hash [(.int 2, .str "a")], .array []]) := by
  refine Val.AllTyp.array _ ?_
  intro x hx; simp at hx
  rcases hx with rfl | rfl | rfl
  · constructor
  · refine Val.AllTyp.hash _ ?_ ?_ <;> (intro e he; simp at he; subst he; constructor)
  · exact Val.AllTyp.array _ (by intro x hx; cases hx)
example : (Ty.struct [("a", true, .array (.strVal "x") ⟨1, 2⟩)]).GenOK := by simp [Ty.GenOK, Rng.isSize, I64.max]
example : Val.Leafy idCfg4 (.sensitive (.typ (.array (.int ⟨0, 5⟩) ⟨1, 2⟩))) := by
  simp [Val.Leafy, Ty.WF]
example : Val.Structy idCfg4 true (.array [.int 1, .hash [(.str "a", .array [.str "x", .undef]), (.str "b", .undef)]]) := by
  refine Val.Structy.array _ ?_
  intro x hx; simp at hx
  rcases hx with rfl | rfl
  · exact Val.Structy.leaf _ trivial
  · refine Val.Structy.hash _ ?_ ?_ ?_
    · intro n; simp [List.countP_cons, keyIs, keyIsStr]; split <;> split <;> (first | omega | (subst_vars; simp_all))
    · intro e he; simp at he; rcases he with rfl | rfl <;> simp
    · intro e he; simp at he
      rcases he with rfl | rfl
      · refine Val.Structy.array _ ?_
        intro y hy; simp at hy; rcases hy with rfl | rfl <;> exact Val.Structy.leaf _ trivial
      · exact Val.Structy.leaf _ trivial


/-! ### known finding C04-dtype-emptykey-sfh: the SECOND law is false of the code on the class `C04_dtype` excludes.
    The detailed type of a hash keyed by strings only with the empty string among them is `Hash[Enum[keys], fold commonType over the
    detailed types of the values]`; `commonType` returns the argument that accepts the other one, and a Struct whose members are all
    optional accepts ANY Hash type of fitting size through the exempt Struct-from-Hash rule — so the fold answers a Struct that the
    other hash is not an instance of.  Witness (found by the thorough tier on the implementation):
    `{'B' => {'' => 0}, '' => {'ab' => undef}}`, detailed type `Hash[Enum['B',''], Struct[{Optional['ab'] => Undef}], 2, 2]`. -/
set_option maxRecDepth 8000
def ek_wv : Val := .hash [(.str "B", .hash [(.str "", .int 0)]), (.str "", .hash [(.str "ab", .undef)])]
theorem ek_uu : asg idCfg4 true .undef .undef = true := by simp [asg, asgRecv, sameNullary]
theorem ek_d1 : dtype idCfg4 true (.hash [(.str "", .int 0)]) = .hash (.strVal "") (.int ⟨0,0⟩) ⟨1,1⟩ := by
  simp [dtype, dtypeFoldK, dtypeFoldV, dtypeM, keyIsStr, ptype, isStrKey, isEmptyStrKey, keyName, Rng.exact]
theorem ek_d2 : dtype idCfg4 true (.hash [(.str "ab", .undef)]) = .struct [("ab", true, .undef)] := by
  simp [dtype, dtypeFoldK, dtypeFoldV, dtypeM, keyIsStr, ptype, isStrKey, isEmptyStrKey, keyName, Rng.exact, ek_uu]
theorem ek_c1 : commonType idCfg4 true (Ty.strVal "B") (Ty.strVal "") = Ty.enum ["B", ""] false := by
  simp [commonType, commonF, Ty.isUnit, Ty.w, asg, asgRecv, sameNullary, isStringFamily]
theorem ek_a1 : asg idCfg4 true (Ty.struct [("ab", true, Ty.undef)]) ((Ty.strVal "").hash (Ty.int ⟨0,0⟩) ⟨1,1⟩) = true := by
  simp [asg, asgRecv, sameNullary, structReq, structSize, Rng.sub]
theorem ek_a2 : asg idCfg4 true ((Ty.strVal "").hash (Ty.int ⟨0,0⟩) ⟨1,1⟩) (Ty.struct [("ab", true, Ty.undef)]) = false := by
  simp [asg, asgRecv, sameNullary, structReq, structSize, Rng.sub]
theorem ek_c2 : commonType idCfg4 true ((Ty.strVal "").hash (Ty.int ⟨0,0⟩) ⟨1,1⟩) (Ty.struct [("ab", true, Ty.undef)]) = Ty.struct [("ab", true, Ty.undef)] := by
  simp [commonType, commonF, Ty.isUnit, Ty.w, Ty.wm, ek_a1, ek_a2]
theorem ek_d3 : dtype idCfg4 true ek_wv = .hash (.enum ["B", ""] false) (.struct [("ab", true, .undef)]) ⟨2,2⟩ := by
  simp [ek_wv, dtype, dtypeFoldK, dtypeFoldV, dtypeM, keyIsStr, ptype, isStrKey, isEmptyStrKey, keyName, Rng.exact, ek_uu, ek_c1, ek_c2]
theorem ek_i3 : inst idCfg4 true (.hash (.enum ["B", ""] false) (.struct [("ab", true, .undef)]) ⟨2,2⟩) ek_wv = false := by
  simp [ek_wv, inst, instEntries, instStruct, hashGetW, keyIsStr, Rng.contains, distinctCount]
theorem ek_wvOK : ek_wv.OK := by
  unfold ek_wv
  refine Val.OK.hash _ ?_ ?_ ?_
  · intro n; simp [List.countP_cons, keyIs, keyIsStr]; split <;> split <;> (first | omega | (subst_vars; simp_all))
  · intro e he; simp at he; rcases he with rfl | rfl <;> exact Val.OK.str _
  · intro e he; simp at he
    rcases he with rfl | rfl
    · refine Val.OK.hash _ ?_ ?_ ?_
      · intro n; simp [List.countP_cons, keyIs, keyIsStr]; split <;> omega
      · intro e he; simp at he; subst he; exact Val.OK.str _
      · intro e he; simp at he; subst he; exact Val.OK.int _
    · refine Val.OK.hash _ ?_ ?_ ?_
      · intro n; simp [List.countP_cons, keyIs, keyIsStr]; split <;> omega
      · intro e he; simp at he; subst he; exact Val.OK.str _
      · intro e he; simp at he; subst he; exact Val.OK.undef
theorem C04_dtype_full_fails_emptykey : ¬ C04_dtype_full := by
  intro h
  have := h idCfg4 ek_wv ek_wvOK
  rw [ek_d3, ek_i3] at this
  exact absurd this (by decide)

/-! ### C04-common-iterable (REPAIRED in /repo: Iterable rules for Struct, Enum, Pattern): the former witness
    `commonType(Tuple[Hash[Any,Regexp[/b/],0,0], Struct[{}], 0, 2], Tuple[Iterable[Timespan[1,5]]])` is now a bound -/
theorem C04_common_iterable_repaired :
    asg idCfg4 true (.iterable (.tspan ⟨1, 5⟩)) (.struct []) = true := by
  simp [asg, asgRecv, sameNullary, iterMembers]

/-! ### known finding C04-common-unit (the exclusion of C01 / C03 seen through commonType): Unit is two-way assignable by definition,
    so a type that holds Unit (here a Variant with a Unit member) accepts every type and is accepted by every type; `commonType` returns
    the argument that accepts the other one, and the element fold of two Tuples passes through such a member to a type that rejects a
    declared element: `commonType(Tuple[Integer[0,7], Timespan[1,2]], Tuple[Variant[Pattern, Unit], Undef]) = Array[Scalar, 2, 2]`, which
    rejects the second Tuple (Undef is not a Scalar).  Found by the thorough tier on the implementation; `C04_common_partial` excludes
    exactly Unit (`Ty.TA`).  The statement of C04 has no exclusion for Unit, so the full fifth law is REFUTED of the code. -/
def cu_a : Ty := .tuple [.int ⟨0, 7⟩, .tspan ⟨1, 2⟩] none
def cu_b : Ty := .tuple [.variant [.pattern [], .unit], .undef] none
theorem cu_1 (n : Nat) : commonF idCfg4 true (n+1) (.int ⟨0, 7⟩) (.tspan ⟨1, 2⟩) = .scalar := by
  simp [commonF, commonTail, Ty.isUnit, asg, asgRecv, sameNullary, isStringFamily, Rng.sub, Rng.all, floatAll, I64.min, I64.max]
theorem cu_2 (n : Nat) : commonF idCfg4 true (n+1) (.variant [.pattern [], .unit]) .undef = .variant [.pattern [], .unit] := by
  simp [commonF, Ty.isUnit, asg, asgRecv, asgAnyL, asgAllR, sameNullary, isStringFamily]
theorem cu_3 (n : Nat) : commonF idCfg4 true (n+1) .scalar (.variant [.pattern [], .unit]) = .scalar := by
  simp [commonF, Ty.isUnit, asg, asgRecv, asgAnyL, asgAllR, sameNullary, isStringFamily]
theorem cu_c : commonType idCfg4 true cu_a cu_b = .array .scalar ⟨2, 2⟩ := by
  simp [commonType, cu_a, cu_b, Ty.w, Ty.wl]
  rw [commonF]
  simp [Ty.isUnit, asg, asgRecv, asgAnyL, asgAllR, sameNullary, isStringFamily, tupleSize, tupZip, Rng.sub, Rng.exact, foldCet, cu_1, cu_2,
    cu_3, Rng.hull]
theorem cu_r : asg idCfg4 true (.array .scalar ⟨2, 2⟩) cu_b = false := by
  simp [cu_b, asg, asgRecv, asgAnyL, asgAllR, sameNullary, isStringFamily, tupleSize, tupZip, Rng.sub, Rng.exact]
theorem C04_common_full_fails_unit : ¬ C04_common_full := by
  intro h
  have := (h idCfg4 cu_a cu_b (by simp [cu_a, Ty.WF]) (by simp [cu_b, Ty.WF])).2
  rw [cu_c, cu_r] at this
  exact absurd this (by decide)

end Pcore.Lat
