import Pcore.Proofs.TlsDefs
/-!
# C14 — Contexts are confined to their goroutine and dynamic scope

Property (properties.jsonl): the current context observed inside Do, DoWithContext, Fork and Go is always the one
established for that goroutine and nesting level, it is restored when the body returns or panics, and it is never
observed from another goroutine.  Definitions, loader changes, stack frames and variables made in a forked context are
invisible to its parent and siblings while the parent's are visible to the child, and goroutine-local storage is released
when a forked goroutine ends.  Quantifier: all nestings of Do/DoWithContext/DoWithLoader/Fork/Go with and without
panics, executed by many goroutines under arbitrary scheduling.

Model: `Pcore/Model/Tls.lean` (`exec .now` = the code of /repo as it is now).  All theorems are for EVERY program,
EVERY scheduling oracle and EVERY fuel (induction on the fuel in `Proofs/TlsExec.lean: exec_step`); nothing is decided
over a sample.  `Pre g c w` = goroutine `g` runs a body that was handed `c`, `c` is its current context, `w` is
well-formed (`Inv`).

Full statement / proved / missing
* `C14_current`, `C14_current_exec` — every `px.CurrentContext()` anywhere in an execution (any goroutine, any nesting
  level of Do/DoWithContext/DoWithLoader/Fork/Go, before or after inner scopes returned or panicked, whatever ran in
  between) is the context handed to the innermost enclosing body.                                        **proved**
* `C14_restore`, `C14_restore_do`, `C14_restore_try`, `C14_restore_loader` — the goroutine-local tables after ANY program are exactly the
  tables before it (function equality), for the outcomes normal, panicked and out-of-fuel alike; `DoWithLoader` puts the
  loader back.                                                                                              **proved**
* `C14_confined` — a context that a goroutine observes as current was made current for that goroutine and for no other
  (ghost `World.estab`: written at the two places where a context is installed — DoWithContext entry and the start of a
  Fork goroutine).                                                                                          **proved**
* `C14_fork_view` — the forked goroutine's context holds the parent's variables and stack as they are at the `Fork`
  call and a fresh loader whose parent chain is the parent's.                                               **proved**
  `C14_fork_isolated_partial` — while anybody runs (any program, any goroutine, any number of other goroutines run to
  completion in between), every context object that existed before, other than the running body's own and those of
  goroutines that ran, is unchanged: so a child's `Set/StackPush/DoWithLoader` never reach its parent or a sibling, and a
  waiting child still has the view of the `Fork` call whenever it starts.                                   **proved**
  `C14_fork_isolated_defs`, `C14_child_defs_invisible`, `C14_loads_unaffected` — the same for loader entries
  (definitions): only the running body's own defining loader, the defining loaders of goroutines that were waiting, and
  fresh loaders are written; a `Load` through a chain of untouched loaders answers as before.               **proved**
  `C14_fork_isolated` = `C14_fork_isolated_full` (context objects ∧ loader entries).                        **proved**
  Not proved as an invariant (only used as a hypothesis of `C14_loads_unaffected`, exercised by correspondence): that no
  loader on a suspended parent's chain is the defining loader of a waiting goroutine — true because `Fork` allocates that
  loader fresh (`C14_fork_view`).
* `C14_released`, `C14_released_goroutine` — after the op (Do on a fresh goroutine, every forked goroutine joined) no
  goroutine-local table is left; a forked goroutine's table is gone when it ends.                           **proved**
* witnesses on `Ver.before` (the original code): context left set and table never released after `Do`; a nested `Do`
  replaces the caller's current context; `Fork` copies the parent's variables when the child starts.
* missing / trusted (DESIGN §5): that `getg()` yields a unique stable id per goroutine (the model hands out fresh ids);
  Go's scheduler and memory model — the interleavings covered are the nested ones (a goroutine is suspended at a leaf
  operation while another runs from start to end), which is what the harness realises with gates; free-running
  goroutines are exercised on the implementation only (`@free`).
-/
namespace Pcore.Tls

/-! ## current -/

/-- local form: started in a good state, any execution only ever logs observations `cur = the body's own context` -/
theorem C14_current_exec (f : Nat) (p : Prog) (g c : Nat) (w : World) (h : Pre g c w) (hl : LogOK w) :
    LogOK (exec .now f p g c w).2 :=
  (exec_step f p g c w h).1.logOK hl

/-- the whole op: every observation by every goroutine at every nesting level returns the context handed to the body -/
theorem C14_current (sched : List Nat) (p : Prog) (g : Gid) (cur : Option CtxId) (lex : CtxId) (tag : Option Nat)
    (st : List Nat) (h : (g, Ev.obs cur lex tag st) ∈ (run .now sched p).log) : cur = some lex := by
  have hl : LogOK (run .now sched p) := (run_step sched p).1.logOK (fun _ h => by simp at h)
  exact (hl _ h).1

/-- non-vacuity: three nesting levels on the root goroutine, one forked goroutine with a nested scope that panics, run
    while the parent is inside a nested `Do`; afterwards the parent observes its own contexts again (5, then 3) -/
def sampleNest : Prog :=
  .seq .obs (.seq (.fork (.seq .obs (.doctx 2 (.seq .obs .panic))))
    (.doctx 1 (.seq .obs (.seq (.recover (.dodo 3 (.seq .obs .panic))) .obs))))

example : ((run .now [0, 0, 1] sampleNest).log.filterMap fun ge =>
    match ge.2 with | .obs cur lex _ _ => some (ge.1, cur, lex) | _ => none) =
    [(0, some 1, 1), (0, some 3, 3), (1, some 2, 2), (1, some 6, 6), (0, some 5, 5), (0, some 3, 3)] := by decide

/-! ## restore -/

/-- whatever the program and however it ends (normally, by panic, out of fuel), the goroutine-local tables of ALL
    goroutines are afterwards what they were before -/
theorem C14_restore (f : Nat) (p : Prog) (g c : Nat) (w : World) (h : Pre g c w) :
    (exec .now f p g c w).2.tls = w.tls :=
  (exec_step f p g c w h).2

/-- in particular for `DoWithContext` -/
theorem C14_restore_doctx (f : Nat) (id : Nat) (p : Prog) (g c : Nat) (w : World) (h : Pre g c w) :
    tlGet g ctxKey (exec .now f (.doctx id p) g c w).2 = some c := by
  have := C14_restore f (.doctx id p) g c w h
  simp only [tlGet, this]; exact h.cur

/-- `pcore.Do` called by a goroutine with or without a current context -/
theorem C14_restore_do (f : Nat) (id : Nat) (p : Prog) (g c : Nat) (w : World) (hi : Inv w) (hg : g < w.nextGid)
    (hp : g ∉ pendGids w) : (exec .now f (.dodo id p) g c w).2.tls = w.tls :=
  (exec_dodo_step hi hg hp).2

/-- `pcore.Try` likewise (the body's panic is turned into the returned error after the inner scope was left) -/
theorem C14_restore_try (f : Nat) (id : Nat) (p : Prog) (g c : Nat) (w : World) (hi : Inv w) (hg : g < w.nextGid)
    (hp : g ∉ pendGids w) : (exec .now f (.dotry id p) g c w).2.tls = w.tls :=
  (exec_dotry_step hi hg hp).2

/-- `DoWithLoader` puts the context's loader back, also when the body panics -/
theorem C14_restore_loader (f : Nat) (p : Prog) (g c : Nat) (w : World) :
    ((exec .now (f + 1) (.doloader p) g c w).2.ctxs c).loader = (w.ctxs c).loader := by
  simp [exec, ctxUpd]

/-- non-vacuity: a panicking body inside DoWithContext inside Do — outcome `panicked`, tables as before -/
example : (exec .now 9 (.dodo 1 (.doctx 2 (.seq (.set "a" 1) .panic))) 0 0 {}).1 = .panicked := by decide
/-- non-vacuity of `Pre`: the state right after `DoWithContext` installed context 0 on the fresh goroutine 0 -/
example : Pre 0 0 (note 0 0 (tlFresh 0 0 { nextCtx := 1 })) := by
  refine ⟨⟨?_, ?_, ?_, List.nodup_nil, ?_, ?_, ?_, List.nodup_nil, ?_, ?_⟩, by decide, by decide, by decide, by decide⟩
  · intro g hg
    have : g ≠ 0 := by simp [note, tlFresh] at hg; omega
    simp [note, tlFresh, this]
  · intro t h; simp [note, tlFresh] at h
  · intro t h; simp [note, tlFresh] at h
  · intro g t h
    by_cases hg : g = 0
    · subst hg; simp [note, tlFresh] at h; exact ⟨0, by rw [← h]; decide⟩
    · simp [note, tlFresh, hg] at h
  · intro g c h; simp [note, tlFresh] at h; simp [note, tlFresh, h.2]
  · intro t h; simp [note, tlFresh] at h
  · intro t h; simp [note, tlFresh] at h
  · intro g g' c h h'; simp [note, tlFresh] at h h'; rw [h.1, h'.1]

/-! ## confined -/

/-- a context observed as current by goroutine `g` was made current for `g` — and for no other goroutine -/
theorem C14_confined (sched : List Nat) (p : Prog) (g g' : Gid) (c lex : CtxId) (tag : Option Nat) (st : List Nat)
    (h : (g, Ev.obs (some c) lex tag st) ∈ (run .now sched p).log) :
    (g, c) ∈ (run .now sched p).estab ∧ ((g', c) ∈ (run .now sched p).estab → g' = g) := by
  have hs := (run_step sched p).1
  have hl : LogOK (run .now sched p) := hs.logOK (fun _ h => by simp at h)
  obtain ⟨h1, h2⟩ := hl _ h
  have hc : c = lex := by simpa using h1
  subst hc
  exact ⟨h2, fun h3 => hs.inv.estabUniq g' g c h3 h2⟩

/-- non-vacuity: two goroutines, seven contexts, each made current for exactly one goroutine -/
example : (run .now [0, 0, 1] sampleNest).estab = [(0, 0), (0, 1), (0, 3), (0, 4), (0, 5), (1, 2), (1, 6)] := by decide

/-! ## fork isolation -/

/-- `px.Fork(c, p)` (and `px.Go` with the current context): the child's context is a new object holding the parent's
    variables and stack as they are NOW and a fresh loader on top of the parent's chain; the child waits -/
theorem C14_fork_view (c : CtxId) (p : Prog) (w : World) :
    ∃ t, (spawn .now c p w).pending = w.pending ++ [t] ∧ t.gid = w.nextGid ∧ t.ctx = w.nextCtx ∧ t.prog = p ∧
      ((spawn .now c p w).ctxs t.ctx).vars = (w.ctxs c).vars ∧
      ((spawn .now c p w).ctxs t.ctx).stack = (w.ctxs c).stack ∧
      ((spawn .now c p w).ctxs t.ctx).loader = w.nextLoader :: (w.ctxs c).loader ∧
      (spawn .now c p w).defs w.nextLoader = [] :=
  ⟨{ gid := w.nextGid, ctx := w.nextCtx, prog := p }, rfl, rfl, rfl, rfl,
   by simp [spawn_now, forkCtx, newCtx, newLoader], by simp [spawn_now, forkCtx, newCtx, newLoader],
   by simp [spawn_now, forkCtx, newCtx, newLoader], by simp [spawn_now, forkCtx, newCtx, newLoader]⟩

/-- full statement of fork isolation -/
def C14_fork_isolated_full : Prop :=
  ∀ (f : Nat) (p : Prog) (g c : Nat) (w : World), Pre g c w →
    -- context objects (variables, stack, loader field)
    (∀ i, i < w.nextCtx → i ≠ c → (i ∉ pendCtxs w ∨ i ∈ pendCtxs (exec .now f p g c w).2) →
      (exec .now f p g c w).2.ctxs i = w.ctxs i) ∧
    -- loader entries (definitions): only the body's own loader, loaders of goroutines that were waiting, fresh ones
    (∀ l, l < w.nextLoader → some l ≠ (w.ctxs c).loader.head? →
      (∀ t ∈ w.pending, some l ≠ (w.ctxs t.ctx).loader.head?) →
      (exec .now f p g c w).2.defs l = w.defs l)

/-- whoever runs and whatever runs in between: a context object other than the running body's own, and other than those
    of waiting goroutines that have run meanwhile, is untouched.  Instances: the parent's and the siblings' contexts
    while a child runs (`C14_child_invisible`), a waiting child's context while the parent goes on
    (`C14_child_view_stable`). -/
theorem C14_fork_isolated_partial (f : Nat) (p : Prog) (g c : Nat) (w : World) (h : Pre g c w)
    (i : Nat) (hi : i < w.nextCtx) (hic : i ≠ c)
    (hp : i ∉ pendCtxs w ∨ i ∈ pendCtxs (exec .now f p g c w).2) :
    (exec .now f p g c w).2.ctxs i = w.ctxs i :=
  (exec_step f p g c w h).1.frame i hi (by simpa using hic) hp

/-- a goroutine that is still waiting after the step has exactly the context it was given at the `Fork` call -/
theorem C14_child_view_stable (f : Nat) (p : Prog) (g c : Nat) (w : World) (h : Pre g c w) (t : Task)
    (ht : t ∈ w.pending) (ht' : t ∈ (exec .now f p g c w).2.pending) :
    (exec .now f p g c w).2.ctxs t.ctx = w.ctxs t.ctx := by
  apply C14_fork_isolated_partial f p g c w h t.ctx (h.inv.pendCtxLt t ht)
  · intro hc
    exact h.cnp (by rw [← hc]; simp only [pendCtxs, List.mem_map]; exact ⟨t, ht, rfl⟩)
  · right; simp only [pendCtxs, List.mem_map]; exact ⟨t, ht', rfl⟩

/-- a whole goroutine (child) runs, with whatever it starts and whatever else the oracle lets run meanwhile: every
    context that is not its own and not one of another waiting goroutine that ran — the parent's, the suspended
    goroutines', the still waiting siblings' — is untouched, and so are all goroutine-local tables -/
theorem C14_child_invisible (f : Nat) (w : World) (i : Nat) (t : Task) (hinv : Inv w) (ht : w.pending[i]? = some t)
    (j : Nat) (hj : j < w.nextCtx)
    (hp : j ∉ pendCtxs w ∨ j ∈ pendCtxs (runTask .now (exec .now f) t { w with pending := w.pending.eraseIdx i })) :
    (runTask .now (exec .now f) t { w with pending := w.pending.eraseIdx i }).ctxs j = w.ctxs j ∧
    (runTask .now (exec .now f) t { w with pending := w.pending.eraseIdx i }).tls = w.tls :=
  ⟨(runTask_step (exec_step f) hinv ht).1.frame j hj (by simp) hp, (runTask_step (exec_step f) hinv ht).2⟩

/-- non-vacuity / end-to-end: the parent sets a=1, forks a child that reads and overwrites `a`, pushes a frame and defines
    `B`; the parent then sets a=2.  Under EVERY oracle shown the child reads 1, the parent reads 2 and does not see the
    child's frame nor `B`, the child sees the parent's `A`. -/
def sampleFork : Prog :=
  .seq (.set "a" 1) (.seq (.deftype "A") (.seq (.fork (.seq (.get "a") (.seq (.set "a" 5) (.seq (.push 7) (.seq (.deftype "B") (.seq (.load "A") (.load "B")))))))
    (.seq (.set "a" 2) (.seq (.get "a") (.seq .obs (.load "B"))))))

example : ∀ s ∈ [[], [1], [0, 0, 0, 1], [0, 0, 0, 0, 1], [0, 0, 0, 0, 0, 0, 1]],
    ((run .now s sampleFork).log.filter fun ge => ge.1 = 1) =
      [(1, .get "a" (some 1)), (1, .load "A" true), (1, .load "B" true), (1, .done .normal)] ∧
    ((run .now s sampleFork).log.filter fun ge => ge.1 = 0) =
      [(0, .get "a" (some 2)), (0, .obs (some 1) 1 (some 1000) []), (0, .load "B" false), (0, .done .normal)] := by decide

/-! ## fork isolation: loader entries -/

/-- whoever runs and whatever runs in between: an entry table that existed before is unchanged unless it is the running
    body's defining loader or the defining loader of a goroutine that was waiting -/
theorem C14_fork_isolated_defs (f : Nat) (p : Prog) (g c : Nat) (w : World) (h : Pre g c w)
    (l : Nat) (hl : l < w.nextLoader) (hne : some l ≠ (w.ctxs c).loader.head?)
    (hp : ∀ t ∈ w.pending, some l ≠ (w.ctxs t.ctx).loader.head?) :
    (exec .now f p g c w).2.defs l = w.defs l :=
  (exec_full f p g c w h).1.d.dframe l hl hne hp

/-- the full statement -/
theorem C14_fork_isolated : C14_fork_isolated_full :=
  fun f p g c w h =>
    ⟨fun i hi hic hp => C14_fork_isolated_partial f p g c w h i hi hic hp,
     fun l hl hne hp => C14_fork_isolated_defs f p g c w h l hl hne hp⟩

/-- a whole goroutine (child) runs: entry tables other than the defining loaders of waiting goroutines (its own included)
    are untouched — in particular every loader on the chain of its parent and of suspended goroutines -/
theorem C14_child_defs_invisible (f : Nat) (w : World) (i : Nat) (t : Task) (hinv : Inv w) (ht : w.pending[i]? = some t)
    (l : Nat) (hl : l < w.nextLoader) (hp : ∀ t' ∈ w.pending, some l ≠ (w.ctxs t'.ctx).loader.head?) :
    (runTask .now (exec .now f) t { w with pending := w.pending.eraseIdx i }).defs l = w.defs l :=
  (runTask_full (exec_full f) hinv ht).d.dframe l hl (by simp) hp

/-- `px.Load` through a chain of loaders whose entry tables are the same answers the same -/
theorem C14_loads_unaffected (d d' : LoaderId → List (String × Bool)) (chain : List LoaderId) (n : String)
    (h : ∀ l ∈ chain, d' l = d l) : loadEntry d' chain n = loadEntry d chain n := by
  induction chain with
  | nil => rfl
  | cons l r ih =>
    simp only [loadEntry]
    rw [ih (fun l' hl' => h l' (List.mem_cons_of_mem _ hl')), h l (List.mem_cons_self ..)]

/-! ## released -/

/-- after the op — `Do` returned or panicked on a fresh goroutine, every forked goroutine ended — no goroutine-local
    table exists, for every program and every oracle -/
theorem C14_released (sched : List Nat) (p : Prog) :
    (∀ g, (run .now sched p).tls g = none) ∧ live (run .now sched p) = 0 := by
  have h := (run_step sched p).2
  refine ⟨fun g => by rw [h], ?_⟩
  simp [live, h]

/-- the table of a forked goroutine is gone when the goroutine ends (normally or by panic of its body) -/
theorem C14_released_goroutine (ex : Prog → Gid → CtxId → World → Outcome × World) (t : Task) (w : World) :
    (runTask .now ex t w).tls t.gid = none := by
  rw [runTask_now]; simp [tlCleanup]

/-- non-vacuity: goroutines did run and did hold tables (five goroutines were created and ended) -/
example : (run .now [1, 1, 1] (.seq (.fork (.go (.fork .obs))) (.seq (.go .panic) (.fork (.dodo 1 .obs))))).nextGid = 6 := by decide

/-! ## the original code (`Ver.before`, tag verif-base) violates the property — witnesses -/

/-- `Do` left its root context set and the table allocated (fixed by 304610f) -/
theorem C14_before_not_released :
    (run .before [] .skip).tls 0 ≠ none ∧ tlGet 0 ctxKey (run .before [] .skip) = some 0 ∧ live (run .before [] .skip) = 1 := by
  decide

/-- `Try` likewise, also when the body panics -/
theorem C14_before_try_not_released :
    tlGet 0 ctxKey (exec .before 9 (.dotry 1 .panic) 0 0 {}).2 = some 0 ∧ (exec .before 9 (.dotry 1 .panic) 0 0 {}).1 = .normal ∧
    tlGet 0 ctxKey (exec .now 9 (.dotry 1 .panic) 0 0 {}).2 = none ∧ (exec .now 9 (.dotry 1 .panic) 0 0 {}).1 = .normal := by
  decide

/-- a nested `Do` replaced the caller's current context by its own root and did not put it back -/
theorem C14_before_nested_do_not_restored :
    (0, Ev.obs (some 2) 1 none []) ∈ (run .before [] (.seq (.dodo 1 .skip) .obs)).log := by decide

/-- `Fork` copied the parent's context when the child started: the child sees what the parent stored AFTER the call -/
theorem C14_before_fork_copy_late :
    (1, Ev.get "a" (some 2)) ∈ (run .before [] (.seq (.set "a" 1) (.seq (.fork (.get "a")) (.set "a" 2)))).log ∧
    (1, Ev.get "a" (some 1)) ∈ (run .now [] (.seq (.set "a" 1) (.seq (.fork (.get "a")) (.set "a" 2)))).log := by decide

/-- … and `C14_fork_view` fails for it: the waiting goroutine holds the parent's own context object -/
theorem C14_before_fork_shares_context (c : CtxId) (p : Prog) (w : World) :
    ∃ t, (spawn .before c p w).pending = w.pending ++ [t] ∧ t.ctx = c :=
  ⟨{ gid := w.nextGid, ctx := c, prog := p }, rfl, rfl⟩

end Pcore.Tls
