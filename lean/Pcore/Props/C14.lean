import Pcore.Model.Tls
/-! C14 — placeholder while the correspondence is brought up; theorems follow. -/
namespace Pcore.Tls
theorem C14_stub : (run .now [] .obs).oof = false := by decide
end Pcore.Tls
