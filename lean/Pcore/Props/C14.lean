import Pcore.Proofs.TlsDefs
import Pcore.Proofs.TlsReach
import Pcore.Proofs.TlsLoaders
import Pcore.Proofs.Gid
import Pcore.Proofs.GidFacts
import Pcore.Proofs.TlsRefine
import Pcore.Proofs.TlsGhost
import Pcore.Proofs.TlsFuel
import Pcore.Model.TlsFacts
import Pcore.Generated.GidFacts
/-!
# C14 — Contexts are confined to their goroutine and dynamic scope

Property (properties.jsonl): the current context observed inside Do, DoWithContext, Fork and Go is always the one
established for that goroutine and nesting level, it is restored when the body returns or panics, and it is never
observed from another goroutine.  Definitions, loader changes, stack frames and variables made in a forked context are
invisible to its parent and siblings while the parent's are visible to the child, and goroutine-local storage is released
when a forked goroutine ends.  Quantifier: all nestings of Do/DoWithContext/DoWithLoader/Fork/Go with and without
panics, executed by many goroutines under arbitrary scheduling.

Model: `Pcore/Model/Tls.lean` (`exec .now` = the code of /repo as it is now).  All theorems are for EVERY program,
EVERY scheduling oracle and EVERY fuel (induction on the fuel in `Proofs/TlsExec.lean: exec_step`); nothing is decided
over a sample.  `Pre g c w` = goroutine `g` runs a body that was handed `c`, `c` is its current context, `w` is
well-formed (`Inv`).

Full statement / proved / missing
* `C14_current`, `C14_current_exec` — every `px.CurrentContext()` anywhere in an execution (any goroutine, any nesting
  level of Do/DoWithContext/DoWithLoader/Fork/Go, before or after inner scopes returned or panicked, whatever ran in
  between) is the context handed to the innermost enclosing body.                                        **proved**
* `C14_restore`, `C14_restore_do`, `C14_restore_try`, `C14_restore_loader` — the goroutine-local tables after ANY program are exactly the
  tables before it (function equality), for the outcomes normal, panicked and out-of-fuel alike; `DoWithLoader` puts the
  loader back.                                                                                              **proved**
* `C14_confined` — a context that a goroutine observes as current was made current for that goroutine and for no other
  (ghost `World.estab`: written at the two places where a context is installed — DoWithContext entry and the start of a
  Fork goroutine).                                                                                          **proved**
  `C14_never_observed_by_two`, `C14s_never_observed_by_two` (audit) — the same without the ghost: no context is observed as
  current by two goroutines.                                                                                **proved**
* `C14_fork_view` — the forked goroutine's context holds the parent's variables and stack as they are at the `Fork`
  call and a fresh loader whose parent chain is the parent's.                                               **proved**
  `C14_fork_sees_parent_defs` (audit) — whatever the parent can `Load` at the `Fork` call the child can.    **proved**
  `C14_fork_isolated_partial` — while anybody runs (any program, any goroutine, any number of other goroutines run to
  completion in between), every context object that existed before, other than the running body's own and those of
  goroutines that ran, is unchanged: so a child's `Set/StackPush/DoWithLoader` never reach its parent or a sibling, and a
  waiting child still has the view of the `Fork` call whenever it starts.                                   **proved**
  `C14_fork_isolated_defs`, `C14_child_defs_invisible`, `C14_loads_unaffected` — the same for loader entries
  (definitions): only the running body's own defining loader, the defining loaders of goroutines that were waiting, and
  fresh loaders are written; a `Load` through a chain of untouched loaders answers as before.               **proved**
  `C14_fork_isolated` = `C14_fork_isolated_full` (context objects ∧ loader entries).                        **proved**
  `C14_linv_init`, `C14_linv_exec`, `C14_linv_do`, `C14_parent_loads_unaffected` — the loader-chain invariant `LInv` (a
  waiting goroutine's defining loader is fresh: on no other context's chain) holds throughout, hence what a parent or any
  non-waiting context can `Load` is exactly the same before and after a child ran.                         **proved**
* `C14_released`, `C14_released_goroutine` — after the op (Do on a fresh goroutine, every forked goroutine joined) no
  goroutine-local table is left; a forked goroutine's table is gone when it ends.                           **proved**
* witnesses on `Ver.before` (the original code): context left set and table never released after `Do`; a nested `Do`
  replaces the caller's current context; `Fork` copies the parent's variables when the child starts.
* ARBITRARY INTERLEAVINGS — `Model/TlsSmall.lean` is a small-step semantics (per-goroutine continuation + shared heaps; any
  goroutine that has not ended may take the next micro-step); `Reachable p c` = reached by any sequence of micro-steps.  As
  invariants of `Reachable` (`Proofs/TlsSmall.lean: stepG_spec`, `Proofs/TlsReach.lean: cinv_step, reachable_inv`):
  `C14s_current` (every observation), `C14s_current_state` (at every point, also mid-unwinding, the current context is the
  one the next body frame was handed — this is current AND restore), `C14s_confined`, `C14s_tls_local` (a step never
  touches another goroutine's table), `C14s_step_frame` / `C14s_other_goroutines_contexts` / `C14s_waiting_child_view` /
  `C14s_fork_view` (fork isolation of context objects per step: only contexts installed for the stepping goroutine are
  written; a waiting child keeps the view of the Fork call), `C14s_released_goroutine`, `C14s_released`.     **proved**
  `C14s_defs_step`: a micro-step writes only the defining loader of the stepping goroutine's current body context.  **proved**
  REFINEMENT big-step ⊆ small-step — `C14_refines_partial` (`Proofs/TlsRefine.lean: sim_exec, run_refines`): for every program
  and oracle, whenever the big-step run does not run out of fuel, a schedule of micro-steps leads from `Cfg.init p` to a
  configuration with every goroutine ended whose shared state (tables, context objects, loader entries, log, `estab`, counters) IS
  the big-step result; `C14_refines_reachable`, `C14_refines_log`.  So every big-step behaviour is a behaviour of the small-step
  model and the `C14s_*` invariants hold of big-step runs too (`C14_run_current_via_small`).                          **proved**
  Full statement `C14_refines_full` (no fuel hypothesis) = `C14_refines`: `C14_fuel_enough` proves that the fuel of the op always
  suffices (`Proofs/TlsFuel.lean: exec_fuel, run_oof` — a chain of nested goroutine runs shares one budget, and no node of the
  program is executed twice).                                                                                 **proved**
  LOADER ENTRIES under arbitrary interleavings (`Proofs/TlsGhost.lean`): every reachable configuration is decorated with two ghost
  maps the semantics never reads (`own l` = the goroutine loader `l` was allocated for, `par b` = the goroutine that started `b`;
  `C14s_ghost`); invariant `GInv` of every decorated reachable configuration (`ginv_step`): loaders on the chain of a context of
  `b` are the environment loader or belong to an ancestor-or-self of `b`, the defining loader of a body context belongs to the
  goroutine that runs the body.  `C14s_defs_owned`: a micro-step of `g` writes only loaders of `g` (never the environment loader);
  `C14s_defs_isolated`: it changes neither the context objects nor any `Load` answer of a goroutine that does not descend from
  `g`; `C14s_defs_invisible_to_older`: in particular of every OLDER goroutine — the parent, older siblings, their ancestors —
  at every point of every interleaving; `C14s_younger_invisible`: over any number of micro-steps of younger goroutines. **proved**
  Atomicity of a micro-step: one call into pcore up to where it calls back the actor, or one deferred function.
* SECOND TIE — `C14_facts_now` + `C14_facts_*`: the shape table regenerated from px/context.go, internal/context.go,
  internal/runtime.go, threadlocal/gid.go on every run (family `ctxfacts`) equals the shape the model mirrors; it selects
  the model variant the driver runs (`implVer`, `C14_impl_ver`, `C14_impl_*`).
* GOROUTINE IDS — `C14_getg`, `C14_getg_injective`, `C14_getg_iff`: the digit loop of `threadlocal.getg()` returns the id the
  runtime printed, for all ids below 2^63 (sharp), so distinct goroutines get distinct table keys (`Model/Gid.lean`).
  `C14_gid_facts_std`, `C14_gid_facts_roomy`, `C14_getg_impl`, `C14_getg_impl_injective`: the same over the constants REGENERATED from
  `threadlocal/gid.go` on every run (family `gidfacts`: buffer size, slice handed to `runtime.Stack`, prefix length, digit bounds,
  radix): the obligation is `prefixLen + 19 ≤ min stackLen bufLen`.  `C14_getg_buffer_iff`: for every standard table that bound
  is EXACTLY what makes the parser exact below 2^63; `C14_getg_first_cut` / `C14_getg_collide`: when it fails the id
  `10^(room-10) < 2^63` is cut to its leading digits and it and its successor share one goroutine-local table.       **proved**
* missing / trusted (DESIGN §5): that `runtime.Stack` prints "goroutine N [" with N the goroutine's unique id and that ids are
  not reused while a table exists; Go's memory model (the lock-protected `tls` map is assumed linearizable; a micro-step is
  atomic); free-running goroutines are exercised on the implementation only (`@free`).
-/
namespace Pcore.Tls

/-! ## current -/

/-- local form: started in a good state, any execution only ever logs observations `cur = the body's own context` -/
theorem C14_current_exec (f : Nat) (p : Prog) (g c : Nat) (w : World) (h : Pre g c w) (hl : LogOK w) :
    LogOK (exec .now f p g c w).2 :=
  (exec_step f p g c w h).1.logOK hl

/-- the whole op: every observation by every goroutine at every nesting level returns the context handed to the body -/
theorem C14_current (sched : List Nat) (p : Prog) (g : Gid) (cur : Option CtxId) (lex : CtxId) (tag : Option Nat)
    (st : List Nat) (h : (g, Ev.obs cur lex tag st) ∈ (run .now sched p).log) : cur = some lex := by
  have hl : LogOK (run .now sched p) := (run_step sched p).1.logOK (fun _ h => by simp at h)
  exact (hl _ h).1

/-- non-vacuity: three nesting levels on the root goroutine, one forked goroutine with a nested scope that panics, run
    while the parent is inside a nested `Do`; afterwards the parent observes its own contexts again (5, then 3) -/
def sampleNest : Prog :=
  .seq .obs (.seq (.fork (.seq .obs (.doctx 2 (.seq .obs .panic))))
    (.doctx 1 (.seq .obs (.seq (.recover (.dodo 3 (.seq .obs .panic))) .obs))))

example : ((run .now [0, 0, 1] sampleNest).log.filterMap fun ge =>
    match ge.2 with | .obs cur lex _ _ => some (ge.1, cur, lex) | _ => none) =
    [(0, some 1, 1), (0, some 3, 3), (1, some 2, 2), (1, some 6, 6), (0, some 5, 5), (0, some 3, 3)] := by decide

/-! ## restore -/

/-- whatever the program and however it ends (normally, by panic, out of fuel), the goroutine-local tables of ALL
    goroutines are afterwards what they were before -/
theorem C14_restore (f : Nat) (p : Prog) (g c : Nat) (w : World) (h : Pre g c w) :
    (exec .now f p g c w).2.tls = w.tls :=
  (exec_step f p g c w h).2

/-- in particular for `DoWithContext` -/
theorem C14_restore_doctx (f : Nat) (id : Nat) (p : Prog) (g c : Nat) (w : World) (h : Pre g c w) :
    tlGet g ctxKey (exec .now f (.doctx id p) g c w).2 = some c := by
  have := C14_restore f (.doctx id p) g c w h
  simp only [tlGet, this]; exact h.cur

/-- `pcore.Do` called by a goroutine with or without a current context -/
theorem C14_restore_do (f : Nat) (id : Nat) (p : Prog) (g c : Nat) (w : World) (hi : Inv w) (hg : g < w.nextGid)
    (hp : g ∉ pendGids w) : (exec .now f (.dodo id p) g c w).2.tls = w.tls :=
  (exec_dodo_step hi hg hp).2

/-- `pcore.Try` likewise (the body's panic is turned into the returned error after the inner scope was left) -/
theorem C14_restore_try (f : Nat) (id : Nat) (p : Prog) (g c : Nat) (w : World) (hi : Inv w) (hg : g < w.nextGid)
    (hp : g ∉ pendGids w) : (exec .now f (.dotry id p) g c w).2.tls = w.tls :=
  (exec_dotry_step hi hg hp).2

/-- `DoWithLoader` puts the context's loader back, also when the body panics -/
theorem C14_restore_loader (f : Nat) (p : Prog) (g c : Nat) (w : World) :
    ((exec .now (f + 1) (.doloader p) g c w).2.ctxs c).loader = (w.ctxs c).loader := by
  simp [exec, ctxUpd]

/-- non-vacuity: a panicking body inside DoWithContext inside Do — outcome `panicked`, tables as before -/
example : (exec .now 9 (.dodo 1 (.doctx 2 (.seq (.set "a" 1) .panic))) 0 0 {}).1 = .panicked := by decide
/-- added by the audit — `C14_restore_loader` only unfolds `exec` (the deferred restore is the last thing the model does); a
    concrete instance where it matters: the body of `DoWithLoader` defines `X`, sees it, and PANICS; after the recovered panic
    the context has its loader back — `X` is no longer visible — and the current context is still the body's own -/
example : (exec .now 9 (.dodo 1 (.seq (.recover (.doloader (.seq (.deftype "X") (.seq (.load "X") .panic))))
      (.seq (.load "X") .obs))) 0 0 {}).2.log =
    [(0, .load "X" true), (0, .recovered), (0, .load "X" false), (0, .obs (some 1) 1 (some 1) [])] := by decide
/-- non-vacuity of `Pre`: the state right after `DoWithContext` installed context 0 on the fresh goroutine 0 -/
example : Pre 0 0 (note 0 0 (tlFresh 0 0 { nextCtx := 1 })) := by
  refine ⟨⟨?_, ?_, ?_, List.nodup_nil, ?_, ?_, ?_, List.nodup_nil, ?_, ?_⟩, by decide, by decide, by decide, by decide⟩
  · intro g hg
    have : g ≠ 0 := by simp [note, tlFresh] at hg; omega
    simp [note, tlFresh, this]
  · intro t h; simp [note, tlFresh] at h
  · intro t h; simp [note, tlFresh] at h
  · intro g t h
    by_cases hg : g = 0
    · subst hg; simp [note, tlFresh] at h; exact ⟨0, by rw [← h]; decide⟩
    · simp [note, tlFresh, hg] at h
  · intro g c h; simp [note, tlFresh] at h; simp [note, tlFresh, h.2]
  · intro t h; simp [note, tlFresh] at h
  · intro t h; simp [note, tlFresh] at h
  · intro g g' c h h'; simp [note, tlFresh] at h h'; rw [h.1, h'.1]

/-! ## confined -/

/-- a context observed as current by goroutine `g` was made current for `g` — and for no other goroutine -/
theorem C14_confined (sched : List Nat) (p : Prog) (g g' : Gid) (c lex : CtxId) (tag : Option Nat) (st : List Nat)
    (h : (g, Ev.obs (some c) lex tag st) ∈ (run .now sched p).log) :
    (g, c) ∈ (run .now sched p).estab ∧ ((g', c) ∈ (run .now sched p).estab → g' = g) := by
  have hs := (run_step sched p).1
  have hl : LogOK (run .now sched p) := hs.logOK (fun _ h => by simp at h)
  obtain ⟨h1, h2⟩ := hl _ h
  have hc : c = lex := by simpa using h1
  subst hc
  exact ⟨h2, fun h3 => hs.inv.estabUniq g' g c h3 h2⟩

/-- non-vacuity: two goroutines, seven contexts, each made current for exactly one goroutine -/
example : (run .now [0, 0, 1] sampleNest).estab = [(0, 0), (0, 1), (0, 3), (0, 4), (0, 5), (1, 2), (1, 6)] := by decide

/-- added by the audit — the property's own sentence ("it is never observed from another goroutine") WITHOUT the ghost `estab`
    that `C14_confined` speaks about: one context is never observed as current by two different goroutines -/
theorem C14_never_observed_by_two (sched : List Nat) (p : Prog) (g g' : Gid) (c lex lex' : CtxId) (tag tag' : Option Nat)
    (st st' : List Nat) (h : (g, Ev.obs (some c) lex tag st) ∈ (run .now sched p).log)
    (h' : (g', Ev.obs (some c) lex' tag' st') ∈ (run .now sched p).log) : g' = g :=
  (C14_confined sched p g g' c lex tag st h).2 (C14_confined sched p g' g c lex' tag' st' h').1
-- non-vacuity: in the run of `sampleNest` both goroutines observe (six observations, see above), and no context occurs in the
-- observations of both
example : ((run .now [0, 0, 1] sampleNest).log.filterMap fun ge =>
    match ge.2 with | .obs (some cur) _ _ _ => some (ge.1, cur) | _ => none) =
    [(0, 1), (0, 3), (1, 2), (1, 6), (0, 5), (0, 3)] := by decide

/-! ## fork isolation -/

/-- `px.Fork(c, p)` (and `px.Go` with the current context): the child's context is a new object holding the parent's
    variables and stack as they are NOW and a fresh loader on top of the parent's chain; the child waits -/
theorem C14_fork_view (c : CtxId) (p : Prog) (w : World) :
    ∃ t, (spawn .now c p w).pending = w.pending ++ [t] ∧ t.gid = w.nextGid ∧ t.ctx = w.nextCtx ∧ t.prog = p ∧
      ((spawn .now c p w).ctxs t.ctx).vars = (w.ctxs c).vars ∧
      ((spawn .now c p w).ctxs t.ctx).stack = (w.ctxs c).stack ∧
      ((spawn .now c p w).ctxs t.ctx).loader = w.nextLoader :: (w.ctxs c).loader ∧
      (spawn .now c p w).defs w.nextLoader = [] :=
  ⟨{ gid := w.nextGid, ctx := w.nextCtx, prog := p }, rfl, rfl, rfl, rfl,
   by simp [spawn_now, forkCtx, newCtx, newLoader], by simp [spawn_now, forkCtx, newCtx, newLoader],
   by simp [spawn_now, forkCtx, newCtx, newLoader], by simp [spawn_now, forkCtx, newCtx, newLoader]⟩

/-- full statement of fork isolation -/
def C14_fork_isolated_full : Prop :=
  ∀ (f : Nat) (p : Prog) (g c : Nat) (w : World), Pre g c w →
    -- context objects (variables, stack, loader field)
    (∀ i, i < w.nextCtx → i ≠ c → (i ∉ pendCtxs w ∨ i ∈ pendCtxs (exec .now f p g c w).2) →
      (exec .now f p g c w).2.ctxs i = w.ctxs i) ∧
    -- loader entries (definitions): only the body's own loader, loaders of goroutines that were waiting, fresh ones
    (∀ l, l < w.nextLoader → some l ≠ (w.ctxs c).loader.head? →
      (∀ t ∈ w.pending, some l ≠ (w.ctxs t.ctx).loader.head?) →
      (exec .now f p g c w).2.defs l = w.defs l)

/-- whoever runs and whatever runs in between: a context object other than the running body's own, and other than those
    of waiting goroutines that have run meanwhile, is untouched.  Instances: the parent's and the siblings' contexts
    while a child runs (`C14_child_invisible`), a waiting child's context while the parent goes on
    (`C14_child_view_stable`). -/
theorem C14_fork_isolated_partial (f : Nat) (p : Prog) (g c : Nat) (w : World) (h : Pre g c w)
    (i : Nat) (hi : i < w.nextCtx) (hic : i ≠ c)
    (hp : i ∉ pendCtxs w ∨ i ∈ pendCtxs (exec .now f p g c w).2) :
    (exec .now f p g c w).2.ctxs i = w.ctxs i :=
  (exec_step f p g c w h).1.frame i hi (by simpa using hic) hp

/-- a goroutine that is still waiting after the step has exactly the context it was given at the `Fork` call -/
theorem C14_child_view_stable (f : Nat) (p : Prog) (g c : Nat) (w : World) (h : Pre g c w) (t : Task)
    (ht : t ∈ w.pending) (ht' : t ∈ (exec .now f p g c w).2.pending) :
    (exec .now f p g c w).2.ctxs t.ctx = w.ctxs t.ctx := by
  apply C14_fork_isolated_partial f p g c w h t.ctx (h.inv.pendCtxLt t ht)
  · intro hc
    exact h.cnp (by rw [← hc]; simp only [pendCtxs, List.mem_map]; exact ⟨t, ht, rfl⟩)
  · right; simp only [pendCtxs, List.mem_map]; exact ⟨t, ht', rfl⟩

/-- a whole goroutine (child) runs, with whatever it starts and whatever else the oracle lets run meanwhile: every
    context that is not its own and not one of another waiting goroutine that ran — the parent's, the suspended
    goroutines', the still waiting siblings' — is untouched, and so are all goroutine-local tables -/
theorem C14_child_invisible (f : Nat) (w : World) (i : Nat) (t : Task) (hinv : Inv w) (ht : w.pending[i]? = some t)
    (j : Nat) (hj : j < w.nextCtx)
    (hp : j ∉ pendCtxs w ∨ j ∈ pendCtxs (runTask .now (exec .now f) t { w with pending := w.pending.eraseIdx i })) :
    (runTask .now (exec .now f) t { w with pending := w.pending.eraseIdx i }).ctxs j = w.ctxs j ∧
    (runTask .now (exec .now f) t { w with pending := w.pending.eraseIdx i }).tls = w.tls :=
  ⟨(runTask_step (exec_step f) hinv ht).1.frame j hj (by simp) hp, (runTask_step (exec_step f) hinv ht).2⟩

/-- non-vacuity / end-to-end: the parent sets a=1, forks a child that reads and overwrites `a`, pushes a frame and defines
    `B`; the parent then sets a=2.  Under EVERY oracle shown the child reads 1, the parent reads 2 and does not see the
    child's frame nor `B`, the child sees the parent's `A`. -/
def sampleFork : Prog :=
  .seq (.set "a" 1) (.seq (.deftype "A") (.seq (.fork (.seq (.get "a") (.seq (.set "a" 5) (.seq (.push 7) (.seq (.deftype "B") (.seq (.load "A") (.load "B")))))))
    (.seq (.set "a" 2) (.seq (.get "a") (.seq .obs (.load "B"))))))

example : ∀ s ∈ [[], [1], [0, 0, 0, 1], [0, 0, 0, 0, 1], [0, 0, 0, 0, 0, 0, 1]],
    ((run .now s sampleFork).log.filter fun ge => ge.1 = 1) =
      [(1, .get "a" (some 1)), (1, .load "A" true), (1, .load "B" true), (1, .done .normal)] ∧
    ((run .now s sampleFork).log.filter fun ge => ge.1 = 0) =
      [(0, .get "a" (some 2)), (0, .obs (some 1) 1 (some 1000) []), (0, .load "B" false), (0, .done .normal)] := by decide

/-! ## fork isolation: loader entries -/

/-- whoever runs and whatever runs in between: an entry table that existed before is unchanged unless it is the running
    body's defining loader or the defining loader of a goroutine that was waiting -/
theorem C14_fork_isolated_defs (f : Nat) (p : Prog) (g c : Nat) (w : World) (h : Pre g c w)
    (l : Nat) (hl : l < w.nextLoader) (hne : some l ≠ (w.ctxs c).loader.head?)
    (hp : ∀ t ∈ w.pending, some l ≠ (w.ctxs t.ctx).loader.head?) :
    (exec .now f p g c w).2.defs l = w.defs l :=
  (exec_full f p g c w h).1.d.dframe l hl hne hp

/-- the full statement -/
theorem C14_fork_isolated : C14_fork_isolated_full :=
  fun f p g c w h =>
    ⟨fun i hi hic hp => C14_fork_isolated_partial f p g c w h i hi hic hp,
     fun l hl hne hp => C14_fork_isolated_defs f p g c w h l hl hne hp⟩

/-- a whole goroutine (child) runs: entry tables other than the defining loaders of waiting goroutines (its own included)
    are untouched — in particular every loader on the chain of its parent and of suspended goroutines -/
theorem C14_child_defs_invisible (f : Nat) (w : World) (i : Nat) (t : Task) (hinv : Inv w) (ht : w.pending[i]? = some t)
    (l : Nat) (hl : l < w.nextLoader) (hp : ∀ t' ∈ w.pending, some l ≠ (w.ctxs t'.ctx).loader.head?) :
    (runTask .now (exec .now f) t { w with pending := w.pending.eraseIdx i }).defs l = w.defs l :=
  (runTask_full (exec_full f) hinv ht).d.dframe l hl (by simp) hp

/-- `px.Load` through a chain of loaders whose entry tables are the same answers the same -/
theorem C14_loads_unaffected (d d' : LoaderId → List (String × Bool)) (chain : List LoaderId) (n : String)
    (h : ∀ l ∈ chain, d' l = d l) : loadEntry d' chain n = loadEntry d chain n := by
  induction chain with
  | nil => rfl
  | cons l r ih =>
    simp only [loadEntry]
    rw [ih (fun l' hl' => h l' (List.mem_cons_of_mem _ hl')), h l (List.mem_cons_self ..)]

/-- added by the audit — "the parent's [definitions] are visible to the child" as a theorem (`C14_fork_view` gives the chain,
    the examples show one run): whatever the forking context can `Load` at the `Fork` call, the forked context can `Load` —
    its fresh loader sits on top of the parent's chain and the parent's entry tables are untouched by the call.  `hlt` (the
    parent's chain is allocated) is `LInv.chainLt`, an invariant (`C14_linv_exec`). -/
theorem C14_fork_sees_parent_defs (c : CtxId) (p : Prog) (w : World) (n : String)
    (hlt : ∀ l ∈ (w.ctxs c).loader, l < w.nextLoader)
    (h : loadEntry w.defs (w.ctxs c).loader n = some true) :
    loadEntry (spawn .now c p w).defs ((spawn .now c p w).ctxs w.nextCtx).loader n = some true := by
  have hl : ((spawn .now c p w).ctxs w.nextCtx).loader = w.nextLoader :: (w.ctxs c).loader := by
    simp [spawn_now, forkCtx, newCtx, newLoader]
  have hd : ∀ l ∈ (w.ctxs c).loader, (spawn .now c p w).defs l = w.defs l := by
    intro l hm
    have : l ≠ w.nextLoader := Nat.ne_of_lt (hlt l hm)
    simp [spawn_now, forkCtx, newCtx, newLoader, this]
  rw [hl]
  simp only [loadEntry]
  rw [C14_loads_unaffected w.defs (spawn .now c p w).defs (w.ctxs c).loader n hd, h]
-- non-vacuity: a context whose own loader 1 (child of the environment loader 0) holds `A`
example : let w : World := { ctxs := fun _ => { loader := [1, 0] }, defs := fun l => if l = 1 then [("A", true)] else [],
                             nextLoader := 2, nextCtx := 1 }
    (∀ l ∈ (w.ctxs 0).loader, l < w.nextLoader) ∧ loadEntry w.defs (w.ctxs 0).loader "A" = some true := by decide

/-! ## the loader-chain invariant (closes the hypothesis of `C14_loads_unaffected`) -/

/-- `LInv`: every waiting goroutine's defining loader is allocated, is not the shared environment loader, and occurs in the
    chain of no other context.  It holds initially … -/
theorem C14_linv_init (sched : List Nat) : LInv { sched := sched } :=
  ⟨Nat.le_refl _, fun i hi => by simp at hi, fun t ht => by simp at ht⟩

/-- … `Fork`/`Go` establish it for the goroutine they start (its loader is fresh) and every execution maintains it -/
theorem C14_linv_exec (f : Nat) (p : Prog) (g c : Nat) (w : World) (h : Pre g c w) (hl : LInv w) :
    LInv (exec .now f p g c w).2 := exec_linv f p g c w h hl

/-- … also a top-level `Do` on a goroutine without current context -/
theorem C14_linv_do (f : Nat) (id : Nat) (p : Prog) (g c : Nat) (w : World) (hi : Inv w) (hg : g < w.nextGid)
    (hp : g ∉ pendGids w) (hl : LInv w) : LInv (exec .now f (.dodo id p) g c w).2 := by
  cases f with
  | zero => exact hl
  | succ f =>
    simp only [exec]
    exact doDo_linv (id := id) (ctch := false) (body := fun cx w1 => exec .now f p g cx w1) hi hg hp hl
      (fun cx w1 hp1 hl1 => exec_linv f p g cx w1 hp1 hl1)

/-- definitions made by a forked goroutine — and by everything it starts or lets run — are invisible to its parent and to
    every other context that is not waiting: whatever such a context could `Load` before the child ran it can `Load` after,
    and nothing more (its chain and all entry tables on it are untouched).  No hypothesis about loaders is left: `LInv`. -/
theorem C14_parent_loads_unaffected (f : Nat) (w : World) (i : Nat) (t : Task) (hinv : Inv w) (hl : LInv w)
    (ht : w.pending[i]? = some t) (c : Nat) (hc : c < w.nextCtx) (hnp : c ∉ pendCtxs w) (n : String) :
    ((runTask .now (exec .now f) t { w with pending := w.pending.eraseIdx i }).ctxs c).loader = (w.ctxs c).loader ∧
    loadEntry (runTask .now (exec .now f) t { w with pending := w.pending.eraseIdx i }).defs (w.ctxs c).loader n =
      loadEntry w.defs (w.ctxs c).loader n := by
  refine ⟨by rw [(C14_child_invisible f w i t hinv ht c hc (Or.inl hnp)).1], ?_⟩
  apply C14_loads_unaffected
  intro l hm
  apply C14_child_defs_invisible f w i t hinv ht l (hl.chainLt c hc l hm)
  intro t' ht' heq
  obtain ⟨hd, e, _, p2⟩ := hl.pendHead t' ht'
  have hne : c ≠ t'.ctx := by
    intro hct
    exact hnp (by simp only [pendCtxs, List.mem_map]; exact ⟨t', ht', hct.symm⟩)
  have : l = hd := by
    simp only [headOf] at e
    rw [e] at heq
    exact Option.some.inj heq
  rw [this] at hm
  exact p2 c hc hne hm

/-! ## released -/

/-- after the op — `Do` returned or panicked on a fresh goroutine, every forked goroutine ended — no goroutine-local
    table exists, for every program and every oracle -/
theorem C14_released (sched : List Nat) (p : Prog) :
    (∀ g, (run .now sched p).tls g = none) ∧ live (run .now sched p) = 0 := by
  have h := (run_step sched p).2
  refine ⟨fun g => by rw [h], ?_⟩
  simp [live, h]

/-- the table of a forked goroutine is gone when the goroutine ends (normally or by panic of its body) -/
theorem C14_released_goroutine (ex : Prog → Gid → CtxId → World → Outcome × World) (t : Task) (w : World) :
    (runTask .now ex t w).tls t.gid = none := by
  rw [runTask_now]; simp [tlCleanup]

/-- non-vacuity: goroutines did run and did hold tables (five goroutines were created and ended) -/
example : (run .now [1, 1, 1] (.seq (.fork (.go (.fork .obs))) (.seq (.go .panic) (.fork (.dodo 1 .obs))))).nextGid = 6 := by decide

/-! ## arbitrary interleavings: the small-step semantics (`Model/TlsSmall.lean`)

`Reachable p c`: `c` is reached from the initial configuration of the op (`pcore.Do(p)` on a fresh goroutine) by ANY sequence of
micro-steps of ANY goroutines that exist at that point.  The theorems below are invariants of `Reachable`. -/

theorem init_log (p : Prog) : (Cfg.init p).w.log = [] := rfl

/-- current, as an observation: whatever the interleaving, every `CurrentContext()` returned the context handed to the body -/
theorem C14s_current {p : Prog} {c : Cfg} (h : Reachable p c) (g : Gid) (cur : Option CtxId) (lex : CtxId) (tag : Option Nat)
    (st : List Nat) (hm : (g, Ev.obs cur lex tag st) ∈ c.w.log) : cur = some lex := by
  rcases reachable_inv h with h | h
  · subst h; simp [init_log] at hm
  · exact (h.logOK _ hm).1

/-- current and restore, as a state invariant: at EVERY point of EVERY interleaving — before and after inner scopes returned
    or panicked, in the middle of unwinding — the goroutine's current context is the one its next body frame was handed, and it
    was installed for this goroutine (the only exception: the root goroutine before it has entered `Do`) -/
theorem C14s_current_state {p : Prog} {c : Cfg} (h : Reachable p c) (hne : c ≠ Cfg.init p) (g : GS) (hg : g ∈ c.gs)
    (hs : g.started = true) (q : Prog) (cx : CtxId) (k : List Frame) (hk : g.k = .run q cx :: k) :
    tlGet g.gid ctxKey c.w = some cx ∧ (g.gid, cx) ∈ c.w.estab := by
  rcases reachable_inv h with h | h
  · exact absurd h hne
  · have := (h.gok g hg).st hs
    rw [hk] at this
    exact ⟨this.1, this.2.1⟩

/-- confined -/
theorem C14s_confined {p : Prog} {c : Cfg} (h : Reachable p c) (g g' : Gid) (ctx lex : CtxId) (tag : Option Nat) (st : List Nat)
    (hm : (g, Ev.obs (some ctx) lex tag st) ∈ c.w.log) :
    (g, ctx) ∈ c.w.estab ∧ ((g', ctx) ∈ c.w.estab → g' = g) := by
  rcases reachable_inv h with h | h
  · subst h; simp [init_log] at hm
  · obtain ⟨h1, h2⟩ := h.logOK _ hm
    have hc : ctx = lex := by simpa using h1
    subst hc
    exact ⟨h2, fun h3 => h.winv.estabUniq g' g ctx h3 h2⟩

/-- a step of one goroutine never touches another goroutine's table -/
theorem C14s_tls_local {p : Prog} {c : Cfg} (h : Reachable p c) (i : Nat) (g : GS) (hi : c.gs[i]? = some g) (gid : Gid)
    (hne : gid ≠ g.gid) : (c.step i).w.tls gid = c.w.tls gid := by
  have e : (c.step i).w = (stepG g c.w).w := by simp [Cfg.step, hi]
  rw [e]
  rcases reachable_inv h with h | h
  · subst h
    cases i with
    | zero =>
      simp [Cfg.init] at hi; subst hi
      simp only [stepG, Cfg.init]
      have sp := doEnter_spec (gid := 0) (ctx0 := 0) (k0 := [.run (.dodo 1000 p) 0, .endRoot]) (k := [.endRoot]) (id := 1000)
        (ctch := false) (p := p) (w := {}) (inv_init []) rfl (Nat.zero_lt_one) ⟨rfl, rfl⟩
      exact sp.loc.tls gid hne
    | succ i => simp [Cfg.init] at hi
  · exact (stepG_spec h.winv h.nopend (h.gok g (mem_of_getElem? hi))).loc.tls gid hne

/-- fork isolation, per step: a micro-step of goroutine `g` changes no context object other than those installed for `g`
    (and the one made for it, before it starts) -/
theorem C14s_step_frame {p : Prog} {c : Cfg} (h : Reachable p c) (i : Nat) (g : GS) (hi : c.gs[i]? = some g)
    (j : Nat) (hj : j < c.w.nextCtx) (hne : (g.gid, j) ∉ c.w.estab) (h0 : ¬(g.started = false ∧ j = g.ctx0)) :
    (c.step i).w.ctxs j = c.w.ctxs j := by
  have e : (c.step i).w = (stepG g c.w).w := by simp [Cfg.step, hi]
  rw [e]
  rcases reachable_inv h with h | h
  · subst h; simp [Cfg.init] at hj
  · exact (stepG_spec h.winv h.nopend (h.gok g (mem_of_getElem? hi))).frame j hj hne h0

/-- … in particular: contexts installed for ANOTHER goroutine (parent, child, sibling — running, suspended, ended) -/
theorem C14s_other_goroutines_contexts {p : Prog} {c : Cfg} (h : Reachable p c) (hn : c ≠ Cfg.init p) (i : Nat) (g : GS)
    (hi : c.gs[i]? = some g) (g' : Gid) (j : CtxId) (hj : (g', j) ∈ c.w.estab) (hne : g' ≠ g.gid) :
    (c.step i).w.ctxs j = c.w.ctxs j := by
  rcases reachable_inv h with hh | hh
  · exact absurd hh hn
  · apply C14s_step_frame h i g hi j (hh.winv.estabLt g' j hj)
    · intro hc; exact hne (hh.winv.estabUniq g' g.gid j hj hc)
    · intro ⟨hs, hj0⟩
      exact ((hh.gok g (mem_of_getElem? hi)).unst hs).2.2.1 g' (hj0 ▸ hj)

/-- … and the context made for a goroutine that has not started yet: whoever steps (its parent included), the waiting
    child's view stays the one of the `Fork` call -/
theorem C14s_waiting_child_view {p : Prog} {c : Cfg} (h : Reachable p c) (hn : c ≠ Cfg.init p) (i : Nat) (g : GS)
    (hi : c.gs[i]? = some g) (n : GS) (hnm : n ∈ c.gs) (hns : n.started = false) (hne : n.gid ≠ g.gid) :
    (c.step i).w.ctxs n.ctx0 = c.w.ctxs n.ctx0 := by
  rcases reachable_inv h with hh | hh
  · exact absurd hh hn
  · obtain ⟨_, h2, h3, _, _⟩ := (hh.gok n hnm).unst hns
    apply C14s_step_frame h i g hi n.ctx0 h2 (h3 g.gid)
    intro ⟨hs, hj0⟩
    exact hne (hh.ctx0Uniq n hnm g (mem_of_getElem? hi) hns hs hj0)

/-- the view at the `Fork`/`Go` call: the step that starts a goroutine gives it a new context object holding the caller's
    variables and stack of that moment; the new goroutine has not started and owns no table -/
theorem C14s_fork_view {p : Prog} {c : Cfg} (h : Reachable p c) (hn : c ≠ Cfg.init p) (g : GS) (hg : g ∈ c.gs) (n : GS)
    (hsp : (stepG g c.w).spawned = some n) (q : Prog) (cx : CtxId) (k : List Frame) (hk : g.k = .run q cx :: k) :
    n.gid = c.w.nextGid ∧ n.started = false ∧ n.ctx0 = c.w.nextCtx ∧ (stepG g c.w).w.tls n.gid = none ∧
    ((stepG g c.w).w.ctxs n.ctx0).vars = (c.w.ctxs cx).vars ∧ ((stepG g c.w).w.ctxs n.ctx0).stack = (c.w.ctxs cx).stack := by
  rcases reachable_inv h with hh | hh
  · exact absurd hh hn
  · have sp := (stepG_spec hh.winv hh.nopend (hh.gok g hg)).spawned n hsp
    rw [hk] at sp
    exact ⟨sp.1, sp.2.2.1, sp.2.2.2.1, (sp.2.1.unst sp.2.2.1).1, sp.2.2.2.2.1, sp.2.2.2.2.2⟩

/-- loader entries, per step (no invariant needed): a micro-step writes an existing loader's entry table only if it is the
    defining loader of the context of the stepping goroutine's next body frame — definitions go nowhere else -/
theorem C14s_defs_step (c : Cfg) (i : Nat) (g : GS) (hi : c.gs[i]? = some g) (l : Nat) (hl : l < c.w.nextLoader)
    (hne : ∀ q cx k, g.k = .run q cx :: k → some l ≠ (c.w.ctxs cx).loader.head?) :
    (c.step i).w.defs l = c.w.defs l := by
  have e : (c.step i).w = (stepG g c.w).w := by simp [Cfg.step, hi]
  rw [e]
  exact stepG_defs g c.w l hl hne

/-- released: a goroutine that has ended has no goroutine-local table — at every point of every interleaving -/
theorem C14s_released_goroutine {p : Prog} {c : Cfg} (h : Reachable p c) (g : GS) (hg : g ∈ c.gs) (hd : g.done = true) :
    c.w.tls g.gid = none := by
  simp only [GS.done, Bool.and_eq_true, List.isEmpty_iff] at hd
  rcases reachable_inv h with hh | hh
  · subst hh; simp [Cfg.init] at hg; subst hg; simp at hd
  · have := (hh.gok g hg).st hd.1
    rw [hd.2] at this
    exact (tlGet_none_iff hh.winv).1 this

/-- … and when all have ended no table is left -/
theorem C14s_released {p : Prog} {c : Cfg} (h : Reachable p c) (hall : ∀ g ∈ c.gs, g.done = true) :
    (∀ gid, c.w.tls gid = none) ∧ live c.w = 0 := by
  have hnone : ∀ gid, c.w.tls gid = none := by
    intro gid
    rcases reachable_inv h with hh | hh
    · subst hh; rfl
    · cases ht : c.w.tls gid with
      | none => rfl
      | some t =>
        obtain ⟨g, hg, hgid, _⟩ := hh.cover gid (by rw [ht]; simp)
        have := C14s_released_goroutine h g hg (hall g hg)
        rw [hgid, ht] at this; cases this
  exact ⟨hnone, by simp [live, hnone]⟩

/-- non-vacuity (and an end-to-end instance): the parent sets a=1, forks, sets a=2 — and only THEN the child starts and reads
    `a`: it reads 1 while the parent's context holds 2; both goroutines hold a table.  Later both have ended (the child by a
    panic inside a nested DoWithContext), every table is gone, and each goroutine logged only its own contexts. -/
def sampleInter : Prog :=
  .seq (.set "a" 1) (.seq (.fork (.seq (.get "a") (.seq (.set "a" 5) (.doctx 1 (.seq .obs .panic)))))
    (.seq (.set "a" 2) (.seq (.get "a") .obs)))
def sampleSched1 : List Nat := [0, 0, 0, 0, 0, 0, 0, 0, 1, 1, 1]
def sampleSched2 : List Nat := sampleSched1 ++ [1, 1, 1, 1, 1, 1, 1, 0, 0, 0, 1, 1, 1, 1, 0, 0, 0, 0, 0, 0, 0]

example : Reachable sampleInter (Cfg.steps sampleSched1 (Cfg.init sampleInter)) := reachable_steps _ Reachable.init
example : (Cfg.steps sampleSched1 (Cfg.init sampleInter)).w.log = [(1, .get "a" (some 1))] ∧
    aget "a" ((Cfg.steps sampleSched1 (Cfg.init sampleInter)).w.ctxs 1).vars = some 2 ∧
    ((List.range 3).map fun g => ((Cfg.steps sampleSched1 (Cfg.init sampleInter)).w.tls g).isSome) = [true, true, false] := by
  decide
example : ((Cfg.steps sampleSched2 (Cfg.init sampleInter)).gs.map fun g => (g.gid, g.done)) = [(0, true), (1, true)] ∧
    (Cfg.steps sampleSched2 (Cfg.init sampleInter)).w.log =
      [(1, .get "a" (some 1)), (1, .obs (some 3) 3 (some 1) []), (0, .get "a" (some 2)), (0, .obs (some 1) 1 (some 1000) []),
       (1, .done .panicked), (0, .done .normal)] ∧
    (Cfg.steps sampleSched2 (Cfg.init sampleInter)).w.estab = [(0, 0), (0, 1), (1, 2), (1, 3)] := by decide
example : ∀ gid, (Cfg.steps sampleSched2 (Cfg.init sampleInter)).w.tls gid = none :=
  (C14s_released (reachable_steps _ Reachable.init) (by decide)).1

/-! #### added by the audit (notes/audit-C14.md): the hypotheses of `C14s_fork_view` and `C14s_waiting_child_view` on concrete
    reachable configurations -/

/-- `sampleInter` after five micro-steps of the root goroutine: its next micro-step is the `Fork` -/
def forkPoint : Cfg := Cfg.steps (List.replicate 5 0) (Cfg.init sampleInter)
def runCtx (g : GS) : Option CtxId := match g.k with | .run _ cx :: _ => some cx | _ => none
example : Reachable sampleInter forkPoint := reachable_steps _ Reachable.init
-- non-vacuity of C14s_fork_view: goroutine 0 is at a body frame handed context 1 (`hk`), its next step starts a goroutine
-- (`hsp`): id 1 = nextGid, not started, context 2 = nextCtx; the caller's `a` is 1 at that moment
example : (forkPoint.gs.map fun g => (g.gid, runCtx g)) = [(0, some 1)] ∧
    (forkPoint.gs.map fun g => (stepG g forkPoint.w).spawned.map fun n => (n.gid, n.started, n.ctx0)) = [some (1, false, 2)] ∧
    forkPoint.w.nextGid = 1 ∧ forkPoint.w.nextCtx = 2 ∧ aget "a" (forkPoint.w.ctxs 1).vars = some 1 := by decide
/-- … and after `n` micro-steps of the root goroutine only -/
def waitPoint (n : Nat) : Cfg := Cfg.steps (List.replicate n 0) (Cfg.init sampleInter)
-- non-vacuity of C14s_waiting_child_view (and its conclusion): after 6 and after 8 steps goroutine 1 exists and has NOT started
-- (`hnm`, `hns`, `hne`: the stepping goroutine is 0); in between the parent has set a=2 in its own context 1 while the
-- waiting child's context 2 still holds the a=1 of the `Fork` call; the child owns no table yet
example : ((waitPoint 6).gs.map fun g => (g.gid, g.started, g.ctx0)) = [(0, true, 0), (1, false, 2)] ∧
    ((waitPoint 8).gs.map fun g => (g.gid, g.started, g.ctx0)) = [(0, true, 0), (1, false, 2)] ∧
    aget "a" ((waitPoint 6).w.ctxs 1).vars = some 1 ∧ aget "a" ((waitPoint 8).w.ctxs 1).vars = some 2 ∧
    aget "a" ((waitPoint 6).w.ctxs 2).vars = some 1 ∧ aget "a" ((waitPoint 8).w.ctxs 2).vars = some 1 ∧
    (waitPoint 8).w.tls 1 = none := by decide

/-- added by the audit — `C14_never_observed_by_two` under ARBITRARY interleavings: at every reachable configuration no context
    has been observed as current by two different goroutines -/
theorem C14s_never_observed_by_two {p : Prog} {c : Cfg} (h : Reachable p c) (g g' : Gid) (ctx lex lex' : CtxId)
    (tag tag' : Option Nat) (st st' : List Nat) (hm : (g, Ev.obs (some ctx) lex tag st) ∈ c.w.log)
    (hm' : (g', Ev.obs (some ctx) lex' tag' st') ∈ c.w.log) : g' = g :=
  (C14s_confined h g g' ctx lex tag st hm).2 (C14s_confined h g' g ctx lex' tag' st' hm').1

/-! ## loader entries under arbitrary interleavings (`Proofs/TlsGhost.lean`) -/

/-- every reachable configuration has a decoration (who a loader was allocated for, who started whom); the semantics never reads it -/
theorem C14s_ghost {p : Prog} {c : Cfg} (h : Reachable p c) : ∃ gh, ReachG p c gh := reachable_ghost h

/-- a micro-step of goroutine `g` writes the entry table of a loader only if that loader was allocated for `g`; the shared
    environment loader `0` is never written -/
theorem C14s_defs_owned {p : Prog} {c : Cfg} {gh : Ghost} (h : ReachG p c gh) (hn : c ≠ Cfg.init p) (i : Nat) (g : GS)
    (hi : c.gs[i]? = some g) (l : LoaderId) (hl : l < c.w.nextLoader) (hne : gh.own l ≠ g.gid ∨ l = 0) :
    (c.step i).w.defs l = c.w.defs l := by
  rcases reachG_inv h with ⟨h0, _⟩ | ⟨hc, hg⟩
  · exact absurd h0 hn
  · exact defs_owned hc hg hi hl hne

/-- definitions made by `g` — and everything else `g` does in a micro-step — are invisible to every goroutine `b` that does not
    descend from `g`: the contexts of `b` (installed for it, or made for it while it waits to start) keep their state and every
    `px.Load` through them answers as before.  At every point of EVERY interleaving. -/
theorem C14s_defs_isolated {p : Prog} {c : Cfg} {gh : Ghost} (h : ReachG p c gh) (i : Nat) (g : GS) (hi : c.gs[i]? = some g)
    (b : Gid) (j : CtxId) (hj : CtxOf c b j) (hna : ¬ Anc gh.par g.gid b) (n : String) :
    (c.step i).w.ctxs j = c.w.ctxs j ∧
    loadEntry (c.step i).w.defs (c.w.ctxs j).loader n = loadEntry c.w.defs (c.w.ctxs j).loader n := by
  rcases reachG_inv h with ⟨h0, _⟩ | ⟨hc, hg⟩
  · subst h0
    rcases hj with hj | ⟨m, hm, hms, _⟩
    · simp [Cfg.init] at hj
    · simp [Cfg.init] at hm; subst hm; simp at hms
  · exact loads_isolated hc hg hi hj hna n

/-- … in particular to every goroutine OLDER than `g` (goroutine ids are handed out in order of creation): the goroutine that
    started `g`, `g`'s older siblings, all their ancestors -/
theorem C14s_defs_invisible_to_older {p : Prog} {c : Cfg} {gh : Ghost} (h : ReachG p c gh) (i : Nat) (g : GS)
    (hi : c.gs[i]? = some g) (b : Gid) (j : CtxId) (hj : CtxOf c b j) (hb : b < g.gid) (n : String) :
    (c.step i).w.ctxs j = c.w.ctxs j ∧
    loadEntry (c.step i).w.defs (c.w.ctxs j).loader n = loadEntry c.w.defs (c.w.ctxs j).loader n := by
  rcases reachG_inv h with ⟨h0, _⟩ | ⟨_, hg⟩
  · subst h0
    rcases hj with hj | ⟨m, hm, hms, _⟩
    · simp [Cfg.init] at hj
    · simp [Cfg.init] at hm; subst hm; simp at hms
  · exact C14s_defs_isolated h i g hi b j hj (not_anc_of_lt hg hb) n

/-- the same over ANY number of micro-steps: whatever goroutines younger than `b` do, in any order and interleaved in any way
    (`YoungerOnly b is c`: every step of the schedule `is` is taken by a goroutine with a larger id), the contexts of `b` keep their
    state and every `px.Load` through them answers as before — a child, its siblings started later and all their descendants can
    define whatever they like -/
theorem C14s_younger_invisible {p : Prog} {c : Cfg} {gh : Ghost} (h : ReachG p c gh) (hn : c ≠ Cfg.init p) (is : List Nat)
    (b : Gid) (j : CtxId) (hj : CtxOf c b j) (hy : YoungerOnly b is c) (n : String) :
    (Cfg.steps is c).w.ctxs j = c.w.ctxs j ∧
    loadEntry (Cfg.steps is c).w.defs (c.w.ctxs j).loader n = loadEntry c.w.defs (c.w.ctxs j).loader n :=
  younger_invisible is h hn hj hy n

/-- non-vacuity: in `sampleInter` after `sampleSched1` (the parent has forked and gone on, the child has started) goroutine 1 was
    started by goroutine 0, context 1 is installed for goroutine 0, goroutine 1 is at index 1 and is younger -/
example : ReachG sampleInter (Cfg.steps sampleSched1 (Cfg.init sampleInter)) (ghSteps sampleSched1 (Cfg.init sampleInter) {}) :=
  reachG_steps _ ReachG.init
example : (ghSteps sampleSched1 (Cfg.init sampleInter) {}).par 1 = 0 ∧
    CtxOf (Cfg.steps sampleSched1 (Cfg.init sampleInter)) 0 1 ∧
    ((Cfg.steps sampleSched1 (Cfg.init sampleInter)).gs[1]?.map (·.gid)) = some 1 ∧ (0 : Gid) < 1 := by
  refine ⟨by decide, Or.inl (by decide), by decide, by decide⟩

example : YoungerOnly 0 [1] (Cfg.steps sampleSched1 (Cfg.init sampleInter)) := by
  refine ⟨fun g hg => ?_, trivial⟩
  have h1 : ((Cfg.steps sampleSched1 (Cfg.init sampleInter)).gs[1]?.map (·.gid)) = some 1 := by decide
  rw [hg] at h1
  have : g.gid = 1 := by simpa using h1
  rw [this]; exact Nat.zero_lt_one
example : Cfg.steps sampleSched1 (Cfg.init sampleInter) ≠ Cfg.init sampleInter := by
  intro h
  have : (Cfg.steps sampleSched1 (Cfg.init sampleInter)).gs.length = (Cfg.init sampleInter).gs.length := by rw [h]
  revert this; decide

/-! ## refinement: every big-step run is an execution of the small-step model (`Proofs/TlsRefine.lean`) -/

/-- full statement: for EVERY program and oracle the big-step run of the harness op is realised by a schedule of micro-steps of
    the small-step semantics that ends with every goroutine ended and the same shared state -/
def C14_refines_full : Prop :=
  ∀ (sched : List Nat) (p : Prog), ∃ steps : List Nat,
    (Cfg.steps steps (Cfg.init p)).w = strip (run .now sched p) ∧
    (∀ g ∈ (Cfg.steps steps (Cfg.init p)).gs, g.done = true)

/-- proved part: whenever the big-step run did not run out of fuel (`oof`; the driver prints `fuel` then).  Missing for the full
    statement: `fuelFor p` is always enough.  `strip` forgets only the big-step model's own scheduling bookkeeping (`pending`, which
    is empty at the end, and the unconsumed rest of the oracle). -/
theorem C14_refines_partial (sched : List Nat) (p : Prog) (hok : (run .now sched p).oof = false) :
    ∃ steps : List Nat,
      (Cfg.steps steps (Cfg.init p)).w = strip (run .now sched p) ∧
      (∀ g ∈ (Cfg.steps steps (Cfg.init p)).gs, g.done = true) ∧ (run .now sched p).pending = [] :=
  run_refines sched p hok

/-- the fuel the op gives (`fuelFor p = 2·size p + 8`) is enough for EVERY program and oracle: the driver never answers `fuel` -/
theorem C14_fuel_enough (sched : List Nat) (p : Prog) : (run .now sched p).oof = false := run_oof sched p

/-- **the refinement at full strength** -/
theorem C14_refines : C14_refines_full := fun sched p =>
  let ⟨steps, h1, h2, _⟩ := run_refines_all sched p
  ⟨steps, h1, h2⟩

/-- … hence the result of a big-step run is the shared state of a REACHABLE final configuration of the small-step model -/
theorem C14_refines_reachable (sched : List Nat) (p : Prog) (hok : (run .now sched p).oof = false) :
    ∃ c : Cfg, Reachable p c ∧ c.w = strip (run .now sched p) ∧ (∀ g ∈ c.gs, g.done = true) := by
  obtain ⟨steps, h1, h2, _⟩ := run_refines sched p hok
  exact ⟨_, reachable_steps steps Reachable.init, h1, h2⟩

/-- the observations are the same: log, goroutine-local tables, context objects, loader entries -/
theorem C14_refines_log (sched : List Nat) (p : Prog) (hok : (run .now sched p).oof = false) :
    ∃ c : Cfg, Reachable p c ∧ c.w.log = (run .now sched p).log ∧ c.w.tls = (run .now sched p).tls ∧
      c.w.ctxs = (run .now sched p).ctxs ∧ c.w.defs = (run .now sched p).defs ∧ c.w.estab = (run .now sched p).estab := by
  obtain ⟨c, hr, hw, _⟩ := C14_refines_reachable sched p hok
  exact ⟨c, hr, by rw [hw]; rfl, by rw [hw]; rfl, by rw [hw]; rfl, by rw [hw]; rfl, by rw [hw]; rfl⟩

/-- an instance of the transfer: `current` for big-step runs, obtained from the small-step invariant `C14s_current` (every
    reachable configuration) through the refinement (it is also proved directly: `C14_current`) -/
theorem C14_run_current_via_small (sched : List Nat) (p : Prog) (hok : (run .now sched p).oof = false)
    (g : Gid) (cur : Option CtxId) (lex : CtxId) (tag : Option Nat) (st : List Nat)
    (hm : (g, Ev.obs cur lex tag st) ∈ (run .now sched p).log) : cur = some lex := by
  obtain ⟨c, hr, hl, _⟩ := C14_refines_log sched p hok
  exact C14s_current hr g cur lex tag st (by rw [hl]; exact hm)

/-- non-vacuity: the runs of the samples above do not run out of fuel -/
example : (run .now [0, 0, 1] sampleNest).oof = false ∧ (run .now [0, 0, 0, 1] sampleFork).oof = false := by decide

/-! ## second tie: the regenerated shape table selects the model variant -/

/-- obligation over the table regenerated from px/context.go, internal/context.go, internal/runtime.go, threadlocal/gid.go on every
    run: the code has the shape the model `Ver.now` mirrors (deferred restore in DoWithContext, Init paired with a deferred
    Cleanup, `c.Fork()` before the `go` statement, goroutine body `defer Cleanup(); Init(); Set`, stack and vars copied into
    fresh storage by `pxContext.Fork`, loader wrapped, Do/Try through a scoped root …).  A change of any of these statements
    breaks THIS theorem (and the harness then looks for a failing program). -/
theorem C14_facts_now : Pcore.CtxFacts.classify Pcore.Generated.ctxFacts = .now := by decide

/-- each named obligation separately (so that a broken build says which one) -/
theorem C14_facts_restoresCurrent : Pcore.CtxFacts.restoresCurrent Pcore.Generated.ctxFacts = true := by decide
theorem C14_facts_releasesTable : Pcore.CtxFacts.releasesTable Pcore.Generated.ctxFacts = true := by decide
theorem C14_facts_forkCopiesInCaller : Pcore.CtxFacts.forkCopiesInCaller Pcore.Generated.ctxFacts = true := by decide
theorem C14_facts_goroutineReleases : Pcore.CtxFacts.goroutineReleases Pcore.Generated.ctxFacts = true := by decide
theorem C14_facts_ctxForkCopies : Pcore.CtxFacts.ctxForkCopies Pcore.Generated.ctxFacts = true := by decide
theorem C14_facts_loaderRestored : Pcore.CtxFacts.loaderRestored Pcore.Generated.ctxFacts = true := by decide
theorem C14_facts_doUsesScopedRoot : Pcore.CtxFacts.doUsesScopedRoot Pcore.Generated.ctxFacts = true := by decide

/-- the variant the driver runs is the one the theorems are about -/
theorem C14_impl_ver : implVer = .now := by
  unfold implVer; rw [C14_facts_now]; rfl

/-- … so they hold of it: instances on the model selected by the table -/
theorem C14_impl_restore (f : Nat) (p : Prog) (g c : Nat) (w : World) (h : Pre g c w) :
    (exec implVer f p g c w).2.tls = w.tls := by rw [C14_impl_ver]; exact C14_restore f p g c w h
theorem C14_impl_current (sched : List Nat) (p : Prog) (g : Gid) (cur : Option CtxId) (lex : CtxId) (tag : Option Nat)
    (st : List Nat) (h : (g, Ev.obs cur lex tag st) ∈ (run implVer sched p).log) : cur = some lex := by
  rw [C14_impl_ver] at h; exact C14_current sched p g cur lex tag st h
theorem C14_impl_released (sched : List Nat) (p : Prog) :
    (∀ g, (run implVer sched p).tls g = none) ∧ live (run implVer sched p) = 0 := by
  rw [C14_impl_ver]; exact C14_released sched p

/-- the hand-written shape of the original code is what `Ver.before` mirrors; it fails exactly the repaired obligations -/
example : verOf (Pcore.CtxFacts.classify Pcore.CtxFacts.factsBefore) = .before := by decide
example : Pcore.CtxFacts.releasesTable Pcore.CtxFacts.factsBefore = false ∧
    Pcore.CtxFacts.forkCopiesInCaller Pcore.CtxFacts.factsBefore = false ∧
    Pcore.CtxFacts.doUsesScopedRoot Pcore.CtxFacts.factsBefore = false := by decide

/-! ## goroutine ids: `threadlocal.getg()` parses what the runtime prints (`Model/Gid.lean`) -/

/-- the digit loop of `getg()` applied to the first 64 bytes of `runtime.Stack` output ("goroutine N [status]:…") returns N,
    for every goroutine id 0 < N < 2^63 (int64 arithmetic, no overflow) -/
theorem C14_getg {n : Nat} (h0 : 0 < n) (hn : n < 2 ^ 63) {rest : List UInt8} (hr : Pcore.Gid.stops rest = true) :
    Pcore.Gid.getg64 (Pcore.Gid.stackBuf n rest) = some (n : Int) := Pcore.Gid.getg64_stackBuf h0 hn hr

/-- distinct goroutines get distinct keys of the goroutine-local table -/
theorem C14_getg_injective {n m : Nat} (h0 : 0 < n) (hn : n < 2 ^ 63) (h0' : 0 < m) (hm : m < 2 ^ 63) {rest rest' : List UInt8}
    (hr : Pcore.Gid.stops rest = true) (hr' : Pcore.Gid.stops rest' = true)
    (h : Pcore.Gid.getg64 (Pcore.Gid.stackBuf n rest) = Pcore.Gid.getg64 (Pcore.Gid.stackBuf m rest')) : n = m :=
  Pcore.Gid.getg64_injective h0 hn h0' hm hr hr' h

/-- the bound is sharp: from 2^63 on the int64 accumulator wraps -/
theorem C14_getg_iff {n : Nat} (h0 : 0 < n) (hn : n < 10 ^ 54) {rest : List UInt8} (hr : Pcore.Gid.stops rest = true) :
    Pcore.Gid.getg64 (Pcore.Gid.stackBuf n rest) = some (n : Int) ↔ n < 2 ^ 63 := Pcore.Gid.getg64_stackBuf_iff h0 hn hr

example : Pcore.Gid.stops (0x20 :: []) = true := by decide

/-! ### … over the constants regenerated from `threadlocal/gid.go` (`Generated/GidFacts.lean`, `Model/GidFacts.lean`) -/

/-- obligation over the regenerated table: `getg()` is the modelled idiom with the standard digit-loop constants (loop from
    byte 10, digits `'0'..'9'`, radix ten from 0, panic on 0); no statement was left unrecognised -/
theorem C14_gid_facts_std : Pcore.Generated.gidFacts.std = true := by decide

/-- obligation over the regenerated table: the slice handed to `runtime.Stack` holds `"goroutine "` and the 19 digits of the
    largest `int64` id.  A smaller buffer breaks THIS theorem (the driver's `hi`/`gidlive` ops then name the first id that is
    cut and the harness looks for live goroutines that share a table). -/
theorem C14_gid_facts_roomy : Pcore.Generated.gidFacts.roomy = true := by decide

/-- the code as it is (constants from the sources): `getg()` returns the printed id for every goroutine id below 2^63 -/
theorem C14_getg_impl {n : Nat} (h0 : 0 < n) (hn : n < 2 ^ 63) {rest : List UInt8} (hr : Pcore.Gid.stops rest = true) :
    Pcore.GidFacts.getg64F Pcore.Generated.gidFacts (Pcore.GidFacts.stackBufF Pcore.Generated.gidFacts n rest) = some (n : Int) :=
  Pcore.GidFacts.getg64F_exact C14_gid_facts_std C14_gid_facts_roomy h0 hn hr

/-- … so goroutines that are alive together never share a goroutine-local table -/
theorem C14_getg_impl_injective {n m : Nat} (h0 : 0 < n) (hn : n < 2 ^ 63) (h0' : 0 < m) (hm : m < 2 ^ 63)
    {rest rest' : List UInt8} (hr : Pcore.Gid.stops rest = true) (hr' : Pcore.Gid.stops rest' = true)
    (h : Pcore.GidFacts.getg64F Pcore.Generated.gidFacts (Pcore.GidFacts.stackBufF Pcore.Generated.gidFacts n rest) =
         Pcore.GidFacts.getg64F Pcore.Generated.gidFacts (Pcore.GidFacts.stackBufF Pcore.Generated.gidFacts m rest')) : n = m :=
  Pcore.GidFacts.getg64F_injective C14_gid_facts_std C14_gid_facts_roomy h0 hn h0' hm hr hr' h

example : 0 < 1234567 ∧ 1234567 < 2 ^ 63 ∧ Pcore.Gid.stops Pcore.GidFacts.restRunning = true := by decide
/-- added by the audit: the CONCLUSIONS on concrete ids — a seven-digit id and the largest `int64` id are read back exactly (the
    latter over the regenerated constants); on the 16-byte table of `C14_getg_collide` the id after the first cut one is read as
    the same key 100 000 -/
example : Pcore.Gid.getg64 (Pcore.Gid.stackBuf 1234567 Pcore.GidFacts.restRunning) = some 1234567 ∧
    Pcore.GidFacts.keyOf Pcore.Generated.gidFacts (2 ^ 63 - 1) = some (2 ^ 63 - 1 : Int) ∧
    Pcore.GidFacts.keyOf Pcore.GidFacts.factsBuf16 1000001 = some 100000 := by decide

/-- the bound of the obligation is sharp, for EVERY table with the standard loop constants: the parser is exact on all ids
    below 2^63 iff `prefixLen + 19 ≤ min stackLen bufLen` -/
theorem C14_getg_buffer_iff {f : Pcore.GidFacts.Facts} (hs : f.std = true) :
    (∀ (n : Nat) (rest : List UInt8), 0 < n → n < 2 ^ 63 → Pcore.Gid.stops rest = true →
      Pcore.GidFacts.getg64F f (Pcore.GidFacts.stackBufF f n rest) = some (n : Int)) ↔ f.roomy = true :=
  Pcore.GidFacts.getg64F_exact_iff hs

/-- when it fails, the concrete id: `10^(room-10)` is a legal id (below 2^63) whose key is its first `room-10` digits (or
    `getg()` panics: no room for a digit); every smaller id is still exact (`C14_getg_below_cut`) -/
theorem C14_getg_first_cut {f : Pcore.GidFacts.Facts} (hs : f.std = true) (hr : f.roomy = false) (rest : List UInt8) :
    0 < f.firstCut ∧ f.firstCut < 2 ^ 63 ∧
    Pcore.GidFacts.getg64F f (Pcore.GidFacts.stackBufF f f.firstCut rest) ≠ some (f.firstCut : Int) ∧
    Pcore.GidFacts.getg64F f (Pcore.GidFacts.stackBufF f f.firstCut rest) =
      if f.room ≤ 10 then none else some ((10 ^ (f.room - 11) : Nat) : Int) :=
  Pcore.GidFacts.getg64F_firstCut hs hr rest

theorem C14_getg_below_cut {f : Pcore.GidFacts.Facts} (hs : f.std = true) {n : Nat} (h0 : 0 < n) (hn : n < 2 ^ 63)
    (hc : n < f.firstCut) {rest : List UInt8} (hst : Pcore.Gid.stops rest = true) :
    Pcore.GidFacts.getg64F f (Pcore.GidFacts.stackBufF f n rest) = some (n : Int) :=
  Pcore.GidFacts.getg64F_exact_below hs h0 hn hc hst

/-- … and two consecutive ids — goroutines started back to back — then share one goroutine-local table -/
theorem C14_getg_collide {f : Pcore.GidFacts.Facts} (hs : f.std = true) (hr : f.roomy = false) (h10 : 10 < f.room)
    (rest rest' : List UInt8) :
    f.firstCut + 1 < 2 ^ 63 ∧
    Pcore.GidFacts.getg64F f (Pcore.GidFacts.stackBufF f f.firstCut rest) =
      Pcore.GidFacts.getg64F f (Pcore.GidFacts.stackBufF f (f.firstCut + 1) rest') :=
  Pcore.GidFacts.getg64F_collide hs hr h10 rest rest'

/-- non-vacuity: the table of the seeded change C14-s8 (16-byte buffer) is standard, not roomy, longer than the prefix; its
    first cut id is 1 000 000, read as 100 000 -/
example : Pcore.GidFacts.factsBuf16.std = true ∧ Pcore.GidFacts.factsBuf16.roomy = false ∧ 10 < Pcore.GidFacts.factsBuf16.room ∧
    Pcore.GidFacts.factsBuf16.firstCut = 1000000 ∧
    Pcore.GidFacts.keyOf Pcore.GidFacts.factsBuf16 1000000 = some 100000 := by decide
/-- non-vacuity of `C14_getg_below_cut` on that table -/
example : 0 < 999999 ∧ 999999 < 2 ^ 63 ∧ 999999 < Pcore.GidFacts.factsBuf16.firstCut := by decide

/-- for the table written by hand from /repo HEAD the parametrised model IS `Model/Gid.lean`'s `getg64` (so `C14_getg` is the
    instance of the general statement at the 64-byte buffer).  Deliberately NOT an obligation over the regenerated table: a
    larger buffer is a harmless change (selftest/C14/harmless-gid-buf128-rename.diff stays green). -/
theorem C14_getg_now_is_getg64 (buf : List UInt8) :
    Pcore.GidFacts.getg64F Pcore.GidFacts.factsNow buf = Pcore.Gid.getg64 buf := Pcore.GidFacts.getg64F_now buf

/-- the driver's guard (`hi`, `gidlive`): on the regenerated table no id in any range below 2^63 is inexact -/
theorem C14_gid_guard (start count : Nat) (h0 : 0 < start) (hlt : start + count ≤ 2 ^ 63) :
    Pcore.GidFacts.firstInexact Pcore.Generated.gidFacts start count = none :=
  Pcore.GidFacts.firstInexact_none C14_gid_facts_std C14_gid_facts_roomy start count h0 hlt
example : 0 < 1000000 ∧ 1000000 + 64 ≤ 2 ^ 63 := by decide

/-! ## the original code (`Ver.before`, tag verif-base) violates the property — witnesses -/

/-- `Do` left its root context set and the table allocated (fixed by 304610f) -/
theorem C14_before_not_released :
    (run .before [] .skip).tls 0 ≠ none ∧ tlGet 0 ctxKey (run .before [] .skip) = some 0 ∧ live (run .before [] .skip) = 1 := by
  decide

/-- `Try` likewise, also when the body panics -/
theorem C14_before_try_not_released :
    tlGet 0 ctxKey (exec .before 9 (.dotry 1 .panic) 0 0 {}).2 = some 0 ∧ (exec .before 9 (.dotry 1 .panic) 0 0 {}).1 = .normal ∧
    tlGet 0 ctxKey (exec .now 9 (.dotry 1 .panic) 0 0 {}).2 = none ∧ (exec .now 9 (.dotry 1 .panic) 0 0 {}).1 = .normal := by
  decide

/-- a nested `Do` replaced the caller's current context by its own root and did not put it back -/
theorem C14_before_nested_do_not_restored :
    (0, Ev.obs (some 2) 1 none []) ∈ (run .before [] (.seq (.dodo 1 .skip) .obs)).log := by decide

/-- `Fork` copied the parent's context when the child started: the child sees what the parent stored AFTER the call -/
theorem C14_before_fork_copy_late :
    (1, Ev.get "a" (some 2)) ∈ (run .before [] (.seq (.set "a" 1) (.seq (.fork (.get "a")) (.set "a" 2)))).log ∧
    (1, Ev.get "a" (some 1)) ∈ (run .now [] (.seq (.set "a" 1) (.seq (.fork (.get "a")) (.set "a" 2)))).log := by decide

/-- … and `C14_fork_view` fails for it: the waiting goroutine holds the parent's own context object -/
theorem C14_before_fork_shares_context (c : CtxId) (p : Prog) (w : World) :
    ∃ t, (spawn .before c p w).pending = w.pending ++ [t] ∧ t.ctx = c :=
  ⟨{ gid := w.nextGid, ctx := c, prog := p }, rfl, rfl⟩

end Pcore.Tls
