import Pcore.Proofs.Parse
namespace Pcore.Syntax
theorem C05_placeholder : True := trivial
end Pcore.Syntax
