import Pcore.Proofs.TypeRT
import Pcore.Proofs.TypedValRT
import Pcore.Proofs.C05Samples
import Pcore.Proofs.FloatLex
/-!
# C05 — Printing and parsing are inverse for types and literal values

Property (properties.jsonl): for every type T, parsing the text that T prints succeeds and yields a type equal to T, and
printing that result gives the same text again; for every literal value (undef, default, booleans, integers, floats,
strings of arbitrary content, regexps, arrays, hashes, types, object instances; not Sensitive) parsing its
program-format text yields a value equal to the original.  Exception: a String type constrained to one exact value
prints as plain String.

Layers (DESIGN §4 C05): (1) characters — quoting ∘ unquoting, decimal rendering ∘ reading; (2) tokens; (3) grammar;
(4) resolution.

Full statement / proved / missing
* layer 1, strings   — `C05_string`: for EVERY string (quotes, backslashes, `$`, control characters, NUL, non-ASCII,
                       U+FFFD …) and every continuation, the lexer reads the literal `PuppetQuote` writes back as exactly
                       that string.  Full strength.
* layer 1, regexps   — `C05_regexp`: the same for `RegexpQuote`, for every source a regexp literal can denote (`rxRep`).
                       Full statement `C05_regexp_full` is FALSE of the code: `C05_regexp_escaped_slash_fails`,
                       `C05_regexp_raw_newline_fails` (known findings C05-regexp-escaped-slash,
                       C05-regexp-raw-newline-nul-fffd: the printed literal denotes an equivalent, not an equal, regexp).
* layer 1, integers  — `C05_int`: `ParseInt(FormatInt(i), 0, 64) = i` for every Int64, including ±2^63 boundaries.
* floats             — decimal conversion is a parameter (`Env.pf` reader, `Env.ff` formatter); proved: every text of the
                       shapes `%g` produces lexes as one float token (`C05_float_text_lexes`), hence a float leaf needs
                       only `env.pf text = some bits` (`C05_float_leaf`).  The driver uses an exact decimal → binary64
                       reader that agrees with `strconv.ParseFloat` on every float the harness generated.
* layers 2–3, values — `C05_value_roundtrip`: for EVERY literal value built from undef, default, booleans, Int64
                       integers, strings of arbitrary content, representable regexps, floats (under the `FloatIO`
                       hypothesis carried by `Lit`), arrays and hashes of any size and nesting, parsing the
                       program-format text gives exactly that value back — through the real lexer model and the
                       recursive descent parser model, with the fuel `parseFile` supplies.  The same theorem covers the
                       WRITTEN form of object instances, `Name('attr' => v, …)` (`Val.obj`, `ObjectToString`: any
                       type name `Seg::Seg…` other than `Deferred`, any literal values incl. nested object literals and
                       type expressions as attribute values, `Name()` for an empty init hash): the text parses to exactly
                       the constructor call `new Name {…}` (`Expr.call`) that `types.ResolveDeferred` hands to `px.New`.
* values holding types — `C05_typed_value_roundtrip`: for every value built from the kinds above AND types of the fragment
                       (`TVal`: a type as an element, as a hash key, as a hash value, at any depth of nesting), the
                       program-format text parses and `types.ResolveDeferred` (`resolveV`: every DeferredType of the parse
                       result is resolved through the positional creators) gives exactly that value back.
                       Missing from the value statement: what `px.New` makes of a parsed constructor call (attribute
                       defaults, `makeValueHash`: the business of the Object model, C17) and the positional constructor-call forms
                       (`Binary('AQ==')`, `SemVer('1.0.0')`) — object instances are checked end to end on the
                       implementation (direct predicate `rt-val` with objects, Parameter, TypedName, Binary, SemVer, URI).
* layers 2–4, types  — `C05_type_roundtrip_partial`: for every type `t` of the modelled fragment in the normal form the
                       creators produce (`WFTy`): parsing the text `t` prints and resolving it through the positional
                       creators yields exactly `t` (hence a type equal to `t` that prints the same text again).
                       Fragment: the parameterless core types, Integer[…], Float[lo, hi] (under the float parameter
                       `FloatIO`, see below; `default` bounds, one-argument form), String[…] (size constrained; the exact-value
                       form directly inside Optional/NotUndef), Boolean[b], Enum[…] (incl. the case-insensitivity flag),
                       Regexp[/…/], Pattern[…], Optional NotUndef Type Sensitive Iterable Iterator, Variant[…],
                       Array[…], Hash[…], Collection[…], Tuple[…] (with and without a size), Struct[{…}] (every key form:
                       `'n'`, `Optional['n']`, `NotUndef['n']`, chosen by `StructType.Parameters` from the optionality of
                       the key and from whether the value type accepts `undef` — `Ty.acceptsUndef` —; any member name,
                       duplicate names, the empty Struct), Runtime['rt', 'name', Regexp[/…/]] (every form that prints
                       the creator accepts; a pattern without a name since /repo f14f4ca:
                       `C05_runtime_pattern_without_name_repaired`),
                       TypeReference['…'] (every string), Callable[p…, lo, hi, block] and
                       Callable[[p…, lo, hi, block], ret] in every shape that prints invertibly (`CallableShape`: see
                       below) — arbitrarily nested, all Int64 bounds, all string contents.
                       The full statement `C05_type_roundtrip_full` (over the whole `Ty`) is false: at the property's
                       stated exception (`C05_exact_string_prints_plain`), and at a known finding of the code
                       (degenerate Callables — witnesses below).  Every other
                       condition of `WFTy` only says "in the normal form the creators produce" (Int64 bounds with
                       lo ≤ hi, a Variant does not have exactly one member, …).
                       Float bounds: decimal float conversion is NOT modelled; the theorem assumes of it exactly `FloatIO`
                       per printed bound `b`: the text the formatter oracle gives (`env.ff b` = `floatGFormat "%g"`)
                       lexes as one float token and the reader oracle (`env.pf` = `strconv.ParseFloat`) maps it back to
                       `b`.  The lexing half is a THEOREM for every shape `floatGFormat` produces (`C05_float_text_lexes`:
                       `[-]D+.D+`, `[-]D+.D+e±D+`, `[-]D+e±D+`), so what is really assumed is `env.pf (env.ff b) = some b`
                       and that `env.ff b` has such a shape (`C05_float_leaf`); the driver's reader is the exact
                       `parseFloat`, its formatter is the implementation's own text (op-line oracle).
                       Callable: the creator `newCallableType3` + `tupleFromArgs(true, …)` and `CallableType.Parameters`
                       are modelled in full, degenerate forms included.  `CallableShape` carves out exactly the shapes that
                       print invertibly; outside it the statement is FALSE of the code (known finding C05-callable-block;
                       witnesses `C05_callable_unit_dropped`, `C05_callable_leading_tuple`).  Since /repo 3d635fb
                       `CallableType.Equals` is structural (before, any two Callables were equal and the "equal type"
                       clause was vacuous for them): the theorem's structural equality is now what the implementation
                       observes, and outside `CallableShape` the re-parsed type is genuinely unequal there too.
                       Modelled and compared on every run but outside the theorem's quantifier: unknown type names (they
                       resolve to a TypeReference) and the second spellings of core names — both resolve to types that are
                       inside it.
                       Missing (no theorem and no model; direct predicate on the implementation only): Init[…], Like,
                       Object, TypeSet, aliases, loadable names and the leaf types with parameters (known findings
                       C05-leaf-type-params, -lazy-type, -nominal-type).
-/
namespace Pcore.Syntax

/-- **strings of arbitrary content** -/
theorem C05_string (il : Char → Bool) (s : Str) (rest : List Sym) :
    nextToken il (syms (puppetQuote s) ++ rest) = .tok ⟨.string, s⟩ rest false :=
  nextToken_puppetQuote il s rest

/-- non-vacuity / the hostile cases: quote, backslash before the closing quote, control character, `$`, U+FFFD, NUL -/
example : puppetQuote ['\'', '\\'] = ['\'', '\\', '\'', '\\', '\\', '\''] := by decide
example : puppetQuote ['a', '\n', '$', '"', '\\'] = ['"', 'a', '\\', 'n', '\\', '$', '\\', '"', '\\', '\\', '"'] := by
  decide
example : nextToken (fun _ => false) (syms (puppetQuote ['\'', '\\']) ++ [.chr ',']) =
    .tok ⟨.string, ['\'', '\\']⟩ [.chr ','] false := C05_string _ _ _

/-- the full-strength statement for regexps (false of the code, see below) -/
def C05_regexp_full : Prop :=
  ∀ (il : Char → Bool) (s : Str) (rest : List Sym),
    nextToken il (syms (regexpQuote s) ++ rest) = .tok ⟨.regexp, s⟩ rest false

/-- **regexps**, for every source a literal can denote -/
theorem C05_regexp (il : Char → Bool) (s : Str) (rest : List Sym) (h : rxRep false s = true) :
    nextToken il (syms (regexpQuote s) ++ rest) = .tok ⟨.regexp, s⟩ rest false :=
  nextToken_regexpQuote il s rest h

/-- non-vacuity: `\d+\\\.` and `a/b` are representable -/
example : rxRep false ['\\', 'd', '+', '\\', '\\', '\\', '.'] = true := by decide
example : rxRep false ['a', '/', 'b'] = true := by decide

/-- known finding C05-regexp-escaped-slash: the source `a\/b` comes back as `a/b` -/
theorem C05_regexp_escaped_slash_fails : ¬ C05_regexp_full := by
  intro h
  have h1 := h (fun _ => false) ['a', '\\', '/', 'b'] []
  have h2 : nextToken (fun _ => false) (syms (regexpQuote ['a', '\\', '/', 'b']) ++ []) =
      .tok ⟨.regexp, ['a', '/', 'b']⟩ [] false := by decide
  rw [h2] at h1
  exact absurd h1 (by decide)

/-- known finding C05-regexp-raw-newline-nul-fffd: a raw newline comes back as the two characters `\n` -/
theorem C05_regexp_raw_newline_fails : ¬ C05_regexp_full := by
  intro h
  have h1 := h (fun _ => false) ['\n'] []
  have h2 : nextToken (fun _ => false) (syms (regexpQuote ['\n']) ++ []) = .tok ⟨.regexp, ['\\', 'n']⟩ [] false := by
    decide
  rw [h2] at h1
  exact absurd h1 (by decide)

/-- **integers**: every Int64 -/
theorem C05_int (i : Int) (hlo : -(int64Bound : Int) ≤ i) (hhi : i < (int64Bound : Int)) :
    parseInt (intText i) = some i :=
  parseInt_intText i hlo hhi

example : parseInt (intText (-9223372036854775808)) = some (-9223372036854775808) := C05_int _ (by decide) (by decide)
example : parseInt (intText 9223372036854775807) = some 9223372036854775807 := C05_int _ (by decide) (by decide)

/-- **literal values**: `parse (printVal v) = v` for every literal value of the modelled kinds.  `Lit env v` says: integers
    are Int64; each regexp source is representable and compiles (`env.rxOK`); each float leaf `(bits, text)` satisfies the
    float parameter (`text` lexes as one float token and `env.pf text = bits`).  Strings are unconstrained. -/
theorem C05_value_roundtrip (env : Env) (v : Val) (hv : Lit env v) :
    parse env (syms (printVal v)) = .value (exprOf v) :=
  value_rt env v hv


/-- non-vacuity: a nested value with hostile strings, boundary integers, a regexp, an empty array and an empty hash -/
def sampleVal : Val :=
  .hash [(.str ['\'', '\\'], .arr [.int (-9223372036854775808), .undef, .arr [], .hash []]),
         (.regexp ['\\', 'd', '+', '/'], .str ['a', '\n', '$', runeError]), (.int 9223372036854775807, .bool true), (.dflt, .bool false)]
example : Lit envEx sampleVal := by
  simp only [sampleVal, Lit, LitE, LitL, envEx]
  decide
example : parse envEx (syms (printVal sampleVal)) = .value (exprOf sampleVal) :=
  C05_value_roundtrip envEx sampleVal (by simp only [sampleVal, Lit, LitE, LitL, envEx]; decide)

/-- non-vacuity for object literals (`sampleObj`, `sampleObj_lit` in Proofs/C05Samples.lean): a qualified type name, a type
    expression and a nested object literal as attribute values parse to the constructor call `new My::Lim {…}` -/
example : parse envEx (syms (printVal sampleObj)) =
    .value (.call (some "new".toList) [.str "My::Lim".toList, .hash [(.str "name".toList, .str ['i', 't', '\'', 's']),
      (.str "type".toList, .dtype "Optional".toList (some [.dtype "String".toList (some [.int 1])])),
      (.str "value".toList, .arr [.int 1, .call (some "new".toList) [.str "Pt".toList]])]]) :=
  C05_value_roundtrip envEx sampleObj sampleObj_lit
example : printVal sampleObj =
    "My::Lim('name' => 'it\\'s', 'type' => Optional[String[1]], 'value' => [1, Pt()])".toList := by decide +kernel

/-- **the lexing half of the float parameter is a theorem** for every text of the shapes `floatGFormat` produces —
    `[-]D+.D+`, `[-]D+.D+e±D+`, `[-]D+e±D+` —: followed by a continuation the printer produces it is read back as ONE float
    token with exactly that text, provided the letter oracle does not take `,` `]` `}` `)` or a blank for a letter (the
    exponent path asks `unicode.IsLetter` about the character after the digits).  What remains assumed of decimal float
    conversion (`FloatIO`, `Lit (.float b t)`) is only `env.pf t = some b`: the reader maps the formatter's text back to
    the same bits. -/
theorem C05_float_text_lexes (il : Char → Bool) (hil : StopNotLetter il) (neg : Bool) (c : Char) (t : FTail)
    (hc : isDigit c = true) (ht : t.OK) (k : List Sym) (hk : stopOK k = true) :
    nextToken il (syms ((if neg then ['-'] else []) ++ c :: t.text) ++ k) =
      .tok ⟨.float, (if neg then ['-'] else []) ++ c :: t.text⟩ k false := by
  cases neg with
  | true => simpa using nextToken_float_neg il hil c t hc ht k hk
  | false => simpa using nextToken_float_pos il hil c t hc ht k hk

/-- hence a float leaf is well-formed as soon as its text has such a shape and the reader maps it to its bits -/
theorem C05_float_leaf (env : Env) (hil : StopNotLetter env.isLetter) (b : Nat) (neg : Bool) (c : Char) (t : FTail)
    (hc : isDigit c = true) (ht : t.OK) (hpf : env.pf ((if neg then ['-'] else []) ++ c :: t.text) = some b) :
    Lit env (.float b ((if neg then ['-'] else []) ++ c :: t.text)) :=
  ⟨fun k hk => C05_float_text_lexes env.isLetter hil neg c t hc ht k hk, hpf⟩

/-- non-vacuity: the oracle of the examples satisfies the side condition; `1.2345678925e+08`, `5e-324`, `-0.00000`,
    `1e+21` have the shapes (texts the implementation prints for 123456789.25, the smallest subnormal, -0.0, 1e21) and, with
    the exact reader, are float leaves -/
def envP : Env := { isLetter := fun c => isUpper c || isLower c, rxOK := fun _ => true, pf := parseFloat }
example : StopNotLetter envP.isLetter := by simp only [StopNotLetter, envP]; decide
example : Lit envP (.float 4728057454363934720 "1.2345678925e+08".toList) :=
  C05_float_leaf envP (by simp only [StopNotLetter, envP]; decide) _ false '1'
    (.fracExp [] '2' "345678925".toList '+' '0' ['8']) (by decide) (by simp only [FTail.OK]; decide)
    (by simp only [envP]; decide +kernel)
example : Lit envP (.float 1 "5e-324".toList) :=
  C05_float_leaf envP (by simp only [StopNotLetter, envP]; decide) _ false '5' (.exp [] '-' '3' ['2', '4']) (by decide)
    (by simp only [FTail.OK]; decide) (by simp only [envP]; decide +kernel)
example : Lit envP (.float 9223372036854775808 "-0.00000".toList) :=
  C05_float_leaf envP (by simp only [StopNotLetter, envP]; decide) _ true '0' (.frac [] '0' "0000".toList) (by decide)
    (by simp only [FTail.OK]; decide) (by simp only [envP]; decide +kernel)
example : Lit envP (.float 4921056587992461136 "1e+21".toList) :=
  C05_float_leaf envP (by simp only [StopNotLetter, envP]; decide) _ false '1' (.exp [] '+' '2' ['1']) (by decide)
    (by simp only [FTail.OK]; decide) (by simp only [envP]; decide +kernel)

/-- non-vacuity of the float parameter: for `D+.D+` texts the lexing half is a theorem; the conversion half is whatever
    `env.pf` is (the driver uses the exact reader `parseFloat`, e.g. `parseFloat "1.5" = 0x3FF8000000000000`) -/
example (env : Env) (h : env.pf ['1', '.', '5'] = some 4609434218613702656) :
    Lit env (.arr [.float 4609434218613702656 ['1', '.', '5']]) := by
  simp only [Lit, LitL, and_true]
  exact ⟨fun k hk => nextToken_simple_float env.isLetter '1' [] '5' [] k (by decide) (by simp) (by decide) (by simp) hk, h⟩

/-- **values holding types**: `resolveDeferred (parse (print v)) = v`.  `WFV env v`: as `Lit` for the scalar leaves (a float
    leaf carries the formatter oracle's text), `WFTy` for every held type. -/
theorem C05_typed_value_roundtrip (env : Env) (v : TVal) (h : WFV env v) : parseTVal env (syms (printTVal v)) = some v :=
  typed_value_rt env v h

/-! ### types -/

/-- the full-strength statement over the modelled type terms (false: see `C05_exact_string_prints_plain`) -/
def C05_type_roundtrip_full : Prop :=
  ∀ (env : Env) (t : Ty), parseType env (syms (printTy t)) = some t

/-- **types**: `resolve (parse (print t)) = t` on the fragment.  `WFTy env t`: bounds are Int64 with lo ≤ hi, Float bounds
    satisfy `FloatIO` and min ≤ max, names are
    core type names, regexp sources are representable and compile, a case-insensitive Enum holds values that `strings.ToLower`
    (`lowerStr`: Go's simple case mapping over the regenerated `unicode.CaseRanges` table) leaves unchanged, a Variant does not have exactly one member (`Variant[T]` *is* `T`), and an exact-value String occurs only
    directly inside Optional / NotUndef (elsewhere it prints as plain String — the property's stated exception); a Struct
    member has a non-empty name (its key may or may not be optional, its value type may or may not accept `undef`: all
    four combinations are normal forms, see `C05_struct_key_forms`). -/
theorem C05_type_roundtrip_partial (env : Env) (t : Ty) (h : WFTy env t) :
    parseType env (syms (printTy t)) = some t :=
  type_rt env t h

/-- consequence in the property's own words: the re-parsed type prints the same text again -/
theorem C05_type_reprint (env : Env) (t : Ty) (h : WFTy env t) :
    ∃ t', parseType env (syms (printTy t)) = some t' ∧ printTy t' = printTy t :=
  ⟨t, type_rt env t h, rfl⟩

/-- non-vacuity: a nested type with every kind of parameter -/
def sampleTy : Ty :=
  .hash (.wrap .optional (.strVal ['i', 't', '\'', 's']))
    (.variant [.array (.int (-9223372036854775808) 5) 1 9223372036854775807, .enum [['a'], ['b', '\\']] true,
               .pattern [['\\', 'd', '+'], []], .wrap .type_ (.strSz 0 10), .array tyUnit 0 0, .named "Data".toList,
               .tuple [.bool (some true), .regexp ['a', '/', 'b']] (some (1, 9223372036854775807)), .tuple [tyString] none])
    2 2
example : WFTy envEx sampleTy := by
  simp only [sampleTy, WFTy, WFTys, inI64, i64min, i64max, tyUnit, tyString, envEx]
  decide
example : parseType envEx (syms (printTy sampleTy)) = some sampleTy :=
  C05_type_roundtrip_partial envEx sampleTy (by
    simp only [sampleTy, WFTy, WFTys, inI64, i64min, i64max, tyUnit, tyString, envEx]; decide)

/-- non-vacuity of the float parameter on types (`envF`, `sampleFloats`, `sampleFloats_wf` in Proofs/C05Samples.lean): with
    the exact reader `parseFloat` and a formatter that answers what the implementation prints for 1.5 and 2500.0 -/
example : ∀ t ∈ sampleFloats, parseType envF (syms (printTy t)) = some t :=
  fun t ht => C05_type_roundtrip_partial envF t (sampleFloats_wf t ht)
example : printTy (.float 4609434218613702656 "1.50000".toList 4657715973212602368 "2500.00".toList) =
    "Float[1.50000, 2500.00]".toList := by decide +kernel

/-- non-vacuity: Runtime in each of its printable forms, TypeReference (also the default's own string, and a string that
    needs quoting), inside the old forms -/
def sampleNominal : Ty :=
  .tuple [.runtime "ruby".toList [] none, .runtime "ruby".toList ['n'] none, .runtime "go".toList [] none,
          .runtime ['r'] ['n'] (some ['a', '/', 'b']), .runtime ['r'] ['n'] (some []), .runtime [] [] none,
          .runtime [] ['x'] none, .runtime [] ['x'] (some ['a']), .runtime ['r'] [] (some ['a']), .runtime [] [] (some []),
          .typeRef ['M', 'y', ':', ':', 'T'], .typeRef unresolvedRef, .typeRef ['\'', '\\'], .typeRef [],
          .struct [(['c'], false, .callable none none none)]] none
example : WFTy envEx sampleNominal := by
  simp only [sampleNominal, WFTy, WFTys, WFMs, envEx]
  decide
example : parseType envEx (syms (printTy sampleNominal)) = some sampleNominal :=
  C05_type_roundtrip_partial envEx sampleNominal (by simp only [sampleNominal, WFTy, WFTys, WFMs, envEx]; decide)

/-- non-vacuity: Callables in every invertible shape (`sampleCallables`, `sampleCallables_wf` in Proofs/C05Samples.lean) -/
example : ∀ t ∈ sampleCallables, parseType envEx (syms (printTy t)) = some t :=
  fun t ht => C05_type_roundtrip_partial envEx t (sampleCallables_wf t ht)
example : sampleCallables.map printTy =
    ["Callable[0, 0]", "Callable[1, 2]", "Callable[0, default, Callable]", "Callable[String, Integer[0, 5]]",
     "Callable[String, 1, default, Optional[Callable]]", "Callable[[], Undef]", "Callable[Callable[String]]",
     "Callable[[Tuple[String], Callable, Callable[0, 0]], Integer[0, 1]]",
     "Struct[{'f' => Callable[[Struct[{'a' => Any}], 0, 1], Any]}]", "Array[Callable[Callable, String], 0, 3]"].map
      String.toList := by decide +kernel

/-- outside `CallableShape` the round trip fails (known finding C05-callable-block): a `Unit` parameter is not printed, so
    the text is that of the Callable without it … -/
theorem C05_callable_unit_dropped :
    parseType envEx (syms (printTy (.callable (some ([tyString, tyUnit], none)) none none))) =
      some (.callable (some ([tyString], none)) none none) := by
  have e : printTy (.callable (some ([tyString, tyUnit], none)) none none) =
      printTy (.callable (some ([tyString], none)) none none) := by decide +kernel
  rw [e]
  exact C05_type_roundtrip_partial envEx _ (by
    simp only [WFTy, WFTys, WFOpt, CallableShape, sizeOK, tyString, envEx]; decide)
/-- … and a leading Tuple parameter is read back as the whole parameter Tuple, the second parameter as the block:
    `Callable[Tuple[String], Callable]` resolves to the Callable that prints `Callable[String, Callable]` -/
theorem C05_callable_leading_tuple :
    parseType envEx (syms (printTy (.callable (some ([.tuple [tyString] none, .callable none none none], none)) none none))) =
      some (.callable (some ([tyString], none)) none (some (.callable none none none))) := by
  have hts : WFTys envEx [.tuple [tyString] none, .callable none none none] := by
    simp only [WFTys, WFTy, tyString, envEx]; decide
  have hexpr : tyExpr (.callable (some ([.tuple [tyString] none, .callable none none none], none)) none none) =
      tname .callable (tyExprs [.tuple [tyString] none, .callable none none none]) := by
    simp [tyExpr, tyExprsNU, tyExprs, tyExprOpt, callableVal, tupleSizeVals, Ty.isUnit]
  have hlit := lit_tname envEx .callable _ (litL_tyExprs envEx _ hts)
  unfold parseType printTy
  rw [hexpr, C05_value_roundtrip envEx _ hlit]
  simp only [resolve_tname, tyExprs_isEmpty, resolveArgs_tyExprs envEx _ hts]
  simp [createK, callableCreate, callableTupleForm, argTy]

/-- non-vacuity of the typed-value theorem: types as array elements, as hash keys and values, nested containers, next to
    scalar leaves with hostile strings -/
def sampleTVal : TVal :=
  .hash [(.ty (.int 1 2), .arr [.ty (.struct [(['a'], true, tyAny)]), .str ['\'', '\\'], .ty (.callable (some ([tyString], none)) none none)]),
         (.str ['k'], .hash [(.ty (.wrap .optional (.strVal ['x'])), .ty (.typeRef ['M', 'y', ':', ':', 'T']))]),
         (.arr [.ty tyString, .int 5], .undef)]
example : WFV envEx sampleTVal := by
  simp only [sampleTVal, WFV, WFVs, WFVEs, WFTy, WFTys, WFMs, WFOpt, CallableShape, sizeOK, inI64, i64min, i64max, tyAny,
    tyString, envEx]
  decide
example : parseTVal envEx (syms (printTVal sampleTVal)) = some sampleTVal :=
  C05_typed_value_roundtrip envEx sampleTVal (by
    simp only [sampleTVal, WFV, WFVs, WFVEs, WFTy, WFTys, WFMs, WFOpt, CallableShape, sizeOK, inI64, i64min, i64max, tyAny,
      tyString, envEx]
    decide)
example : printTVal sampleTVal =
    "{Integer[1, 2] => [Struct[{'a' => Any}], '\\'\\\\', Callable[String]], 'k' => {Optional['x'] => TypeReference['My::T']}, [String, 5] => undef}".toList := by
  decide +kernel

/-- finding C05-runtime-pattern-without-name (found in this slice, repaired by /repo f14f4ca).  Before the fix
    `RuntimeType.Parameters` left an empty name out even when a pattern followed, so `Runtime['r', '', Regexp[/a/]]` printed
    the parameter list (runtime, pattern) — which the positional creator refuses, then as now: -/
theorem C05_runtime_pattern_without_name_before_fix (rt src : Str) :
    runtimeCreate [.str rt, .ty (.regexp src)] = none := by
  simp [runtimeCreate]
/-- … after the fix the empty name is printed when a pattern follows, and the former witness round-trips (it is inside
    `WFTy`: a pattern no longer needs a name) -/
theorem C05_runtime_pattern_without_name_repaired :
    printTy (.runtime ['r'] [] (some ['a'])) = "Runtime['r', '', Regexp[/a/]]".toList ∧
    parseType envEx (syms (printTy (.runtime ['r'] [] (some ['a'])))) = some (.runtime ['r'] [] (some ['a'])) :=
  ⟨by decide +kernel, C05_type_roundtrip_partial envEx _ (by simp only [WFTy, envEx]; decide)⟩

/-- a case-insensitive Enum with non-ASCII values: `strings.ToLower` is Go's simple case mapping (regenerated table), e.g.
    `É` ↦ `é`; values that are their own lower case are in normal form and round-trip -/
example : lowerStr ['É', 'c', 'K'] = ['é', 'c', 'k'] := by decide +kernel
example : WFTy envEx (.enum [['é', 'c'], ['ß']] true) := by
  simp only [WFTy, envEx]
  decide +kernel
example : parseType envEx (syms (printTy (.enum [['é', 'c'], ['ß']] true))) = some (.enum [['é', 'c'], ['ß']] true) :=
  C05_type_roundtrip_partial envEx _ (by simp only [WFTy, envEx]; decide +kernel)

/-- the four key forms of a Struct member: optional key + value accepting `undef` and required key + value refusing it
    print the bare name; the other two need `Optional['n']` / `NotUndef['n']` -/
def sampleStruct : Ty :=
  .struct [(['a'], true, .wrap .optional (.int 0 1)), (['b'], true, .int 0 1), (['c'], false, tyAny), (['d'], false, .int 0 1)]
theorem C05_struct_key_forms :
    printTy sampleStruct =
      "Struct[{'a' => Optional[Integer[0, 1]], Optional['b'] => Integer[0, 1], NotUndef['c'] => Any, 'd' => Integer[0, 1]}]".toList := by
  decide +kernel
example : parseType envEx (syms (printTy sampleStruct)) = some sampleStruct :=
  C05_type_roundtrip_partial envEx sampleStruct (by
    simp only [sampleStruct, WFTy, WFMs, inI64, i64min, i64max, tyAny, envEx]; decide)

/-- non-vacuity, nested both ways: a Struct inside Array / Variant / Optional, and the old forms (and an empty Struct, a
    duplicate name, a name that needs quoting) inside a Struct -/
def sampleStruct2 : Ty :=
  .array (.variant [.wrap .optional sampleStruct,
    .struct [(['i', 't', '\'', 's', ' ', '\\'], false, .hash tyString (.struct [(['k'], true, .struct [])]) 0 5),
             (['k'], true, .wrap .notUndef (.strVal ['v'])), (['k'], false, .variant [.named "Undef".toList, .enum [['x']] false])]])
    1 3
example : WFTy envEx sampleStruct2 := by
  simp only [sampleStruct2, sampleStruct, WFTy, WFTys, WFMs, inI64, i64min, i64max, tyAny, tyString, envEx]
  decide
example : parseType envEx (syms (printTy sampleStruct2)) = some sampleStruct2 :=
  C05_type_roundtrip_partial envEx sampleStruct2 (by
    simp only [sampleStruct2, sampleStruct, WFTy, WFTys, WFMs, inI64, i64min, i64max, tyAny, tyString, envEx]; decide)

/-- the stated exception is real: `String['x']` prints as `String`, which resolves to the unconstrained String -/
theorem C05_exact_string_prints_plain : ¬ C05_type_roundtrip_full := by
  intro h
  have h1 := h envEx (.strVal ['x'])
  have e0 : tyExpr (.strVal ['x']) = tyExpr tyString := by
    unfold tyString
    rw [tyExpr, tyExpr]
    rfl
  have e : printTy (.strVal ['x']) = printTy tyString := by
    unfold printTy; rw [e0]
  have hwf : WFTy envEx tyString := by
    simp only [tyString, WFTy]; decide
  rw [e, C05_type_roundtrip_partial envEx tyString hwf] at h1
  simp [tyString] at h1

end Pcore.Syntax
