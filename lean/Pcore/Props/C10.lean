import Pcore.Proofs.SerPlain
import Pcore.Proofs.SerB64
import Pcore.Proofs.SerShared
import Pcore.Proofs.SerArms
import Pcore.Proofs.SpanCodec
import Pcore.Generated.SerArms
/-!
# C10 — Rich-data serialization round-trips under every option and consumer capability

Property (properties.jsonl): for every rich-data value and every combination of serializer options
{rich_data, local_reference, dedup_level 0..2} and consumer capabilities {binary, complex keys, string de-dup
threshold}, deserializing the emitted event stream yields a value equal to the original (Sensitive by wrapped
content).  The stream is well formed: every back-reference points to an earlier position that held an equal value,
hashes receive alternating keys and values, and only plain Data is emitted for capabilities the consumer lacks.
(Reading for rich_data=false: the stream laws hold for every value; the round trip is claimed for Data values.)

The option matrix is a QUANTIFIER here: `∀ (o : Opts) (cp : Caps)` — `cp.thr` is any natural number, `o.dedup` any
natural number (the op syntax uses 0..2).  Model: `Pcore/Model/Ser.lean` (serializer.go, basiccollector.go,
deserializer.go as they are now).

Full statement / proved / missing
* `C10_positions`        — PROVED, every value: whenever the serializer's `refIndex` equals the number of positions the
                           collector holds, it does so again after any `toData` call whose event the collector accepted
                           (the key invariant: both advance by `Ev.npos`).
* `C10_hash_alternation` — PROVED, every value: every hash of the stream has an even number of children (key, value, …).
* `C10_caps`             — PROVED, every value: no Binary is handed to a consumer without binary support; a consumer
                           without complex-key support receives only plain strings as hash keys (not even references).
                           "Only Data is emitted" is true by construction of the model (`Ev.add` carries `Sc` only; the
                           harness checks on the implementation that `Add` never receives anything else: `rich-leak`).
* `C10_refs_wellformed`  — PROVED, every value with coherent sharing: resolving the references of the emitted stream
                           (`expand`: a reference must name an EARLIER, COMPLETED position) succeeds and gives exactly
                           the stream the serializer emits with local_reference=false — i.e. every reference stands for
                           a position that held the value it replaces.
* `C10_roundtrip_partial` — (full statement: `C10_roundtrip_full`, refuted by `C10_reserved_key_collision`) PROVED for DAGs (shared arrays, hashes, strings, Sensitive, Binary, leaves, types — anonymous
                           and named ones the loader knows —, object instances; non-string keys; hashes as keys) under
                           two hypotheses:
                             `Shared`  equal identities carry equal values (what "the same object twice" means),
                             `Frag`    no user hash that the deserializer re-interprets (all keys strings, one of them
                                       `__ptype`): known finding C10-reserved-ptype-key, negation `C10_reserved_key_collision`;
                                       object instances are of the catalogue's types and their attribute names are
                                       not the reserved keys; a Timespan payload is the text of some duration; and
                                       with rich_data=false the value is Data (Binary included when the consumer takes
                                       Binary as it is).  Nothing else is excluded: see "What `Frag` excludes" below.
                           Leaf codecs INSIDE the model: Binary = base64, proved to invert (`unb64_b64`); Timespan =
                           the default format `%D-%H:%M:%S.%-N` as timespantype.go prints and parses it, proved to
                           invert for every number of nanoseconds (`C10_span_codec`); Regexp = the identity on the
                           pattern source (that is what the code does; only "the source compiles" is outside).
* read with care (audit): the stream laws hold "for every value" of the MODEL's value type, including the matrix cells
                           the model does not render faithfully (`V.disp` of a float / container used as a non-string key
                           with rich_data=false and no complex keys is the placeholder "?float"/"?array"/"?hash"; `V.dispOk`
                           is false there and those cells run on the implementation only): there the laws are true of the
                           model but say nothing about the code.  `r.abs = v.abs` compares content only — that a shared
                           object comes back shared is not claimed.  For SemVer/SemVerRange/Timestamp/URI/type text the
                           round trip is built into `decodeLeaf` (the decoder returns the payload): a restatement for
                           those leaves; Binary and Timespan are real codecs.
* `C10_arms_ok`          — obligation over the table regenerated from serializer.go (second tie): the emit discipline the
                           model executes is the code's; `C10_impl_*` are the theorems instantiated on that table.
* missing: that the deserializer REGISTERS type definitions that arrive in the stream (`newTypes`, `AddTypes`; the
  definitions themselves are modelled, as instances of Pcore::ObjectType, and covered by `C10_roundtrip_partial`);
  objects with defaulted / typed attributes beyond "the init hash comes back" (C17); RuntimeValue;
  the real leaf codecs (Regexp, SemVer, SemVerRange, Timespan, Timestamp, URI, type text): a leaf is an abstract payload
  `enc` and decoding a `__pvalue` string of a known type name returns it — exercised on the implementation by the direct
  predicate only; `String()` of floats/containers used as non-string keys with rich_data=false and no complex-key
  support (those matrix cells run on the implementation only).
-/
namespace Pcore.Ser

/-- "the same object used twice": there is an assignment of a reference-free event to every identity (strings: by
    content) with which every node of `v` agrees -/
def Shared (c : Cfg) (v : V) : Prop := ∃ F : Key → Ev, FStr F ∧ Coh c F v

/-- `Shared` is implied by the decidable check the driver runs on every op value (every node agrees with the first
    node of its identity) -/
theorem C10_shared_of_check (c : Cfg) (v : V) (h : sharedB c v = true) : Shared c v := sharedB_sound c v h

theorem mkCfg_keys (o : Opts) (cp : Caps) : cp.cplx = false → (mkCfg o cp).cplx = false ∧ (mkCfg o cp).dedup ≤ 1 := by
  intro h
  refine ⟨by simp [mkCfg, h], ?_⟩
  simp only [mkCfg, h, and_true]
  split <;> split <;> omega

/-! ### stream laws — every value, every option, every capability -/

/-- the position invariant: serializer's refIndex = number of positions the collector has, maintained by every
    `toData` call (so also at every intermediate point of a `Convert`) -/
theorem C10_positions (c : Cfg) (level : Nat) (v : V) (st : St) (vals : List Slot) (d : V) (vals' : List Slot)
    (h0 : st.ref = vals.length) (hc : collect (toData c level v st).1 vals = .ok (d, vals')) :
    (toData c level v st).2.ref = vals'.length := by
  have h1 := (toData_good c false false (by simp) (by simp) level v st).2
  have h2 := collect_len _ _ _ _ hc
  omega

theorem C10_hash_alternation (o : Opts) (cp : Caps) (v : V) : (serialize o cp v).wf false false = true :=
  (toData_good (mkCfg o cp) false false (by simp) (by simp) 1 v St.init).1

/-- `wf sk nb`: with `sk` every hash key is a plain string event, with `nb` no Binary event occurs -/
theorem C10_caps (o : Opts) (cp : Caps) (v : V) : (serialize o cp v).wf (!cp.cplx) (!cp.bin) = true :=
  (toData_good (mkCfg o cp) (!cp.cplx) (!cp.bin)
    (fun h => mkCfg_keys o cp (by simpa using h)) (fun h => by simpa [mkCfg] using h) 1 v St.init).1

theorem Inv.init (F : Key → Ev) : Inv F St.init [] := ⟨rfl, fun k p h => by simp [St.init] at h⟩

/-- every back-reference names an earlier completed position holding the value it stands for: resolving them gives the
    reference-free stream -/
theorem C10_refs_wellformed (o : Opts) (cp : Caps) (v : V) (hS : Shared (mkCfg o cp) v) :
    ∃ env, expand (serialize o cp v) [] = some (serialize { o with localRef := false } cp v, env) := by
  obtain ⟨F, hF, hC⟩ := hS
  obtain ⟨env, he, _, _⟩ := toData_step (mkCfg o cp) F hF 1 v St.init [] (Inv.init F) hC
  refine ⟨env, ?_⟩
  have h0 : (mkCfg { o with localRef := false } cp).dedup = 0 := by simp [mkCfg]
  have : serialize { o with localRef := false } cp v = plain (mkCfg o cp) v := by
    unfold serialize
    rw [toData_nodedup _ h0]
    exact plain_congr _ _ (by simp [mkCfg]) (by simp [mkCfg]) (by simp [mkCfg]) v
  rw [this]; exact he

/-! ### round trip -/

theorem Rel.init : Rel [] [] := ⟨rfl, fun p h => by simp at h, fun p x h => by simp at h⟩
theorem CInv.init : CInv [] := fun p t h => by simp at h
theorem MInv.init (G : Nat → Option D) : MInv G DS.init.memo := fun i r h => by simp [DS.init] at h

/-- deserializing the emitted stream yields the original value (identities aside; Sensitive by content) -/
theorem C10_roundtrip_partial (o : Opts) (cp : Caps) (v : V) (hS : Shared (mkCfg o cp) v) (hf : Frag (mkCfg o cp) v) :
    ∃ r, deserialize (serialize o cp v) = .ok r ∧ r.abs = v.abs := by
  obtain ⟨F, hF, hC⟩ := hS
  -- the references resolve to the reference-free stream
  obtain ⟨env, he, _, _⟩ := toData_step (mkCfg o cp) F hF 1 v St.init [] (Inv.init F) hC
  -- which reads back, identity-free, as the original
  obtain ⟨d0, hd1, hd2, _, _⟩ := plain_trip (mkCfg o cp) unb64_b64 v hf
  -- the collector builds that Data …
  obtain ⟨d, vals', hc, hd, _⟩ := collect_rel _ [] _ env [] d0 he Rel.init hd1
  -- … with consistent identities, so the memo is transparent
  obtain ⟨_, hcons, _⟩ := collect_cons _ [] d vals' hc CInv.init
  obtain ⟨r, ds', hr, hra, _⟩ := convert_cnv (Gof vals') d DS.init v.abs hcons (MInv.init _) (by rw [hd]; exact hd2)
  refine ⟨r, ?_, hra⟩
  unfold deserialize serialize
  rw [hc]; simp only []; rw [hr]

/-! ### leaf codecs inside the model -/

/-- the Timespan codec (default format) inverts: parsing what `format` prints gives the duration back, for every number
    of nanoseconds, negative ones and fractions with leading zeroes included -/
theorem C10_span_codec (ns : Int) : parseSpan (printSpan ns) = some ns := span_codec ns

/-- so every Timespan has a payload that meets the round-trip theorem's hypothesis -/
theorem C10_span_canonical (ns : Int) : canonLeaf .ts (printSpan ns) = true := canonSpan_printSpan ns

example : (printSpan (-50000000) == "-0-00:00:00.05") = true ∧ (printSpan 90500000000 == "0-00:01:30.5") = true ∧
    parseSpan "1-1:2:3.4" = some 90123400000000 := by decide

/-! ### non-vacuity: the hypotheses are satisfiable by a non-trivial DAG, for every option and capability -/

def longStr : String := "a string long enough to be de-duplicated"

/-- a hash with non-string keys (one of them an array) holding a Sensitive Binary; used twice; next to a shared long
    string, a shared Regexp leaf, a Timespan (content identity) and `default` -/
def sampleHash : V :=
  .hash 2 [(.int 1, .str longStr), (.arr 3 [.int 1, .str "k"], .sens 4 (.bin 5 [1, 2, 3])), (.str "s", .dflt)]
def sampleDag : V :=
  .arr 1 [sampleHash, sampleHash, .str longStr, .leaf 6 .rx "a.*b" "/a.*b/", .leaf 6 .rx "a.*b" "/a.*b/",
    .leaf 7 .ts "0-00:01:30.5" "90", .leaf 8 .ts "0-00:01:30.5" "90", .hash 9 [(sampleHash, .str longStr)]]

example : ∀ rich bin cplx, sharedB (mkCfg ⟨rich, true, 2⟩ ⟨bin, cplx, 0⟩) sampleDag = true := by decide
example : sampleDag.noRes = true := by decide
/-- the stream for the default options has back-references to the hash, the string, the leaf and the Timespan -/
example : serialize ⟨true, true, 2⟩ ⟨true, true, 0⟩ (.arr 1 [sampleHash, sampleHash, .str longStr]) =
    .arr [.hsh [.add (.int 1), .add (.str longStr),
                .arr [.add (.int 1), .add (.str "k")],
                .hsh [.add (.str "__ptype"), .add (.str "Sensitive"), .add (.str "__pvalue"), .add (.bin [1, 2, 3])],
                .add (.str "s"), .hsh [.ref 8, .add (.str "Default")]],
          .ref 1, .ref 3] := by rfl
/-- the theorems apply to it: for every threshold, with rich data -/
example (cp : Caps) (dedup : Nat) (lref : Bool) (h : sharedB (mkCfg ⟨true, lref, dedup⟩ cp) sampleDag = true) :
    ∃ r, deserialize (serialize ⟨true, lref, dedup⟩ cp sampleDag) = .ok r ∧ r.abs = sampleDag.abs :=
  C10_roundtrip_partial _ _ _ (C10_shared_of_check _ _ h) ⟨by decide, fun h => by simp [mkCfg] at h⟩
/-- … and a Data value with rich_data=false, shared array and string -/
def sampleData : V := .arr 1 [.arr 2 [.str longStr, .flt 4609434218613702656], .arr 2 [.str longStr, .flt 4609434218613702656],
  .hash 3 [(.str "k", .str longStr), (.str "__pvalue", .undef)]]
example : ∃ r, deserialize (serialize ⟨false, true, 2⟩ ⟨false, false, 20⟩ sampleData) = .ok r ∧ r.abs = sampleData.abs :=
  C10_roundtrip_partial _ _ _ (C10_shared_of_check _ _ (by decide)) ⟨by decide, fun _ => by decide⟩
/-- … and object instances (shared, nested, holding a Sensitive) with named and anonymous types -/
def samplePair : V := .obj 2 "Verif::Pair" "Verif::Pair('a' => 1, 'b' => …)" [("a", .int 1), ("b", .sens 3 (.str longStr))]
def sampleObjs : V :=
  .arr 1 [samplePair, samplePair, .obj 4 "Verif::Box" "Verif::Box(…)" [("v", samplePair)], .str "Verif::Pair",
    .leaf 5 .td "Verif::Pair" "Verif::Pair", .leaf 6 .ty "Integer[1, 2]" "Integer[1, 2]", .obj 7 "Verif::Unit" "Verif::Unit()" []]
example : ∃ r, deserialize (serialize ⟨true, true, 2⟩ ⟨false, false, 0⟩ sampleObjs) = .ok r ∧ r.abs = sampleObjs.abs :=
  C10_roundtrip_partial _ _ _ (C10_shared_of_check _ _ (by decide)) ⟨by decide, fun h => by simp [mkCfg] at h⟩

/-- the references of the sample resolve to the stream emitted with local_reference=false, whatever the consumer -/
example (cp : Caps) (h : sharedB (mkCfg ⟨true, true, 2⟩ cp) sampleDag = true) :
    ∃ env, expand (serialize ⟨true, true, 2⟩ cp sampleDag) [] = some (serialize ⟨true, false, 2⟩ cp sampleDag, env) :=
  C10_refs_wellformed _ _ _ (C10_shared_of_check _ _ h)
example : (serialize ⟨true, true, 2⟩ ⟨false, false, 0⟩ sampleDag).wf true true = true := C10_caps _ ⟨false, false, 0⟩ _

/-- the position invariant is not vacuous: the collector accepts the stream of the sample -/
example : ∃ d vals', collect (serialize ⟨true, true, 2⟩ ⟨false, false, 0⟩ sampleDag) [] = .ok (d, vals') ∧
    vals'.length = (serialize ⟨true, true, 2⟩ ⟨false, false, 0⟩ sampleDag).npos := by
  obtain ⟨r, hr, _⟩ := C10_roundtrip_partial ⟨true, true, 2⟩ ⟨false, false, 0⟩ sampleDag
    (C10_shared_of_check _ _ (by decide)) ⟨by decide, fun h => by simp [mkCfg] at h⟩
  unfold deserialize at hr
  split at hr
  · cases hr
  · rename_i d vals' hc
    exact ⟨d, vals', hc, by simpa using collect_len _ _ _ _ hc⟩

/-! ### audit additions (stranger's review, notes/audit-C10.md): the laws are discriminating, the hypotheses needed -/

/-- the capability laws are not trivially true: handed to a consumer WITH binary and complex-key support the same value
    produces a Binary event and a non-string key, which `wf true true` rejects -/
example : (serialize ⟨true, true, 2⟩ ⟨true, true, 0⟩ sampleDag).wf true true = false ∧
    (serialize ⟨true, true, 2⟩ ⟨true, false, 0⟩ sampleDag).wf false true = false ∧
    (serialize ⟨true, true, 2⟩ ⟨false, true, 0⟩ sampleDag).wf true false = false := by decide

/-- `expand` (what a back-reference means) is discriminating: a forward reference, a reference to the enclosing, still
    open container and a dangling one are all rejected; a backward one is replaced by what stood there -/
example : expand (.arr [.ref 1, .add (.int 1)]) [] = none ∧ expand (.arr [.ref 0]) [] = none ∧
    expand (.arr [.add (.int 1), .ref 2]) [] = none := ⟨rfl, rfl, rfl⟩
example : (expand (.arr [.arr [.add (.int 1)], .ref 1]) []).map (·.1) =
    some (.arr [.arr [.add (.int 1)], .arr [.add (.int 1)]]) := rfl

/-- … and `C10_refs_wellformed` is about streams that do contain references: with and without local_reference the
    streams of the sample differ -/
example : (serialize ⟨true, true, 2⟩ ⟨false, false, 0⟩ sampleDag).beq (serialize ⟨true, false, 2⟩ ⟨false, false, 0⟩ sampleDag) = false := by
  decide

/-- the hypothesis `Shared` is needed: one identity carrying two different contents (not a value the op syntax can
    write: one Go object has one content) fails the check, and its second occurrence comes back as the first -/
def incoherent : V := .arr 1 [.arr 2 [.int 1], .arr 2 [.int 2]]
example : sharedB (mkCfg ⟨true, true, 2⟩ ⟨true, true, 0⟩) incoherent = false ∧ incoherent.noRes = true := by decide
example : ∃ r, deserialize (serialize ⟨true, true, 2⟩ ⟨true, true, 0⟩ incoherent) = .ok r ∧ r.abs ≠ incoherent.abs :=
  ⟨.arr 0 [.arr 1 [.int 1], .arr 1 [.int 1]], rfl, by simp [V.abs, absList, incoherent]⟩

/-! ### What `Frag` excludes, exactly

`Frag c v` = `v.noRes ∧ (c.rich = false → v.isData c.bin)`.  `noRes` fails only for
(a) a user hash whose keys are all strings and include `__ptype` — the known finding; `C10_reserved_key_collision`
    shows the exclusion is needed, for rich_data=true and false alike;
(b) an object instance whose type is not in the catalogue or that has an attribute named `__ptype` / `__pvalue`
    (the second cannot be declared in pcore; the first is the model's catalogue);
(c) a Timespan payload that is not the default-format text of a duration (not a value at all: `C10_span_canonical`).
`isData` is the property's own reading for rich_data=false (a Regexp deliberately becomes a String there).  What lies
outside the theorem for other reasons is outside the MODEL's value type: RuntimeValue, types without a string form other than object types, cyclic values. -/

/-- the full statement (no exclusion of reserved keys) — false, see `C10_reserved_key_collision` -/
def C10_roundtrip_full : Prop :=
  ∀ (o : Opts) (cp : Caps) (v : V), Shared (mkCfg o cp) v → (o.rich = false → v.isData cp.bin = true) →
    ∃ r, deserialize (serialize o cp v) = .ok r ∧ r.abs = v.abs


/-! ### known finding C10-reserved-ptype-key: the excluded case is real -/

/-- the user hash `{'__ptype' => 'Default'}` -/
def reservedWitness : V := .hash 1 [(.str "__ptype", .str "Default")]

def reservedF (c : Cfg) : Key → Ev
  | .str s => .add (.str s)
  | _ => plain c reservedWitness

/-- … is emitted verbatim and comes back as the value `default` -/
theorem C10_reserved_key_collision : ¬ C10_roundtrip_full := by
  intro h
  have hS : Shared (mkCfg ⟨true, true, 2⟩ ⟨true, true, 0⟩) reservedWitness :=
    ⟨reservedF (mkCfg ⟨true, true, 2⟩ ⟨true, true, 0⟩), fun _ => rfl,
      by simp [Coh, CohPairs, reservedWitness, reservedF]⟩
  obtain ⟨r, hr, ha⟩ := h ⟨true, true, 2⟩ ⟨true, true, 0⟩ reservedWitness hS (by simp)
  have hd : deserialize (serialize ⟨true, true, 2⟩ ⟨true, true, 0⟩ reservedWitness) = .ok .dflt := by rfl
  rw [hd] at hr
  cases hr
  simp [V.abs, reservedWitness] at ha

/-- the same with rich_data=false (the value is Data): the hypothesis `noRes` cannot be dropped there either -/
example : reservedWitness.isData false = true ∧
    deserialize (serialize ⟨false, false, 0⟩ ⟨false, false, 0⟩ reservedWitness) = .ok .dflt := ⟨rfl, rfl⟩

/-! ### second tie: the emit discipline regenerated from serializer.go (fact family `serarms`)

`Generated.serArms` is rewritten from the Go source on every run: the statement lists of `addData`/`addArray`/`addHash`,
the shape of `process`, consumer calls and `refIndex` writes anywhere else, and the arms of `toData`'s type switch.
The driver executes `toDataE (emitOf Generated.serArms)`.  `SerArmsOK` says: every consumer position is paired with
exactly one `refIndex++` made before the consumer call, `AddRef` with none, `process` records after the emitter and
only when a position was consumed, nothing else touches the consumer or the counter, the arms are the transcribed
ones.  The theorems hold for ANY table satisfying it; dropping an increment (or recording early) breaks `C10_arms_ok`. -/

/-- obligation over the regenerated table -/
theorem C10_arms_ok : SerArmsOK Generated.serArms = true := by decide

theorem C10_table (a : SerArms) (h : SerArmsOK a = true) (c : Cfg) (level : Nat) (v : V) (st : St) :
    toDataE (emitOf a) c level v st = toData c level v st := by
  rw [emitOf_ok a h]; exact toDataE_std c level v st

/-- instantiated on the code as it is now -/
theorem C10_impl_positions (c : Cfg) (level : Nat) (v : V) (st : St) (vals : List Slot) (d : V) (vals' : List Slot)
    (h0 : st.ref = vals.length)
    (hc : collect (toDataE (emitOf Generated.serArms) c level v st).1 vals = .ok (d, vals')) :
    (toDataE (emitOf Generated.serArms) c level v st).2.ref = vals'.length := by
  rw [C10_table _ C10_arms_ok] at hc ⊢; exact C10_positions c level v st vals d vals' h0 hc

theorem C10_impl_caps (o : Opts) (cp : Caps) (v : V) :
    (serializeE (emitOf Generated.serArms) o cp v).wf (!cp.cplx) (!cp.bin) = true := by
  rw [serializeE_ok _ C10_arms_ok]; exact C10_caps o cp v

theorem C10_impl_refs_wellformed (o : Opts) (cp : Caps) (v : V) (hS : Shared (mkCfg o cp) v) :
    ∃ env, expand (serializeE (emitOf Generated.serArms) o cp v) [] =
      some (serializeE (emitOf Generated.serArms) { o with localRef := false } cp v, env) := by
  rw [serializeE_ok _ C10_arms_ok, serializeE_ok _ C10_arms_ok]; exact C10_refs_wellformed o cp v hS

theorem C10_impl_roundtrip (o : Opts) (cp : Caps) (v : V) (hS : Shared (mkCfg o cp) v) (hf : Frag (mkCfg o cp) v) :
    ∃ r, deserialize (serializeE (emitOf Generated.serArms) o cp v) = .ok r ∧ r.abs = v.abs := by
  rw [serializeE_ok _ C10_arms_ok]; exact C10_roundtrip_partial o cp v hS hf

/-! #### the side condition is not idle: tables that violate it break the stream laws (constructive witnesses)

`['AQID', bin, bin]` where `bin` is one Binary object holding 01 02 03, rich_data=false, no binary support, threshold 0. -/

def danglingWitness : V := .arr 1 [.str "AQID", .bin 2 [1, 2, 3], .bin 2 [1, 2, 3]]

/-- the code before the fix "serializer recorded a position for a value whose emitter produced only a back-reference":
    `process` = recordBefore.  The Binary is emitted as its base64 text through `toData(level, string)`; that string was
    seen before, so the emitter produces only `AddRef(1)` and no position — but the Binary was recorded at the position
    the NEXT value takes: the second `bin` is `AddRef(2)` although only positions 0 and 1 exist. -/
def tblBefore : SerArms := { Generated.serArms with process := .recordBefore }
example : SerArmsOK tblBefore = false := by decide
example : serializeE (emitOf tblBefore) ⟨false, true, 1⟩ ⟨false, true, 0⟩ danglingWitness =
    .arr [.add (.str "AQID"), .ref 1, .ref 2] := by rfl
example : expand (serializeE (emitOf tblBefore) ⟨false, true, 1⟩ ⟨false, true, 0⟩ danglingWitness) [] = none := by rfl
example : ∃ e, collect (serializeE (emitOf tblBefore) ⟨false, true, 1⟩ ⟨false, true, 0⟩ danglingWitness) [] = .error e :=
  ⟨.badRef, by rfl⟩
/-- after the fix: both occurrences refer to position 1 -/
example : serializeE (emitOf Generated.serArms) ⟨false, true, 1⟩ ⟨false, true, 0⟩ danglingWitness =
    .arr [.add (.str "AQID"), .ref 1, .ref 1] := by rfl

/-- Appendix E mutant "addData: do not increment refIndex": the reference to the shared array names the wrong position -/
def tblNoIncr : SerArms := { Generated.serArms with addData := [.consume "Add"] }
example : SerArmsOK tblNoIncr = false := by decide
example : serializeE (emitOf tblNoIncr) ⟨true, true, 2⟩ ⟨true, true, 0⟩ (.arr 1 [.int 7, .arr 2 [.int 1], .arr 2 [.int 1]]) =
    .arr [.add (.int 7), .arr [.add (.int 1)], .ref 1] := by rfl
example : expand (serializeE (emitOf tblNoIncr) ⟨true, true, 2⟩ ⟨true, true, 0⟩ (.arr 1 [.int 7, .arr 2 [.int 1], .arr 2 [.int 1]])) [] =
    some (.arr [.add (.int 7), .arr [.add (.int 1)], .add (.int 7)], [some (.arr [.add (.int 7), .arr [.add (.int 1)], .add (.int 7)]),
      some (.add (.int 7)), some (.arr [.add (.int 1)]), some (.add (.int 1))]) := by rfl

/-- … and an increment placed AFTER the consumer call of a container (children see the stale counter) -/
def tblLate : SerArms := { Generated.serArms with addArray := [.consume "AddArray", .incr] }
example : SerArmsOK tblLate = false := by decide
example : expand (serializeE (emitOf tblLate) ⟨true, true, 2⟩ ⟨true, true, 0⟩
    (.arr 1 [.arr 2 [.int 1], .arr 2 [.int 1]])) [] = none := by rfl

end Pcore.Ser
