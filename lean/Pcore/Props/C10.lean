import Pcore.Model.Ser
/-! # C10 — placeholder (theorems follow) -/
namespace Pcore.Ser
end Pcore.Ser
