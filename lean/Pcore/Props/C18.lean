import Pcore.Proofs.ReflectStruct
/-!
# C18 — The Go reflection bridge round-trips values and agrees with inferred types

Property (properties.jsonl): for every Go value of a reflectable shape (integers of all widths, floats, strings,
booleans, slices, maps, pointers used as optionals, nested and tagged structs), wrapping it and reflecting it back into
the same Go type reproduces a deeply equal Go value.  The pcore type derived from the Go type accepts the wrapped value,
and an object type derived from a struct constructs instances that convert back to equal structs.  Quantifier: all Go
types assembled with reflect and all values incl. zero values, nil pointers, empty and nil slices and maps, boundary
integers.

Full statement / proved / missing
* `C18_roundtrip_full`, `C18_type_accepts_full` — the property as stated, for every modelled type and every value.
  Both are FALSE of the code (and of the model, which mirrors it): `C18_roundtrip_full_fails`,
  `C18_type_accepts_full_fails`.
* `C18_roundtrip`      — PROVED for all types and values (induction over the Go type; any nesting, any sizes) under
                         `RtOK`, which excludes exactly the shapes of the known findings
                         nil-slice-becomes-empty, nil-map-becomes-empty, ptr-to-nil-collapses, iface-int-width,
                         iface-float-width; each exclusion has a negation witness below.
* `C18_type_accepts`   — PROVED likewise under `TaOK`, which excludes exactly uint64-overflow, float-inf-rejected,
                         bytes-become-binary, nil-slice-becomes-undef-rejected, nil-map-becomes-undef-rejected; witnesses below.
* `C18_roundtrip_iff`, `C18_type_accepts_iff` — the exclusions are exact: on modelled types and well-typed values the
                         round trip succeeds IFF `RtOK`, the derived type accepts IFF `TaOK`.
* `C18_roundtrip_unsigned_wraps` — values ≥ 2^63 DO round-trip although their wrapped form is negative.
* `C18_int_width`, `C18_uint_width` — the arithmetic core: `SetInt`/`SetUint` truncation is the identity on the
  width's range, also after the `int64(uint64)` wrap-around.
* `C18_map_any_order`  — a Go map rebuilt from the entries of the sorted Hash, in whatever order `sortedMap` left
                         them, is the original map.
* `C18_struct_value`, `C18_struct_ptr_value` — a value of a registered struct type (or a pointer to one) round-trips and
                         is accepted whatever it contains: the object holds the Go value; so the theorems above cover
                         nested structs, pointers to structs, slices / arrays / maps of structs with NO new exclusion
                         (`RtOK` / `TaOK` are `true` on struct types; `C18_roundtrip_iff` / `C18_type_accepts_iff` stay exact).
* `C18_parent_accepts`  — embedding: an instance of the child's type is an instance of every ancestor's type.
* `C18_promotion`       — embedding: the attribute view of a struct (the embedded parent's fields promoted, recursively)
                         and its inverse.
* `C18_struct_nested`   — `C18_struct` for struct TERMS: nested structs, pointers to structs, containers of structs,
                         embedded parents at any depth, embedded fields that are not the parent: all four construction
                         forms give back the same struct value.
* declared defaults of every value shape (`value=>` integers, floats, strings, booleans, undef, arrays, string-keyed
                         hashes, on fields of the matching Go type or pointers to it): `Equals` of the default is
                         modelled (`litEq`: floats by `==`, hashes regardless of order); the struct theorems hold under
                         `DefaultExact` (a value that counts as the default IS the default), automatic for exact
                         literals (`C18_default_exact`); without it the syntactic statement is false
                         (`C18_default_zero_sign`, `C18_defaults_restored_full_fails`) although the struct that comes back
                         is deeply equal — full statement kept as `C18_struct_nested_full` (not proved).
* tags `type=>T` (the attribute's type is the declared one: `Field.aty`; `C18_attr_type_derived` when there is none) and
                         `kind=>constant | derived | given_or_derived | reference`: constants and derived attributes
                         are not part of an instance (`Field.stored`): `C18_struct_stored` — the struct that comes back
                         has the Go zero value in those fields (`C18_constant_field_zeroed`), so `C18_struct_nested`
                         demands `UnstoredZero`; given_or_derived is optional (after the required ones, omitted when
                         undef).  Inconsistent tags are derivation errors the model reports by issue code (`deriveErr`,
                         regression anchors below); known finding `C18_given_or_derived_pointer`.
* `C18_iface_field`     — a struct field that is itself an interface{}: nil is undef, anything else is kept verbatim in a
                         Runtime value and comes back with its dynamic type (all widths, containers, nested
                         []interface{} / map[string]interface{} data, typed nils); attribute type Any.
* `C18_struct`         — the attribute-list form (tags `name=>`, `value=>` = declared default): `px.New(T, InitHash(wrap s))`, `px.New(T,
                         full hash)` (named dispatch → PositionalFromHash cuts trailing defaults → setValues puts them
                         back), `px.New(T, attribute values…)` and the same without the trailing defaults (positional
                         dispatch) all reflect back to the field values of `s`, for every field list with distinct
                         attribute names whose fields are in both halves above.  `C18_defaults_restored`: cut + put back
                         is the identity for any attribute list.
* missing (partial): `reflect` itself is the model's parameter (trusted base) — MakeSlice, MakeMap, SetMapIndex, Set,
  truncating SetInt/SetUint, float32 conversion `r32` (assumed exact on float32 values: hypothesis `hr`); struct types
  that are not registered or derived anonymously, the registry-mapped path, an embedded POINTER to a struct and fields
  that shadow a field of an embedded struct (two new known findings, implementation only), tag forms outside the
  grammar the driver reads (e.g. `type=>` with a type alias, Enum, Pattern …), non-puppet tags (annotations only),
  an interface{} field holding a struct, an interface{} holding containers that reaches `wrap`'s type switch (top level,
  element of []interface{}, value of map[string]interface{}: what comes back has an INFERRED Go type — known findings
  C18-iface-container-type, C18-iface-numeric-mix, ops `@refl` over JSON-like data), map keys other
  than integers / strings / booleans — all of these are only tested on the implementation (ops `@refl`/`@reflraw`/
  `@reflanon`/`@obj`/`@objreg`).
-/
namespace Pcore.Reflect

/-- the float32 conversion is exact on float32 values (trusted: IEEE 754) -/
def R32Exact (r32 : Nat → Nat) : Prop := ∀ b, f32exact b = true → r32 b = b

/-! ### full statements (false: see the witnesses) -/

def C18_roundtrip_full : Prop :=
  ∀ (r32 : Nat → Nat), R32Exact r32 → ∀ (ty : GoTy) (v : GoVal), Modelled ty = true → hasType ty v = true →
    reflectTo r32 ty (wrap true ty v) = some v

def C18_type_accepts_full : Prop :=
  ∀ (ty : GoTy) (v : GoVal), Modelled ty = true → hasType ty v = true → inst (typeOf ty) (wrap true ty v) = true

/-! ### proved -/

/-- wrapping a Go value and reflecting it back into the same Go type reproduces the value -/
theorem C18_roundtrip (r32 : Nat → Nat) (hr : R32Exact r32) (ty : GoTy) (v : GoVal)
    (hm : Modelled ty = true) (h : hasType ty v = true) (hs : RtOK true ty v = true) :
    reflectTo r32 ty (wrap true ty v) = some v :=
  rt_main r32 hr ty true v hm h hs

/-- the pcore type derived from the Go type accepts the wrapped value -/
theorem C18_type_accepts (ty : GoTy) (v : GoVal)
    (hm : Modelled ty = true) (h : hasType ty v = true) (hs : TaOK true ty v = true) :
    inst (typeOf ty) (wrap true ty v) = true :=
  ta_main ty true v hm h hs

/-- `RtOK` excludes EXACTLY the failing shapes: for a modelled type and a well-typed value the round trip reproduces the
    value if and only if `RtOK` holds (at every nesting depth, not only for the listed witnesses) -/
theorem C18_roundtrip_iff (r32 : Nat → Nat) (hr : R32Exact r32) (ty : GoTy) (v : GoVal)
    (hm : Modelled ty = true) (h : hasType ty v = true) :
    reflectTo r32 ty (wrap true ty v) = some v ↔ RtOK true ty v = true :=
  ⟨rt_conv r32 hr ty true v hm h, rt_main r32 hr ty true v hm h⟩

/-- `TaOK` excludes EXACTLY the rejected shapes -/
theorem C18_type_accepts_iff (ty : GoTy) (v : GoVal) (hm : Modelled ty = true) (h : hasType ty v = true) :
    inst (typeOf ty) (wrap true ty v) = true ↔ TaOK true ty v = true :=
  ⟨ta_conv ty true v hm h, ta_main ty true v hm h⟩

/-- `Supported` of DESIGN.md §4: both halves at once -/
def Supported (ty : GoTy) (v : GoVal) : Bool := RtOK true ty v && TaOK true ty v

theorem C18_bridge (r32 : Nat → Nat) (hr : R32Exact r32) (ty : GoTy) (v : GoVal)
    (hm : Modelled ty = true) (h : hasType ty v = true) (hs : Supported ty v = true) :
    reflectTo r32 ty (wrap true ty v) = some v ∧ inst (typeOf ty) (wrap true ty v) = true := by
  simp only [Supported, Bool.and_eq_true] at hs
  exact ⟨C18_roundtrip r32 hr ty v hm h hs.1, C18_type_accepts ty v hm h hs.2⟩

/-- integer width lemma, signed: `intN(int64(x)) = x` for every x of the width -/
theorem C18_int_width (w : Nat) (hw : okWidth w = true) (i : Int) (h : hasType (.int w) (.int i) = true) :
    truncS (bitsOf w) i = i := by
  simp [hasType, scalarHasType] at h
  exact truncS_of_range hw h.1 h.2

/-- integer width lemma, unsigned: `uintN(int64(uint64(x))) = x` for every x of the width — including x ≥ 2^63, whose
    wrapped form `u2i x` is negative -/
theorem C18_uint_width (w : Nat) (hw : okWidth w = true) (i : Int) (h : hasType (.uint w) (.int i) = true) :
    truncU (bitsOf w) (u2i i) = i := by
  simp [hasType, scalarHasType] at h
  exact truncU_u2i hw h.1 h.2

/-- the Go value of an unsigned integer ≥ 2^63 round-trips (only its type acceptance fails) -/
theorem C18_roundtrip_unsigned_wraps (r32 : Nat → Nat) (i : Int) (h : hasType (.uint 64) (.int i) = true) :
    reflectTo r32 (.uint 64) (wrap true (.uint 64) (.int i)) = some (.int i) := by
  simp [wrap, wrapScalar, reflectTo, C18_uint_width 64 rfl i h]

/-- a map rebuilt by `SetMapIndex` from any permutation of its (canonical) entries is the map -/
theorem C18_map_any_order (l₁ l : List (GoVal × GoVal)) (hp : l₁.Perm l) (hs : sortedKeys l = true) : mapOf l₁ = l :=
  mapOf_perm_sorted hp hs

/-- **structs** (flat: struct-free reflectable field types, no bare interface{} field; tags `name=>` and `value=>`):
    the object type derived from the struct constructs an instance that converts back to the same field values —
    from the init hash of the wrapped struct (attributes at their default omitted) and from the hash with every attribute,
    both through the named-argument dispatch, `PositionalFromHash` (trailing defaults cut) and `setValues` (declared
    defaults put back); and positionally from all attribute values and from the values without the trailing defaults.
    `FieldOK` = flat ∧ well typed ∧ `RtOK false` ∧ `TaOK false` (a field goes through `wrapReflected`). -/
theorem C18_struct (r32 : Nat → Nat) (hr : R32Exact r32) (fvs : List (Field × GoVal))
    (hn : (fvs.map (·.1.name)).Nodup) (hf : ∀ fv ∈ fvs, FieldOK fv) :
    newNamed r32 (fvs.map (·.1)) (initHash fvs) = some (fvs.map (·.2)) ∧
    newNamed r32 (fvs.map (·.1)) (fullHash fvs) = some (fvs.map (·.2)) ∧
    newPos r32 (fvs.map (·.1)) ((attrOrder (·.1) fvs).map fieldVal) = some (fvs.map (·.2)) ∧
    newPos r32 (fvs.map (·.1)) (trimDefaults (attrOrder id (fvs.map (·.1))) ((attrOrder (·.1) fvs).map fieldVal)) =
      some (fvs.map (·.2)) :=
  ⟨newNamed_ok r32 hr fvs hn hf _ (hashOf_init fvs hn), newNamed_ok r32 hr fvs hn hf _ (hashOf_full fvs hn),
   (newPos_ok r32 hr fvs hn hf).1, (newPos_ok r32 hr fvs hn hf).2⟩

/-- the trailing values that `PositionalFromHash` cuts off because they equal the attribute's default are exactly the
    ones `setValues` puts back (for ANY attribute list and value list of the same length) -/
theorem C18_defaults_restored (attrs : List Field) (vals : List Val) (h : vals.length = attrs.length)
    (hx : ∀ a ∈ attrs, a.exactDflt = true) :
    restore attrs (trimDefaults attrs vals) = vals :=
  restore_trim attrs vals h fun av hav => defaultExact_of_exact (hx av.1 (zipFV_mem_fst attrs vals av hav)) av.2

/-- the statement without the exactness of the declared defaults: FALSE since declared defaults may be floats and
    hashes (for integer / string / boolean defaults — the only ones before — `exactDflt` always holds) -/
def C18_defaults_restored_full : Prop :=
  ∀ (attrs : List Field) (vals : List Val), vals.length = attrs.length → restore attrs (trimDefaults attrs vals) = vals

/-- `value=>0.0` on a float field that holds -0.0: `Equals` is `==`, the value is cut as "the default" and +0.0 is put
    back.  reflect.DeepEqual compares floats with `==` too, so the struct that comes back IS deeply equal (`goEq`) — the
    property holds, the syntactic statement does not -/
theorem C18_default_zero_sign :
    restore [{ name := "a", ty := .float 64, dflt := some (.flt 0) }]
      (trimDefaults [{ name := "a", ty := .float 64, dflt := some (.flt 0) }] [.flt (2 ^ 63)]) = [.flt 0] ∧
    goEq (.st [.flt 0]) (.st [.flt (2 ^ 63)]) = true := ⟨by rfl, by decide⟩

theorem C18_defaults_restored_full_fails : ¬ C18_defaults_restored_full := by
  intro h
  have := h [{ name := "a", ty := .float 64, dflt := some (.flt 0) }] [.flt (2 ^ 63)] rfl
  rw [C18_default_zero_sign.1] at this
  simp at this

/-- non-vacuity: `struct{A []uint8; B *int8 "name=>'f_b'"; C map[string]int; P uint16 "value=>8080"; D *string}` with
    P at its declared default and D nil: both are omitted from the init hash and cut from the value slice, and come back;
    a `[]byte` FIELD is an Array here (it does not pass through `wrap`'s arm) -/
def sampleStruct : List (Field × GoVal) :=
  [({ name := "a", ty := .slice (.uint 8) }, .slice [.int 255]), ({ name := "f_b", ty := .ptr (.int 8) }, .ptr (.int (-1))),
   ({ name := "c", ty := .map .string (.int 0) }, .map [(.str "k", .int 7)]),
   ({ name := "p", ty := .uint 16, dflt := some (.int 8080) }, .int 8080), ({ name := "d", ty := .ptr .string }, .nil)]
example : (sampleStruct.map (·.1.name)).Nodup := by decide
example : ∀ fv ∈ sampleStruct, FieldOK fv := by
  intro fv h
  simp only [sampleStruct, List.mem_cons, List.not_mem_nil, or_false] at h
  rcases h with rfl | rfl | rfl | rfl | rfl <;>
    exact ⟨by decide, by decide, by decide, by decide, defaultExact_of_exact (by decide) _⟩
example : initHash sampleStruct =
    [(.str "a", .arr [.int 255]), (.str "c", .hsh [(.str "k", .int 7)]), (.str "f_b", .int (-1))] := by rfl
example : trimDefaults (attrOrder id (sampleStruct.map (·.1))) ((attrOrder (·.1) sampleStruct).map fieldVal) =
    [.arr [.int 255], .hsh [(.str "k", .int 7)], .int (-1)] := by rfl
/-- what goes wrong when `setValues` does not put the declared default back (the seeded change C18-s2): the field
    keeps the Go zero value -/
example : restore [{ name := "p", ty := .uint 16, dflt := some (.int 8080) }] [] = [.int 8080] ∧
    zeroOf (.uint 16) = .int 0 := ⟨rfl, rfl⟩

/-! ### structs inside the type language: nested structs, pointers to structs, slices / maps of structs, embedding -/

/-- a value of a registered struct type round-trips and is accepted by the derived object type WHATEVER it contains
    (also the shapes `RtOK` / `TaOK` exclude elsewhere): `FromReflectedValue` makes the object hold the Go value and
    `reflectedObject.ReflectTo` hands it back; `IsInstance` compares the types -/
theorem C18_struct_value (r32 : Nat → Nat) (S : GoTy) (via : Bool) (v : GoVal) (hs : isStruct S = true) :
    reflectTo r32 S (wrap via S v) = some v ∧ inst (typeOf S) (wrap via S v) = true := by
  cases S <;> simp [isStruct] at hs <;> simp [wrap, reflectTo, typeOf, inst]

/-- the same through a pointer: the registry is consulted before the pointer is dereferenced, the object holds the pointer;
    the nil pointer is undef, which the derived Optional[Object] accepts and which comes back as the nil pointer -/
theorem C18_struct_ptr_value (r32 : Nat → Nat) (S : GoTy) (via : Bool) (v : GoVal) (hs : isStruct S = true) :
    reflectTo r32 (.ptr S) (wrap via (.ptr S) (.ptr v)) = some (.ptr v) ∧
    inst (typeOf (.ptr S)) (wrap via (.ptr S) (.ptr v)) = true ∧
    reflectTo r32 (.ptr S) (wrap via (.ptr S) .nil) = some .nil ∧ inst (typeOf (.ptr S)) (wrap via (.ptr S) .nil) = true := by
  cases S <;> simp [isStruct] at hs <;> simp [wrap, reflectTo, typeOf, inst, isStruct]

/-- what the opacity means: a nil `[]int` FIELD comes back nil (the same nil slice on its own comes back empty:
    `C18_nil_slice_becomes_empty`) and a `uint64` field ≥ 2^63 does not disturb the type's acceptance -/
example (r32 : Nat → Nat) :
    reflectTo r32 (.scons "A" {} (.slice (.int 0)) (.scons "B" {} (.uint 64) .snil))
      (wrap true (.scons "A" {} (.slice (.int 0)) (.scons "B" {} (.uint 64) .snil)) (.st [.nil, .int (2 ^ 63)])) =
      some (.st [.nil, .int (2 ^ 63)]) := (C18_struct_value r32 _ true _ rfl).1

theorem ancestors_struct : ∀ (S P : GoTy), P ∈ ancestors S → isStruct P = true := by
  intro S
  induction S with
  | scons n tg ft rest ihf _ =>
      intro P h
      simp only [ancestors] at h
      split at h
      · rename_i hc
        simp only [Bool.and_eq_true] at hc
        rcases List.mem_cons.mp h with rfl | h
        · exact hc.2
        · exact ihf P h
      · cases h
  | _ => intro P h; simp [ancestors] at h

/-- embedding: the object type of a struct whose first field is an embedded struct has that struct's type as its parent,
    so an instance of the child is an instance of every ancestor's type -/
theorem C18_parent_accepts (S P : GoTy) (v : GoVal) (hs : isStruct S = true) (hp : P ∈ ancestors S) :
    inst (typeOf P) (wrap true S v) = true := by
  have hP := ancestors_struct S P hp
  cases S <;> simp [isStruct] at hs <;> cases P <;> simp [isStruct] at hP <;>
    simp_all [wrap, typeOf, inst, ancestors]

/-- embedding: the attributes of the child are the parent's (recursively) and its own; reading them through Go's field
    promotion and writing them back — the parent's into the embedded struct — is the identity on well-typed structs -/
theorem C18_promotion (S : GoTy) (v : GoVal) (hs : isStruct S = true) (hv : hasType S v = true) :
    (flatVals S v).length = (attrsOf S).length ∧ (UnstoredZero S v → rebuild S (flatVals S v) = v) ∧
    ∀ fv ∈ objFVs S v, fieldHasType fv.1.ty fv.2 = true :=
  ⟨(obj_typed S v hv).1.symm, rebuild_flat S v hs hv, (obj_typed S v hv).2⟩

/-- what a struct (type term and value) must satisfy for the object-type round trip: derivable (`structWF`: distinct
    attribute and Go names along the chain of embedded parents, every attribute a modelled field), well typed, and every
    attribute value inside both halves of the bridge property as a FIELD (`via = false`); attributes whose type is a struct,
    a pointer to one, a slice / map of them … are inside by `C18_struct_value` -/
def StructOK0 (S : GoTy) (v : GoVal) : Prop :=
  isStruct S = true ∧ structWF S = true ∧ hasType S v = true ∧
  ∀ fv ∈ objFVs S v, RtOK false fv.1.ty fv.2 = true ∧ inst fv.1.aty (fieldVal fv) = true ∧ DefaultExact fv.1 (fieldVal fv)

/-- … and every field tagged `kind=>constant` / `kind=>derived` (such attributes are not part of an instance's state:
    `setValues` never touches the field) holds the Go zero value -/
def StructOK (S : GoTy) (v : GoVal) : Prop := StructOK0 S v ∧ UnstoredZero S v

/-- **structs as terms** (nested structs, pointers to structs, slices and maps of structs, embedded parents at any depth,
    embedded fields that are not the parent, tags `name=>` / `value=>`): the object type derived from the struct type
    constructs — from the init hash, from the hash with every attribute, positionally with and without the trailing
    defaults — an instance that converts back to the SAME struct value, the parent's attributes landing in the embedded
    parent. -/
theorem C18_struct_stored (r32 : Nat → Nat) (hr : R32Exact r32) (S : GoTy) (v : GoVal) (h : StructOK0 S v) :
    newNamedS r32 S (initHash (objFVs S v)) = some (rebuild S (flatVals S v)) ∧
    newNamedS r32 S (fullHash (objFVs S v)) = some (rebuild S (flatVals S v)) ∧
    newPosS r32 S ((attrOrder (·.1) (objFVs S v)).map fieldVal) = some (rebuild S (flatVals S v)) ∧
    newPosS r32 S (trimDefaults (attrOrder id (attrsOf S)) ((attrOrder (·.1) (objFVs S v)).map fieldVal)) =
      some (rebuild S (flatVals S v)) := by
  obtain ⟨hs, hw, hv, hok⟩ := h
  obtain ⟨hl, ht⟩ := obj_typed S v hv
  have e1 : (objFVs S v).map (·.1) = attrsOf S := zipFG_fst _ _ hl
  have e2 : (objFVs S v).map (·.2) = flatVals S v := zipFG_snd _ _ hl
  simp only [structWF, Bool.and_eq_true, List.all_eq_true] at hw
  have hn : ((objFVs S v).map (·.1.name)).Nodup := by
    have : (objFVs S v).map (·.1.name) = (attrsOf S).map (·.name) := by rw [← e1, List.map_map]; rfl
    rw [this]; exact nodupS_nodup _ hw.1.2
  have hf : ∀ fv ∈ objFVs S v, FieldOK fv := by
    intro fv hfv
    have hm : fv.1 ∈ attrsOf S := by rw [← e1]; exact List.mem_map.mpr ⟨fv, hfv, rfl⟩
    exact ⟨hw.2 fv.1 hm, ht fv hfv, (hok fv hfv).1, (hok fv hfv).2.1, (hok fv hfv).2.2⟩
  obtain ⟨c1, c2, c3, c4⟩ := C18_struct r32 hr (objFVs S v) hn hf
  rw [e1, e2] at c1 c2 c3 c4
  simp only [newNamedS, newPosS, c1, c2, c3, c4, Option.map_some, and_self]

theorem C18_struct_nested (r32 : Nat → Nat) (hr : R32Exact r32) (S : GoTy) (v : GoVal) (h : StructOK S v) :
    newNamedS r32 S (initHash (objFVs S v)) = some v ∧
    newNamedS r32 S (fullHash (objFVs S v)) = some v ∧
    newPosS r32 S ((attrOrder (·.1) (objFVs S v)).map fieldVal) = some v ∧
    newPosS r32 S (trimDefaults (attrOrder id (attrsOf S)) ((attrOrder (·.1) (objFVs S v)).map fieldVal)) = some v := by
  have e := rebuild_flat S v h.1.1 h.1.2.2.1 h.2
  have := C18_struct_stored r32 hr S v h.1
  rwa [e] at this

/-- tags `type=>` / `kind=>`: when the tag declares neither a type nor the kind given_or_derived nor `value=>undef`, the
    attribute's type is the one derived from the Go type, so the type-acceptance half of the bridge (`TaOK`, for a field:
    `via = false`) gives the `inst` hypothesis of `StructOK0` -/
theorem C18_attr_type_derived (n : String) (tg : FTag) (ft : GoTy) (v : GoVal)
    (h1 : tg.typ = none) (h2 : tg.kind ≠ .givenOrDerived) (h3 : tg.dflt ≠ some .undef)
    (hm : Modelled ft = true) (hv : fieldHasType ft v = true) (ht : TaOK false ft v = true) :
    (fieldOfDecl n tg ft).aty = typeOf ft ∧ inst (fieldOfDecl n tg ft).aty (fieldVal (fieldOfDecl n tg ft, v)) = true := by
  have ha : (fieldOfDecl n tg ft).aty = typeOf ft := by
    have hk : (tg.kind == Kind.givenOrDerived) = false := by simpa using h2
    have hd : (tg.dflt == some Lit.undef) = false := by simpa using h3
    simp [fieldOfDecl, tagType, h1, hk, hd]
  exact ⟨ha, accepts_of_TaOK (fv := (fieldOfDecl n tg ft, v)) ha hm hv ht⟩

/-- a struct field that is itself an `interface{}`: whatever it holds — a scalar of ANY width, a slice, a map, nested
    `[]interface{}` / `map[string]interface{}` data, a typed nil — is kept verbatim in a Runtime value and comes back with
    its dynamic type (unlike an interface{} that reaches `wrap`'s type switch: `C18_iface_int_width`); nil is undef.
    The attribute type is Any. -/
theorem C18_iface_field (r32 : Nat → Nat) (v : GoVal) (h : ifaceField v = true) :
    reflectTo r32 .iface (wrap false .iface v) = some v ∧ inst (typeOf .iface) (wrap false .iface v) = true := by
  cases v <;> simp [ifaceField] at h <;> simp [wrap, reflectTo, typeOf, inst]

/-- non-vacuity: `struct{ A interface{}; B interface{}; C interface{} }` holding `int8(5)`,
    `[]interface{}{int64(1), map[string]interface{}{"k": nil}}` and nil -/
def sampleIface : GoTy := .scons "A" {} .iface (.scons "B" {} .iface (.scons "C" {} .iface .snil))
def sampleIfaceVal : GoVal :=
  .st [.iface (.int 8) (.int 5),
       .iface (.slice .iface) (.slice [.iface (.int 64) (.int 1), .iface (.map .string .iface) (.map [(.str "k", .nil)])]),
       .nil]
example : StructOK sampleIface sampleIfaceVal :=
  ⟨⟨by decide, by decide, by decide,
    fun fv h => fieldChk_ok (List.all_eq_true.mp (by decide : (objFVs sampleIface sampleIfaceVal).all fieldChk = true) fv h)⟩,
   unstoredZero_of_allStored _ _ (by decide)⟩
example : initHash (objFVs sampleIface sampleIfaceVal) =
    [(.str "a", .rt (.int 8) (.int 5)),
     (.str "b", .rt (.slice .iface) (.slice [.iface (.int 64) (.int 1), .iface (.map .string .iface) (.map [(.str "k", .nil)])])),
     (.str "c", .undef)] := by rfl

/-- `kind=>constant`: the field is not part of an instance's state — `struct{A int8 "kind=>constant, value=>5"; B string}`
    holding A = 5 comes back with A = 0 (the Go zero value; the harness marks such inputs n/a) -/
theorem C18_constant_field_zeroed (r32 : Nat → Nat) :
    let S : GoTy := .scons "A" { kind := .constant, dflt := some (.int 5) } (.int 8) (.scons "B" {} .string .snil)
    structWF S = true ∧ hasType S (.st [.int 5, .str "a"]) = true ∧
    newNamedS r32 S (initHash (objFVs S (.st [.int 5, .str "a"]))) = some (.st [.int 0, .str "a"]) :=
  ⟨by decide, by decide, by rfl⟩

/-- known finding C18-given-or-derived-on-pointer: `kind=>given_or_derived` (likewise `derived`) on a field that can be
    nil: ReflectFieldTags adds the implicit `value => undef` of the Optional type, which attribute.go then refuses for
    these kinds — the type cannot be derived although the tag declares no value -/
theorem C18_given_or_derived_pointer :
    deriveErr (.scons "A" { kind := .givenOrDerived } (.ptr (.int 8)) .snil) = some "PCORE_ILLEGAL_KIND_VALUE_COMBINATION" ∧
    deriveErr (.scons "A" { kind := .derived } (.ptr (.int 8)) .snil) = some "PCORE_ILLEGAL_KIND_VALUE_COMBINATION" ∧
    deriveErr (.scons "A" { kind := .givenOrDerived } (.int 8) .snil) = none := by decide

/-! regression anchors: what deriving the object type reports for tags that are inconsistent in themselves -/
example : deriveErr (.scons "A" { dflt := some .undef } (.int 8) .snil) = some "PCORE_IMPOSSIBLE_OPTIONAL" := by decide
example : deriveErr (.scons "A" { typ := some (.opt .str) } .string .snil) = some "PCORE_IMPOSSIBLE_OPTIONAL" := by decide
example : deriveErr (.scons "A" { dflt := some (.int 300) } (.int 8) .snil) = some "PCORE_TYPE_MISMATCH" := by decide
example : deriveErr (.scons "A" { dflt := some (.int 1) } (.float 64) .snil) = some "PCORE_TYPE_MISMATCH" := by decide
example : deriveErr (.scons "A" { typ := some (.int 0 10), dflt := some (.int 11) } (.int 8) .snil) = some "PCORE_TYPE_MISMATCH" := by
  decide
example : deriveErr (.scons "A" { kind := .constant } (.int 8) .snil) = some "PCORE_CONSTANT_REQUIRES_VALUE" := by decide
example : deriveErr (.scons "A" { kind := .derived, dflt := some (.int 3) } (.int 8) .snil) =
    some "PCORE_ILLEGAL_KIND_VALUE_COMBINATION" := by decide
/-- ImpossibleOptional (raised while the initializer is assembled) wins over an error of an earlier attribute -/
example : deriveErr (.scons "A" { kind := .constant } (.int 8) (.scons "B" { dflt := some .undef } (.int 8) .snil)) =
    some "PCORE_IMPOSSIBLE_OPTIONAL" := by decide
/-- a clash with an attribute of the embedded parent: never derived with `override => true`; final when the parent's is a constant -/
example : deriveErr (.scons "Base" { anon := true } (.scons "PA" {} (.int 8) .snil) (.scons "B" { attr := some "pA" } .string .snil)) =
    some "PCORE_OVERRIDE_IS_MISSING" := by decide
example : deriveErr (.scons "Base" { anon := true } (.scons "PC" { kind := .constant, dflt := some (.int 5) } (.int 8) .snil)
    (.scons "B" { attr := some "pC" } .string .snil)) = some "PCORE_OVERRIDE_OF_FINAL" := by decide

/-- non-vacuity for declared types and kinds: `struct{ A int8 "type=>Integer[0,10]"; B *string "type=>Optional[String]";
    C int16 "kind=>given_or_derived"; D bool "kind=>reference, value=>true"; K uint8 "kind=>constant, value=>7" (zero);
    X []int8 "type=>Any" }` -/
def sampleKinds : GoTy :=
  .scons "A" { typ := some (.int 0 10) } (.int 8)
  (.scons "B" { typ := some (.opt .str) } (.ptr .string)
  (.scons "C" { kind := .givenOrDerived } (.int 16)
  (.scons "D" { kind := .reference, dflt := some (.bool true) } .bool
  (.scons "K" { kind := .constant, dflt := some (.int 7) } (.uint 8)
  (.scons "X" { typ := some .any } (.slice (.int 8)) .snil)))))
def sampleKindsVal : GoVal := .st [.int 10, .nil, .int (-3), .bool true, .int 0, .slice [.int 1]]
example : StructOK sampleKinds sampleKindsVal :=
  ⟨⟨by decide, by decide, by decide,
    fun fv h => fieldChk_ok (List.all_eq_true.mp (by decide : (objFVs sampleKinds sampleKindsVal).all fieldChk = true) fv h)⟩,
   by simp [UnstoredZero, TailZero, sampleKinds, sampleKindsVal, fieldOfDecl, Field.stored, isStruct, zeroOf]⟩
example : (attrsOf sampleKinds).map (·.name) = ["a", "b", "c", "d", "x"] := by decide
example : initHash (objFVs sampleKinds sampleKindsVal) =
    [(.str "a", .int 10), (.str "x", .arr [.int 1]), (.str "c", .int (-3))] := by rfl

/-- the struct theorems for deep equality instead of identity, WITHOUT `DefaultExact` — the property as stated (what
    comes back is `reflect.DeepEqual` to the original: `goEq`).  Not proved: it needs `reflectTo` / `rebuild` to respect
    `goEq`; the only inputs it adds are fields holding -0.0 / +0.0 against a declared default of the other sign and map
    fields against hash defaults written in another order (`C18_default_zero_sign`; both streams are generated and agree
    with the implementation). -/
def C18_struct_nested_full : Prop :=
  ∀ (r32 : Nat → Nat), R32Exact r32 → ∀ (S : GoTy) (v : GoVal),
    isStruct S = true → structWF S = true → hasType S v = true →
    (∀ fv ∈ objFVs S v, RtOK false fv.1.ty fv.2 = true ∧ inst fv.1.aty (fieldVal fv) = true) →
    ∃ back, newNamedS r32 S (initHash (objFVs S v)) = some back ∧
      goEq back (rebuild S (flatVals S v)) = true   -- `rebuild ∘ flatVals` zeroes the constant / derived fields

/-- `DefaultExact` is automatic for every declared default that is an exact literal (`Lit.exact`: integers, strings,
    booleans, undef, floats other than ±0, arrays of those, hashes of one entry) -/
theorem C18_default_exact (f : Field) (v : Val) (hx : f.exactDflt = true) : DefaultExact f v :=
  defaultExact_of_exact hx v

/-- non-vacuity for the declared defaults of every value shape:
    `struct{ F float64 "value=>1.5"; L []int16 "value=>[1,2]"; M map[string]bool "value=>{'k'=>true}"; P *string
    "value=>undef"; Q *[2]uint8 "value=>[7,8]"; Z float32 "value=>0.0" }` with F, L, M, P, Q at their defaults (all cut
    from the init hash) and Z = 2.5 (its default 0.0 is not exact, but the value is not a zero) -/
def sampleDefaults : GoTy :=
  .scons "F" { dflt := some (.flt 0x3FF8000000000000) } (.float 64)
  (.scons "L" { dflt := some (.acons (.int 1) (.acons (.int 2) .anil)) } (.slice (.int 16))
  (.scons "M" { dflt := some (.hcons (.str "k") (.bool true) .hnil) } (.map .string .bool)
  (.scons "P" { dflt := some .undef } (.ptr .string)
  (.scons "Q" { dflt := some (.acons (.int 7) (.acons (.int 8) .anil)) } (.ptr (.array 2 (.uint 8)))
  (.scons "Z" { dflt := some (.flt 0) } (.float 32) .snil)))))
def sampleDefaultsVal : GoVal :=
  .st [.flt 0x3FF8000000000000, .slice [.int 1, .int 2], .map [(.str "k", .bool true)], .nil, .ptr (.arr [.int 7, .int 8]),
       .flt 0x4004000000000000]
example : StructOK sampleDefaults sampleDefaultsVal :=
  ⟨⟨by decide, by decide, by decide,
    fun fv h => fieldChk_ok (List.all_eq_true.mp (by decide : (objFVs sampleDefaults sampleDefaultsVal).all fieldChk = true) fv h)⟩,
   unstoredZero_of_allStored _ _ (by decide)⟩
example : initHash (objFVs sampleDefaults sampleDefaultsVal) = [(.str "z", .flt 0x4004000000000000)] := by rfl

/-- non-vacuity: `struct{ Base struct{ PID uint16 "value=>8080"; PL []string }; Name string; Addr *struct{Zip int32};
    Tags []struct{K string} ; Mix struct{M bool} (embedded, not first) }` with the parent's PID at its declared default -/
def sampleNested : GoTy :=
  .scons "Base" { anon := true }
    (.scons "PID" { dflt := some (.int 8080) } (.uint 16) (.scons "PL" {} (.slice .string) .snil))
  (.scons "Name" { attr := some "label" } .string
  (.scons "Addr" {} (.ptr (.scons "Zip" {} (.int 32) .snil))
  (.scons "Tags" {} (.slice (.scons "K" {} .string .snil))
  (.scons "Mix" { anon := true } (.scons "M" {} .bool .snil) .snil))))
def sampleNestedVal : GoVal :=
  .st [.st [.int 8080, .slice [.str "x"]], .str "n", .ptr (.st [.int (-5)]), .slice [.st [.str "k"]], .st [.bool true]]
example : Modelled sampleNested = true ∧ (structsIn sampleNested).all structWF = true := by decide
example : StructOK sampleNested sampleNestedVal :=
  ⟨⟨by decide, by decide, by decide,
    fun fv h => fieldChk_ok (List.all_eq_true.mp (by decide : (objFVs sampleNested sampleNestedVal).all fieldChk = true) fv h)⟩,
   unstoredZero_of_allStored _ _ (by decide)⟩
example : (attrsOf sampleNested).map (·.name) = ["pID", "pL", "label", "addr", "tags", "mix"] := by decide
example : initHash (objFVs sampleNested sampleNestedVal) =
    [(.str "pL", .arr [.str "x"]), (.str "label", .str "n"), (.str "tags", .arr [.obj (.scons "K" {} .string .snil) false (.st [.str "k"])]),
     (.str "mix", .obj (.scons "M" {} .bool .snil) false (.st [.bool true])),
     (.str "addr", .obj (.scons "Zip" {} (.int 32) .snil) true (.st [.int (-5)]))] := by rfl
example : ancestors sampleNested = [.scons "PID" { dflt := some (.int 8080) } (.uint 16) (.scons "PL" {} (.slice .string) .snil)] := by
  decide

/-! ### non-vacuity: nested values that satisfy every hypothesis -/

/-- `map[uint64][]*int8` with a key ≥ 2^63 is excluded from type acceptance but round-trips; with small keys it is in both -/
def sampleTy : GoTy := .map (.uint 64) (.slice (.ptr (.int 8)))
def sampleVal : GoVal := .map [(.int 3, .slice [.ptr (.int (-128)), .nil]), (.int 10, .slice [])]
example : Modelled sampleTy = true ∧ hasType sampleTy sampleVal = true ∧ Supported sampleTy sampleVal = true := by decide
example : wrap true sampleTy sampleVal =
    .hsh [(.int 10, .arr []), (.int 3, .arr [.int (-128), .undef])] := by rfl
example (r32 : Nat → Nat) (hr : R32Exact r32) :
    reflectTo r32 sampleTy (wrap true sampleTy sampleVal) = some sampleVal :=
  C18_roundtrip r32 hr _ _ (by decide) (by decide) (by decide)
example : inst (typeOf sampleTy) (wrap true sampleTy sampleVal) = true :=
  C18_type_accepts _ _ (by decide) (by decide) (by decide)

def sampleTy2 : GoTy := .array 2 (.ptr (.map .string (.slice (.uint 8))))
def sampleVal2 : GoVal := .arr [.ptr (.map [(.str "a", .slice [.int 255]), (.str "b", .slice [])]), .nil]
example : Modelled sampleTy2 = true ∧ hasType sampleTy2 sampleVal2 = true ∧ RtOK true sampleTy2 sampleVal2 = true := by decide
example : hasType (.uint 64) (.int (2 ^ 64 - 1)) = true := by decide
example : R32Exact id := fun _ _ => rfl

/-! ### negation witnesses — one per excluded shape (known findings) -/

/-- known finding C18-nil-slice-becomes-empty: a nil `[]int` comes back as an empty, non-nil slice -/
theorem C18_nil_slice_becomes_empty (r32 : Nat → Nat) :
    hasType (.slice (.int 0)) .nil = true ∧
    reflectTo r32 (.slice (.int 0)) (wrap true (.slice (.int 0)) .nil) = some (.slice []) := ⟨rfl, rfl⟩

/-- known finding C18-nil-map-becomes-empty: a nil `map[string]string` comes back as an empty, non-nil map -/
theorem C18_nil_map_becomes_empty (r32 : Nat → Nat) :
    hasType (.map .string .string) .nil = true ∧
    reflectTo r32 (.map .string .string) (wrap true (.map .string .string) .nil) = some (.map []) := ⟨rfl, rfl⟩

/-- known finding C18-ptr-to-nil-collapses: a non-nil pointer to a nil slice comes back as a nil pointer -/
theorem C18_ptr_to_nil_collapses (r32 : Nat → Nat) :
    hasType (.ptr (.slice .bool)) (.ptr .nil) = true ∧
    reflectTo r32 (.ptr (.slice .bool)) (wrap true (.ptr (.slice .bool)) (.ptr .nil)) = some .nil := ⟨rfl, rfl⟩

/-- known finding C18-iface-int-width: an `int8` inside an interface{} comes back as an `int64` -/
theorem C18_iface_int_width (r32 : Nat → Nat) :
    hasType .iface (.iface (.int 8) (.int 1)) = true ∧
    reflectTo r32 .iface (wrap true .iface (.iface (.int 8) (.int 1))) = some (.iface (.int 64) (.int 1)) := ⟨rfl, rfl⟩

/-- known finding C18-iface-float-width: a `float32` inside an interface{} comes back as a `float64` -/
theorem C18_iface_float_width (r32 : Nat → Nat) :
    hasType .iface (.iface (.float 32) (.flt 0)) = true ∧
    reflectTo r32 .iface (wrap true .iface (.iface (.float 32) (.flt 0))) = some (.iface (.float 64) (.flt 0)) := ⟨rfl, rfl⟩

theorem C18_roundtrip_full_fails : ¬ C18_roundtrip_full := by
  intro h
  have h1 := h id (fun _ _ => rfl) (.slice (.int 0)) .nil rfl rfl
  rw [(C18_nil_slice_becomes_empty id).2] at h1
  cases h1

/-- known finding C18-uint64-overflow: 2^63 wraps to -2^63, which the derived Integer[0, 2^63-1] rejects -/
theorem C18_uint64_overflow :
    hasType (.uint 64) (.int (2 ^ 63)) = true ∧ wrap true (.uint 64) (.int (2 ^ 63)) = .int (-(2 ^ 63)) ∧
    inst (typeOf (.uint 64)) (wrap true (.uint 64) (.int (2 ^ 63))) = false := ⟨by decide, by rfl, by decide⟩

/-- known finding C18-float-inf-rejected, what is left of it: +Inf held in a float32 wraps to a Float that the derived
    Float[-MaxFloat32, MaxFloat32] rejects.  For float64 the defect is repaired (/repo fix "an unbounded Float includes the
    infinities"): the derived type is the default Float, which has no bounds. -/
theorem C18_float_inf_rejected :
    hasType (.float 32) (.flt 0x7FF0000000000000) = true ∧
    inst (typeOf (.float 32)) (wrap true (.float 32) (.flt 0x7FF0000000000000)) = false := by decide

theorem C18_float64_inf_repaired :
    hasType (.float 64) (.flt 0x7FF0000000000000) = true ∧ hasType (.float 64) (.flt 0xFFF0000000000000) = true ∧
    inst (typeOf (.float 64)) (wrap true (.float 64) (.flt 0x7FF0000000000000)) = true ∧
    inst (typeOf (.float 64)) (wrap true (.float 64) (.flt 0xFFF0000000000000)) = true := by decide

/-- known finding C18-bytes-become-binary: `[]byte` wraps to a Binary that the derived Array[Integer[0,255]] rejects -/
theorem C18_bytes_become_binary :
    hasType (.slice (.uint 8)) (.slice [.int 1]) = true ∧
    wrap true (.slice (.uint 8)) (.slice [.int 1]) = .bin false [1] ∧
    typeOf (.slice (.uint 8)) = .array (.int 0 255) ∧
    inst (typeOf (.slice (.uint 8))) (wrap true (.slice (.uint 8)) (.slice [.int 1])) = false :=
  ⟨by decide, by rfl, by rfl, by decide⟩

/-- known finding C18-nil-slice-undef-rejected: a nil `[]int8` wraps to undef, which Array[Integer[-128,127]] rejects -/
theorem C18_nil_slice_undef_rejected :
    hasType (.slice (.int 8)) .nil = true ∧ wrap true (.slice (.int 8)) .nil = .undef ∧
    inst (typeOf (.slice (.int 8))) (wrap true (.slice (.int 8)) .nil) = false := ⟨by decide, by rfl, by decide⟩

/-- known finding C18-nil-map-undef-rejected: a nil `map[string]int` wraps to undef, which Hash[String,Integer] rejects -/
theorem C18_nil_map_undef_rejected :
    hasType (.map .string (.int 0)) .nil = true ∧ wrap true (.map .string (.int 0)) .nil = .undef ∧
    inst (typeOf (.map .string (.int 0))) (wrap true (.map .string (.int 0)) .nil) = false := ⟨by decide, by rfl, by decide⟩

theorem C18_type_accepts_full_fails : ¬ C18_type_accepts_full := by
  intro h
  have h1 := h (.uint 64) (.int (2 ^ 63)) rfl C18_uint64_overflow.1
  rw [C18_uint64_overflow.2.2] at h1
  cases h1

/-! ### defects fixed in /repo: the model of the code before the fix fails on the witness (regression anchors) -/

/-- fix fdc5ca3 / bd96b25: a nil interface{} (top level, in a slice, as a map value) now round-trips -/
example (r32 : Nat → Nat) :
    reflectTo r32 (.slice .iface) (wrap true (.slice .iface) (.slice [.iface (.int 64) (.int 1), .nil])) =
      some (.slice [.iface (.int 64) (.int 1), .nil]) := rfl
example (r32 : Nat → Nat) :
    reflectTo r32 (.map .string .iface) (wrap true (.map .string .iface) (.map [(.str "a", .nil)])) =
      some (.map [(.str "a", .nil)]) := rfl
/-- fix c519cc2 / 63e30d0: Go arrays wrap and are reflected to -/
example (r32 : Nat → Nat) :
    reflectTo r32 (.array 2 (.int 0)) (wrap true (.array 2 (.int 0)) (.arr [.int 1, .int 2])) = some (.arr [.int 1, .int 2]) := rfl

/-! ### audit additions (stranger's review, notes/audit-C18.md): instances of the hypotheses that had none, and two readings of the
property text that need no exclusion -/

/-- "integers of all widths, floats, strings, booleans": a scalar ALWAYS round-trips — no exclusion (`RtOK` is `true` on scalars) -/
theorem C18_scalar_roundtrip (r32 : Nat → Nat) (hr : R32Exact r32) (ty : GoTy) (v : GoVal)
    (hs : scalarTy ty = true) (h : hasType ty v = true) : reflectTo r32 ty (wrap true ty v) = some v := by
  refine C18_roundtrip r32 hr ty v ?_ h ?_
  · cases ty <;> simp_all [scalarTy, Modelled]
  · cases ty <;> simp [scalarTy] at hs <;> cases v <;> simp [RtOK]
example : scalarTy (.uint 64) = true ∧ hasType (.uint 64) (.int (2 ^ 64 - 1)) = true ∧
    scalarTy (.float 32) = true ∧ hasType (.float 32) (.flt 0x7FF0000000000000) = true := by decide

/-- "pointers used as optionals": the nil pointer of ANY pointer type is undef, comes back as the nil pointer, and the derived
    Optional type accepts it -/
theorem C18_nil_pointer (r32 : Nat → Nat) (e : GoTy) :
    wrap true (.ptr e) .nil = .undef ∧ reflectTo r32 (.ptr e) (wrap true (.ptr e) .nil) = some .nil ∧
    inst (typeOf (.ptr e)) (wrap true (.ptr e) .nil) = true := by
  simp [wrap, reflectTo, typeOf, inst]

-- `C18_int_width` / `C18_uint_width`: the boundary values of a width (the wrapped form of the largest uint64 is -1)
example : okWidth 8 = true ∧ hasType (.int 8) (.int (-128)) = true ∧ truncS (bitsOf 8) (-128) = -128 := by decide
example : okWidth 64 = true ∧ hasType (.uint 64) (.int (2 ^ 64 - 1)) = true ∧ u2i (2 ^ 64 - 1) = -1 ∧
    truncU (bitsOf 64) (u2i (2 ^ 64 - 1)) = 2 ^ 64 - 1 := by decide

-- `C18_map_any_order`: the entries handed to SetMapIndex in another order than the canonical one
example : ([(.int 2, .str "b"), (.int 1, .str "a")] : List (GoVal × GoVal)).Perm [(.int 1, .str "a"), (.int 2, .str "b")] ∧
    sortedKeys [(.int 1, .str "a"), (.int 2, .str "b")] = true := ⟨List.Perm.swap _ _ _, by decide⟩
example : mapOf [(.int 2, .str "b"), (.int 1, .str "a")] = [(.int 1, .str "a"), (.int 2, .str "b")] :=
  C18_map_any_order _ _ (List.Perm.swap _ _ _) (by decide)

-- `C18_defaults_restored` / `C18_default_exact`: both attributes at their (exact) default are cut and put back; `value=>0.0` is NOT exact
example : ([{ name := "p", ty := .uint 16, dflt := some (.int 8080) }, { name := "d", ty := .ptr .string }] : List Field).all
    (·.exactDflt) = true ∧ ({ name := "z", ty := .float 64, dflt := some (.flt 0) } : Field).exactDflt = false := by decide
example : trimDefaults [{ name := "p", ty := .uint 16, dflt := some (.int 8080) }, { name := "d", ty := .ptr .string }]
    [.int 8080, .undef] = [] := by rfl
example : restore [{ name := "p", ty := .uint 16, dflt := some (.int 8080) }, { name := "d", ty := .ptr .string }]
    (trimDefaults [{ name := "p", ty := .uint 16, dflt := some (.int 8080) }, { name := "d", ty := .ptr .string }]
      [.int 8080, .undef]) = [.int 8080, .undef] :=
  C18_defaults_restored _ _ rfl (by decide)

-- `C18_attr_type_derived`: an untagged `[]uint8` FIELD holding [255] (as a field it is an Array, and `TaOK false` holds)
example : ({} : FTag).typ = none ∧ ({} : FTag).kind ≠ .givenOrDerived ∧ ({} : FTag).dflt ≠ some .undef ∧
    Modelled (.slice (.uint 8)) = true ∧ fieldHasType (.slice (.uint 8)) (.slice [.int 255]) = true ∧
    TaOK false (.slice (.uint 8)) (.slice [.int 255]) = true := by decide
-- `C18_iface_field`: an interface{} field holding a []interface{} / a typed nil pointer; a struct inside is refused
example : ifaceField (.iface (.slice .iface) (.slice [.iface (.int 8) (.int 1), .nil])) = true ∧
    ifaceField (.iface (.ptr (.int 8)) .nil) = true ∧ ifaceField (.iface (.scons "A" {} .bool .snil) (.st [.bool true])) = false := by
  decide
-- `C18_parent_accepts` / `C18_promotion` on `sampleNested` (its embedded first field `Base` is the parent)
example : inst (typeOf (.scons "PID" { dflt := some (.int 8080) } (.uint 16) (.scons "PL" {} (.slice .string) .snil)))
    (wrap true sampleNested sampleNestedVal) = true :=
  C18_parent_accepts sampleNested _ sampleNestedVal (by decide) (by decide)
example : (flatVals sampleNested sampleNestedVal).length = (attrsOf sampleNested).length :=
  (C18_promotion sampleNested sampleNestedVal (by decide) (by decide)).1

/-- OBSERVATION (restatement): `C18_struct_value` has no typing hypothesis and needs none — `wrap` of a struct type is `.obj S false v` and
    `reflectTo` hands `v` back, so the theorem holds of an ILL-TYPED "struct value" just as well.  It states the model's reading of
    `FromReflectedValue` (the object HOLDS the reflect.Value), not a fact about struct contents; what is said about contents is
    `C18_struct_nested`. -/
example (r32 : Nat → Nat) :
    hasType (.scons "A" {} (.int 8) .snil) (.st [.str "not an int8", .bool true]) = false ∧
    reflectTo r32 (.scons "A" {} (.int 8) .snil) (wrap true (.scons "A" {} (.int 8) .snil) (.st [.str "not an int8", .bool true])) =
      some (.st [.str "not an int8", .bool true]) :=
  ⟨by decide, (C18_struct_value r32 _ true _ rfl).1⟩

end Pcore.Reflect
