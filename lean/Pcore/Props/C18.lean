import Pcore.Model.Reflect
/-! # C18 — placeholder (theorems follow) -/
namespace Pcore.Reflect
example : hasType (.slice (.int 8)) (.slice [.int 1, .int (-128)]) = true := by decide
end Pcore.Reflect
