import Pcore.Proofs.StringHash
import Pcore.Proofs.HashPool
import Pcore.Proofs.ArrayImpl
/-!
# C09 — Ordered collections behave as their abstract models

Property (properties.jsonl): for every sequence of operations, an Array behaves as an immutable sequence and a
Hash as an immutable insertion-ordered map keyed by value equality: merging replaces existing keys in place
and appends new ones, deletion removes exactly the given keys, lookups find exactly the present keys, and no
hash ever holds two equal keys.  The mutable string-keyed hash used for type members behaves as an
insertion-ordered map in which deletion keeps every other entry reachable and all mutation is rejected once
frozen.

Models: `Pcore.Model.StringHash` (hash/stringhash.go), `Pcore.Model.HashImpl` + `HashPool` (types/hashtype.go),
`Pcore.Model.ArrayImpl` (types/arraytype.go); specification: `Pcore.Model.OMap` + `Pcore.Model.CollSpec`.

Full statement / proved / missing
* the specification is an insertion-ordered map with unique keys:
  `C09_spec_get_put`, `C09_spec_keys_put`, `C09_spec_get_delete`, `C09_spec_keys_delete`, `C09_spec_nodup_put`,
  `C09_spec_nodup_delete`, `C09_spec_nodup_merge` — proved.
* StringHash, for ANY operation sequence (induction over the list):
  `C09_sh_inv` (index = positions, keys unique — the `Delete` re-numbering is the crux), `C09_sh_index_iff`
  (`index k = some i ↔ entries[i].key = k`), `C09_sh_refine` (every result, the iteration order and the freeze
  flag after every step equal the specification's), `C09_sh_no_fault`, `C09_sh_delete_keeps_reachable`,
  `C09_sh_frozen` + `C09_sh_frozen_rejected` — proved, full strength.
* Hash, for ANY history over a pool of hashes (literal, put, merge, delete, deleteAll, get, includes, view, and the in-place
  `MutableHashValue.Put`/`PutAll`):
  full statement `C09_hash_refine_full` / `C09_hash_nodup_full` (every literal included).  Proved:
  `C09_hash_inv`, `C09_hash_refine_partial` and `C09_hash_no_fault` under `LitOK` = "no literal of the history repeats a key";
  `C09_hash_index_iff`; `C09_mutable_putAll` (MutableHashValue).  The excluded case is real:
  `C09_hash_literal_dup_keys` / `C09_hash_refine_full_fails` (known finding C09-literal-dup-keys:
  `WrapHash`/`BuildHash`/the parser keep both entries of `{a=>1,a=>2}`).
* Array: `C09_arr_*` — add/addAll/delete/deleteAll/slice/unique as functions on immutable sequences.
* missing: value equality itself (`px.ToKey` respects `Equals`: property C07 — here `key` is an abstract
  function into a type with decidable equality); that operations do not share backing storage (C08);
  `Array.Slice` beyond the length but within the capacity (Go allows it; outside the property).
-/
namespace Pcore.Coll
open OMap

/-! ## The specification is an insertion-ordered map with unique keys -/
section spec
variable {α β κ : Type} [DecidableEq κ] (key : α → κ)

theorem C09_spec_get_put (m : List (α × β)) (e : α × β) (k : κ) :
    OMap.get key (put key m e) k = if key e.1 = k then some e.2 else OMap.get key m k := get_put key m e k

/-- `put` replaces in place (the key list is unchanged) or appends at the end -/
theorem C09_spec_keys_put (m : List (α × β)) (e : α × β) :
    keys key (put key m e) = if key e.1 ∈ keys key m then keys key m else keys key m ++ [key e.1] :=
  keys_put key m e

theorem C09_spec_get_delete (m : List (α × β)) (k k' : κ) :
    OMap.get key (delete key m k) k' = if k' = k then none else OMap.get key m k' := get_delete key m k k'

/-- `delete` removes exactly the key and keeps the order of the others -/
theorem C09_spec_keys_delete (m : List (α × β)) (k : κ) :
    keys key (delete key m k) = (keys key m).filter (fun x => !decide (x = k)) := keys_delete key m k

theorem C09_spec_nodup_put {m : List (α × β)} (hn : (keys key m).Nodup) (e : α × β) :
    (keys key (put key m e)).Nodup := nodup_put hn e

theorem C09_spec_nodup_delete {m : List (α × β)} (hn : (keys key m).Nodup) (k : κ) :
    (keys key (delete key m k)).Nodup := nodup_delete hn k

theorem C09_spec_nodup_merge {a : List (α × β)} (hn : (keys key a).Nodup) (b : List (α × β)) :
    (keys key (merge key a b)).Nodup := nodup_merge hn b

/-- a literal never holds two equal keys in the specification -/
theorem C09_spec_nodup_ofList (l : List (α × β)) : (keys key (ofList key l)).Nodup :=
  nodup_merge (a := []) (by simp [keys]) l

end spec

/-! ## hash.StringHash -/
section sh
variable {β : Type}

/-- the invariant holds after ANY operation sequence -/
theorem C09_sh_inv (h : SH β) (hi : SInv h) (ops : List (SOp β)) : SInv (runSH h ops).2 := by
  induction ops generalizing h with
  | nil => exact hi
  | cons op ops ih => exact ih _ (hi.step op).1

theorem C09_sh_inv_new (ops : List (SOp β)) : SInv (runSH (SH.new : SH β) ops).2 := C09_sh_inv _ SInv_new ops

/-- the invariant in the form of DESIGN.md: `index k = some i ↔ entries[i].key = k` -/
theorem C09_sh_index_iff {h : SH β} (hi : SInv h) (k : String) (i : Nat) :
    GoMap.get h.index k = some i ↔ (h.entries[i]?).map (·.1) = some k := by
  rw [hi.2, idx_iff hi.1]; rfl

/-- every observation of every step equals the specification's, for ANY operation sequence -/
theorem C09_sh_refine (h : SH β) (hi : SInv h) (ops : List (SOp β)) :
    (runSH h ops).1 = (runSpec h.abs ops).1 ∧ (runSH h ops).2.abs = (runSpec h.abs ops).2 := by
  induction ops generalizing h with
  | nil => exact ⟨rfl, rfl⟩
  | cons op ops ih =>
    have hs := hi.step op
    have := ih _ hs.1
    simp only [runSH, runSpec, hs.2]
    exact ⟨by rw [this.1]; rfl, this.2⟩

theorem C09_sh_refine_new (ops : List (SOp β)) :
    (runSH (SH.new : SH β) ops).1 = (runSpec ⟨[], false⟩ ops).1 := (C09_sh_refine _ SInv_new ops).1

theorem stepSpec_ne_fault (s : SSpec β) (op : SOp β) : (stepSpec s op).2 ≠ .fault := by
  cases op <;> simp only [stepSpec] <;> (try split) <;> (try split) <;> simp [optOut, boolOut] <;>
    (try (split <;> simp))

/-- no step of any history ends in a Go runtime fault (index out of range) -/
theorem C09_sh_no_fault (h : SH β) (hi : SInv h) (op : SOp β) : (stepSH h op).2 ≠ .fault := by
  have := (hi.step op).2
  have h2 : (stepSH h op).2 = (stepSpec h.abs op).2 := by rw [this]
  rw [h2]; exact stepSpec_ne_fault _ _

/-- deletion keeps every other entry reachable, with its value -/
theorem C09_sh_delete_keeps_reachable {h : SH β} (hi : SInv h) (k k' : String) (hne : k' ≠ k) :
    (h.delete k).1.get k' = h.get k' := by
  have hd := hi.delete k
  by_cases hf : h.frozen = true
  · simp [SH.delete, hf]
  · have hf' : h.frozen = false := by simpa using hf
    have he : (h.delete k).1.entries = delete id h.entries k := by
      have := congrArg (fun x => x.1.m) hd.2
      simpa [stepSpec, SH.abs, hf'] using this.symm
    rw [hd.1.get, hi.get, he, get_delete]; simp [hne]

/-- once frozen, no operation on that hash changes it (`copy`/`merge` build a new hash) -/
theorem C09_sh_frozen (h : SH β) (hf : h.frozen = true) (op : SOp β)
    (hop : ∀ o, op ≠ .merge o) (hc : op ≠ .copy) : (stepSH h op).1 = h := by
  cases op with
  | put k v => simp [stepSH, SH.put, hf]
  | delete k => simp [stepSH, SH.delete, hf]
  | get k => rfl
  | includes k => rfl
  | cia k v =>
    simp only [stepSH, SH.computeIfAbsent, hf]
    split
    · split <;> rfl
    · simp
  | copy => exact absurd rfl hc
  | merge o => exact absurd rfl (hop o)
  | putAll o =>
    cases o with
    | nil => rfl
    | cons e es => simp [stepSH, SH.putAll, SH.put, hf]
  | freeze => cases h; simp_all [stepSH, SH.freeze]

/-- once frozen, every mutating operation is rejected — unless it would not have changed anything even on an
    unfrozen hash (`ComputeIfAbsent` of a present key, `PutAll` of nothing) -/
theorem C09_sh_frozen_rejected (h : SH β) (hi : SInv h) (hf : h.frozen = true) (op : SOp β) (hm : op.mutates = true) :
    (stepSH h op).2 = .rejected ∨ (stepSpec ⟨h.entries, false⟩ op).1.m = h.entries := by
  cases op with
  | put k v => left; simp [stepSH, SH.put, hf]
  | delete k => left; simp [stepSH, SH.delete, hf]
  | cia k v =>
    have := (hi.cia k v).2
    cases hg : OMap.get id h.entries k with
    | some o => right; simp [stepSpec, hg]
    | none =>
      left
      have h2 : (stepSH h (.cia k v)).2 = (stepSpec h.abs (.cia k v)).2 := by rw [this]; rfl
      rw [h2]; simp [stepSpec, SH.abs, hg, hf]
  | putAll o =>
    cases o with
    | nil => right; simp [stepSpec, merge]
    | cons e es => left; simp [stepSH, SH.putAll, SH.put, hf]
  | get k => simp [SOp.mutates] at hm
  | includes k => simp [SOp.mutates] at hm
  | copy => simp [SOp.mutates] at hm
  | merge o => simp [SOp.mutates] at hm
  | freeze => simp [SOp.mutates] at hm

/-- `Keys`, `Values`, `Len` are projections of the iteration order that `C09_sh_refine` pins down -/
theorem C09_sh_views (h : SH β) :
    h.keys = h.pairs.map (·.1) ∧ h.values = h.pairs.map (·.2) ∧ h.len = h.pairs.length := ⟨rfl, rfl, rfl⟩

/-! non-vacuity: the fixed defect's history (put a, b, c; delete a; get c) and a frozen hash -/
def shWitness : List (SOp Nat) := [.put "a" 1, .put "b" 2, .put "c" 3, .delete "a", .get "c", .get "a", .includes "b"]
example : (runSH SH.new shWitness).1.map (·.1) = [.none, .none, .none, .val 1, .val 3, .none, .unit] := by decide
example : (runSH SH.new shWitness).2.entries = [("b", 2), ("c", 3)] ∧ (runSH SH.new shWitness).2.index = [("b", 0), ("c", 1)] := by
  decide
def shFrozen : SH Nat := (runSH SH.new [.put "a" 1, .freeze]).2
example : SInv shFrozen ∧ shFrozen.frozen = true ∧ (SOp.put "b" 2 : SOp Nat).mutates = true :=
  ⟨C09_sh_inv_new _, by decide, rfl⟩
example : (stepSH shFrozen (.put "b" 2)).2 = .rejected ∧ (stepSH shFrozen (.delete "a")).2 = .rejected ∧
    (stepSH shFrozen (.cia "a" 5)).2 = .val 1 := by decide

end sh

/-! ## types.Hash -/
section hash
variable {α β κ : Type} [DecidableEq κ] (key : α → κ)

/-- every hash of the pool keeps the invariant (no two equal keys, cached index = index of the entries) through ANY
    history whose literals do not repeat a key -/
theorem C09_hash_inv (ops : List (HOp α β)) (hl : ∀ op ∈ ops, LitOK key op) (pool : List (Hash α β κ))
    (hp : PoolInv key pool) : PoolInv key (runHImpl key pool ops).2 := by
  induction ops generalizing pool with
  | nil => exact hp
  | cons op ops ih =>
    exact ih (fun o ho => hl o (by simp [ho])) _ (stepH_refines key pool hp op (hl op (by simp))).1

/-- every answer of every step (lookups, membership, iteration order) equals the specification's, and so does the
    content of every hash of the pool afterwards — for ANY history whose literals do not repeat a key -/
theorem C09_hash_refine_partial (ops : List (HOp α β)) (hl : ∀ op ∈ ops, LitOK key op) (pool : List (Hash α β κ))
    (hp : PoolInv key pool) :
    (runHImpl key pool ops).1 = (runHSpec key (absPool pool) ops).1 ∧
      absPool (runHImpl key pool ops).2 = (runHSpec key (absPool pool) ops).2 := by
  induction ops generalizing pool with
  | nil => exact ⟨rfl, rfl⟩
  | cons op ops ih =>
    have hs := stepH_refines key pool hp op (hl op (by simp))
    have := ih (fun o ho => hl o (by simp [ho])) _ hs.1
    simp only [runHImpl, runHSpec, hs.2]
    exact ⟨by rw [this.1], this.2⟩

omit [DecidableEq κ] in
theorem stepHSpec_ne_fault [DecidableEq κ] (pool : List (List (α × β))) (op : HOp α β) : (stepHSpec key pool op).2 ≠ .fault := by
  cases op <;> simp only [stepHSpec] <;> (repeat' split) <;> simp

/-- no step of such a history ends in a Go runtime fault (slice bounds, index out of range) -/
theorem C09_hash_no_fault (ops : List (HOp α β)) (hl : ∀ op ∈ ops, LitOK key op) (pool : List (Hash α β κ))
    (hp : PoolInv key pool) : ∀ o ∈ (runHImpl key pool ops).1, o ≠ .fault := by
  rw [(C09_hash_refine_partial key ops hl pool hp).1]
  generalize absPool pool = sp
  induction ops generalizing sp with
  | nil => simp [runHSpec]
  | cons op ops ih =>
    intro o ho
    simp only [runHSpec, List.mem_cons] at ho
    rcases ho with rfl | ho
    · exact stepHSpec_ne_fault key sp op
    · exact ih (fun o ho => hl o (by simp [ho])) _ o ho

/-- `valueIndex()` answers exactly the positions: `index k = some i ↔ key entries[i] = k` -/
theorem C09_hash_index_iff {h : Hash α β κ} (hi : HInv key h) (k : κ) (i : Nat) :
    GoMap.get (h.valueIndex key).2 k = some i ↔ (h.entries[i]?).map (fun e => key e.1) = some k := by
  rw [hi.valueIndex.2.2, idx_iff hi.1]

omit [DecidableEq κ] in
/-- `Keys`, `Values`, `Len`, `At` are projections of the entries that `C09_hash_refine_partial` pins down (`view`) -/
theorem C09_hash_views (h : Hash α β κ) (i : Nat) :
    h.keys = h.entries.map (·.1) ∧ h.values = h.entries.map (·.2) ∧ h.len = h.entries.length ∧
      h.atIdx i = h.entries[i]? := ⟨rfl, rfl, rfl, rfl⟩

/-- `MutableHashValue.PutAll`: never faults, the new content is the merge, the invariant is kept -/
theorem C09_mutable_putAll {h : Hash α β κ} (hi : HInv key h) {o : List (α × β)} (ho : (keys key o).Nodup) :
    ∃ n, h.putAll key o = some n ∧ n.entries = merge key h.entries o ∧ HInv key n := hi.putAll ho

end hash


/-! ## types.Array: the operations as functions on immutable sequences -/
section arr
variable {α κ : Type} [DecidableEq κ] (key : α → κ)

/-- `Add` keeps every element where it was and puts the new one at the end -/
theorem C09_arr_add (a : List α) (v : α) (i : Nat) :
    Arr.atIdx (Arr.add a v) i = if i < a.length then Arr.atIdx a i else if i = a.length then some v else none := by
  simp only [Arr.atIdx, Arr.add, List.getElem?_append]
  by_cases h : i < a.length
  · simp [h]
  · by_cases h2 : i = a.length
    · simp [h2]
    · have : i - a.length ≠ 0 := by omega
      simp [h, h2]
      omega

theorem C09_arr_addAll (a b : List α) (i : Nat) :
    Arr.atIdx (Arr.addAll a b) i = if i < a.length then Arr.atIdx a i else Arr.atIdx b (i - a.length) := by
  simp only [Arr.atIdx, Arr.addAll, List.getElem?_append]

/-- `Delete` removes exactly the elements equal to the argument and keeps the order of the others -/
theorem C09_arr_delete (a : List α) (v e : α) :
    (e ∈ Arr.delete key a v ↔ e ∈ a ∧ key e ≠ key v) ∧ (Arr.delete key a v).Sublist a := by
  simp [Arr.delete, List.mem_filter]

theorem C09_arr_deleteAll (a b : List α) (e : α) :
    (e ∈ Arr.deleteAll key a b ↔ e ∈ a ∧ key e ∉ b.map key) ∧ (Arr.deleteAll key a b).Sublist a := by
  simp [Arr.deleteAll, List.mem_filter]

/-- `Slice(i, j)` within the bounds of the value is the sub-sequence of positions i … j-1 -/
theorem C09_arr_slice (a : List α) (i j : Nat) (h : i ≤ j ∧ j ≤ a.length) :
    ∃ s, Arr.slice a i j = some s ∧ s.length = j - i ∧ ∀ n, n < j - i → Arr.atIdx s n = Arr.atIdx a (i + n) := by
  refine ⟨(a.drop i).take (j - i), by simp [Arr.slice, h], ?_, ?_⟩
  · simp; omega
  · intro n hn
    simp [Arr.atIdx, List.getElem?_take, hn]

/-- `Unique` keeps the first of every group of equal elements, in order -/
theorem C09_arr_unique (a : List α) :
    ((Arr.unique key a).map key).Nodup ∧ (Arr.unique key a).Sublist a ∧
      ∀ e ∈ a, key e ∈ (Arr.unique key a).map key := by
  obtain ⟨h1, _, h3, h4⟩ := Arr.uniqueFrom_spec key a []
  exact ⟨h1, h3, fun e he => by simpa [Arr.unique] using h4 e he⟩

example : Arr.unique id [1, 2, 1, 3, 2] = [1, 2, 3] ∧ Arr.delete id [1, 2, 1, 3] 1 = [2, 3] ∧
    Arr.slice [1, 2, 3, 4] 1 3 = some [2, 3] ∧ Arr.slice [1, 2] 1 3 = none := by decide

end arr

/-- FULL statements (every literal included) -/
def C09_hash_refine_full : Prop :=
  ∀ ops : List (HOp Nat Nat), (runHImpl id ([] : List (Hash Nat Nat Nat)) ops).1 = (runHSpec id [] ops).1
def C09_hash_nodup_full : Prop :=
  ∀ ops : List (HOp Nat Nat), ∀ h ∈ (runHImpl id ([] : List (Hash Nat Nat Nat)) ops).2, (keys id h.entries).Nodup

/-- known finding C09-literal-dup-keys: the literal `{1=>1, 1=>2}` holds two equal keys … -/
theorem C09_hash_literal_dup_keys : ¬ C09_hash_nodup_full := by
  intro h
  have := h [.lit [(1, 1), (1, 2)]] (Hash.wrap [(1, 1), (1, 2)]) (by simp [runHImpl, stepHImpl])
  simp [Hash.wrap, keys] at this

/-- … and is observably not the ordered map `{1=>2}`: its iteration order shows both entries -/
theorem C09_hash_refine_full_fails : ¬ C09_hash_refine_full := by
  intro h
  have := h [.lit [(1, 1), (1, 2)], .view 0]
  revert this; decide

/-! non-vacuity of `LitOK` / `PoolInv`: the history of the fixed defect "Hash.Delete … deleted only the last key" -/
def hashWitness : List (HOp Nat Nat) :=
  [.lit [(1, 10), (2, 20), (3, 30)], .delete 0 1, .view 1, .view 0, .deleteAll 0 [1, 2], .view 2, .put 0 (2, 21),
   .view 3, .merge 1 3, .view 4, .get 4 2, .includes 1 1]
example : (∀ op ∈ hashWitness, LitOK id op) ∧ PoolInv id ([] : List (Hash Nat Nat Nat)) :=
  ⟨by decide, by simp [PoolInv]⟩
example : (runHImpl id ([] : List (Hash Nat Nat Nat)) hashWitness).1 =
    [.made, .made, .entries [(2, 20), (3, 30)], .entries [(1, 10), (2, 20), (3, 30)], .made, .entries [(3, 30)], .made,
     .entries [(1, 10), (2, 21), (3, 30)], .made, .entries [(2, 21), (3, 30), (1, 10)], .got (some 21), .has false] := by
  decide

end Pcore.Coll
