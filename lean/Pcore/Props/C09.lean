import Pcore.Proofs.StringHash
import Pcore.Proofs.StringHashFacts
import Pcore.Proofs.HashPool
import Pcore.Proofs.HashFacts
import Pcore.Proofs.HashDup
import Pcore.Proofs.ArrayImpl
import Pcore.Generated.StringHashFacts
import Pcore.Generated.HashOps
/-!
# C09 — Ordered collections behave as their abstract models

Property (properties.jsonl): for every sequence of operations, an Array behaves as an immutable sequence and a
Hash as an immutable insertion-ordered map keyed by value equality: merging replaces existing keys in place
and appends new ones, deletion removes exactly the given keys, lookups find exactly the present keys, and no
hash ever holds two equal keys.  The mutable string-keyed hash used for type members behaves as an
insertion-ordered map in which deletion keeps every other entry reachable and all mutation is rejected once
frozen.

Models: `Pcore.Model.StringHash` + `StringHashFacts` (hash/stringhash.go), `Pcore.Model.HashImpl` + `HashPool` +
`HashFacts` (types/hashtype.go), `Pcore.Model.ArrayImpl` (types/arraytype.go); specification: `Pcore.Model.OMap`
+ `Pcore.Model.CollSpec`.

Two ties to the code.  (1) Correspondence: whole histories are executed on the real code and on the model.
(2) Regenerated facts: `Pcore.Generated.StringHashFacts.shFacts` and `Pcore.Generated.HashOps.hashFacts` are
rewritten from the Go sources on every run; the models the theorems are about are *driven by these tables*
(`stepSHT facts`, `stepHImplT facts`: position of the frozen test, Delete's re-numbering, order of the miss path,
the loop of `mergeEntries`, the index reset of `PutAll`, …) and every theorem below is proved for ANY table
satisfying the decidable side conditions `ShOK` / `HashOK`; `C09_sh_table_ok` / `C09_hash_table_ok` discharge
them on the regenerated tables by `decide` — these are the obligations a code change breaks.

Full statement / proved / missing
* the specification is an insertion-ordered map with unique keys: `C09_spec_*` — proved.
* StringHash, for ANY table with `ShOK` and ANY operation sequence (induction over the list):
  `C09_sh_inv` (index = positions, keys unique — the `Delete` re-numbering is the crux), `C09_sh_index_iff`
  (`index k = some i ↔ entries[i].key = k`), `C09_sh_refine` (every result, the iteration order and the freeze
  flag after every step equal the specification's), `C09_sh_no_fault`, `C09_sh_delete_keeps_reachable`,
  `C09_sh_frozen` + `C09_sh_frozen_rejected`, `C09_sh_equals` + `C09_sh_equals_ext` (Equals = equal lookups,
  order ignored); `C09_sh_impl_*` instantiate them on the code as it is now —
  proved, full strength.
* Hash, for ANY table with `HashOK` and ANY history over a pool of hashes (literal, put, merge, delete,
  deleteAll, get, includes, view, and the in-place `MutableHashValue.Put`/`PutAll`):
  full statement `C09_hash_refine_full` / `C09_hash_nodup_full` (every literal included).  Proved:
  `C09_hash_inv`, `C09_hash_refine_partial` and `C09_hash_no_fault` under `LitOK` = "no literal of the history
  repeats a key"; `C09_hash_index_iff`; `C09_mutable_putAll`.  The excluded case is real:
  `C09_hash_literal_dup_keys` / `C09_hash_refine_full_fails` (known finding C09-literal-dup-keys:
  `WrapHash`/`BuildHash`/the parser keep both entries of `{a=>1,a=>2}`).  What IS guaranteed for ANY entry list,
  repeated keys included (the model of the finding): `C09_hash_dup_index` (the index answers the LAST position),
  `C09_hash_dup_get` / `C09_hash_dup_includes` (lookups answer exactly what the specification's literal
  answers: the later value), `C09_hash_dup_views` (Keys/Values/Len/At show every entry), `C09_hash_dup_delete`
  (Delete removes only the last of the equal keys).
* Array, for ANY history over a pool of arrays: `C09_arr_refine` (the loops of the implementation model — `px.Reject`,
  the index loop of `AddAll`, the `exists` map of `Unique`, the stepping loop of `EachSlice`, `Slice` bounds — answer what
  the sequence specification answers), `C09_arr_immutable` (no array of the pool ever changes); what the specification
  is: `C09_arr_spec_unique`, `C09_arr_spec_chunks`, `C09_arr_spec_slice`, `C09_arr_sort`, `C09_arr_flatten` — proved.
* audit additions (stranger's review, notes/audit-C09.md): `C09_spec_includes_iff` / `C09_spec_get_isSome_iff` (lookups find exactly
  the present keys), `C09_spec_keys_deleteAll`, `C09_spec_get_ofList`; `C09_sh_delete_removes`; `C09_arr_spec_unique_first` and
  `C09_arr_spec_chunks_at` (the two sequence specifications pinned down exactly). Read with care: `C09_sh_views`,
  `C09_hash_views`, `C09_hash_dup_views` are `rfl`; `C09_arr_immutable` holds by construction of the pool machine (C08 is the
  property about shared storage); `Hash.Slice` with bad bounds is `badBounds`, not `fault`, in model and specification.
* missing: value equality itself (`px.ToKey` respects `Equals`: property C07 — here `key` is an abstract
  function into a type with decidable equality); that operations do not share backing storage (C08);
  `Array.Slice` beyond the length but within the capacity (Go allows it; outside the property).
-/
namespace Pcore.Coll
open OMap Pcore.Generated

/-! ## The specification is an insertion-ordered map with unique keys -/
section spec
variable {α β κ : Type} [DecidableEq κ] (key : α → κ)

theorem C09_spec_get_put (m : List (α × β)) (e : α × β) (k : κ) :
    OMap.get key (put key m e) k = if key e.1 = k then some e.2 else OMap.get key m k := get_put key m e k

/-- `put` replaces in place (the key list is unchanged) or appends at the end -/
theorem C09_spec_keys_put (m : List (α × β)) (e : α × β) :
    keys key (put key m e) = if key e.1 ∈ keys key m then keys key m else keys key m ++ [key e.1] :=
  keys_put key m e

theorem C09_spec_get_delete (m : List (α × β)) (k k' : κ) :
    OMap.get key (delete key m k) k' = if k' = k then none else OMap.get key m k' := get_delete key m k k'

/-- `delete` removes exactly the key and keeps the order of the others -/
theorem C09_spec_keys_delete (m : List (α × β)) (k : κ) :
    keys key (delete key m k) = (keys key m).filter (fun x => !decide (x = k)) := keys_delete key m k

theorem C09_spec_nodup_put {m : List (α × β)} (hn : (keys key m).Nodup) (e : α × β) :
    (keys key (put key m e)).Nodup := nodup_put hn e

theorem C09_spec_nodup_delete {m : List (α × β)} (hn : (keys key m).Nodup) (k : κ) :
    (keys key (delete key m k)).Nodup := nodup_delete hn k

theorem C09_spec_nodup_merge {a : List (α × β)} (hn : (keys key a).Nodup) (b : List (α × β)) :
    (keys key (merge key a b)).Nodup := nodup_merge hn b

/-- a literal never holds two equal keys in the specification -/
theorem C09_spec_nodup_ofList (l : List (α × β)) : (keys key (ofList key l)).Nodup :=
  nodup_merge (a := []) (by simp [keys]) l

end spec

/-! ### audit additions (specification): lookups find exactly the present keys; `deleteAll`; what a literal answers -/
section spec2
variable {α β κ : Type} [DecidableEq κ] (key : α → κ)

/-- lookups find exactly the present keys -/
theorem C09_spec_includes_iff (m : List (α × β)) (k : κ) :
    OMap.includes key m k = true ↔ k ∈ keys key m := by
  induction m with
  | nil => simp [OMap.includes, getEntry, keys]
  | cons e es ih =>
    by_cases h : key e.1 = k
    · simp [OMap.includes, getEntry, keys, h]
    · have : OMap.includes key (e :: es) k = OMap.includes key es k := by simp [OMap.includes, getEntry, h]
      have h' : k ≠ key e.1 := fun x => h x.symm
      rw [this, ih]
      show k ∈ keys key es ↔ k ∈ key e.1 :: keys key es
      simp [h']

theorem C09_spec_get_isSome_iff (m : List (α × β)) (k : κ) :
    (OMap.get key m k).isSome = true ↔ k ∈ keys key m := by
  rw [← C09_spec_includes_iff]; simp [OMap.get, OMap.includes]

/-- `deleteAll` removes exactly the given keys and keeps the order of the others -/
theorem C09_spec_keys_deleteAll (m : List (α × β)) (ks : List κ) :
    keys key (deleteAll key m ks) = (keys key m).filter (fun x => !ks.contains x) := keys_deleteAll key m ks

/-- what the specification's literal answers for ANY entry list: the value of the LAST entry with the key -/
theorem C09_spec_get_ofList (l : List (α × β)) (k : κ) :
    OMap.get key (ofList key l) k = (getLast key l k).map (·.2) := by
  rw [ofList, get_merge_last]
  cases getLast key l k <;> simp [OMap.get, getEntry]

example : OMap.includes id [(1, 10), (2, 20)] 2 = true ∧ OMap.includes id [(1, 10), (2, 20)] 3 = false ∧
    deleteAll id [(1, 10), (2, 20), (3, 30)] [3, 1, 7] = [(2, 20)] ∧
    merge id [(1, 10), (2, 20)] [(2, 21), (3, 30), (1, 11)] = [(1, 11), (2, 21), (3, 30)] := by decide

end spec2

/-! ## hash.StringHash -/

/-- obligation over the regenerated table (hash/stringhash.go) -/
theorem C09_sh_table_ok : ShOK shFacts = true := by decide

section sh
variable {β : Type} (f : ShFacts) (hok : ShOK f = true)
include hok

/-- the invariant holds after ANY operation sequence -/
theorem C09_sh_inv (h : SH β) (hi : SInv h) (ops : List (SOp β)) : SInv (runSHT f h ops).2 := by
  rw [runSHT_eq hok]; exact sh_inv h hi ops

/-- every observation of every step equals the specification's, for ANY operation sequence -/
theorem C09_sh_refine (h : SH β) (hi : SInv h) (ops : List (SOp β)) :
    (runSHT f h ops).1 = (runSpec h.abs ops).1 ∧ (runSHT f h ops).2.abs = (runSpec h.abs ops).2 := by
  rw [runSHT_eq hok]; exact sh_refine h hi ops

/-- no step of any history ends in a Go runtime fault (index out of range) -/
theorem C09_sh_no_fault (h : SH β) (hi : SInv h) (op : SOp β) : (stepSHT f h op).2 ≠ .fault := by
  rw [stepSHT_eq hok]; exact sh_no_fault h hi op

/-- deletion keeps every other entry reachable, with its value -/
theorem C09_sh_delete_keeps_reachable {h : SH β} (hi : SInv h) (k k' : String) (hne : k' ≠ k) :
    (stepSHT f h (.delete k)).1.get k' = h.get k' := by
  rw [stepSHT_eq hok]; exact sh_delete_keeps_reachable hi k k' hne

/-- once frozen, no operation on that hash changes it (`copy`/`merge` build a new hash) -/
theorem C09_sh_frozen (h : SH β) (hf : h.frozen = true) (op : SOp β)
    (hop : ∀ o, op ≠ .merge o) (hc : op ≠ .copy) : (stepSHT f h op).1 = h := by
  rw [stepSHT_eq hok]; exact sh_frozen h hf op hop hc

/-- once frozen, every mutating operation is rejected — unless it would not have changed anything even on an
    unfrozen hash (`ComputeIfAbsent` of a present key, `PutAll` of nothing) -/
theorem C09_sh_frozen_rejected (h : SH β) (hi : SInv h) (hf : h.frozen = true) (op : SOp β) (hm : op.mutates = true) :
    (stepSHT f h op).2 = .rejected ∨ (stepSpec ⟨h.entries, false⟩ op).1.m = h.entries := by
  rw [stepSHT_eq hok]; exact sh_frozen_rejected h hi hf op hm

end sh

section sh2
variable {β : Type}

/-- the invariant in the form of DESIGN.md: `index k = some i ↔ entries[i].key = k` -/
theorem C09_sh_index_iff {h : SH β} (hi : SInv h) (k : String) (i : Nat) :
    GoMap.get h.index k = some i ↔ (h.entries[i]?).map (·.1) = some k := sh_index_iff hi k i

/-- `Keys`, `Values`, `Len` are projections of the iteration order that `C09_sh_refine` pins down -/
theorem C09_sh_views (h : SH β) :
    h.keys = h.pairs.map (·.1) ∧ h.values = h.pairs.map (·.2) ∧ h.len = h.pairs.length := ⟨rfl, rfl, rfl⟩

/-- `Equals` never faults and compares the two hashes entry by entry through the other's index … -/
theorem C09_sh_equals [DecidableEq β] {h o : SH β} (ho : SInv o) :
    h.equals o = some (equalsSpec h.entries o.entries) := ho.equals

/-- … which for maps is extensional equality of all lookups: the insertion order is ignored -/
theorem C09_sh_equals_ext [DecidableEq β] {h o : SH β} (hh : SInv h) (ho : SInv o) :
    h.equals o = some true ↔ ∀ k, h.get k = o.get k := by
  rw [ho.equals, Option.some.injEq, equalsSpec_iff hh.1 ho.1]
  constructor
  · intro hk k; rw [hh.get, ho.get, hk k]
  · intro hk k
    have := hk k
    rw [hh.get, ho.get] at this
    cases h1 : OMap.get id h.entries k <;> cases h2 : OMap.get id o.entries k <;> simp [h1, h2, optOut] at this ⊢
    exact this

/-- instantiated on the code as it is now, from the empty hash -/
theorem C09_sh_impl_inv (ops : List (SOp β)) : SInv (runSHT shFacts (SH.new : SH β) ops).2 :=
  C09_sh_inv shFacts C09_sh_table_ok _ SInv_new ops

theorem C09_sh_impl_refine (ops : List (SOp β)) :
    (runSHT shFacts (SH.new : SH β) ops).1 = (runSpec ⟨[], false⟩ ops).1 :=
  (C09_sh_refine shFacts C09_sh_table_ok _ SInv_new ops).1

/-! non-vacuity: the fixed defect's history (put a, b, c; delete a; get c) and a frozen hash -/
def shWitness : List (SOp Nat) := [.put "a" 1, .put "b" 2, .put "c" 3, .delete "a", .get "c", .get "a", .includes "b"]
example : (runSHT shFacts SH.new shWitness).1.map (·.1) = [.none, .none, .none, .val 1, .val 3, .none, .unit] := by decide
example : (runSHT shFacts SH.new shWitness).2.entries = [("b", 2), ("c", 3)] ∧
    (runSHT shFacts SH.new shWitness).2.index = [("b", 0), ("c", 1)] := by decide
def shFrozen : SH Nat := (runSHT shFacts SH.new [.put "a" 1, .freeze]).2
example : SInv shFrozen ∧ shFrozen.frozen = true ∧ (SOp.put "b" 2 : SOp Nat).mutates = true :=
  ⟨C09_sh_impl_inv _, by decide, rfl⟩
example : (stepSHT shFacts shFrozen (.put "b" 2)).2 = .rejected ∧ (stepSHT shFacts shFrozen (.delete "a")).2 = .rejected ∧
    (stepSHT shFacts shFrozen (.cia "a" 5)).2 = .val 1 := by decide

/-! the tables of the code before its fixes / of mutants are refuted by the side condition, and the fact-driven
    model reproduces the wrong behaviour -/
/-- the table before c7ffca4 "stringHash.Delete renumbered every later entry to the same index" -/
def shFactsBefore : ShFacts := { shFacts with renum := .pMinus1Above }
example : ShOK shFactsBefore = false := by decide
example : ((runSHT shFactsBefore SH.new
    [.put "a" 1, .put "b" 2, .put "c" 3, .put "d" 4, .delete "b", .get "d"]).1.map (·.1)).getLast? = some (.val 1) := by
  decide      -- `d` answers `a`'s value
/-- `Put` without its frozen test -/
def shFactsNoGuard : ShFacts :=
  { shFacts with methods := shFacts.methods.map fun m => if m.name = "Put" then { m with guard := .none } else m }
example : ShOK shFactsNoGuard = false := by decide
example : (stepSHT shFactsNoGuard shFrozen (.put "b" 2)).1.entries = [("a", 1), ("b", 2)] := by decide
/-- a method that hands the entries to other code, an unknown loop, a Copy that shares, Merge not through Copy -/
example : ShOK { shFacts with renum := .unknown "for k := range index { … }" } = false := by decide
example : ShOK { shFacts with copyFresh := false } = false := by decide
example : ShOK { shFacts with copyFrozen := some true } = false := by decide
example : ShOK { shFacts with putMiss := .appendThenIndexLen } = false := by decide
example : ShOK { shFacts with methods := ⟨"Keys", .none, [.other "other:escapes-entries"], [.entries], []⟩ :: shFacts.methods } = false := by
  decide
example : ShOK { shFacts with methods := ⟨"Clear", .none, [.entries, .index], [], []⟩ :: shFacts.methods } = false := by decide

end sh2

/-! ### audit additions (StringHash): deletion removes the key; instances of the hypotheses of the implications above -/
section sh3
variable {β : Type} (f : ShFacts) (hok : ShOK f = true)
include hok

/-- deletion removes exactly the given key (with `C09_sh_delete_keeps_reachable`: and nothing else) -/
theorem C09_sh_delete_removes {h : SH β} (hi : SInv h) (hf : h.frozen = false) (k : String) :
    (stepSHT f h (.delete k)).1.get k = .none ∧ (stepSHT f h (.delete k)).1.includes k = false := by
  rw [stepSHT_eq hok]
  have hd := hi.delete k
  have he : (h.delete k).1.entries = OMap.delete id h.entries k := by
    have := congrArg (fun x => x.1.m) hd.2
    simpa [stepSpec, SH.abs, hf] using this.symm
  show (h.delete k).1.get k = .none ∧ (h.delete k).1.includes k = false
  rw [hd.1.get, hd.1.includes, he]
  simp [OMap.includes, OMap.get, getEntry_delete, optOut]

end sh3

/-- hypotheses of `C09_sh_delete_keeps_reachable` / `C09_sh_delete_removes` on a reachable, unfrozen hash in which the
    deletion really shifts a position (`c`: index 2 → 1) -/
def shThree : SH Nat := (runSHT shFacts SH.new [.put "a" 1, .put "b" 2, .put "c" 3]).2
example : SInv shThree ∧ shThree.frozen = false ∧ "c" ≠ "a" := ⟨C09_sh_impl_inv _, by decide, by decide⟩
example : shThree.get "c" = .val 3 ∧ GoMap.get shThree.index "c" = some 2 ∧
    (stepSHT shFacts shThree (.delete "a")).1.get "c" = .val 3 ∧
    GoMap.get (stepSHT shFacts shThree (.delete "a")).1.index "c" = some 1 ∧
    (stepSHT shFacts shThree (.delete "a")).1.get "a" = .none := by decide
/-- `C09_sh_index_iff` on it -/
example : GoMap.get shThree.index "b" = some 1 ∧ (shThree.entries[1]?).map (·.1) = some "b" := by decide
/-- `C09_sh_equals` / `C09_sh_equals_ext`: two reachable hashes with different insertion order are `Equals`, and the
    theorem then gives equal lookups for EVERY key -/
def shAB : SH Nat := (runSHT shFacts SH.new [.put "a" 1, .put "b" 2]).2
def shBA : SH Nat := (runSHT shFacts SH.new [.put "b" 2, .put "a" 1]).2
example : SInv shAB ∧ SInv shBA ∧ shAB.pairs ≠ shBA.pairs ∧ shAB.equals shBA = some true ∧
    shAB.equals shThree = some false ∧ (∀ k, shAB.get k = shBA.get k) := by
  refine ⟨C09_sh_impl_inv _, C09_sh_impl_inv _, by decide, by decide, by decide, ?_⟩
  exact (C09_sh_equals_ext (C09_sh_impl_inv _) (C09_sh_impl_inv _)).1 (by decide)

/-! ## types.Hash -/

/-- obligation over the regenerated table (types/hashtype.go) -/
theorem C09_hash_table_ok : HashOK hashFacts = true := by decide

section hash
variable {α β κ : Type} [DecidableEq κ] (key : α → κ)

section withFacts
variable (f : HashFacts) (hok : HashOK f = true)
include hok

/-- every hash of the pool keeps the invariant (no two equal keys, cached index = index of the entries) through ANY
    history whose literals do not repeat a key -/
theorem C09_hash_inv (ops : List (HOp α β)) (hl : ∀ op ∈ ops, LitOK key op) (pool : List (Hash α β κ))
    (hp : PoolInv key pool) : PoolInv key (runHImplT f key pool ops).2 := by
  rw [runHImplT_eq hok]; exact hash_inv key ops hl pool hp

/-- every answer of every step (lookups, membership, iteration order) equals the specification's, and so does the
    content of every hash of the pool afterwards — for ANY history whose literals do not repeat a key -/
theorem C09_hash_refine_partial (ops : List (HOp α β)) (hl : ∀ op ∈ ops, LitOK key op) (pool : List (Hash α β κ))
    (hp : PoolInv key pool) :
    (runHImplT f key pool ops).1 = (runHSpec key (absPool pool) ops).1 ∧
      absPool (runHImplT f key pool ops).2 = (runHSpec key (absPool pool) ops).2 := by
  rw [runHImplT_eq hok]; exact hash_refine_partial key ops hl pool hp

/-- no step of such a history ends in a Go runtime fault (slice bounds, index out of range) -/
theorem C09_hash_no_fault (ops : List (HOp α β)) (hl : ∀ op ∈ ops, LitOK key op) (pool : List (Hash α β κ))
    (hp : PoolInv key pool) : ∀ o ∈ (runHImplT f key pool ops).1, o ≠ .fault := by
  rw [runHImplT_eq hok]; exact hash_no_fault key ops hl pool hp

/-- `MutableHashValue.PutAll`: never faults, the new content is the merge, the invariant is kept (index dropped) -/
theorem C09_mutable_putAll {h : Hash α β κ} (hi : HInv key h) {o : List (α × β)} (ho : (keys key o).Nodup) :
    ∃ n, h.putAllT f key o = some n ∧ n.entries = merge key h.entries o ∧ HInv key n := by
  rw [Hash.putAllT_eq hok]; exact hi.putAll ho

end withFacts

/-- `valueIndex()` answers exactly the positions: `index k = some i ↔ key entries[i] = k` -/
theorem C09_hash_index_iff {h : Hash α β κ} (hi : HInv key h) (k : κ) (i : Nat) :
    GoMap.get (h.valueIndex key).2 k = some i ↔ (h.entries[i]?).map (fun e => key e.1) = some k :=
  hash_index_iff key hi k i

omit [DecidableEq κ] in
/-- `Keys`, `Values`, `Len`, `At` are projections of the entries that `C09_hash_refine_partial` pins down (`view`) -/
theorem C09_hash_views (h : Hash α β κ) (i : Nat) :
    h.keys = h.entries.map (·.1) ∧ h.values = h.entries.map (·.2) ∧ h.len = h.entries.length ∧
      h.atIdx i = h.entries[i]? := ⟨rfl, rfl, rfl, rfl⟩

/-! ### what is guaranteed for ANY entry list, repeated keys included (the model of C09-literal-dup-keys) -/

/-- the lazily built index answers the position of the LAST entry with the key -/
theorem C09_hash_dup_index (es : List (α × β)) (k : κ) :
    GoMap.get ((Hash.wrap es : Hash α β κ).valueIndex key).2 k = lidx key es k := by
  simp [Hash.valueIndex, Hash.wrap, get_buildIndex_any]

/-- `Get`/`Get2`/`Get4` never fault and answer exactly what the specification's literal answers (the later value) -/
theorem C09_hash_dup_get (es : List (α × β)) (k : κ) :
    ((Hash.wrap es : Hash α β κ).get key k).2 = some (OMap.get key (ofList key es) k) := by
  rw [wrap_get_any, ofList, get_merge_last]
  cases getLast key es k <;> simp [OMap.get, getEntry]

/-- `IncludesKey` answers exactly what the specification's literal answers -/
theorem C09_hash_dup_includes (es : List (α × β)) (k : κ) :
    ((Hash.wrap es : Hash α β κ).includesKey key k).2 = OMap.includes key (ofList key es) k := by
  rw [wrap_includes_any, ofList, getEntry_isSome_merge]
  simp [OMap.includes, getEntry]

omit [DecidableEq κ] in
/-- … but `Keys`/`Values`/`Len`/`At`/`Each` show every entry of the list, the repeated ones too -/
theorem C09_hash_dup_views (es : List (α × β)) (i : Nat) :
    (Hash.wrap es : Hash α β κ).keys = es.map (·.1) ∧ (Hash.wrap es : Hash α β κ).values = es.map (·.2) ∧
      (Hash.wrap es : Hash α β κ).len = es.length ∧ (Hash.wrap es : Hash α β κ).atIdx i = es[i]? := ⟨rfl, rfl, rfl, rfl⟩

/-- … and `Delete` removes only the LAST entry with the key (never faults) -/
theorem C09_hash_dup_delete (es : List (α × β)) (k : α) :
    ((Hash.wrap es : Hash α β κ).delete key k).2.map (·.entries) = some (match lidx key es (key k) with
      | some i => es.eraseIdx i
      | none => es) := wrap_delete_any key es k

example : ((Hash.wrap [(1, 10), (2, 20), (1, 30)] : Hash Nat Nat Nat).get id 1).2 = some (some 30) ∧
    (Hash.wrap [(1, 10), (2, 20), (1, 30)] : Hash Nat Nat Nat).keys = [1, 2, 1] ∧
    ((Hash.wrap [(1, 10), (2, 20), (1, 30)] : Hash Nat Nat Nat).delete id 1).2.map (·.entries) = some [(1, 10), (2, 20)] ∧
    ofList id [(1, 10), (2, 20), (1, 30)] = [(1, 30), (2, 20)] := by decide

end hash

/-! ## types.Array: an immutable sequence -/
section arr
variable {α κ : Type} [DecidableEq κ] (key : α → κ) (le : α → α → Bool)

/-- for ANY history over a pool of arrays (literal, add, addAll, delete, deleteAll, slice, unique, sort, eachSlice,
    at, len, find, view) the loops of the implementation model answer what the sequence specification answers and
    leave the same pool behind -/
theorem C09_arr_refine (pool : List (List α)) (ops : List (AOp α)) :
    runAImpl key le pool ops = runASpec key le pool ops := runAImpl_eq key le pool ops

/-- immutability: whatever the history, every array that was in the pool is still there, unchanged -/
theorem C09_arr_immutable (pool : List (List α)) (ops : List (AOp α)) (i : Nat) (hi : i < pool.length) :
    (runAImpl key le pool ops).2[i]? = pool[i]? := by
  rw [C09_arr_refine]
  obtain ⟨t, ht⟩ := runASpec_prefix key le pool ops
  rw [← ht, List.getElem?_append_left hi]

/-- what the specification's `unique` is: the first of every group of equal elements, in order -/
theorem C09_arr_spec_unique (a : List α) :
    ((ASpec.firsts key a).map key).Nodup ∧ (ASpec.firsts key a).Sublist a ∧
      ∀ e ∈ a, key e ∈ (ASpec.firsts key a).map key := ASpec.firsts_spec key a

omit [DecidableEq κ] in
/-- what the specification's `eachSlice n` is: non-empty pieces of at most `n` elements whose concatenation is the array -/
theorem C09_arr_spec_chunks (n : Nat) (hn : 0 < n) (a : List α) :
    (ASpec.chunks n a).flatten = a ∧ ∀ c ∈ ASpec.chunks n a, 0 < c.length ∧ c.length ≤ n := ASpec.chunks_spec n hn a

omit [DecidableEq κ] in
/-- what the specification's `slice i j` is: the elements at positions i … j-1 -/
theorem C09_arr_spec_slice (a : List α) (i j : Nat) (h : i ≤ j ∧ j ≤ a.length) :
    (ASpec.slice a i j).length = j - i ∧ ∀ n, n < j - i → (ASpec.slice a i j)[n]? = a[i + n]? := ASpec.slice_spec a i j h

omit [DecidableEq κ] in
/-- `Sort` with a total, transitive comparator: a sorted permutation -/
theorem C09_arr_sort (a : List α) (htot : ∀ x y, le x y || le y x) (htrans : ∀ x y z, le x y → le y z → le x z) :
    (Arr.sort le a).Perm a ∧ (Arr.sort le a).Pairwise (fun x y => le x y) :=
  ⟨List.mergeSort_perm a le, List.pairwise_mergeSort htrans htot a⟩

/-- `Flatten`: no array is left among the elements, and an array without nested arrays is unchanged -/
theorem C09_arr_flatten (vs : List AVal) :
    (∀ x ∈ AVal.flats vs, x.isArr = false) ∧ AVal.flats (AVal.flats vs) = AVal.flats vs :=
  ⟨AVal.flats_noArr vs, AVal.flats_of_noArr _ (AVal.flats_noArr vs)⟩

def arrWitness : List (AOp Nat) :=
  [.lit [3, 1, 3, 2], .add 0 1, .unique 1, .view 2, .delete 1 3, .view 3, .eachSlice 1 2, .slice 0 1 3,
   .view 4, .slice 0 3 9, .eachSlice 0 0, .at 0 (-1), .at 0 3, .addAll 2 4, .view 5, .deleteAll 5 4, .view 6, .view 0]
example : (runAImpl id (fun x y => decide (x ≤ y)) [] arrWitness).1 =
    [.made, .made, .made, .elems [3, 1, 2], .made, .elems [1, 2, 1],
     .chunks [[3, 1], [3, 2], [1]], .made, .elems [1, 3], .fault, .illegal, .got none, .got (some 2), .made,
     .elems [3, 1, 2, 1, 3], .made, .elems [2], .elems [3, 1, 3, 2]] := by decide
example : Arr.sort (fun x y => decide (x ≤ y)) [3, 1, 3, 2] = [1, 2, 3, 3] := by
  simp [Arr.sort, List.mergeSort, List.MergeSort.Internal.splitInTwo]
example : AVal.flats [.leaf "1", .arr [.leaf "2", .arr [.leaf "3"], .arr []], .leaf "4"] =
    [.leaf "1", .leaf "2", .leaf "3", .leaf "4"] := by simp [AVal.flats, AVal.flat]

/-! ### audit additions (Array): the specification of `unique` / `eachSlice` pinned down exactly -/

/-- `unique` keeps the FIRST of every group of equal elements (`C09_arr_spec_unique` alone would also allow a later one) -/
theorem C09_arr_spec_unique_first (a : List α) :
    ∀ e ∈ ASpec.firsts key a, a.find? (fun x => decide (key x = key e)) = some e := by
  have congr : ∀ (p q : α → Bool) (l : List α), (∀ x ∈ l, p x = q x) → l.find? p = l.find? q := by
    intro p q l
    induction l with
    | nil => intro _; rfl
    | cons x l ih =>
      intro h
      have hx := h x (by simp)
      have := ih (fun y hy => h y (by simp [hy]))
      simp [List.find?_cons, hx, this]
  generalize hl : a.length = m
  induction m using Nat.strongRecOn generalizing a with
  | _ m ih =>
    cases a with
    | nil => simp [ASpec.firsts]
    | cons v vs =>
      rw [ASpec.firsts]
      intro e he
      rcases List.mem_cons.mp he with rfl | he
      · simp
      · have hlt : (vs.filter (fun x => !decide (key x = key v))).length < m := by
          have := List.length_filter_le (fun x => !decide (key x = key v)) vs
          simp only [← hl, List.length_cons]; omega
        have hm : e ∈ vs.filter (fun x => !decide (key x = key v)) :=
          (ASpec.firsts_spec key _).2.1.subset he
        have hne : key e ≠ key v := by simpa using (List.mem_filter.mp hm).2
        have := ih _ hlt _ rfl e he
        rw [List.find?_filter] at this
        have hv : decide (key v = key e) = false := by simpa using fun h => hne h.symm
        rw [List.find?_cons, hv]
        rw [← this]
        apply congr
        intro x _
        by_cases hx : key x = key e
        · simp [hx, hne]
        · simp [hx]

omit [DecidableEq κ] in
/-- piece number `i` of `eachSlice n` is exactly the elements at positions `i*n … i*n+n-1` (every piece but the last is
    full; `C09_arr_spec_chunks` alone would also allow `[[1],[2],[3]]` for `n = 2`) -/
theorem C09_arr_spec_chunks_at (n : Nat) (hn : 0 < n) (a : List α) (i : Nat) :
    (ASpec.chunks n a)[i]? = if i * n < a.length then some ((a.drop (i * n)).take n) else none := by
  induction i generalizing a with
  | zero =>
    cases a with
    | nil => simp [ASpec.chunks]
    | cons v vs =>
      have hn0 : n ≠ 0 := by omega
      rw [ASpec.chunks]; simp [hn0]
  | succ i ih =>
    cases a with
    | nil => simp [ASpec.chunks]
    | cons v vs =>
      have hn0 : n ≠ 0 := by omega
      rw [ASpec.chunks]
      simp only [hn0, if_false, List.getElem?_cons_succ, ih, List.length_drop, List.drop_drop]
      have e1 : (i + 1) * n = n + i * n := by rw [Nat.add_mul]; omega
      have e2 : i * n < (v :: vs).length - n ↔ (i + 1) * n < (v :: vs).length := by omega
      simp only [e2, e1]

example : ASpec.firsts (fun x : Nat × Nat => x.1) [(3, 0), (1, 1), (3, 2), (2, 3)] = [(3, 0), (1, 1), (2, 3)] := by
  simp [ASpec.firsts]
/-- the hypotheses of `C09_arr_sort` hold of the comparator of the examples -/
example : (∀ x y : Nat, (decide (x ≤ y) || decide (y ≤ x)) = true) ∧
    (∀ x y z : Nat, decide (x ≤ y) = true → decide (y ≤ z) = true → decide (x ≤ z) = true) :=
  ⟨fun x y => by simp; omega, fun x y z => by simp; omega⟩

end arr

/-- FULL statements (every literal included) -/
def C09_hash_refine_full : Prop :=
  ∀ ops : List (HOp Nat Nat), (runHImplT hashFacts id ([] : List (Hash Nat Nat Nat)) ops).1 = (runHSpec id [] ops).1
def C09_hash_nodup_full : Prop :=
  ∀ ops : List (HOp Nat Nat), ∀ h ∈ (runHImplT hashFacts id ([] : List (Hash Nat Nat Nat)) ops).2, (keys id h.entries).Nodup

/-- known finding C09-literal-dup-keys: the literal `{1=>1, 1=>2}` holds two equal keys … -/
theorem C09_hash_literal_dup_keys : ¬ C09_hash_nodup_full := by
  intro h
  have := h [.lit [(1, 1), (1, 2)]] (Hash.wrap [(1, 1), (1, 2)]) (by simp [runHImplT, stepHImplT, stepHImpl])
  simp [Hash.wrap, keys] at this

/-- … and is observably not the ordered map `{1=>2}`: its iteration order shows both entries -/
theorem C09_hash_refine_full_fails : ¬ C09_hash_refine_full := by
  intro h
  have := h [.lit [(1, 1), (1, 2)], .view 0]
  revert this; decide

/-! non-vacuity of `LitOK` / `PoolInv`: the history of the fixed defect "Hash.Delete … deleted only the last key" -/
def hashWitness : List (HOp Nat Nat) :=
  [.lit [(1, 10), (2, 20), (3, 30)], .delete 0 1, .view 1, .view 0, .deleteAll 0 [1, 2], .view 2, .put 0 (2, 21),
   .view 3, .merge 1 3, .view 4, .get 4 2, .includes 1 1]
example : (∀ op ∈ hashWitness, LitOK id op) ∧ PoolInv id ([] : List (Hash Nat Nat Nat)) :=
  ⟨by decide, by simp [PoolInv]⟩
example : (runHImplT hashFacts id ([] : List (Hash Nat Nat Nat)) hashWitness).1 =
    [.made, .made, .entries [(2, 20), (3, 30)], .entries [(1, 10), (2, 20), (3, 30)], .made, .entries [(3, 30)], .made,
     .entries [(1, 10), (2, 21), (3, 30)], .made, .entries [(2, 21), (3, 30), (1, 10)], .got (some 21), .has false] := by
  decide

/-! the tables of mutants are refuted by the side condition, and the fact-driven model reproduces the behaviour -/
/-- Appendix E mutant "`mergeEntries`: always append" -/
def hashFactsAppend : HashFacts := { hashFacts with mergeLoop := .alwaysAppend }
example : HashOK hashFactsAppend = false := by decide
example : (runHImplT hashFactsAppend id ([] : List (Hash Nat Nat Nat)) [.lit [(1, 2)], .put 0 (1, 3), .view 1]).1 =
    [.made, .made, .entries [(1, 2), (1, 3)]] := by decide
/-- `PutAll` without `hv.index = nil`: the stale index makes the new key unreachable -/
def hashFactsStale : HashFacts := { hashFacts with putAllResetsIndex := false }
example : HashOK hashFactsStale = false := by decide
example : (runHImplT hashFactsStale id ([] : List (Hash Nat Nat Nat)) [.lit [], .mput 0 (1, 1), .mput 0 (2, 2), .get 0 2]).1 =
    [.made, .made, .made, .got none] := by decide
example : HashOK { hashFacts with literals := ("hashtype.go:Hash.Select", ["entries", "index"]) :: hashFacts.literals } = false := by
  decide
example : HashOK { hashFacts with fieldWrites := ("Hash.Delete", "entries", .unknown "hv.entries = …") :: hashFacts.fieldWrites } = false := by
  decide
example : HashOK { hashFacts with entryElementWrites := ["Hash.Sort: hv.entries[i] = hv.entries[j]"] } = false := by decide
example : HashOK { hashFacts with mergeCopiesReceiver := false } = false := by decide
example : HashOK { hashFacts with valueIndex := .unknown "…" } = false := by decide

/-! ### audit additions (Hash): instances of the hypotheses of `C09_mutable_putAll` / `C09_hash_index_iff`, and a `LitOK`
    history through the operations `hashWitness` does not use (slice, select, reject, eachSlice, in-place Put/PutAll) -/
def hTwo : Hash Nat Nat Nat := Hash.wrap [(1, 10), (2, 20)]
example : HInv id hTwo ∧ (keys id [(2, 21), (3, 30)]).Nodup ∧
    (hTwo.putAllT hashFacts id [(2, 21), (3, 30)]).map (·.entries) = some [(1, 10), (2, 21), (3, 30)] ∧
    (hTwo.putAllT hashFacts id [(2, 21), (3, 30)]).map (·.index) = some none :=
  ⟨HInv.wrap (by decide), by decide, by decide, by decide⟩
example : GoMap.get (hTwo.valueIndex id).2 2 = some 1 ∧ (hTwo.entries[1]?).map (fun e => id e.1) = some 2 := by decide

def hashWitness2 : List (HOp Nat Nat) :=
  [.lit [(3, 30), (1, 10), (2, 20)], .slice 0 1 3, .view 1, .slice 0 2 5, .select 0 [1, 3], .view 2, .reject 0 [1, 3], .view 3,
   .eachSlice 0 2, .eachSlice 0 0, .lit [], .mput 4 (7, 70), .mputAll 4 0,
   .mput 4 (1, 11), .view 4, .get 4 7, .get 9 1]
example : ∀ op ∈ hashWitness2, LitOK id op := by
  intro op h
  simp only [hashWitness2, List.mem_cons, List.mem_nil_iff, or_false] at h
  rcases h with rfl|rfl|rfl|rfl|rfl|rfl|rfl|rfl|rfl|rfl|rfl|rfl|rfl|rfl|rfl|rfl|rfl <;> simp [LitOK, keys]
/-- note `.badBounds`: `Slice(2, 5)` of a 3-entry hash is a Go slice-bounds panic; the model (and the specification) answer
    `badBounds`, which `C09_hash_no_fault` does NOT count as a fault (caller error, outside the property) -/
example : (runHImplT hashFacts id ([] : List (Hash Nat Nat Nat)) hashWitness2).1 =
    [.made, .made, .entries [(1, 10), (2, 20)], .badBounds, .made, .entries [(3, 30), (1, 10)], .made, .entries [(2, 20)],
     .chunks [[(3, 30), (1, 10)], [(2, 20)]], .illegal, .made, .made, .made,
     .made, .entries [(7, 70), (3, 30), (1, 11), (2, 20)], .got (some 70), .badRef] := by
  decide
example : ((Hash.wrap [(3, 30), (1, 10), (2, 20)] : Hash Nat Nat Nat).sort (fun x y => decide (x ≤ y))).entries =
    [(1, 10), (2, 20), (3, 30)] := by
  simp [Hash.sort, Hash.wrap, List.mergeSort, List.MergeSort.Internal.splitInTwo]

end Pcore.Coll
