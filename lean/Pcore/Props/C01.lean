import Pcore.Proofs.LatSoundMain
import Pcore.Proofs.LatSfh
import Pcore.Proofs.LatSoundTyp
import Pcore.Proofs.LatSoundTypCall
set_option linter.unusedSimpArgs false
/-!
# C01 — Assignability is sound: what is assignable never admits a foreign instance

Property (properties.jsonl): whenever a type A answers that a type B is assignable to it, every value that is an instance of B is
also an instance of A — for all value-describing types (scalars and ranges, enums, patterns, collections, tuples, structs, variants,
Optional/NotUndef, Type[T], Sensitive, Iterable, aliases such as Data, object types); the only exclusions are the Unit type and the
by-specification rule that lets a Struct accept a Hash type on key type and size alone.  Quantifier: all pairs (A, B), all values v.

Model: `asg sfh a b` mirrors `GuardedIsAssignable` + the ~35 `IsAssignable` methods, `inst` the `IsInstance` methods
(`Pcore/Model/LatticeAsg.lean`, `LatticeInst.lean`); `sfh` switches the exempt Struct-from-Hash rule (`sfh = true` is the code).

Full statement / proved / missing
* `C01_full` (a `def … : Prop`, kept visible): for every matcher, every length-preserving `lower`, all well-formed A, B with B
  `UnitSafe` (Unit only as element type of zero-size collections, the shape inferred for empty arrays/hashes), all values:
  `asg false A B → inst B v → inst A v`.
* `C01_sound_partial` — PROVED, unbounded (strong induction on the summed weight, one lemma per receiver rule), for BOTH settings of the
  exempt rule: with the rule off it is `C01_full` restricted to the fragment `Ty.Frag false` = hereditarily no `Iterable[..]`; with the
  rule ON — the code as it is, `C01_sound_rule_on` — the fragment `Ty.Frag true` additionally has no `Struct` (the stated exclusion:
  only a Struct can use the rule).  The fragment covers Any, Undef, Default, Scalar, ScalarData, Numeric,
  Integer, Float, Boolean, Timespan, String (all three forms), Enum, Pattern, Regexp, Binary, Collection, Array, Hash, Tuple, Struct,
  Variant, Optional, NotUndef, Sensitive, Object, the built-in recursive aliases Data and RichData (as receivers and on the right-hand
  side, through the specialised `asgToArr` / `asgToHash` members), arbitrarily nested, and `Type[T]` AT ANY NESTING for every `T` of
  the model except Unit — `T ∈ Ty.TA sfh`: Struct (rule off), Iterable, Data / RichData, Tuples (type list of int64 length, as every Go
  slice) inside `T` — because soundness for `Type[..]` IS transitivity `X ⊒ Y ⊒ u` and C03 stage 4 (`C03_trans_alias_partial`, `transD`)
  proves transitivity on all of `Ty.TA`; types used as values are then well-formed members of `Ty.TA sfh`, and container lengths fit
  an int64 as Go's do (`Val.TyOKS`).  (Until the extension round the content of a nested `Type[T]` had to lie in the stage-2 fragment
  `Ty.TF` — no Struct, Iterable, alias inside; `Ty.TA` contains `Ty.TF` except for a Tuple TYPE with more than MaxInt64 declared types,
  which no Go slice can hold.)
* `C01_sound_type_receiver` — PROVED (corollary of C03 stage 4): soundness of the receiver `Type[x]` for every `x` of `Ty.TA` against every
  right-hand type of `Ty.TA` (Iterable allowed on the RIGHT too, which `Ty.Frag` excludes).
* missing, and why:
  - `Iterable` as a receiver or on the right of another receiver: its instance rule asks an assignability
    question about an INFERRED type and is genuinely unsound in the code: witnesses
    `C01_full_fails_iterable_elem` (inferred element type wider than any Variant member; known finding C01-iterable-inferred-elem)
    and `C01_full_fails_iterable_binary` (Iterable accepts Binary, whose values are not Iterable instances; C01-iterable-binary).
  - Unit inside the content of a `Type[T]` or inside a type VALUE (Unit is the stated exclusion; transitivity is false through it).
  - the exempt rule: `C01_sfh_witness` shows it is genuinely unsound when switched on (this is the stated exclusion, not a finding).
    With the rule on `C01_sound_rule_on` excludes every pair that contains a Struct anywhere; the finer statement is
    `C01_unsound_only_by_rule` — PROVED: for types without `Type[..]` / `Iterable[..]` (Structs included) the instance relation does
    not depend on the rule (`inst_sfh`, through C02), and wherever the code is unsound the rule-off relation rejects the pair: every
    unsound acceptance of the code is one that only the Struct-from-Hash arm grants.  (Not proved: a syntactic localisation such as the
    harness class `unsound-sfh` = "A contains a Struct and B a Hash type".)
  - second-tier types (Like, Init, TypeReference, SemVer, URI, Runtime with a Go type) and user recursive aliases (Timestamp[min,max],
    Iterator[T], Runtime[runtime, name, pattern] and Callable[params, return, block] are inside the model since the extension round: every theorem of this file covers them; Iterator, Runtime and Callable have no instance in the
    value language, so their soundness is vacuous and what is checked of them is assignability, equality, generalisation, commonType):
    not in the model; harness-side tests only.
-/
namespace Pcore.Lat

/-- assumption on `strings.ToLower` used by `String[n] ⊒ Enum[…, true]`: it maps character by character -/
def LowerLen (cfg : Cfg) : Prop := ∀ s, (cfg.lower s).length = s.length

/-- the full statement (exempt rule off) -/
def C01_full : Prop :=
  ∀ (cfg : Cfg), LowerLen cfg → ∀ (a b : Ty) (v : Val), Ty.WF cfg a → Ty.WF cfg b → b.US → v.OK →
    asg cfg false a b = true → inst cfg false b v = true → inst cfg false a v = true

/-- proved part: the same statement on the fragment `Ty.Frag` -/
theorem C01_sound_partial (cfg : Cfg) (sfh : Bool) (hl : LowerLen cfg) (a b : Ty) (v : Val)
    (fa : a.Frag sfh) (fb : b.Frag sfh) (wa : Ty.WF cfg a) (wb : Ty.WF cfg b) (us : b.US) (ok : v.OK) (tv : Val.TyOKS cfg sfh v)
    (h : asg cfg sfh a b = true) (hi : inst cfg sfh b v = true) : inst cfg sfh a v = true :=
  sound_all cfg sfh hl (a.w + b.w) a b v (Nat.le_refl _) ⟨fa, fb, wa, wb, us, ok, tv⟩ h hi

/-- the code as it is (rule ON), for every pair without a Struct: instance of the theorem at `sfh = true` -/
theorem C01_sound_rule_on (cfg : Cfg) (hl : LowerLen cfg) (a b : Ty) (v : Val)
    (fa : a.Frag true) (fb : b.Frag true) (wa : Ty.WF cfg a) (wb : Ty.WF cfg b) (us : b.US) (ok : v.OK) (tv : Val.TyOKS cfg true v)
    (h : asg cfg true a b = true) (hi : inst cfg true b v = true) : inst cfg true a v = true :=
  C01_sound_partial cfg true hl a b v fa fb wa wb us ok tv h hi

/-- the test "accepts Undef" used by the NotUndef and Struct rules is complete -/
theorem C01_undef_complete (cfg : Cfg) (sfh : Bool) (b : Ty) (h : inst cfg sfh b .undef = true) :
    asg cfg sfh b .undef = true :=
  inst_undef_complete cfg sfh b.w b (Nat.le_refl _) h

/-! ### non-vacuity: hypotheses of `C01_sound_partial` met by a nested case with `asg` and `inst` both true -/
def exA : Ty := .array (.variant [.int ⟨0, 9⟩, .optional .str, .typ .scalar]) ⟨0, 5⟩
def exB : Ty := .tuple [.int ⟨1, 2⟩, .strVal "a", .typ .numeric] none
def exV : Val := .array [.int 2, .str "a", .typ (.int ⟨0, 5⟩)]

example (cfg : Cfg) : exA.Frag true ∧ exB.Frag true ∧ Ty.WF cfg exA ∧ Ty.WF cfg exB ∧ exB.US := by
  refine ⟨?_, ?_, ?_, ?_, ?_⟩ <;> simp [exA, exB, Ty.Frag, Ty.TA, Ty.WF, Ty.US]
example : exV.OK := Val.OK.array _ (by intro x hx; simp at hx; rcases hx with rfl | rfl | rfl <;> constructor)
example (cfg : Cfg) : Val.TyOKS cfg true exV := by
  unfold exV
  exact Val.TyOKS.array _ (by simp [exV, I64.max]) (by
    intro x hx; simp [exV] at hx
    rcases hx with rfl | rfl | rfl
    · constructor
    · constructor
    · exact Val.TyOKS.typ _ (by simp [Ty.TA]) (by simp [Ty.WF]))
example (cfg : Cfg) : asg cfg true exA exB = true := by
  simp [exA, exB, asg, asgRecv, asgAllR, asgAnyL, tupZip, sameNullary, Rng.sub, tupleSize, Rng.exact, isStringFamily]
example (cfg : Cfg) : inst cfg true exB exV = true := by
  simp [exB, exV, inst, instZip, tupleSize, Rng.exact, Rng.contains, asg, asgRecv, sameNullary]

/-! non-vacuity of the lifted `Type[T]` clause (rule off): `Type[Struct[{a => Data}]]` and `Type[Iterable[..]]` NESTED inside an Array
    receiver, against a Tuple of `Type[Struct[..]]` / `Type[Array[..]]`, and a value holding the type values `Struct[{a => Integer[0,9]}]`
    and `Array[String, 1, 2]` -/
def exA2 : Ty := .array (.variant [.typ (.struct [("a", false, .data)]), .typ (.iterable .scalar)]) ⟨0, 5⟩
def exB2 : Ty := .tuple [.typ (.struct [("a", false, .int Rng.all)]), .typ (.array .str Rng.pos)] none
def exV2 : Val := .array [.typ (.struct [("a", false, .int ⟨0, 9⟩)]), .typ (.array .str ⟨1, 2⟩)]
example (cfg : Cfg) : exA2.Frag false ∧ exB2.Frag false ∧ Ty.WF cfg exA2 ∧ Ty.WF cfg exB2 ∧ exB2.US := by
  refine ⟨?_, ?_, ?_, ?_, ?_⟩ <;> simp [exA2, exB2, Ty.Frag, Ty.TA, Ty.WF, Ty.US]
example (cfg : Cfg) : Val.TyOKS cfg false exV2 := by
  unfold exV2
  exact Val.TyOKS.array _ (by simp [I64.max]) (by
    intro x hx; simp at hx
    rcases hx with rfl | rfl
    · exact Val.TyOKS.typ _ (by simp [Ty.TA]) (by simp [Ty.WF])
    · exact Val.TyOKS.typ _ (by simp [Ty.TA]) (by simp [Ty.WF]))
example (cfg : Cfg) : asg cfg false exA2 exB2 = true := by
  simp [exA2, exB2, asg, asgRecv, asgAllR, asgAnyL, tupZip, sameNullary, Rng.sub, tupleSize, Rng.exact, isStringFamily, structAll,
    structMember, distinctCount, floatAll, Rng.pos, Rng.all, I64.max, I64.min]
example (cfg : Cfg) : inst cfg false exB2 exV2 = true := by
  simp [exB2, exV2, inst, instZip, tupleSize, Rng.exact, Rng.contains, asg, asgRecv, sameNullary, structAll, structMember,
    distinctCount, Rng.sub, Rng.all, Rng.pos, I64.max, I64.min, isStringFamily]

/-- non-vacuity with the recursive alias: `Data ⊒ Hash[String, Array[Integer]]` and a conforming value -/
example (cfg : Cfg) :
    asg cfg false .data (.hash .str (.array (.int Rng.all) Rng.pos) Rng.pos) = true ∧
    inst cfg false (.hash .str (.array (.int Rng.all) Rng.pos) Rng.pos) (.hash [(.str "k", .array [.int 1])]) = true := by
  constructor
  · simp [asg, asgRecv, sameNullary, Rng.sub, Rng.pos, Rng.all, I64.max, I64.min, isStringFamily, floatAll]
  · simp [inst, instEntries, instAll, Ty.isAny, Rng.contains, Rng.pos, Rng.all, I64.max, I64.min]

/-! ### the full statement fails for Iterable: two known findings, with witnesses -/
def idCfg : Cfg := { rxMatch := fun _ _ => false, lower := id }

def wA : Ty := .iterable (.variant [.int ⟨1, 1⟩, .int ⟨3, 3⟩])
def wB : Ty := .array (.variant [.int ⟨1, 1⟩, .int ⟨3, 3⟩]) ⟨0, 5⟩
def wV : Val := .array [.int 1, .int 3]

/-- `Iterable[Variant[Integer[1,1],Integer[3,3]]]` accepts `Array[Variant[…]]` but rejects its instance `[1, 3]`, whose inferred
    element type `Integer[1,3]` no Variant member accepts (known finding C01-iterable-inferred-elem) -/
theorem C01_full_fails_iterable_elem : ¬ C01_full := by
  intro h
  have := h idCfg (fun _ => rfl) wA wB wV (by simp [wA, Ty.WF]) (by simp [wB, Ty.WF]) (by simp [wB, Ty.US])
    (Val.OK.array _ (by intro x hx; simp [wV] at hx; rcases hx with rfl | rfl <;> constructor))
    (by simp [wA, wB, asg, asgRecv, asgAllR, asgAnyL, sameNullary, Rng.sub])
    (by simp [wB, wV, inst, instAll, instAny, Ty.isAny, Rng.contains])
  have hf : inst idCfg false wA wV = false := by
    simp [wA, wV, inst, elemType, ptype, ptypeFold, commonType, commonF, asg, asgRecv, asgAllR, asgAnyL, sameNullary,
      Rng.sub, Rng.exact, Rng.hull, Ty.isUnit]
    omega
  rw [hf] at this; cases this

/-- `Iterable[Integer[0,255]]` accepts `Binary`, but no Binary value is an instance of an Iterable type
    (known finding C01-iterable-binary) -/
theorem C01_full_fails_iterable_binary :
    ∃ (a b : Ty) (v : Val), asg idCfg false a b = true ∧ inst idCfg false b v = true ∧ inst idCfg false a v = false :=
  ⟨.iterable (.int ⟨0, 255⟩), .bin, .binary [1, 2], by
    simp [asg, asgRecv, sameNullary, Rng.sub], by simp [inst], by simp [inst, elemType]⟩

/-- the exempt rule (Struct accepts a Hash type on key type and size alone) is unsound when switched on: the stated exclusion -/
theorem C01_sfh_witness :
    ∃ (a b : Ty) (v : Val), asg idCfg true a b = true ∧ inst idCfg true b v = true ∧ inst idCfg true a v = false :=
  ⟨.struct [("a", false, .int Rng.all)], .hash .str (.int Rng.all) ⟨1, 1⟩, .hash [(.str "b", .int 1)], by
    simp [asg, asgRecv, sameNullary, structReq, structSize, Rng.sub, Rng.all, isStringFamily], by
    simp [inst, instEntries, Rng.contains, Rng.all, I64.min, I64.max], by
    simp [inst, instStruct, hashGetW, keyIsStr]⟩

/-- the intransitivity of Callable through the default Callable (C03_trans_fails_callable, known finding C03-trans-callable-top) seen one
    level up, where soundness for `Type[..]` IS transitivity (known finding C01-type-of-callable-top); `Ty.Frag` asks the content of a
    `Type[T]` to lie in `Ty.TA`, which has no Callable -/
theorem C01_type_callable_witness :
    ∃ (a b : Ty) (v : Val), asg idCfg true a b = true ∧ inst idCfg true b v = true ∧ inst idCfg true a v = false :=
  ⟨.typ (.callable none (some .any) none), .typ (.callable none none none), .typ (.callable (some (.tuple [.str] none)) none none), by
    simp [asg, asgRecv, sameNullary], by simp [inst, asg, asgRecv, sameNullary], by simp [inst, asg, asgRecv, sameNullary]⟩

/-- THE EXCLUSION IS THE ONLY SOURCE: for types without `Type[..]` / `Iterable[..]` (`Ty.Plain`, where the instance relation does not
    depend on the rule: `inst_sfh`), wherever the code's assignability is unsound — `v` is an instance of `b` but not of `a` — the
    relation with the exempt rule switched OFF does not accept `b`; i.e. every unsound acceptance of the code is one that only the
    Struct-from-Hash rule grants (the two relations differ in that one arm of `StructType.IsAssignable` only). -/
theorem C01_unsound_only_by_rule (cfg : Cfg) (hl : LowerLen cfg) (a b : Ty) (v : Val)
    (pa : a.Plain) (pb : b.Plain) (wa : Ty.WF cfg a) (wb : Ty.WF cfg b) (us : b.US) (ok : v.OK) (tv : Val.TyOKS cfg false v)
    (hi : inst cfg true b v = true) (hn : inst cfg true a v = false) : asg cfg false a b = false := by
  cases h : asg cfg false a b with
  | false => rfl
  | true =>
    have hi' : inst cfg false b v = true := by rw [← inst_sfh cfg b v wb pb ok]; exact hi
    have := C01_sound_partial cfg false hl a b v (Ty.Plain.frag a.w a (Nat.le_refl _) pa) (Ty.Plain.frag b.w b (Nat.le_refl _) pb)
      wa wb us ok tv h hi'
    rw [← inst_sfh cfg a v wa pa ok, hn] at this
    cases this

/-- non-vacuity: the hypotheses hold on the witness of the exclusion (and there the rule-off relation indeed rejects) -/
example : (Ty.struct [("a", false, .int Rng.all)]).Plain ∧ (Ty.hash .str (.int Rng.all) ⟨1, 1⟩).Plain ∧
    inst idCfg true (.hash .str (.int Rng.all) ⟨1, 1⟩) (.hash [(.str "b", .int 1)]) = true ∧
    inst idCfg true (.struct [("a", false, .int Rng.all)]) (.hash [(.str "b", .int 1)]) = false ∧
    asg idCfg false (.struct [("a", false, .int Rng.all)]) (.hash .str (.int Rng.all) ⟨1, 1⟩) = false := by
  refine ⟨by simp [Ty.Plain], by simp [Ty.Plain], ?_, ?_, ?_⟩
  · simp [inst, instEntries, Rng.contains, Rng.all, I64.min, I64.max]
  · simp [inst, instStruct, hashGetW, keyIsStr]
  · simp [asg, asgRecv, sameNullary]

/-! ### `Type[T]` as the receiver, with Struct (rule off) / Iterable / Data / RichData inside `T` (from C03 stage 4) -/
/-- Soundness of the receiver `Type[x]` for EVERY `x` of the stage-4 fragment of transitivity `Ty.TA` (all types but Unit; Struct with the
    rule off): whatever `Type[x]` accepts — after the right-hand decomposition a `Type[y]` with `x ⊒ y`, under Variant / NotUndef —
    has only instances of `Type[x]`.  The right-hand type `b` ranges over the whole fragment; type values `u` inside `v` lie in the
    fragment and are well-formed.  (Since the extension round `C01_sound_partial` covers the same `Type[T]`, nested anywhere; here the
    right-hand type may in addition hold Iterable.) -/
theorem C01_sound_type_receiver (cfg : Cfg) (sfh : Bool) (hl : LowerLen cfg) (x b : Ty) (v : Val)
    (fx : x.TA sfh) (fb : b.TA sfh) (wx : Ty.WF cfg x) (wb : Ty.WF cfg b) (tv : ∀ u, v = .typ u → u.TA sfh ∧ Ty.WF cfg u)
    (h : asg cfg sfh (.typ x) b = true) (hi : inst cfg sfh b v = true) : inst cfg sfh (.typ x) v = true :=
  typ_recv_sound cfg sfh hl x fx wx b.w b (Nat.le_refl _) fb wb v tv h hi

/-- non-vacuity: Type[Struct[{a => Data}]] ⊒ Variant[Type[Struct[{a => Integer}]], Type[Struct[{a => Array[String]}]]], and the type
    value Struct[{a => Integer[0,9]}] is an instance of the Variant -/
example (cfg : Cfg) :
    (Ty.struct [("a", false, .data)]).TA false ∧
    (Ty.variant [.typ (.struct [("a", false, .int Rng.all)]), .typ (.struct [("a", false, .array .str Rng.pos)])]).TA false ∧
    asg cfg false (.typ (.struct [("a", false, .data)]))
      (.variant [.typ (.struct [("a", false, .int Rng.all)]), .typ (.struct [("a", false, .array .str Rng.pos)])]) = true ∧
    inst cfg false (.variant [.typ (.struct [("a", false, .int Rng.all)]), .typ (.struct [("a", false, .array .str Rng.pos)])])
      (.typ (.struct [("a", false, .int ⟨0, 9⟩)])) = true := by
  refine ⟨by simp [Ty.TA], by simp [Ty.TA], ?_, ?_⟩
  · simp [asg, asgRecv, asgAllR, sameNullary, structAll, structMember, distinctCount, isStringFamily, floatAll, Rng.sub, Rng.pos,
      Rng.all, I64.max, I64.min]
  · simp [inst, instAny, asg, asgRecv, sameNullary, structAll, structMember, distinctCount, Rng.sub, Rng.all, I64.max, I64.min]

/-! ### `Type[T]` with Callable inside `T` (from `C03_trans_callable_partial`) -/
/-- Soundness of the receiver `Type[x]` for every `x` of `Ty.TSK cfg sfh` — the stage-3 fragment of transitivity plus every Callable that is the
    default Callable or has a parameter list, nested anywhere in `x`, in the right-hand type and in the type values: the Callable types of
    which `C01_type_callable_witness` (parameters absent, a return type present) is NOT one -/
theorem C01_sound_type_receiver_callable (cfg : Cfg) (sfh : Bool) (hl : LowerLen cfg) (x b : Ty) (v : Val)
    (fx : x.TSK cfg sfh) (fb : b.TSK cfg sfh) (wx : Ty.WF cfg x) (wb : Ty.WF cfg b)
    (tv : ∀ u, v = .typ u → u.TSK cfg sfh ∧ Ty.WF cfg u)
    (h : asg cfg sfh (.typ x) b = true) (hi : inst cfg sfh b v = true) : inst cfg sfh (.typ x) v = true :=
  typ_recv_soundK cfg sfh hl x fx wx b.w b (Nat.le_refl _) fb wb v tv h hi

/-- non-vacuity: Type[Callable[[String], Scalar]] ⊒ Type[Callable[[Scalar], String]], and the type value Callable[[Any], String['a']] is an
    instance of the second -/
example (cfg : Cfg) :
    (Ty.callable (some (.tuple [.str] none)) (some .scalar) none).TSK cfg true ∧
    asg cfg true (.typ (.callable (some (.tuple [.str] none)) (some .scalar) none))
      (.typ (.callable (some (.tuple [.scalar] none)) (some .str) none)) = true ∧
    inst cfg true (.typ (.callable (some (.tuple [.scalar] none)) (some .str) none))
      (.typ (.callable (some (.tuple [.any] none)) (some (.strVal "a")) none)) = true := by
  refine ⟨by simp [Ty.TSK], ?_, ?_⟩ <;>
    simp [inst, asg, asgRecv, tupZip, sameNullary, tupleSize, Rng.exact, Rng.sub, isStringFamily]

end Pcore.Lat
