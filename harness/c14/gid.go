// Goroutine ids of seven and more digits (property C14, class of the seeded change C14-s8).
//
// threadlocal keys its tables by the id getg() parses out of the first bytes of runtime.Stack's header "goroutine N [".  A
// process that has been up for a while hands out ids of 7, 8, … digits; if the parser cuts them, goroutines that are alive
// together share one goroutine-local table.  No test run gets near such ids by itself, so these ops first START AND END as
// many goroutines as it takes (about 0.5 s per million):
//
//   hi <minId> prog|progs|progi …   the inner op with every goroutine's runtime id >= minId (same output as the inner op)
//   gidlive <minId> <k>             a goroutine with id >= minId runs pcore.Do and starts k goroutines by px.Fork, one after the
//                                   other; each stores a variable and parks; when all k are alive each in turn looks at
//                                   px.CurrentContext(); output `own=<how many saw their own context and variable>/<k>
//                                   live=<goroutine-local tables allocated while all were alive>`
//   @gidfree <minId> <k>            the same with no sequencing at all (implementation only): k forks spin on
//                                   CurrentContext() for a while under the real scheduler
//
// The harness reads its own goroutine ids with its own parser over a 64 byte buffer (`realGid`): the reference the
// implementation's keys are compared against is the pairwise DIFFERENCE of these ids (class `gid-collision`).
package c14

import (
	"fmt"
	"os"
	"runtime"
	"sort"
	"strconv"
	"sync"
	"sync/atomic"
	"time"

	"verif/harness/core"
	"verif/harness/sx"

	"github.com/lyraproj/pcore/pcore"
	"github.com/lyraproj/pcore/px"
	"github.com/lyraproj/pcore/threadlocal"
)

const maxMinGid = 20000000

// realGid: the id the runtime prints for the calling goroutine (harness' own parser, independent of threadlocal.getg)
func realGid() int64 {
	var buf [64]byte
	l := runtime.Stack(buf[:], false)
	const p = "goroutine "
	if l < len(p) || string(buf[:len(p)]) != p {
		return -1
	}
	n, seen := int64(0), false
	for i := len(p); i < l && buf[i] >= '0' && buf[i] <= '9'; i++ {
		n = n*10 + int64(buf[i]-'0')
		seen = true
	}
	if !seen {
		return -1
	}
	return n
}

// probeGid: the id of a goroutine started now
func probeGid() int64 {
	ch := make(chan int64, 1)
	go func() { ch <- realGid() }()
	return <-ch
}

// burnTo starts and ends goroutines until the next goroutine started gets the id `target` (or a little more).  It must be
// called with GOMAXPROCS(1) in force: then one id cache is in use and ids are handed out in ascending order, one per `go`.
func burnTo(target int64) {
	// the id cache of the only P may be stale (at most 16 ids from an earlier batch): use it up
	at := int64(-1)
	for i := 0; i < 17; i++ {
		if a := probeGid(); a > at {
			at = a
		}
	}
	for round := 0; at >= 0 && at+1 < target && round < 1000; round++ {
		n := target - 1 - at // ids at+1 … target-1 are to be used up; the probe takes the last of them
		if n > 1 {
			var wg sync.WaitGroup
			for i := int64(0); i < n-1; i++ {
				wg.Add(1)
				go wg.Done()
			}
			wg.Wait()
		}
		at = probeGid()
	}
}

// flushIdCaches: after burnTo the other Ps still hold up to 16 old ids each; make every P start a few dozen goroutines
func flushIdCaches() {
	var wg sync.WaitGroup
	for p := 0; p < 4*runtime.GOMAXPROCS(0); p++ {
		wg.Add(1)
		go func() {
			defer wg.Done()
			var w2 sync.WaitGroup
			for i := 0; i < 64; i++ {
				w2.Add(1)
				go func() {
					defer w2.Done()
					for spin := 0; spin < 1000; spin++ {
						_ = spin * spin
					}
				}()
			}
			w2.Wait()
		}()
	}
	wg.Wait()
}

func gidArgs(args []sx.Sexp) (int64, bool) {
	if len(args) < 1 {
		return 0, false
	}
	m, ok := natOf(args[0])
	if !ok || m < 1 || m > maxMinGid {
		return 0, false
	}
	return int64(m), true
}

func execHi(c px.Context, args []sx.Sexp, already int64) core.Result {
	m, ok := gidArgs(args)
	if !ok || already != 0 || len(args) < 2 || args[1].IsList {
		return core.Result{Out: "bad-op", Pred: "n/a"}
	}
	switch args[1].Atom {
	case "prog", "progs", "progi":
	default:
		return core.Result{Out: "bad-op", Pred: "n/a"}
	}
	return execAt(c, args[1].Atom, args[2:], m)
}

type liveFork struct {
	gid     int64
	arrived chan struct{}
	look    chan struct{}
	looked  chan struct{}
	done    chan struct{}
	sawOwn  bool
	saw     int // index of the fork whose context this fork found current (-1 none/unknown, -2 the root's)
	crash   string
}

func execGidLive(args []sx.Sexp) core.Result {
	m, ok := gidArgs(args)
	if !ok || len(args) != 2 {
		return core.Result{Out: "bad-op", Pred: "n/a"}
	}
	k, ok := natOf(args[1])
	if !ok || k < 1 || k > 256 {
		return core.Result{Out: "bad-op", Pred: "n/a"}
	}
	gmpLock.Lock()
	defer gmpLock.Unlock()
	old := runtime.GOMAXPROCS(1)
	defer runtime.GOMAXPROCS(old)
	burnTo(m)
	base := threadlocal.VerifLiveTables()

	forks := make([]*liveFork, k)
	ctxs := make([]px.Context, k)
	var fails []string
	var rootGid int64
	liveAt := 0
	rootOK := true
	leave := make(chan struct{})
	rootDone := make(chan struct{})
	go func() {
		defer close(rootDone)
		defer func() {
			if e := recover(); e != nil {
				fails = append(fails, "crash the goroutine that runs Do ended with a panic: "+oneLine(e))
			}
		}()
		rootGid = realGid()
		pcore.Do(func(c px.Context) {
			for i := 0; i < k; i++ {
				i := i
				f := &liveFork{arrived: make(chan struct{}), look: make(chan struct{}), looked: make(chan struct{}), done: make(chan struct{}), saw: -1}
				forks[i] = f
				px.Fork(c, func(cf px.Context) {
					defer close(f.done)
					defer func() {
						if e := recover(); e != nil {
							f.crash = oneLine(e)
						}
					}()
					f.gid = realGid()
					ctxs[i] = cf
					cf.Set("gidlive", i)
					close(f.arrived)
					<-f.look
					func() {
						defer close(f.looked)
						defer func() {
							if e := recover(); e != nil {
								f.crash = oneLine(e)
							}
						}()
						cur, ok := current()
						if !ok {
							return
						}
						if cur == c {
							f.saw = -2
						}
						for j := 0; j < k; j++ {
							if ctxs[j] == cur {
								f.saw = j
							}
						}
						v, has := cur.Get("gidlive")
						f.sawOwn = cur == cf && has && v == i
					}()
					<-leave
				})
				<-f.arrived
			}
			// all k are alive (parked) and so is this goroutine
			liveAt = threadlocal.VerifLiveTables() - base
			for _, f := range forks {
				close(f.look)
				<-f.looked
			}
			if cur, ok := current(); !ok || cur != c {
				rootOK = false
			}
			close(leave)
			for _, f := range forks {
				<-f.done
			}
		})
	}()
	select {
	case <-rootDone:
	case <-time.After(4 * time.Second):
		return core.Result{Out: "hang", Pred: "FAIL crash gidlive did not finish", NonTrivial: true}
	}
	own := 0
	ids := []int64{rootGid}
	for i, f := range forks {
		if f == nil {
			continue
		}
		ids = append(ids, f.gid)
		if f.sawOwn {
			own++
			continue
		}
		switch {
		case f.crash != "":
			fails = append(fails, fmt.Sprintf("gid-collision fork %d (runtime goroutine id %d) panicked: %s", i, f.gid, f.crash))
		case f.saw >= 0 && f.saw != i:
			fails = append(fails, fmt.Sprintf("gid-collision goroutines with runtime ids %d and %d are alive together and share one goroutine-local table: the current context of fork %d is the one established for fork %d", f.gid, forks[f.saw].gid, i, f.saw))
		case f.saw == -2:
			fails = append(fails, fmt.Sprintf("gid-collision goroutines with runtime ids %d and %d share one goroutine-local table: the current context of fork %d is its parent's", f.gid, rootGid, i))
		default:
			fails = append(fails, fmt.Sprintf("wrong-current fork %d (runtime goroutine id %d) has no current context or an unknown one", i, f.gid))
		}
	}
	if !rootOK {
		fails = append(fails, fmt.Sprintf("gid-collision the goroutine that runs Do (runtime id %d) lost its current context while %d forked goroutines were alive", rootGid, k))
	}
	if liveAt != k+1 {
		fails = append(fails, fmt.Sprintf("gid-collision %d goroutines (runtime ids %d … %d) are alive with a context each but only %d goroutine-local table(s) exist", k+1, rootGid, ids[len(ids)-1], liveAt))
	}
	if os.Getenv("VERIF_DEBUG") != "" {
		fmt.Fprintln(os.Stderr, "gidlive: runtime ids (root, forks):", ids)
	}
	// the reference: the runtime's ids are pairwise different, and at least the requested one
	sorted := append([]int64(nil), ids...)
	sort.Slice(sorted, func(a, b int) bool { return sorted[a] < sorted[b] })
	for i, g := range sorted {
		if g < m || (i > 0 && sorted[i-1] == g) {
			return core.Result{Out: "ids " + fmt.Sprint(sorted), Pred: "FAIL harness-gid the harness did not get distinct goroutine ids >= " + strconv.FormatInt(m, 10), NonTrivial: true}
		}
	}
	if live := waitLive(base, 100*time.Millisecond); live != 0 {
		fails = append(fails, fmt.Sprintf("tls-leak %d goroutine-local table(s) still allocated after Do returned and all %d forked goroutines ended", live, k))
	}
	r := &runner{fails: fails}
	tags := []string{"gidlive", "high-gids", "gid-digits:" + strconv.Itoa(len(strconv.FormatInt(sorted[len(sorted)-1], 10)))}
	return core.Result{Out: fmt.Sprintf("own=%d/%d live=%d", own, k, liveAt), Pred: r.pred(), NonTrivial: true, Tags: tags}
}

// execGidFree: k forks under the real scheduler, each looking at its current context again and again while the others do
func execGidFree(args []sx.Sexp) core.Result {
	m, ok := gidArgs(args)
	if !ok || len(args) != 2 {
		return core.Result{Out: "bad-op", Pred: "n/a"}
	}
	k, ok := natOf(args[1])
	if !ok || k < 1 || k > 256 {
		return core.Result{Out: "bad-op", Pred: "n/a"}
	}
	gmpLock.Lock()
	defer gmpLock.Unlock()
	old := runtime.GOMAXPROCS(1)
	burnTo(m + 4096)
	runtime.GOMAXPROCS(old)
	flushIdCaches()
	base := threadlocal.VerifLiveTables()
	var bad int64
	var mu sync.Mutex
	var first string
	note := func(format string, a ...interface{}) {
		atomic.AddInt64(&bad, 1)
		mu.Lock()
		if first == "" {
			first = fmt.Sprintf(format, a...)
		}
		mu.Unlock()
	}
	done := make(chan struct{})
	go func() {
		defer close(done)
		defer func() {
			if e := recover(); e != nil {
				note("the goroutine that runs Do ended with a panic: %s", oneLine(e))
			}
		}()
		pcore.Do(func(c px.Context) {
			var wg sync.WaitGroup
			var started int64
			for i := 0; i < k; i++ {
				i := i
				wg.Add(1)
				px.Fork(c, func(cf px.Context) {
					defer wg.Done()
					gid := realGid()
					defer func() {
						if e := recover(); e != nil {
							note("fork %d (runtime goroutine id %d) panicked: %s", i, gid, oneLine(e))
						}
					}()
					cf.Set("gidfree", i)
					atomic.AddInt64(&started, 1)
					for spin := 0; spin < 200; spin++ {
						cur, ok := current()
						if !ok || cur != cf {
							note("fork %d (runtime goroutine id %d): the current context is not the one established for this goroutine", i, gid)
							return
						}
						if v, has := cur.Get("gidfree"); !has || v != i {
							note("fork %d (runtime goroutine id %d): the current context holds another goroutine's variable", i, gid)
							return
						}
						if atomic.LoadInt64(&started) < int64(k) || spin%8 == 0 {
							runtime.Gosched()
						}
					}
				})
			}
			wg.Wait()
			if cur, ok := current(); !ok || cur != c {
				note("the goroutine that runs Do lost its current context")
			}
		})
	}()
	select {
	case <-done:
	case <-time.After(4 * time.Second):
		return core.Result{Out: "hang", Pred: "FAIL crash gidfree did not finish", NonTrivial: true}
	}
	r := &runner{}
	if bad > 0 {
		r.fails = append(r.fails, "gid-collision "+first)
	}
	if live := waitLive(base, time.Second); live != 0 {
		r.fails = append(r.fails, fmt.Sprintf("tls-leak %d goroutine-local table(s) still allocated after %d free-running forks ended", live, k))
	}
	return core.Result{Out: "gidfree", Pred: r.pred(), NonTrivial: true, Tags: []string{"gidfree", "high-gids"}}
}
