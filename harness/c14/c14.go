// Package c14: contexts are confined to their goroutine and dynamic scope (property C14).
//
// ops (model + implementation):
//   prog <term>               a FRESH goroutine runs pcore.Do(term); goroutines started by fork/go wait at a gate and run,
//                             one after the other, after the root goroutine has ended; all are joined before the op returns
//   progs (d0 d1 …) <term>    the same with a scheduling oracle: before every leaf operation of whatever goroutine is
//                             running one number is consumed; d>0 runs waiting goroutine number (d-1) mod #waiting to
//                             completion right there (lean/Pcore/Model/Tls.lean `yield`)
//   progi (d0 d1 …) <term>    leaf-level interleaving (lean/Pcore/Model/TlsSmall.lean `runI`): every goroutine parks before each leaf
//                             operation and at its start; a controller resumes runnable goroutine number d mod #runnable
//                             (ascending goroutine id; default 0), which runs up to its next leaf or its end
// op (implementation only):
//   @free <n> <term>          n groups run the program concurrently with no gates at all (real scheduling, all cores);
//                             only the schedule-independent predicates are evaluated
//
//   term ::= (obs) | (set k n) | (get k) | (del k) | (push n) | (pop) | (deftype a) | (load a) | (panic)
//          | (doctx id term…) | (doparent id term…) | (do id term…) | (try id term…) | (doloader term…) | (fork term…) | (go term…) | (seq term…) | (recover term…)
//
// Output (see lean/Driver/C14.lean): `g0:N ev … | g1:P ev … ; cur=- live=0`.
//
//   hi <minId> prog|progs|progi …, gidlive <minId> <k>, @gidfree <minId> <k>: goroutine ids of 7+ digits, see gid.go
//
// Direct predicates (classes): gid-collision (gid.go), wrong-current, not-restored, leaked-to-other-goroutine, child-visible-to-parent,
// parent-invisible-to-child, fork-copy-late, tls-leak, crash (+ wrong-var / wrong-stack / wrong-load for a disagreement
// with the reference semantics that fits none of the named classes).  They are evaluated against a *shadow*: every real
// context has a shadow holding what its variables, stack and loader chain must be under the property (copied in the
// parent at the Fork call, private afterwards); every stored value carries who stored it and when.  A context's printable
// identity (its tag) lives in the harness' registry (context object → shadow), NOT in the context: a tag variable would keep
// every variable map non-empty and hide the states "never allocated" and "allocated, emptied by Delete".  After everything
// has ended every context ever bound is audited once more against its shadow (`final audit`).
package c14

import (
	"errors"
	"fmt"
	"runtime"
	"sort"
	"strconv"
	"strings"
	"sync"
	"sync/atomic"
	"time"

	"math/rand"

	"verif/harness/core"
	"verif/harness/sx"

	"github.com/lyraproj/issue/issue"
	"github.com/lyraproj/pcore/pcore"
	"github.com/lyraproj/pcore/px"
	"github.com/lyraproj/pcore/threadlocal"
)

func init() {
	core.Register(&core.Prop{
		ID:   "C14",
		Rule: "distinct op lines; non-trivial = the program establishes at least one nested context, loader scope or goroutine (doctx/doparent/do/try/doloader/fork/go)",
		Gen:  gen,
		Exec: exec,
	})
}

// ---- terms -------------------------------------------------------------------------------------------

type node struct {
	op   string
	k    string
	n    int
	kids []*node
}

var leafOps = map[string]bool{"obs": true, "panic": true, "set": true, "get": true, "del": true, "push": true, "pop": true, "deftype": true, "load": true}

func okAtom(s string) bool {
	if len(s) == 0 || len(s) > 8 {
		return false
	}
	for _, c := range s {
		if !(c >= 'a' && c <= 'z' || c >= 'A' && c <= 'Z' || c >= '0' && c <= '9') {
			return false
		}
	}
	return true
}

func natOf(s sx.Sexp) (int, bool) {
	if s.IsList {
		return 0, false
	}
	n, err := strconv.ParseUint(s.Atom, 10, 31)
	if err != nil || strconv.FormatUint(n, 10) != s.Atom {
		return 0, false
	}
	return int(n), true
}

func parse(s sx.Sexp) (*node, bool) {
	tag := s.Tag()
	a := s.Args()
	kids := func(xs []sx.Sexp) ([]*node, bool) {
		r := make([]*node, 0, len(xs))
		for _, x := range xs {
			k, ok := parse(x)
			if !ok {
				return nil, false
			}
			r = append(r, k)
		}
		return r, true
	}
	switch tag {
	case "obs", "panic", "pop":
		return &node{op: tag}, len(a) == 0
	case "set":
		if len(a) != 2 || a[0].IsList || !okAtom(a[0].Atom) {
			return nil, false
		}
		n, ok := natOf(a[1])
		return &node{op: tag, k: a[0].Atom, n: n}, ok
	case "get", "del", "deftype", "load":
		if len(a) != 1 || a[0].IsList || !okAtom(a[0].Atom) {
			return nil, false
		}
		return &node{op: tag, k: a[0].Atom}, true
	case "push":
		if len(a) != 1 {
			return nil, false
		}
		n, ok := natOf(a[0])
		return &node{op: tag, n: n}, ok
	case "doctx", "do", "doparent", "try":
		if len(a) < 1 {
			return nil, false
		}
		n, ok := natOf(a[0])
		if !ok || n >= 1000 {
			return nil, false
		}
		ks, ok := kids(a[1:])
		return &node{op: tag, n: n, kids: ks}, ok
	case "doloader", "fork", "go", "seq", "recover":
		ks, ok := kids(a)
		return &node{op: tag, kids: ks}, ok
	}
	return nil, false
}

func (n *node) sexp() sx.Sexp {
	switch n.op {
	case "obs", "panic", "pop":
		return sx.T(n.op)
	case "set":
		return sx.T(n.op, sx.A(n.k), sx.Int(int64(n.n)))
	case "get", "del", "deftype", "load":
		return sx.T(n.op, sx.A(n.k))
	case "push":
		return sx.T(n.op, sx.Int(int64(n.n)))
	}
	var xs []sx.Sexp
	if n.op == "doctx" || n.op == "do" || n.op == "doparent" || n.op == "try" {
		xs = append(xs, sx.Int(int64(n.n)))
	}
	for _, k := range n.kids {
		xs = append(xs, k.sexp())
	}
	return sx.T(n.op, xs...)
}

func (n *node) walk(f func(*node)) {
	f(n)
	for _, k := range n.kids {
		k.walk(f)
	}
}

// ---- shadow (the reference semantics the predicates are evaluated against) --------------------------------

// cell is what is really stored in a context variable: the value, who stored it and when.
type cell struct {
	val int
	by  int // serial of the shadow context that stored it
	at  int64
}

type defval struct {
	name   string
	loader *sloader
	at     int64
}

type sloader struct {
	parent *sloader
	owner  *ginfo
	defs   map[string]*defval
}

type ginfo struct {
	gid    int
	parent *ginfo
	forkAt int64
}

type sctx struct {
	serial int
	real   px.Context
	parent *sctx // forked from
	forkAt int64
	g      *ginfo // the goroutine this context is established for
	vars   map[string]cell
	stack  []cell // val = line
	loader *sloader
	tag    int // printable identity (-1 = none yet)
}

type task struct {
	gid  int
	gate chan struct{}
	done chan struct{}
}

type glog struct {
	outcome string
	evs     []string
}

type runner struct {
	gated   bool
	inter   bool // leaf-level interleaving: goroutines park before every leaf, a controller picks who goes on
	ctl     chan ievt
	waiting []*task              // inter: started by px.Fork, not yet released (ascending gid)
	turns   map[int]chan struct{} // inter: parked goroutines
	mu      sync.Mutex // guards everything below in free mode (in gated mode exactly one goroutine runs at a time)
	sched   []int
	pending []*task
	nextGid int
	logs    map[int]*glog
	fails   []string
	byReal  map[px.Context]*sctx
	bySer   map[int]*sctx
	nextSer int
	clock   int64
	keys    []string
	wg      sync.WaitGroup
}

// ievt is what a goroutine tells the controller when it stops running: it parked before a leaf, or it ended
type ievt struct {
	gid    int
	parked bool
	turn   chan struct{}
}

var errBoom = errors.New("boom")

func (r *runner) tick() int64 { return atomic.AddInt64(&r.clock, 1) }

func (r *runner) fail(class, format string, a ...interface{}) {
	r.mu.Lock()
	r.fails = append(r.fails, class+" "+fmt.Sprintf(format, a...))
	r.mu.Unlock()
}

func (r *runner) emit(g *ginfo, ev string) {
	r.mu.Lock()
	l := r.logs[g.gid]
	if l == nil {
		l = &glog{outcome: "?"}
		r.logs[g.gid] = l
	}
	l.evs = append(l.evs, ev)
	r.mu.Unlock()
}

func (r *runner) setOutcome(g *ginfo, o string) {
	r.mu.Lock()
	l := r.logs[g.gid]
	if l == nil {
		l = &glog{}
		r.logs[g.gid] = l
	}
	l.outcome = o
	r.mu.Unlock()
}

func (r *runner) newShadow(parent *sctx, g *ginfo) *sctx {
	r.mu.Lock()
	r.nextSer++
	s := &sctx{serial: r.nextSer, parent: parent, g: g, forkAt: r.tick(), vars: map[string]cell{}, tag: -1}
	r.bySer[s.serial] = s
	r.mu.Unlock()
	if parent != nil {
		// pxContext.Fork as the property wants it: taken now, private afterwards
		for k, v := range parent.vars {
			s.vars[k] = v
		}
		s.stack = append([]cell(nil), parent.stack...)
		s.loader = &sloader{parent: parent.loader, owner: g, defs: map[string]*defval{}}
	} else {
		// a new root: environment loader (shared, never written by a program) wrapped once by Do
		s.loader = &sloader{parent: nil, owner: g, defs: map[string]*defval{}}
	}
	return s
}

func (r *runner) bind(s *sctx, c px.Context) {
	s.real = c
	r.mu.Lock()
	r.byReal[c] = s
	r.mu.Unlock()
}

func isAncestor(a, s *sctx) (*sctx, bool) {
	// returns the context on the path from s up to a whose parent is a
	for x := s; x != nil; x = x.parent {
		if x.parent == a {
			return x, true
		}
	}
	return nil, false
}

// classify a value found in context s that the shadow does not expect
func (r *runner) classifyForeign(s *sctx, c cell) string {
	if c.by == s.serial {
		return "wrong-var"
	}
	r.mu.Lock()
	by := r.bySer[c.by]
	r.mu.Unlock()
	if by == nil {
		return "wrong-var"
	}
	if link, ok := isAncestor(by, s); ok {
		if c.at > link.forkAt {
			return "fork-copy-late"
		}
		return "wrong-var"
	}
	return "child-visible-to-parent"
}

func (r *runner) checkVar(s *sctx, k string, where string) (cell, bool) {
	v, ok := s.real.Get(k)
	var act cell
	if ok {
		act, ok = v.(cell)
		if !ok {
			r.fail("wrong-var", "%s: variable %s of context %d holds a foreign value", where, k, s.serial)
			return cell{}, false
		}
	}
	exp, eok := s.vars[k]
	switch {
	case ok && eok && act == exp:
	case ok && (!eok || act != exp):
		r.fail(r.classifyForeign(s, act), "%s: context %d (goroutine g%d) reads %s=%d stored by context %d, expected %s", where, s.serial, s.g.gid, k, act.val, act.by, cellStr(exp, eok))
	case !ok && eok:
		if exp.by != s.serial {
			r.fail("parent-invisible-to-child", "%s: context %d (goroutine g%d) does not see %s=%d stored by context %d before the fork", where, s.serial, s.g.gid, k, exp.val, exp.by)
		} else {
			r.fail("wrong-var", "%s: context %d lost its own variable %s", where, s.serial, k)
		}
	}
	return act, ok
}

func cellStr(c cell, ok bool) string {
	if !ok {
		return "nothing"
	}
	return fmt.Sprintf("%d stored by context %d", c.val, c.by)
}

func (r *runner) checkStack(s *sctx, where string) {
	st := s.real.Stack()
	act := make([]cell, len(st))
	for i, l := range st {
		by, _ := strconv.Atoi(l.File())
		act[i] = cell{val: l.Line(), by: by, at: int64(l.Pos())}
	}
	same := len(act) == len(s.stack)
	if same {
		for i := range act {
			if act[i] != s.stack[i] {
				same = false
			}
		}
	}
	if same {
		return
	}
	expSet := map[cell]bool{}
	for _, c := range s.stack {
		expSet[c] = true
	}
	actSet := map[cell]bool{}
	for _, c := range act {
		actSet[c] = true
		if !expSet[c] {
			cl := r.classifyForeign(s, c)
			if cl == "wrong-var" {
				cl = "wrong-stack"
			}
			r.fail(cl, "%s: stack of context %d (goroutine g%d) holds frame %d pushed by context %d", where, s.serial, s.g.gid, c.val, c.by)
			return
		}
	}
	for _, c := range s.stack {
		if !actSet[c] {
			if c.by != s.serial {
				r.fail("parent-invisible-to-child", "%s: stack of context %d (goroutine g%d) lacks frame %d pushed by context %d before the fork", where, s.serial, s.g.gid, c.val, c.by)
			} else {
				r.fail("wrong-stack", "%s: stack of context %d lost its own frame %d", where, s.serial, c.val)
			}
			return
		}
	}
	r.fail("wrong-stack", "%s: stack of context %d is permuted", where, s.serial)
}

// audit compares every variable the program mentions and the stack of s with the shadow
func (r *runner) audit(s *sctx, where string) {
	if s == nil || s.real == nil {
		return
	}
	for _, k := range r.keys {
		r.checkVar(s, k, where)
	}
	r.checkStack(s, where)
}

// finalAudit: every goroutine has ended; every context object that was ever bound must still agree with its shadow
func (r *runner) finalAudit() {
	sers := make([]int, 0, len(r.bySer))
	for k := range r.bySer {
		sers = append(sers, k)
	}
	sort.Ints(sers)
	for _, k := range sers {
		r.audit(r.bySer[k], "final audit")
	}
}

// tagOf is the printable identity of a context object: its number in the registry, "?" when it has none
func (r *runner) tagOf(c px.Context) string {
	r.mu.Lock()
	s := r.byReal[c]
	r.mu.Unlock()
	if s == nil || s.tag < 0 {
		return "?"
	}
	return strconv.Itoa(s.tag)
}

func current() (c px.Context, ok bool) {
	defer func() {
		if e := recover(); e != nil {
			c, ok = nil, false
		}
	}()
	return px.CurrentContext(), true
}

func rawCurrent() interface{} {
	v, ok := threadlocal.Get(px.PuppetContextKey)
	if !ok {
		return nil
	}
	return v
}

// happensBefore: a definition made at time `at` by goroutine `owner` is certainly visible to goroutine g
func happensBefore(owner *ginfo, at int64, g *ginfo) bool {
	for x := g; x != nil; x = x.parent {
		if x == owner {
			return true // made by this goroutine's own lineage member … only certain if it is g itself or precedes the fork
		}
		if x.parent == owner {
			return at < x.forkAt
		}
	}
	return false
}

// ---- interpreter ---------------------------------------------------------------------------------------

func (r *runner) yield(g *ginfo) {
	if !r.gated {
		return
	}
	if r.inter {
		turn := make(chan struct{})
		r.ctl <- ievt{gid: g.gid, parked: true, turn: turn}
		<-turn
		return
	}
	if len(r.sched) == 0 {
		return
	}
	d := r.sched[0]
	r.sched = r.sched[1:]
	if d == 0 || len(r.pending) == 0 {
		return
	}
	i := (d - 1) % len(r.pending)
	t := r.pending[i]
	r.pending = append(append([]*task(nil), r.pending[:i]...), r.pending[i+1:]...)
	close(t.gate)
	<-t.done
}

func (r *runner) seq(kids []*node, g *ginfo, s *sctx) {
	for _, k := range kids {
		r.run(k, g, s)
	}
}

// scopeCheck: the goroutine's current context must be the same object before and after a scope
func (r *runner) scopeCheck(what string, g *ginfo, before interface{}) {
	after := rawCurrent()
	if after != before {
		r.fail("not-restored", "after %s on goroutine g%d the current context is %s, before it was %s", what, g.gid, r.ctxName(after), r.ctxName(before))
	}
}

func (r *runner) ctxName(v interface{}) string {
	if v == nil {
		return "none"
	}
	if c, ok := v.(px.Context); ok {
		r.mu.Lock()
		s := r.byReal[c]
		r.mu.Unlock()
		if s != nil {
			return fmt.Sprintf("context %d of g%d", s.serial, s.g.gid)
		}
	}
	return "an untracked context"
}

func (r *runner) setTag(s *sctx, id int) {
	r.mu.Lock()
	s.tag = id
	r.mu.Unlock()
}

func (r *runner) run(n *node, g *ginfo, s *sctx) {
	c := s.real
	if leafOps[n.op] {
		r.yield(g)
	}
	switch n.op {
	case "obs":
		cur, ok := current()
		if !ok {
			r.fail("wrong-current", "goroutine g%d has no current context inside the body of context %d", g.gid, s.serial)
			r.emit(g, "o-[]!")
			return
		}
		r.mu.Lock()
		sc := r.byReal[cur]
		r.mu.Unlock()
		bang := ""
		if cur != c {
			bang = "!"
			if sc != nil && sc.g != g {
				r.fail("leaked-to-other-goroutine", "goroutine g%d observes context %d established for goroutine g%d", g.gid, sc.serial, sc.g.gid)
			} else {
				r.fail("wrong-current", "goroutine g%d observes %s inside the body of context %d", g.gid, r.ctxName(cur), s.serial)
			}
		} else {
			r.checkStack(s, "obs")
		}
		tag := r.tagOf(cur)
		st := cur.Stack()
		ls := make([]string, len(st))
		for i, l := range st {
			ls[i] = strconv.Itoa(l.Line())
		}
		r.emit(g, "o"+tag+"["+strings.Join(ls, ",")+"]"+bang)
	case "set":
		cl := cell{val: n.n, by: s.serial, at: r.tick()}
		c.Set(n.k, cl)
		s.vars[n.k] = cl
	case "get":
		act, ok := r.checkVar(s, n.k, "get")
		if ok {
			r.emit(g, "g"+n.k+"="+strconv.Itoa(act.val))
		} else {
			r.emit(g, "g"+n.k+"=-")
		}
	case "del":
		c.Delete(n.k)
		delete(s.vars, n.k)
	case "pop":
		// StackPop on an empty stack slices out of range: the runtime panic is turned into the program's panic value
		func() {
			defer func() {
				if e := recover(); e != nil {
					if len(s.stack) != 0 {
						r.fail("wrong-stack", "StackPop panicked on context %d whose stack must hold %d frame(s)", s.serial, len(s.stack))
					}
					panic(errBoom)
				}
			}()
			c.StackPop()
		}()
		if len(s.stack) == 0 {
			r.fail("wrong-stack", "StackPop did not panic on context %d whose stack must be empty", s.serial)
		} else {
			s.stack = s.stack[:len(s.stack)-1]
		}
	case "push":
		at := r.tick()
		c.StackPush(issue.NewLocation(strconv.Itoa(s.serial), n.n, int(at)))
		s.stack = append(s.stack, cell{val: n.n, by: s.serial, at: at})
	case "deftype":
		r.mu.Lock()
		dv := s.loader.defs[n.k]
		if dv == nil {
			dv = &defval{name: n.k, loader: s.loader, at: r.tick()}
		}
		r.mu.Unlock()
		c.DefiningLoader().SetEntry(px.NewTypedName(px.NsType, n.k), px.NewLoaderEntry(dv, nil))
		r.mu.Lock()
		s.loader.defs[n.k] = dv
		r.mu.Unlock()
	case "load":
		v, ok := px.Load(c, px.NewTypedName(px.NsType, n.k))
		r.checkLoad(s, g, n.k, v, ok)
		r.emit(g, "l"+n.k+"="+sx.B(ok))
	case "panic":
		panic(errBoom)
	case "seq":
		r.seq(n.kids, g, s)
	case "recover":
		func() {
			defer func() {
				if e := recover(); e != nil {
					r.emit(g, "R")
					if e != errBoom {
						r.fail("crash", "recovered an unexpected panic on g%d: %v", g.gid, oneLine(e))
					}
				}
			}()
			r.seq(n.kids, g, s)
		}()
	case "doctx":
		x := r.newShadow(s, g)
		r.bind(x, c.Fork())
		r.setTag(x, n.n)
		before := rawCurrent()
		func() {
			defer r.scopeCheck("DoWithContext", g, before)
			px.DoWithContext(x.real, func(cc px.Context) {
				if cc != x.real {
					r.fail("wrong-current", "DoWithContext handed another context to its actor")
				}
				defer r.audit(x, "end of doctx")
				r.seq(n.kids, g, x)
			})
		}()
	case "do":
		before := rawCurrent()
		func() {
			defer r.scopeCheck("Do", g, before)
			pcore.Do(func(cc px.Context) {
				x := r.newShadow(nil, g)
				r.bind(x, cc)
				r.setTag(x, n.n)
				defer r.audit(x, "end of do")
				r.seq(n.kids, g, x)
			})
		}()
	case "doparent":
		// pcore.DoWithParent with a px.Context parent: forks the parent and makes the fork current for the actor
		x := r.newShadow(s, g)
		before := rawCurrent()
		func() {
			defer r.scopeCheck("DoWithParent", g, before)
			pcore.DoWithParent(c, func(cc px.Context) {
				r.bind(x, cc)
				r.audit(x, "start of doparent")
				r.setTag(x, n.n)
				defer r.audit(x, "end of doparent")
				r.seq(n.kids, g, x)
			})
		}()
	case "try":
		before := rawCurrent()
		func() {
			defer r.scopeCheck("Try", g, before)
			err := pcore.Try(func(cc px.Context) error {
				x := r.newShadow(nil, g)
				r.bind(x, cc)
				r.setTag(x, n.n)
				defer r.audit(x, "end of try")
				r.seq(n.kids, g, x)
				return nil
			})
			if err != nil {
				r.emit(g, "R")
				if err != errBoom {
					r.fail("crash", "Try returned an unexpected error on g%d: %v", g.gid, oneLine(err))
				}
			}
		}()
	case "doloader":
		saveReal := c.Loader()
		saveShadow := s.loader
		s.loader = &sloader{parent: saveShadow, owner: g, defs: map[string]*defval{}}
		before := rawCurrent()
		func() {
			defer func() {
				s.loader = saveShadow
				if c.Loader() != saveReal {
					r.fail("not-restored", "after DoWithLoader context %d has another loader than before", s.serial)
				}
				r.scopeCheck("DoWithLoader", g, before)
			}()
			c.DoWithLoader(px.NewParentedLoader(saveReal), func() {
				r.seq(n.kids, g, s)
			})
		}()
	case "fork", "go":
		r.spawn(n, g, s)
	default:
		panic(fmt.Errorf("bad term %s", n.op))
	}
}

func (r *runner) checkLoad(s *sctx, g *ginfo, name string, v interface{}, ok bool) {
	var found *defval
	if ok {
		found, _ = v.(*defval)
		if found == nil {
			r.fail("wrong-load", "context %d loads %s and gets a foreign value", s.serial, name)
			return
		}
		onChain := false
		for l := s.loader; l != nil; l = l.parent {
			if l == found.loader {
				onChain = true
			}
		}
		if !onChain {
			r.fail("child-visible-to-parent", "context %d (goroutine g%d) loads %s defined in a loader of goroutine g%d that is not on its loader chain", s.serial, g.gid, name, found.loader.owner.gid)
		}
		return
	}
	r.mu.Lock()
	defer r.mu.Unlock()
	for l := s.loader; l != nil; l = l.parent {
		if dv := l.defs[name]; dv != nil {
			must := r.gated || l.owner == g || happensBefore(l.owner, dv.at, g)
			if must {
				if l.owner == g {
					r.fails = append(r.fails, fmt.Sprintf("wrong-load context %d (goroutine g%d) does not find %s that the goroutine defined itself", s.serial, g.gid, name))
				} else {
					r.fails = append(r.fails, fmt.Sprintf("parent-invisible-to-child context %d (goroutine g%d) does not find %s defined by goroutine g%d on its loader chain", s.serial, g.gid, name, l.owner.gid))
				}
				return
			}
		}
	}
}

func (r *runner) spawn(n *node, g *ginfo, s *sctx) {
	r.mu.Lock()
	gid := r.nextGid
	r.nextGid++
	r.mu.Unlock()
	t := &task{gid: gid, gate: make(chan struct{}), done: make(chan struct{})}
	cg := &ginfo{gid: gid, parent: g}
	x := r.newShadow(s, cg) // the child's view is fixed here, at the call
	cg.forkAt = x.forkAt
	if !r.gated {
		close(t.gate)
	}
	r.wg.Add(1)
	doer := func(cf px.Context) {
		defer r.wg.Done()
		<-t.gate
		defer func() {
			close(t.done)
			if r.inter {
				r.ctl <- ievt{gid: gid}
			}
		}()
		r.goroutine(cg, func() {
			r.bind(x, cf)
			if cur, ok := current(); !ok || cur != cf {
				r.fail("wrong-current", "forked goroutine g%d starts with current context %s", gid, r.ctxName(rawCurrent()))
			}
			r.audit(x, "start of forked goroutine")
			r.setTag(x, 1000+gid)
			defer r.audit(x, "end of forked goroutine")
			r.seq(n.kids, cg, x)
		})
	}
	started := false
	defer func() {
		if !started {
			// px.Go panicked before it started a goroutine
			r.wg.Done()
			if r.gated {
				r.nextGid--
			}
		}
	}()
	if n.op == "fork" {
		px.Fork(s.real, doer)
	} else {
		px.Go(doer)
	}
	started = true
	if r.inter {
		r.waiting = append(r.waiting, t)
	} else if r.gated {
		r.pending = append(r.pending, t)
	}
}

// goroutine runs the body of one goroutine, records its outcome, never lets a panic escape
func (r *runner) goroutine(g *ginfo, body func()) {
	defer func() {
		if e := recover(); e != nil {
			r.setOutcome(g, "P")
			if e != errBoom {
				r.fail("crash", "goroutine g%d ended with an unexpected panic: %s", g.gid, oneLine(e))
			}
		}
	}()
	body()
	r.setOutcome(g, "N")
}

func oneLine(e interface{}) string {
	s := strings.Replace(fmt.Sprint(e), "\n", " ", -1)
	if len(s) > 160 {
		s = s[:160]
	}
	return s
}

func newRunner(gated bool, sched []int, n *node) *runner {
	r := &runner{gated: gated, sched: sched, nextGid: 1, logs: map[int]*glog{}, byReal: map[px.Context]*sctx{}, bySer: map[int]*sctx{}}
	ks := map[string]bool{}
	n.walk(func(x *node) {
		if x.op == "set" || x.op == "get" || x.op == "del" {
			ks[x.k] = true
		}
	})
	for k := range ks {
		r.keys = append(r.keys, k)
	}
	sort.Strings(r.keys)
	return r
}

// rootBody is what the fresh goroutine 0 does: pcore.Do(term), then a look at what Do left behind
func (r *runner) rootBody(n *node, g0 *ginfo) (curTag string, rootLeft bool) {
	if rawCurrent() != nil {
		r.fail("leaked-to-other-goroutine", "a fresh goroutine starts with a current context")
	}
	r.goroutine(g0, func() {
		pcore.Do(func(c px.Context) {
			x := r.newShadow(nil, g0)
			r.bind(x, c)
			if cur, ok := current(); !ok || cur != c {
				r.fail("wrong-current", "inside Do the current context is %s", r.ctxName(rawCurrent()))
			}
			r.setTag(x, 1000)
			defer r.audit(x, "end of Do")
			r.seq([]*node{n}, g0, x)
		})
	})
	curTag = "-"
	if v := rawCurrent(); v != nil {
		rootLeft = true
		curTag = "?"
		if c, ok := v.(px.Context); ok {
			curTag = r.tagOf(c)
		}
		r.fail("not-restored", "after Do returned on a fresh goroutine its current context is still set (%s)", r.ctxName(v))
	}
	return
}

// root runs pcore.Do(term) on a fresh goroutine and joins everything; returns the trailer observations
func (r *runner) root(n *node) (curTag string, rootLeft bool) {
	if r.inter {
		return r.rootInter(n)
	}
	done := make(chan struct{})
	g0 := &ginfo{gid: 0}
	go func() {
		defer close(done)
		curTag, rootLeft = r.rootBody(n, g0)
	}()
	<-done
	for r.gated && len(r.pending) > 0 {
		t := r.pending[0]
		r.pending = r.pending[1:]
		close(t.gate)
		<-t.done
	}
	r.wg.Wait()
	return
}

// rootInter is the controller of the leaf-level interleaving: exactly one goroutine of the program runs at any time; when
// it parks (before a leaf) or ends, the next choice picks who goes on among the goroutines that have not ended
func (r *runner) rootInter(n *node) (curTag string, rootLeft bool) {
	r.ctl = make(chan ievt)
	r.turns = map[int]chan struct{}{}
	g0 := &ginfo{gid: 0}
	t0 := &task{gid: 0, gate: make(chan struct{}), done: make(chan struct{})}
	go func() {
		<-t0.gate
		curTag, rootLeft = r.rootBody(n, g0)
		r.ctl <- ievt{gid: 0}
	}()
	r.waiting = []*task{t0}
	for {
		ids := make([]int, 0, len(r.waiting)+len(r.turns))
		for _, t := range r.waiting {
			ids = append(ids, t.gid)
		}
		for gid := range r.turns {
			ids = append(ids, gid)
		}
		if len(ids) == 0 {
			break
		}
		sort.Ints(ids)
		d := 0
		if len(r.sched) > 0 {
			d = r.sched[0]
			r.sched = r.sched[1:]
		}
		gid := ids[d%len(ids)]
		if turn, ok := r.turns[gid]; ok {
			delete(r.turns, gid)
			close(turn)
		} else {
			for i, t := range r.waiting {
				if t.gid == gid {
					r.waiting = append(append([]*task(nil), r.waiting[:i]...), r.waiting[i+1:]...)
					close(t.gate)
					break
				}
			}
		}
		ev := <-r.ctl
		if ev.parked {
			r.turns[ev.gid] = ev.turn
		}
	}
	r.wg.Wait()
	return
}

// leaksSeen: once a leak has been confirmed a few times in this process there is no point in waiting long again
var leaksSeen int32

func waitLive(base int, budget time.Duration) int {
	// the deferred Cleanup of a forked goroutine runs after its doer returned: give it a moment
	if atomic.LoadInt32(&leaksSeen) >= 3 {
		budget = 2 * time.Millisecond
	}
	deadline := time.Now().Add(budget)
	for i := 0; ; i++ {
		d := threadlocal.VerifLiveTables() - base
		if d <= 0 {
			return d
		}
		if time.Now().After(deadline) {
			atomic.AddInt32(&leaksSeen, 1)
			return d
		}
		if i < 100 {
			runtime.Gosched()
		} else {
			time.Sleep(100 * time.Microsecond)
		}
	}
}

func (r *runner) render(curTag string, live int) string {
	gids := make([]int, 0, r.nextGid)
	for g := 0; g < r.nextGid; g++ {
		gids = append(gids, g)
	}
	parts := make([]string, len(gids))
	for i, g := range gids {
		l := r.logs[g]
		if l == nil {
			l = &glog{outcome: "?"}
		}
		parts[i] = "g" + strconv.Itoa(g) + ":" + l.outcome
		for _, e := range l.evs {
			parts[i] += " " + e
		}
	}
	return strings.Join(parts, " | ") + " ; cur=" + curTag + " live=" + strconv.Itoa(live)
}

func (r *runner) pred() string {
	if len(r.fails) == 0 {
		return "ok"
	}
	// the most specific class first
	order := []string{"crash", "gid-collision", "leaked-to-other-goroutine", "fork-copy-late", "child-visible-to-parent", "parent-invisible-to-child", "wrong-current", "not-restored", "tls-leak"}
	best := r.fails[0]
	bi := len(order)
	for _, f := range r.fails {
		cl := strings.SplitN(f, " ", 2)[0]
		for i, o := range order {
			if o == cl && i < bi {
				bi, best = i, f
			}
		}
	}
	return "FAIL " + best
}

var gmpLock sync.Mutex

func exec(c px.Context, op string, args []sx.Sexp) core.Result {
	return execAt(c, op, args, 0)
}

// execAt: minGid > 0 = every goroutine of the op must have a runtime id >= minGid (ops `hi`, `gidlive`: gid.go)
func execAt(c px.Context, op string, args []sx.Sexp, minGid int64) core.Result {
	switch op {
	case "hi":
		return execHi(c, args, minGid)
	case "gidlive":
		return execGidLive(args)
	case "gidfree":
		return execGidFree(args)
	case "prog", "progs", "progi":
		var sched []int
		var term sx.Sexp
		if op == "prog" && len(args) == 1 {
			term = args[0]
		} else if (op == "progs" || op == "progi") && len(args) == 2 && args[0].IsList {
			for _, d := range args[0].List {
				n, ok := natOf(d)
				if !ok {
					return core.Result{Out: "bad-op", Pred: "n/a"}
				}
				sched = append(sched, n)
			}
			term = args[1]
		} else {
			return core.Result{Out: "bad-op", Pred: "n/a"}
		}
		n, ok := parse(term)
		if !ok {
			return core.Result{Out: "bad-op", Pred: "n/a"}
		}
		gmpLock.Lock()
		defer gmpLock.Unlock()
		old := runtime.GOMAXPROCS(1)
		defer runtime.GOMAXPROCS(old)
		if minGid > 0 {
			burnTo(minGid)
		}
		base := threadlocal.VerifLiveTables()
		r := newRunner(true, sched, n)
		r.inter = op == "progi"
		curTag, _ := r.root(n)
		r.finalAudit()
		live := waitLive(base, 100*time.Millisecond)
		if live != 0 {
			r.fail("tls-leak", "%d goroutine-local table(s) still allocated after Do returned on a fresh goroutine and every forked goroutine ended", live)
		}
		res := core.Result{Out: r.render(curTag, live), Pred: r.pred(), Tags: tagsOf(n, r, len(sched) > 0)}
		if r.inter {
			res.Tags = append(res.Tags, "interleaved")
		}
		if minGid > 0 {
			res.Tags = append(res.Tags, "high-gids")
		}
		n.walk(func(x *node) {
			switch x.op {
			case "doctx", "do", "doparent", "try", "doloader", "fork", "go":
				res.NonTrivial = true
			}
		})
		if res.Pred != "ok" {
			res.NonTrivial = true
		}
		return res
	case "free":
		if len(args) != 2 {
			return core.Result{Out: "bad-op", Pred: "n/a"}
		}
		k, ok := natOf(args[0])
		n, ok2 := parse(args[1])
		if !ok || !ok2 || k < 1 || k > 256 {
			return core.Result{Out: "bad-op", Pred: "n/a"}
		}
		gmpLock.Lock()
		defer gmpLock.Unlock()
		base := threadlocal.VerifLiveTables()
		rs := make([]*runner, k)
		var wg sync.WaitGroup
		for i := range rs {
			rs[i] = newRunner(false, nil, n)
			wg.Add(1)
			go func(r *runner) {
				defer wg.Done()
				r.root(n)
				r.finalAudit()
			}(rs[i])
		}
		wg.Wait()
		live := waitLive(base, time.Second)
		all := &runner{}
		for _, r := range rs {
			all.fails = append(all.fails, r.fails...)
		}
		if live != 0 {
			all.fail("tls-leak", "%d goroutine-local table(s) still allocated after %d concurrent programs ended", live, k)
		}
		return core.Result{Out: "free", Pred: all.pred(), NonTrivial: true, Tags: []string{"free"}}
	}
	return core.Result{Out: "bad-op", Pred: "FAIL harness-bad-op " + op}
}

func tagsOf(n *node, r *runner, sched bool) []string {
	seen := map[string]bool{}
	n.walk(func(x *node) { seen["op:"+x.op] = true })
	if sched {
		seen["scheduled"] = true
	}
	if r.nextGid > 1 {
		seen["goroutines:"+strconv.Itoa(min(r.nextGid, 5))] = true
	}
	for _, l := range r.logs {
		seen["outcome:"+l.outcome] = true
	}
	out := make([]string, 0, len(seen))
	for k := range seen {
		out = append(out, k)
	}
	sort.Strings(out)
	return out
}

func min(a, b int) int {
	if a < b {
		return a
	}
	return b
}

// ---- generators ----------------------------------------------------------------------------------------

var exLeaves = []func() *node{
	func() *node { return &node{op: "obs"} },
	func() *node { return &node{op: "set", k: "a"} },
	func() *node { return &node{op: "get", k: "a"} },
	func() *node { return &node{op: "del", k: "a"} },
	func() *node { return &node{op: "push"} },
	func() *node { return &node{op: "pop"} },
	func() *node { return &node{op: "deftype", k: "A"} },
	func() *node { return &node{op: "load", k: "A"} },
	func() *node { return &node{op: "panic"} },
}

var exComposites = []string{"doctx", "do", "try", "doloader", "fork", "go", "recover"}

// terms(n): every term with exactly n nodes; forests(n): every non-empty sequence of terms with n nodes in total
type enum struct {
	t map[int][]*node
	f map[int][][]*node
}

func (e *enum) terms(n int) []*node {
	if r, ok := e.t[n]; ok {
		return r
	}
	var r []*node
	if n == 1 {
		for _, l := range exLeaves {
			r = append(r, l())
		}
	} else if n > 1 {
		for _, op := range exComposites {
			for _, f := range e.forests(n - 1) {
				r = append(r, &node{op: op, kids: f})
			}
		}
	}
	e.t[n] = r
	return r
}

func (e *enum) forests(n int) [][]*node {
	if r, ok := e.f[n]; ok {
		return r
	}
	var r [][]*node
	for first := 1; first <= n; first++ {
		for _, t := range e.terms(first) {
			if first == n {
				r = append(r, []*node{t})
				continue
			}
			for _, rest := range e.forests(n - first) {
				r = append(r, append([]*node{t}, rest...))
			}
		}
	}
	e.f[n] = r
	return r
}

// number gives every scope a distinct id and every set/push a distinct value (pre-order); the enumerated nodes are shared
// between terms, so the numbered term is a fresh copy
func number(n *node, next *int) *node {
	c := &node{op: n.op, k: n.k, n: n.n}
	switch n.op {
	case "doctx", "do", "doparent", "try", "set", "push":
		*next++
		c.n = *next
	}
	for _, k := range n.kids {
		c.kids = append(c.kids, number(k, next))
	}
	return c
}

func hasSpawn(n *node) bool {
	r := false
	n.walk(func(x *node) {
		if x.op == "fork" || x.op == "go" {
			r = true
		}
	})
	return r
}

func schedStr(s []int) string {
	xs := make([]string, len(s))
	for i, d := range s {
		xs[i] = strconv.Itoa(d)
	}
	return "(" + strings.Join(xs, " ") + ")"
}

func emitProg(g *core.G, n *node, scheds ...[]int) {
	g.Emit("prog " + n.sexp().String())
	for _, s := range scheds {
		g.Emit("progs " + schedStr(s) + " " + n.sexp().String())
	}
}

func emitInter(g *core.G, n *node, choices ...[]int) {
	for _, s := range choices {
		g.Emit("progi " + schedStr(s) + " " + n.sexp().String())
	}
}

func wrap(f []*node) *node {
	if len(f) == 1 {
		return f[0]
	}
	return &node{op: "seq", kids: f}
}

var (
	eager   = []int{1, 1, 1, 1, 1, 1, 1, 1, 1, 1, 1, 1}
	delayed = []int{0, 1, 0, 1, 0, 1, 0, 1, 0, 1}
	second  = []int{2, 0, 2, 0, 1, 1, 1, 1}
	// leaf-level interleaving: strict alternation between the two oldest runnable goroutines / always the youngest
	alternate = []int{0, 1, 0, 1, 0, 1, 0, 1, 0, 1, 0, 1, 0, 1, 0, 1}
	youngest  = []int{0, 7, 7, 7, 7, 7, 7, 7, 7, 7, 7, 7, 7, 7, 7, 7}
	// the parent parks before its next leaf, the child starts and performs ONE leaf, then the parent performs one, … (a child
	// that looked before the parent acted, and looks again afterwards)
	childFirst = []int{0, 1, 1, 0, 1, 1, 0, 1, 1, 0, 1, 1, 0, 1, 1, 0}
)

type rgen struct {
	r    *rand.Rand
	id   int
	val  int
	last string // key of the most recent set (to follow a fork with a related set on purpose)
}

func (x *rgen) leaf() *node {
	keys := []string{"a", "b"}
	names := []string{"A", "B"}
	switch x.r.Intn(15) {
	case 12:
		if x.last != "" && x.r.Intn(2) == 0 {
			return &node{op: "del", k: x.last}
		}
		return &node{op: "del", k: core.Pick(x.r, keys)}
	case 13:
		return &node{op: "pop"}
	case 14:
		x.val++
		return &node{op: "push", n: x.val}
	case 0, 1:
		return &node{op: "obs"}
	case 2, 3, 4:
		x.val++
		x.last = core.Pick(x.r, keys)
		return &node{op: "set", k: x.last, n: x.val}
	case 5, 6:
		if x.last != "" && x.r.Intn(3) > 0 {
			return &node{op: "get", k: x.last}
		}
		return &node{op: "get", k: core.Pick(x.r, keys)}
	case 7:
		x.val++
		return &node{op: "push", n: x.val}
	case 8:
		return &node{op: "deftype", k: core.Pick(x.r, names)}
	case 9, 10:
		return &node{op: "load", k: core.Pick(x.r, names)}
	}
	return &node{op: "panic"}
}

// term of (about) the given size
func (x *rgen) term(size int) *node {
	if size <= 1 {
		return x.leaf()
	}
	ops := []string{"doctx", "doctx", "doparent", "do", "try", "doloader", "fork", "fork", "fork", "go", "go", "recover", "seq"}
	n := &node{op: core.Pick(x.r, ops)}
	if n.op == "doctx" || n.op == "do" || n.op == "doparent" || n.op == "try" {
		x.id++
		n.n = x.id
	}
	n.kids = x.forest(size - 1)
	return n
}

func (x *rgen) forest(size int) []*node {
	var r []*node
	for size > 0 {
		s := 1
		if size > 1 && x.r.Intn(3) > 0 {
			s = 1 + x.r.Intn(size)
		}
		t := x.term(s)
		r = append(r, t)
		size -= s
		// related on purpose: the child asks for a name before and after the parent defines it
		if (t.op == "fork" || t.op == "go") && x.r.Intn(4) == 0 {
			n := core.Pick(x.r, []string{"A", "B"})
			t.kids = append(append([]*node{{op: "load", k: n}}, t.kids...), &node{op: "load", k: n})
			r = append(r, &node{op: "deftype", k: n})
			size -= 3
		}
		// related on purpose: the parent changes the same variable / pushes / defines right after starting a goroutine
		if (t.op == "fork" || t.op == "go") && x.last != "" && x.r.Intn(2) == 0 {
			x.val++
			r = append(r, &node{op: "set", k: x.last, n: x.val}, &node{op: "get", k: x.last})
			size -= 2
		}
	}
	return r
}

// ---- state shapes × scope kinds × child actions × observers ------------------------------------------------
//
// Every piece of per-context state is taken through its representation states before a context is derived from it:
// variables never set / set / set and all deleted again (an allocated, EMPTY map) / several set and deleted; stack never
// pushed / pushed / pushed and popped back to empty; loader without / with definitions / inside a loader scope.  Then a
// derived context is made in every way pcore offers (Fork, Go, and on the same goroutine DoWithContext of a fork,
// DoWithParent, Do, Try), its body changes each kind of state, and the parent — or a sibling derived afterwards in
// either way — looks.  Second generation: the same from inside a forked goroutine.

func leafN(op, k string) *node { return &node{op: op, k: k} }

func clone(ns []*node) []*node {
	r := make([]*node, len(ns))
	for i, n := range ns {
		r[i] = &node{op: n.op, k: n.k, n: n.n, kids: clone(n.kids)}
	}
	return r
}

func shapePreps() [][]*node {
	set, del := func(k string) *node { return leafN("set", k) }, func(k string) *node { return leafN("del", k) }
	push, pop := &node{op: "push"}, &node{op: "pop"}
	return [][]*node{
		{},
		{set("a")},
		{set("a"), del("a")},
		{set("a"), set("b"), del("b"), del("a")},
		{set("b"), del("a")},
		{push},
		{push, pop},
		{push, push, pop, pop, set("a"), del("a")},
		{leafN("deftype", "A")},
		{leafN("load", "A")},
	}
}

func shapeActs() [][]*node {
	return [][]*node{
		{leafN("set", "a")},
		{leafN("set", "a"), leafN("del", "a")},
		{leafN("del", "a"), leafN("set", "b")},
		{{op: "push"}},
		{{op: "push"}, {op: "pop"}},
		{leafN("deftype", "A")},
		{{op: "doloader", kids: []*node{leafN("deftype", "A"), leafN("set", "a")}}},
		{leafN("set", "a"), {op: "push"}, leafN("deftype", "A"), leafN("get", "a")},
	}
}

func shapeLook() []*node {
	return []*node{leafN("get", "a"), leafN("get", "b"), {op: "obs"}, leafN("load", "A")}
}

func genShapes(g *core.G, hi *[]string) {
	kinds := []string{"fork", "go", "doctx", "doparent", "do", "try"}
	count := 0
	emit := func(f []*node) {
		next := 0
		t := number(wrap(clone(f)), &next)
		if hasSpawn(t) {
			emitProg(g, t, eager)
			emitInter(g, t, alternate, childFirst)
			// every 7th goroutine-starting shape once more among goroutines with 7-digit ids (emitted together, later)
			if count++; count%7 == 0 {
				*hi = append(*hi, "progs "+schedStr(eager)+" "+t.sexp().String(), "progi "+schedStr(alternate)+" "+t.sexp().String())
			}
		} else {
			emitProg(g, t)
		}
	}
	scope := func(kind string, body []*node) *node { return &node{op: kind, kids: body} }
	for _, prep := range shapePreps() {
		for _, kind := range kinds {
			for _, act := range shapeActs() {
				// the parent looks
				emit(append(append(append([]*node{}, prep...), scope(kind, act)), shapeLook()...))
				// a sibling derived afterwards looks (goroutine and same-goroutine flavour)
				for _, sk := range []string{"fork", "go", "doctx"} {
					emit(append(append(append([]*node{}, prep...), scope(kind, act)), scope(sk, shapeLook())))
				}
			}
		}
	}
	// second generation: inside a forked goroutine (and inside a nested context of it)
	for _, outer := range []string{"fork", "go"} {
		for _, prep := range shapePreps()[1:8] {
			for _, kind := range []string{"fork", "go", "doctx", "doparent"} {
				for _, act := range shapeActs()[:6] {
					inner := append(append(append([]*node{}, prep...), scope(kind, act)), shapeLook()...)
					emit([]*node{leafN("set", "b"), scope(outer, inner), leafN("get", "a"), leafN("get", "b")})
					inner2 := append(append(append([]*node{}, prep...), scope(kind, act)), scope("go", shapeLook()))
					emit([]*node{scope(outer, []*node{scope("doctx", inner2)}), {op: "obs"}})
				}
			}
		}
	}
}

// genLateDefs: the history "a derived context looks a name up and MISSES, then an ancestor defines the name, then the derived
// context looks again" (the parent's definitions are visible to the child also when the child has asked before: a miss is
// cached as a negative entry in the ASKING context's own loader and must not end a later search).  The child is a goroutine
// (Fork, Go), possibly working in a context derived once more (DoWithParent, DoWithContext, DoWithLoader, Do, a nested
// Fork/Go), so that the parent can act while the child's context is alive; every program runs under EVERY leaf-level
// interleaving prefix of length 5 (thorough: 7) over 3 (4) choices — among them the orders miss / define / look again.
func genLateDefs(g *core.G) {
	ld := func(k string) *node { return leafN("load", k) }
	df := func(k string) *node { return leafN("deftype", k) }
	sc := func(kind string, body ...*node) *node { return &node{op: kind, kids: body} }
	wrappers := []func(body []*node) *node{
		func(b []*node) *node { return sc("fork", b...) },
		func(b []*node) *node { return sc("go", b...) },
		func(b []*node) *node { return sc("fork", sc("doparent", b...)) },
		func(b []*node) *node { return sc("go", sc("doparent", b...)) },
		func(b []*node) *node { return sc("fork", sc("doctx", b...)) },
		func(b []*node) *node { return sc("fork", sc("doloader", b...)) },
		func(b []*node) *node { return sc("fork", sc("fork", b...)) },
		func(b []*node) *node { return sc("go", sc("go", b...)) },
		func(b []*node) *node { return sc("fork", sc("go", sc("doparent", b...))) },
		func(b []*node) *node { return sc("fork", sc("do", b...)) },
		func(b []*node) *node { return sc("doctx", sc("fork", b...)) },
	}
	bodies := [][]*node{
		{ld("A"), ld("A")},
		{ld("A"), {op: "obs"}, ld("A"), ld("B")},
	}
	tails := [][]*node{
		{df("A")},
		{ld("A"), df("A"), ld("A")},
		{sc("doloader", df("A")), df("B")},
	}
	length, width := 5, 3
	if g.Thorough() {
		length, width = 7, 4
	}
	var scheds [][]int
	var rec func(prefix []int)
	rec = func(prefix []int) {
		if len(prefix) == length {
			scheds = append(scheds, append([]int(nil), prefix...))
			return
		}
		for d := 0; d < width; d++ {
			rec(append(prefix, d))
		}
	}
	rec(nil)
	for wi, w := range wrappers {
		for bi, b := range bodies {
			for ti, tl := range tails {
				// quick tier: every wrapper with the plain body and tail, the other bodies/tails with the first four wrappers
				if !g.Thorough() && (bi > 0 || ti > 0) && wi >= 4 {
					continue
				}
				next := 0
				t := number(wrap(clone(append([]*node{w(b)}, tl...))), &next)
				emitProg(g, t, eager, delayed)
				for _, s := range scheds {
					g.Emit("progi " + schedStr(s) + " " + t.sexp().String())
				}
			}
		}
	}
}

func genGids(g *core.G, r *rand.Rand, hi []string) {
	level := func(base int, progs []string) {
		b := strconv.Itoa(base)
		// back to back forks, all alive together: straddling the power of ten, exactly at it, and anywhere above.  The ids of
		// a process only grow, so the ops are emitted in ascending order of the id they ask for: then the goroutines of
		// `gidlive m k` have exactly the ids m … m+k (the model computes the table keys of exactly these)
		g.Emit("gidlive " + strconv.Itoa(base-30) + " 16")
		g.Emit("gidlive " + strconv.Itoa(base-3) + " 8")
		at := base + 10
		for _, k := range []int{1, 2, 16, 64} {
			g.Emit("gidlive " + strconv.Itoa(at) + " " + strconv.Itoa(k))
			at += k + 7
		}
		for _, p := range progs {
			g.Emit("hi " + b + " " + p)
		}
		at = base + 100000
		for i := 0; i < 6*g.Scale; i++ {
			k := 2 + r.Intn(63)
			at += 1 + r.Intn(base/(8*g.Scale))
			g.Emit("gidlive " + strconv.Itoa(at) + " " + strconv.Itoa(k))
			at += k
		}
		for _, k := range []int{8, 64} {
			g.Emit("@gidfree " + b + " " + strconv.Itoa(k))
		}
	}
	// the witnesses of the known pre-fix defects and two fixed programs, then the collected shapes / random programs
	fixed := []string{
		"prog (seq (set a 1) (fork (get a) (obs)) (set a 2) (get a) (obs))",
		"progs (1 1 1 1) (seq (fork (obs) (fork (obs))) (go (obs)) (obs))",
		"progi (0 1 0 1 0 1 0 1) (seq (fork (obs) (set a 1) (get a)) (fork (obs) (set a 2) (get a)) (obs))",
	}
	level(1000000, append(fixed, hi...))
	if g.Thorough() {
		// 8 digits: reached in steps, so that no single op has to start more than 2.5 million goroutines
		for _, b := range []int{3500000, 6000000, 8500000} {
			g.Emit("hi " + strconv.Itoa(b) + " prog (obs)")
		}
		n := len(hi)
		if n > 400 {
			n = 400
		}
		level(10000000, append(fixed, hi[:n]...))
	}
}

func gen(g *core.G) {
	// 1. the exhaustive small universe: every forest of at most 4 (quick) / 5 (thorough) nodes
	max := 4
	if g.Thorough() {
		max = 5
	}
	e := &enum{t: map[int][]*node{}, f: map[int][][]*node{}}
	for n := 1; n <= max; n++ {
		for _, f := range e.forests(n) {
			next := 0
			t := number(wrap(f), &next)
			if hasSpawn(t) {
				emitProg(g, t, eager, delayed)
				emitInter(g, t, alternate, childFirst)
			} else {
				emitProg(g, t)
			}
		}
	}
	// 1b. state shapes × scope kinds × child actions × observers
	var hi []string
	genShapes(g, &hi)
	// 1c. a derived context misses a name, an ancestor defines it, the derived context looks again
	genLateDefs(g)
	// 2. random programs of size 12 (and a few larger) under random oracles
	x := &rgen{r: g.Rng}
	for i := 0; i < 2500*g.Scale; i++ {
		x.id, x.val, x.last = 0, 0, ""
		size := 12
		if i%10 == 9 {
			size = 12 + x.r.Intn(20)
		}
		t := wrap(x.forest(size))
		var ss [][]int
		if hasSpawn(t) {
			ss = append(ss, eager)
			for k := 0; k < 2; k++ {
				s := make([]int, 4+x.r.Intn(20))
				for j := range s {
					if x.r.Intn(3) == 0 {
						s[j] = 1 + x.r.Intn(4)
					}
				}
				ss = append(ss, s)
			}
			if i%4 == 0 {
				ss = append(ss, second)
			}
		}
		emitProg(g, t, ss...)
		if hasSpawn(t) {
			cs := [][]int{alternate, childFirst}
			for k := 0; k < 2; k++ {
				c := make([]int, 8+x.r.Intn(40))
				for j := range c {
					c[j] = x.r.Intn(5)
				}
				cs = append(cs, c)
			}
			if i%3 == 0 {
				cs = append(cs, youngest)
			}
			emitInter(g, t, cs...)
			if i%5 == 0 {
				hi = append(hi, "progs "+schedStr(ss[1])+" "+t.sexp().String(), "progi "+schedStr(cs[1])+" "+t.sexp().String())
			}
		} else if i%5 == 0 {
			emitInter(g, t, nil)
		}
	}
	// 3. many goroutines under the real scheduler (implementation only)
	for i := 0; i < 150*g.Scale; i++ {
		x.id, x.val, x.last = 0, 0, ""
		t := wrap(x.forest(8 + x.r.Intn(16)))
		k := []int{2, 8, 32, 64}[x.r.Intn(4)]
		g.Emit("@free " + strconv.Itoa(k) + " " + t.sexp().String())
	}
	// 3b. goroutine ids of 7 (thorough: also 8) digits: see gid.go.  All ops of one magnitude are emitted together (the ids
	// of a process only grow; the first op of a run pays for the goroutines that have to be started and ended first)
	genGids(g, x.r, hi)
	// 4. malformed
	for _, l := range []string{"hi 1000000 prog (obs 1)", "hi 0 prog (obs)", "hi 1000000 hi 1000000 prog (obs)", "hi 1000000 free 2 (obs)", "hi x prog (obs)",
		"gidlive 1000000 0", "gidlive 1000000 257", "gidlive 0 4", "gidlive 20000001 4", "gidlive 1000000", "hi 20000001 prog (obs)", "prog (obs 1)", "prog (set a)", "prog (doctx x (obs))", "prog (doctx 1000 (obs))", "prog (frok (obs))", "progs (1 x) (obs)", "prog (set a -1)", "prog obs", "prog (get a-b)"} {
		g.Emit(l)
	}
}
