package c16

import (
	"math/rand"

	"verif/harness/core"
	"verif/harness/sx"
)

// ---- newm through wrapper types and Init[T, args…]; the coerce op --------------------------------------------------

func tOpt(t *ty) *ty { return &ty{tag: "opt", kids: []*ty{t}} }
func tNu(t *ty) *ty  { return &ty{tag: "nu", kids: []*ty{t}} }
func tArr(t *ty) *ty { return &ty{tag: "arr", kids: []*ty{t}} }
func tArrN(t *ty, lo int64, hi *int64) *ty {
	return &ty{tag: "arr", kids: []*ty{t}, lo: i64(lo), hi: hi}
}
func tHash(k, v *ty, lo int64, hi *int64) *ty {
	return &ty{tag: "hash", kids: []*ty{k, v}, lo: i64(lo), hi: hi}
}
func aliasOf(t *ty) sx.Sexp { return sx.T("alias", t.sexp()) }

// values a conversion may start from
var wrapAtoms = []sx.Sexp{iv(3), iv(7), iv(-1), iv(0), sv("3"), sv("7"), sv("-1"), sv("0x1F"), sv("1.5"), sv("z"), sv(""), sv("yes"), sv("no"),
	fv(2.5), fv(3), fv(-0.5), bv(true), bv(false), sx.T("u"), sx.T("d")}

// the shorter list arrays and hashes are enumerated over
var wrapFew = []sx.Sexp{iv(3), iv(7), sv("3"), sv("1.5"), sv("z"), fv(2.5), bv(true), sx.T("u")}

func wrapValue(r *rand.Rand, depth int) sx.Sexp {
	switch k := r.Intn(10); {
	case depth > 0 && k == 0:
		n := r.Intn(4)
		xs := make([]sx.Sexp, n)
		for i := range xs {
			xs[i] = wrapValue(r, depth-1)
		}
		return av(xs...)
	case depth > 0 && k == 1:
		n := r.Intn(3)
		es := make([]sentry, n)
		keys := []sx.Sexp{sv("a"), sv("b"), sv("1"), iv(1), sv("2"), iv(2), fv(1.5), sv("z")}
		for i := range es {
			es[i] = sentry{keys[r.Intn(len(keys))], wrapValue(r, depth-1)}
		}
		return hv(es)
	}
	return wrapAtoms[r.Intn(len(wrapAtoms))]
}

// convertible: a value the type's constructor (or the coercion into its elements) accepts, most of the time
func convertible(r *rand.Rand, t *ty, depth int) sx.Sexp {
	switch t.tag {
	case "int":
		switch r.Intn(6) {
		case 0:
			return witness(r, t, nil, 0)
		case 1:
			return sv([]string{"3", "4", "0", "-2", "17", "5", "1"}[r.Intn(7)])
		case 2:
			return fv([]float64{2.5, 3, 0, 4.9, -1.2}[r.Intn(5)])
		case 3:
			return bv(r.Intn(2) == 0)
		}
		return iv(int64(r.Intn(8)))
	case "flt", "num":
		switch r.Intn(5) {
		case 0:
			return sv([]string{"1.5", "2", "0.5", "1e3", "-1.5", "0x1F", "0777"}[r.Intn(7)])
		case 1:
			return iv(int64(r.Intn(5)))
		case 2:
			return bv(r.Intn(2) == 0)
		}
		return fv([]float64{1.5, 2, 1, 0, -1.5, 0.25}[r.Intn(6)])
	case "bool":
		return []sx.Sexp{sv("yes"), sv("no"), iv(0), iv(1), fv(0), bv(true), sv("TRUE")}[r.Intn(7)]
	case "opt":
		if r.Intn(4) == 0 {
			return sx.T("u")
		}
		return convertible(r, t.kids[0], depth)
	case "nu", "var":
		if len(t.kids) > 0 {
			return convertible(r, t.kids[r.Intn(len(t.kids))], depth)
		}
	case "arr":
		n := r.Intn(4)
		if t.lo != nil && r.Intn(3) != 0 {
			n = int(*t.lo) + r.Intn(2)
		}
		xs := make([]sx.Sexp, n)
		for i := range xs {
			xs[i] = convertible(r, t.kids[0], depth+1)
		}
		return av(xs...)
	case "tuple":
		xs := make([]sx.Sexp, len(t.kids))
		for i := range xs {
			xs[i] = convertible(r, t.kids[i], depth+1)
		}
		return av(xs...)
	case "hash":
		n := r.Intn(3)
		if t.lo != nil && r.Intn(3) != 0 {
			n = int(*t.lo) + r.Intn(2)
		}
		es := make([]sentry, n)
		for i := range es {
			es[i] = sentry{convertible(r, t.kids[0], depth+1), convertible(r, t.kids[1], depth+1)}
		}
		return hv(es)
	case "struct":
		var es []sentry
		for j, k := range t.kids {
			if !t.opts[j] || r.Intn(2) == 0 {
				es = append(es, sentry{sv(t.strs[j]), convertible(r, k, depth+1)})
			}
		}
		if r.Intn(6) == 0 {
			es = append(es, sentry{newmOddKeys[r.Intn(len(newmOddKeys))], wrapAtoms[r.Intn(len(wrapAtoms))]})
		}
		return hv(es)
	case "str":
		return sv(genStrs[r.Intn(len(genStrs))])
	}
	return wrapValue(r, 1)
}

// mutate: a one-point change somewhere in the value
func mutateValue(r *rand.Rand, v sx.Sexp) sx.Sexp {
	if v.IsList && (v.Tag() == "a") && len(v.Args()) > 0 && r.Intn(3) != 0 {
		a := append([]sx.Sexp{}, v.Args()...)
		k := r.Intn(len(a))
		switch r.Intn(4) {
		case 0:
			a = append(a[:k:k], a[k+1:]...)
		case 1:
			a = append(a, wrapValue(r, 1))
		default:
			a[k] = mutateValue(r, a[k])
		}
		return av(a...)
	}
	if v.IsList && v.Tag() == "h" && len(v.Args()) > 0 && r.Intn(3) != 0 {
		es := make([]sentry, len(v.Args()))
		for i, e := range v.Args() {
			es[i] = sentry{e.List[0], e.List[1]}
		}
		k := r.Intn(len(es))
		switch r.Intn(4) {
		case 0:
			es = append(es[:k:k], es[k+1:]...)
		case 1:
			es[k].k = wrapValue(r, 0)
		case 2:
			es = append(es, sentry{wrapValue(r, 0), wrapValue(r, 1)})
		default:
			es[k].v = mutateValue(r, es[k].v)
		}
		return hv(es)
	}
	return wrapValue(r, 1)
}

func genWrap(g *core.G) {
	r := g.Rng
	emitNew := func(recv sx.Sexp, args []sx.Sexp) {
		g.Emit("newm " + recv.String() + " " + sx.T("args", args...).String())
	}
	emitCo := func(t sx.Sexp, v sx.Sexp) {
		g.Emit("coerce " + t.String() + " " + v.String())
		g.Emit("cancoerce " + t.String() + " " + v.String())
	}

	// ---- newm: wrappers (no constructor under their own name) and Init around them ----
	inner := []*ty{tInt, tInt05, tFlt, tBool, tArrInt, tNum}
	var wrappers []sx.Sexp
	for _, t := range inner {
		wrappers = append(wrappers, tOpt(t).sexp(), tNu(t).sexp(), aliasOf(t), (&ty{tag: "var", kids: []*ty{t, tUndef}}).sexp())
	}
	wrappers = append(wrappers, tOpt(tOpt(tInt)).sexp(), sx.T("alias", tOpt(tInt).sexp()), tNu(tOpt(tInt)).sexp())
	argLists := [][]sx.Sexp{nil, {iv(3)}, {sv("3")}, {sv("z")}, {sx.T("u")}, {fv(2.5)}, {bv(true)}, {av(iv(1))}, {av(sv("3"), iv(16))}, {sv("3"), iv(16)}, {hmap(sv("from"), sv("3"))}}
	for _, w := range wrappers {
		for _, a := range argLists {
			emitNew(w, a)
			emitNew(sx.T("init", w), a)
			emitNew(sx.T("init", w, iv(16)), a)
		}
	}
	// ---- newm: Init[T, init arguments…] ----
	type initRecv struct {
		t  *ty
		ia []sx.Sexp
	}
	inits := []initRecv{
		{tInt, []sx.Sexp{iv(16)}}, {tInt, []sx.Sexp{iv(2)}}, {tInt, []sx.Sexp{iv(8), bv(true)}}, {tInt, []sx.Sexp{sx.T("d"), bv(true)}}, {tInt, []sx.Sexp{iv(3)}},
		{tInt, []sx.Sexp{bv(true)}}, {tInt05, []sx.Sexp{iv(2)}}, {tInt05, []sx.Sexp{iv(10), bv(true)}}, {tInt, []sx.Sexp{iv(16), bv(true), iv(1)}},
		{tFlt, []sx.Sexp{bv(true)}}, {tFlt12, []sx.Sexp{bv(true)}}, {tNum, []sx.Sexp{bv(true)}}, {tNum, []sx.Sexp{bv(false)}}, {tNum, []sx.Sexp{iv(1)}},
		{tBool, []sx.Sexp{iv(1)}}, {&ty{tag: "arr", kids: []*ty{tAny}}, []sx.Sexp{bv(true)}}, {tArrN(tInt, 1, nil), []sx.Sexp{bv(false)}},
		{tArrN(tArrInt, 1, i64(1)), []sx.Sexp{bv(true)}}, {tInt, []sx.Sexp{av(iv(16))}}, {tInt, []sx.Sexp{sv("16")}},
	}
	var froms []sx.Sexp
	for _, s := range numStrs {
		froms = append(froms, sv(s))
	}
	for _, s := range []string{"1.5", "-1.25", "0777", "1e3", "- 5", "-0.0"} {
		froms = append(froms, sv(s))
	}
	froms = append(froms, iv(3), iv(-7), iv(0), fv(-2.5), fv(1.5), bv(true), sx.T("u"), av(), av(iv(1), iv(2)), av(sv("11")), av(sv("11"), iv(2)), hmap(sv("from"), sv("-11")))
	for _, ir := range inits {
		recv := sx.T("init", append([]sx.Sexp{ir.t.sexp()}, ir.ia...)...)
		emitNew(recv, nil)
		for _, f := range froms {
			emitNew(recv, []sx.Sexp{f})
		}
		emitNew(recv, []sx.Sexp{sv("11"), iv(2)})
		emitNew(recv, []sx.Sexp{sv("-11"), iv(2), bv(true)})
	}
	for i := 0; i < 1500*g.Scale; i++ {
		ir := inits[r.Intn(len(inits))]
		ia := append([]sx.Sexp{}, ir.ia...)
		if r.Intn(5) == 0 {
			ia = append(ia, wrapAtoms[r.Intn(len(wrapAtoms))])
		}
		recv := sx.T("init", append([]sx.Sexp{ir.t.sexp()}, ia...)...)
		if r.Intn(6) == 0 {
			recv = sx.T("init", append([]sx.Sexp{wrappers[r.Intn(len(wrappers))]}, ia...)...)
		}
		n := r.Intn(3)
		args := []sx.Sexp{convertible(r, ir.t, 0)}
		for j := 0; j < n; j++ {
			if r.Intn(2) == 0 {
				args = append(args, wrapValue(r, 1))
			}
		}
		if r.Intn(8) == 0 {
			args = args[1:]
		}
		emitNew(recv, args)
	}

	// ---- Init[T, args…] as a type: initinst / initasg ----
	emitInst := func(recv sx.Sexp, v sx.Sexp) { g.Emit("initinst " + recv.String() + " " + v.String()) }
	instRecvs := []sx.Sexp{sx.T("init")}
	for _, t := range []*ty{tInt, tInt05, tFlt, tNum, tBool, {tag: "arr", kids: []*ty{tAny}}, tArrInt, {tag: "bin"}, {tag: "tsp"},
		{tag: "hash", kids: []*ty{tAny, tAny}, lo: i64(0), hi: nil}, mkStruct("a", false, tInt), {tag: "tuple", kids: []*ty{tInt, tInt}}} {
		instRecvs = append(instRecvs, sx.T("init", t.sexp()), t.sexp())
	}
	for _, ir := range inits {
		instRecvs = append(instRecvs, sx.T("init", append([]sx.Sexp{ir.t.sexp()}, ir.ia...)...))
	}
	for _, w := range wrappers[:8] {
		instRecvs = append(instRecvs, sx.T("init", w), sx.T("init", w, iv(16)))
	}
	instVals := append(append([]sx.Sexp{}, wrapAtoms...), froms...)
	instVals = append(instVals, av(sv("3"), iv(16)), av(sv("3"), iv(16), bv(true)), av(av(sv("3"), iv(16))), av(sv("1.5"), bv(true)), av(iv(1), iv(2), iv(3), iv(4)), av(av(iv(1)), bv(true)),
		hmap(sv("from"), sv("3"), sv("radix"), iv(16)), hmap(sv("value"), sv("YWJj"), sv("format"), sv("%B")), hmap(sv("days"), iv(1)), av(av(sv("a"), iv(1))), av(av(av(sv("a")), iv(1))),
		av(av(av(sv("a")), iv(1)), sv("tree")), tsv(5), binv([]byte{1}), av(sv("YWJj"), sv("%b")), av(sv("4"), sv("%S")))
	for _, rc := range instRecvs {
		for _, v := range instVals {
			emitInst(rc, v)
		}
	}
	asgTypes := []sx.Sexp{tInt.sexp(), tStr.sexp(), tFlt.sexp(), tAny.sexp(), tArrInt.sexp(), (&ty{tag: "tuple", kids: []*ty{tStr}}).sexp(), tOpt(tInt).sexp(), tBool.sexp(), tUndef.sexp(), tEnum.sexp()}
	for _, rc := range instRecvs {
		if rc.Tag() == "init" && len(rc.Args()) > 0 {
			for _, o := range asgTypes {
				g.Emit("initasg " + rc.String() + " " + o.String())
			}
		}
	}
	for i := 0; i < 1500*g.Scale; i++ {
		rc := instRecvs[r.Intn(len(instRecvs))]
		var v sx.Sexp
		switch r.Intn(3) {
		case 0:
			v = instVals[r.Intn(len(instVals))]
		case 1:
			// an argument list of the constructor, as one array
			a, _ := newmWitness(r)
			v = av(a...)
		default:
			v = wrapValue(r, 2)
		}
		emitInst(rc, v)
	}

	// ---- String: the signature and the format-less scalar cases (formatting itself is C20's) ----
	strRecvs := []sx.Sexp{tStr.sexp(), tStr2.sexp(), tStr13.sexp(), (&ty{tag: "str", lo: i64(0), hi: i64(0)}).sexp(), sx.T("init", tStr.sexp()), sx.T("init", tStr13.sexp()), tOpt(tStr).sexp()}
	plain := []sx.Sexp{sv(""), sv("a"), sv("ab"), sv("abc"), sv("abcd"), sv("é"), sv("éé"), sv("3"), iv(0), iv(3), iv(-12), iv(123), iv(1234), iv(9223372036854775807), iv(-9223372036854775808), bv(true), bv(false), sx.T("u"), sx.T("d")}
	illSecond := []sx.Sexp{iv(4), sv(""), bv(true), sx.T("u"), av(), hmap(sv("a"), sv("%d")), fv(1)}
	for _, rc := range strRecvs {
		emitNew(rc, nil)
		for _, v := range plain {
			emitNew(rc, []sx.Sexp{v})
			for _, f := range illSecond {
				emitNew(rc, []sx.Sexp{v, f})
			}
			emitNew(rc, []sx.Sexp{v, sx.T("d"), sx.T("d")})
		}
	}
	for _, v := range plain {
		for _, t := range []*ty{tStr, tStr2, tStr13, tOpt(tStr2)} {
			emitCo(t.sexp(), v) // a container would need the formatting machinery (not modelled here)
		}
		for _, t := range []*ty{tArr(tStr), tHash(tStr, tInt, 0, nil), mkStruct("a", false, tStr13)} {
			emitCo(t.sexp(), v)
			emitCo(t.sexp(), av(v, iv(7)))
			emitCo(t.sexp(), hmap(v, v))
			emitCo(t.sexp(), hmap(sv("a"), v))
		}
	}
	for _, ia := range [][]sx.Sexp{nil, {sv("%x")}, {sx.T("d")}, {hmap()}, {iv(1)}, {sv("")}, {sv("%d"), sv("%d")}} {
		rc := sx.T("init", append([]sx.Sexp{tStr.sexp()}, ia...)...)
		for _, v := range instVals {
			emitInst(rc, v)
		}
	}

	// ---- coerce ----
	sA := mkStruct("a", false, tInt)
	sAB := mkStruct("a", false, tInt, "b", true, tFlt)
	sArr := mkStruct("a", false, tArrInt, "b", true, tOpt(tInt))
	coTypes := []*ty{tInt, tInt05, tFlt, tFlt12, tNum, tBool, tAny, tUndef, tEnum, tVarIS,
		tOpt(tInt), tOpt(tInt05), tOpt(tFlt), tOpt(tOpt(tInt)), tNu(tInt), tNu(tOpt(tInt)), {tag: "var", kids: []*ty{tInt, tUndef}},
		tArrInt, tArrN(tInt, 1, i64(2)), tArr(tOpt(tInt)), tArr(tFlt), tArr(tArrInt), tArr(tVarIS), tArr(tInt05), tArr(tBool), tOpt(tArrInt), tArr(tNu(tInt)),
		tHash(tInt, tFlt, 0, nil), tHash(tInt, tInt, 0, i64(1)), tHash(tOpt(tInt), tInt, 1, nil), tHash(tNum, tArrInt, 0, nil), tHash(tVarIS, tInt, 0, nil), tOpt(tHash(tInt, tInt, 0, nil)),
		sA, sAB, sArr, tOpt(sA), tArr(sA), tHash(tInt, sA, 0, nil),
		{tag: "tuple", kids: []*ty{tInt, tInt}}, {tag: "tuple", kids: []*ty{tInt}}, tArr(&ty{tag: "tuple", kids: []*ty{tInt, tFlt}})}
	var coSexps []sx.Sexp
	for _, t := range coTypes {
		coSexps = append(coSexps, t.sexp())
	}
	coSexps = append(coSexps, aliasOf(tInt), aliasOf(tArrInt), aliasOf(tOpt(tInt)), aliasOf(sA))
	// small universe: every type x every atom, x every array of <= 2 of the few atoms (also nested once), x every hash of
	// <= 2 entries over keys {a, b, '1', 1} and the few atoms
	var smallVals []sx.Sexp
	smallVals = append(smallVals, wrapAtoms...)
	smallVals = append(smallVals, av())
	for _, a := range wrapFew {
		smallVals = append(smallVals, av(a), av(av(a)))
		for _, b := range wrapFew {
			smallVals = append(smallVals, av(a, b))
		}
	}
	smallVals = append(smallVals, av(iv(1), iv(2), iv(3)), av(sv("1"), sv("2"), sv("3")), hmap())
	hkeys := []sx.Sexp{sv("a"), sv("b"), sv("1"), iv(1)}
	for i, k := range hkeys {
		for _, a := range wrapFew {
			smallVals = append(smallVals, hmap(k, a))
			for _, k2 := range hkeys[i+1:] {
				smallVals = append(smallVals, hmap(k, a, k2, iv(3)), hmap(k, a, k2, sv("1.5")))
			}
		}
		smallVals = append(smallVals, hmap(k, av(sv("3"))), hmap(k, av(iv(3), sv("z"))))
	}
	for _, t := range coSexps {
		for _, v := range smallVals {
			emitCo(t, v)
		}
	}
	// random: a value made for the type, 0..2 one-point mutations
	for i := 0; i < 4000*g.Scale; i++ {
		k := r.Intn(len(coTypes))
		v := convertible(r, coTypes[k], 0)
		for m := r.Intn(3); m > 0; m-- {
			v = mutateValue(r, v)
		}
		t := coSexps[k]
		if r.Intn(12) == 0 {
			t = coSexps[len(coTypes)+r.Intn(len(coSexps)-len(coTypes))]
		}
		emitCo(t, v)
	}
}
