package c16

// `calls <lt> <ds> (seq (c <args> <blk>)*)`: a SEQUENCE of calls on ONE resolved function (model + implementation).
// out: the answers joined by " | " (`ran <i>` | `reported <CODE>` | `fault` each), or `builder-rejected` / `reported <CODE>`
// when the table is not accepted.  Predicates: per call the same independent first-match reference as `call` (classes
// not-first, outside-declaration-*, match-but-reported, wrong-error, fault), and `history-dependent` when the same argument
// list and block get different answers at different positions of the sequence.
import (
	"fmt"
	"math/rand"
	"strings"

	"verif/harness/core"
	"verif/harness/sx"

	"github.com/lyraproj/pcore/px"
)

func parseBlk(e sx.Sexp) (*blockSpec, bool) {
	if e.IsList {
		a := e.Args()
		if e.Tag() == "bt" && len(a) == 3 {
			// a lambda with one parameter per type: the first MIN required, the others optional; MAX = d: the last one repeated
			blk := &blockSpec{types: bpList(a[0]), min: a[1].MustInt(), max: bound(a[2])}
			n := int64(len(blk.types))
			if n > 8 || blk.min < 0 || blk.min > n || (blk.max != nil && *blk.max != n) || (blk.max == nil && n == 0) {
				return nil, false
			}
			return blk, true
		}
		if e.Tag() != "b" || len(a) != 2 {
			return nil, false
		}
		blk := &blockSpec{min: a[0].MustInt(), max: bound(a[1])}
		if blk.min < 0 || blk.min > 8 || (blk.max != nil && (*blk.max < blk.min || *blk.max > 8)) {
			return nil, false
		}
		return blk, true
	}
	return nil, e.Atom == "nb"
}

func execCalls(c px.Context, args []sx.Sexp) core.Result {
	if len(args) != 3 || args[0].Tag() != "lt" || args[1].Tag() != "ds" || args[2].Tag() != "seq" {
		return core.Result{Out: "bad-op", Pred: "FAIL harness-bad-op calls"}
	}
	env := map[string]*ty{}
	var names []string
	for _, e := range args[0].Args() {
		if !e.IsList || len(e.List) != 2 || e.List[0].IsList {
			return core.Result{Out: "bad-op", Pred: "FAIL harness-bad-op lt"}
		}
		names = append(names, e.List[0].Atom)
		env[e.List[0].Atom] = tyOf(e.List[1])
	}
	var ds []*disp
	for _, e := range args[1].Args() {
		ds = append(ds, dispOf(e))
	}
	type oneCall struct {
		vals []px.Value
		blk  *blockSpec
		key  string
	}
	var seq []oneCall
	for _, e := range args[2].Args() {
		a := e.Args()
		if e.Tag() != "c" || len(a) != 2 || a[0].Tag() != "args" {
			return core.Result{Out: "bad-op", Pred: "FAIL harness-bad-op seq"}
		}
		oc := oneCall{key: e.String()}
		for _, v := range a[0].Args() {
			switch v.Tag() {
			case "i", "s", "b", "u", "a", "d", "h":
			default:
				return core.Result{Out: "bad-op", Pred: "FAIL harness-bad-op value"}
			}
			oc.vals = append(oc.vals, valOf(c, v))
		}
		blk, ok := parseBlk(a[1])
		if !ok {
			return core.Result{Out: "bad-op", Pred: "FAIL harness-bad-op blk"}
		}
		oc.blk = blk
		seq = append(seq, oc)
	}
	tags := []string{fmt.Sprintf("calls.dispatches=%d", len(ds)), fmt.Sprintf("calls.len=%d", len(seq))}

	// ---- build and resolve once ----
	var ran []int
	var lt px.LocalTypesCreator
	if len(names) > 0 {
		lt = func(l px.LocalTypes) {
			for _, n := range names {
				l.Type(n, env[n].src(nil, 0))
			}
		}
	}
	creators := make([]px.DispatchCreator, len(ds))
	for i, d := range ds {
		i, d := i, d
		creators[i] = func(b px.Dispatch) {
			for _, o := range d.ops {
				switch o.kind {
				case "req":
					b.Param(o.t.src(nil, 0))
				case "opt":
					b.OptionalParam(o.t.src(nil, 0))
				case "rep":
					b.RepeatedParam(o.t.src(nil, 0))
				case "reqrep":
					b.RequiredRepeatedParam(o.t.src(nil, 0))
				case "blk":
					b.Block(o.bt.src())
				case "optblk":
					b.OptionalBlock(o.bt.src())
				case "ret":
					b.Returns(o.t.src(nil, 0))
				}
			}
			if d.fn2 {
				b.Function2(func(c px.Context, a []px.Value, bl px.Lambda) px.Value {
					ran = append(ran, i)
					return px.Undef
				})
			} else {
				b.Function(func(c px.Context, a []px.Value) px.Value {
					ran = append(ran, i)
					return px.Undef
				})
			}
		}
	}
	var rf px.ResolvableFunction
	var f px.Function
	out := safely(func() { rf = px.BuildFunction("f", lt, creators) })
	if out == "panic-string" {
		return core.Result{Out: "builder-rejected", Pred: "ok", Tags: append(tags, "calls.builder-rejected")}
	}
	if out == "" {
		out = safely(func() { f = rf.Resolve(c) })
	}
	if out != "" {
		if out == "panic-string" {
			out = "fault"
		}
		res := core.Result{Out: out, Pred: "n/a", Tags: append(tags, "calls.resolve-failed")}
		if out == "fault" {
			res.Pred = "FAIL fault building or resolving the function ended in a Go runtime fault"
		}
		return res
	}

	// ---- the calls, each against the independent first-match reference ----
	cache := map[string]px.Type{}
	blocks := map[string]px.Lambda{}
	outs := make([]string, len(seq))
	pred := "ok"
	fail := func(s string) {
		if pred == "ok" {
			pred = s
		}
	}
	seen := map[string]string{}
	laterFirst := false // the sequence visited a later dispatch before a call that an earlier one takes
	maxRan := -1
	for k, oc := range seq {
		var block px.Lambda
		if oc.blk != nil {
			bk := fmt.Sprint(oc.blk.min, oc.blk.max == nil, oc.blk.max)
			if oc.blk.max != nil {
				bk = fmt.Sprint(oc.blk.min, *oc.blk.max)
			}
			if b, ok := blocks[bk]; ok {
				block = b
			} else {
				if o := safely(func() { block = makeBlock(c, oc.blk) }); o != "" {
					return core.Result{Out: "bad-op", Pred: "FAIL harness-bad-op cannot build the block: " + o}
				}
				blocks[bk] = block
			}
		}
		ran = ran[:0]
		o := safely(func() { f.Call(c, block, oc.vals...) })
		switch {
		case o == "" && len(ran) == 1:
			o = fmt.Sprintf("ran %d", ran[0])
		case o == "" && len(ran) == 0:
			o = "returned-without-body"
		case o == "":
			o = "ran-several"
		case len(ran) > 0 || o == "panic-string":
			o = "fault"
		}
		outs[k] = o
		first := -1
		reasons := make([]string, len(ds))
		if e := safely(func() {
			for i, d := range ds {
				reasons[i] = d.decl().accepts(c, env, oc.vals, oc.blk, block, cache)
				if reasons[i] == "" && first < 0 {
					first = i
				}
			}
		}); e != "" {
			return core.Result{Out: strings.Join(outs[:k+1], " | "), Pred: "n/a", Tags: tags}
		}
		switch {
		case o == "fault":
			fail(fmt.Sprintf("FAIL fault call %d of the sequence ended in a Go runtime fault", k))
		case strings.HasPrefix(o, "ran "):
			i := ran[0]
			if i < maxRan {
				laterFirst = true
			}
			if i > maxRan {
				maxRan = i
			}
			switch {
			case reasons[i] != "":
				fail(fmt.Sprintf("FAIL outside-declaration-%s call %d of the sequence: body %d ran although its declaration rejects the arguments", reasons[i], k, i))
			case first < i:
				fail(fmt.Sprintf("FAIL not-first call %d of the sequence: body %d ran although dispatch %d accepts the arguments", k, i, first))
			}
		case strings.HasPrefix(o, "reported "):
			switch {
			case first >= 0:
				fail(fmt.Sprintf("FAIL match-but-reported call %d of the sequence: dispatch %d accepts the arguments but the call raised %s", k, first, o))
			case o != "reported ILLEGAL_ARGUMENTS":
				fail(fmt.Sprintf("FAIL wrong-error call %d of the sequence: expected ILLEGAL_ARGUMENTS, got %s", k, o))
			}
		default:
			fail(fmt.Sprintf("FAIL nomatch-not-reported call %d of the sequence: %s", k, o))
		}
		if prev, ok := seen[oc.key]; ok && prev != o {
			fail(fmt.Sprintf("FAIL history-dependent call %d of the sequence answered %s; the same arguments were answered %s earlier in the sequence", k, o, prev))
		} else if !ok {
			seen[oc.key] = o
		}
	}
	if laterFirst {
		tags = append(tags, "calls.later-dispatch-first")
	}
	if len(seen) < len(seq) {
		tags = append(tags, "calls.repeated-args")
	}
	return core.Result{Out: strings.Join(outs, " | "), Pred: pred, NonTrivial: len(ds) > 1 && len(seq) > 1, Tags: tags}
}

// ---- generator: tables whose dispatches overlap on purpose, call orders that visit a later dispatch first ---------

// inclusion chains of the alphabet, narrower first, each with a value that the type accepts and no earlier one does
type chainStep struct {
	t    *ty
	only sx.Sexp
}

var chains = [][]chainStep{
	{{tInt05, iv(3)}, {tInt, iv(50)}, {tVarIS, sv("hello")}, {tAny, sx.T("u")}},
	{{tEnum, sv("a")}, {tStr13, sv("abc")}, {tStr, sv("longer")}, {tOptStr, sx.T("u")}, {tAny, iv(1)}},
	{{tStr2, sv("ab")}, {tStr, sv("")}, {tVarIS, iv(7)}, {tAny, av()}},
	{{tIntPos, iv(4)}, {tInt, iv(-4)}, {tOptI05, sx.T("u")}, {tAny, sv("x")}},
	{{tArrInt, av(iv(1))}, {&ty{tag: "arr", kids: []*ty{tAny}}, av(sv("x"))}, {tAny, iv(0)}},
}

func seqLine(t *table, calls [][2]sx.Sexp) string {
	xs := make([]sx.Sexp, len(calls))
	for i, c := range calls {
		xs[i] = sx.T("c", c[0], c[1])
	}
	return "calls " + t.ltSexp().String() + " " + t.dsSexp().String() + " " + sx.T("seq", xs...).String()
}

func argsOf(vs ...sx.Sexp) sx.Sexp { return sx.T("args", vs...) }

func genCalls(g *core.G) {
	r := g.Rng
	nb := sx.A("nb")
	// small universe: every table of 2 or 3 one-parameter dispatches over {Integer[0,5], Integer, Any} (every order, so
	// narrower-before-wider, wider-before-narrower and equal) x every sequence of <= 3 calls over {3, 50, 'a'}
	tys := []*ty{tInt05, tInt, tAny}
	probes := []sx.Sexp{iv(3), iv(50), sv("a")}
	var seqs [][][2]sx.Sexp
	var rec func(cur [][2]sx.Sexp)
	rec = func(cur [][2]sx.Sexp) {
		if len(cur) > 0 {
			seqs = append(seqs, append([][2]sx.Sexp{}, cur...))
		}
		if len(cur) == 3 {
			return
		}
		for _, p := range probes {
			rec(append(cur, [2]sx.Sexp{argsOf(p), nb}))
		}
	}
	rec(nil)
	var tabs []*table
	for _, a := range tys {
		for _, b := range tys {
			tabs = append(tabs, &table{ds: []*disp{{ops: []bop{{kind: "req", t: a}}}, {ops: []bop{{kind: "req", t: b}}}}})
			for _, c := range tys {
				tabs = append(tabs, &table{ds: []*disp{{ops: []bop{{kind: "req", t: a}}}, {ops: []bop{{kind: "req", t: b}}}, {ops: []bop{{kind: "req", t: c}}}}})
			}
		}
	}
	for _, t := range tabs {
		for _, s := range seqs {
			g.Emit(seqLine(t, s))
		}
	}
	// overlapping tails: required / optional / repeated tails that overlap, x sequences of argument counts
	tails := []*table{
		{ds: []*disp{{ops: []bop{{kind: "req", t: tInt}}}, {ops: []bop{{kind: "req", t: tInt}, {kind: "opt", t: tInt}}}, {ops: []bop{{kind: "rep", t: tInt}}}}},
		{ds: []*disp{{ops: []bop{{kind: "req", t: tInt}, {kind: "req", t: tInt}}}, {ops: []bop{{kind: "reqrep", t: tInt}}}, {ops: []bop{{kind: "rep", t: tAny}}}}},
		{ds: []*disp{{ops: []bop{{kind: "opt", t: tInt05}}}, {ops: []bop{{kind: "opt", t: tInt}, {kind: "opt", t: tStr}}}, {ops: []bop{{kind: "rep", t: tVarIS}}}}},
		{ds: []*disp{{fn2: true, ops: []bop{{kind: "req", t: tInt}, {kind: "blk", bt: &btype{min: i64(1), max: i64(1)}}}}, {ops: []bop{{kind: "req", t: tInt}}}, {fn2: true, ops: []bop{{kind: "rep", t: tAny}, {kind: "optblk", bt: &btype{any: true}}}}}},
	}
	counts := [][]sx.Sexp{{}, {iv(1)}, {iv(1), iv(2)}, {iv(1), iv(2), iv(3)}, {sv("a")}, {iv(1), sv("a")}}
	for _, t := range tails {
		for i := 0; i < 150; i++ {
			n := 2 + r.Intn(4)
			var s [][2]sx.Sexp
			for j := 0; j < n; j++ {
				b := nb
				if r.Intn(4) == 0 {
					b = sx.T("b", sx.Int(1), sx.Int(1))
				}
				s = append(s, [2]sx.Sexp{argsOf(counts[r.Intn(len(counts))]...), b})
			}
			g.Emit(seqLine(t, s))
		}
	}
	// random chains: dispatch i takes the i-th (or a later) type of an inclusion chain, possibly behind a common first
	// parameter and with an optional tail; the calls use, per step, the value only that step (and the wider ones) accepts,
	// in an order that visits later dispatches before narrower arguments, with repeats
	for i := 0; i < 1500*g.Scale; i++ {
		ch := chains[r.Intn(len(chains))]
		n := 2 + r.Intn(3)
		if n > len(ch) {
			n = len(ch)
		}
		start := r.Intn(len(ch) - n + 1)
		steps := ch[start : start+n]
		prefix := r.Intn(3) == 0
		t := &table{env: map[string]*ty{}}
		for j, st := range steps {
			d := &disp{}
			if prefix {
				d.ops = append(d.ops, bop{kind: "req", t: tStr})
			}
			d.ops = append(d.ops, bop{kind: "req", t: st.t})
			if r.Intn(4) == 0 {
				d.ops = append(d.ops, bop{kind: []string{"opt", "rep"}[r.Intn(2)], t: tAny})
			}
			if j == n-1 && r.Intn(3) == 0 {
				d.ops = []bop{{kind: "rep", t: tAny}} // Any last
			}
			t.ds = append(t.ds, d)
		}
		if r.Intn(6) == 0 { // a wider dispatch first hides the narrower ones
			t.ds[0], t.ds[n-1] = t.ds[n-1], t.ds[0]
		}
		mk := func(v sx.Sexp) [2]sx.Sexp {
			if prefix {
				return [2]sx.Sexp{argsOf(sv("p"), v), nb}
			}
			return [2]sx.Sexp{argsOf(v), nb}
		}
		var s [][2]sx.Sexp
		m := 3 + r.Intn(4)
		for k := 0; k < m; k++ {
			var j int
			switch {
			case k == 0:
				j = 1 + r.Intn(n-1) // start at a later dispatch
			case r.Intn(3) == 0 && len(s) > 0:
				s = append(s, s[r.Intn(len(s))]) // the same arguments once more
				continue
			default:
				j = r.Intn(n)
			}
			s = append(s, mk(steps[j].only))
		}
		if r.Intn(5) == 0 {
			s = append(s, mk(randValue(r, 1)))
		}
		g.Emit(seqLine(t, s))
	}
	// random tables (related dispatches overlap) x sequences of witness-derived argument lists, with repeats
	for i := 0; i < 1000*g.Scale; i++ {
		t := randTable(r)
		m := 2 + r.Intn(4)
		var s [][2]sx.Sexp
		for k := 0; k < m; k++ {
			if k > 0 && r.Intn(3) == 0 {
				s = append(s, s[r.Intn(len(s))])
				continue
			}
			a, b := t.randArgs(r)
			s = append(s, [2]sx.Sexp{argsOf(a...), b})
		}
		g.Emit(seqLine(t, s))
	}
}

var _ = rand.Intn
