package c16

import (
	"fmt"
	"math"
	"strings"

	"verif/harness/core"
	"verif/harness/sx"
)

// ---- newm: the Timespan constructor (user-supplied formats are NOT modelled and never emitted here) ----------------------

func tsv(ns int64) sx.Sexp { return sx.T("ts", sx.Int(ns)) }

var tspStrs = []string{"0-00:00:05", "1-02:03:04.5", "1-02:03:04", "1-02:03", "02:03:04.5", "02:03:04", "03:04.5", "04.5", "4", "-4", "-0", "0", "00", "-1-02:03:04.000000001",
	"1-2:3:4.123456789", "1-2:3:4.1234567890", "1-002:03:04", "1-02:003:04", "1-02:03:004", "100:59:59", "100:100:59", "100:59:100", "1:2", "1-2", "1.2.3", "abc", "-", "--4", "+4", "5-", "5:", ":5", ".5", "5.",
	"0.000000001", "0.0000000001", "00.5", "0.05", "0.50", "99999999999999999999", "9223372036", "9223372037", "-9223372036", "-9223372037", "18446744073", "18446744074",
	"106751-23:47:16.854775807", "106751-23:47:16.854775808", "-106751-23:47:16.854775808", "999999999999-00:00", "9223372036854775807", "9223372036854775808", "1 - 2:3", " 4", "4 ", "4\n", "٣", "1:2:3:4",
	"1-2:3:4:5", "12345.123", "1-2.5", "1:2.5", "1:2:3.5", "1-2:3.5", "99:99", "99:99.999999999", "1-99:99:99", "0-0:0:0.0", "00:00:00", "7-00:00", "1e3", "0x10"}

func genNewMTsp(g *core.G, emit func(recv sx.Sexp, args []sx.Sexp)) {
	r := g.Rng
	tT := (&ty{tag: "tsp"}).sexp()
	tT010 := (&ty{tag: "tsp", lo: i64(0), hi: i64(10)}).sexp()
	tTneg := (&ty{tag: "tsp", lo: nil, hi: i64(0)}).sexp()
	recvs := []sx.Sexp{tT, tT010, tTneg, sx.T("init", tT)}
	str := sv("string")
	// small universe: every probe string alone and as {string => s}, on every receiver
	for _, rc := range recvs {
		emit(rc, nil)
		for _, s := range tspStrs {
			emit(rc, []sx.Sexp{sv(s)})
			emit(rc, []sx.Sexp{hmap(str, sv(s))})
		}
	}
	emit(tT, []sx.Sexp{sv("")})
	emit(tT, []sx.Sexp{hmap(str, sv(""))})
	emit(tT, []sx.Sexp{hmap(str, iv(4))})
	emit(tT, []sx.Sexp{hmap(str, sv("4"), sv("x"), iv(1))})
	// seconds as Integer / Float
	secs := []sx.Sexp{iv(0), iv(1), iv(-1), iv(10), iv(11), iv(9223372036), iv(9223372037), iv(-9223372036), iv(-9223372037), iv(math.MaxInt64), iv(math.MinInt64), iv(1 << 62),
		fv(1.5), fv(-1.5), fv(0.1), fv(1e-9), fv(1e-10), fv(2.5e-9), fv(9223372036.854775), fv(9223372036.854776), fv(-9223372036.854776), fv(1e10), fv(-1e10), fv(1e300), fv(math.NaN()), fv(math.Inf(1)), fv(math.Inf(-1)),
		fv(math.Copysign(0, -1)), fv(123456.789), fv(0.30000000000000004), fv(5e-324), fv(10), fv(10.000000001)}
	for _, rc := range recvs {
		for _, s := range secs {
			emit(rc, []sx.Sexp{s})
		}
	}
	// positional fields: 3..8 of them, with extremes and a non-integer
	fields := [][]int64{{1, 2, 3, 4}, {1, 2, 3, 4, 5}, {1, 2, 3, 4, 5, 6}, {1, 2, 3, 4, 5, 6, 7}, {1, 2, 3}, {0, 0, 0, 0}, {-1, 0, 0, 0}, {0, 0, 0, 10}, {0, 0, 0, 11}, {0, 0, 0, 0, 0, 0, -1},
		{106751, 23, 47, 16, 854, 775, 807}, {106751, 23, 47, 16, 854, 775, 808}, {-106751, -23, -47, -16, -854, -775, -808}, {1 << 62, 0, 0, 0}, {1, 2, 3, 4, 5, 6, 7, 8}, {0, 25, 61, 61, 1001, 1001, 1001}, {math.MaxInt64, math.MaxInt64, math.MaxInt64, math.MaxInt64}}
	for _, rc := range recvs {
		for _, f := range fields {
			xs := make([]sx.Sexp, len(f))
			for i, v := range f {
				xs[i] = iv(v)
			}
			emit(rc, xs)
		}
	}
	emit(tT, []sx.Sexp{iv(1), iv(2), iv(3), sv("4")})
	emit(tT, []sx.Sexp{iv(1), iv(2), iv(3), fv(4)})
	emit(tT, []sx.Sexp{iv(1), iv(2), iv(3), iv(4), sx.T("u")})
	// named fields: every subset of {negative, days, seconds, nanoseconds} with small values, every key alone with an extreme
	// and with an ill-typed value, an unknown key
	keys := []string{"negative", "days", "hours", "minutes", "seconds", "milliseconds", "microseconds", "nanoseconds"}
	some := []int{0, 1, 4, 7}
	for mask := 0; mask < 16; mask++ {
		var kv []sx.Sexp
		for b, k := range some {
			if mask&(1<<uint(b)) != 0 {
				if k == 0 {
					kv = append(kv, sv(keys[k]), bv(true))
				} else {
					kv = append(kv, sv(keys[k]), iv(int64(k)))
				}
			}
		}
		for _, rc := range recvs {
			emit(rc, []sx.Sexp{hmap(kv...)})
		}
	}
	for _, k := range keys[1:] {
		emit(tT, []sx.Sexp{hmap(sv(k), iv(math.MaxInt64))})
		emit(tT, []sx.Sexp{hmap(sv(k), iv(math.MinInt64), sv("negative"), bv(true))})
		emit(tT, []sx.Sexp{hmap(sv(k), sv("1"))})
		emit(tT, []sx.Sexp{hmap(sv(k), fv(1))})
		emit(tT, []sx.Sexp{hmap(sv(k), iv(3), sv("weeks"), iv(1))})
	}
	emit(tT, []sx.Sexp{hmap(sv("negative"), iv(1))})
	emit(tT, []sx.Sexp{hmap(sv("negative"), bv(false), sv("days"), iv(1), sv("hours"), iv(2), sv("minutes"), iv(3), sv("seconds"), iv(4), sv("milliseconds"), iv(5), sv("microseconds"), iv(6), sv("nanoseconds"), iv(7))})
	// a Timespan as an argument: of Timespan.new (refused), as `from` of Integer / Float / Numeric (seconds), elsewhere
	spans := []int64{0, 1, -1, 1500000000, -1500000000, 999999999, -999999999, 2500000000, math.MaxInt64, math.MinInt64, 123456789012, 9007199254740993, 5000000000, 10000000000}
	others := []sx.Sexp{tInt.sexp(), tInt05.sexp(), tFlt.sexp(), tFlt12.sexp(), tNum.sexp(), tBool.sexp(), (&ty{tag: "arr", kids: []*ty{tAny}}).sexp(), sx.T("init", tNum.sexp()), (&ty{tag: "bin"}).sexp()}
	for _, n := range spans {
		emit(tT, []sx.Sexp{tsv(n)})
		for _, rc := range others {
			emit(rc, []sx.Sexp{tsv(n)})
			emit(rc, []sx.Sexp{tsv(n), bv(true)})
			emit(rc, []sx.Sexp{hmap(sv("from"), tsv(n))})
			emit(rc, []sx.Sexp{hmap(sv("from"), tsv(n), sv("abs"), bv(true))})
		}
		g.Emit("coerce " + tInt.sexp().String() + " " + tsv(n).String())
		g.Emit("coerce " + tArr(tFlt).sexp().String() + " " + av(tsv(n), iv(1)).String())
		g.Emit("coerce " + tT010.String() + " " + tsv(n).String())
	}
	for _, s := range tspStrs[:16] {
		g.Emit("coerce " + tT.String() + " " + sv(s).String())
		g.Emit("coerce " + tArr(&ty{tag: "tsp"}).sexp().String() + " " + av(sv(s), iv(2), fv(0.5), tsv(7)).String())
	}
	// random: a duration rendered in one of the default formats (digits sometimes widened or dropped), one-point damage
	seps := [][]string{{"-", ":", ":", "."}, {":", ":", "."}, {":", "."}, {"."}, {"-", ":", ":"}, {":", ":"}, {"-", ":"}, {}}
	for i := 0; i < 2500*g.Scale; i++ {
		sp := seps[r.Intn(len(seps))]
		var sb strings.Builder
		if r.Intn(4) == 0 {
			sb.WriteByte('-')
		}
		switch r.Intn(6) {
		case 0:
			fmt.Fprintf(&sb, "%d", r.Int63n(1e12))
		case 1:
			fmt.Fprintf(&sb, "%d", 106000+r.Intn(2000))
		default:
			fmt.Fprintf(&sb, "%d", r.Intn(120))
		}
		for _, sep := range sp {
			sb.WriteString(sep)
			switch {
			case sep == ".":
				w := 1 + r.Intn(9)
				if r.Intn(12) == 0 {
					w = 10 + r.Intn(2)
				}
				for k := 0; k < w; k++ {
					sb.WriteByte(byte('0' + r.Intn(10)))
				}
			case r.Intn(15) == 0:
				fmt.Fprintf(&sb, "%03d", r.Intn(1000))
			case r.Intn(3) == 0:
				fmt.Fprintf(&sb, "%d", r.Intn(100))
			default:
				fmt.Fprintf(&sb, "%02d", r.Intn(100))
			}
		}
		s := sb.String()
		if r.Intn(5) == 0 && len(s) > 0 {
			cs := []byte(s)
			k := r.Intn(len(cs))
			switch r.Intn(4) {
			case 0:
				cs[k] = "-:. x9"[r.Intn(6)]
			case 1:
				cs = append(cs[:k:k], cs[k+1:]...)
			case 2:
				cs = append(cs[:k:k], append([]byte{"-:.0 "[r.Intn(5)]}, cs[k:]...)...)
			default:
				cs = append(cs, ":.-5"[r.Intn(4)])
			}
			s = string(cs)
		}
		rc := recvs[r.Intn(len(recvs))]
		switch r.Intn(5) {
		case 0:
			emit(rc, []sx.Sexp{hmap(str, sv(s))})
		case 1:
			n := 3 + r.Intn(6)
			xs := make([]sx.Sexp, n)
			for j := range xs {
				xs[j] = iv(int64(r.Intn(2000)) - 100)
				if r.Intn(30) == 0 {
					xs[j] = []sx.Sexp{iv(math.MaxInt64), iv(math.MinInt64), sv("1"), fv(1), sx.T("u")}[r.Intn(5)]
				}
			}
			emit(rc, xs)
		case 2:
			var kv []sx.Sexp
			for _, k := range keys {
				if r.Intn(3) == 0 {
					if k == "negative" {
						kv = append(kv, sv(k), bv(r.Intn(2) == 0))
					} else {
						kv = append(kv, sv(k), iv(int64(r.Intn(2000))-100))
					}
				}
			}
			if r.Intn(15) == 0 {
				kv = append(kv, sv([]string{"weeks", "string", "Days", ""}[r.Intn(4)]), iv(1))
			}
			emit(rc, []sx.Sexp{hmap(kv...)})
		default:
			emit(rc, []sx.Sexp{sv(s)})
		}
	}
}
