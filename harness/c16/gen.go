package c16

import (
	"fmt"
	"math"
	"math/rand"
	"strconv"
	"strings"

	"verif/harness/core"
	"verif/harness/sx"
)

// ---- type alphabet ------------------------------------------------------------------------------------------

func i64(n int64) *int64 { return &n }

var (
	tInt    = &ty{tag: "int"}
	tInt05  = &ty{tag: "int", lo: i64(0), hi: i64(5)}
	tIntPos = &ty{tag: "int", lo: i64(1), hi: nil}
	tStr    = &ty{tag: "str"}
	tStr2   = &ty{tag: "str", lo: i64(2), hi: nil}
	tStr13  = &ty{tag: "str", lo: i64(1), hi: i64(3)}
	tEnum   = &ty{tag: "enum", strs: []string{"a", "b"}}
	tArrInt = &ty{tag: "arr", kids: []*ty{tInt}}
	tArrStr = &ty{tag: "arr", kids: []*ty{tStr2}}
	tVarIS  = &ty{tag: "var", kids: []*ty{tInt, tStr}}
	tOptStr = &ty{tag: "opt", kids: []*ty{tStr}}
	tOptI05 = &ty{tag: "opt", kids: []*ty{tInt05}}
	tAny    = &ty{tag: "any"}
	tUndef  = &ty{tag: "undef"}
	tBool   = &ty{tag: "bool"}
)

var baseTypes = []*ty{tInt, tInt05, tIntPos, tStr, tStr2, tStr13, tEnum, tArrInt, tArrStr, tVarIS, tOptStr, tOptI05, tAny, tUndef, tBool,
	tInt, tStr, tInt05, tStr2, tEnum, tArrInt, tVarIS, tOptStr, tAny} // the alphabet named in the plan is drawn twice as often

func (t *ty) sexp() sx.Sexp {
	bs := func(b *int64) sx.Sexp {
		if b == nil {
			return sx.A("d")
		}
		return sx.Int(*b)
	}
	switch t.tag {
	case "int", "str", "tsp":
		if t.lo == nil && t.hi == nil {
			return sx.A(t.tag)
		}
		return sx.T(t.tag, bs(t.lo), bs(t.hi))
	case "flt":
		if t.lo == nil && t.hi == nil {
			return sx.A("flt")
		}
		fb := func(b *int64) sx.Sexp {
			if b == nil {
				return sx.A("d")
			}
			return sx.A(strconv.FormatUint(uint64(*b), 10))
		}
		return sx.T("flt", fb(t.lo), fb(t.hi))
	case "enum":
		xs := make([]sx.Sexp, len(t.strs))
		for i, s := range t.strs {
			xs[i] = sx.Str(s)
		}
		return sx.T("enum", xs...)
	case "arr", "opt", "var", "nu":
		if t.tag == "arr" && t.lo != nil {
			return sx.T("arrn", t.kids[0].sexp(), bs(t.lo), bs(t.hi))
		}
		xs := make([]sx.Sexp, len(t.kids))
		for i, k := range t.kids {
			xs[i] = k.sexp()
		}
		return sx.T(t.tag, xs...)
	case "al":
		return sx.T("al", sx.A(t.name))
	case "tuple":
		xs := make([]sx.Sexp, len(t.kids))
		for i, k := range t.kids {
			xs[i] = k.sexp()
		}
		return sx.T("tuple", xs...)
	case "hash":
		return sx.T("hash", t.kids[0].sexp(), t.kids[1].sexp(), bs(t.lo), bs(t.hi))
	case "struct":
		xs := make([]sx.Sexp, len(t.kids))
		for i, k := range t.kids {
			o := "req"
			if t.opts[i] {
				o = "opt"
			}
			xs[i] = sx.L(sx.Str(t.strs[i]), sx.A(o), k.sexp())
		}
		return sx.T("struct", xs...)
	}
	return sx.A(t.tag)
}

var genStrs = []string{"", "a", "b", "ab", "abc", "A", "é", "éé", "hello", "c"}
var genInts = []int64{0, 1, 5, 6, -1, 3, 42, math.MaxInt64, math.MinInt64}

func atom(r *rand.Rand) sx.Sexp {
	switch r.Intn(8) {
	case 0, 1, 2:
		return sx.T("i", sx.Int(genInts[r.Intn(len(genInts))]))
	case 3, 4, 5:
		return sx.T("s", sx.Str(genStrs[r.Intn(len(genStrs))]))
	case 6:
		return sx.T("u")
	default:
		return sx.T("b", sx.Bool(r.Intn(2) == 0))
	}
}

func randValue(r *rand.Rand, depth int) sx.Sexp {
	if depth <= 0 || r.Intn(4) != 0 {
		return atom(r)
	}
	n := r.Intn(3)
	xs := make([]sx.Sexp, n)
	for i := range xs {
		xs[i] = randValue(r, depth-1)
	}
	return sx.T("a", xs...)
}

// witness: a value generated *from* the type (an instance, by construction of the alphabet)
func witness(r *rand.Rand, t *ty, env map[string]*ty, depth int) sx.Sexp {
	switch t.tag {
	case "int":
		lo, hi := int64(-3), int64(9)
		if t.lo != nil {
			lo = *t.lo
		}
		if t.hi != nil {
			hi = *t.hi
		} else if t.lo != nil {
			hi = lo + 9
		}
		if t.lo == nil && t.hi != nil {
			lo = hi - 9
		}
		if t.lo == nil && t.hi == nil && r.Intn(10) == 0 {
			return sx.T("i", sx.Int(genInts[r.Intn(len(genInts))]))
		}
		return sx.T("i", sx.Int(lo+r.Int63n(hi-lo+1)))
	case "str":
		lo, hi := 0, 5
		if t.lo != nil {
			lo = int(*t.lo)
		}
		if t.hi != nil {
			hi = int(*t.hi)
		} else if hi < lo {
			hi = lo + 2
		}
		n := lo + r.Intn(hi-lo+1)
		var sb strings.Builder
		for i := 0; i < n; i++ {
			sb.WriteString([]string{"a", "b", "é", "Z", "0"}[r.Intn(5)])
		}
		return sx.T("s", sx.Str(sb.String()))
	case "enum":
		if len(t.strs) == 0 {
			return sx.T("s", sx.Str("a"))
		}
		return sx.T("s", sx.Str(t.strs[r.Intn(len(t.strs))]))
	case "arr":
		n := r.Intn(3)
		xs := make([]sx.Sexp, n)
		for i := range xs {
			xs[i] = witness(r, t.kids[0], env, depth+1)
		}
		return sx.T("a", xs...)
	case "opt":
		if r.Intn(3) == 0 {
			return sx.T("u")
		}
		return witness(r, t.kids[0], env, depth+1)
	case "var":
		if len(t.kids) == 0 {
			return atom(r)
		}
		return witness(r, t.kids[r.Intn(len(t.kids))], env, depth+1)
	case "undef":
		return sx.T("u")
	case "bool":
		return sx.T("b", sx.Bool(r.Intn(2) == 0))
	case "al":
		if d, ok := env[t.name]; ok && depth < 8 {
			return witness(r, d, env, depth+1)
		}
	}
	return randValue(r, 1)
}

// ---- tables -------------------------------------------------------------------------------------------------

type table struct {
	aliases []struct {
		name string
		t    *ty
	}
	env map[string]*ty
	ds  []*disp
}

func (t *table) ltSexp() sx.Sexp {
	xs := []sx.Sexp{}
	for _, a := range t.aliases {
		xs = append(xs, sx.L(sx.A(a.name), a.t.sexp()))
	}
	return sx.T("lt", xs...)
}

func (d *disp) sexp() sx.Sexp {
	fn := "fn"
	if d.fn2 {
		fn = "fn2"
	}
	xs := []sx.Sexp{sx.A(fn)}
	for _, o := range d.ops {
		if o.bt != nil {
			xs = append(xs, sx.T(o.kind, o.bt.sexp()))
		} else {
			xs = append(xs, sx.T(o.kind, o.t.sexp()))
		}
	}
	return sx.T("d", xs...)
}

func (b *btype) sexp() sx.Sexp {
	if b.any {
		return sx.A("call")
	}
	mx := sx.A("d")
	if b.max != nil {
		mx = sx.Int(*b.max)
	}
	if b.types != nil {
		ps := make([]sx.Sexp, len(b.types))
		for i, p := range b.types {
			ps[i] = sx.A(p)
		}
		return sx.T("ct", sx.L(ps...), sx.Int(*b.min), mx)
	}
	return sx.T("c", sx.Int(*b.min), mx)
}

func (t *table) dsSexp() sx.Sexp {
	xs := make([]sx.Sexp, len(t.ds))
	for i, d := range t.ds {
		xs[i] = d.sexp()
	}
	return sx.T("ds", xs...)
}

func randBT(r *rand.Rand) *btype {
	switch r.Intn(6) {
	case 0:
		return &btype{any: true}
	case 1:
		return &btype{min: i64(0), max: i64(0)}
	case 2:
		return &btype{min: i64(0), max: i64(2)}
	case 3:
		return &btype{min: i64(1), max: nil}
	case 4:
		return &btype{min: i64(2), max: i64(2)}
	}
	return &btype{min: i64(1), max: i64(1)}
}

func randBlock(r *rand.Rand) sx.Sexp {
	switch r.Intn(7) {
	case 0:
		return sx.T("b", sx.Int(0), sx.Int(0))
	case 1:
		return sx.T("b", sx.Int(2), sx.Int(2))
	case 2:
		return sx.T("b", sx.Int(1), sx.Int(2))
	case 3:
		return sx.T("b", sx.Int(0), sx.A("d"))
	case 4:
		return sx.T("b", sx.Int(1), sx.A("d"))
	}
	return sx.T("b", sx.Int(1), sx.Int(1))
}

func (t *table) pickType(r *rand.Rand) *ty {
	if len(t.aliases) > 0 && r.Intn(4) == 0 {
		return &ty{tag: "al", name: t.aliases[r.Intn(len(t.aliases))].name}
	}
	return baseTypes[r.Intn(len(baseTypes))]
}

// randDispatch: mostly well-formed (req* opt* (rep|reqrep)?), sometimes a shape the builder must reject or a
// quirky order of builder calls
func (t *table) randDispatch(r *rand.Rand, related *disp) *disp {
	d := &disp{}
	if related != nil && r.Intn(3) == 0 {
		// a one-point mutation of an earlier dispatch of the same table: overlapping declarations make the
		// order of dispatches observable
		d.fn2 = related.fn2
		d.ops = append([]bop{}, related.ops...)
		if len(d.ops) > 0 {
			k := r.Intn(len(d.ops))
			switch r.Intn(6) {
			case 0, 1, 2:
				if d.ops[k].t != nil {
					d.ops[k] = bop{kind: d.ops[k].kind, t: t.pickType(r)}
				}
			case 3, 4:
				d.ops = append(d.ops[:k:k], d.ops[k+1:]...)
			default:
				if d.ops[k].t != nil && d.ops[k].kind != "ret" {
					d.ops[k] = bop{kind: []string{"req", "opt", "rep", "reqrep"}[r.Intn(4)], t: d.ops[k].t}
				}
			}
		}
		hasBlk := false
		for _, o := range d.ops {
			if o.bt != nil {
				hasBlk = true
			}
		}
		if d.fn2 && !hasBlk && r.Intn(8) != 0 {
			d.fn2 = false
		}
		return d
	}
	nreq, nopt := r.Intn(3), r.Intn(3)
	if r.Intn(3) == 0 {
		nopt = 0
	}
	for i := 0; i < nreq; i++ {
		d.ops = append(d.ops, bop{kind: "req", t: t.pickType(r)})
	}
	for i := 0; i < nopt; i++ {
		d.ops = append(d.ops, bop{kind: "opt", t: t.pickType(r)})
	}
	switch r.Intn(6) {
	case 0:
		d.ops = append(d.ops, bop{kind: "rep", t: t.pickType(r)})
	case 1:
		d.ops = append(d.ops, bop{kind: "reqrep", t: t.pickType(r)})
	}
	if r.Intn(25) == 0 && len(d.ops) > 0 {
		// ill-formed on purpose: shuffle the parameter calls
		r.Shuffle(len(d.ops), func(i, j int) { d.ops[i], d.ops[j] = d.ops[j], d.ops[i] })
	}
	if r.Intn(15) == 0 {
		d.ops = append(d.ops, bop{kind: "ret", t: t.pickType(r)})
	}
	if r.Intn(3) == 0 {
		kind := "blk"
		if r.Intn(2) == 0 {
			kind = "optblk"
		}
		o := bop{kind: kind, bt: randBT(r)}
		k := len(d.ops)
		if r.Intn(4) == 0 {
			k = r.Intn(len(d.ops) + 1) // the block call may come anywhere among the builder calls
		}
		d.ops = append(d.ops[:k:k], append([]bop{o}, d.ops[k:]...)...)
		d.fn2 = r.Intn(30) != 0
		if r.Intn(40) == 0 {
			d.ops = append(d.ops, bop{kind: []string{"blk", "optblk"}[r.Intn(2)], bt: randBT(r)})
		}
	} else {
		d.fn2 = r.Intn(60) == 0
	}
	if r.Intn(30) == 0 {
		d.ops = append(d.ops, bop{kind: "ret", t: t.pickType(r)})
	}
	return d
}

func randTable(r *rand.Rand) *table {
	t := &table{env: map[string]*ty{}}
	if r.Intn(3) == 0 {
		names := []string{"A", "B", "Local"}
		n := 1 + r.Intn(2)
		for i := 0; i < n; i++ {
			var d *ty
			if i > 0 && r.Intn(2) == 0 {
				// an alias over an earlier alias
				inner := &ty{tag: "al", name: names[i-1]}
				switch r.Intn(3) {
				case 0:
					d = &ty{tag: "arr", kids: []*ty{inner}}
				case 1:
					d = &ty{tag: "opt", kids: []*ty{inner}}
				default:
					d = &ty{tag: "var", kids: []*ty{inner, tUndef}}
				}
			} else {
				d = baseTypes[r.Intn(len(baseTypes))]
			}
			t.aliases = append(t.aliases, struct {
				name string
				t    *ty
			}{names[i], d})
			t.env[names[i]] = d
		}
	}
	n := 1 + r.Intn(4)
	for i := 0; i < n; i++ {
		var rel *disp
		if i > 0 {
			rel = t.ds[r.Intn(i)]
		}
		t.ds = append(t.ds, t.randDispatch(r, rel))
	}
	return t
}

// randArgs: witnesses of one dispatch's declaration (arity chosen inside or just outside its range), then a
// one-point mutation with probability 1/2
func (t *table) randArgs(r *rand.Rand) ([]sx.Sexp, sx.Sexp) {
	d := t.ds[r.Intn(len(t.ds))]
	dc := d.decl()
	var args []sx.Sexp
	blk := sx.A("nb")
	k := len(dc.params)
	if k == 0 {
		if r.Intn(4) == 0 {
			args = append(args, randValue(r, 1))
		}
	} else {
		min, unbounded := 0, false
		for i, p := range dc.params {
			if p.kind == "req" || p.kind == "reqrep" {
				min = i + 1
			}
			if p.kind == "rep" || p.kind == "reqrep" {
				unbounded = true
			}
		}
		max := k
		if unbounded {
			max = k + 2
		}
		n := min + r.Intn(max-min+1)
		switch r.Intn(10) {
		case 0:
			n = min - 1
		case 1:
			n = max + 1
		}
		if n < 0 {
			n = 0
		}
		if n > 5 {
			n = 5
		}
		for j := 0; j < n; j++ {
			pj := j
			if pj > k-1 {
				pj = k - 1
			}
			args = append(args, witness(r, dc.params[pj].t, t.env, 0))
		}
	}
	switch dc.block {
	case "required":
		if r.Intn(6) != 0 {
			blk = fitBlock(r, dc.bt)
		}
	case "optional":
		if r.Intn(2) == 0 {
			blk = fitBlock(r, dc.bt)
		}
	default:
		if r.Intn(12) == 0 {
			blk = randBlock(r)
		}
	}
	if r.Intn(2) == 0 {
		switch r.Intn(5) {
		case 0:
			if len(args) > 0 {
				args[r.Intn(len(args))] = randValue(r, 1)
			}
		case 1:
			if len(args) > 0 {
				k := r.Intn(len(args))
				args = append(args[:k:k], args[k+1:]...)
			}
		case 2:
			if len(args) < 5 {
				k := r.Intn(len(args) + 1)
				args = append(args[:k:k], append([]sx.Sexp{randValue(r, 1)}, args[k:]...)...)
			}
		case 3:
			if len(args) > 1 {
				i, j := r.Intn(len(args)), r.Intn(len(args))
				args[i], args[j] = args[j], args[i]
			}
		default:
			if blk.IsList {
				if r.Intn(2) == 0 {
					blk = sx.A("nb")
				} else {
					blk = randBlock(r)
				}
			} else {
				blk = randBlock(r)
			}
		}
	}
	return args, blk
}

// fitBlock: a block that can be called with every argument count the declared block type allows
func fitBlock(r *rand.Rand, bt *btype) sx.Sexp {
	if bt.any || r.Intn(5) == 0 {
		return randBlock(r)
	}
	lo := r.Int63n(*bt.min + 1)
	if r.Intn(2) == 0 {
		lo = *bt.min
	}
	if bt.max == nil || r.Intn(4) == 0 {
		return sx.T("b", sx.Int(lo), sx.A("d"))
	}
	return sx.T("b", sx.Int(lo), sx.Int(*bt.max+r.Int63n(2)))
}

func callLine(t *table, args []sx.Sexp, blk sx.Sexp) string {
	return "call " + t.ltSexp().String() + " " + t.dsSexp().String() + " " + sx.T("args", args...).String() + " " + blk.String()
}

// ---- the exhaustive small universe ---------------------------------------------------------------------------

func genSmall(g *core.G) {
	kinds := []string{"req", "opt", "rep", "reqrep"}
	maxLen, maxArgs := 3, 4
	if g.Thorough() {
		maxArgs = 5
	}
	tys := []*ty{tInt, tStr, tInt05}
	atoms := []sx.Sexp{sx.T("i", sx.Int(1)), sx.T("s", sx.Str("a"))}
	var argLists [][]sx.Sexp
	var rec func(cur []sx.Sexp)
	rec = func(cur []sx.Sexp) {
		argLists = append(argLists, append([]sx.Sexp{}, cur...))
		if len(cur) == maxArgs {
			return
		}
		for _, a := range atoms {
			rec(append(cur, a))
		}
	}
	rec(nil)
	// every sequence of ≤ 3 parameter calls (parameter i has type Integer, String, Integer[0,5]) × every argument
	// list of length ≤ 4 over {1, 'a'}, without block and with a block
	var seqs [][]string
	var recs func(cur []string)
	recs = func(cur []string) {
		seqs = append(seqs, append([]string{}, cur...))
		if len(cur) == maxLen {
			return
		}
		for _, k := range kinds {
			recs(append(cur, k))
		}
	}
	recs(nil)
	for _, s := range seqs {
		d := &disp{}
		for i, k := range s {
			d.ops = append(d.ops, bop{kind: k, t: tys[i]})
		}
		t := &table{ds: []*disp{d}}
		for _, al := range argLists {
			g.Emit(callLine(t, al, sx.A("nb")))
		}
	}
	// two dispatches, each ≤ 2 parameters, well-formed shapes only; argument lists ≤ 3
	var wf [][]string
	for _, s := range seqs {
		if len(s) <= 2 && wellFormed(s) {
			wf = append(wf, s)
		}
	}
	for _, s1 := range wf {
		for _, s2 := range wf {
			d1, d2 := &disp{}, &disp{}
			for i, k := range s1 {
				d1.ops = append(d1.ops, bop{kind: k, t: tys[i]})
			}
			for i, k := range s2 {
				d2.ops = append(d2.ops, bop{kind: k, t: []*ty{tVarIS, tInt}[i]})
			}
			t := &table{ds: []*disp{d1, d2}}
			for _, al := range argLists {
				if len(al) <= 3 {
					g.Emit(callLine(t, al, sx.A("nb")))
				}
			}
		}
	}
	// block requirement × block given: every declared block form × fn/fn2 × {nb, b00, b11, b12, b22, b1d}
	blocks := []sx.Sexp{sx.A("nb"), sx.T("b", sx.Int(0), sx.Int(0)), sx.T("b", sx.Int(1), sx.Int(1)), sx.T("b", sx.Int(1), sx.Int(2)),
		sx.T("b", sx.Int(2), sx.Int(2)), sx.T("b", sx.Int(1), sx.A("d")), sx.T("b", sx.Int(0), sx.A("d"))}
	bts := []*btype{{any: true}, {min: i64(0), max: i64(0)}, {min: i64(1), max: i64(1)}, {min: i64(0), max: i64(2)}, {min: i64(1), max: nil}}
	for _, fn2 := range []bool{false, true} {
		for _, kind := range []string{"", "blk", "optblk"} {
			for _, bt := range bts {
				if kind == "" && bt != bts[0] {
					continue
				}
				for _, withParam := range []bool{false, true} {
					d := &disp{fn2: fn2}
					if withParam {
						d.ops = append(d.ops, bop{kind: "req", t: tInt})
					}
					if kind != "" {
						d.ops = append(d.ops, bop{kind: kind, bt: bt})
					}
					// a second dispatch without a block so that a rejected block falls through
					t := &table{ds: []*disp{d, {ops: []bop{{kind: "rep", t: tAny}}}}}
					for _, b := range blocks {
						g.Emit(callLine(t, nil, b))
						g.Emit(callLine(t, []sx.Sexp{atoms[0]}, b))
					}
				}
			}
		}
	}
}

func wellFormed(s []string) bool {
	phase := 0 // 0 req, 1 opt, 2 after repeated
	for _, k := range s {
		switch k {
		case "req":
			if phase != 0 {
				return false
			}
		case "opt":
			if phase == 2 {
				return false
			}
			phase = 1
		case "rep":
			if phase == 2 {
				return false
			}
			phase = 2
		case "reqrep":
			if phase != 0 {
				return false
			}
			phase = 2
		}
	}
	return true
}

func gen(g *core.G) {
	genSmall(g)
	r := g.Rng
	// random tables × 10 calls each
	for i := 0; i < 2000*g.Scale; i++ {
		t := randTable(r)
		for j := 0; j < 10; j++ {
			args, blk := t.randArgs(r)
			g.Emit(callLine(t, args, blk))
		}
	}
	// malformed stream: unknown aliases, empty tables, aliases over undeclared names
	for i := 0; i < 100*g.Scale; i++ {
		t := randTable(r)
		switch r.Intn(3) {
		case 0:
			t.ds = nil
		case 1:
			if len(t.ds[0].ops) > 0 && t.ds[0].ops[0].t != nil {
				t.ds[0].ops[0].t = &ty{tag: "al", name: "Nosuch"}
			}
		default:
			// an alias over an undeclared name
			t.aliases = append(t.aliases, struct {
				name string
				t    *ty
			}{"Z", &ty{tag: "arr", kids: []*ty{{tag: "al", name: "Nosuch"}}}})
			t.env["Z"] = t.aliases[len(t.aliases)-1].t
			if len(t.ds[0].ops) > 0 && t.ds[0].ops[0].t != nil {
				t.ds[0].ops[0].t = &ty{tag: "al", name: "Z"}
			}
		}
		args, blk := randTable(r).randArgs(r)
		g.Emit(callLine(t, args, blk))
	}
	genTypedBlocks(g)
	genCalls(g)
	genNewM(g)
	genWrap(g)
	genNewC(g)
	genNew(g)
}

// ---- newm: the modelled constructors ---------------------------------------------------------------------

var newmRecv = []*ty{tInt, tInt05, {tag: "int", lo: i64(10), hi: i64(20)}, tIntPos, tBool,
	{tag: "arr", kids: []*ty{tAny}}, tArrInt, {tag: "arr", kids: []*ty{tInt}, lo: i64(1), hi: nil}, {tag: "arr", kids: []*ty{tStr}, lo: i64(2), hi: i64(3)},
	{tag: "arr", kids: []*ty{tArrInt}, lo: i64(1), hi: i64(1)}, {tag: "arr", kids: []*ty{tStr13}},
	tOptI05, tVarIS, tEnum, tAny, tUndef}

func sv(s string) sx.Sexp      { return sx.T("s", sx.Str(s)) }
func iv(n int64) sx.Sexp       { return sx.T("i", sx.Int(n)) }
func bv(b bool) sx.Sexp        { return sx.T("b", sx.Bool(b)) }
func av(xs ...sx.Sexp) sx.Sexp { return sx.T("a", xs...) }

var numStrs = []string{"0", "7", "-7", "+7", "15", "017", "0x1F", "0X1f", "0b11", "101", "ff", "- 7", "+\t3", " 5", "5 ", "", "-", "1_0", "00", "08", "9223372036854775807",
	"9223372036854775808", "-9223372036854775808", "-9223372036854775809", "12a", "3.5", "1e3", "٣",
	"0xff", "0XFF", "0b101", "0B1", "008", "- 5", "0x", "0b", "0b2", "0xg", "-0xff", "- 0b1", "0x7fffffffffffffff", "-0x8000000000000000", "0xffffffffffffffff", "0x0", "0b0", "00x1"}
var boolStrs = []string{"true", "false", "yes", "no", "y", "n", "TRUE", "No", "N", "maybe", "", "t", "Yes "}

// witness argument lists of the three modelled constructors
func newmWitness(r *rand.Rand) ([]sx.Sexp, string) {
	k := r.Intn(12)
	kind := "any"
	switch {
	case k <= 3 || k == 10:
		kind = "int"
	case k <= 6:
		kind = "bool"
	case k <= 9:
		kind = "arr"
	}
	return newmWitnessOf(r, k), kind
}

func newmWitnessOf(r *rand.Rand, k int) []sx.Sexp {
	radix := []sx.Sexp{iv(2), iv(8), iv(10), iv(16), iv(10), sx.T("d"), sx.T("d"), iv(3), sv("10")}
	switch k {
	case 0, 1, 2:
		a := []sx.Sexp{sv(numStrs[r.Intn(len(numStrs))])}
		if r.Intn(2) == 0 {
			a = append(a, radix[r.Intn(len(radix))])
			if r.Intn(2) == 0 {
				a = append(a, bv(r.Intn(2) == 0))
			}
		}
		return a
	case 3:
		a := []sx.Sexp{iv(genInts[r.Intn(len(genInts))])}
		if r.Intn(2) == 0 {
			a = append(a, radix[r.Intn(len(radix))], bv(r.Intn(3) != 0))
		}
		return a
	case 4:
		return []sx.Sexp{bv(r.Intn(2) == 0)}
	case 5, 6:
		return []sx.Sexp{sv(boolStrs[r.Intn(len(boolStrs))])}
	case 7, 8:
		n := r.Intn(4)
		xs := make([]sx.Sexp, n)
		for i := range xs {
			switch r.Intn(4) {
			case 0:
				xs[i] = sv(genStrs[r.Intn(len(genStrs))])
			case 1:
				xs[i] = av(iv(int64(r.Intn(3))))
			default:
				xs[i] = iv(int64(r.Intn(7)))
			}
		}
		a := []sx.Sexp{av(xs...)}
		if r.Intn(3) == 0 {
			a = append(a, bv(r.Intn(2) == 0))
		}
		return a
	case 9:
		return []sx.Sexp{sv(genStrs[r.Intn(len(genStrs))])}
	case 10:
		// Init[T] expands a single array argument
		return []sx.Sexp{av(sv(numStrs[r.Intn(len(numStrs))]), radix[r.Intn(len(radix))])}
	}
	n := r.Intn(4)
	a := make([]sx.Sexp, n)
	for i := range a {
		if r.Intn(6) == 0 {
			a[i] = sx.T("d")
		} else {
			a[i] = randValue(r, 1)
		}
	}
	return a
}

// Struct / Hash / Tuple receivers of the modelled constructors (member value types without Optional: a plain key with a
// value type that accepts undef is optional in Puppet, which the model does not cover)
func mkStruct(ms ...interface{}) *ty {
	t := &ty{tag: "struct"}
	for i := 0; i+2 < len(ms); i += 3 {
		t.strs = append(t.strs, ms[i].(string))
		t.opts = append(t.opts, ms[i+1].(bool))
		t.kids = append(t.kids, ms[i+2].(*ty))
	}
	return t
}

var newmStructs = []*ty{
	mkStruct("a", false, tInt),
	mkStruct("a", false, tInt, "b", false, tInt),
	mkStruct("a", true, tInt),
	mkStruct("a", false, tInt, "b", true, tStr),
	mkStruct("a", true, tInt, "b", true, tStr),
	mkStruct("a", false, tStr, "b", false, tInt05, "c", true, tInt),
	mkStruct("a", false, tVarIS, "b", true, tBool),
}

var newmHashes = []*ty{
	{tag: "hash", kids: []*ty{tStr, tInt}, lo: i64(0), hi: nil},
	{tag: "hash", kids: []*ty{tStr, tInt}, lo: i64(1), hi: i64(2)},
	{tag: "hash", kids: []*ty{tStr13, tInt}, lo: i64(0), hi: nil},
	{tag: "hash", kids: []*ty{tStr13, tInt}, lo: i64(2), hi: i64(2)},
	{tag: "hash", kids: []*ty{tInt, tStr}, lo: i64(0), hi: i64(3)},
	{tag: "hash", kids: []*ty{tEnum, tInt05}, lo: i64(1), hi: nil},
	{tag: "hash", kids: []*ty{tVarIS, tAny}, lo: i64(0), hi: nil},
}

var newmTuples = []*ty{
	{tag: "tuple", kids: []*ty{tInt, tStr}},
	{tag: "tuple", kids: []*ty{tStr, tStr, tStr}},
	{tag: "tuple", kids: []*ty{tInt}},
	{tag: "tuple", kids: []*ty{tInt, tOptStr}},
}

type sentry struct{ k, v sx.Sexp }

// keys a declaration never names
var newmOddKeys = []sx.Sexp{sv(""), iv(1), sv("z"), sv("A"), bv(true), sx.T("u"), iv(0), sv(" "), sx.T("d")}
var newmOddVals = []sx.Sexp{iv(1), sv("x"), sx.T("u"), bv(true), av(), iv(7), sv(""), sx.T("h")}

func hv(es []sentry) sx.Sexp {
	xs := make([]sx.Sexp, len(es))
	for i, e := range es {
		xs[i] = sx.L(e.k, e.v)
	}
	return sx.T("h", xs...)
}

// the ways the modelled dispatches of the Hash constructor take entries
func sentryForms(r *rand.Rand, es []sentry) []sx.Sexp {
	switch r.Intn(4) {
	case 0: // key-value array
		xs := make([]sx.Sexp, len(es))
		for i, e := range es {
			xs[i] = av(e.k, e.v)
		}
		return []sx.Sexp{av(xs...)}
	case 1: // flat array
		xs := []sx.Sexp{}
		for _, e := range es {
			xs = append(xs, e.k, e.v)
		}
		if r.Intn(8) == 0 && len(xs) > 0 {
			xs = xs[:len(xs)-1]
		}
		return []sx.Sexp{av(xs...)}
	}
	return []sx.Sexp{hv(es)}
}

func genNewMContainers(g *core.G, emit func(recv sx.Sexp, args []sx.Sexp)) {
	r := g.Rng
	// small universe: every Struct receiver x every set of <= 3 keys out of {a, b, c, '', 1, z}, each with an Integer or a
	// String value, as a hash argument (every third also as a key-value array)
	keys := []sx.Sexp{sv("a"), sv("b"), sv("c"), sv(""), iv(1), sv("z")}
	vals := []sx.Sexp{iv(1), sv("x")}
	var sets [][]sentry
	var rec func(from int, cur []sentry)
	rec = func(from int, cur []sentry) {
		sets = append(sets, append([]sentry{}, cur...))
		if len(cur) == 3 {
			return
		}
		for k := from; k < len(keys); k++ {
			for _, v := range vals {
				rec(k+1, append(cur, sentry{keys[k], v}))
			}
		}
	}
	rec(0, nil)
	for _, s := range newmStructs {
		for i, es := range sets {
			emit(s.sexp(), []sx.Sexp{hv(es)})
			if i%3 == 0 && len(es) > 0 {
				xs := make([]sx.Sexp, len(es))
				for j, e := range es {
					xs[j] = av(e.k, e.v)
				}
				emit(s.sexp(), []sx.Sexp{av(xs...)})
			}
		}
	}
	for _, s := range newmHashes {
		for _, es := range sets {
			if len(es) <= 2 {
				emit(s.sexp(), []sx.Sexp{hv(es)})
			}
		}
	}
	// random: a witness of the receiver, 0..2 mutations of keys / values / size, any modelled form; also through Init[T]
	all := append(append([]*ty{}, newmStructs...), newmHashes...)
	env := map[string]*ty{}
	for i := 0; i < 3000*g.Scale; i++ {
		s := all[r.Intn(len(all))]
		var es []sentry
		if s.tag == "struct" {
			for j, k := range s.kids {
				if !s.opts[j] || r.Intn(2) == 0 {
					es = append(es, sentry{sv(s.strs[j]), witness(r, k, env, 0)})
				}
			}
			if r.Intn(3) == 0 {
				r.Shuffle(len(es), func(a, b int) { es[a], es[b] = es[b], es[a] })
			}
		} else {
			n := int(*s.lo) + r.Intn(3)
			if s.hi != nil && int64(n) > *s.hi {
				n = int(*s.hi)
			}
			seen := map[string]bool{}
			for tries := 0; len(es) < n && tries < 20; tries++ {
				k := witness(r, s.kids[0], env, 0)
				if !seen[k.String()] && k.Tag() != "a" {
					seen[k.String()] = true
					es = append(es, sentry{k, witness(r, s.kids[1], env, 0)})
				}
			}
		}
		for m := r.Intn(3); m > 0; m-- {
			switch r.Intn(6) {
			case 0:
				if len(es) > 0 {
					es[r.Intn(len(es))].k = newmOddKeys[r.Intn(len(newmOddKeys))]
				}
			case 1:
				if len(es) > 0 {
					k := r.Intn(len(es))
					es = append(es[:k:k], es[k+1:]...)
				}
			case 2:
				es = append(es, sentry{newmOddKeys[r.Intn(len(newmOddKeys))], newmOddVals[r.Intn(len(newmOddVals))]})
			case 3:
				if len(es) > 0 {
					es[r.Intn(len(es))].v = newmOddVals[r.Intn(len(newmOddVals))]
				}
			case 4:
				if len(es) > 0 { // a member replaced by an odd key: same size, member missing
					k := r.Intn(len(es))
					es[k].k = newmOddKeys[r.Intn(len(newmOddKeys))]
				}
			default:
				if s.tag == "struct" { // a declared key once more / the optional one
					es = append(es, sentry{sv(s.strs[r.Intn(len(s.strs))]), newmOddVals[r.Intn(len(newmOddVals))]})
				}
			}
		}
		recv := s.sexp()
		if r.Intn(8) == 0 {
			recv = sx.T("init", recv)
		}
		emit(recv, sentryForms(r, es))
	}
	// Tuple receivers (the Array constructor): witnesses, sizes around the declared one, a wrong element
	for i := 0; i < 600*g.Scale; i++ {
		s := newmTuples[r.Intn(len(newmTuples))]
		n := len(s.kids) - 1 + r.Intn(3)
		var el []sx.Sexp
		for j := 0; j < n; j++ {
			tj := j
			if tj > len(s.kids)-1 {
				tj = len(s.kids) - 1
			}
			el = append(el, witness(r, s.kids[tj], env, 0))
		}
		if r.Intn(3) == 0 && len(el) > 0 {
			el[r.Intn(len(el))] = newmOddVals[r.Intn(len(newmOddVals))]
		}
		args := []sx.Sexp{av(el...)}
		if r.Intn(5) == 0 {
			args = append(args, bv(r.Intn(2) == 0))
		}
		emit(s.sexp(), args)
	}
}

func genNewM(g *core.G) {
	r := g.Rng
	emit := func(recv sx.Sexp, args []sx.Sexp) {
		g.Emit("newm " + recv.String() + " " + sx.T("args", args...).String())
	}
	genNewMContainers(g, emit)
	genNewMNum(g, emit)
	genNewMTree(g, emit)
	genNewMBin(g, emit)
	genNewMTsp(g, emit)
	recvs := []sx.Sexp{sx.T("init")}
	for _, t := range newmRecv {
		recvs = append(recvs, t.sexp(), sx.T("init", t.sexp()))
	}
	// small universe: every receiver x every numeric / boolean string alone, and Integer x string x radix
	for _, rc := range recvs {
		emit(rc, nil)
		for _, s := range numStrs {
			emit(rc, []sx.Sexp{sv(s)})
		}
		for _, s := range boolStrs {
			emit(rc, []sx.Sexp{sv(s)})
		}
	}
	for _, s := range numStrs {
		for _, rx := range []sx.Sexp{iv(2), iv(8), iv(10), iv(16), sx.T("d")} {
			emit(tInt.sexp(), []sx.Sexp{sv(s), rx})
			emit(tInt.sexp(), []sx.Sexp{sv(s), rx, bv(true)})
		}
	}
	byKind := map[string][]sx.Sexp{}
	for _, t := range newmRecv {
		k := t.tag
		if k == "int" || k == "bool" || k == "arr" {
			byKind[k] = append(byKind[k], t.sexp(), t.sexp(), sx.T("init", t.sexp()))
		}
	}
	for i := 0; i < 6000*g.Scale; i++ {
		a, kind := newmWitness(r)
		if r.Intn(5) == 0 && len(a) > 0 {
			a[r.Intn(len(a))] = randValue(r, 1)
		}
		if cands := byKind[kind]; len(cands) > 0 && r.Intn(4) != 0 {
			// arguments written for the receiver's own constructor
			emit(cands[r.Intn(len(cands))], a)
		} else {
			emit(recvs[r.Intn(len(recvs))], a)
		}
	}
}

var _ = fmt.Sprintf
