package c16

import (
	"math/rand"

	"verif/harness/core"
	"verif/harness/sx"
)

// ---- call: declared block types WITH parameter types and sizes against blocks whose parameter lists differ in length -----
//
// CallableWith accepts a given block through Callable-against-Callable / Tuple-against-Tuple assignability: the block's
// parameter tuple must accept the declared one at every position an instance of the declared tuple can have, both tuples
// repeating their last type.  The lists may differ in length in both directions (seeded change C16-s12 compared only the
// shorter one): typed declarations x blocks that are shorter / longer, with optional or repeated trailing parameters,
// compatible on the common prefix and incompatible only beyond it.

func bpSexp(ps []string) sx.Sexp {
	xs := make([]sx.Sexp, len(ps))
	for i, p := range ps {
		xs[i] = sx.A(p)
	}
	return sx.L(xs...)
}

func typedBlock(ps []string, min int, unbounded bool) sx.Sexp {
	mx := sx.Int(int64(len(ps)))
	if unbounded {
		mx = sx.A("d")
	}
	return sx.T("bt", bpSexp(ps), sx.Int(int64(min)), mx)
}

func typedBT(ps []string, min int64, max *int64) *btype {
	return &btype{types: ps, min: i64(min), max: max}
}

var bpAtoms = []string{"any", "str", "int", "num", "bool"}

func genTypedBlocks(g *core.G) {
	r := g.Rng
	decls := []*btype{
		typedBT([]string{"str", "int"}, 2, i64(3)), typedBT([]string{"str", "int"}, 2, i64(2)), typedBT([]string{"str"}, 1, i64(2)), typedBT([]string{"str", "int"}, 1, nil),
		typedBT([]string{"int"}, 0, nil), typedBT([]string{"any"}, 1, i64(1)), typedBT([]string{"num", "str"}, 1, i64(3)), typedBT([]string{"str", "int", "bool"}, 1, i64(2)),
		typedBT([]string{"str", "int", "bool"}, 3, i64(4)), typedBT([]string{"int", "int"}, 0, i64(0)), {min: i64(1), max: i64(1)}, {min: i64(2), max: i64(3)}, {any: true},
	}
	// every block with <= 3 parameters over {any, str, int} (<= 2 over all five types), every number of required parameters,
	// bounded (the others optional) and with the last one repeated
	var blocks []sx.Sexp
	var rec func(cur []string, atoms []string, depth int)
	rec = func(cur []string, atoms []string, depth int) {
		for m := 0; m <= len(cur); m++ {
			blocks = append(blocks, typedBlock(cur, m, false))
			if len(cur) > 0 {
				blocks = append(blocks, typedBlock(cur, m, true))
			}
		}
		if len(cur) == depth {
			return
		}
		for _, a := range atoms {
			rec(append(append([]string{}, cur...), a), atoms, depth)
		}
	}
	rec(nil, bpAtoms[:3], 3)
	for _, a := range bpAtoms[3:] {
		for _, b := range bpAtoms {
			for _, ps := range [][]string{{a, b}, {b, a}} {
				blocks = append(blocks, typedBlock(ps, 1, false), typedBlock(ps, 2, false), typedBlock(ps, 1, true))
			}
		}
		blocks = append(blocks, typedBlock([]string{a}, 1, false), typedBlock([]string{a}, 0, true))
	}
	blocks = append(blocks, sx.A("nb"), sx.T("b", sx.Int(2), sx.Int(3)), sx.T("b", sx.Int(1), sx.A("d")), sx.T("b", sx.Int(0), sx.Int(0)))
	arg := []sx.Sexp{sv("a")}
	for _, bt := range decls {
		for _, kind := range []string{"blk", "optblk"} {
			// the typed dispatch first, a catch-all without block after it (a refused block must end in the argument error), and
			// the typed dispatch after a narrower one with the same parameter (first match among block requirements)
			d := &disp{fn2: true, ops: []bop{{kind: "req", t: tStr}, {kind: kind, bt: bt}}}
			t1 := &table{ds: []*disp{d, {ops: []bop{{kind: "rep", t: tAny}}}}}
			narrow := &disp{fn2: true, ops: []bop{{kind: "req", t: tStr}, {kind: "blk", bt: typedBT([]string{"str", "int", "str"}, 2, i64(3))}}}
			t2 := &table{ds: []*disp{narrow, d}}
			for _, b := range blocks {
				g.Emit(callLine(t1, arg, b))
				if kind == "blk" {
					g.Emit(callLine(t2, arg, b))
				}
			}
		}
	}
	// random: a declared typed block type, a block derived from it — same prefix, then shorter / longer / one position changed /
	// trailing parameters optional or repeated — in tables of 1..3 dispatches with different block requirements
	randDecl := func() *btype {
		n := 1 + r.Intn(3)
		ps := make([]string, n)
		for i := range ps {
			ps[i] = bpAtoms[r.Intn(len(bpAtoms))]
		}
		min := int64(r.Intn(n + 1))
		var max *int64
		switch r.Intn(4) {
		case 0:
		case 1:
			max = i64(int64(n))
		default:
			max = i64(min + int64(r.Intn(3)))
		}
		return typedBT(ps, min, max)
	}
	fit := func(bt *btype) sx.Sexp {
		ps := append([]string{}, bt.types...)
		want := len(ps)
		if bt.max != nil {
			want = int(*bt.max)
		}
		for len(ps) < want && len(ps) < 6 {
			ps = append(ps, ps[len(ps)-1])
		}
		switch r.Intn(6) {
		case 0:
			if len(ps) > 1 {
				ps = ps[:len(ps)-1]
			}
		case 1:
			ps = append(ps, bpAtoms[r.Intn(len(bpAtoms))])
		case 2:
			ps[r.Intn(len(ps))] = bpAtoms[r.Intn(len(bpAtoms))]
		case 3:
			ps[len(ps)-1] = bpAtoms[r.Intn(len(bpAtoms))]
		case 4:
			for i := range ps {
				if r.Intn(2) == 0 {
					ps[i] = "any"
				}
			}
		}
		min := int(*bt.min)
		if r.Intn(3) == 0 {
			min = r.Intn(len(ps) + 1)
		}
		if min > len(ps) {
			min = len(ps)
		}
		unb := bt.max == nil
		if r.Intn(5) == 0 {
			unb = !unb
		}
		if unb && len(ps) == 0 {
			unb = false
		}
		return typedBlock(ps, min, unb)
	}
	for i := 0; i < 1500*g.Scale; i++ {
		n := 1 + r.Intn(3)
		t := &table{}
		var bts []*btype
		for j := 0; j < n; j++ {
			bt := randDecl()
			if j > 0 && r.Intn(2) == 0 {
				// a neighbour of an earlier declaration: one type more / fewer / changed
				prev := bts[r.Intn(len(bts))]
				ps := append([]string{}, prev.types...)
				switch r.Intn(3) {
				case 0:
					ps = append(ps, bpAtoms[r.Intn(len(bpAtoms))])
				case 1:
					if len(ps) > 1 {
						ps = ps[:len(ps)-1]
					}
				default:
					ps[r.Intn(len(ps))] = bpAtoms[r.Intn(len(bpAtoms))]
				}
				bt = &btype{types: ps, min: prev.min, max: prev.max}
			}
			bts = append(bts, bt)
			kind := "blk"
			if r.Intn(4) == 0 {
				kind = "optblk"
			}
			t.ds = append(t.ds, &disp{fn2: true, ops: []bop{{kind: "req", t: tStr}, {kind: kind, bt: bt}}})
		}
		if r.Intn(3) == 0 {
			t.ds = append(t.ds, &disp{ops: []bop{{kind: "rep", t: tAny}}})
		}
		for k := 0; k < 4; k++ {
			b := fit(bts[r.Intn(len(bts))])
			if r.Intn(10) == 0 {
				b = randBlock(r)
			}
			g.Emit(callLine(t, arg, b))
		}
	}
}

var _ = rand.Intn
