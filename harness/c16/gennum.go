package c16

import (
	"math"
	"strconv"
	"strings"

	"verif/harness/core"
	"verif/harness/sx"
)

// ---- newm: the Float and Numeric constructors, floats through Integer / Boolean / Array, the named-argument forms ----

func fv(f float64) sx.Sexp { return sx.T("f", sx.A(strconv.FormatUint(math.Float64bits(f), 10))) }

func fbits(f float64) *int64 { n := int64(math.Float64bits(f)); return &n }

var (
	tFlt    = &ty{tag: "flt"}
	tFlt12  = &ty{tag: "flt", lo: fbits(1.0), hi: fbits(2.0)}
	tFltNeg = &ty{tag: "flt", lo: nil, hi: fbits(0.0)}
	tFltLo  = &ty{tag: "flt", lo: fbits(-1.5), hi: nil}
	tFlt00  = &ty{tag: "flt", lo: fbits(0.0), hi: fbits(0.0)}
	tFltBig = &ty{tag: "flt", lo: fbits(-1e300), hi: fbits(1e300)}
	tNum    = &ty{tag: "num"}
)

var numRecv = []*ty{tFlt, tFlt12, tFltNeg, tFltLo, tFlt00, tFltBig, tNum}

// strings around types.FloatPattern: accepted by the pattern and by strconv, accepted by the pattern and refused by
// strconv (blanks after the sign, hexadecimal / binary for Float, range errors), refused by the pattern
var floatStrs = []string{
	"1.5", "-1.25", "+2", "0.5", "0", "-0", "-0.0", "+0.0", "1e3", "1E3", "1e-3", "1.5e2", "2.5E-1", "0.5e-2", "5e-1", "0e0", "0.0e0",
	"1e400", "-1e400", "1e-400", "2.4e-324", "2.5e-324", "4.9e-324", "1.7976931348623157e308", "1.7976931348623158e308", "1.7976931348623159e308", "1e308", "1e309",
	"0.1", "0.30000000000000004", "123456789012345678901234567890", "9223372036854775807", "9223372036854775808", "-9223372036854775808", "-9223372036854775809",
	"9007199254740993", "9007199254740992", "18446744073709551616",
	"0x1F", "0X1f", "-0x10", "+0x10", "- 0x10", "0x", "0xg", "0x7fffffffffffffff", "0x8000000000000000", "-0x8000000000000000", "0x" + strings.Repeat("F", 17),
	"0777", "0778", "00", "000", "07", "08", "-017", "0o17", "00.5", "01.5", "007e1",
	"0b11", "0B1", "-0b11", "+0b101", "0b", "0b2", "0b" + strings.Repeat("1", 63), "0b" + strings.Repeat("1", 64), "-0b1" + strings.Repeat("0", 63), "-0b1" + strings.Repeat("0", 64),
	" 7", "- 5", "+\t3.5", "-\n1", "-\f\r 2.5", "5 ", "1. 5",
	"1.", "1.5e", ".5", "1e+5", "1e", "e5", "1_0", "0_7", "1_000.5", "", "-", "+", "abc", "1.5.2", "1e5e5", "1e-", "--1", "+-1", "٣", "1٣",
	"Inf", "inf", "-Inf", "NaN", "nan", "infinity", "0x1p3", "0x1.8p1", "1.0e", "1,5", "1e1.5", "1e-05", "10e10",
}

var numFloats = []float64{0, math.Copysign(0, -1), 1.5, -2.5, 1, 2, -1.5, 0.1, 3, 1e20, -1e20, 1e300, -1e301, math.NaN(), math.Inf(1), math.Inf(-1), 5e-324, -5e-324,
	math.MaxFloat64, -math.MaxFloat64, 9223372036854775808.0, -9223372036854775808.0, 9223372036854774784.0, -9223372036854777856.0, 9007199254740993.0, 0.9999999999999999, -0.5, 2.0000000000000004}

var numInts = []int64{0, 1, -1, 3, -3, 5, 42, 9007199254740992, 9007199254740993, -9007199254740993, 9007199254740995, math.MaxInt64, math.MinInt64, math.MaxInt64 - 1, 1 << 62}

func hmap(kv ...sx.Sexp) sx.Sexp {
	es := make([]sentry, 0, len(kv)/2)
	for i := 0; i+1 < len(kv); i += 2 {
		es = append(es, sentry{kv[i], kv[i+1]})
	}
	return hv(es)
}

// the argument lists a `from` value is tried in: positional, positional with abs, and the named forms (complete, with an
// unknown key, with a non-boolean abs, abs first, with a radix)
func numForms(from sx.Sexp) [][]sx.Sexp {
	return [][]sx.Sexp{
		{from}, {from, bv(true)}, {from, bv(false)},
		{hmap(sv("from"), from)}, {hmap(sv("from"), from, sv("abs"), bv(true))}, {hmap(sv("abs"), bv(true), sv("from"), from)},
		{hmap(sv("from"), from, sv("abs"), bv(false))},
	}
}

func numOddForms(from sx.Sexp) [][]sx.Sexp {
	return [][]sx.Sexp{
		{from, iv(1)}, {from, bv(true), bv(true)}, {from, sx.T("u")}, {from, sx.T("d"), bv(true)}, {from, iv(16), bv(true)},
		{hmap(sv("from"), from, sv("abs"), iv(1))}, {hmap(sv("from"), from, sv("x"), iv(1))}, {hmap(sv("from"), from, sv("abs"), bv(true), sv("radix"), iv(16))},
		{hmap(sv("from"), from, sv("radix"), iv(10))}, {hmap(sv("from"), from, sv("radix"), sx.T("d"), sv("abs"), bv(true))},
		{hmap(sv("abs"), bv(true))}, {hmap(iv(1), from)}, {hmap(sv("from"), from), bv(true)}, {hmap(sv("from"), hmap(sv("from"), from))},
		{av(from)}, {av(from, bv(true))}, {hmap(sv("from"), from, sv("from"), from)}, {hmap(sv("From"), from)},
	}
}

func genNewMNum(g *core.G, emit func(recv sx.Sexp, args []sx.Sexp)) {
	r := g.Rng
	var recvs []sx.Sexp
	for _, t := range numRecv {
		recvs = append(recvs, t.sexp(), sx.T("init", t.sexp()))
	}
	// the receivers whose constructors take floats or have a named form as well
	others := []sx.Sexp{tInt.sexp(), tInt05.sexp(), sx.T("init", tInt.sexp()), tBool.sexp(), (&ty{tag: "arr", kids: []*ty{tFlt}}).sexp(), (&ty{tag: "arr", kids: []*ty{tAny}}).sexp(),
		(&ty{tag: "arr", kids: []*ty{tNum}, lo: i64(1), hi: nil}).sexp()}
	var froms []sx.Sexp
	for _, s := range floatStrs {
		froms = append(froms, sv(s))
	}
	for _, s := range numStrs {
		froms = append(froms, sv(s))
	}
	for _, f := range numFloats {
		froms = append(froms, fv(f))
	}
	for _, n := range numInts {
		froms = append(froms, iv(n))
	}
	froms = append(froms, bv(true), bv(false), sx.T("u"), sx.T("d"), av(), av(iv(1)), hmap(), hmap(sv("a"), iv(1)))
	// small universe: every numeric receiver (and Init[receiver]) x every `from` x every well-formed form; the first two
	// receivers and Numeric also x every odd form; Integer / Boolean / Array receivers x every from x the plain forms
	for i, rc := range recvs {
		emit(rc, nil)
		for _, f := range froms {
			for _, a := range numForms(f) {
				emit(rc, a)
			}
			if i < 2 || i >= len(recvs)-2 {
				for _, a := range numOddForms(f) {
					emit(rc, a)
				}
			}
		}
	}
	for _, rc := range others {
		for _, f := range froms {
			emit(rc, []sx.Sexp{f})
			emit(rc, []sx.Sexp{hmap(sv("from"), f)})
			emit(rc, []sx.Sexp{hmap(sv("from"), f, sv("abs"), bv(true))})
		}
	}
	// Integer, named form: every probe string x every radix (x abs), the radix as Default, an illegal radix
	for _, s := range numStrs {
		for _, rx := range []sx.Sexp{iv(2), iv(8), iv(10), iv(16), sx.T("d"), iv(3)} {
			emit(tInt.sexp(), []sx.Sexp{hmap(sv("from"), sv(s), sv("radix"), rx)})
			emit(tInt.sexp(), []sx.Sexp{hmap(sv("radix"), rx, sv("abs"), bv(true), sv("from"), sv(s))})
		}
	}
	// random: a from, a form, 0..2 one-point mutations of the argument list; any receiver
	all := append(append([]sx.Sexp{}, recvs...), others...)
	pool := append(append([]sx.Sexp{}, froms...), bv(true), bv(false), iv(2), iv(16), sv("abs"), sv("from"))
	for i := 0; i < 3000*g.Scale; i++ {
		f := froms[r.Intn(len(froms))]
		var forms [][]sx.Sexp
		if r.Intn(3) == 0 {
			forms = numOddForms(f)
		} else {
			forms = numForms(f)
		}
		a := append([]sx.Sexp{}, forms[r.Intn(len(forms))]...)
		for m := r.Intn(3); m > 0; m-- {
			switch r.Intn(3) {
			case 0:
				if len(a) > 0 {
					a[r.Intn(len(a))] = pool[r.Intn(len(pool))]
				}
			case 1:
				if len(a) < 4 {
					a = append(a, pool[r.Intn(len(pool))])
				}
			default:
				if len(a) > 1 {
					a = a[:len(a)-1]
				}
			}
		}
		rc := all[r.Intn(len(all))]
		if r.Intn(4) != 0 {
			rc = recvs[r.Intn(len(recvs))]
		}
		emit(rc, a)
	}
}
