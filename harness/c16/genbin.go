package c16

import (
	"encoding/base64"

	"verif/harness/core"
	"verif/harness/sx"
)

// ---- newm: the Binary constructor ------------------------------------------------------------------------------------

func binv(bs []byte) sx.Sexp { return sx.T("bin", sx.Str(string(bs))) }

var binStrs = []string{"YWJj", "YWI=", "YQ==", "YR==", "YWJ=", "YWK=", "YWI", "YQ", "Y", "", "YW Jj", "YW\nJj", "YW\r\nJj", "YWJj\n", "\nYWJj", "YQ=\n=", "YQ=\r=\n", "YQ==YQ==", "YQ==\n", "YQ== ",
	"====", "=", "==", "Y===", "YWJj=", "YWJj==", "-_-_", "+/+/", "ab-_", "ab+/", "é", "abc", "YWJjZGVm", "YWJjZGU=", "YWJjZA==", "YWJjZB==", "////", "____", "YW=j", "Y=Jj", "=WJj", "YWJjZ", "YWJjZG", "AAAA", "AA==", "AB==", "AAB=", "\n", "\r\n\r\n", "YW\tJj", "YW.j"}
var binFmts = []string{"%b", "%u", "%B", "%s", "%r", "%x", "%S", "", "b", "%bb", " %b"}

func genNewMBin(g *core.G, emit func(recv sx.Sexp, args []sx.Sexp)) {
	r := g.Rng
	tBin := (&ty{tag: "bin"}).sexp()
	iBin := sx.T("init", tBin)
	value, format := sv("value"), sv("format")
	// small universe: every probe string x (no format, every format) positional and named, named without a format, with an
	// undef format, with an unknown key
	emit(tBin, nil)
	for _, s := range binStrs {
		emit(tBin, []sx.Sexp{sv(s)})
		emit(iBin, []sx.Sexp{sv(s)})
		emit(tBin, []sx.Sexp{hmap(value, sv(s))})
		emit(tBin, []sx.Sexp{hmap(value, sv(s), format, sx.T("u"))})
		emit(tBin, []sx.Sexp{hmap(value, sv(s), sv("x"), sv("%B"))})
		for _, f := range binFmts {
			emit(tBin, []sx.Sexp{sv(s), sv(f)})
			emit(tBin, []sx.Sexp{hmap(value, sv(s), format, sv(f))})
			emit(tBin, []sx.Sexp{hmap(format, sv(f), value, sv(s))})
		}
		emit(tBin, []sx.Sexp{sv(s), sv("%B"), sv("%B")})
		emit(tBin, []sx.Sexp{sv(s), iv(1)})
		emit(sx.T("init", tBin, sv("%s")), []sx.Sexp{sv(s)})
		emit(sx.T("init", tBin, sv("%b")), []sx.Sexp{sv(s)})
	}
	// arrays of bytes and not quite bytes, positional and under `value`
	arrs := []sx.Sexp{av(), av(iv(1), iv(255)), av(iv(0)), av(iv(256)), av(iv(-1)), av(iv(1), sv("a")), av(av(iv(1))), av(iv(1), iv(2), iv(3), iv(4)), av(fv(1)), av(bv(true)), av(iv(97), iv(98), iv(99))}
	for _, a := range arrs {
		emit(tBin, []sx.Sexp{a})
		emit(iBin, []sx.Sexp{a})
		emit(tBin, []sx.Sexp{hmap(value, a)})
		emit(tBin, []sx.Sexp{hmap(value, a, format, sv("%B"))})
		emit(tBin, []sx.Sexp{a, sv("%B")})
	}
	// a Binary as an argument: of Binary.new itself (refused), of Array.new (its bytes), in coercions
	bins := []sx.Sexp{binv(nil), binv([]byte{1, 2, 255}), binv([]byte("abc"))}
	arrAny := (&ty{tag: "arr", kids: []*ty{tAny}}).sexp()
	for _, b := range bins {
		emit(tBin, []sx.Sexp{b})
		emit(arrAny, []sx.Sexp{b})
		emit(arrAny, []sx.Sexp{b, bv(true)})
		emit(tArrInt.sexp(), []sx.Sexp{b})
		emit(tArrN(tInt05, 1, nil).sexp(), []sx.Sexp{b})
		emit(tInt.sexp(), []sx.Sexp{b})
		g.Emit("coerce " + tBin.String() + " " + b.String())
		g.Emit("coerce " + tArrInt.sexp().String() + " " + b.String())
	}
	for _, s := range binStrs[:12] {
		g.Emit("coerce " + tBin.String() + " " + sv(s).String())
		g.Emit("coerce " + tArr(&ty{tag: "bin"}).sexp().String() + " " + av(sv(s), av(iv(1)), binv([]byte{7})).String())
	}
	// random: random bytes, encoded in one of the three variants (or raw), one-point damage, decoded with a random format
	encs := []*base64.Encoding{base64.StdEncoding, base64.URLEncoding, base64.RawStdEncoding, base64.RawURLEncoding}
	for i := 0; i < 2500*g.Scale; i++ {
		n := r.Intn(8)
		bs := make([]byte, n)
		for j := range bs {
			switch r.Intn(4) {
			case 0:
				bs[j] = byte(0xf8 + r.Intn(8)) // the digits + / - _ come from high six-bit groups
			case 1:
				bs[j] = byte('a' + r.Intn(26))
			default:
				bs[j] = byte(r.Intn(256))
			}
		}
		var s string
		if k := r.Intn(10); k < 9 {
			s = encs[[]int{0, 0, 0, 0, 0, 1, 1, 1, 2, 3}[r.Intn(10)]].EncodeToString(bs)
		} else {
			s = string([]byte{byte('a' + r.Intn(26)), byte('0' + r.Intn(10)), 'x'})[:r.Intn(4)]
		}
		for m := r.Intn(3); m > 0; m-- {
			cs := []rune(s)
			k := 0
			if len(cs) > 0 {
				k = r.Intn(len(cs))
			}
			switch r.Intn(6) {
			case 0:
				if len(cs) > 0 {
					cs[k] = []rune("AB+/-_= \n\r!é0z")[r.Intn(14)]
				}
			case 1:
				if len(cs) > 0 {
					cs = append(cs[:k:k], cs[k+1:]...)
				}
			case 2:
				cs = append(cs[:k:k], append([]rune{[]rune("\n\r =A")[r.Intn(5)]}, cs[k:]...)...)
			case 3:
				if len(cs) > 0 { // the last digit before the padding: the strict variant looks at its low bits
					p := len(cs) - 1
					for p > 0 && cs[p] == '=' {
						p--
					}
					cs[p] = []rune("ABCDEFQRghwx159+/")[r.Intn(17)]
				}
			case 4:
				cs = append(cs, '=')
			default:
				if len(cs) > 0 && cs[len(cs)-1] == '=' {
					cs = cs[:len(cs)-1]
				}
			}
			s = string(cs)
		}
		f := binFmts[r.Intn(5)]
		if r.Intn(12) == 0 {
			f = binFmts[r.Intn(len(binFmts))]
		}
		switch r.Intn(6) {
		case 0:
			emit(tBin, []sx.Sexp{sv(s)})
		case 1:
			emit(tBin, []sx.Sexp{hmap(value, sv(s), format, sv(f))})
		case 2:
			xs := make([]sx.Sexp, len(bs))
			for j, b := range bs {
				xs[j] = iv(int64(b))
			}
			if r.Intn(4) == 0 && len(xs) > 0 {
				xs[r.Intn(len(xs))] = []sx.Sexp{iv(256), iv(-1), sv("a"), fv(1), sx.T("u")}[r.Intn(5)]
			}
			emit(tBin, []sx.Sexp{av(xs...)})
		default:
			emit(tBin, []sx.Sexp{sv(s), sv(f)})
		}
	}
}
