package c16

import (
	"math"
	"math/rand"

	"verif/harness/core"
	"verif/harness/sx"
)

// ---- newm: Hash / Struct from tree arrays ([path, value] entries with the option 'tree' / 'hash_tree') -----------------
//
// Keys never contain a hash (the model refuses those: ToKey of a hash sorts its entries, which is C07's subject).

var treeKeys = []sx.Sexp{sv("a"), sv("b"), sv("c"), iv(0), iv(1), iv(2), iv(-1), fv(0), fv(math.Copysign(0, -1)), fv(1), bv(true), sx.T("u"), av(iv(1)), av(), sv("")}

func treeVal(r *rand.Rand, depth int) sx.Sexp {
	switch r.Intn(9) {
	case 0:
		return sv([]string{"x", "abc", ""}[r.Intn(3)])
	case 1:
		n := r.Intn(4)
		xs := make([]sx.Sexp, n)
		for i := range xs {
			if depth > 0 && r.Intn(3) == 0 {
				xs[i] = treeVal(r, depth-1)
			} else {
				xs[i] = iv(int64(r.Intn(10)))
			}
		}
		return av(xs...)
	case 2:
		n := r.Intn(3)
		es := make([]sentry, n)
		for i := range es {
			v := iv(int64(r.Intn(10)))
			if depth > 0 && r.Intn(3) == 0 {
				v = treeVal(r, depth-1)
			}
			es[i] = sentry{treeKeys[r.Intn(6)], v}
		}
		return hv(es)
	case 3:
		return sx.T("u")
	case 4:
		return fv(1.5)
	}
	return iv(int64(r.Intn(10)))
}

func treePath(r *rand.Rand, few []sx.Sexp) sx.Sexp {
	n := r.Intn(4)
	if r.Intn(3) == 0 {
		n = 1 + r.Intn(2)
	}
	xs := make([]sx.Sexp, n)
	for i := range xs {
		if r.Intn(8) == 0 {
			xs[i] = treeKeys[r.Intn(len(treeKeys))]
		} else {
			xs[i] = few[r.Intn(len(few))]
		}
	}
	return av(xs...)
}

func genNewMTree(g *core.G, emit func(recv sx.Sexp, args []sx.Sexp)) {
	r := g.Rng
	hAny := (&ty{tag: "hash", kids: []*ty{tAny, tAny}, lo: i64(0), hi: nil}).sexp()
	recvs := []sx.Sexp{hAny,
		(&ty{tag: "hash", kids: []*ty{tStr, tInt}, lo: i64(0), hi: nil}).sexp(),
		(&ty{tag: "hash", kids: []*ty{tInt, tAny}, lo: i64(1), hi: i64(2)}).sexp(),
		mkStruct("a", false, tInt).sexp(),
		mkStruct("a", false, &ty{tag: "hash", kids: []*ty{tVarIS, tInt}, lo: i64(0), hi: nil}, "b", true, tAny).sexp()}
	tree, htree := sv("tree"), sv("hash_tree")
	// small universe: every sequence of <= 2 entries, path out of every path of length <= 2 over {a, 0}, value out of
	// {1, 'x', [7,8], {a=>2}, {0=>3}}, with 'tree' and with 'hash_tree', on the first receiver; every single entry and every
	// pair sharing its first key on every receiver, also without the option and through Init[T] / Init[T, 'tree']
	ks := []sx.Sexp{sv("a"), iv(0)}
	paths := []sx.Sexp{av()}
	for _, k := range ks {
		paths = append(paths, av(k))
		for _, k2 := range ks {
			paths = append(paths, av(k, k2))
		}
	}
	vals := []sx.Sexp{iv(1), sv("x"), av(iv(7), iv(8)), hmap(sv("a"), iv(2)), hmap(iv(0), iv(3))}
	var entries []sx.Sexp
	for _, p := range paths {
		for _, v := range vals {
			entries = append(entries, av(p, v))
		}
	}
	for _, opt := range []sx.Sexp{tree, htree} {
		emit(hAny, []sx.Sexp{av(), opt})
		for _, e1 := range entries {
			for _, rc := range recvs {
				emit(rc, []sx.Sexp{av(e1), opt})
			}
			for _, e2 := range entries {
				emit(hAny, []sx.Sexp{av(e1, e2), opt})
			}
		}
	}
	for _, e1 := range entries {
		emit(hAny, []sx.Sexp{av(e1)})
		emit(sx.T("init", hAny), []sx.Sexp{av(e1), tree})
		emit(sx.T("init", hAny, tree), []sx.Sexp{av(e1)})
		emit(sx.T("init", hAny, htree), []sx.Sexp{av(e1)})
	}
	// three entries that walk into each other: a path, a longer path through it, a shorter one over it, in every order
	a, b, c := sv("a"), sv("b"), iv(0)
	trip := []sx.Sexp{av(av(a, b), iv(1)), av(av(a, b, c), iv(2)), av(av(a), av(iv(9))), av(av(a, c), iv(3)), av(av(), hmap(a, hmap(b, iv(5)))), av(av(), av(iv(4), iv(5)))}
	for i := range trip {
		for j := range trip {
			for k := range trip {
				emit(hAny, []sx.Sexp{av(trip[i], trip[j], trip[k]), tree})
				if i != j {
					emit(hAny, []sx.Sexp{av(trip[i], trip[j], trip[k]), htree})
				}
			}
		}
	}
	// keys that are equal as hash keys without being the same value (0.0 / -0.0), equal values, and look-alikes that are
	// different keys (1 / 1.0 / '1'): put over each other, walked through, merged at the root
	negz := fv(math.Copysign(0, -1))
	pairs := [][2]sx.Sexp{{fv(0), negz}, {negz, fv(0)}, {iv(1), fv(1)}, {iv(1), sv("1")}, {av(iv(1)), av(iv(1))}, {av(fv(0)), av(negz)}, {bv(true), bv(true)}, {sx.T("u"), sx.T("u")}, {sv(""), sv("")}, {iv(0), fv(0)}}
	for _, kk := range pairs {
		k1, k2 := kk[0], kk[1]
		for _, opt := range []sx.Sexp{tree, htree} {
			emit(hAny, []sx.Sexp{av(av(av(k1), iv(1)), av(av(k2), iv(2))), opt})
			emit(hAny, []sx.Sexp{av(av(av(k1, a), iv(1)), av(av(k2, b), iv(2))), opt})
			emit(hAny, []sx.Sexp{av(av(av(k1, a), iv(1)), av(av(k2), iv(2))), opt})
			emit(hAny, []sx.Sexp{av(av(av(k1), iv(1)), av(av(k2, a), iv(2))), opt})
			emit(hAny, []sx.Sexp{av(av(av(), hmap(k1, iv(1))), av(av(), hmap(k2, iv(2)))), opt})
			emit(hAny, []sx.Sexp{av(av(av(), hmap(k1, iv(1), k2, iv(2))), av(av(k1), iv(3))), opt})
			emit(hAny, []sx.Sexp{av(av(av(k1), iv(0)), av(av(), hmap(k2, iv(1), k1, iv(2)))), opt})
			emit(hAny, []sx.Sexp{av(av(av(a, k1), iv(1)), av(av(a, k2), iv(2)), av(av(a, k1, b), iv(3))), opt})
		}
	}
	// random trees: 1..6 entries over few keys (so that paths collide), values of every kind; sometimes a malformed entry,
	// another option, no option, a third argument
	for i := 0; i < 2500*g.Scale; i++ {
		few := []sx.Sexp{treeKeys[r.Intn(3)], treeKeys[3+r.Intn(3)], treeKeys[r.Intn(len(treeKeys))]}
		n := 1 + r.Intn(6)
		es := make([]sx.Sexp, n)
		for j := range es {
			es[j] = av(treePath(r, few), treeVal(r, 1))
		}
		if r.Intn(12) == 0 {
			switch r.Intn(4) {
			case 0:
				es[r.Intn(n)] = av(sv("a"), iv(1)) // a key-value pair: the array is no tree array any more
			case 1:
				es[r.Intn(n)] = av(av(sv("a")), iv(1), iv(2))
			case 2:
				es[r.Intn(n)] = av(av(sv("a")))
			default:
				es[r.Intn(n)] = iv(1)
			}
		}
		args := []sx.Sexp{av(es...)}
		switch k := r.Intn(20); {
		case k < 9:
			args = append(args, tree)
		case k < 17:
			args = append(args, htree)
		case k == 17:
			args = append(args, []sx.Sexp{sv("Tree"), sv(""), iv(1), sx.T("u"), bv(true)}[r.Intn(5)])
		case k == 18:
			args = append(args, tree, tree)
		}
		rc := recvs[r.Intn(len(recvs))]
		if r.Intn(3) != 0 {
			rc = hAny
		}
		if r.Intn(10) == 0 {
			rc = sx.T("init", rc)
		}
		emit(rc, args)
	}
}
