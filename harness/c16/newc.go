package c16

// `@newc <spec> (args w*)`: `new` on a constrained container receiver that is given as a *specification* (implementation
// only).  The receiver type is rendered from the spec; the result is checked twice: px.IsInstance(receiver, result), and —
// independently of the receiver's own IsInstance/IsAssignable — member by member against the spec (px.IsInstance is used
// only on the scalar member types).
//
//	spec ::= (struct (xNAME req|opt xTYPE)*) | (hash xKEYTYPE xVALUETYPE MIN MAX) | (tuple (xTYPE*) MIN MAX) | (tuple (xTYPE*))
//	         | (array xTYPE MIN MAX)                         MAX may be `d`
//	out: value-in-type | value-outside-type | reported <CODE> | error | fault
import (
	"fmt"
	"math/rand"
	"strconv"
	"strings"

	"verif/harness/core"
	"verif/harness/sx"

	"github.com/lyraproj/pcore/px"
	"github.com/lyraproj/pcore/types"
)

type cmember struct {
	name string
	opt  bool
	vt   string
}

type cspec struct {
	kind    string // struct hash tuple array
	members []cmember
	kt, vt  string
	tts     []string
	sized   bool
	min     int64
	max     *int64
}

func specOf(e sx.Sexp) *cspec {
	a := e.Args()
	s := &cspec{kind: e.Tag()}
	switch s.kind {
	case "struct":
		for _, m := range a {
			if len(m.List) != 3 {
				panic(fmt.Errorf("bad member %s", m))
			}
			s.members = append(s.members, cmember{m.List[0].MustStr(), m.List[1].Atom == "opt", m.List[2].MustStr()})
		}
	case "hash":
		if len(a) != 4 {
			panic(fmt.Errorf("bad spec %s", e))
		}
		s.kt, s.vt, s.sized, s.min, s.max = a[0].MustStr(), a[1].MustStr(), true, a[2].MustInt(), bound(a[3])
	case "array":
		if len(a) != 3 {
			panic(fmt.Errorf("bad spec %s", e))
		}
		s.vt, s.sized, s.min, s.max = a[0].MustStr(), true, a[1].MustInt(), bound(a[2])
	case "tuple":
		if len(a) != 1 && len(a) != 3 {
			panic(fmt.Errorf("bad spec %s", e))
		}
		for _, t := range a[0].List {
			s.tts = append(s.tts, t.MustStr())
		}
		if len(a) == 3 {
			s.sized, s.min, s.max = true, a[1].MustInt(), bound(a[2])
		}
	default:
		panic(fmt.Errorf("bad spec %s", e))
	}
	return s
}

func (s *cspec) sexp() sx.Sexp {
	mx := sx.A("d")
	if s.max != nil {
		mx = sx.Int(*s.max)
	}
	switch s.kind {
	case "struct":
		xs := []sx.Sexp{}
		for _, m := range s.members {
			k := "req"
			if m.opt {
				k = "opt"
			}
			xs = append(xs, sx.L(sx.Str(m.name), sx.A(k), sx.Str(m.vt)))
		}
		return sx.T("struct", xs...)
	case "hash":
		return sx.T("hash", sx.Str(s.kt), sx.Str(s.vt), sx.Int(s.min), mx)
	case "array":
		return sx.T("array", sx.Str(s.vt), sx.Int(s.min), mx)
	}
	ts := make([]sx.Sexp, len(s.tts))
	for i, t := range s.tts {
		ts[i] = sx.Str(t)
	}
	if s.sized {
		return sx.T("tuple", sx.L(ts...), sx.Int(s.min), mx)
	}
	return sx.T("tuple", sx.L(ts...))
}

func (s *cspec) src() string {
	sz := ""
	if s.sized {
		sz = "," + strconv.FormatInt(s.min, 10) + "," + bstr(s.max)
	}
	switch s.kind {
	case "struct":
		ms := make([]string, len(s.members))
		for i, m := range s.members {
			k := quote(m.name)
			if m.opt {
				k = "Optional[" + k + "]"
			}
			ms[i] = k + "=>" + m.vt
		}
		return "Struct[{" + strings.Join(ms, ",") + "}]"
	case "hash":
		return "Hash[" + s.kt + "," + s.vt + sz + "]"
	case "array":
		return "Array[" + s.vt + sz + "]"
	}
	return "Tuple[" + strings.Join(s.tts, ",") + sz + "]"
}

// accepts: the spec read member by member (never through the receiver type itself)
func (s *cspec) accepts(c px.Context, v px.Value) (ok bool, why string) {
	isa := func(ts string, x px.Value) bool { return px.IsInstance(c.ParseType(ts), x) }
	sizeOK := func(n int) bool {
		return int64(n) >= s.min && (s.max == nil || int64(n) <= *s.max)
	}
	switch s.kind {
	case "struct":
		h, isH := v.(*types.Hash)
		if !isH {
			return false, "not a hash"
		}
		seen := map[string]bool{}
		bad := ""
		h.EachPair(func(k, x px.Value) {
			ks, isS := k.(px.StringValue)
			if !isS {
				bad = "key " + short(k) + " is not a string"
				return
			}
			for _, m := range s.members {
				if m.name == ks.String() {
					seen[m.name] = true
					if !isa(m.vt, x) {
						bad = "value of member " + m.name + " is not a " + m.vt
					}
					return
				}
			}
			bad = "key " + short(k) + " is not a declared member"
		})
		if bad != "" {
			return false, bad
		}
		for _, m := range s.members {
			if !m.opt && !seen[m.name] {
				return false, "required member " + m.name + " is missing"
			}
		}
		return true, ""
	case "hash":
		h, isH := v.(*types.Hash)
		if !isH {
			return false, "not a hash"
		}
		if !sizeOK(h.Len()) {
			return false, "size"
		}
		bad := ""
		h.EachPair(func(k, x px.Value) {
			if !isa(s.kt, k) {
				bad = "key " + short(k) + " is not a " + s.kt
			} else if !isa(s.vt, x) {
				bad = "value " + short(x) + " is not a " + s.vt
			}
		})
		return bad == "", bad
	case "array", "tuple":
		a, isA := v.(*types.Array)
		if !isA {
			return false, "not an array"
		}
		if s.kind == "array" {
			if !sizeOK(a.Len()) {
				return false, "size"
			}
			for i := 0; i < a.Len(); i++ {
				if !isa(s.vt, a.At(i)) {
					return false, "element " + strconv.Itoa(i)
				}
			}
			return true, ""
		}
		if s.sized {
			if !sizeOK(a.Len()) {
				return false, "size"
			}
		} else if a.Len() != len(s.tts) {
			return false, "size"
		}
		for i := 0; i < a.Len(); i++ {
			ti := i
			if ti > len(s.tts)-1 {
				ti = len(s.tts) - 1
			}
			if !isa(s.tts[ti], a.At(i)) {
				return false, "element " + strconv.Itoa(i)
			}
		}
		return true, ""
	}
	return false, "?"
}

func execNewC(c px.Context, args []sx.Sexp) core.Result {
	if len(args) != 2 || args[1].Tag() != "args" {
		return core.Result{Out: "bad-op", Pred: "FAIL harness-bad-op newc"}
	}
	spec := specOf(args[0])
	src := spec.src()
	var typ px.Type
	if o := safely(func() { typ = c.ParseType(src) }); o != "" || typ == nil {
		return core.Result{Out: "bad-op", Pred: "FAIL harness-bad-op receiver does not parse: " + src}
	}
	var vals []px.Value
	if o := safely(func() {
		for _, e := range args[1].Args() {
			vals = append(vals, valOf(c, e))
		}
	}); o != "" {
		return core.Result{Out: "bad-args", Pred: "n/a", Tags: []string{"newc.bad-args"}}
	}
	var r px.Value
	out := safely(func() { r = px.New(c, typ, vals...) })
	res := core.Result{Pred: "ok", NonTrivial: len(vals) > 0, Tags: []string{"newc.recv=" + spec.kind}}
	switch {
	case out == "":
		in := false
		o2 := safely(func() { in = px.IsInstance(typ, r) })
		var refOK bool
		var why string
		o3 := safely(func() { refOK, why = spec.accepts(c, r) })
		switch {
		case o2 != "" || o3 != "":
			res.Out = "value-uncheckable"
			res.Pred = "FAIL new-fault-check checking the result of " + src + ".new failed: " + o2 + o3
		case !in:
			res.Out = "value-outside-type"
			res.Pred = fmt.Sprintf("FAIL new-outside-type %s.new returned %s which is not an instance of the receiver", src, short(r))
		case !refOK:
			res.Out = "value-outside-type"
			res.Pred = fmt.Sprintf("FAIL new-outside-declaration %s.new returned %s which IsInstance accepts but the declaration does not (%s)", src, short(r), why)
		default:
			res.Out = "value-in-type"
		}
	case strings.HasPrefix(out, "reported "), out == "error":
		res.Out = out
	default:
		res.Out = "fault"
		res.Pred = fmt.Sprintf("FAIL new-fault-%s %s.new ended in a Go runtime fault instead of a reported error", typ.Name(), src)
	}
	res.Tags = append(res.Tags, "newc.out="+strings.Replace(res.Out, " ", ":", -1))
	return res
}

// ---- generator: witnesses of the spec, key/value/size mutations, every constructor form -----------------------

type centry struct{ k, v string } // w-syntax

func witnessOfType(r *rand.Rand, t string) string {
	switch {
	case strings.HasPrefix(t, "Optional["):
		if r.Intn(3) == 0 {
			return wu
		}
		return witnessOfType(r, t[len("Optional["):len(t)-1])
	case t == "Integer[0,5]":
		return wi(int64(r.Intn(6)))
	case strings.HasPrefix(t, "Integer"):
		return wi(int64(r.Intn(9) + 1))
	case t == "String[1]":
		return ws([]string{"k", "x", "yy"}[r.Intn(3)])
	case strings.HasPrefix(t, "String"):
		return ws([]string{"x", "", "yy", "a"}[r.Intn(4)])
	case strings.HasPrefix(t, "Enum"):
		return ws([]string{"a", "b"}[r.Intn(2)])
	case strings.HasPrefix(t, "Variant"):
		if r.Intn(2) == 0 {
			return wi(int64(r.Intn(5)))
		}
		return ws("v")
	case t == "Boolean":
		return wtrue
	}
	return []string{wi(1), ws("x"), wu, wtrue}[r.Intn(4)]
}

// keys a declaration never names: the empty string, non-strings, an undeclared name, another case
var oddKeys = []string{ws(""), wi(1), ws("z"), ws("A"), wtrue, wu, wa(wi(1)), wf(1.5), wi(0), ws(" ")}
var oddVals = []string{wi(1), ws("x"), wu, wtrue, wa(), wi(7), ws(""), wf(1.5), wh()}

func (s *cspec) witness(r *rand.Rand) []centry {
	var es []centry
	switch s.kind {
	case "struct":
		for _, m := range s.members {
			if !m.opt || r.Intn(2) == 0 {
				es = append(es, centry{ws(m.name), witnessOfType(r, m.vt)})
			}
		}
		if r.Intn(3) == 0 {
			r.Shuffle(len(es), func(i, j int) { es[i], es[j] = es[j], es[i] })
		}
	case "hash":
		hi := s.min + 2
		if s.max != nil && *s.max < hi {
			hi = *s.max
		}
		n := int(s.min) + r.Intn(int(hi-s.min)+1)
		seen := map[string]bool{}
		for tries := 0; len(es) < n && tries < 20; tries++ {
			k := witnessOfType(r, s.kt)
			if strings.HasPrefix(s.kt, "String") && !strings.HasPrefix(s.kt, "String[1") {
				k = ws([]string{"a", "b", "c", "d"}[r.Intn(4)])
			}
			if !seen[k] {
				seen[k] = true
				es = append(es, centry{k, witnessOfType(r, s.vt)})
			}
		}
	}
	return es
}

func mutateEntries(r *rand.Rand, s *cspec, es []centry) []centry {
	es = append([]centry{}, es...)
	declared := func() string {
		if s.kind == "struct" && len(s.members) > 0 {
			return ws(s.members[r.Intn(len(s.members))].name)
		}
		return ws("a")
	}
	switch r.Intn(7) {
	case 0: // a key becomes one the declaration cannot name (same size)
		if len(es) > 0 {
			es[r.Intn(len(es))].k = oddKeys[r.Intn(len(oddKeys))]
		}
	case 1: // an entry is dropped
		if len(es) > 0 {
			k := r.Intn(len(es))
			es = append(es[:k:k], es[k+1:]...)
		}
	case 2: // an extra entry under an odd key
		es = append(es, centry{oddKeys[r.Intn(len(oddKeys))], oddVals[r.Intn(len(oddVals))]})
	case 3: // an extra entry under a declared key (duplicate or the optional one)
		es = append(es, centry{declared(), oddVals[r.Intn(len(oddVals))]})
	case 4: // a value of another kind
		if len(es) > 0 {
			es[r.Intn(len(es))].v = oddVals[r.Intn(len(oddVals))]
		}
	case 5: // a member is replaced: dropped, and an odd key added (size unchanged, member missing)
		if len(es) > 0 {
			k := r.Intn(len(es))
			v := es[k].v
			es = append(es[:k:k], es[k+1:]...)
			es = append(es, centry{oddKeys[r.Intn(len(oddKeys))], v})
		}
	default: // every key odd
		for i := range es {
			es[i].k = oddKeys[(i+r.Intn(3))%len(oddKeys)]
		}
	}
	return es
}

// every way the Hash/Struct constructor takes its entries
func entryForms(es []centry) [][]string {
	var kv, pairs, tree, flat []string
	for _, e := range es {
		kv = append(kv, e.k, e.v)
		pairs = append(pairs, wa(e.k, e.v))
		tree = append(tree, wa(wa(e.k), e.v))
		flat = append(flat, e.k, e.v)
	}
	return [][]string{
		{wh(kv...)},                    // Iterable dispatch: a hash as it is
		{wa(pairs...)},                 // KeyValueArray
		{wa(tree...), ws("tree")},      // TreeArray
		{wa(tree...), ws("hash_tree")}, // TreeArray, arrays become hashes
		{wa(flat...)},                  // flat array
	}
}

func i64p(n int64) *int64 { return &n }

var cStructs = []*cspec{
	{kind: "struct", members: []cmember{{"a", false, "Integer"}}},
	{kind: "struct", members: []cmember{{"a", false, "Integer"}, {"b", false, "Integer"}}},
	{kind: "struct", members: []cmember{{"a", true, "Integer"}}},
	{kind: "struct", members: []cmember{{"a", false, "Integer"}, {"b", true, "String"}}},
	{kind: "struct", members: []cmember{{"a", true, "Integer"}, {"b", true, "String"}}},
	{kind: "struct", members: []cmember{{"a", false, "String"}, {"b", false, "Integer[0,5]"}, {"c", true, "Integer"}}},
	{kind: "struct", members: []cmember{{"a", false, "Variant[Integer,String]"}, {"b", true, "Boolean"}, {"c", true, "Integer"}}},
}

var cHashes = []*cspec{
	{kind: "hash", kt: "String", vt: "Integer", min: 0, max: nil},
	{kind: "hash", kt: "String", vt: "Integer", min: 1, max: i64p(2)},
	{kind: "hash", kt: "String[1]", vt: "Integer", min: 0, max: nil},
	{kind: "hash", kt: "String[1]", vt: "Integer", min: 2, max: i64p(2)},
	{kind: "hash", kt: "Integer", vt: "String", min: 0, max: i64p(3)},
	{kind: "hash", kt: "Enum['a','b']", vt: "Integer[0,5]", min: 1, max: nil},
	{kind: "hash", kt: "Variant[Integer,String]", vt: "Integer", min: 0, max: nil},
	{kind: "hash", kt: "String", vt: "Optional[Integer]", min: 1, max: i64p(1)},
}

var cTuples = []*cspec{
	{kind: "tuple", tts: []string{"Integer", "String"}},
	{kind: "tuple", tts: []string{"Integer"}, sized: true, min: 1, max: i64p(3)},
	{kind: "tuple", tts: []string{"String", "String", "String"}},
	{kind: "tuple", tts: []string{"Integer", "String"}, sized: true, min: 1, max: i64p(2)},
	{kind: "tuple", tts: []string{"Integer", "Optional[String]"}},
	{kind: "tuple", tts: []string{"Integer", "String"}, sized: true, min: 2, max: nil},
	{kind: "array", vt: "Integer", min: 1, max: i64p(2)},
	{kind: "array", vt: "String[1]", min: 0, max: nil},
	{kind: "array", vt: "Variant[Integer,String]", min: 2, max: i64p(3)},
	{kind: "array", vt: "Array[Integer]", min: 1, max: i64p(1)},
}

func genNewC(g *core.G) {
	r := g.Rng
	emit := func(s *cspec, args []string) {
		g.Emit("@newc " + s.sexp().String() + " (args" + pre(args) + ")")
	}
	// small universe for Struct receivers: every set of <= 3 keys out of {a, b, c, '', 1, z} with, per key, an Integer
	// or a String value, as a hash argument and as a key-value array: every size between nothing and all members, with
	// declared, undeclared, empty and non-string keys in every combination
	keys := []string{ws("a"), ws("b"), ws("c"), ws(""), wi(1), ws("z")}
	vals := []string{wi(1), ws("x")}
	var sets [][]centry
	var rec func(from int, cur []centry)
	rec = func(from int, cur []centry) {
		sets = append(sets, append([]centry{}, cur...))
		if len(cur) == 3 {
			return
		}
		for k := from; k < len(keys); k++ {
			for _, v := range vals {
				rec(k+1, append(cur, centry{keys[k], v}))
			}
		}
	}
	rec(0, nil)
	for _, s := range cStructs {
		for i, es := range sets {
			f := entryForms(es)
			emit(s, f[0])
			if i%3 == 0 {
				emit(s, f[1])
			}
		}
	}
	// Hash receivers: every set of <= 2 of those entries
	for _, s := range cHashes {
		for _, es := range sets {
			if len(es) <= 2 {
				emit(s, entryForms(es)[0])
			}
		}
	}
	// random: a witness of the spec, 0..2 mutations, any constructor form
	all := append(append([]*cspec{}, cStructs...), cHashes...)
	for i := 0; i < 4000*g.Scale; i++ {
		s := all[r.Intn(len(all))]
		es := s.witness(r)
		for m := r.Intn(3); m > 0; m-- {
			es = mutateEntries(r, s, es)
		}
		forms := entryForms(es)
		emit(s, forms[r.Intn(len(forms))])
	}
	// Tuple / Array receivers: witnesses, one-point mutations, sizes around the bounds; as array (plain and wrapped), as
	// hash (becomes an array of pairs) and as string
	for i := 0; i < 1500*g.Scale; i++ {
		s := cTuples[r.Intn(len(cTuples))]
		var n int
		var tys []string
		if s.kind == "array" {
			hi := s.min + 2
			if s.max != nil {
				hi = *s.max + 1
			}
			n = int(s.min) - 1 + r.Intn(int(hi-s.min)+2)
			tys = []string{s.vt}
		} else {
			tys = s.tts
			lo, hi := int64(len(tys)), int64(len(tys))
			if s.sized {
				lo, hi = s.min, s.min+2
				if s.max != nil {
					hi = *s.max
				}
			}
			n = int(lo) - 1 + r.Intn(int(hi-lo)+3)
		}
		if n < 0 {
			n = 0
		}
		el := make([]string, n)
		for j := range el {
			tj := j
			if tj > len(tys)-1 {
				tj = len(tys) - 1
			}
			el[j] = witnessOfType(r, tys[tj])
		}
		if r.Intn(3) == 0 && n > 0 {
			el[r.Intn(n)] = oddVals[r.Intn(len(oddVals))]
		}
		switch r.Intn(8) {
		case 0:
			emit(s, []string{wa(el...), wtrue})
		case 1:
			emit(s, []string{wa(el...), wfalse})
		case 2:
			kv := []string{}
			for j, e := range el {
				kv = append(kv, wi(int64(j)), e)
			}
			emit(s, []string{wh(kv...)})
		case 3:
			emit(s, []string{ws([]string{"ab", "x", "", "abc"}[r.Intn(4)])})
		default:
			emit(s, []string{wa(el...)})
		}
	}
}
