// Package c16: dispatch and construction are type-safe (property C16).
//
// ops
//
//		call <lt> <ds> <args> <blk>          (model + implementation)
//		     lt   ::= (lt (NAME ty)*)                      local type aliases handed to px.BuildFunction's LocalTypes
//		     ds   ::= (ds disp*)
//		     disp ::= (d fn|fn2 bop*)                      the builder calls of one dispatch, in order; fn = Function, fn2 = Function2
//		     bop  ::= (req ty) | (opt ty) | (rep ty) | (reqrep ty) | (blk bt) | (optblk bt) | (ret ty)
//		     ty   ::= int | (int LO HI) | str | (str MIN MAX) | (enum xHEX*) | (arr ty) | (var ty*) | (opt ty) | any | undef
//		              | bool | (al NAME)                   LO/HI/MAX may be `d` (default = unbounded)
//		     bt   ::= call | (c MIN MAX)                   Callable | Callable[MIN,MAX]
//		     args ::= (args v*)      v ::= (i N) | (s xHEX) | (b t|f) | (u) | (a v*)
//		     blk  ::= nb | (b MIN MAX)                     no block | a lambda taking MIN..MAX (MAX may be `d`) arguments of type Any
//		   out: ran <i> | reported <CODE> | builder-rejected | fault
//		@new <mode> xTYPE (args w*)          (implementation only: constructors are not modelled; labelled a test)
//		     mode ::= t (type receiver, px.New) | s (string receiver) | f (through the `new` function)
//		     w    ::= v | (f BITS) | (d) | (h (w w)*) | (t xHEX) | (bin xHEX) | (mk xTYPE w*)
//		   out: value-in-type | value-outside-type | reported <CODE> | fault | bad-receiver
//
//		coerce <ty | (alias ty)> <v>         (model + implementation) types.CoerceTo: instance test, one Optional removed, Array /
//		       Hash / Struct element-wise, else new(type, value); out as newm
//
//		cancoerce <ty | (alias ty)> <v>      (model + implementation) types.CanCoerce
//		initinst <recv> <v>                  (model + implementation) px.IsInstance(recv, v), recv as for newm
//		initasg (init ty v*) <ty>            (model + implementation) px.IsAssignable(Init[ty, v…], ty)
//
//	  @newc <spec> (args w*)               (implementation only) new on a constrained Struct/Hash/Tuple/Array receiver given as a
//	       specification; the result is checked by px.IsInstance AND member by member against the spec (newc.go)
//
// Direct predicates (classes): not-first, outside-declaration-{arity,param,block}, match-but-reported,
// nomatch-not-reported, wrong-error, args-altered, fault; new-outside-type, new-fault-<receiver kind>.
package c16

import (
	"fmt"
	"math"
	"os"
	"runtime"
	"runtime/debug"
	"strconv"
	"strings"
	"time"
	"unicode/utf8"

	"verif/harness/core"
	"verif/harness/sx"

	"github.com/lyraproj/issue/issue"
	"github.com/lyraproj/pcore/px"
	"github.com/lyraproj/pcore/types"
)

func init() {
	core.Register(&core.Prop{
		ID:   "C16",
		Rule: "distinct op lines; non-trivial = call: the table was accepted by the builder and has a dispatch with at least one parameter; new: the receiver has a constructor and at least one argument was given",
		Gen:  gen,
		Exec: exec,
	})
}

// ---- type terms ---------------------------------------------------------------------------------------

type ty struct {
	tag    string // int str enum arr var opt any undef bool al flt num
	lo, hi *int64 // int / str bounds (nil = default); flt: the IEEE bits of the bound
	kids   []*ty
	strs   []string // enum values / struct member names
	opts   []bool   // struct: the member's key is Optional[…]
	name   string
}

func bound(e sx.Sexp) *int64 {
	if !e.IsList && e.Atom == "d" {
		return nil
	}
	n := e.MustInt()
	return &n
}

// fbound: `d` or the IEEE bits of a float bound (decimal uint64), kept in an int64
func fbound(e sx.Sexp) *int64 {
	if !e.IsList && e.Atom == "d" {
		return nil
	}
	u, err := strconv.ParseUint(e.Atom, 10, 64)
	if err != nil || e.IsList {
		panic(fmt.Errorf("bad float bound %s", e))
	}
	n := int64(u)
	return &n
}

// fstr renders a float bound as Puppet source (always with a fraction or an exponent, so that it lexes as a float)
func fstr(b *int64) string {
	if b == nil {
		return "default"
	}
	s := strconv.FormatFloat(math.Float64frombits(uint64(*b)), 'f', -1, 64)
	if !strings.ContainsAny(s, ".") {
		s += ".0"
	}
	return s
}

func tyOf(e sx.Sexp) *ty {
	if !e.IsList {
		switch e.Atom {
		case "int", "str", "any", "undef", "bool", "flt", "num", "bin", "tsp":
			return &ty{tag: e.Atom}
		}
		panic(fmt.Errorf("bad type %s", e))
	}
	a := e.Args()
	switch e.Tag() {
	case "int", "str":
		if len(a) != 2 {
			panic(fmt.Errorf("bad type %s", e))
		}
		return &ty{tag: e.Tag(), lo: bound(a[0]), hi: bound(a[1])}
	case "flt":
		if len(a) != 2 {
			panic(fmt.Errorf("bad type %s", e))
		}
		return &ty{tag: "flt", lo: fbound(a[0]), hi: fbound(a[1])}
	case "tsp":
		if len(a) != 2 {
			panic(fmt.Errorf("bad type %s", e))
		}
		return &ty{tag: "tsp", lo: bound(a[0]), hi: bound(a[1])} // whole seconds
	case "enum":
		t := &ty{tag: "enum"}
		for _, s := range a {
			t.strs = append(t.strs, s.MustStr())
		}
		return t
	case "arr", "opt", "nu":
		if len(a) != 1 {
			panic(fmt.Errorf("bad type %s", e))
		}
		return &ty{tag: e.Tag(), kids: []*ty{tyOf(a[0])}}
	case "tuple":
		t := &ty{tag: "tuple"}
		for _, k := range a {
			t.kids = append(t.kids, tyOf(k))
		}
		return t
	case "hash":
		if len(a) != 4 {
			panic(fmt.Errorf("bad type %s", e))
		}
		lo := a[2].MustInt()
		return &ty{tag: "hash", kids: []*ty{tyOf(a[0]), tyOf(a[1])}, lo: &lo, hi: bound(a[3])}
	case "struct":
		t := &ty{tag: "struct"}
		for _, m := range a {
			if len(m.List) != 3 || (m.List[1].Atom != "req" && m.List[1].Atom != "opt") {
				panic(fmt.Errorf("bad member %s", m))
			}
			t.strs = append(t.strs, m.List[0].MustStr())
			t.opts = append(t.opts, m.List[1].Atom == "opt")
			t.kids = append(t.kids, tyOf(m.List[2]))
		}
		return t
	case "arrn":
		if len(a) != 3 {
			panic(fmt.Errorf("bad type %s", e))
		}
		return &ty{tag: "arr", kids: []*ty{tyOf(a[0])}, lo: bound(a[1]), hi: bound(a[2])}
	case "var":
		t := &ty{tag: "var"}
		for _, k := range a {
			t.kids = append(t.kids, tyOf(k))
		}
		return t
	case "al":
		if len(a) != 1 || a[0].IsList {
			panic(fmt.Errorf("bad type %s", e))
		}
		return &ty{tag: "al", name: a[0].Atom}
	}
	panic(fmt.Errorf("bad type %s", e))
}

func bstr(b *int64) string {
	if b == nil {
		return "default"
	}
	return strconv.FormatInt(*b, 10)
}

func quote(s string) string {
	return "'" + strings.Replace(strings.Replace(s, `\`, `\\`, -1), `'`, `\'`, -1) + "'"
}

// src renders the Puppet type expression; with env != nil aliases are expanded textually (the independent
// reference never sees LocalTypes)
func (t *ty) src(env map[string]*ty, depth int) string {
	switch t.tag {
	case "int":
		if t.lo == nil && t.hi == nil {
			return "Integer"
		}
		return "Integer[" + bstr(t.lo) + "," + bstr(t.hi) + "]"
	case "str":
		if t.lo == nil && t.hi == nil {
			return "String"
		}
		if t.hi == nil {
			return "String[" + bstr(t.lo) + "]" // the String factory does not take `default`
		}
		if t.lo == nil {
			return "String[0," + bstr(t.hi) + "]"
		}
		return "String[" + bstr(t.lo) + "," + bstr(t.hi) + "]"
	case "enum":
		qs := make([]string, len(t.strs))
		for i, s := range t.strs {
			qs[i] = quote(s)
		}
		return "Enum[" + strings.Join(qs, ",") + "]"
	case "arr":
		if t.lo != nil {
			return "Array[" + t.kids[0].src(env, depth) + "," + bstr(t.lo) + "," + bstr(t.hi) + "]"
		}
		return "Array[" + t.kids[0].src(env, depth) + "]"
	case "opt":
		return "Optional[" + t.kids[0].src(env, depth) + "]"
	case "nu":
		return "NotUndef[" + t.kids[0].src(env, depth) + "]"
	case "tuple":
		ks := make([]string, len(t.kids))
		for i, k := range t.kids {
			ks[i] = k.src(env, depth)
		}
		return "Tuple[" + strings.Join(ks, ",") + "]"
	case "hash":
		return "Hash[" + t.kids[0].src(env, depth) + "," + t.kids[1].src(env, depth) + "," + bstr(t.lo) + "," + bstr(t.hi) + "]"
	case "struct":
		ms := make([]string, len(t.kids))
		for i, k := range t.kids {
			key := quote(t.strs[i])
			if t.opts[i] {
				key = "Optional[" + key + "]"
			}
			ms[i] = key + "=>" + k.src(env, depth)
		}
		return "Struct[{" + strings.Join(ms, ",") + "}]"
	case "var":
		ks := make([]string, len(t.kids))
		for i, k := range t.kids {
			ks[i] = k.src(env, depth)
		}
		return "Variant[" + strings.Join(ks, ",") + "]"
	case "flt":
		if t.lo == nil && t.hi == nil {
			return "Float"
		}
		return "Float[" + fstr(t.lo) + "," + fstr(t.hi) + "]"
	case "num":
		return "Numeric"
	case "bin":
		return "Binary"
	case "tsp":
		if t.lo == nil && t.hi == nil {
			return "Timespan"
		}
		return "Timespan[" + bstr(t.lo) + "," + bstr(t.hi) + "]"
	case "any":
		return "Any"
	case "undef":
		return "Undef"
	case "bool":
		return "Boolean"
	case "al":
		if env != nil && depth < 8 {
			if d, ok := env[t.name]; ok {
				return d.src(env, depth+1)
			}
		}
		return t.name
	}
	panic("bad ty")
}

// ---- values -------------------------------------------------------------------------------------------

func valOf(c px.Context, e sx.Sexp) px.Value {
	a := e.Args()
	switch e.Tag() {
	case "i":
		return types.WrapInteger(a[0].MustInt())
	case "s":
		return types.WrapString(a[0].MustStr())
	case "b":
		return types.WrapBoolean(a[0].MustBool())
	case "u":
		return px.Undef
	case "a":
		vs := make([]px.Value, len(a))
		for i, k := range a {
			vs[i] = valOf(c, k)
		}
		return types.WrapValues(vs)
	// the remaining forms are used by `new` only
	case "f":
		u, err := strconv.ParseUint(a[0].Atom, 10, 64)
		if err != nil {
			panic(err)
		}
		return types.WrapFloat(math.Float64frombits(u))
	case "d":
		return types.WrapDefault()
	case "h":
		es := []*types.HashEntry{}
		for _, kv := range a {
			es = append(es, types.WrapHashEntry(valOf(c, kv.List[0]), valOf(c, kv.List[1])))
		}
		return types.WrapHash(es)
	case "t":
		return c.ParseType(a[0].MustStr())
	case "bin":
		return types.WrapBinary([]byte(a[0].MustStr()))
	case "ts":
		return types.WrapTimespan(time.Duration(a[0].MustInt()))
	case "mk":
		t := c.ParseType(a[0].MustStr())
		vs := make([]px.Value, len(a)-1)
		for i, k := range a[1:] {
			vs[i] = valOf(c, k)
		}
		return px.New(c, t, vs...)
	}
	panic(fmt.Errorf("bad value %s", e))
}

// ---- outcome classification -----------------------------------------------------------------------------

type builderPanic struct{ msg string }

// safely runs f; a recovered panic is mapped to the canonical enum
func safely(f func()) (outcome string) {
	defer func() {
		if e := recover(); e != nil {
			if os.Getenv("VERIF_DEBUG") != "" {
				fmt.Fprintf(os.Stderr, "recovered: %v\n%s\n", e, debug.Stack())
			}
			outcome = classify(e)
		}
	}()
	f()
	return ""
}

func classify(e interface{}) string {
	switch e := e.(type) {
	case issue.Reported:
		if strings.Contains(e.Error(), "runtime error:") || strings.Contains(e.Error(), "interface conversion") {
			return "fault"
		}
		return "reported " + strings.TrimPrefix(string(e.Code()), "PCORE_")
	case string:
		// the dispatch builder panics with plain strings
		return "panic-string"
	case runtime.Error:
		return "fault"
	case error:
		if strings.Contains(e.Error(), "runtime error:") || strings.Contains(e.Error(), "interface conversion") {
			return "fault"
		}
		// a deliberate panic(fmt.Errorf(…)) / panic(errors.New(…)): an error, but not an issue.Reported
		return "error"
	default:
		return "fault"
	}
}

// ---- call ---------------------------------------------------------------------------------------------

type bop struct {
	kind string // req opt rep reqrep blk optblk ret
	t    *ty
	bt   *btype
}

type btype struct {
	any      bool
	min, max *int64
	types    []string // parameter types (atoms any str int num bool) of Callable[T1,…,Tn,min,max]; nil: Callable[min,max]
}

// the parameter types of blocks and declared block types: a small family with evident assignability
var bpName = map[string]string{"any": "Any", "str": "String", "int": "Integer", "num": "Numeric", "bool": "Boolean"}

func bpList(e sx.Sexp) []string {
	if !e.IsList {
		panic(fmt.Errorf("bad parameter type list %s", e))
	}
	ps := []string{}
	for _, p := range e.List {
		if p.IsList || bpName[p.Atom] == "" {
			panic(fmt.Errorf("bad parameter type %s", p))
		}
		ps = append(ps, p.Atom)
	}
	return ps
}

func (b *btype) src() string {
	if b.any {
		return "Callable"
	}
	var sb strings.Builder
	sb.WriteString("Callable[")
	for _, p := range b.types {
		sb.WriteString(bpName[p] + ",")
	}
	sb.WriteString(bstr(b.min) + "," + bstr(b.max) + "]")
	return sb.String()
}

type disp struct {
	fn2 bool
	ops []bop
}

func btOf(e sx.Sexp) *btype {
	if !e.IsList && e.Atom == "call" {
		return &btype{any: true}
	}
	a := e.Args()
	if e.Tag() == "ct" && len(a) == 3 {
		b := &btype{types: bpList(a[0]), min: bound(a[1]), max: bound(a[2])}
		if b.min == nil {
			panic(fmt.Errorf("bad block type %s", e))
		}
		return b
	}
	if e.Tag() != "c" || len(a) != 2 {
		panic(fmt.Errorf("bad block type %s", e))
	}
	b := &btype{min: bound(a[0]), max: bound(a[1])}
	if b.min == nil {
		panic(fmt.Errorf("bad block type %s", e))
	}
	return b
}

func dispOf(e sx.Sexp) *disp {
	a := e.Args()
	if e.Tag() != "d" || len(a) < 1 || a[0].IsList || (a[0].Atom != "fn" && a[0].Atom != "fn2") {
		panic(fmt.Errorf("bad dispatch %s", e))
	}
	d := &disp{fn2: a[0].Atom == "fn2"}
	for _, o := range a[1:] {
		oa := o.Args()
		if len(oa) != 1 {
			panic(fmt.Errorf("bad builder op %s", o))
		}
		switch o.Tag() {
		case "req", "opt", "rep", "reqrep", "ret":
			d.ops = append(d.ops, bop{kind: o.Tag(), t: tyOf(oa[0])})
		case "blk", "optblk":
			d.ops = append(d.ops, bop{kind: o.Tag(), bt: btOf(oa[0])})
		default:
			panic(fmt.Errorf("bad builder op %s", o))
		}
	}
	return d
}

type blockSpec struct {
	min   int64
	max   *int64
	types []string // one per parameter (atoms); nil: every parameter is Any — max of them, or min and a repeated one
}

// params: the parameter types of the lambda in order; with an unbounded max the last one is the repeated parameter
func (b *blockSpec) params() []string {
	if b.types != nil {
		return b.types
	}
	n := b.min + 1
	if b.max != nil {
		n = *b.max
	}
	ps := make([]string, n)
	for i := range ps {
		ps[i] = "any"
	}
	return ps
}

// declaration as the *reference* reads the builder calls: parameters in order of appearance, the block
// requirement of the last block call
type decl struct {
	params []bop
	block  string // none required optional
	bt     *btype
}

func (d *disp) decl() *decl {
	r := &decl{block: "none"}
	for _, o := range d.ops {
		switch o.kind {
		case "req", "opt", "rep", "reqrep":
			r.params = append(r.params, o)
		case "blk":
			r.block, r.bt = "required", o.bt
		case "optblk":
			r.block, r.bt = "optional", o.bt
		}
	}
	return r
}

// accepts: the independent reference (px.IsInstance on types parsed from alias-expanded text; own arithmetic
// for arity and block).  Returns "" or the reason of rejection (arity, param, block).
func (r *decl) accepts(c px.Context, env map[string]*ty, args []px.Value, blk *blockSpec, block px.Lambda, cache map[string]px.Type) string {
	switch r.block {
	case "none":
		if blk != nil {
			return "block"
		}
	case "required":
		if blk == nil || !blockAccepts(c, r.bt, blk, cache) {
			return "block"
		}
	case "optional":
		if blk != nil && !blockAccepts(c, r.bt, blk, cache) {
			return "block"
		}
	}
	n := len(args)
	k := len(r.params)
	min := 0
	unbounded := false
	for i, p := range r.params {
		if p.kind == "req" || p.kind == "reqrep" {
			min = i + 1 // every parameter up to a required one must be given
		}
		if p.kind == "rep" || p.kind == "reqrep" {
			unbounded = true
		}
	}
	if n < min || (!unbounded && n > k) {
		return "arity"
	}
	for j, a := range args {
		pj := j
		if pj > k-1 {
			pj = k - 1
		}
		s := r.params[pj].t.src(env, 0)
		t, ok := cache[s]
		if !ok {
			t = c.ParseType(s)
			cache[s] = t
		}
		if !px.IsInstance(t, a) {
			return "param"
		}
	}
	return ""
}

// blockAccepts: the block requirement of the reference, read off the MEANING of a declared block type: the body may call the
// block with every argument count k the declaration allows, argument j being of the declared type at position min(j, last)
// (untyped: Any) — the block must take every such call: k within its own arity, and its parameter at position min(j, last)
// accepting the declared type.  Only the assignability of single parameter types is asked of pcore (px.IsAssignable on two
// scalar types); no Callable or Tuple rule of pcore takes part.  (The first reference re-implemented CallableWith's size
// comparison, the second asked px.IsInstance(declared, block), which shares Tuple.IsAssignable with CallableWith and so
// shares its defects — seeded change C16-s12; px.IsInstance is still evaluated, as the predicate block-instance-disagrees.)
func blockAccepts(c px.Context, bt *btype, blk *blockSpec, cache map[string]px.Type) bool {
	if bt.any {
		return true
	}
	ps := blk.params()
	ds := bt.types // none: Callable[min,max] says nothing about the types the block is called with (pcore: Unit) — arity only
	tyOfAtom := func(a string) px.Type {
		s := bpName[a]
		t, ok := cache[s]
		if !ok {
			t = c.ParseType(s)
			cache[s] = t
		}
		return t
	}
	top := int64(len(ds))
	if int64(len(ps)) > top {
		top = int64(len(ps))
	}
	kmax := top + 1 // an unbounded declaration: one call beyond both lists shows the repeated parameters
	if bt.max != nil {
		kmax = *bt.max
	} else if blk.max != nil {
		return false
	}
	if kmax < *bt.min {
		// a minimum beyond both lists (Callable[T, 3, default]): the smallest call the declaration allows must still be looked at
		kmax = *bt.min
	}
	for k := *bt.min; k <= kmax; k++ {
		if k < blk.min || (blk.max != nil && k > *blk.max) {
			return false
		}
		for j := int64(0); j < k && len(ds) > 0; j++ {
			pj, dj := j, j
			if pj > int64(len(ps))-1 {
				pj = int64(len(ps)) - 1
			}
			if dj > int64(len(ds))-1 {
				dj = int64(len(ds)) - 1
			}
			if pj < 0 || !px.IsAssignable(tyOfAtom(ps[pj]), tyOfAtom(ds[dj])) {
				return false
			}
		}
	}
	return true
}

// blockIsInstance: px.IsInstance(declared block type, block) — the library's own answer, compared with blockAccepts
func blockIsInstance(c px.Context, bt *btype, block px.Lambda, cache map[string]px.Type) bool {
	s := bt.src()
	t, ok := cache[s]
	if !ok {
		t = c.ParseType(s)
		cache[s] = t
	}
	return px.IsInstance(t, block)
}

func makeBlock(c px.Context, b *blockSpec) px.Lambda {
	ps := b.params()
	f := px.BuildFunction("blk", nil, []px.DispatchCreator{func(d px.Dispatch) {
		for i, p := range ps {
			switch {
			case b.max == nil && i == len(ps)-1 && int64(i) < b.min:
				d.RequiredRepeatedParam(bpName[p])
			case b.max == nil && i == len(ps)-1:
				d.RepeatedParam(bpName[p])
			case int64(i) < b.min:
				d.Param(bpName[p])
			default:
				d.OptionalParam(bpName[p])
			}
		}
		d.Function(func(c px.Context, args []px.Value) px.Value { return px.Undef })
	}}).Resolve(c)
	return f.Dispatchers()[0]
}

func execCall(c px.Context, args []sx.Sexp) core.Result {
	if len(args) != 4 || args[0].Tag() != "lt" || args[1].Tag() != "ds" || args[2].Tag() != "args" {
		return core.Result{Out: "bad-op", Pred: "FAIL harness-bad-op call"}
	}
	env := map[string]*ty{}
	type alias struct {
		name string
		t    *ty
	}
	var aliases []alias
	for _, e := range args[0].Args() {
		if !e.IsList || len(e.List) != 2 || e.List[0].IsList {
			return core.Result{Out: "bad-op", Pred: "FAIL harness-bad-op lt"}
		}
		a := alias{e.List[0].Atom, tyOf(e.List[1])}
		aliases = append(aliases, a)
		env[a.name] = a.t
	}
	var ds []*disp
	for _, e := range args[1].Args() {
		ds = append(ds, dispOf(e))
	}
	var vals []px.Value
	for _, e := range args[2].Args() {
		switch e.Tag() {
		case "i", "s", "b", "u", "a", "d", "h":
		default:
			return core.Result{Out: "bad-op", Pred: "FAIL harness-bad-op value"}
		}
		vals = append(vals, valOf(c, e))
	}
	blk, okb := parseBlk(args[3])
	if !okb {
		return core.Result{Out: "bad-op", Pred: "FAIL harness-bad-op blk"}
	}

	tags := []string{fmt.Sprintf("call.dispatches=%d", len(ds)), fmt.Sprintf("call.args=%d", len(vals))}
	if blk != nil {
		tags = append(tags, "call.block")
	}
	if len(aliases) > 0 {
		tags = append(tags, "call.aliases")
	}

	// ---- the implementation ----
	type ranRec struct {
		idx   int
		args  []px.Value
		block px.Lambda
	}
	var ran []ranRec
	var lt px.LocalTypesCreator
	if len(aliases) > 0 {
		lt = func(l px.LocalTypes) {
			for _, a := range aliases {
				l.Type(a.name, a.t.src(nil, 0))
			}
		}
	}
	creators := make([]px.DispatchCreator, len(ds))
	for i, d := range ds {
		i, d := i, d
		creators[i] = func(b px.Dispatch) {
			for _, o := range d.ops {
				switch o.kind {
				case "req":
					b.Param(o.t.src(nil, 0))
				case "opt":
					b.OptionalParam(o.t.src(nil, 0))
				case "rep":
					b.RepeatedParam(o.t.src(nil, 0))
				case "reqrep":
					b.RequiredRepeatedParam(o.t.src(nil, 0))
				case "blk":
					b.Block(o.bt.src())
				case "optblk":
					b.OptionalBlock(o.bt.src())
				case "ret":
					b.Returns(o.t.src(nil, 0))
				}
			}
			if d.fn2 {
				b.Function2(func(c px.Context, a []px.Value, bl px.Lambda) px.Value {
					ran = append(ran, ranRec{i, a, bl})
					return px.Undef
				})
			} else {
				b.Function(func(c px.Context, a []px.Value) px.Value {
					ran = append(ran, ranRec{i, a, nil})
					return px.Undef
				})
			}
		}
	}
	var rf px.ResolvableFunction
	var f px.Function
	var block px.Lambda
	out := safely(func() { rf = px.BuildFunction("f", lt, creators) })
	if out == "panic-string" {
		// required after optional, anything after repeated, Function2 without a block, Block after Returns …
		tags = append(tags, "call.builder-rejected")
		return core.Result{Out: "builder-rejected", Pred: "ok", Tags: tags}
	}
	if out == "" {
		out = safely(func() { f = rf.Resolve(c) })
		if out != "" {
			tags = append(tags, "call.resolve-failed")
		}
	}
	if out == "" && blk != nil {
		out = safely(func() { block = makeBlock(c, blk) })
		if out != "" {
			return core.Result{Out: "bad-op", Pred: "FAIL harness-bad-op cannot build the block: " + out}
		}
	}
	resolved := out == ""
	if out == "" {
		out = safely(func() { f.Call(c, block, vals...) })
		if out == "" {
			switch len(ran) {
			case 0:
				out = "returned-without-body"
			case 1:
				out = fmt.Sprintf("ran %d", ran[0].idx)
			default:
				out = "ran-several"
			}
		} else if len(ran) > 0 {
			out = "fault" // a body ran and the call still panicked (bodies never panic)
		}
	}
	if out == "panic-string" {
		out = "fault"
	}

	nt := false
	for _, d := range ds {
		if len(d.decl().params) > 0 {
			nt = true
		}
	}
	res := core.Result{Out: out, Pred: "ok", NonTrivial: nt, Tags: tags}
	if !resolved {
		// the table did not resolve (unknown alias …): outside the property's quantifier unless it is a fault
		if out == "fault" {
			res.Pred = "FAIL fault building or resolving the function ended in a Go runtime fault"
		} else {
			res.Pred = "n/a"
		}
		res.Tags = append(res.Tags, "call.out="+strings.Replace(out, " ", ":", -1))
		return res
	}

	// ---- the independent reference ----
	cache := map[string]px.Type{}
	first := -1
	reasons := make([]string, len(ds))
	refErr := safely(func() {
		for i, d := range ds {
			reasons[i] = d.decl().accepts(c, env, vals, blk, block, cache)
			if reasons[i] == "" && first < 0 {
				first = i
			}
		}
	})
	if refErr != "" {
		res.Pred = "n/a"
		return res
	}
	res.Tags = append(res.Tags, "call.out="+strings.SplitN(out, " ", 2)[0])
	if first >= 0 {
		res.Tags = append(res.Tags, fmt.Sprintf("call.ref-first=%d", first))
	} else {
		res.Tags = append(res.Tags, "call.ref-nomatch")
	}
	switch {
	case out == "fault":
		res.Pred = fmt.Sprintf("FAIL fault the call ended in a Go runtime fault (reference: first match %d)", first)
	case strings.HasPrefix(out, "ran "):
		i := ran[0].idx
		switch {
		case reasons[i] != "":
			res.Pred = fmt.Sprintf("FAIL outside-declaration-%s body %d ran although its declaration rejects the arguments (%s)", reasons[i], i, reasons[i])
		case first < i:
			res.Pred = fmt.Sprintf("FAIL not-first body %d ran although dispatch %d accepts the arguments", i, first)
		case !sameArgs(ran[0].args, vals) || (d2(ds[i]) && ran[0].block != block):
			res.Pred = fmt.Sprintf("FAIL args-altered body %d received other arguments than the caller passed", i)
		}
	case strings.HasPrefix(out, "reported "):
		switch {
		case first >= 0:
			res.Pred = fmt.Sprintf("FAIL match-but-reported dispatch %d accepts the arguments but the call raised %s", first, out)
		case out != "reported ILLEGAL_ARGUMENTS":
			res.Pred = fmt.Sprintf("FAIL wrong-error no dispatch matches; expected ILLEGAL_ARGUMENTS, got %s", out)
		}
	default:
		res.Pred = fmt.Sprintf("FAIL nomatch-not-reported the call neither ran exactly one body nor raised a reported error: %s", out)
	}
	if res.Pred == "ok" && blk != nil {
		// the library's own "the block is an instance of the declared block type" must say what the declaration means
		for i, d := range ds {
			dc := d.decl()
			if dc.bt == nil || !d.fn2 {
				continue
			}
			inst, acc := false, blockAccepts(c, dc.bt, blk, cache)
			if o := safely(func() { inst = blockIsInstance(c, dc.bt, block, cache) }); o != "" || inst != acc {
				res.Pred = fmt.Sprintf("FAIL block-instance-disagrees dispatch %d: px.IsInstance(%s, block) = %v%s but the block %s take every call the declaration allows", i, dc.bt.src(), inst, o, map[bool]string{true: "does", false: "does not"}[acc])
				break
			}
		}
	}
	return res
}

func d2(d *disp) bool { return d.fn2 }

func sameArgs(a, b []px.Value) bool {
	if len(a) != len(b) {
		return false
	}
	for i := range a {
		if a[i] != b[i] && !a[i].Equals(b[i], nil) {
			return false
		}
	}
	return true
}

// ---- new ----------------------------------------------------------------------------------------------

func execNew(c px.Context, args []sx.Sexp) core.Result {
	if len(args) != 3 || args[0].IsList || args[2].Tag() != "args" {
		return core.Result{Out: "bad-op", Pred: "FAIL harness-bad-op new"}
	}
	mode := args[0].Atom
	src := args[1].MustStr()
	var typ px.Type
	if o := safely(func() { typ = c.ParseType(src) }); o != "" || typ == nil {
		return core.Result{Out: "bad-receiver", Pred: "n/a", Tags: []string{"new.bad-receiver"}}
	}
	var vals []px.Value
	if o := safely(func() {
		for _, e := range args[2].Args() {
			vals = append(vals, valOf(c, e))
		}
	}); o != "" {
		return core.Result{Out: "bad-args", Pred: "n/a", Tags: []string{"new.bad-args"}}
	}
	var r px.Value
	out := safely(func() {
		switch mode {
		case "t":
			r = px.New(c, typ, vals...)
		case "s":
			r = px.New(c, types.WrapString(src), vals...)
		case "f":
			fn, ok := px.Load(c, px.NewTypedName(px.NsFunction, "new"))
			if !ok {
				panic(fmt.Errorf("function new not found"))
			}
			r = fn.(px.Function).Call(c, nil, append([]px.Value{typ}, vals...)...)
		default:
			panic(fmt.Errorf("bad mode"))
		}
	})
	name := typ.Name()
	tags := []string{"new.recv=" + name, "new.mode=" + mode}
	res := core.Result{Pred: "ok", NonTrivial: len(vals) > 0, Tags: tags}
	switch {
	case out == "":
		if r == nil {
			res.Out = "nil-value"
			res.Pred = "FAIL new-outside-type new returned a nil value"
			break
		}
		in := false
		expected := typ
		if it, ok := typ.(*types.InitType); ok && it.Type() != nil {
			// Init[T] describes what T can be created *from*; T.new is what runs and T is what must come out
			expected = it.Type()
		}
		o2 := safely(func() { in = px.IsInstance(expected, r) })
		switch {
		case o2 != "":
			res.Out = "value-uncheckable"
			res.Pred = "FAIL new-fault IsInstance(receiver, result) itself failed: " + o2
		case in:
			res.Out = "value-in-type"
		default:
			res.Out = "value-outside-type"
			res.Pred = fmt.Sprintf("FAIL new-outside-type %s.new returned %s which is not an instance of the receiver", src, short(r))
		}
	case strings.HasPrefix(out, "reported "):
		res.Out = out
		if out == "reported INSTANCE_DOES_NOT_RESPOND" || out == "reported CTOR_NOT_FOUND" {
			res.NonTrivial = false
		}
	case out == "error":
		// a deliberate panic(fmt.Errorf(…)) — pcore's Try treats it like a reported error; it is an error that was
		// raised on purpose, not a runtime fault, and it is accepted (ParseType, NewObjectValue argument counts)
		res.Out = out
	default:
		res.Out = "fault"
		// the class names the receiver kind so that faults with different roots are reported separately
		res.Pred = fmt.Sprintf("FAIL new-fault-%s %s.new ended in a Go runtime fault instead of a reported error", strings.Replace(name, "::", ".", -1), src)
	}
	res.Tags = append(res.Tags, "new.out="+strings.Replace(res.Out, " ", ":", -1))
	return res
}

// execNewM: `newm <recv> (args v*)` with recv ::= ty | (init ty) | (init) — the modelled constructors (Integer, Boolean,
// Array) and the receivers without constructor, on the alphabet values; the result value itself is compared
func execNewM(c px.Context, args []sx.Sexp) core.Result {
	if len(args) != 2 || args[1].Tag() != "args" {
		return core.Result{Out: "bad-op", Pred: "FAIL harness-bad-op newm"}
	}
	var vals []px.Value
	for _, e := range args[1].Args() {
		switch e.Tag() {
		case "i", "s", "b", "u", "a", "d", "h", "f", "bin", "ts":
		default:
			return core.Result{Out: "bad-op", Pred: "FAIL harness-bad-op value"}
		}
		vals = append(vals, valOf(c, e))
	}
	var typ, expected px.Type
	var src, contained string
	if o := safely(func() { typ, expected, src, contained = newmRecvOf(c, args[0]) }); o != "" || typ == nil {
		return core.Result{Out: "bad-op", Pred: "FAIL harness-bad-op receiver does not parse: " + args[0].String()}
	}
	var r px.Value
	out := safely(func() { r = px.New(c, typ, vals...) })
	res := core.Result{Pred: "ok", NonTrivial: len(vals) > 0, Tags: []string{"newm.recv=" + typ.Name()}}
	switch {
	case out == "":
		res.Out = "value " + alphaStr(r)
		in := false
		if o2 := safely(func() { in = expected != nil && px.IsInstance(expected, r) }); o2 != "" || !in {
			res.Pred = fmt.Sprintf("FAIL new-outside-type %s.new returned %s which is not an instance of %s", src, short(r), contained)
		}
		res.Tags = append(res.Tags, "newm.out=value")
	case strings.HasPrefix(out, "reported "):
		res.Out = out
		res.Tags = append(res.Tags, "newm.out="+strings.Replace(out, " ", ":", -1))
	default:
		res.Out = out
		res.Pred = fmt.Sprintf("FAIL new-fault-%s %s.new ended in %s instead of a value or a reported error", typ.Name(), src, out)
	}
	return res
}

// newmTypeOf: the type a receiver term denotes; `(alias T)` is a type alias built with the public constructor (it has a
// name of its own under which no constructor is registered), everything else is parsed from its Puppet text
func newmTypeOf(c px.Context, e sx.Sexp) (px.Type, string) {
	if e.Tag() == "alias" {
		a := e.Args()
		if len(a) != 1 {
			panic(fmt.Errorf("bad alias %s", e))
		}
		inner, src := newmTypeOf(c, a[0])
		return types.NewTypeAliasType("B4Alias", nil, inner), "B4Alias=" + src
	}
	src := tyOf(e).src(nil, 0)
	return c.ParseType(src), src
}

// newmRecvOf: recv ::= ty | (alias ty) | (init) | (init recv-type v*) — the receiver, the type the result must be an
// instance of (nil for the default Init) and their texts.  Init[T] without init arguments goes through the type parser,
// with init arguments (or around an alias) through types.NewInitType
func newmRecvOf(c px.Context, e sx.Sexp) (typ, expected px.Type, src, contained string) {
	if e.Tag() != "init" {
		typ, src = newmTypeOf(c, e)
		return typ, typ, src, src
	}
	ia := e.Args()
	if len(ia) == 0 {
		return c.ParseType("Init"), nil, "Init", ""
	}
	expected, contained = newmTypeOf(c, ia[0])
	if len(ia) == 1 && ia[0].Tag() != "alias" {
		src = "Init[" + contained + "]"
		return c.ParseType(src), expected, src, contained
	}
	var initArgs []px.Value
	for _, a := range ia[1:] {
		switch a.Tag() {
		case "i", "s", "b", "u", "a", "d", "h", "f", "bin", "ts":
		default:
			panic(fmt.Errorf("bad init argument %s", a))
		}
		initArgs = append(initArgs, valOf(c, a))
	}
	src = "Init[" + contained + ",…]"
	var it *types.InitType
	if len(initArgs) == 0 {
		it = types.NewInitType(expected, nil)
	} else {
		it = types.NewInitType(expected, types.WrapValues(initArgs))
	}
	return it, expected, src, contained
}

// execCoerce: `coerce <ty | (alias ty)> <v>` — types.CoerceTo on the alphabet; the result value is compared with the model
// and must be an instance of the REQUESTED type
func execCoerce(c px.Context, args []sx.Sexp) core.Result {
	if len(args) != 2 {
		return core.Result{Out: "bad-op", Pred: "FAIL harness-bad-op coerce"}
	}
	switch args[1].Tag() {
	case "i", "s", "b", "u", "a", "d", "h", "f", "bin", "ts":
	default:
		return core.Result{Out: "bad-op", Pred: "FAIL harness-bad-op value"}
	}
	v := valOf(c, args[1])
	var typ px.Type
	var src string
	if o := safely(func() { typ, src = newmTypeOf(c, args[0]) }); o != "" || typ == nil {
		return core.Result{Out: "bad-op", Pred: "FAIL harness-bad-op type does not parse: " + args[0].String()}
	}
	var r px.Value
	out := safely(func() { r = types.CoerceTo(c, "x", typ, v) })
	res := core.Result{Pred: "ok", NonTrivial: true, Tags: []string{"coerce.type=" + typ.Name()}}
	switch {
	case out == "":
		res.Out = "value " + alphaStr(r)
		in := false
		if o2 := safely(func() { in = px.IsInstance(typ, r) }); o2 != "" || !in {
			res.Pred = fmt.Sprintf("FAIL coerce-outside-type CoerceTo(%s, %s) returned %s which is not an instance of the type", src, short(v), short(r))
		}
		same := false
		safely(func() { same = r.Equals(v, nil) })
		if same {
			res.Tags = append(res.Tags, "coerce.out=unchanged")
		} else {
			res.Tags = append(res.Tags, "coerce.out=converted")
		}
	case strings.HasPrefix(out, "reported "):
		res.Out = out
		res.Tags = append(res.Tags, "coerce.out="+strings.Replace(out, " ", ":", -1))
	default:
		res.Out = out
		res.Pred = fmt.Sprintf("FAIL coerce-fault CoerceTo(%s, %s) ended in %s instead of a value or a reported error", src, short(v), out)
	}
	return res
}

// execCanCoerce: `cancoerce <ty | (alias ty)> <v>` — types.CanCoerce.  Direct predicate (class coerce-without-can): whatever
// CoerceTo converts, CanCoerce must have said yes to (the converse does not hold in the code: CanCoerce looks at neither sizes
// nor missing members and asks a non-array against the element type)
func execCanCoerce(c px.Context, args []sx.Sexp) core.Result {
	if len(args) != 2 {
		return core.Result{Out: "bad-op", Pred: "FAIL harness-bad-op cancoerce"}
	}
	switch args[1].Tag() {
	case "i", "s", "b", "u", "a", "d", "h", "f", "bin", "ts":
	default:
		return core.Result{Out: "bad-op", Pred: "FAIL harness-bad-op value"}
	}
	v := valOf(c, args[1])
	var typ px.Type
	var src string
	if o := safely(func() { typ, src = newmTypeOf(c, args[0]) }); o != "" || typ == nil {
		return core.Result{Out: "bad-op", Pred: "FAIL harness-bad-op type does not parse: " + args[0].String()}
	}
	can := false
	out := safely(func() { can = types.CanCoerce(typ, v) })
	res := core.Result{Pred: "ok", NonTrivial: true, Tags: []string{"cancoerce.type=" + typ.Name()}}
	switch {
	case out == "":
		res.Out = sx.B(can)
	case strings.HasPrefix(out, "reported "):
		res.Out = out
	default:
		res.Out = out
		res.Pred = fmt.Sprintf("FAIL can-coerce-fault CanCoerce(%s, %s) ended in %s", src, short(v), out)
		return res
	}
	res.Tags = append(res.Tags, "cancoerce.out="+strings.Replace(res.Out, " ", ":", -1))
	if !can {
		if o2 := safely(func() { types.CoerceTo(c, "x", typ, v) }); o2 == "" {
			res.Pred = fmt.Sprintf("FAIL coerce-without-can CoerceTo(%s, %s) converts the value although CanCoerce answered %s", src, short(v), res.Out)
		}
	}
	return res
}

// execInitInst: `initinst <recv> <v>` — px.IsInstance(recv, v) for the receivers of newm (Init[T, args…] above all): what
// Init[T] accepts must be what T.new takes.  Direct predicate (class init-instance-new): when the answer is true,
// Init[T,…].new(v) must not end in the argument error of the dispatch… which cannot be told from an ILLEGAL_ARGUMENTS raised
// by a constructor body, so the predicate only demands "no fault" here; the equivalence itself is the theorem
// C16_init_instance over the model, tied by comparing both ops (initinst and newm) with the implementation.
func execInitInst(c px.Context, args []sx.Sexp) core.Result {
	if len(args) != 2 {
		return core.Result{Out: "bad-op", Pred: "FAIL harness-bad-op initinst"}
	}
	switch args[1].Tag() {
	case "i", "s", "b", "u", "a", "d", "h", "f", "bin", "ts":
	default:
		return core.Result{Out: "bad-op", Pred: "FAIL harness-bad-op value"}
	}
	v := valOf(c, args[1])
	var typ px.Type
	var src string
	if o := safely(func() { typ, _, src, _ = newmRecvOf(c, args[0]) }); o != "" || typ == nil {
		return core.Result{Out: "bad-op", Pred: "FAIL harness-bad-op receiver does not parse: " + args[0].String()}
	}
	in := false
	out := safely(func() { in = px.IsInstance(typ, v) })
	res := core.Result{Pred: "ok", NonTrivial: true, Tags: []string{"initinst.recv=" + typ.Name()}}
	switch {
	case out == "":
		res.Out = sx.B(in)
		res.Tags = append(res.Tags, "initinst.out="+res.Out)
		if it, ok := typ.(*types.InitType); ok && it.Type() != nil {
			// consistency on the implementation: an instance of Init[T,…] can be handed to Init[T,…].new without a fault, and
			// what is NOT an instance cannot be created from (new must raise an error)
			var r px.Value
			o2 := safely(func() { r = px.New(c, typ, v) })
			switch {
			case o2 != "" && !strings.HasPrefix(o2, "reported ") && o2 != "error":
				res.Pred = fmt.Sprintf("FAIL new-fault-Init %s.new(%s) ended in %s", src, short(v), o2)
			case !in && o2 == "":
				res.Pred = fmt.Sprintf("FAIL init-instance-new %s is not an instance of %s but %s.new accepted it and returned %s", short(v), src, src, short(r))
			}
		}
	case strings.HasPrefix(out, "reported "):
		res.Out = out
		res.Tags = append(res.Tags, "initinst.out="+strings.Replace(out, " ", ":", -1))
	default:
		res.Out = out
		res.Pred = fmt.Sprintf("FAIL init-instance-fault IsInstance(%s, %s) ended in %s", src, short(v), out)
	}
	return res
}

// execInitAsg: `initasg (init ty v*) <ty>` — px.IsAssignable(Init[T, args…], type)
func execInitAsg(c px.Context, args []sx.Sexp) core.Result {
	if len(args) != 2 || args[0].Tag() != "init" || len(args[0].Args()) == 0 {
		return core.Result{Out: "bad-op", Pred: "FAIL harness-bad-op initasg"}
	}
	var typ, other px.Type
	if o := safely(func() {
		typ, _, _, _ = newmRecvOf(c, args[0])
		other, _ = newmTypeOf(c, args[1])
	}); o != "" || typ == nil || other == nil {
		return core.Result{Out: "bad-op", Pred: "FAIL harness-bad-op types do not parse"}
	}
	asg := false
	out := safely(func() { asg = px.IsAssignable(typ, other) })
	res := core.Result{Pred: "ok", NonTrivial: true, Tags: []string{"initasg"}}
	switch {
	case out == "":
		res.Out = sx.B(asg)
	case strings.HasPrefix(out, "reported "):
		res.Out = out
	default:
		res.Out = out
		res.Pred = "FAIL init-assignable-fault IsAssignable ended in " + out
	}
	return res
}

// alphaStr prints a value of the alphabet in op syntax; anything else as (? <type name>)
func alphaStr(v px.Value) string {
	switch v := v.(type) {
	case px.Integer:
		return "(i " + strconv.FormatInt(v.Int(), 10) + ")"
	case px.StringValue:
		return "(s " + sx.Str(v.String()).String() + ")"
	case px.Boolean:
		return "(b " + sx.B(v.Bool()) + ")"
	case px.Float:
		return "(f " + strconv.FormatUint(math.Float64bits(v.Float()), 10) + ")"
	case *types.Binary:
		return "(bin " + sx.Str(string(v.Bytes())).String() + ")"
	case types.Timespan:
		return "(ts " + strconv.FormatInt(int64(v.Duration()), 10) + ")"
	case *types.UndefValue:
		return "(u)"
	case *types.DefaultValue:
		return "(d)"
	case *types.Array:
		var sb strings.Builder
		sb.WriteString("(a")
		v.Each(func(e px.Value) { sb.WriteString(" " + alphaStr(e)) })
		sb.WriteString(")")
		return sb.String()
	case *types.Hash:
		var sb strings.Builder
		sb.WriteString("(h")
		v.EachPair(func(k, e px.Value) { sb.WriteString(" (" + alphaStr(k) + " " + alphaStr(e) + ")") })
		sb.WriteString(")")
		return sb.String()
	}
	return "(? " + v.PType().Name() + ")"
}

func short(v px.Value) string {
	s := ""
	if safely(func() { s = v.String() }) != "" {
		return "?"
	}
	if len(s) > 60 {
		s = s[:60] + "…"
	}
	if !utf8.ValidString(s) {
		s = strconv.Quote(s)
	}
	return s
}

func exec(c px.Context, op string, args []sx.Sexp) (res core.Result) {
	defer func() {
		if e := recover(); e != nil {
			// only the harness' own parsing panics arrive here (every call into pcore is wrapped by safely)
			res = core.Result{Out: "bad-op", Pred: "FAIL harness-bad-op " + fmt.Sprint(e)}
		}
	}()
	switch op {
	case "call":
		return execCall(c, args)
	case "calls":
		return execCalls(c, args)
	case "new":
		return execNew(c, args)
	case "newm":
		return execNewM(c, args)
	case "newc":
		return execNewC(c, args)
	case "coerce":
		return execCoerce(c, args)
	case "cancoerce":
		return execCanCoerce(c, args)
	case "initinst":
		return execInitInst(c, args)
	case "initasg":
		return execInitAsg(c, args)
	}
	return core.Result{Out: "bad-op", Pred: "FAIL harness-bad-op " + op}
}
