package c16

import (
	"encoding/hex"
	"math"
	"math/rand"
	"strconv"
	"strings"

	"verif/harness/core"
)

// receivers of `new`: every core type with a constructor, constrained variants of each, the wrappers whose
// Name() has no constructor (they must report, not fault) and a few object types (meta types and a user type)
var receivers = []string{
	"Integer", "Integer[0,5]", "Integer[10,20]", "Integer[default,0]",
	"Float", "Float[1.0,2.0]", "Float[default,0.0]",
	"Numeric", "Boolean", "Boolean[true]", "Boolean[false]",
	"String", "String[2]", "String[1,3]", "String[0,0]",
	"Enum[a,b]", "Pattern[/^a/]",
	"Array", "Array[Integer]", "Array[Integer,1]", "Array[String,2,3]", "Array[Array[Integer],1,1]", "Array[0,0]",
	"Tuple", "Tuple[Integer,String]", "Tuple[Integer,1,3]", "Tuple[String,String,String]",
	"Hash", "Hash[String,Integer]", "Hash[String,Integer,1,2]", "Hash[Integer,Any]",
	"Struct", "Struct[{a=>Integer}]", "Struct[{a=>Integer,Optional[b]=>String}]",
	"Optional[Integer]", "Variant[Integer,String]", "NotUndef[Integer]",
	"Timespan", "Timespan['0-00:00:01','0-00:00:10']", "Timestamp", "Timestamp['2019-01-01','2020-01-01']",
	"SemVer", "SemVer['>=1.0.0 <2.0.0']", "SemVerRange",
	"Binary", "Regexp", "Regexp[/a/]", "URI", "URI['http://example.com']",
	"Type", "Type[Integer]", "Type[Array]",
	"Init", "Init[Integer]", "Init[Integer[0,5]]", "Init[String]", "Init[String[2]]", "Init[Array[Integer]]", "Init[Boolean]",
	"Init[Integer,16]", "Init[Hash[String,Integer]]", "Init[SemVer]", "Init[Enum[a,b]]",
	"Sensitive", "Sensitive[String]", "Unit",
	"Any", "Undef", "Default", "Scalar", "ScalarData", "Data", "RichData", "Collection", "Callable", "Iterable", "Iterator", "Runtime", "Object",
	"Pcore::IntegerType", "Pcore::FloatType", "Pcore::StringType", "Pcore::ArrayType", "Pcore::HashType", "Pcore::TupleType", "Pcore::StructType",
	"Pcore::EnumType", "Pcore::VariantType", "Pcore::OptionalType", "Pcore::PatternType", "Pcore::TypeType", "Pcore::Init", "Pcore::CallableType",
	"Pcore::CollectionType", "Pcore::NotUndefType", "Pcore::SemVerType", "Pcore::TimespanType", "Pcore::TimestampType", "Pcore::RegexpType",
	"Pcore::SensitiveType", "Pcore::IterableType", "Pcore::IteratorType", "Pcore::RuntimeType", "Pcore::Like", "Pcore::TypeReference",
	"Pcore::TypeAlias", "Pcore::ObjectType", "Pcore::BooleanType", "Pcore::URIType", "Pcore::AnyType", "Pcore::StructElement",
	"Pcore::BinaryType", "Pcore::NumericType", "Pcore::DefaultType", "Pcore::UndefType", "Pcore::UnitType", "Pcore::ScalarType", "Pcore::SemVerRangeType",
	"Object[{name=>'My::Pt',attributes=>{x=>Integer,y=>{type=>Integer[0,5],value=>0}}}]",
}

func hx(s string) string { return "x" + hex.EncodeToString([]byte(s)) }

func wi(n int64) string      { return "(i " + strconv.FormatInt(n, 10) + ")" }
func wf(f float64) string    { return "(f " + strconv.FormatUint(math.Float64bits(f), 10) + ")" }
func ws(s string) string     { return "(s " + hx(s) + ")" }
func wt(s string) string     { return "(t " + hx(s) + ")" }
func wa(xs ...string) string { return "(a" + pre(xs) + ")" }
func wh(kv ...string) string {
	var sb strings.Builder
	sb.WriteString("(h")
	for i := 0; i+1 < len(kv); i += 2 {
		sb.WriteString(" (" + kv[i] + " " + kv[i+1] + ")")
	}
	sb.WriteString(")")
	return sb.String()
}
func wmk(t string, xs ...string) string { return "(mk " + hx(t) + pre(xs) + ")" }
func pre(xs []string) string {
	var sb strings.Builder
	for _, x := range xs {
		sb.WriteString(" " + x)
	}
	return sb.String()
}

const wu, wd, wtrue, wfalse = "(u)", "(d)", "(b t)", "(b f)"

// argument lists written for a constructor (keyed by the constructor's name); most are accepted by it
var ctorWitness = map[string][][]string{
	"Integer": {{wi(3)}, {ws("3")}, {ws("-7")}, {ws("ff"), wi(16)}, {ws("0x1F"), wi(16)}, {ws("101"), wi(2)}, {ws("17"), wi(8), wtrue}, {wf(2.5)}, {wtrue}, {ws("12"), wd},
		{wi(-4), wi(10), wtrue}, {wh(ws("from"), ws("4"))}, {wh(ws("from"), ws("-4"), ws("abs"), wtrue)}, {wh(ws("from"), ws("11"), ws("radix"), wi(2))},
		{wmk("Timespan", wi(2))}, {wmk("Timestamp", wi(15))}, {wi(math.MaxInt64)}, {ws("9223372036854775808")}, {wf(1e20)}, {wf(math.NaN())}, {ws("0b11"), wi(2)}, {ws("0777"), wi(8)}, {wi(12)}, {ws("15")}},
	"Float": {{wf(1.5)}, {ws("1.5")}, {wi(2)}, {ws("-1.25"), wtrue}, {wtrue}, {wh(ws("from"), ws("1.75"))}, {wh(ws("from"), wf(-1.5), ws("abs"), wtrue)}, {ws("1e3")}, {ws("0x10")},
		{wmk("Timespan", wi(2))}, {wf(math.Inf(1))}, {ws("2")}, {wf(0)}, {ws("-0.0")}},
	"Numeric": {{ws("3")}, {ws("1.5")}, {wi(4)}, {wf(2.5), wtrue}, {wh(ws("from"), ws("4"))}, {wh(ws("from"), ws("-4.5"), ws("abs"), wtrue)}, {wfalse}, {ws("0x1F")}, {ws("-0b11")}, {ws("0777")}},
	"Boolean": {{wtrue}, {wi(0)}, {wi(7)}, {wf(0)}, {ws("yes")}, {ws("no")}, {ws("TRUE")}, {ws("n")}, {ws("false")}, {ws("maybe")}, {wf(math.NaN())}},
	"String": {{wi(3)}, {ws("abc")}, {ws("a")}, {ws("")}, {wi(255), ws("%x")}, {wi(7), ws("%5d")}, {wf(1.5), ws("%.3f")}, {wa(wi(1), wi(2))}, {wa(wi(1)), wh(wt("Array"), wh(ws("format"), ws("%a"), ws("separator"), ws(";")))},
		{wi(5), wh(wt("Integer"), ws("%#x"))}, {ws("x"), wd}, {wu}, {wtrue, ws("%y")}, {wh(ws("a"), wi(1))}, {wt("Integer")}, {wi(1), ws("%q")}, {wi(1), ws("")}, {wmk("Binary", ws("YWJj")), ws("%s")}, {wi(65), ws("%c")}},
	"Array": {{wa()}, {wa(wi(1), wi(2))}, {wa(ws("ab"), ws("cd"))}, {wa(wi(1)), wtrue}, {wa(wa(wi(1)))}, {wh(ws("a"), wi(1))}, {wh()}, {wmk("Binary", ws("YWJj"))}, {wa(wi(1), ws("a"))},
		{wa(ws("a"), ws("b"), ws("c"))}, {wa(wi(1), wi(2), wi(3), wi(4))}, {wa(wi(1)), wfalse}, {wt("Integer[1,3]")}, {wt("Enum[a,b]")}, {wt("Integer")}, {wmk("Timespan", wi(1))}, {ws("abc")}, {wa(wa(wi(1), wi(2)))}},
	"Hash": {{wa(wa(ws("a"), wi(1)))}, {wa(wa(ws("a"), wi(1)), wa(ws("b"), wi(2)))}, {wh(ws("a"), wi(1))}, {wh()}, {wa(ws("a"), wi(1))}, {wa(ws("a"), wi(1), ws("b"))}, {wa()},
		{wa(wa(wa(ws("a")), wi(1))), ws("tree")}, {wa(wa(wa(ws("a"), ws("b")), wi(1))), ws("hash_tree")}, {wa(wa(wa(), wa(wi(1)))), ws("tree")}, {wa(wa(wa(wi(0), wi(1)), ws("x"))), ws("tree")},
		{wa(wa(wa(), wa(wi(5))), wa(wa(wi(0), wi(3)), ws("x"))), ws("tree")}, {wa(wa(wa(wi(0)), wa(wi(1))), wa(wa(wi(0), wi(7)), ws("x"))), ws("hash_tree")},
		{wa(wa(wa(), wh(ws("k"), wa(wi(1)))), wa(wa(ws("k"), wi(4), wi(0)), ws("x"))), ws("tree")}, {wa(wa(wa(), wh(ws("k"), wa(wi(1)))), wa(wa(ws("k"), wi(-1), wi(0)), ws("x"))), ws("tree")},
		{wa(wa(wi(1), ws("x")))}, {wa(wa(ws("a"), ws("x")))}, {wh(ws("a"), wi(1), ws("b"), ws("x"))}, {wa(wa(ws("a"), wi(1), wi(2)))}, {wt("Integer[1,2]")}, {wa(wa(wa(wi(1)), wi(2)))}},
	"Timespan": {{wi(1)}, {wf(1.5)}, {ws("0-00:00:05")}, {ws("1-02:03:04.5")}, {ws("5"), ws("%S")}, {ws("1:2"), wa(ws("%H:%M"), ws("%S"))}, {wi(1), wi(2), wi(3), wi(4)}, {wi(1), wi(2), wi(3), wi(4), wi(5), wi(6), wi(7)},
		{wh(ws("days"), wi(1))}, {wh(ws("string"), ws("0-00:00:07"))}, {wh(ws("seconds"), wi(3), ws("negative"), wtrue)}, {wh(ws("string"), ws("12"), ws("format"), ws("%M"))}, {ws("abc")}, {ws("1"), ws("%Q")}, {wh()}},
	"Timestamp": {{wi(1)}, {wf(1.5)}, {ws("2019-06-01")}, {ws("2019-06-01T10:00:00Z")}, {ws("2019-06-01 10:00"), ws("%F %R")}, {wh(ws("string"), ws("2019-06-01"))}, {ws("2019-06-01"), wd, ws("UTC")}, {},
		{ws("nonsense")}, {wh(ws("string"), ws("10:00"), ws("format"), ws("%R"), ws("timezone"), ws("EST"))}, {ws("2019"), ws("%Y"), ws("Nowhere/Land")}},
	"SemVer": {{ws("1.2.3")}, {ws("1.2.3-rc1+b5")}, {wi(1), wi(2), wi(3)}, {wi(1), wi(2), wi(3), ws("rc1")}, {wi(1), wi(2), wi(3), ws("rc1"), ws("b5")}, {wh(ws("major"), wi(1), ws("minor"), wi(0), ws("patch"), wi(0))},
		{ws("1.2")}, {ws("0.9.0")}, {ws("2.0.0")}, {wi(-1), wi(0), wi(0)}, {wh(ws("major"), wi(1))}, {wi(1), wi(2), wi(3), ws("!!")}},
	"SemVerRange": {{ws(">=1.0.0")}, {ws("1.x")}, {ws("nonsense")}, {wmk("SemVer", ws("1.0.0")), wmk("SemVer", ws("2.0.0"))}, {wmk("SemVer", ws("1.0.0")), wmk("SemVer", ws("2.0.0")), wtrue},
		{wh(ws("min"), wmk("SemVer", ws("1.0.0")), ws("max"), wmk("SemVer", ws("2.0.0")))}, {wd, wmk("SemVer", ws("2.0.0"))}, {wmk("SemVer", ws("2.0.0")), wmk("SemVer", ws("1.0.0"))}},
	"Binary": {{ws("YWJj")}, {ws("YWJj"), ws("%B")}, {ws("abc"), ws("%s")}, {ws("YW Jj"), ws("%b")}, {ws("YWJj"), ws("%u")}, {ws("YWJj"), ws("%r")}, {wa(wi(1), wi(255))}, {wa(wi(256))}, {wa(wi(-1))}, {wh(ws("value"), ws("YWJj"))},
		{wh(ws("value"), wa(wi(1)))}, {wh(ws("value"), ws("YWJj"), ws("format"), ws("%B"))}, {ws("!!!")}, {ws("a"), ws("%B")}, {wmk("Binary", ws("YWJj"))}, {ws("é"), ws("%s")}, {ws("YWJj"), ws("%x")}},
	"Regexp":             {{ws("a.*")}, {ws("(")}, {wmk("Regexp", ws("ab"))}, {ws("")}, {ws("a"), wtrue}},
	"URI":                {{ws("http://example.com/a")}, {ws("http://example.com")}, {ws("::bad")}, {wh(ws("scheme"), ws("http"), ws("host"), ws("example.com"))}, {wh(ws("path"), ws("/a"))}, {ws("%zz")}, {wmk("URI", ws("http://example.com"))}, {ws("http://example.com"), wtrue}, {wh()}},
	"Type":               {{ws("Integer")}, {ws("Integer[0,5]")}, {ws("Array[")}, {ws("Nosuch")}, {ws("")}, {ws("Array[Integer]")}, {ws("1")}, {ws("Tuple[[String],3]")}, {ws("Struct[{a=>1}]")}},
	"Sensitive":          {{wi(1)}, {ws("secret")}, {wu}, {wmk("Sensitive", ws("a"))}},
	"Unit":               {{wi(1)}, {ws("a")}, {wu}},
	"Init":               {{ws("3")}, {wi(3)}, {ws("7"), wi(8)}, {ws("ff")}, {wa(ws("ff"), wi(16))}, {wa(wi(1), wi(2))}, {wa(wa(wi(1), wi(2)))}, {ws("abc")}, {wa(wa(ws("a"), wi(1)))}, {ws("1.2.3")}, {ws("yes")}, {ws("a")}, {ws("c")}},
	"Pcore::IntegerType": {{wu, wi(3)}, {wi(2), wu}, {wu, wu}, {}, {wi(0), wi(5)}, {wi(5), wi(0)}, {wd, wi(3)}, {wi(1)}, {ws("a")}, {wi(1), wi(2), wi(3)}, {wh(ws("from"), wi(1), ws("to"), wi(2))}, {wh(ws("from"), wi(3), ws("to"), wi(2))}, {wh()}, {wf(1.5), wi(2)}},
	"Pcore::FloatType":   {{wu, wf(3)}, {wf(1.5)}, {}, {wf(0), wf(5)}, {wf(5), wf(0)}, {wd, wf(3)}, {wi(1)}, {ws("a")}, {wh(ws("from"), wf(1), ws("to"), wf(2))}, {wf(1), wf(2), wf(3)}},
	"Pcore::StringType":  {{wt("Integer[1,3]")}, {wu}, {}, {ws("")}, {wi(2)}, {wi(1), wi(3)}, {ws("abc")}, {wt("Integer[2,3]")}, {wh(ws("size_type_or_value"), wt("Integer[1,2]"))}, {wi(3), wi(1)}, {wf(1)}, {wi(1), wi(2), wi(3)}, {wi(-1)}},
	"Pcore::ArrayType": {{wt("Integer"), wt("Integer[1,2]")}, {wt("String"), wt("Integer[0,0]")}, {wh(ws("element_type"), wt("String"))}, {}, {wt("Integer")}, {wt("Integer"), wi(1)}, {wt("Integer"), wi(1), wi(2)}, {wi(1), wi(2)}, {wt("Integer"), wt("Integer[1,2]")}, {wh(ws("element_type"), wt("String"), ws("size_type"), wt("Integer[0,3]"))},
		{wt("Integer"), ws("a")}, {wi(2), wi(1)}, {wt("Integer"), wi(1), wi(2), wi(3)}, {ws("x")}, {wh(ws("size_type"), wi(1))}, {wt("Integer"), wd, wi(2)}, {wt("Integer"), wt("String")}},
	"Pcore::HashType": {{wt("String"), wt("Integer"), wt("Integer[1,2]")}, {wu, wu, wt("Integer[0,3]")}, {wh(ws("key_type"), wt("String"), ws("value_type"), wt("Integer"), ws("size_type"), wt("Integer[1,2]"))}, {wh(ws("key_type"), wu, ws("value_type"), wu)}, {}, {wt("String"), wt("Integer")}, {wt("String"), wt("Integer"), wi(1)}, {wt("String"), wt("Integer"), wi(1), wi(2)}, {wt("String")}, {wi(1), wi(2)}, {wt("String"), wi(1)}, {wh(ws("key_type"), wt("String"), ws("value_type"), wt("Integer"))},
		{wt("String"), wt("Integer"), wt("Integer[1,2]")}, {wt("String"), wt("Integer"), ws("x")}, {wt("String"), wt("Integer"), wi(2), wi(1)}, {wh(ws("size_type"), wi(1))}, {wt("String"), wt("Integer"), wi(1), wi(2), wi(3)}},
	"Pcore::TupleType": {{wa(wt("Integer"), wt("String"))}, {wa(wt("Integer")), wt("Integer[1,3]")}, {wa(), wt("Integer[0,0]")}, {wa()}, {wa(wt("Integer")), wt("Integer[0,0]")}, {wa(wt("Integer")), wu}, {wt("Integer")}, {wt("Integer"), wt("String")}, {wt("Integer"), wi(1), wi(3)}, {wa(wt("Integer")), wi(3)}, {wa(wt("Integer")), wt("Integer[1,2]")}, {wa(wt("Integer"))}, {wi(1), wi(2)}, {wi(1)}, {wd},
		{wa(ws("x"))}, {wt("Integer"), ws("x")}, {wa(wt("Integer")), ws("x")}, {wh(ws("types"), wa(wt("Integer")))}, {wh(ws("types"), wa(wt("Integer")), ws("size_type"), wt("Integer[1,2]"))}, {wt("Integer"), wi(3), wi(1)}, {wa(), wi(0)}, {wa(wi(1), wi(2))}, {wa(wt("Integer"), wi(1))}},
	"Pcore::StructType": {{wa(wmk("Pcore::StructElement", wt("Enum['a']"), wt("Integer")))}, {wa(wmk("Pcore::StructElement", wt("Optional['a']"), wt("Integer")), wmk("Pcore::StructElement", wt("Enum['b']"), wt("String")))}, {wa()}, {wa(wmk("Pcore::StructElement", wt("Enum['a']"), wt("Integer")), wmk("Pcore::StructElement", wt("Enum['a']"), wt("String")))}, {wh(ws("a"), wt("Integer"))}, {wh(wt("Optional[a]"), wt("Integer"))}, {wh(wi(1), wt("Integer"))}, {wh(ws("a"), wi(1))}, {wh(ws(""), wt("Integer"))}, {wa(wmk("Pcore::StructElement", ws("a"), wt("Integer")))}, {wa(wi(1))}, {wi(1)}, {wh()},
		{wh(ws("elements"), wa())}, {wh(wt("String"), wt("Integer"))}, {wh(wt("NotUndef[a]"), wt("Integer"))}, {wh(wt("Optional[String]"), wt("Integer"))}},
	"Pcore::StructElement": {{wt("Enum['a']"), wt("Integer")}, {wt("Optional['a']"), wt("Integer")}, {wt("Integer"), wt("Integer")}, {wt("Enum['a','b']"), wt("Integer")}, {wt("Optional[Integer]"), wt("Integer")}, {wt("NotUndef['a']"), wt("Integer")}, {wt("Enum['']"), wt("Integer")}, {ws("a"), wt("Integer")}, {wt("Optional[a]"), wt("Integer")}, {ws(""), wt("Integer")}, {wi(1), wt("Integer")}, {ws("a"), wi(1)}, {ws("a")}, {wh(ws("key_type"), wt("String[a]")), wh(ws("value_type"), wt("Integer"))}, {wt("String"), wt("Integer")}},
	"Pcore::EnumType":      {{wa(ws("a"), ws("b")), wfalse}, {wa(ws("A")), wtrue}, {wa()}, {wa(ws(""))}, {ws("a"), ws("b")}, {wa(ws("a"), ws("b"))}, {wa(ws("a")), wtrue}, {ws("a"), wtrue}, {wi(1)}, {wa(wi(1))}, {wtrue}, {wh(ws("values"), wa(ws("a")))}, {wh(ws("values"), wa(ws("a")), ws("case_insensitive"), wtrue)}, {}, {wa(), wtrue}, {ws("a"), wi(1)}},
	"Pcore::VariantType":   {{wa(wt("Integer"), wt("String"))}, {wa()}, {wa(wt("Integer"), wt("Integer"))}, {wa(wt("Variant[Integer,String]"), wt("Undef"))}, {wt("Integer"), wt("String")}, {wa(wt("Integer"))}, {wi(1)}, {}, {wt("Integer")}, {wa(wi(1))}, {wh(ws("types"), wa(wt("Integer")))}, {wa(wt("Integer")), wt("String")}},
	"Pcore::OptionalType":  {{wu}, {wt("Optional[Integer]")}, {wt("Integer")}, {ws("a")}, {wi(1)}, {}, {wt("Integer"), wt("String")}, {wh(ws("type"), wt("Integer"))}, {wu}, {ws("")}},
	"Pcore::NotUndefType":  {{wt("Optional[Integer]")}, {wt("Undef")}, {wt("Integer")}, {ws("a")}, {wi(1)}, {}, {wt("Integer"), wt("String")}, {wu}},
	"Pcore::PatternType":   {{wa(wmk("Regexp", ws("a")))}, {wa(wmk("Regexp", ws("a")), wmk("Regexp", ws("b")))}, {wa()}, {ws("a")}, {wmk("Regexp", ws("a"))}, {wt("Regexp[/a/]")}, {ws("(")}, {wi(1)}, {wa(ws("a"))}, {wa(wi(1))}, {}, {wh(ws("patterns"), wa(wt("Regexp[/a/]")))}, {wt("Pattern[/a/]")}, {wt("Regexp")}},
	"Pcore::TypeType":      {{wt("Type[Integer]")}, {wt("Integer")}, {wi(1)}, {}, {wt("Integer"), wt("String")}, {wu}},
	"Pcore::Init":          {{wt("Integer[0,5]")}, {wt("String"), wa()}, {wu}, {wt("Integer")}, {wt("Integer"), wi(16)}, {wi(1)}, {}, {wt("Integer"), wa(wi(16))}, {wh(ws("type"), wt("Integer"), ws("init_args"), wa(wi(16)))}, {wu, wa()}, {wt("Nosuch")}, {wt("Optional[Integer]")}},
	"Pcore::CallableType": {{wt("Tuple[Integer]")}, {wt("Tuple[Integer]"), wt("Callable"), wt("String")}, {wu, wu, wt("String")}, {wt("Tuple[Integer,String]"), wt("Callable[1,1]")}, {wu, wt("Callable")}, {}, {wi(1), wi(1)}, {wt("Integer")}, {wt("Integer"), wt("Callable")}, {wa(wt("Integer")), wt("String")}, {wa(wa(wt("Integer")), wt("String"))}, {wi(1)}, {ws("a")}, {wt("Tuple[Integer]"), wt("Callable"), wt("String")}, {wt("Tuple[Integer]"), wi(1)},
		{wa(wi(1)), wi(2)}, {wa(), wt("String")}, {wi(0), wi(0)}, {wt("Integer"), wi(2), wi(1)}, {wt("Integer"), wt("Optional[Callable]")}, {wa(wt("Integer")), wi(1)}, {wh(ws("param_types"), wt("Tuple[Integer]"))}, {wt("Integer"), wt("Optional[Integer]")}},
	"Pcore::CollectionType":  {{wt("Integer[0,0]")}, {}, {wi(1)}, {wi(1), wi(2)}, {wt("Integer[1,2]")}, {wi(2), wi(1)}, {ws("a")}, {wd, wi(2)}, {wi(1), wi(2), wi(3)}, {wh(ws("size_type"), wt("Integer[1,2]"))}, {wi(1), ws("a")}},
	"Pcore::SemVerType":      {{wa(ws(">=1.0.0"))}, {wa(wmk("SemVerRange", ws("1.x")), ws("2.x"))}, {wa()}, {wa(ws("nonsense"))}, {ws(">=1.0.0")}, {wmk("SemVerRange", ws(">=1.0.0"))}, {wi(1)}, {ws("nonsense")}, {wa(ws(">=1.0.0"))}, {}, {wh(ws("ranges"), wa(ws("1.x")))}},
	"Pcore::TimespanType":    {{wmk("Timespan", wi(1)), wmk("Timespan", wi(10))}, {wmk("Timespan", wi(10)), wmk("Timespan", wi(1))}, {wu, wmk("Timespan", wi(10))}, {wmk("Timespan", wi(1))}, {}, {ws("0-00:00:01"), ws("0-00:00:10")}, {wi(1), wi(10)}, {wi(10), wi(1)}, {wmk("Timespan", wi(1))}, {ws("abc")}, {wd, wi(5)}, {wh(ws("from"), wi(1))}, {wi(1), wi(2), wi(3)}, {wf(1.5)}, {wh(wi(1), wi(2))}},
	"Pcore::TimestampType":   {{wmk("Timestamp", wi(1)), wmk("Timestamp", wi(10))}, {wmk("Timestamp", wi(10)), wmk("Timestamp", wi(1))}, {wu, wmk("Timestamp", wi(10))}, {}, {ws("2019-01-01"), ws("2020-01-01")}, {wi(1), wi(10)}, {wi(10), wi(1)}, {ws("abc")}, {wd, wi(5)}, {wh(ws("from"), wi(1))}, {wi(1), wi(2), wi(3)}, {wf(1.5)}},
	"Pcore::RegexpType":      {{wu}, {ws("")}, {ws("a")}, {wmk("Regexp", ws("a"))}, {ws("(")}, {wi(1)}, {}, {ws("a"), ws("b")}, {wh(ws("pattern"), ws("a"))}},
	"Pcore::SensitiveType":   {{wt("String")}, {wi(1)}, {}, {wt("String"), wt("Integer")}},
	"Pcore::IterableType":    {{wt("String")}, {wi(1)}, {}, {wt("String"), wt("Integer")}},
	"Pcore::IteratorType":    {{wt("String")}, {wi(1)}, {}, {wt("String"), wt("Integer")}},
	"Pcore::RuntimeType":     {{ws("go"), wa(wmk("Regexp", ws("a")), ws("b"))}, {wu, wu}, {ws("go"), wu}, {wu, ws("x")}, {ws("go"), ws("int")}, {ws("go")}, {wi(1)}, {}, {ws("go"), wi(1)}, {ws("go"), ws("a"), ws("b")}, {ws("go"), wmk("Regexp", ws("a")), ws("b")}, {wh(ws("runtime"), ws("go"))}, {ws("a"), ws("b"), ws("c"), ws("d")}},
	"Pcore::Like":            {{wt("Integer"), ws("a")}, {wt("Integer")}, {wi(1)}, {}, {wt("Integer"), wi(1)}, {wt("Struct[{a=>Integer}]"), ws("a")}, {wt("Integer"), ws("a.0")}},
	"Pcore::TypeReference":   {{ws("Foo")}, {wi(1)}, {}, {ws("a"), ws("b")}, {ws("")}},
	"Pcore::TypeAlias":       {{ws("Foo"), wt("Integer")}, {ws("Foo")}, {wi(1)}, {}, {ws("Foo"), wi(1)}, {ws("Foo"), wu, wt("Integer")}, {wh(ws("name"), ws("Foo"), ws("resolved_type"), wt("Integer"))}},
	"Pcore::ObjectType":      {{wh(ws("name"), ws("My::O"))}, {wh(ws("name"), ws("My::O2"), ws("attributes"), wh(ws("a"), wt("Integer")))}, {wi(1)}, {}, {wh(ws("attributes"), wi(1))}, {ws("My::O3"), wh()}, {wh(ws("nosuch"), wi(1))}},
	"Pcore::BooleanType":     {{wtrue}, {wi(1)}, {}, {wtrue, wfalse}, {ws("true")}},
	"Pcore::URIType":         {{wu}, {wh(ws("scheme"), ws("http"), ws("host"), ws("example.com"))}, {ws("http://example.com")}, {wmk("URI", ws("http://example.com"))}, {wh(ws("scheme"), ws("http"))}, {wi(1)}, {}, {ws("::bad")}, {wh(wi(1), wi(2))}},
	"Pcore::AnyType":         {{}, {wi(1)}},
	"Pcore::BinaryType":      {{}, {wi(1)}},
	"Pcore::NumericType":     {{}, {wi(1)}},
	"Pcore::DefaultType":     {{}, {wi(1)}},
	"Pcore::UndefType":       {{}, {wi(1)}},
	"Pcore::UnitType":        {{}, {wi(1)}},
	"Pcore::ScalarType":      {{}, {wi(1)}},
	"Pcore::SemVerRangeType": {{}, {wi(1)}},
	"My::Pt":                 {{wi(1)}, {wi(1), wi(2)}, {wi(1), wi(9)}, {wh(ws("x"), wi(1))}, {wh(ws("x"), wi(1), ws("y"), wi(3))}, {wh(ws("x"), wi(1), ws("y"), wi(9))}, {ws("a")}, {}, {wi(1), wi(2), wi(3)}, {wh(ws("y"), wi(1))}, {wh(ws("x"), wi(1), ws("z"), wi(1))}},
}

var newPool = []string{
	wi(0), wi(1), wi(3), wi(5), wi(6), wi(-1), wi(16), wi(42), wi(math.MaxInt64), wi(math.MinInt64),
	wf(0), wf(1.5), wf(2), wf(-1), wf(1e20), wf(math.NaN()), wf(math.Inf(1)),
	ws(""), ws("a"), ws("ab"), ws("abc"), ws("3"), ws("-5"), ws("1.5"), ws("0x1F"), ws("true"), ws("yes"), ws("hello"), ws("1.2.3"), ws(">=1.0.0"),
	ws("http://a.b/c"), ws("YWJj"), ws("%d"), ws("%s"), ws("%p"), ws("tree"), ws("hash_tree"), ws("0-00:00:05"), ws("2019-01-01T00:00:00Z"), ws("Integer"),
	wtrue, wfalse, wu, wd,
	wa(), wa(wi(1), wi(2)), wa(ws("a"), ws("b")), wa(wa(wi(1), wi(2))), wa(wa(ws("a"), wi(1))), wa(wa(wa(ws("a")), wi(1))), wa(wa(wa(wi(0), wi(1)), ws("x"))), wa(wu),
	wh(), wh(ws("a"), wi(1)), wh(ws("from"), ws("3")), wh(ws("from"), ws("-3"), ws("abs"), wtrue), wh(ws("from"), ws("ff"), ws("radix"), wi(16)), wh(wi(1), ws("x")),
	wh(ws("x"), wi(1)), wh(ws("value"), ws("YWJj")), wh(ws("string"), ws("1.2.3")),
	wt("Integer"), wt("String"), wt("Array[Integer]"), wt("Integer[1,2]"), wt("Optional[a]"),
	"(bin " + hx("\x01\x02") + ")", wmk("Regexp", ws("a+")), wmk("Timespan", wi(3)), wmk("Timestamp", wi(3)), wmk("SemVer", ws("1.2.3")), wmk("SemVerRange", ws("1.x")),
	wmk("URI", ws("http://a.b/c")), wmk("Sensitive", wi(1)),
}

func ctorName(recv string) string {
	n := recv
	if i := strings.IndexByte(n, '['); i >= 0 {
		n = n[:i]
	}
	switch n {
	case "Tuple":
		return "Array"
	case "Struct":
		return "Hash"
	case "Object":
		return "My::Pt"
	}
	return n
}

func randNewArgs(r *rand.Rand, recv string, names []string) []string {
	var base []string
	own := ctorWitness[ctorName(recv)]
	switch k := r.Intn(10); {
	case k < 5 && len(own) > 0:
		base = append(base, own[r.Intn(len(own))]...)
	case k < 7:
		other := ctorWitness[names[r.Intn(len(names))]]
		base = append(base, other[r.Intn(len(other))]...)
	default:
		n := r.Intn(4)
		for i := 0; i < n; i++ {
			base = append(base, newPool[r.Intn(len(newPool))])
		}
		return base
	}
	if r.Intn(3) == 0 {
		// one-point mutation
		switch r.Intn(4) {
		case 0:
			if len(base) > 0 {
				base[r.Intn(len(base))] = newPool[r.Intn(len(newPool))]
			}
		case 1:
			if len(base) > 0 {
				k := r.Intn(len(base))
				base = append(base[:k:k], base[k+1:]...)
			}
		case 2:
			if len(base) < 5 {
				base = append(base, newPool[r.Intn(len(newPool))])
			}
		default:
			if len(base) > 1 {
				i, j := r.Intn(len(base)), r.Intn(len(base))
				base[i], base[j] = base[j], base[i]
			}
		}
	}
	return base
}

func genNew(g *core.G) {
	r := g.Rng
	names := make([]string, 0, len(ctorWitness))
	for _, recv := range receivers { // deterministic order (never range over the map)
		n := ctorName(recv)
		if _, ok := ctorWitness[n]; ok {
			dup := false
			for _, x := range names {
				if x == n {
					dup = true
				}
			}
			if !dup {
				names = append(names, n)
			}
		}
	}
	emit := func(mode, recv string, args []string) {
		g.Emit("@new " + mode + " " + hx(recv) + " (args" + pre(args) + ")")
	}
	// every receiver × every written witness list of its own constructor, and × every pool atom alone
	for _, recv := range receivers {
		emit("t", recv, nil)
		for _, w := range ctorWitness[ctorName(recv)] {
			emit("t", recv, w)
		}
		for _, a := range newPool {
			emit("t", recv, []string{a})
		}
	}
	per := 150 * g.Scale
	for _, recv := range receivers {
		for i := 0; i < per; i++ {
			mode := "t"
			switch r.Intn(12) {
			case 0:
				mode = "s"
			case 1:
				mode = "f"
			}
			emit(mode, recv, randNewArgs(r, recv, names))
		}
	}
}
