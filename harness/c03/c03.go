// Package c03: assignability is a preorder, monotone per constructor, consistent with equality (property C03).
//
// ops (model + implementation, syntax in harness/lat/doc.go):
//
//	eq A B          t|f|fault    A.Equals(B); predicate: a copy is equal, equal types accept each other
//	asg A B         t|f          predicate when A and B are the same term: reflexivity on separately built copies
//	trans A B C     <asg A B> <asg B C> <asg A C>       transitivity
//	imp A B A2 B2   <asg A B> <asg A2 B2>               first ⇒ second: monotonicity (A2 = F[A], B2 = F[B]) when B2 ≠ B,
//	                                                    range widening (A2 = A with one range widened) when B2 = B
//
// '@' lines (implementation only): `law-top B`, `law-var V A`, `law-opt A` (the three laws; the plain `asg` lines that go
// with them are emitted for the model too), malformed terms, second-tier tests `t2-refl`, `t2-trans`.
package c03

import (
	"verif/harness/core"
	"verif/harness/lat"
	"verif/harness/sx"

	"github.com/lyraproj/pcore/px"
)

func init() {
	core.Register(&core.Prop{
		ID: "C03",
		Rule: "distinct op lines; `eq`: non-trivial when the answer is true or an argument is not nullary; `asg`: when an argument is not " +
			"nullary; `trans`: when asg A B and asg B C both hold; `imp`: when the first answer is true; law lines always",
		Gen:  gen,
		Exec: exec,
	})
}

func anyUnit(ts ...lat.Ty) bool {
	for _, t := range ts {
		if lat.UnitUnsafe(t) {
			return true
		}
	}
	return false
}

// zeroTuple: a Tuple type of maximal size 0 — (tup () none), (tup () (0 0)), (tup (T…) (0 0)).
func zeroTuple(t lat.Ty) bool {
	return t.K == "tup" && (t.HasSize && t.Hi == 0 || !t.HasSize && len(t.Ts) == 0)
}

// hole names the covariant position of fa that holds a (fa = F[a]).
func hole(a, fa lat.Ty) string {
	switch fa.K {
	case "arr":
		return "arr-elem"
	case "hash":
		if lat.TyEq(fa.Ts[0], a) {
			return "hash-key"
		}
		return "hash-val"
	case "tup":
		return "tup-slot"
	case "struct":
		return "struct-member"
	case "var":
		return "var-member"
	}
	return fa.K
}

// twice builds two separate copies of u and asks q about them; a term that cannot be built, or a fault, answers false.
func twice(env *lat.Env, u lat.Ty, q func(a, b px.Type) bool) bool {
	a, err := env.BuildCtor(u)
	if err != nil {
		return false
	}
	b, err := env.BuildCtor(u)
	if err != nil {
		return false
	}
	ok := false
	lat.Safely(func() { ok = q(a, b) })
	return ok
}

func nonReflexive(env *lat.Env) func(lat.Ty) bool {
	return func(u lat.Ty) bool {
		return twice(env, u, func(a, b px.Type) bool { return !px.IsAssignable(a, b) })
	}
}

func copyNotEqual(env *lat.Env) func(lat.Ty) bool {
	return func(u lat.Ty) bool { return twice(env, u, func(a, b px.Type) bool { return !a.Equals(b, nil) }) }
}

// asgArgs evaluates `asg X Y` on terms given as s-expressions.
func asgArgs(c px.Context, x, y sx.Sexp) *lat.Run { return lat.Exec(c, "asg", []sx.Sexp{x, y}) }

func exec(c px.Context, op string, args []sx.Sexp) core.Result {
	if res, ok := lat.ExecTier2(c, op, args); ok {
		return res
	}
	switch op {
	case "law-top", "law-var", "law-opt":
		return law(c, op, args)
	case "eq", "asg", "trans", "imp":
	default:
		return core.Result{Out: "bad-op", Pred: "FAIL harness-bad-op " + op}
	}
	r := lat.Exec(c, op, args)
	if res, ok := r.Generic(); ok {
		return res
	}
	if r.Status == "fault" {
		if op == "eq" {
			return r.Fault("eq-fault")
		}
		return r.Fault("panic")
	}
	switch op {
	case "eq":
		a, b := r.A[0].Ty, r.A[1].Ty
		head := lat.Head(a)
		nt := r.B[0] || !lat.Nullary(a) || !lat.Nullary(b)
		if lat.TyEq(a, b) && !r.B[0] {
			return r.Result("FAIL noneq-copy-"+lat.Culprit(a, copyNotEqual(r.Env))+" a separately built copy is not equal", true)
		}
		if r.B[0] {
			ab, f1 := lat.SafeAsg(r.A[0].C, r.A[1].C)
			ba, f2 := lat.SafeAsg(r.A[1].C, r.A[0].C)
			if f1 != nil || f2 != nil {
				return r.Result("FAIL panic assignability of equal types", true)
			}
			if !ab || !ba {
				if nonReflexive(r.Env)(a) { // A does not even accept a copy of itself: name the smallest such sub-term
					head = lat.Culprit(a, nonReflexive(r.Env))
				}
				return r.Result("FAIL eq-not-asg-"+head+" equal types do not accept each other: "+sx.B(ab)+" "+sx.B(ba), true)
			}
		}
		return r.Result("ok", nt)
	case "asg":
		a, b := r.A[0].Ty, r.A[1].Ty
		if lat.TyEq(a, b) && !r.B[0] {
			return r.Result("FAIL nonrefl-"+lat.Culprit(a, nonReflexive(r.Env))+" a type does not accept a separately built copy of itself", true)
		}
		return r.Result("ok", !lat.Nullary(a) || !lat.Nullary(b))
	case "trans":
		a, b, cc := r.A[0].Ty, r.A[1].Ty, r.A[2].Ty
		nt := r.B[0] && r.B[1]
		if anyUnit(a, b, cc) {
			return r.Result("n/a", nt)
		}
		if r.B[0] && r.B[1] && !r.B[2] {
			heads := lat.Head(a) + "-" + lat.Head(b) + "-" + lat.Head(cc)
			class := "nontrans-" + heads
			sfh := func(x, y lat.Ty) bool { return lat.ContainsK(x, "struct") && lat.ContainsK(y, "hash") }
			defCall := func(t lat.Ty) bool { return t.K == "call" && len(t.Ts) == 0 }
			switch {
			case lat.Contains(b, defCall) && lat.ContainsK(a, "call") && !lat.Contains(a, defCall):
				// known finding C03-trans-callable-top: the default Callable (all three parts absent) accepts every Callable, and is accepted by
				// a Callable that constrains only its return type, which does not accept what the default accepts
				class = "nontrans-callable-top"
			case sfh(a, b) || sfh(b, cc):
				class = "nontrans-sfh" // the permanent counterexample: a Struct accepts a Hash by specification
			case lat.Contains(b, zeroTuple) || lat.Contains(cc, zeroTuple):
				class = "nontrans-tup0" // a Tuple whose only instance is the empty array, with or without member types
			case lat.ContainsK(a, "iter") || lat.ContainsK(b, "iter") || lat.ContainsK(cc, "iter"):
				class = "nontrans-iterable"
			}
			return r.Result("FAIL "+class+" A accepts B, B accepts C, A rejects C ("+heads+")", true)
		}
		return r.Result("ok", nt)
	default: // imp
		a, b, a2, b2 := r.A[0].Ty, r.A[1].Ty, r.A[2].Ty, r.A[3].Ty
		if r.B[0] && !r.B[1] {
			class := "nonmono-" + hole(a, a2)
			if lat.TyEq(b, b2) {
				class = "nonwiden-" + lat.Head(a)
			}
			if anyUnit(a, b, a2, b2) {
				class += "-unit"
			}
			return r.Result("FAIL "+class+" the first acceptance holds, the second does not", true)
		}
		return r.Result("ok", r.B[0])
	}
}

// law evaluates one of the three laws of the property text on the implementation.
func law(c px.Context, op string, args []sx.Sexp) core.Result {
	want := map[string]int{"law-top": 1, "law-var": 2, "law-opt": 1}[op]
	if len(args) != want {
		return core.Result{Out: "bad-op", Pred: "FAIL harness-bad-op " + op}
	}
	var runs []*lat.Run
	class := ""
	switch op {
	case "law-top": // Any accepts everything
		class = "law-top"
		runs = []*lat.Run{asgArgs(c, sx.A("any"), args[0])}
	case "law-var": // Variant[..A..] accepts A
		class = "law-variant"
		member := false
		for _, m := range args[0].Args() {
			if args[0].Tag() == "var" && m.String() == args[1].String() {
				member = true
			}
		}
		if !member {
			return core.Result{Out: "bad-op", Pred: "FAIL harness-bad-op law-var: A is not a member"}
		}
		runs = []*lat.Run{asgArgs(c, args[0], args[1])}
	default: // Optional[A] accepts A and Undef
		class = "law-optional"
		runs = []*lat.Run{asgArgs(c, sx.T("opt", args[0]), args[0]), asgArgs(c, sx.T("opt", args[0]), sx.A("undef"))}
	}
	out := ""
	var tags []string
	for _, r := range runs {
		if res, ok := r.Generic(); ok {
			return res
		}
		if r.Status == "fault" {
			return r.Fault("panic")
		}
		out += " " + r.Out
		tags = r.Tags
	}
	tags = append([]string{"op:" + op}, tags[1:]...)
	res := core.Result{Out: out[1:], Pred: "ok", NonTrivial: true, Tags: tags}
	for _, r := range runs {
		if !r.B[0] {
			res.Pred = "FAIL " + class + " " + r.A[0].Ty.String() + " rejects " + r.A[1].Ty.String()
		}
	}
	return res
}

// shuffled reorders what an equality "up to order" should not care about: variant members, enum values, pattern sources.
func shuffled(lg *lat.Gen, t lat.Ty) lat.Ty {
	r := t
	if len(t.Ts) > 0 {
		r.Ts = make([]lat.Ty, len(t.Ts))
		for i, k := range t.Ts {
			r.Ts[i] = shuffled(lg, k)
		}
	}
	if len(t.Ms) > 0 {
		r.Ms = make([]lat.Member, len(t.Ms))
		for i, m := range t.Ms {
			r.Ms[i] = lat.Mem(m.Name, m.Opt, shuffled(lg, m.T))
		}
	}
	switch t.K {
	case "var":
		lg.R.Shuffle(len(r.Ts), func(i, j int) { r.Ts[i], r.Ts[j] = r.Ts[j], r.Ts[i] })
	case "enum", "pat":
		r.S = append([]string{}, t.S...)
		lg.R.Shuffle(len(r.S), func(i, j int) { r.S[i], r.S[j] = r.S[j], r.S[i] })
	}
	return r
}

func gen(g *core.G) {
	lg := &lat.Gen{R: g.Rng, NoUnit: true, Call: true}
	u1, u2 := lat.Universe(1), lat.Universe(2)
	pick := func(ts []lat.Ty) lat.Ty { return ts[g.Rng.Intn(len(ts))] }
	s := func(t lat.Ty) string { return t.String() }
	randTy := func(i int) lat.Ty {
		lg.Alias = i%5 == 0
		lg.NoUnit = i%10 != 0
		return lg.Ty(1 + g.Rng.Intn(4))
	}

	// ---- (1) the exhaustive small universe -------------------------------------------------------------------
	// (i) reflexivity and equality of copies on all of U2
	// (`eq` lines never hold aliases: the equality of two aliases depends on their names, which terms do not have)
	for _, t := range u2 {
		g.Emit("eq " + s(t) + " " + s(t))
		g.Emit("asg " + s(t) + " " + s(t))
	}
	// (v) the laws on all of U1
	for _, t := range u1 {
		g.Emit("asg any " + s(t))
		g.Emit("@law-top " + s(t))
		g.Emit("asg " + s(lat.Opt(t)) + " " + s(t))
		g.Emit("asg " + s(lat.Opt(t)) + " undef")
		g.Emit("@law-opt " + s(t))
	}
	// (ii) transitivity: triples of U1 (sampled; the full cube has 10^8 members), and chains through every B of U1
	for i := 0; i < 5000*g.Scale; i++ {
		g.Emit("trans " + s(pick(u1)) + " " + s(pick(u1)) + " " + s(pick(u1)))
	}
	for _, b := range u1 {
		for i := 0; i < 3*g.Scale; i++ {
			g.Emit("trans " + s(lg.Widen(b)) + " " + s(b) + " " + s(lg.Narrow(b)))
		}
	}
	// (ii') the positional rules, exhaustively: every triple of Tuple / Array types whose declared types are shorter
	// than, equal to or longer than the maximal sizes involved (thorough: the 96-type universe)
	pos := lat.Positional(g.Thorough())
	for _, a := range pos {
		for _, b := range pos {
			for _, cc := range pos {
				g.Emit("trans " + s(a) + " " + s(b) + " " + s(cc))
			}
		}
	}
	// (ii'') the Runtime rule, exhaustively: every pair (acceptance, equality) and every triple (thorough; quick: a sample) of the 27
	// Runtime types over 3 runtimes x 3 names x 3 patterns
	rts := lat.RuntimeUniverse()
	for _, a := range rts {
		for _, b := range rts {
			g.Emit("asg " + s(a) + " " + s(b))
			g.Emit("eq " + s(a) + " " + s(b))
			for _, cc := range rts {
				if g.Thorough() || g.Rng.Intn(8) == 0 {
					g.Emit("trans " + s(a) + " " + s(b) + " " + s(cc))
				}
			}
		}
	}
	// (ii-c) the Callable rule: every pair of the 60 Callables over 5 parameter lists x 4 return types x 3 blocks (acceptance, equality) and a
	// sample of the triples (thorough: all 216 000)
	cus := lat.CallableUniverse()
	for _, a := range cus {
		for _, b := range cus {
			g.Emit("asg " + s(a) + " " + s(b))
			g.Emit("eq " + s(a) + " " + s(b))
			for _, cc := range cus {
				if g.Thorough() || g.Rng.Intn(60) == 0 {
					g.Emit("trans " + s(a) + " " + s(b) + " " + s(cc))
				}
			}
		}
	}
	// the shape of the known finding C03-trans-callable-top, always: a Callable that constrains only its return type, the default, any other
	for _, cc := range cus {
		for _, r := range []lat.Ty{lat.Atom("any"), lat.Opt(lat.Atom("any")), lat.Atom("str")} {
			r := r
			g.Emit("trans " + s(lat.Call(nil, &r, nil)) + " " + s(lat.Call(nil, nil, nil)) + " " + s(cc))
		}
	}
	// (ii-e) the case family: case-insensitive Enums next to String['Mixed'], Enums (cs and ci, also built by the constructor from mixed
	// spellings) and Patterns whose spellings differ in case only — every pair (acceptance, equality), the triples (quick: 1/3), and every pair
	// as members of an Array / Variant / Struct / Optional
	cf := lat.CaseFamily()
	for _, a := range cf {
		for _, b := range cf {
			g.Emit("asg " + s(a) + " " + s(b))
			g.Emit("eq " + s(a) + " " + s(b))
			g.Emit("asg " + s(lat.Arr(a, 0, 2)) + " " + s(lat.Arr(b, 1, 2)))
			g.Emit("asg " + s(lat.Var(a, lat.Atom("undef"))) + " " + s(lat.Opt(b)))
			g.Emit("asg " + s(lat.Struct(lat.Mem("k", true, a))) + " " + s(lat.Struct(lat.Mem("k", false, b))))
			for _, cc := range cf {
				if g.Thorough() || g.Rng.Intn(3) == 0 {
					g.Emit("trans " + s(a) + " " + s(b) + " " + s(cc))
				}
			}
		}
	}
	for i, vs := range lat.EnumSpellingLists(false, g.Rng.Intn) { // the constructor's Enums against the words and against each other
		t := lat.EnumRaw(true, vs...)
		for _, w := range lat.CaseStrings() {
			g.Emit("asg " + s(t) + " " + s(lat.StrVal(w)))
			g.Emit("trans " + s(t) + " " + s(lat.Enum(false, w, "Ab")) + " " + s(lat.StrVal(w)))
		}
		g.Emit("eq " + s(t) + " " + s(lat.CanonEnum(t)))
		g.Emit("asg " + s(t) + " " + s(lat.EnumRaw(false, vs...)))
		if i%4 == 0 {
			g.Emit("asg " + lat.Txt(lat.EnumText(true, vs)).String() + " " + s(lat.EnumRaw(false, vs...)))
		}
	}
	// NewStringType with the bounds as given (model: mkStrRaw): a negative minimum is clamped BEFORE the test for the default range, so
	// String[Integer[-3, default]] is the default String: equal to it, accepting the Enums and Patterns it accepts (seeded change C03-s7)
	for _, b := range [][2]int64{{-3, lat.MaxI}, {-1, lat.MaxI}, {lat.MinI, lat.MaxI}, {0, lat.MaxI}, {-2, 5}, {-7, 0}, {1, lat.MaxI}, {2, 5}} {
		t := lat.StrRaw(b[0], b[1])
		g.Emit("eq " + s(t) + " " + s(lat.CanonStr(t)))
		g.Emit("eq " + s(lat.CanonStr(t)) + " " + s(t))
		g.Emit("eq " + s(t) + " " + s(lat.Atom("str")))
		for _, o := range []lat.Ty{lat.Atom("str"), lat.Enum(false), lat.Enum(false, "ab", "c"), lat.Pat("a"), lat.StrVal("ab"), lat.StrSz(0, 5), lat.CanonStr(t)} {
			g.Emit("asg " + s(t) + " " + s(o))
			g.Emit("asg " + s(o) + " " + s(t))
		}
		g.Emit("trans " + s(lat.Atom("str")) + " " + s(t) + " " + s(lat.Enum(false)))
		g.Emit("asg " + s(lat.Arr(t, 0, 3)) + " " + s(lat.Arr(lat.Atom("str"), 0, 3)))
	}
	// equality across the universe (mostly false; equal-but-different terms are what matters)
	for i := 0; i < 2000*g.Scale; i++ {
		g.Emit("eq " + s(pick(u1)) + " " + s(pick(u1)))
	}

	// ---- (2) structured random related tuples ------------------------------------------------------------------------
	for i := 0; i < 2500*g.Scale; i++ {
		t := randTy(i)
		g.Emit("asg " + s(t) + " " + s(t))
		t = lat.StripAlias(t)
		g.Emit("eq " + s(t) + " " + s(t))
		// nearly equal partners: reordered members, one range widened, a narrowing
		var u lat.Ty
		switch i % 3 {
		case 0:
			u = shuffled(lg, t)
		case 1:
			u, _ = lg.WidenRange(t)
		default:
			u = lg.Narrow(t)
		}
		g.Emit("eq " + s(t) + " " + s(u))
		g.Emit("eq " + s(u) + " " + s(t))
	}
	// same shape, one member replaced (lengths kept): partners that an equality by length, or by inclusion one way,
	// takes for equal. Half of them start from a list-shaped type so that the replaced member sits at the top.
	for i := 0; i < 1500*g.Scale; i++ {
		t := lat.StripAlias(randTy(i))
		if i%2 == 0 {
			lg.Alias = false
			switch i % 10 {
			case 0, 2:
				t = lat.Pat(lg.PatSrcs(1 + g.Rng.Intn(3))...)
			case 4:
				t = lg.EnumN(1 + g.Rng.Intn(3))
			case 6:
				t = lat.Var(lg.Ty(1), lg.Ty(1), lg.Ty(2))
			default:
				t = lat.Tup([]lat.Ty{lg.Ty(1), lg.Ty(2)})
			}
		}
		lg.Alias = false // `eq` lines never hold aliases
		u, ok := lg.SwapOne(t)
		if !ok {
			continue
		}
		g.Emit("eq " + s(t) + " " + s(u))
		g.Emit("eq " + s(u) + " " + s(t))
		g.Emit("asg " + s(t) + " " + s(u))
		g.Emit("asg " + s(u) + " " + s(t))
	}
	for i := 0; i < 7000*g.Scale; i++ { // (ii) A ⊒ B ⊒ C by construction (intended)
		a := randTy(i)
		b := lg.Narrow(a)
		cc := lg.Narrow(b)
		if i%7 == 0 {
			a = lg.Widen(a)
		}
		g.Emit("trans " + s(a) + " " + s(b) + " " + s(cc))
	}
	for i := 0; i < 1100*g.Scale; i++ { // (iii) monotonicity in every covariant hole
		b := randTy(i)
		if i%4 == 0 {
			b = pick(u1)
		}
		a := lg.Widen(b)
		if i%9 == 0 {
			a = b
		}
		lg.Alias = false
		for _, cx := range lg.Contexts(a, b) {
			g.Emit("imp " + s(a) + " " + s(b) + " " + s(cx.FA) + " " + s(cx.FB))
		}
	}
	for i := 0; i < 5000*g.Scale; i++ { // (iv) widening one range never turns acceptance into rejection
		fa := randTy(i)
		wide, ok := lg.WidenRange(fa)
		if !ok {
			continue
		}
		b := lg.Narrow(fa)
		if i%5 == 0 {
			b = fa
		}
		g.Emit("imp " + s(fa) + " " + s(b) + " " + s(wide) + " " + s(b))
	}
	for i := 0; i < 900*g.Scale; i++ { // (v) the laws
		t := randTy(i)
		g.Emit("asg any " + s(t))
		g.Emit("@law-top " + s(t))
		g.Emit("asg " + s(lat.Opt(t)) + " " + s(t))
		g.Emit("asg " + s(lat.Opt(t)) + " undef")
		g.Emit("@law-opt " + s(t))
		lg.Alias = false
		sibs := []lat.Ty{lg.Ty(1)}
		if i%3 == 0 {
			sibs = append(sibs, lg.Ty(2))
		}
		pos := g.Rng.Intn(len(sibs) + 1)
		ms := append(append(append([]lat.Ty{}, sibs[:pos]...), t), sibs[pos:]...)
		v := lat.Var(ms...)
		g.Emit("asg " + s(v) + " " + s(t))
		g.Emit("@law-var " + s(v) + " " + s(t))
	}

	// ---- (2a) chains built on purpose through the rules the random walk rarely lines up (lat/chains.go): the built-in aliases in
	// the middle / on the right / on the left, Struct ⊒ Struct ⊒ Struct with members dropped / made required, Iterable through Hash /
	// Struct / the String family / Binary
	lg.Alias, lg.NoUnit = false, true
	for _, tr := range lg.AliasChains(1500 * g.Scale) {
		g.Emit("trans " + s(tr.A) + " " + s(tr.B) + " " + s(tr.C))
	}
	for _, tr := range lg.StructChains(1200 * g.Scale) {
		g.Emit("trans " + s(tr.A) + " " + s(tr.B) + " " + s(tr.C))
	}
	for _, tr := range lg.IterChains(1200 * g.Scale) {
		g.Emit("trans " + s(tr.A) + " " + s(tr.B) + " " + s(tr.C))
	}

	// ---- (2') the recursion guard of aliases: one alias object meeting the same right-hand part twice -----------
	for _, gc := range lg.GuardCases(300 * g.Scale) {
		g.Emit("asg " + s(gc.A) + " " + s(gc.B))
		g.Emit("trans " + s(gc.A) + " " + s(gc.B) + " " + s(lg.Narrow(gc.B)))
	}

	// ---- (2'') types given as TEXT in every parameter form of the creators: a text and the separately built type it denotes
	// are equal and accept each other; texts against texts --------------------------------------------------------------------
	spells := lg.Spellings(px.CurrentContext(), 300*g.Scale)
	for i, sc := range spells {
		ta := lat.Txt(sc.Text).String()
		g.Emit("eq " + ta + " " + s(sc.Ty))
		g.Emit("asg " + ta + " " + s(sc.Ty))
		g.Emit("asg " + s(sc.Ty) + " " + ta)
		g.Emit("asg " + ta + " " + s(lg.Narrow(sc.Ty)))
		g.Emit("asg " + s(lg.Widen(sc.Ty)) + " " + ta)
		o := spells[(i*7+3)%len(spells)]
		g.Emit("asg " + ta + " " + lat.Txt(o.Text).String())
		g.Emit("trans " + s(lg.Widen(sc.Ty)) + " " + ta + " " + s(lg.Narrow(sc.Ty)))
	}

	// ---- (3) malformed stream (implementation only) ----------------------------------------------------------------
	odd := []string{"(int 2 1)", "(strsz 3 1)", "(arr any 5 2)", "(var str)", "(struct (x f str))", "(obj 3)", "(enum t x41)", "(tup (str) (2 1))"}
	for i := 0; i < 200; i++ {
		x := odd[i%len(odd)]
		g.Emit("@eq " + x + " " + x)
		g.Emit("@trans " + x + " " + s(lg.Ty(1)) + " " + x)
	}
	lat.GenTier2(g.Emit, g.Rng, "C03")
}
