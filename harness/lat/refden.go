package lat

import (
	"math"
	"regexp"
	"strings"
	"unicode/utf8"
)

// Ref is the three-valued answer of the reference interpreter.
type Ref int

const (
	RefNo Ref = iota
	RefYes
	RefNA // the type lies outside the reference fragment (it contains Iterable)
)

// RefDen is the reference interpreter of the SET DENOTATION of a type term: is the value v a member of the
// set the Puppet type system defines for t?  It is written from the text of property C02, on terms only; it
// never calls pcore and does not follow the shape of pcore's IsInstance methods.  The single exception is
// Type[T], whose members are by definition "the types u assignable to T": that question is handed to `asg`.
func RefDen(t Ty, v Val, asg func(t, u Ty) bool) Ref {
	if ContainsK(t, "iter") {
		return RefNA
	}
	if member(t, v, asg) {
		return RefYes
	}
	return RefNo
}

func isStr(v Val) bool    { return v.K == "s" }
func isNumber(v Val) bool { return v.K == "i" || v.K == "f" }

func inSize(n int, lo, hi int64) bool { return lo <= int64(n) && int64(n) <= hi }

func all(vs []Val, p func(Val) bool) bool {
	for _, v := range vs {
		if !p(v) {
			return false
		}
	}
	return true
}

func isPrefix(p, q []int64) bool {
	if len(p) > len(q) {
		return false
	}
	for i := range p {
		if p[i] != q[i] {
			return false
		}
	}
	return true
}

func member(t Ty, v Val, asg func(t, u Ty) bool) bool {
	in := func(u Ty) func(Val) bool { return func(x Val) bool { return member(u, x, asg) } }
	switch t.K {
	case "alias":
		return member(t.Ts[0], v, asg)
	case "any", "unit":
		return true
	case "undef":
		return v.K == "undef"
	case "default":
		return v.K == "default"
	case "scalar": // strings, numbers, booleans, regexps, timespans
		return isStr(v) || isNumber(v) || v.K == "b" || v.K == "rxv" || v.K == "ts" || v.K == "tsv"
	case "sdata": // strings, integers, floats, booleans
		return isStr(v) || isNumber(v) || v.K == "b"
	case "numeric":
		return isNumber(v)
	case "str":
		return isStr(v)
	case "bin":
		return v.K == "binv"
	case "int": // ranges are inclusive
		return v.K == "i" && t.Lo <= v.I && v.I <= t.Hi
	case "flt": // ranges are inclusive; a bound left at its default is no bound: the infinity beyond MaxFloat64 is included
		lo, hi := t.FLo, t.FHi
		if lo <= -math.MaxFloat64 {
			lo = math.Inf(-1)
		}
		if hi >= math.MaxFloat64 {
			hi = math.Inf(1)
		}
		return v.K == "f" && lo <= v.F && v.F <= hi
	case "bool":
		return v.K == "b" && (t.B < 0 || v.B == (t.B == 1))
	case "tspan":
		return v.K == "ts" && t.Lo <= v.I && v.I <= t.Hi
	case "tstamp": // an instant between the bounds, compared as (seconds, nanoseconds)
		le := func(s1, n1, s2, n2 int64) bool { return s1 < s2 || s1 == s2 && n1 <= n2 }
		return v.K == "tsv" && le(t.Lo, t.NLo, v.I, v.I2) && le(v.I, v.I2, t.Hi, t.NHi)
	case "strsz": // the size of a string is its number of characters
		return isStr(v) && inSize(utf8.RuneCountInString(v.S), t.Lo, t.Hi)
	case "strval":
		return isStr(v) && v.S == t.S[0]
	case "enum":
		if !isStr(v) {
			return false
		}
		if len(t.S) == 0 { // the default Enum: all strings
			return true
		}
		for _, listed := range t.S {
			if listed == v.S || t.CI && strings.ToLower(listed) == strings.ToLower(v.S) {
				return true
			}
		}
		return false
	case "pat":
		if !isStr(v) {
			return false
		}
		if len(t.S) == 0 { // the default Pattern: all strings
			return true
		}
		for _, src := range t.S {
			if ok, err := regexp.MatchString(src, v.S); err == nil && ok {
				return true
			}
		}
		return false
	case "rx": // the default Regexp type holds every regexp, Regexp[/src/] the regexp with that source
		return v.K == "rxv" && (t.S[0] == "" || t.S[0] == v.S)
	case "coll": // size only
		return v.K == "a" && inSize(len(v.Vs), t.Lo, t.Hi) || v.K == "h" && inSize(len(v.Es), t.Lo, t.Hi)
	case "arr":
		return v.K == "a" && inSize(len(v.Vs), t.Lo, t.Hi) && all(v.Vs, in(t.Ts[0]))
	case "hash":
		if v.K != "h" || !inSize(len(v.Es), t.Lo, t.Hi) {
			return false
		}
		for _, e := range v.Es {
			if !member(t.Ts[0], e.K, asg) || !member(t.Ts[1], e.V, asg) {
				return false
			}
		}
		return true
	case "tup":
		// an array whose length lies in the size (the number of types when no size is given) and whose
		// element at every position is a member of the type of that position, the last type repeating
		if v.K != "a" {
			return false
		}
		lo, hi := int64(len(t.Ts)), int64(len(t.Ts))
		if t.HasSize {
			lo, hi = t.Lo, t.Hi
		}
		if !inSize(len(v.Vs), lo, hi) {
			return false
		}
		for i, e := range v.Vs {
			if len(t.Ts) == 0 {
				break // no position is constrained
			}
			p := i
			if p >= len(t.Ts) {
				p = len(t.Ts) - 1
			}
			if !member(t.Ts[p], e, asg) {
				return false
			}
		}
		return true
	case "struct":
		// every present key is declared and its value conforms; every non-optional member is present
		if v.K != "h" {
			return false
		}
		for _, e := range v.Es {
			declared := false
			for _, m := range t.Ms {
				if isStr(e.K) && e.K.S == m.Name {
					declared = true
					if !member(m.T, e.V, asg) {
						return false
					}
				}
			}
			if !declared {
				return false
			}
		}
		for _, m := range t.Ms {
			if m.Opt {
				continue
			}
			present := false
			for _, e := range v.Es {
				if isStr(e.K) && e.K.S == m.Name {
					present = true
				}
			}
			if !present {
				return false
			}
		}
		return true
	case "var": // union
		for _, u := range t.Ts {
			if member(u, v, asg) {
				return true
			}
		}
		return false
	case "opt": // adds undef
		return v.K == "undef" || member(t.Ts[0], v, asg)
	case "nu": // removes undef
		return v.K != "undef" && member(t.Ts[0], v, asg)
	case "type": // exactly the types assignable to T
		return v.K == "t" && asg(t.Ts[0], *v.T)
	case "sens":
		return v.K == "sv" && member(t.Ts[0], v.Vs[0], asg)
	case "call": // lambdas are not part of the value language
		return false
	case "rt": // runtime values are not part of the value language
		return false
	case "itr": // iterators are not part of the value language: no value term denotes one
		return false
	case "data": // Data = ScalarData | Undef | Array[Data] | Hash[String, Data]
		switch v.K {
		case "undef":
			return true
		case "a":
			return all(v.Vs, in(t))
		case "h":
			for _, e := range v.Es {
				if !isStr(e.K) || !member(t, e.V, asg) {
					return false
				}
			}
			return true
		}
		return member(Atom("sdata"), v, asg)
	case "rdata":
		// RichData = Scalar | Binary | Default | Object instances | types | Undef | Array[RichData]
		//          | Hash[String or Numeric keys, RichData]
		switch v.K {
		case "binv", "default", "o", "t", "undef":
			return true
		case "a":
			return all(v.Vs, in(t))
		case "h":
			for _, e := range v.Es {
				if !(isStr(e.K) || isNumber(e.K)) || !member(t, e.V, asg) {
					return false
				}
			}
			return true
		}
		return member(Atom("scalar"), v, asg)
	case "obj":
		if len(t.Path) == 0 {
			// The default Object holds every object instance and — a quirk of pcore, where every type is
			// itself an instance of an object type (its meta type) — every type used as a value.
			return v.K == "o" || v.K == "t"
		}
		// an instance of (obj P) is an instance of a type whose ancestor path starts with P
		return v.K == "o" && isPrefix(t.Path, v.Path)
	}
	panic("refden: bad type term kind " + t.K)
}
