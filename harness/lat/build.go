package lat

import (
	"fmt"
	"regexp"
	"strconv"
	"strings"
	"sync/atomic"
	"time"

	"github.com/lyraproj/pcore/px"
	"github.com/lyraproj/pcore/types"
)

// Env is the fixed environment of one pcore context: the five user object types
//
//	Lat::O1   Lat::O1x1 (parent O1)   Lat::O1x1x1 (parent O1x1)   Lat::O1x2 (parent O1)   Lat::O2
//
// declared once per context (pxh runs every op of a worker inside one long-lived pcore.Do).
type Env struct {
	C    px.Context
	objs map[string]px.Type
	// aliases declared while ONE argument is built, by the text of the (alias T) term: the same term inside one argument
	// is the same alias OBJECT (the recursion guard of aliases is keyed by identity, so only a shared alias ever meets
	// its own earlier comparison); arguments share nothing with each other
	memo map[string]px.Type
}

const envKey = "verif.lat.env"

// ObjPaths lists the ancestor paths of the declared object types, parents first.
var ObjPaths = [][]int64{{1}, {1, 1}, {1, 1, 1}, {1, 2}, {2}}

// ObjName is the pcore name of the object type with the given ancestor path: (obj 1 2) → Lat::O1x2.
func ObjName(path []int64) string {
	parts := make([]string, len(path))
	for i, n := range path {
		parts[i] = strconv.FormatInt(n, 10)
	}
	return "Lat::O" + strings.Join(parts, "x")
}

// ObjPath is the inverse of ObjName.
func ObjPath(name string) ([]int64, bool) {
	if !strings.HasPrefix(name, "Lat::O") {
		return nil, false
	}
	var path []int64
	for _, p := range strings.Split(name[len("Lat::O"):], "x") {
		n, err := strconv.ParseInt(p, 10, 64)
		if err != nil || n <= 0 {
			return nil, false
		}
		path = append(path, n)
	}
	return path, len(path) > 0
}

// EnvOf returns the environment of c, declaring the object types on first use.
func EnvOf(c px.Context) *Env {
	if e, ok := c.Get(envKey); ok {
		return e.(*Env)
	}
	env := &Env{C: c, objs: map[string]px.Type{}}
	for _, p := range ObjPaths {
		name := ObjName(p)
		decl := "type " + name + " = Object[{}]"
		if len(p) > 1 {
			decl = "type " + name + " = Object[{parent => " + ObjName(p[:len(p)-1]) + "}]"
		}
		t := c.ParseType(decl)
		px.AddTypes(c, t)
		env.objs[name] = t
	}
	// ONE pair of user-defined recursive aliases for the second-tier (harness-only) tests
	rec := []px.Type{
		types.Parse("type Lat::Tree = Variant[Integer, Array[Lat::Tree]]").(px.Type),
		types.Parse("type Lat::STree = Variant[Integer[0, 9], Array[Lat::STree]]").(px.Type),
	}
	px.AddTypes(c, rec...)
	// ONE Object type with a TYPE-valued type parameter (second tier: Lat::P[Integer] accepts Lat::P[T] iff Integer accepts T)
	px.AddTypes(c, c.ParseType("type Lat::P = Object[{type_parameters => {p => Type}, attributes => {a => Integer, p => {type => Optional[Type], value => undef}}}]"))
	c.Set(envKey, env)
	return env
}

// Safely runs f and returns the recovered panic value, if any.
func Safely(f func()) (err interface{}) {
	defer func() { err = recover() }()
	f()
	return nil
}

var aliasCounter int64

func freshAliasName() string {
	return "Lat::A" + strconv.FormatInt(atomic.AddInt64(&aliasCounter, 1), 10)
}

// BuildCtor builds the live type of a term through the Go constructors of package types.  A term the
// constructors refuse (they panic, e.g. min > max), or that no constructor call can produce (a
// one-member Variant, an undeclared object type), yields an error.
func (env *Env) BuildCtor(t Ty) (r px.Type, err error) {
	defer func() {
		if e := recover(); e != nil {
			r, err = nil, fmt.Errorf("unbuildable %s: %v", t.K, e)
		}
	}()
	env.memo = map[string]px.Type{}
	return env.ctor(t, false), nil
}

// BuildParse builds the constructor-made type, prints it the way pcore prints types and parses that text
// with Context.ParseType.  Aliases inside the term are declared as text too (`type Lat::An = <text>`).
func (env *Env) BuildParse(t Ty) (r px.Type, err error) {
	defer func() {
		if e := recover(); e != nil {
			r, err = nil, fmt.Errorf("unparsable %s: %v", t.K, e)
		}
	}()
	env.memo = map[string]px.Type{}
	return env.reparse(env.ctor(t, true)), nil
}

func (env *Env) reparse(t px.Type) px.Type {
	return env.C.ParseType(t.String())
}

// tsTime: the instant `sec` seconds and `ns` nanoseconds after 0001-01-01T00:00:00Z (time.Time's internal epoch)
func tsTime(sec, ns int64) time.Time {
	if sec < MinI+TsEpoch {
		panic("instant not representable")
	}
	return time.Unix(sec-TsEpoch, ns).UTC()
}

// TsParts is the inverse of tsTime.
func TsParts(t time.Time) (int64, int64) { return t.Unix() + TsEpoch, int64(t.Nanosecond()) }

func sizeType(lo, hi int64) *types.IntegerType {
	if lo < 0 {
		panic("negative size")
	}
	return types.NewIntegerType(lo, hi)
}

// ctor: one case per constructor of the term language.  `parsed` selects how (alias T) is declared.
func (env *Env) ctor(t Ty, parsed bool) px.Type {
	switch t.K {
	case "any":
		return types.DefaultAnyType()
	case "unit":
		return types.DefaultUnitType()
	case "undef":
		return types.DefaultUndefType()
	case "default":
		return types.DefaultDefaultType()
	case "scalar":
		return types.DefaultScalarType()
	case "sdata":
		return types.DefaultScalarDataType()
	case "numeric":
		return types.DefaultNumericType()
	case "data":
		return types.DefaultDataType()
	case "rdata":
		return types.DefaultRichDataType()
	case "str":
		return types.DefaultStringType()
	case "bin":
		return types.DefaultBinaryType()
	case "int":
		return types.NewIntegerType(t.Lo, t.Hi)
	case "flt":
		return types.NewFloatType(t.FLo, t.FHi)
	case "bool":
		if t.B < 0 {
			return types.DefaultBooleanType()
		}
		return types.NewBooleanType(t.B == 1)
	case "tspan":
		if t.Lo > t.Hi {
			panic("min > max")
		}
		return types.NewTimespanType(time.Duration(t.Lo), time.Duration(t.Hi))
	case "tstamp":
		if t.Lo > t.Hi || t.Lo == t.Hi && t.NLo > t.NHi {
			panic("min > max")
		}
		return types.NewTimestampType(tsTime(t.Lo, t.NLo), tsTime(t.Hi, t.NHi))
	case "strsz":
		return types.NewStringType(sizeType(t.Lo, t.Hi), "")
	case "strraw":
		if t.Lo > t.Hi {
			panic("min > max")
		}
		return types.NewStringType(types.NewIntegerType(t.Lo, t.Hi), "")
	case "strval":
		// NewStringType(nil, "") answers the default String type; the type of a string literal (the
		// only way to a vcStringType of the empty string) is what its PType() returns.
		return types.WrapString(t.S[0]).PType()
	case "enum", "enumraw":
		return types.NewEnumType(append([]string{}, t.S...), t.CI)
	case "pat":
		rs := make([]*types.RegexpType, len(t.S))
		for i, s := range t.S {
			rs[i] = types.NewRegexpType(s)
		}
		return types.NewPatternType(rs)
	case "rx":
		return types.NewRegexpType(t.S[0])
	case "coll":
		return types.NewCollectionType(sizeType(t.Lo, t.Hi))
	case "arr":
		return types.NewArrayType(env.ctor(t.Ts[0], parsed), sizeType(t.Lo, t.Hi))
	case "hash":
		return types.NewHashType(env.ctor(t.Ts[0], parsed), env.ctor(t.Ts[1], parsed), sizeType(t.Lo, t.Hi))
	case "tup":
		ts := make([]px.Type, len(t.Ts))
		for i, e := range t.Ts {
			ts[i] = env.ctor(e, parsed)
		}
		if !t.HasSize {
			return types.NewTupleType(ts, nil)
		}
		return types.NewTupleType(ts, sizeType(t.Lo, t.Hi))
	case "struct":
		es := make([]*types.StructElement, len(t.Ms))
		seen := map[string]bool{}
		for i, m := range t.Ms {
			if seen[m.Name] {
				panic("duplicate struct member")
			}
			seen[m.Name] = true
			var key px.Type = types.WrapString(m.Name).PType()
			if m.Opt {
				key = types.NewOptionalType(key)
			}
			es[i] = types.NewStructElement(key, env.ctor(m.T, parsed))
		}
		return types.NewStructType(es)
	case "var":
		if len(t.Ts) == 1 {
			panic("NewVariantType of one type answers that type: a one-member Variant cannot be constructed")
		}
		ts := make([]px.Type, len(t.Ts))
		for i, e := range t.Ts {
			ts[i] = env.ctor(e, parsed)
		}
		return types.NewVariantType(ts...)
	case "opt":
		return types.NewOptionalType(env.ctor(t.Ts[0], parsed))
	case "nu":
		return types.NewNotUndefType(env.ctor(t.Ts[0], parsed))
	case "type":
		return types.NewTypeType(env.ctor(t.Ts[0], parsed))
	case "sens":
		return types.NewSensitiveType(env.ctor(t.Ts[0], parsed))
	case "iter":
		return types.NewIterableType(env.ctor(t.Ts[0], parsed))
	case "itr":
		return types.NewIteratorType(env.ctor(t.Ts[0], parsed))
	case "call":
		var ps [3]px.Type // an absent part is an UNTYPED nil
		for i, p := range CallParts(t) {
			if p != nil {
				ps[i] = env.ctor(*p, parsed)
			}
		}
		return types.NewCallableType(ps[0], ps[1], ps[2])
	case "rt":
		var pat *types.RegexpType
		if len(t.S) > 2 {
			pat = types.NewRegexpType(t.S[2])
		}
		return types.NewRuntimeType(t.S[0], t.S[1], pat)
	case "obj":
		if len(t.Path) == 0 {
			return types.DefaultObjectType()
		}
		if o, ok := env.objs[ObjName(t.Path)]; ok {
			return o
		}
		panic("undeclared object type " + ObjName(t.Path))
	case "alias":
		if a, ok := env.memo[t.String()]; ok {
			return a
		}
		name := freshAliasName()
		inner := env.ctor(t.Ts[0], parsed)
		var a px.Type
		if parsed {
			a = env.C.ParseType("type " + name + " = " + inner.String())
		} else {
			a = types.NewTypeAliasType(name, nil, inner)
		}
		px.AddTypes(env.C, a)
		if env.memo != nil {
			env.memo[t.String()] = a
		}
		return a
	}
	panic("bad type term kind " + t.K)
}

// BuildVal builds the live value of a value term.
func (env *Env) BuildVal(v Val) (r px.Value, err error) {
	defer func() {
		if e := recover(); e != nil {
			r, err = nil, fmt.Errorf("unbuildable value %s: %v", v.K, e)
		}
	}()
	return env.val(v), nil
}

func (env *Env) val(v Val) px.Value {
	switch v.K {
	case "undef":
		return px.Undef
	case "default":
		return types.WrapDefault()
	case "b":
		return types.WrapBoolean(v.B)
	case "i":
		return types.WrapInteger(v.I)
	case "f":
		return types.WrapFloat(v.F)
	case "s":
		return types.WrapString(v.S)
	case "rxv":
		return types.WrapRegexp2(regexp.MustCompile(v.S))
	case "binv":
		return types.WrapBinary([]byte(v.S))
	case "ts":
		return types.WrapTimespan(time.Duration(v.I))
	case "tsv":
		return types.WrapTimestamp(tsTime(v.I, v.I2))
	case "a":
		es := make([]px.Value, len(v.Vs))
		for i, e := range v.Vs {
			es[i] = env.val(e)
		}
		return types.WrapValues(es)
	case "h":
		es := make([]*types.HashEntry, len(v.Es))
		for i, e := range v.Es {
			es[i] = types.WrapHashEntry(env.val(e.K), env.val(e.V))
		}
		return types.WrapHash(es)
	case "sv":
		return types.WrapSensitive(env.val(v.Vs[0]))
	case "t":
		t := env.ctor(*v.T, false)
		// as for type arguments: the term must be what the constructors made
		if back, err := EncTy(t); err != nil || !TyEq(back, StripAlias(*v.T)) {
			panic("type value is not in constructor-normal form")
		}
		return t
	case "o":
		o, ok := env.objs[ObjName(v.Path)]
		if !ok {
			panic("undeclared object type " + ObjName(v.Path))
		}
		return px.New(env.C, o)
	}
	panic("bad value term kind " + v.K)
}
