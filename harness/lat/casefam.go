package lat

import "strings"

// Case families (extension round; seeded changes C02-s14, C03-s13 went unreported): the lattice streams hardly ever met a CASE-INSENSITIVE Enum
// next to strings / String['x'] / Enums / Patterns whose spellings differ in case only, and never an Enum built from a value list that
// MIXES spellings (a term holds what Strings() returns, i.e. the lower-cased values — the constructor's own lower-casing was never asked).
//
//	EnumSpellingLists  value lists over {ab, Ab, AB, aB, "", c, C} of length 1..3, every order (quick: lengths 1, 2 and a sample of 3)
//	EnumRawTypes       (enumraw CI …) over those lists: NewEnumType with the values as given
//	CaseStrings        the strings to test them with: every word in four spellings, "", a word that is in no list
//	CaseFamily         the small closed family for pairs / triples: ci-Enums, cs-Enums with mixed spellings, String['…'] in every spelling,
//	                   Patterns that tell the spellings apart, String, (enumraw …) forms

var caseWords = []string{"ab", "Ab", "AB", "aB", "", "c", "C"}

// EnumSpellingLists enumerates the value lists; pick(n) < n selects the sample of the length-3 lists (nil = all).
func EnumSpellingLists(all bool, pick func(n int) int) [][]string {
	var out [][]string
	for _, a := range caseWords {
		out = append(out, []string{a})
		for _, b := range caseWords {
			out = append(out, []string{a, b})
			for _, c := range caseWords {
				if all || pick(6) == 0 {
					out = append(out, []string{a, b, c})
				}
			}
		}
	}
	return out
}

func CaseStrings() []string {
	return []string{"ab", "Ab", "AB", "aB", "", "c", "C", "abc", "b"}
}

// EnumText is the type expression Enum['v1', 'v2', …, ci] (plain ASCII words: no quoting needed).
func EnumText(ci bool, vs []string) string {
	parts := make([]string, 0, len(vs)+1)
	for _, v := range vs {
		parts = append(parts, "'"+v+"'")
	}
	if ci {
		parts = append(parts, "true")
	}
	return "Enum[" + strings.Join(parts, ", ") + "]"
}

// CaseFamily: 31 types over the words yes / no in several spellings.
func CaseFamily() []Ty {
	return []Ty{
		Enum(true, "yes"), Enum(true, "yes", "no"), Enum(true, "no", "yes"), Enum(true, "no"),
		EnumRaw(true, "Yes", "No"), EnumRaw(true, "Yes", "no"), EnumRaw(true, "yes", "NO"), EnumRaw(true, "YES"),
		Enum(false, "yes"), Enum(false, "Yes"), Enum(false, "YES"), Enum(false, "Yes", "No"), Enum(false, "yes", "no"),
		Enum(false, "YES", "no"), Enum(false, "Yes", "yes"), Enum(false, "no", "Yes"),
		StrVal("yes"), StrVal("Yes"), StrVal("YES"), StrVal("yEs"), StrVal("no"), StrVal("No"),
		Pat("yes"), Pat("Yes"), Pat("^[Yy]es$"), Pat("^(yes|no)$"), Pat("^(Yes|No)$"),
		Atom("str"), StrSz(2, 3), Enum(false), Pat(),
	}
}

// CaseFamilyStrings: instances to try against CaseFamily.
func CaseFamilyStrings() []string { return []string{"yes", "Yes", "YES", "yEs", "no", "No", "NO", "", "y"} }
