package lat

import (
	"fmt"
	"math"

	"verif/harness/sx"
)

// MinI / MaxI stand for "unbounded" in every integer range position.
const (
	MinI = math.MinInt64
	MaxI = math.MaxInt64
)

// Ty is a type term (doc.go, "Type terms").  K is the constructor tag; which of the other fields are
// meaningful depends on K:
//
//	int tspan strsz coll     Lo Hi
//	tstamp                   Lo NLo Hi NHi   (seconds since 0001-01-01T00:00:00Z = time.Time's internal epoch, and nanoseconds 0..999999999)
//	flt                      FLo FHi
//	bool                     B  (-1 = n, 1 = t, 0 = f)
//	strval rx                S[0]
//	rt                       S[0] runtime, S[1] name, S[2] pattern source when present (len(S) == 3)
//	enum                     CI, S (values)
//	pat                      S (sources)
//	arr                      Ts[0], Lo Hi
//	hash                     Ts[0] (key) Ts[1] (value), Lo Hi
//	tup                      Ts, HasSize, Lo Hi (when HasSize)
//	struct                   Ms
//	var                      Ts
//	opt nu type sens iter itr alias   Ts[0]
//	obj                      Path
//	call                     Ts = the PRESENT parts in the order params, return, block; Has[i] tells which of the three are present
type Ty struct {
	K        string
	Lo, Hi   int64
	NLo, NHi int64
	FLo, FHi float64
	B        int
	CI       bool
	HasSize  bool
	Has      [3]bool
	S        []string
	Ts       []Ty
	Ms       []Member
	Path     []int64
}

// Member is one member of a struct type term: (xNAME OPT T).
type Member struct {
	Name string
	Opt  bool
	T    Ty
}

// Val is a value term (doc.go, "Value terms").
//
//	b      B            i ts   I          f   F          s rxv binv   S          tsv  I (seconds since year 1) I2 (nanoseconds)
//	a      Vs           h      Es         sv  Vs[0]      t   T        o   Path
type Val struct {
	K    string
	B    bool
	I    int64
	I2   int64
	F    float64
	S    string
	Vs   []Val
	Es   []Entry
	T    *Ty
	Path []int64
}

// Entry is one hash entry of a value term.
type Entry struct{ K, V Val }

var nullaryTy = map[string]bool{"any": true, "unit": true, "undef": true, "default": true, "scalar": true,
	"sdata": true, "numeric": true, "data": true, "rdata": true, "str": true, "bin": true}

// ---- constructors used by generators and the encoder -------------------------------------------------------

func Atom(k string) Ty      { return Ty{K: k} }
func Int(lo, hi int64) Ty   { return Ty{K: "int", Lo: lo, Hi: hi} }
func Flt(lo, hi float64) Ty { return Ty{K: "flt", FLo: lo, FHi: hi} }
func Bool(b int) Ty         { return Ty{K: "bool", B: b} }
func Tspan(lo, hi int64) Ty { return Ty{K: "tspan", Lo: lo, Hi: hi} }

// TsEpoch: seconds from time.Time's internal epoch (year 1) to the Unix epoch; TsMaxSec / TsMaxNs: types.MaxTime in these units.
const (
	TsEpoch  = 62135596800
	TsMaxSec = MaxI
	TsMaxNs  = 999999999
)

// Tstamp is Timestamp[min,max]: bounds as (seconds since year 1, nanoseconds).  (tstamp 0 0 MaxI 999999999) is the default Timestamp.
func Tstamp(slo, nlo, shi, nhi int64) Ty { return Ty{K: "tstamp", Lo: slo, NLo: nlo, Hi: shi, NHi: nhi} }
func TstampAll() Ty                      { return Tstamp(0, 0, TsMaxSec, TsMaxNs) }

// StrSz builds String[lo,hi]; String[0,max] IS the default String (NewStringType normalises it), so it is the atom `str`.
func StrSz(lo, hi int64) Ty {
	if lo == 0 && hi == MaxI {
		return Atom("str")
	}
	return Ty{K: "strsz", Lo: lo, Hi: hi}
}

// StrRaw is the call NewStringType(NewIntegerType(lo, hi), "") with the bounds AS GIVEN (lo may be negative): what the constructor makes of
// them is its business.  The term of the type it denotes is CanonStr (a length is never negative: lo is clamped to 0; String[0,max] is String).
func StrRaw(lo, hi int64) Ty { return Ty{K: "strraw", Lo: lo, Hi: hi} }

// CanonStr: the constructor-normal String term a (strraw ..) term denotes.
func CanonStr(t Ty) Ty {
	lo := t.Lo
	if lo < 0 {
		lo = 0
	}
	return StrSz(lo, t.Hi)
}
func StrVal(s string) Ty            { return Ty{K: "strval", S: []string{s}} }
func Enum(ci bool, vs ...string) Ty { return Ty{K: "enum", CI: ci, S: vs} }

// EnumRaw is the call NewEnumType(vs, ci) with the values AS GIVEN (any spelling): what the constructor stores is its business.  The term
// of the type it denotes is CanonEnum (values lower-cased when case-insensitive, no values = the default Enum).
func EnumRaw(ci bool, vs ...string) Ty { return Ty{K: "enumraw", CI: ci, S: vs} }

// CanonEnum: the constructor-normal Enum term an (enumraw ..) term denotes.
func CanonEnum(t Ty) Ty {
	if len(t.S) == 0 {
		return Enum(false)
	}
	vs := append([]string{}, t.S...)
	if t.CI {
		for i, v := range vs {
			vs[i] = asciiLower(v)
		}
	}
	return Enum(t.CI, vs...)
}
func Pat(srcs ...string) Ty         { return Ty{K: "pat", S: srcs} }
func Rx(src string) Ty              { return Ty{K: "rx", S: []string{src}} }

// Txt: a type argument given as the text of a type expression.
func Txt(text string) Ty            { return Ty{K: "txt", S: []string{text}} }
func Coll(lo, hi int64) Ty          { return Ty{K: "coll", Lo: lo, Hi: hi} }
func Arr(e Ty, lo, hi int64) Ty     { return Ty{K: "arr", Ts: []Ty{e}, Lo: lo, Hi: hi} }
func Hash(k, v Ty, lo, hi int64) Ty { return Ty{K: "hash", Ts: []Ty{k, v}, Lo: lo, Hi: hi} }

// Tup: a tuple without an explicit size.  NewTupleType(no types, nil size) IS the empty tuple Tuple[0, 0]
// (pcore fix 902262f), so the term with no types and no size is written in that normal form.
func Tup(ts []Ty) Ty {
	if len(ts) == 0 {
		return TupSz(ts, 0, 0)
	}
	return Ty{K: "tup", Ts: ts}
}
func TupSz(ts []Ty, lo, hi int64) Ty         { return Ty{K: "tup", Ts: ts, HasSize: true, Lo: lo, Hi: hi} }
func Struct(ms ...Member) Ty                 { return Ty{K: "struct", Ms: ms} }
func Var(ts ...Ty) Ty                        { return Ty{K: "var", Ts: ts} }
func Wrap1(k string, t Ty) Ty                { return Ty{K: k, Ts: []Ty{t}} }
func Opt(t Ty) Ty                            { return Wrap1("opt", t) }
func NU(t Ty) Ty                             { return Wrap1("nu", t) }
func TypeOf(t Ty) Ty                         { return Wrap1("type", t) }
func Sens(t Ty) Ty                           { return Wrap1("sens", t) }
func Iter(t Ty) Ty                           { return Wrap1("iter", t) }
// Runtime is Runtime[runtime, name] / Runtime[runtime, name, Regexp[/pattern/]] (no Go type); Runtime("", "") is the default
func Runtime(runtime, name string, pattern ...string) Ty {
	return Ty{K: "rt", S: append([]string{runtime, name}, pattern...)}
}
// Call is Callable[params, return, block]; a nil part is absent.  Call(nil, nil, nil) is the default Callable.
func Call(params, ret, block *Ty) Ty {
	t := Ty{K: "call"}
	for i, p := range []*Ty{params, ret, block} {
		if p != nil {
			t.Has[i] = true
			t.Ts = append(t.Ts, *p)
		}
	}
	return t
}

// CallParts returns the three parts of a Callable term (nil = absent).
func CallParts(t Ty) [3]*Ty {
	var out [3]*Ty
	k := 0
	for i := 0; i < 3; i++ {
		if t.Has[i] {
			x := t.Ts[k]
			out[i] = &x
			k++
		}
	}
	return out
}
func Itr(t Ty) Ty                            { return Wrap1("itr", t) }
func Alias(t Ty) Ty                          { return Wrap1("alias", t) }
func Obj(path ...int64) Ty                   { return Ty{K: "obj", Path: path} }
func Mem(name string, opt bool, t Ty) Member { return Member{Name: name, Opt: opt, T: t} }

var (
	VUndef   = Val{K: "undef"}
	VDefault = Val{K: "default"}
)

func VB(b bool) Val        { return Val{K: "b", B: b} }
func VI(i int64) Val       { return Val{K: "i", I: i} }
func VF(f float64) Val     { return Val{K: "f", F: f} }
func VS(s string) Val      { return Val{K: "s", S: s} }
func VRx(s string) Val     { return Val{K: "rxv", S: s} }
func VBin(s string) Val    { return Val{K: "binv", S: s} }
func VTs(n int64) Val      { return Val{K: "ts", I: n} }
func VTsv(s, n int64) Val  { return Val{K: "tsv", I: s, I2: n} }
func VA(vs ...Val) Val     { return Val{K: "a", Vs: vs} }
func VH(es ...Entry) Val   { return Val{K: "h", Es: es} }
func VSens(v Val) Val      { return Val{K: "sv", Vs: []Val{v}} }
func VT(t Ty) Val          { return Val{K: "t", T: &t} }
func VO(path ...int64) Val { return Val{K: "o", Path: path} }

// ---- printing ---------------------------------------------------------------------------------------------------

// FloatSexp prints a float as (M E) with M odd (or (0 0)), `inf` or `-inf`.  NaN has no syntax.
func FloatSexp(f float64) sx.Sexp {
	switch {
	case math.IsInf(f, 1):
		return sx.A("inf")
	case math.IsInf(f, -1):
		return sx.A("-inf")
	case math.IsNaN(f):
		panic("NaN has no term syntax")
	case f == 0:
		return sx.L(sx.Int(0), sx.Int(0))
	}
	frac, exp := math.Frexp(f) // f = frac·2^exp, 0.5 ≤ |frac| < 1
	m := int64(frac * (1 << 53))
	e := int64(exp) - 53
	for m%2 == 0 {
		m /= 2
		e++
	}
	return sx.L(sx.Int(m), sx.Int(e))
}

func intsSexp(xs []int64) []sx.Sexp {
	out := make([]sx.Sexp, len(xs))
	for i, x := range xs {
		out[i] = sx.Int(x)
	}
	return out
}

func strsSexp(xs []string) []sx.Sexp {
	out := make([]sx.Sexp, len(xs))
	for i, x := range xs {
		out[i] = sx.Str(x)
	}
	return out
}

func tysSexp(ts []Ty) []sx.Sexp {
	out := make([]sx.Sexp, len(ts))
	for i, t := range ts {
		out[i] = t.Sexp()
	}
	return out
}

// Sexp prints the term in exactly the syntax of doc.go.
func (t Ty) Sexp() sx.Sexp {
	if nullaryTy[t.K] {
		return sx.A(t.K)
	}
	switch t.K {
	case "int", "tspan", "strsz", "strraw", "coll":
		return sx.T(t.K, sx.Int(t.Lo), sx.Int(t.Hi))
	case "tstamp":
		return sx.T("tstamp", sx.Int(t.Lo), sx.Int(t.NLo), sx.Int(t.Hi), sx.Int(t.NHi))
	case "flt":
		return sx.T("flt", FloatSexp(t.FLo), FloatSexp(t.FHi))
	case "bool":
		switch t.B {
		case 1:
			return sx.T("bool", sx.A("t"))
		case 0:
			return sx.T("bool", sx.A("f"))
		}
		return sx.T("bool", sx.A("n"))
	case "strval", "rx", "txt":
		return sx.T(t.K, sx.Str(t.S[0]))
	case "call":
		ps := CallParts(t)
		xs := make([]sx.Sexp, 3)
		for i, p := range ps {
			xs[i] = sx.A("none")
			if p != nil {
				xs[i] = sx.L(p.Sexp())
			}
		}
		return sx.T("call", xs...)
	case "rt":
		pat := sx.A("none")
		if len(t.S) > 2 {
			pat = sx.L(sx.Str(t.S[2]))
		}
		return sx.T("rt", sx.Str(t.S[0]), sx.Str(t.S[1]), pat)
	case "enum", "enumraw":
		return sx.T(t.K, append([]sx.Sexp{sx.Bool(t.CI)}, strsSexp(t.S)...)...)
	case "pat":
		return sx.T("pat", strsSexp(t.S)...)
	case "arr":
		return sx.T("arr", t.Ts[0].Sexp(), sx.Int(t.Lo), sx.Int(t.Hi))
	case "hash":
		return sx.T("hash", t.Ts[0].Sexp(), t.Ts[1].Sexp(), sx.Int(t.Lo), sx.Int(t.Hi))
	case "tup":
		size := sx.A("none")
		if t.HasSize {
			size = sx.L(sx.Int(t.Lo), sx.Int(t.Hi))
		}
		return sx.T("tup", sx.L(tysSexp(t.Ts)...), size)
	case "struct":
		ms := make([]sx.Sexp, len(t.Ms))
		for i, m := range t.Ms {
			ms[i] = sx.L(sx.Str(m.Name), sx.Bool(m.Opt), m.T.Sexp())
		}
		return sx.T("struct", ms...)
	case "var":
		return sx.T("var", tysSexp(t.Ts)...)
	case "opt", "nu", "type", "sens", "iter", "itr", "alias":
		return sx.T(t.K, t.Ts[0].Sexp())
	case "obj":
		return sx.T("obj", intsSexp(t.Path)...)
	}
	panic("bad type term kind " + t.K)
}

func (t Ty) String() string { return t.Sexp().String() }

// Sexp prints the value term in exactly the syntax of doc.go.
func (v Val) Sexp() sx.Sexp {
	switch v.K {
	case "undef", "default":
		return sx.A(v.K)
	case "b":
		return sx.T("b", sx.Bool(v.B))
	case "i", "ts":
		return sx.T(v.K, sx.Int(v.I))
	case "tsv":
		return sx.T("tsv", sx.Int(v.I), sx.Int(v.I2))
	case "f":
		return sx.T("f", FloatSexp(v.F))
	case "s", "rxv", "binv":
		return sx.T(v.K, sx.Str(v.S))
	case "a":
		xs := make([]sx.Sexp, len(v.Vs))
		for i, e := range v.Vs {
			xs[i] = e.Sexp()
		}
		return sx.T("a", xs...)
	case "h":
		xs := make([]sx.Sexp, len(v.Es))
		for i, e := range v.Es {
			xs[i] = sx.L(e.K.Sexp(), e.V.Sexp())
		}
		return sx.T("h", xs...)
	case "sv":
		return sx.T("sv", v.Vs[0].Sexp())
	case "t":
		return sx.T("t", v.T.Sexp())
	case "o":
		return sx.T("o", intsSexp(v.Path)...)
	}
	panic("bad value term kind " + v.K)
}

func (v Val) String() string { return v.Sexp().String() }

// ---- parsing ----------------------------------------------------------------------------------------------------

func parseFloat(e sx.Sexp) (float64, error) {
	if !e.IsList {
		switch e.Atom {
		case "inf":
			return math.Inf(1), nil
		case "-inf":
			return math.Inf(-1), nil
		}
		return 0, fmt.Errorf("bad float %s", e)
	}
	if len(e.List) != 2 {
		return 0, fmt.Errorf("bad float %s", e)
	}
	m, err := e.List[0].AsInt()
	if err != nil {
		return 0, err
	}
	x, err := e.List[1].AsInt()
	if err != nil {
		return 0, err
	}
	if m >= 1<<53 || m <= -(1<<53) || x > 2000 || x < -2000 {
		return 0, fmt.Errorf("float out of range %s", e)
	}
	if m == 0 && x != 0 || m != 0 && m%2 == 0 {
		return 0, fmt.Errorf("float not normalised %s", e)
	}
	f := math.Ldexp(float64(m), int(x))
	if math.IsInf(f, 0) {
		return 0, fmt.Errorf("float out of range %s", e)
	}
	return f, nil
}

func parseInts(xs []sx.Sexp) ([]int64, error) {
	out := make([]int64, len(xs))
	for i, x := range xs {
		n, err := x.AsInt()
		if err != nil {
			return nil, err
		}
		out[i] = n
	}
	return out, nil
}

func parseStrs(xs []sx.Sexp) ([]string, error) {
	out := make([]string, len(xs))
	for i, x := range xs {
		b, err := x.AsBytes()
		if err != nil {
			return nil, err
		}
		out[i] = string(b)
	}
	return out, nil
}

func parseBool(e sx.Sexp) (bool, error) {
	if e.IsList || (e.Atom != "t" && e.Atom != "f") {
		return false, fmt.Errorf("not a bool: %s", e)
	}
	return e.Atom == "t", nil
}

func parseTys(xs []sx.Sexp) ([]Ty, error) {
	out := make([]Ty, len(xs))
	for i, x := range xs {
		t, err := ParseTy(x)
		if err != nil {
			return nil, err
		}
		out[i] = t
	}
	return out, nil
}

func arity(e sx.Sexp, n int) error {
	if len(e.Args()) != n {
		return fmt.Errorf("%s: expected %d arguments", e, n)
	}
	return nil
}

// range2 reads the two int64 of a range at a[i], a[i+1].
func range2(a []sx.Sexp, i int) (int64, int64, error) {
	lo, err := a[i].AsInt()
	if err != nil {
		return 0, 0, err
	}
	hi, err := a[i+1].AsInt()
	return lo, hi, err
}

// ParseTy reads a type term.  It checks the syntax only; whether the term denotes a constructible
// type is decided by Build*.
func ParseTy(e sx.Sexp) (Ty, error) {
	if !e.IsList {
		if nullaryTy[e.Atom] {
			return Ty{K: e.Atom}, nil
		}
		return Ty{}, fmt.Errorf("bad type atom %q", e.Atom)
	}
	tag := e.Tag()
	a := e.Args()
	var err error
	switch tag {
	case "int", "tspan", "strsz", "strraw", "coll":
		if err = arity(e, 2); err != nil {
			return Ty{}, err
		}
		t := Ty{K: tag}
		t.Lo, t.Hi, err = range2(a, 0)
		return t, err
	case "tstamp":
		if err = arity(e, 4); err != nil {
			return Ty{}, err
		}
		t := Ty{K: tag}
		if t.Lo, t.NLo, err = range2(a, 0); err != nil {
			return Ty{}, err
		}
		t.Hi, t.NHi, err = range2(a, 2)
		if err == nil && (t.NLo < 0 || t.NLo > TsMaxNs || t.NHi < 0 || t.NHi > TsMaxNs) {
			err = fmt.Errorf("nanoseconds out of range")
		}
		return t, err
	case "call":
		if err = arity(e, 3); err != nil {
			return Ty{}, err
		}
		var ps [3]*Ty
		for i := 0; i < 3; i++ {
			if a[i].IsList {
				if len(a[i].List) != 1 {
					return Ty{}, fmt.Errorf("bad callable part")
				}
				p, err := ParseTy(a[i].List[0])
				if err != nil {
					return Ty{}, err
				}
				ps[i] = &p
			} else if a[i].Atom != "none" {
				return Ty{}, fmt.Errorf("bad callable part")
			}
		}
		return Call(ps[0], ps[1], ps[2]), nil
	case "rt":
		if err = arity(e, 3); err != nil {
			return Ty{}, err
		}
		ss, err := parseStrs(a[:2])
		if err != nil {
			return Ty{}, err
		}
		t := Ty{K: tag, S: ss}
		if a[2].IsList {
			ps, err := parseStrs(a[2].List)
			if err != nil || len(ps) != 1 {
				return Ty{}, fmt.Errorf("bad runtime pattern")
			}
			t.S = append(t.S, ps[0])
		} else if a[2].Atom != "none" {
			return Ty{}, fmt.Errorf("bad runtime pattern")
		}
		return t, nil
	case "flt":
		if err = arity(e, 2); err != nil {
			return Ty{}, err
		}
		t := Ty{K: tag}
		if t.FLo, err = parseFloat(a[0]); err != nil {
			return Ty{}, err
		}
		t.FHi, err = parseFloat(a[1])
		return t, err
	case "bool":
		if err = arity(e, 1); err != nil {
			return Ty{}, err
		}
		switch a[0].Atom {
		case "n":
			return Bool(-1), nil
		case "t":
			return Bool(1), nil
		case "f":
			return Bool(0), nil
		}
		return Ty{}, fmt.Errorf("bad bool type %s", e)
	case "strval", "rx", "txt":
		// (txt <bytes>): a type given as the TEXT of a type expression (top level of an argument only); the implementation
		// reads it with Context.ParseType, the model with the parser and the creators of the syntax model (C05)
		if err = arity(e, 1); err != nil {
			return Ty{}, err
		}
		ss, err := parseStrs(a)
		return Ty{K: tag, S: ss}, err
	case "enum", "enumraw":
		if len(a) < 1 {
			return Ty{}, fmt.Errorf("bad enum %s", e)
		}
		ci, err := parseBool(a[0])
		if err != nil {
			return Ty{}, err
		}
		ss, err := parseStrs(a[1:])
		return Ty{K: tag, CI: ci, S: ss}, err
	case "pat":
		ss, err := parseStrs(a)
		return Ty{K: tag, S: ss}, err
	case "arr":
		if err = arity(e, 3); err != nil {
			return Ty{}, err
		}
		el, err := ParseTy(a[0])
		if err != nil {
			return Ty{}, err
		}
		t := Ty{K: tag, Ts: []Ty{el}}
		t.Lo, t.Hi, err = range2(a, 1)
		return t, err
	case "hash":
		if err = arity(e, 4); err != nil {
			return Ty{}, err
		}
		kv, err := parseTys(a[:2])
		if err != nil {
			return Ty{}, err
		}
		t := Ty{K: tag, Ts: kv}
		t.Lo, t.Hi, err = range2(a, 2)
		return t, err
	case "tup":
		if err = arity(e, 2); err != nil {
			return Ty{}, err
		}
		if !a[0].IsList {
			return Ty{}, fmt.Errorf("bad tuple %s", e)
		}
		ts, err := parseTys(a[0].List)
		if err != nil {
			return Ty{}, err
		}
		t := Ty{K: tag, Ts: ts}
		if !a[1].IsList {
			if a[1].Atom != "none" {
				return Ty{}, fmt.Errorf("bad tuple size %s", e)
			}
			return t, nil
		}
		if len(a[1].List) != 2 {
			return Ty{}, fmt.Errorf("bad tuple size %s", e)
		}
		t.HasSize = true
		t.Lo, t.Hi, err = range2(a[1].List, 0)
		return t, err
	case "struct":
		t := Ty{K: tag, Ms: make([]Member, len(a))}
		for i, m := range a {
			if !m.IsList || len(m.List) != 3 {
				return Ty{}, fmt.Errorf("bad struct member %s", m)
			}
			name, err := m.List[0].AsBytes()
			if err != nil {
				return Ty{}, err
			}
			opt, err := parseBool(m.List[1])
			if err != nil {
				return Ty{}, err
			}
			mt, err := ParseTy(m.List[2])
			if err != nil {
				return Ty{}, err
			}
			t.Ms[i] = Member{Name: string(name), Opt: opt, T: mt}
		}
		return t, nil
	case "var":
		ts, err := parseTys(a)
		return Ty{K: tag, Ts: ts}, err
	case "opt", "nu", "type", "sens", "iter", "itr", "alias":
		if err = arity(e, 1); err != nil {
			return Ty{}, err
		}
		ts, err := parseTys(a)
		return Ty{K: tag, Ts: ts}, err
	case "obj":
		p, err := parseInts(a)
		return Ty{K: tag, Path: p}, err
	}
	return Ty{}, fmt.Errorf("bad type term %s", e)
}

// ParseVal reads a value term.
func ParseVal(e sx.Sexp) (Val, error) {
	if !e.IsList {
		if e.Atom == "undef" || e.Atom == "default" {
			return Val{K: e.Atom}, nil
		}
		return Val{}, fmt.Errorf("bad value atom %q", e.Atom)
	}
	tag := e.Tag()
	a := e.Args()
	switch tag {
	case "b":
		if err := arity(e, 1); err != nil {
			return Val{}, err
		}
		b, err := parseBool(a[0])
		return Val{K: tag, B: b}, err
	case "i", "ts":
		if err := arity(e, 1); err != nil {
			return Val{}, err
		}
		n, err := a[0].AsInt()
		return Val{K: tag, I: n}, err
	case "tsv":
		if err := arity(e, 2); err != nil {
			return Val{}, err
		}
		s, n, err := range2(a, 0)
		if err == nil && (n < 0 || n > TsMaxNs) {
			err = fmt.Errorf("nanoseconds out of range")
		}
		return Val{K: tag, I: s, I2: n}, err
	case "f":
		if err := arity(e, 1); err != nil {
			return Val{}, err
		}
		f, err := parseFloat(a[0])
		return Val{K: tag, F: f}, err
	case "s", "rxv", "binv":
		if err := arity(e, 1); err != nil {
			return Val{}, err
		}
		b, err := a[0].AsBytes()
		return Val{K: tag, S: string(b)}, err
	case "a":
		v := Val{K: tag, Vs: make([]Val, len(a))}
		for i, x := range a {
			ev, err := ParseVal(x)
			if err != nil {
				return Val{}, err
			}
			v.Vs[i] = ev
		}
		return v, nil
	case "h":
		v := Val{K: tag, Es: make([]Entry, len(a))}
		for i, x := range a {
			if !x.IsList || len(x.List) != 2 {
				return Val{}, fmt.Errorf("bad hash entry %s", x)
			}
			k, err := ParseVal(x.List[0])
			if err != nil {
				return Val{}, err
			}
			ev, err := ParseVal(x.List[1])
			if err != nil {
				return Val{}, err
			}
			v.Es[i] = Entry{k, ev}
		}
		return v, nil
	case "sv":
		if err := arity(e, 1); err != nil {
			return Val{}, err
		}
		iv, err := ParseVal(a[0])
		return Val{K: tag, Vs: []Val{iv}}, err
	case "t":
		if err := arity(e, 1); err != nil {
			return Val{}, err
		}
		t, err := ParseTy(a[0])
		return Val{K: tag, T: &t}, err
	case "o":
		p, err := parseInts(a)
		if len(p) == 0 && err == nil {
			err = fmt.Errorf("bad object value %s", e)
		}
		return Val{K: tag, Path: p}, err
	}
	return Val{}, fmt.Errorf("bad value term %s", e)
}

// ---- small helpers on terms -----------------------------------------------------------------------------------

// Nullary reports whether t is one of the parameterless types (an atom of the term language).
func Nullary(t Ty) bool { return nullaryTy[t.K] }

// Kids returns the direct sub-terms of t (struct members' value types included).
func (t Ty) Kids() []Ty {
	if t.K == "struct" {
		out := make([]Ty, len(t.Ms))
		for i, m := range t.Ms {
			out[i] = m.T
		}
		return out
	}
	return t.Ts
}

// StripAlias removes every (alias T) wrapper: the term the Lean driver sees.
func StripAlias(t Ty) Ty {
	if t.K == "alias" {
		return StripAlias(t.Ts[0])
	}
	if t.K == "enumraw" {
		return CanonEnum(t)
	}
	if t.K == "strraw" {
		return CanonStr(t)
	}
	r := t
	if len(t.Ts) > 0 {
		r.Ts = make([]Ty, len(t.Ts))
		for i, k := range t.Ts {
			r.Ts[i] = StripAlias(k)
		}
	}
	if len(t.Ms) > 0 {
		r.Ms = make([]Member, len(t.Ms))
		for i, m := range t.Ms {
			r.Ms[i] = Member{m.Name, m.Opt, StripAlias(m.T)}
		}
	}
	return r
}

// Head is the outermost constructor name with alias wrappers skipped.
func Head(t Ty) string {
	for t.K == "alias" {
		t = t.Ts[0]
	}
	return t.K
}

// Contains reports whether a sub-term (t included) satisfies p.
func Contains(t Ty, p func(Ty) bool) bool {
	if p(t) {
		return true
	}
	for _, k := range t.Kids() {
		if Contains(k, p) {
			return true
		}
	}
	return false
}

// ContainsK reports whether constructor k occurs anywhere in t.
func ContainsK(t Ty, k string) bool { return Contains(t, func(u Ty) bool { return u.K == k }) }

// ValContainsTy reports whether a type term used as a value inside v satisfies p somewhere.
func ValContains(v Val, p func(Val) bool) bool {
	if p(v) {
		return true
	}
	for _, e := range v.Vs {
		if ValContains(e, p) {
			return true
		}
	}
	for _, e := range v.Es {
		if ValContains(e.K, p) || ValContains(e.V, p) {
			return true
		}
	}
	return false
}

// Depth of a type term (a nullary term or a leaf range has depth 0).
func Depth(t Ty) int {
	d := 0
	for _, k := range t.Kids() {
		if kd := Depth(k) + 1; kd > d {
			d = kd
		}
	}
	return d
}

// IsEmptyCollUnit: Unit as it appears in the inferred type of an empty array / hash.
func isEmptyArrUnit(t Ty) bool {
	return t.K == "arr" && t.Ts[0].K == "unit" && t.Lo == 0 && t.Hi == 0
}

func isEmptyHashUnit(t Ty) bool {
	return t.K == "hash" && t.Ts[0].K == "unit" && t.Ts[1].K == "unit" && t.Lo == 0 && t.Hi == 0
}

// UnitUnsafe reports whether Unit occurs in t other than as (arr unit 0 0) / (hash unit unit 0 0).
func UnitUnsafe(t Ty) bool {
	if t.K == "unit" {
		return true
	}
	if isEmptyArrUnit(t) || isEmptyHashUnit(t) {
		return false
	}
	for _, k := range t.Kids() {
		if UnitUnsafe(k) {
			return true
		}
	}
	return false
}

// TyEq is structural equality of terms (by their printed form).
func TyEq(a, b Ty) bool { return a.String() == b.String() }

// Pair is a type term with a value term.
type Pair struct {
	T Ty
	V Val
}

// Parts lists the (sub-type, sub-value) pairs the membership of v in t is made of: the members of a
// variant against v, the element type against every element, the member types against the member values …
func Parts(t Ty, v Val) []Pair {
	var out []Pair
	switch t.K {
	case "alias", "opt", "nu":
		out = append(out, Pair{t.Ts[0], v})
	case "var":
		for _, m := range t.Ts {
			out = append(out, Pair{m, v})
		}
	case "arr":
		for _, e := range v.Vs {
			out = append(out, Pair{t.Ts[0], e})
		}
	case "hash":
		for _, e := range v.Es {
			out = append(out, Pair{t.Ts[0], e.K}, Pair{t.Ts[1], e.V})
		}
	case "tup":
		for i, e := range v.Vs {
			if len(t.Ts) == 0 {
				break
			}
			p := i
			if p >= len(t.Ts) {
				p = len(t.Ts) - 1
			}
			out = append(out, Pair{t.Ts[p], e})
		}
	case "struct":
		for _, e := range v.Es {
			for _, m := range t.Ms {
				if e.K.K == "s" && e.K.S == m.Name {
					out = append(out, Pair{m.T, e.V})
				}
			}
		}
	case "sens":
		if v.K == "sv" {
			out = append(out, Pair{t.Ts[0], v.Vs[0]})
		}
	case "data", "rdata":
		for _, e := range v.Vs {
			out = append(out, Pair{t, e})
		}
		for _, e := range v.Es {
			out = append(out, Pair{t, e.V})
		}
	}
	return out
}

// Culprit descends from t to a smallest sub-term that still satisfies bad and names its constructor, so that a
// defect of one constructor gets one class wherever the constructor is nested.
func Culprit(t Ty, bad func(Ty) bool) string {
	for depth := 0; depth < 32; depth++ {
		found := false
		for _, k := range t.Kids() {
			if bad(k) {
				t, found = k, true
				break
			}
		}
		if !found {
			break
		}
	}
	return Head(t)
}

// CulpritPair is Culprit on (type, value) pairs, descending through Parts.
func CulpritPair(t Ty, v Val, bad func(Ty, Val) bool) string {
	t, _ = CulpritPairOf(t, v, bad)
	return Head(t)
}

// CulpritPairOf answers the smallest bad (type, value) pair itself.
func CulpritPairOf(t Ty, v Val, bad func(Ty, Val) bool) (Ty, Val) {
	for depth := 0; depth < 32; depth++ {
		found := false
		for _, p := range Parts(t, v) {
			if bad(p.T, p.V) {
				t, v, found = p.T, p.V, true
				break
			}
		}
		if !found {
			break
		}
	}
	return t, v
}
