package lat

import (
	"fmt"
	"strings"

	"github.com/lyraproj/pcore/px"
)

// Spellings of types: every parameter FORM the positional creators accept (omitted and `default` bounds, sizes given as
// Integer types, flags, barewords, nested lists, exact-value strings …), as text.  A lattice question asked about such a
// text goes through Context.ParseType on the implementation and through the syntax model (parser + creators, C05) composed
// with the lattice model on the other side — so a creator that reads a form wrongly shows in the instance and
// assignability answers, with a failing value, not only in the print/parse round trip.

var spellLeaves = []string{
	"Any", "Undef", "Default", "Scalar", "ScalarData", "Numeric", "Data", "RichData", "Binary", "String", "Integer", "Boolean", "Collection",
	"Integer[3]", "Integer[3, default]", "Integer[default, 5]", "Integer[1, 5]", "Integer[default, default]", "Integer[5, 5]", "Integer[-2, 2]",
	"String[2]", "String[2, default]", "String[default, 3]", "String[1, 3]", "String[0]", "String['ab']", "String['']", "String[Integer[1, 3]]", "String[ab]",
	"Boolean[true]", "Boolean[false]",
	"Enum['a', 'b']", "Enum[a, b]", "Enum['a']", "Enum['a', 'B', false]", "Enum['a', 'B', true]", "Enum[['a', 'B'], true]", "Enum[['a', 'B'], false]",
	"Enum[['a'], 'b']", "Enum[['a', 'b']]", "Enum[[], true]", "Enum['a', false]", "Enum['A', true]", "Enum['', 'a']",
	"Pattern[/a/]", "Pattern['a', /b$/]", "Pattern[Regexp[/a/]]", "Pattern['^a*$']", "Pattern[/^$/, '[a-c]']",
	"Regexp", "Regexp[/a/]", "Regexp['a']", "Regexp['']",
	"Collection[2]", "Collection[1, 3]", "Collection[default, 3]", "Collection[Integer[1, 2]]", "Collection[0, 0]", "Collection[2, default]",
	"Optional['x']", "Optional[x]", "NotUndef['x']", "Optional", "NotUndef", "Type", "Sensitive", "Iterable", "Array", "Hash", "Tuple", "Variant",
	"Array[2, 3]", "Array[0, 0]", "Hash[1, 2]", "Hash[0, 0]", "Tuple[0, 0]", "Tuple[2, 5]", "Tuple[1, default]",
}

// SpellTy writes a type expression of depth <= d.
func (g *Gen) SpellTy(d int) string {
	if d <= 0 || g.p(35) {
		return spellLeaves[g.n(len(spellLeaves))]
	}
	t := func() string { return g.SpellTy(d - 1) }
	sz := func() string {
		switch g.n(6) {
		case 0:
			return fmt.Sprintf(", %d", g.n(3))
		case 1:
			lo := g.n(3)
			return fmt.Sprintf(", %d, %d", lo, lo+g.n(3))
		case 2:
			return fmt.Sprintf(", %d, default", g.n(3))
		case 3:
			return fmt.Sprintf(", default, %d", 1+g.n(3))
		case 4:
			lo := g.n(3)
			return fmt.Sprintf(", Integer[%d, %d]", lo, lo+g.n(3))
		}
		return ""
	}
	switch g.n(11) {
	case 0, 1:
		return "Array[" + t() + sz() + "]"
	case 2:
		return "Hash[" + g.spellKey(d-1) + ", " + t() + sz() + "]"
	case 3, 4:
		n := 1 + g.n(3)
		ts := make([]string, n)
		for i := range ts {
			ts[i] = t()
		}
		return "Tuple[" + strings.Join(ts, ", ") + sz() + "]"
	case 5:
		n := 1 + g.n(3)
		ts := make([]string, n)
		for i := range ts {
			ts[i] = t()
		}
		return "Variant[" + strings.Join(ts, ", ") + "]"
	case 6:
		return "Optional[" + t() + "]"
	case 7:
		return "NotUndef[" + t() + "]"
	case 8:
		return "Type[" + t() + "]"
	case 9:
		return "Sensitive[" + t() + "]"
	}
	return "Iterable[" + t() + "]"
}

func (g *Gen) spellKey(d int) string {
	if g.p(60) {
		return []string{"String", "Integer", "Enum['a', 'b']", "String[1]", "Scalar", "Any", "Integer[0, 5]", "Enum[a, B, true]"}[g.n(8)]
	}
	return g.SpellTy(d)
}

// SpellCase is a spelling with the term it denotes on the implementation (for witnesses); ok = false when the
// implementation refuses the text or denotes something outside the term language.
type SpellCase struct {
	Text string
	Ty   Ty
}

// Spellings draws n spellings the implementation accepts (c = the context the generator runs in).
func (g *Gen) Spellings(c px.Context, n int) []SpellCase {
	var out []SpellCase
	all := append([]string{}, spellLeaves...)
	for i := 0; len(out) < n && i < 20*n; i++ {
		var text string
		if i < len(all) {
			text = all[i]
		} else {
			text = g.SpellTy(1 + g.n(3))
		}
		var t px.Type
		if f := Safely(func() { t = c.ParseType(text) }); f != nil || t == nil {
			continue
		}
		ty, err := EncTy(t)
		if err != nil {
			continue
		}
		out = append(out, SpellCase{text, ty})
	}
	return out
}
