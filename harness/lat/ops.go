package lat

import (
	"fmt"
	"math"
	"regexp"
	"strings"

	"verif/harness/core"
	"verif/harness/sx"

	"github.com/lyraproj/issue/issue"
	"github.com/lyraproj/pcore/px"
)

// Arg is one type argument of an op, built on the implementation.
type Arg struct {
	Term Ty      // as written on the line (may hold (alias T) wrappers)
	Ty   Ty      // alias wrappers removed: the term the model sees
	C    px.Type // built through the Go constructors (authoritative)
	P    px.Type // built through ParseType of the printed text; nil when that path is skipped
}

// Run is the execution of one op of doc.go on the implementation.
type Run struct {
	Env    *Env
	Op     string
	A      []Arg      // type arguments, in order
	V      []Val      // value arguments, in order
	LV     []px.Value // the live values
	Out    string     // the canonical observation
	B      []bool     // the individual boolean answers, in output order (constructor build)
	Res    Ty         // the encoded result of ptype / dtype / common / gen
	Live   px.Type    // the live result of ptype / dtype / common / gen
	Text   string     // desc: the description
	Status string     // "" | bad-op | unbuildable | fault | differ | unmodelled
	Detail string
	Tags   []string
}

// the signature of every op: how many leading type arguments, how many value arguments follow
var opSig = map[string][2]int{
	"asg": {2, 0}, "inst": {1, 1}, "sound": {2, 1}, "eq": {2, 0}, "trans": {3, 0}, "imp": {4, 0},
	"ptype": {0, 1}, "dtype": {0, 1}, "common": {2, 0}, "gen": {1, 0}, "infer": {1, 1},
	"desc": {2, 0}, "assert": {1, 1},
}

// SafeAsg / SafeInst / SafeEq: the three questions, each inside a recover.
func SafeAsg(a, b px.Type) (r bool, fault interface{}) {
	fault = Safely(func() { r = px.IsAssignable(a, b) })
	return
}

func SafeInst(t px.Type, v px.Value) (r bool, fault interface{}) {
	fault = Safely(func() { r = px.IsInstance(t, v) })
	return
}

func SafeEq(a, b px.Type) (r bool, fault interface{}) {
	fault = Safely(func() { r = a.Equals(b, nil) })
	return
}

// Classify maps a recovered panic value to the small enum of canonical outputs.
func Classify(e interface{}) string {
	switch e := e.(type) {
	case issue.Reported:
		if strings.Contains(e.Error(), "runtime error:") {
			return "fault"
		}
		return "reported " + string(e.Code())
	case error:
		return "fault"
	}
	return "fault"
}

// diffNode returns the sub-term of a at which a and b first differ.
func diffNode(a, b Ty) Ty {
	ka, kb := a.Kids(), b.Kids()
	if a.K != b.K || len(ka) != len(kb) {
		return a
	}
	for i := range ka {
		if !TyEq(ka[i], kb[i]) {
			return diffNode(ka[i], kb[i])
		}
	}
	return a
}

// diffHead names the constructor at which two terms first differ (for the reparse histogram).
func diffHead(a, b Ty) string { return diffNode(a, b).K }

// failHead names the likely culprit of a printed type that does not parse: a Timespan type (printed with Go
// duration strings), a Float type with an infinite bound (printed +Inf.00), else the outermost constructor.
func failHead(t Ty) string {
	if ContainsK(t, "tspan") {
		return "tspan"
	}
	if Contains(t, func(u Ty) bool { return u.K == "flt" && (math.IsInf(u.FLo, 0) || math.IsInf(u.FHi, 0)) }) {
		return "flt-inf"
	}
	return t.K
}

// BuildArg builds one type argument from its own term: constructors, canonical-form check, then the parse path.
func (env *Env) BuildArg(e sx.Sexp, tags *[]string) (Arg, string, error) {
	term, err := ParseTy(e)
	if err != nil {
		return Arg{}, "bad-op", err
	}
	a := Arg{Term: term, Ty: StripAlias(term)}
	if term.K == "txt" {
		// the type a type expression denotes: read by the implementation, encoded back for the predicates (which need a
		// term: witnesses, culprits); the model reads the same text itself
		var t px.Type
		if f := Safely(func() { t = env.C.ParseType(term.S[0]) }); f != nil || t == nil {
			*tags = append(*tags, "txt:refused")
			return a, "unbuildable", fmt.Errorf("type text refused: %v", f)
		}
		a.C = t
		if a.Ty, err = EncTy(t); err != nil {
			*tags = append(*tags, "txt:unmodelled")
			return a, "unbuildable", err
		}
		*tags = append(*tags, "txt:"+Head(a.Ty), "parse:text")
		return a, "", nil
	}
	if a.C, err = env.BuildCtor(term); err != nil {
		return a, "unbuildable", err
	}
	// the term must be what the constructors actually made (they normalise: defaults, lower-casing …);
	// otherwise model and implementation would be looking at different types
	back, err := EncTy(a.C)
	if err != nil {
		return a, "unbuildable", err
	}
	if !TyEq(back, a.Ty) && ContainsK(term, "enumraw") {
		// (enumraw ..) says which type NewEnumType must make of the values as given: anything else is the constructor's fault
		*tags = append(*tags, "ctor:enum-values")
		return a, "ctor-wrong", fmt.Errorf("NewEnumType made %s of %s", back, term)
	}
	if !TyEq(back, a.Ty) && ContainsK(term, "strraw") {
		// (strraw ..) says which type NewStringType must make of the bounds as given (model: mkStrRaw)
		*tags = append(*tags, "ctor:string-bounds")
		return a, "ctor-wrong", fmt.Errorf("NewStringType made %s of %s", back, term)
	}
	if !TyEq(back, a.Ty) {
		*tags = append(*tags, "noncanon:"+diffHead(a.Ty, back))
		return a, "unbuildable", fmt.Errorf("term is not in constructor-normal form: built %s", back)
	}
	p, err := env.BuildParse(term)
	if err != nil {
		*tags = append(*tags, "parse:skipped", "reparse:fails-"+failHead(a.Ty))
		return a, "", nil
	}
	pb, err := EncTy(p)
	if err != nil || !TyEq(pb, a.Ty) {
		*tags = append(*tags, "parse:skipped")
		switch d := diffNode(a.Ty, pb); {
		case err != nil:
			*tags = append(*tags, "reparse:unmodelled")
		case d.K == "strval": // the type of a string literal prints as plain String
			*tags = append(*tags, "parse:lossy-strval")
		case d.K == "tup" && len(d.Ts) == 0 && !d.HasSize: // Tuple without types and without size prints as Tuple
			*tags = append(*tags, "parse:lossy-tup-none")
		default:
			*tags = append(*tags, "reparse:differs-"+d.K)
		}
		return a, "", nil
	}
	a.P = p
	return a, "", nil
}

type obs struct {
	out   string
	bools []bool
	res   px.Type
	text  string
	fault interface{}
}

func (o *obs) boolean(b bool, fault interface{}) {
	if fault != nil {
		if o.fault == nil {
			o.fault = fault
		}
		o.out += " fault"
		o.bools = append(o.bools, false)
		return
	}
	o.out += " " + sx.B(b)
	o.bools = append(o.bools, b)
}

// observe evaluates the op on one set of live arguments.
func observe(op string, ts []px.Type, vs []px.Value) obs {
	var o obs
	switch op {
	case "asg":
		o.boolean(SafeAsg(ts[0], ts[1]))
	case "inst":
		o.boolean(SafeInst(ts[0], vs[0]))
	case "sound":
		o.boolean(SafeAsg(ts[0], ts[1]))
		o.boolean(SafeInst(ts[1], vs[0]))
		o.boolean(SafeInst(ts[0], vs[0]))
	case "eq":
		o.boolean(SafeEq(ts[0], ts[1]))
	case "trans":
		o.boolean(SafeAsg(ts[0], ts[1]))
		o.boolean(SafeAsg(ts[1], ts[2]))
		o.boolean(SafeAsg(ts[0], ts[2]))
	case "imp":
		o.boolean(SafeAsg(ts[0], ts[1]))
		o.boolean(SafeAsg(ts[2], ts[3]))
	case "ptype":
		o.fault = Safely(func() { o.res = vs[0].PType() })
	case "dtype":
		o.fault = Safely(func() { o.res = px.DetailedValueType(vs[0]) })
	case "common":
		o.fault = Safely(func() { o.res = px.CommonType(ts[0], ts[1]) })
	case "gen":
		o.fault = Safely(func() { o.res = px.Generalize(ts[0]) })
	case "infer":
		o.boolean(SafeInst(ts[0], vs[0]))
		var dt px.Type
		if f := Safely(func() { dt = px.DetailedValueType(vs[0]) }); f != nil {
			o.boolean(false, f)
		} else {
			o.boolean(SafeAsg(ts[0], dt))
		}
	case "desc":
		o.fault = Safely(func() { o.text = px.DescribeMismatch("x", ts[0], ts[1]) })
		switch {
		case o.fault != nil:
			o.out = "fault"
		case o.text == "":
			o.out = "empty"
		default:
			o.out = "nonempty"
		}
	case "assert":
		o.out = "ok"
		if f := Safely(func() { px.AssertInstance("x", ts[0], vs[0]) }); f != nil {
			o.out = Classify(f)
			if o.out == "fault" {
				o.fault = f
			}
		}
	}
	o.out = strings.TrimPrefix(o.out, " ")
	return o
}

// Exec runs one op of doc.go on the implementation.
func Exec(c px.Context, op string, args []sx.Sexp) *Run {
	r := &Run{Op: op, Tags: []string{"op:" + op}}
	fail := func(status string, err error) *Run {
		r.Status, r.Out = status, status
		if err != nil {
			r.Detail = err.Error()
		}
		return r
	}
	if op == "rxmatch" {
		if len(args) != 2 {
			return fail("bad-op", nil)
		}
		src, err1 := args[0].AsBytes()
		str, err2 := args[1].AsBytes()
		if err1 != nil || err2 != nil {
			return fail("bad-op", err1)
		}
		re, err := regexp.Compile(string(src))
		if err != nil {
			return fail("unbuildable", err)
		}
		m := re.MatchString(string(str))
		r.Out, r.B = sx.B(m), []bool{m}
		r.Tags = append(r.Tags, "ans:"+r.Out)
		return r
	}
	sig, ok := opSig[op]
	if !ok || len(args) != sig[0]+sig[1] {
		return fail("bad-op", fmt.Errorf("unknown op or wrong number of arguments"))
	}
	var env *Env
	if f := Safely(func() { env = EnvOf(c) }); f != nil {
		return fail("bad-op", fmt.Errorf("environment: %v", f))
	}
	r.Env = env
	// arguments: every one from its own term (no sharing between A and B)
	for i := 0; i < sig[0]; i++ {
		a, status, err := env.BuildArg(args[i], &r.Tags)
		r.A = append(r.A, a)
		if status != "" {
			return fail(status, err)
		}
		r.Tags = append(r.Tags, string(rune('A'+i))+":"+Head(a.Ty))
	}
	for i := sig[0]; i < sig[0]+sig[1]; i++ {
		v, err := ParseVal(args[i])
		if err != nil {
			return fail("bad-op", err)
		}
		lv, err := env.BuildVal(v)
		if err != nil {
			return fail("unbuildable", err)
		}
		r.V, r.LV = append(r.V, v), append(r.LV, lv)
		r.Tags = append(r.Tags, "V:"+v.K)
	}
	cts := make([]px.Type, len(r.A))
	pts := make([]px.Type, len(r.A))
	reparsed := false
	for i, a := range r.A {
		cts[i], pts[i] = a.C, a.C
		if a.P != nil {
			pts[i], reparsed = a.P, true
		}
	}
	o := observe(op, cts, r.LV)
	r.Out, r.B, r.Text, r.Live = o.out, o.bools, o.text, o.res
	// the answer must not depend on hidden state of the VALUE: fill every lazy cache of the live values (inferred type, detailed type,
	// hash key, text) and ask the same question again of the same objects
	if o.fault == nil && len(r.LV) > 0 && (op == "inst" || op == "sound" || op == "infer" || op == "assert") {
		for _, v := range r.LV {
			v := v
			Safely(func() { _ = v.PType() })
			Safely(func() { _ = px.DetailedValueType(v) })
			Safely(func() { _ = px.ToKey(v) })
			Safely(func() { _ = v.String() })
		}
		if o2 := observe(op, cts, r.LV); o2.out != o.out {
			r.Status = "cache"
			r.Detail = "fresh value: " + o.out + "; after PType() / DetailedValueType / ToKey / String() of the same value: " + o2.out
			r.Tags = append(r.Tags, "ans:"+strings.Replace(r.Out, " ", "", -1))
			return r
		}
	}
	if o.fault != nil {
		r.Status, r.Detail = "fault", fmt.Sprint(o.fault)
		if r.Out == "" {
			r.Out = "fault"
		}
		r.Tags = append(r.Tags, "ans:fault")
		return r
	}
	typed := op == "ptype" || op == "dtype" || op == "common" || op == "gen"
	if typed {
		res, err := EncTy(o.res)
		if err != nil {
			r.Status, r.Out, r.Detail = "unmodelled", "unmodelled", err.Error()
			return r
		}
		r.Res, r.Out = res, res.String()
		r.Tags = append(r.Tags, "ans:"+Head(res))
	} else {
		r.Tags = append(r.Tags, "ans:"+strings.Replace(r.Out, " ", "", -1))
	}
	// the same question on the re-parsed types must get the same answer
	if reparsed {
		r.Tags = append(r.Tags, "parse:checked")
		po := observe(op, pts, r.LV)
		pout := po.out
		if po.fault != nil && pout == "" {
			pout = "fault"
		}
		if typed && po.fault == nil {
			if res, err := EncTy(po.res); err == nil {
				pout = res.String()
			} else {
				pout = "unmodelled"
			}
		}
		if pout != r.Out {
			r.Status = "differ"
			r.Detail = "constructor-built: " + r.Out + "; re-parsed: " + pout
		}
	}
	return r
}

// Generic turns the outcomes every property treats alike into a result: malformed op, unbuildable term,
// constructor/parse disagreement, a result type outside the term language.  ok = false: nothing generic
// applies, the property evaluates its own predicate (a fault is left to the property as well).
func (r *Run) Generic() (core.Result, bool) {
	switch r.Status {
	case "bad-op":
		return core.Result{Out: "bad-op", Pred: "FAIL harness-bad-op " + r.Detail, Tags: r.Tags}, true
	case "unbuildable":
		return core.Result{Out: "unbuildable", Pred: "n/a", Tags: r.Tags}, true
	case "differ":
		return core.Result{Out: r.Out, Pred: "FAIL ctor-parse-differ " + r.Detail, NonTrivial: true, Tags: r.Tags}, true
	case "cache":
		return core.Result{Out: r.Out, Pred: "FAIL inst-depends-on-cache " + r.Detail, NonTrivial: true, Tags: r.Tags}, true
	case "ctor-wrong":
		return core.Result{Out: "unbuildable", Pred: "FAIL ctor-enum-values " + r.Detail, NonTrivial: true, Tags: r.Tags}, true
	case "unmodelled":
		return core.Result{Out: "unmodelled", Pred: "FAIL enc-unmodelled " + r.Detail, NonTrivial: true, Tags: r.Tags}, true
	}
	return core.Result{}, false
}

// Result assembles a result with the run's tags.
func (r *Run) Result(pred string, nonTrivial bool) core.Result {
	return core.Result{Out: r.Out, Pred: strings.Replace(pred, "\t", " ", -1), NonTrivial: nonTrivial, Tags: r.Tags}
}

// Fault is the result for a recovered panic: FAIL <class>.
func (r *Run) Fault(class string) core.Result {
	return r.Result("FAIL "+class+" "+oneLine(r.Detail), true)
}

func oneLine(s string) string {
	s = strings.Replace(s, "\n", " ", -1)
	if len(s) > 200 {
		s = s[:200]
	}
	return s
}

// AsgTerms answers px.IsAssignable on two terms (each built through the constructors); it is the
// callback RefDen uses for Type[T].  A term that cannot be built, or a fault, answers false.
func (env *Env) AsgTerms(t, u Ty) bool {
	a, err := env.BuildCtor(t)
	if err != nil {
		return false
	}
	b, err := env.BuildCtor(u)
	if err != nil {
		return false
	}
	ok, _ := SafeAsg(a, b)
	return ok
}
