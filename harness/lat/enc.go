package lat

import (
	"fmt"
	"time"

	"github.com/lyraproj/pcore/px"
	"github.com/lyraproj/pcore/types"
)

// Unmodelled is the error of the encoder for a type or value outside the term language.
type Unmodelled struct{ Name string }

func (u *Unmodelled) Error() string { return "unmodelled " + u.Name }

func unmodelled(name string) { panic(&Unmodelled{name}) }

// EncTy encodes a live type as a term, through the public API only.  Aliases are expanded, except Data and
// RichData which are the atoms `data` and `rdata`.
func EncTy(t px.Type) (r Ty, err error) {
	defer func() {
		if e := recover(); e != nil {
			if u, ok := e.(*Unmodelled); ok {
				r, err = Ty{}, u
				return
			}
			r, err = Ty{}, fmt.Errorf("encoder fault: %v", e)
		}
	}()
	return encTy(t, 0), nil
}

// EncVal encodes a live value as a value term.
func EncVal(v px.Value) (r Val, err error) {
	defer func() {
		if e := recover(); e != nil {
			if u, ok := e.(*Unmodelled); ok {
				r, err = Val{}, u
				return
			}
			r, err = Val{}, fmt.Errorf("encoder fault: %v", e)
		}
	}()
	return encVal(v), nil
}

func intRange(t *types.IntegerType) (int64, int64) { return t.Min(), t.Max() }

func encTys(ts []px.Type, depth int) []Ty {
	out := make([]Ty, len(ts))
	for i, t := range ts {
		out[i] = encTy(t, depth)
	}
	return out
}

// maxAliasDepth bounds alias expansion: a user-defined recursive alias has no finite term.
const maxAliasDepth = 40

func encTy(t px.Type, depth int) Ty {
	if t == nil {
		unmodelled("nil")
	}
	switch t := t.(type) {
	case *types.AnyType:
		return Atom("any")
	case *types.UnitType:
		return Atom("unit")
	case *types.UndefType:
		return Atom("undef")
	case *types.DefaultType:
		return Atom("default")
	case *types.ScalarType:
		return Atom("scalar")
	case *types.ScalarDataType:
		return Atom("sdata")
	case *types.NumericType:
		return Atom("numeric")
	case *types.BinaryType:
		return Atom("bin")
	case *types.IntegerType:
		return Int(t.Min(), t.Max())
	case *types.FloatType:
		return Flt(t.Min(), t.Max())
	case *types.BooleanType:
		v, _ := t.Get("value")
		if b, ok := v.(px.Boolean); ok {
			if b.Bool() {
				return Bool(1)
			}
			return Bool(0)
		}
		return Bool(-1)
	case *types.TimespanType:
		lo, hi := int64(MinI), int64(MaxI)
		if v, _ := t.Get("from"); v != nil {
			if ts, ok := v.(types.Timespan); ok {
				lo = int64(ts.Duration())
			}
		}
		if v, _ := t.Get("to"); v != nil {
			if ts, ok := v.(types.Timespan); ok {
				hi = int64(ts.Duration())
			}
		}
		return Tspan(lo, hi)
	case *types.TimestampType:
		slo, nlo, shi, nhi := int64(0), int64(0), int64(TsMaxSec), int64(TsMaxNs)
		if v, _ := t.Get("from"); v != nil {
			if ts, ok := v.(*types.Timestamp); ok {
				slo, nlo = TsParts(time.Time(*ts))
			}
		}
		if v, _ := t.Get("to"); v != nil {
			if ts, ok := v.(*types.Timestamp); ok {
				shi, nhi = TsParts(time.Time(*ts))
			}
		}
		return Tstamp(slo, nlo, shi, nhi)
	case *types.EnumType:
		return Enum(t.IsCaseInsensitive(), append([]string{}, t.Strings()...)...)
	case *types.PatternType:
		srcs := []string{}
		t.Patterns().Each(func(r px.Value) { srcs = append(srcs, r.(*types.RegexpType).PatternString()) })
		return Pat(srcs...)
	case *types.RegexpType:
		return Rx(t.PatternString())
	case *types.CollectionType:
		lo, hi := intRange(t.Size())
		return Coll(lo, hi)
	case *types.ArrayType:
		lo, hi := intRange(t.Size())
		return Arr(encTy(t.ElementType(), depth), lo, hi)
	case *types.HashType:
		lo, hi := intRange(t.Size())
		return Hash(encTy(t.KeyType(), depth), encTy(t.ValueType(), depth), lo, hi)
	case *types.TupleType:
		ts := encTys(t.Types(), depth)
		// Size() answers the given-or-actual size; whether a size was given is only visible through Get
		if sz, _ := t.Get("size_type"); sz != nil {
			if it, ok := sz.(*types.IntegerType); ok {
				return TupSz(ts, it.Min(), it.Max())
			}
		}
		return Tup(ts)
	case *types.StructType:
		ms := make([]Member, len(t.Elements()))
		for i, e := range t.Elements() {
			ms[i] = Member{Name: e.Name(), Opt: e.Optional(), T: encTy(e.Value(), depth)}
		}
		return Struct(ms...)
	case *types.VariantType:
		return Var(encTys(t.Types(), depth)...)
	case *types.OptionalType:
		return Opt(encTy(t.ContainedType(), depth))
	case *types.NotUndefType:
		return NU(encTy(t.ContainedType(), depth))
	case *types.TypeType:
		return TypeOf(encTy(t.ContainedType(), depth))
	case *types.SensitiveType:
		return Sens(encTy(t.ContainedType(), depth))
	case *types.IterableType:
		return Iter(encTy(t.ElementType(), depth))
	case *types.IteratorType:
		return Itr(encTy(t.ElementType(), depth))
	case *types.CallableType:
		var ps [3]*Ty
		for i, key := range []string{"param_types", "return_type", "block_type"} {
			if v, _ := t.Get(key); v != nil {
				if pt, ok := v.(px.Type); ok {
					x := encTy(pt, depth)
					ps[i] = &x
				}
			}
		}
		return Call(ps[0], ps[1], ps[2])
	case *types.RuntimeType:
		// Parameters(): none for the default; runtime; runtime, name; runtime, name, Regexp type (Get("name_or_pattern") hides the name
		// when there is a pattern)
		ps := t.Parameters()
		r := Runtime("", "")
		if len(ps) > 0 {
			r.S[0] = ps[0].String()
		}
		if len(ps) > 1 {
			r.S[1] = ps[1].String()
		}
		if len(ps) > 2 {
			if rx, ok := ps[2].(*types.RegexpType); ok {
				r.S = append(r.S, rx.PatternString())
			} else {
				unmodelled("runtime-pattern")
			}
		}
		return r
	case *types.TypeAliasType:
		switch t.Name() {
		case "Data":
			return Atom("data")
		case "RichData":
			return Atom("rdata")
		}
		if depth >= maxAliasDepth {
			unmodelled("recursive-alias")
		}
		return encTy(t.ResolvedType(), depth+1)
	case px.StringType:
		// three unexported Go types share the name String: the value-constrained one answers Value(),
		// the size-constrained one prints its size parameters, the default prints none.
		if v := t.Value(); v != nil {
			return StrVal(*v)
		}
		if p, ok := t.(px.ParameterizedType); ok && len(p.Parameters()) == 0 {
			return Atom("str")
		}
		if it, ok := t.Size().(*types.IntegerType); ok {
			return StrSz(it.Min(), it.Max())
		}
		unmodelled("String")
	case px.TypeSet:
		unmodelled("TypeSet")
	case px.ObjectType:
		if t.Name() == "Object" && t.Parent() == nil {
			return Obj()
		}
		if p, ok := ObjPath(t.Name()); ok {
			return Obj(p...)
		}
		unmodelled("Object:" + t.Name())
	}
	unmodelled(t.Name())
	return Ty{}
}

func encVal(v px.Value) Val {
	if v == nil {
		unmodelled("nil")
	}
	switch v := v.(type) {
	case *types.UndefValue:
		return VUndef
	case *types.DefaultValue:
		return VDefault
	case px.Boolean:
		return VB(v.Bool())
	case px.Integer:
		return VI(v.Int())
	case px.Float:
		return VF(v.Float())
	case *types.Regexp:
		return VRx(v.PatternString())
	case *types.Binary:
		return VBin(string(v.Bytes()))
	case types.Timespan:
		return VTs(int64(v.Duration()))
	case *types.Timestamp:
		s, n := TsParts(time.Time(*v))
		return VTsv(s, n)
	case px.StringValue:
		return VS(v.String())
	case *types.Array:
		out := Val{K: "a", Vs: []Val{}}
		v.Each(func(e px.Value) { out.Vs = append(out.Vs, encVal(e)) })
		return out
	case *types.Hash:
		out := Val{K: "h", Es: []Entry{}}
		v.EachPair(func(k, e px.Value) { out.Es = append(out.Es, Entry{encVal(k), encVal(e)}) })
		return out
	case *types.Sensitive:
		return VSens(encVal(v.Unwrap()))
	case px.Type:
		return VT(encTy(v, 0))
	case px.PuppetObject:
		if p, ok := ObjPath(v.PType().Name()); ok {
			return VO(p...)
		}
	}
	unmodelled("value:" + v.PType().Name())
	return Val{}
}
