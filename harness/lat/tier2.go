package lat

import (
	"fmt"
	"math/rand"
	"strings"

	"verif/harness/core"
	"verif/harness/sx"

	"github.com/lyraproj/pcore/px"
	"github.com/lyraproj/pcore/types"
)

// Second tier — HARNESS-ONLY TESTS ('@' lines, no model counterpart).  The types here lie outside the term
// language (Callable, Runtime, Iterator, Timestamp, SemVer, URI) or are user-defined RECURSIVE aliases
// (Lat::Tree, Lat::STree, declared in EnvOf).  They travel as hex-encoded type TEXT and are built with
// Context.ParseType.  What is checked are the laws themselves on a small hand-written sample; nothing here
// is compared with the model and nothing here counts as evidence for a theorem.

// T2Types is the sample of second-tier types (plus a few ordinary ones to relate them to).
var T2Types = []string{
	"Callable", "Callable[Integer]", "Callable[String, Integer]", "Runtime", "Iterator", "Iterator[Integer]", "Iterator[Numeric]",
	"Timestamp", "Timestamp['2000-01-01', '2001-01-01']", "SemVer", "SemVer['>=1.0.0']", "SemVerRange", "URI", "URI['http://example.com']",
	"Lat::Tree", "Lat::STree", "Array[Lat::Tree]", "Array[Lat::STree]", "Optional[Lat::STree]", "Variant[Integer, Array[Lat::Tree]]", "Type[Lat::Tree]",
	"Integer", "Integer[0, 9]", "Array[Integer]", "Array[Array[Integer[0, 9]]]", "Iterable[Integer]", "Any", "Scalar", "RichData",
}

// T2Vals is the sample of hand-written values: value terms, (new xTYPE xARG) = px.New(TYPE, 'ARG') and
// (ty xTEXT) = the type TEXT used as a value.
var T2Vals = []string{
	"(i 1)", "(i 22)", "(a)", "(a (i 1))", "(a (i 1) (a (i 2)))", "(a (a (a)))", "(a (i 22))", "(a (i 1) (a (i 22)))", "(a (s x61))", "(a (a (s x61)))",
	"(s x61)", "undef", "(a undef)",
	t2new("SemVer", "1.2.3"), t2new("SemVer", "0.5.0"), t2new("Timestamp", "2000-06-01"), t2new("Timestamp", "2010-01-01"),
	t2new("URI", "http://example.com"), t2new("URI", "http://a/b"),
	"(t (int 0 9))", t2ty("Lat::Tree"), t2ty("Lat::STree"), t2ty("Callable[Integer]"), t2ty("Array[Lat::STree]"),
}

func t2new(typ, arg string) string { return "(new " + sx.Str(typ).Atom + " " + sx.Str(arg).Atom + ")" }
func t2ty(text string) string      { return "(ty " + sx.Str(text).Atom + ")" }

// T2Params: parameterizations of Lat::P by types (seeded change C01-s8 swapped the operands of the type-against-type test of
// objectTypeExtension.testAssignable); T2ParamVals: an instance of each (and of the base type: no parameter bound).
var T2ParamArgs = []string{"Integer", "Numeric", "Integer[0, 9]", "String", "Scalar"}

func T2Params() []string {
	r := []string{"Lat::P"}
	for _, a := range T2ParamArgs {
		r = append(r, "Lat::P["+a+"]")
	}
	return r
}

func T2ParamVals() []string {
	var r []string
	for _, a := range T2ParamArgs {
		r = append(r, "(newp "+sx.Str(a).Atom+")")
	}
	return r
}

// T2Text hex-encodes a type text for an op line.
func T2Text(s string) string { return sx.Str(s).Atom }

func (env *Env) t2Type(e sx.Sexp) (t px.Type, err error) {
	b, err := e.AsBytes()
	if err != nil {
		return nil, err
	}
	if f := Safely(func() { t = env.C.ParseType(string(b)) }); f != nil {
		return nil, fmt.Errorf("%v", f)
	}
	return t, nil
}

func (env *Env) t2Val(e sx.Sexp) (v px.Value, term *Val, err error) {
	switch e.Tag() {
	case "new":
		a := e.Args()
		if len(a) != 2 {
			return nil, nil, fmt.Errorf("bad value %s", e)
		}
		t, err := env.t2Type(a[0])
		if err != nil {
			return nil, nil, err
		}
		arg, err := a[1].AsBytes()
		if err != nil {
			return nil, nil, err
		}
		if f := Safely(func() { v = px.New(env.C, t, types.WrapString(string(arg))) }); f != nil {
			return nil, nil, fmt.Errorf("%v", f)
		}
		return v, nil, nil
	case "newp": // (newp xTEXT) = px.New(Lat::P, 1, TEXT as a type): an instance of the parameterized type Lat::P[TEXT]
		if len(e.Args()) != 1 {
			return nil, nil, fmt.Errorf("bad value %s", e)
		}
		t, err := env.t2Type(e.Args()[0])
		if err != nil {
			return nil, nil, err
		}
		if f := Safely(func() { v = px.New(env.C, env.C.ParseType("Lat::P"), types.WrapInteger(1), t) }); f != nil {
			return nil, nil, fmt.Errorf("%v", f)
		}
		return v, nil, nil
	case "ty":
		if len(e.Args()) != 1 {
			return nil, nil, fmt.Errorf("bad value %s", e)
		}
		t, err := env.t2Type(e.Args()[0])
		return t, nil, err
	}
	vt, err := ParseVal(e)
	if err != nil {
		return nil, nil, err
	}
	v, err = env.BuildVal(vt)
	return v, &vt, err
}

// the hand-written reference for the two recursive aliases
func isTree(v Val, lo, hi int64) bool {
	switch v.K {
	case "i":
		return lo <= v.I && v.I <= hi
	case "a":
		for _, e := range v.Vs {
			if !isTree(e, lo, hi) {
				return false
			}
		}
		return true
	}
	return false
}

// ExecTier2 runs one second-tier test op; ok = false when op is not one of them.
func ExecTier2(c px.Context, op string, args []sx.Sexp) (res core.Result, ok bool) {
	if !strings.HasPrefix(op, "t2-") {
		return core.Result{}, false
	}
	tags := []string{"op:" + op, "tier:2"}
	bad := func(err error) (core.Result, bool) {
		return core.Result{Out: "bad-op", Pred: "FAIL harness-bad-op " + op + " " + fmt.Sprint(err), Tags: tags}, true
	}
	// a sample type or value that this tree cannot build is outside the test, not a failure of the harness
	skip := func(err error) (core.Result, bool) {
		return core.Result{Out: "unbuildable", Pred: "n/a", Tags: append(tags, "t2:unbuildable")}, true
	}
	done := func(out, pred string) (core.Result, bool) {
		return core.Result{Out: out, Pred: pred, NonTrivial: true, Tags: tags}, true
	}
	env := EnvOf(c)
	nTypes := map[string]int{"t2-refl": 1, "t2-trans": 3, "t2-sound": 2, "t2-tree": 0, "t2-common": 2, "t2-gen": 1,
		"t2-infer": 1, "t2-ptype": 0, "t2-desc": 2, "t2-assert": 1}
	nVals := map[string]int{"t2-sound": 1, "t2-tree": 1, "t2-infer": 1, "t2-ptype": 1, "t2-assert": 1}
	nt, known := nTypes[op]
	if !known || len(args) != nt+nVals[op] {
		return bad(fmt.Errorf("unknown op or wrong number of arguments"))
	}
	ts := make([]px.Type, nt)
	for i := range ts {
		t, err := env.t2Type(args[i])
		if err != nil {
			return skip(err)
		}
		ts[i] = t
	}
	var v px.Value
	var vt *Val
	if nVals[op] == 1 {
		var err error
		if v, vt, err = env.t2Val(args[nt]); err != nil {
			return skip(err)
		}
	}
	var out, pred string
	fault := Safely(func() {
		pred = "ok"
		switch op {
		case "t2-refl":
			// a separately parsed copy: equal, and accepted both ways
			cp, _ := env.t2Type(args[0])
			eq, a1, a2 := ts[0].Equals(cp, nil), px.IsAssignable(ts[0], cp), px.IsAssignable(cp, ts[0])
			out = sx.B(eq) + " " + sx.B(a1) + " " + sx.B(a2)
			if !a1 || !a2 {
				pred = "FAIL t2-nonrefl a separately parsed copy is not accepted"
			} else if !eq {
				pred = "FAIL t2-noneq-copy a separately parsed copy is not equal"
			}
		case "t2-trans":
			ab, bc, ac := px.IsAssignable(ts[0], ts[1]), px.IsAssignable(ts[1], ts[2]), px.IsAssignable(ts[0], ts[2])
			out = sx.B(ab) + " " + sx.B(bc) + " " + sx.B(ac)
			if ab && bc && !ac {
				pred = "FAIL t2-nontrans"
			}
		case "t2-sound":
			ab, ib, ia := px.IsAssignable(ts[0], ts[1]), px.IsInstance(ts[1], v), px.IsInstance(ts[0], v)
			out = sx.B(ab) + " " + sx.B(ib) + " " + sx.B(ia)
			if ab && ib && !ia {
				pred = "FAIL t2-unsound"
			}
		case "t2-tree":
			if vt == nil {
				pred = "n/a"
				return
			}
			tree, stree := env.C.ParseType("Lat::Tree"), env.C.ParseType("Lat::STree")
			it, is := px.IsInstance(tree, v), px.IsInstance(stree, v)
			out = sx.B(it) + " " + sx.B(is)
			if it != isTree(*vt, MinI, MaxI) || is != isTree(*vt, 0, 9) {
				pred = "FAIL t2-den-tree instance-of differs from the hand-written reference of the recursive alias"
			}
		case "t2-common":
			ct := px.CommonType(ts[0], ts[1])
			a, b := px.IsAssignable(ct, ts[0]), px.IsAssignable(ct, ts[1])
			out = sx.B(a) + " " + sx.B(b)
			if !a || !b {
				pred = "FAIL t2-common-not-bound " + ct.String()
			}
		case "t2-gen":
			gt := px.Generalize(ts[0])
			a := px.IsAssignable(gt, ts[0])
			out = sx.B(a)
			if !a {
				pred = "FAIL t2-gen-not-bound " + gt.String()
			}
		case "t2-infer":
			dt := px.DetailedValueType(v)
			acc, inst := px.IsAssignable(ts[0], dt), px.IsInstance(ts[0], v)
			out = sx.B(inst) + " " + sx.B(acc)
			if acc && !inst {
				pred = "FAIL t2-accepts-unsound " + dt.String()
			}
		case "t2-ptype":
			a, b := px.IsInstance(v.PType(), v), px.IsInstance(px.DetailedValueType(v), v)
			out = sx.B(a) + " " + sx.B(b)
			if !a || !b {
				pred = "FAIL t2-ptype-not-inst"
			}
		case "t2-desc":
			text := px.DescribeMismatch(Subject, ts[0], ts[1])
			asg := px.IsAssignable(ts[0], ts[1])
			out = "nonempty"
			if text == "" {
				out = "empty"
			}
			switch {
			case text == "" && !asg:
				pred = "FAIL t2-desc-empty-not-asg"
			case text != "" && asg:
				pred = "FAIL t2-desc-nonempty-asg " + oneLine(text)
			case text != "" && !strings.Contains(text, Subject):
				pred = "FAIL t2-desc-no-subject " + oneLine(text)
			}
		case "t2-assert":
			inst := px.IsInstance(ts[0], v)
			out = "ok"
			if f := Safely(func() { px.AssertInstance(Subject, ts[0], v) }); f != nil {
				out = Classify(f)
			}
			switch {
			case inst && out != "ok":
				pred = "FAIL t2-assert-raises-on-instance " + out
			case !inst && out == "ok":
				pred = "FAIL t2-assert-silent-on-noninstance"
			case !inst && out != "reported "+string(px.TypeMismatch):
				pred = "FAIL t2-assert-fault " + out
			}
		}
	})
	if fault != nil {
		return done("fault", "FAIL t2-panic "+oneLine(fmt.Sprint(fault)))
	}
	return done(out, pred)
}

// Subject is the subject name handed to the describer by the direct predicates (distinctive, so that
// "the text names the subject" is a real test; the `desc` op itself uses "x" as doc.go says).
const Subject = "subj_Zq7"

// GenTier2 emits the second-tier stream of one property (≤ 500 lines).
func GenTier2(emit func(string), r *rand.Rand, prop string) {
	ty := func() string { return T2Text(T2Types[r.Intn(len(T2Types))]) }
	val := func() string { return T2Vals[r.Intn(len(T2Vals))] }
	switch prop {
	case "C01":
		for _, a := range T2Params() { // the whole family of the parameterized Object type, every instance
			for _, b := range T2Params() {
				for _, v := range T2ParamVals() {
					emit("@t2-sound " + T2Text(a) + " " + T2Text(b) + " " + v)
				}
			}
		}
		for i := 0; i < 450; i++ {
			emit("@t2-sound " + ty() + " " + ty() + " " + val())
		}
	case "C02":
		for _, v := range T2Vals {
			emit("@t2-tree " + v)
		}
	case "C03":
		for _, t := range T2Types {
			emit("@t2-refl " + T2Text(t))
		}
		for _, a := range T2Params() {
			emit("@t2-refl " + T2Text(a))
			for _, b := range T2Params() {
				for _, cc := range T2Params() {
					emit("@t2-trans " + T2Text(a) + " " + T2Text(b) + " " + T2Text(cc))
				}
			}
		}
		for i := 0; i < 400; i++ {
			emit("@t2-trans " + ty() + " " + ty() + " " + ty())
		}
	case "C04":
		for _, v := range T2Vals {
			emit("@t2-ptype " + v)
		}
		for _, t := range T2Types {
			emit("@t2-gen " + T2Text(t))
		}
		for i := 0; i < 200; i++ {
			emit("@t2-common " + ty() + " " + ty())
			emit("@t2-infer " + ty() + " " + val())
		}
	case "C19":
		for i := 0; i < 250; i++ {
			emit("@t2-desc " + ty() + " " + ty())
			emit("@t2-assert " + ty() + " " + val())
		}
	}
}
