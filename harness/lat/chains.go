package lat

// Chains: transitivity triples built ON PURPOSE through the rules the random Narrow / Widen walk rarely lines up (extension round,
// measured with tools/coverage: of 88 000 `trans` lines of the quick tier 8 had a built-in alias in the middle with both premises
// holding, 1 on the right):
//
//	AliasChains  — a ⊒ Data ⊒ c, Data ⊒ b ⊒ c, a ⊒ b ⊒ Data / RichData, and the same below a covariant context
//	StructChains — Struct ⊒ Struct ⊒ Struct with optional members dropped / required made optional / values narrowed, and
//	               Hash / Collection / Iterable / Data on top of such a chain
//	IterChains   — Iterable[x] through Hash (entry tuple), Struct (entry tuple per member), Enum / Pattern / String (String[1,1]),
//	               Binary (Integer[0,255]), Array / Tuple (position loop), Iterable
//
// Nothing relies on the intended acceptance being met: the predicates of C01 / C03 / C04 are evaluated on whatever comes out, and the
// evidence reports how many premises actually hold.

// Triple is an intended chain A ⊒ B ⊒ C.
type Triple struct{ A, B, C Ty }

// varOf is Var with nested Variants flattened (NewVariantType does the same) and a single member returned as itself (a one-member
// Variant cannot be constructed)
func varOf(ts ...Ty) Ty {
	var flat []Ty
	for _, t := range ts {
		if t.K == "var" {
			flat = append(flat, t.Ts...)
		} else {
			flat = append(flat, t)
		}
	}
	if len(flat) == 1 {
		return flat[0]
	}
	return Var(flat...)
}

func dataUnfolded() Ty {
	return Var(Atom("sdata"), Atom("undef"), Arr(Atom("data"), 0, MaxI), Hash(Atom("str"), Atom("data"), 0, MaxI))
}

func richUnfolded() Ty {
	return Var(Atom("scalar"), Atom("bin"), Atom("default"), Obj(), TypeOf(Atom("any")), Atom("undef"),
		Arr(Atom("rdata"), 0, MaxI), Hash(Var(Atom("str"), Atom("numeric")), Atom("rdata"), 0, MaxI))
}

// aboveAlias: types intended to accept the alias al ("data" / "rdata").
func (g *Gen) aboveAlias(al string) Ty {
	a := Atom(al)
	cands := []Ty{Atom("rdata"), Atom("any"), Opt(a), varOf(a, Atom("bin")), varOf(Atom("default"), a), Opt(Atom("rdata")),
		varOf(Atom("rdata"), g.Leaf()), NU(Opt(a)), Opt(varOf(a, Obj()))}
	if al == "data" {
		cands = append(cands, Atom("data"), dataUnfolded(), richUnfolded(), Opt(dataUnfolded()),
			varOf(Atom("scalar"), Atom("undef"), Arr(Atom("data"), 0, MaxI), Hash(Atom("str"), Atom("data"), 0, MaxI)),
			varOf(Atom("sdata"), Atom("undef"), Coll(0, MaxI)),
			varOf(Atom("sdata"), Opt(Arr(Atom("data"), 0, MaxI)), Hash(Atom("scalar"), Atom("data"), 0, MaxI)),
			varOf(Atom("sdata"), Atom("undef"), Iter(Atom("data")), Hash(Atom("str"), Atom("rdata"), 0, MaxI)),
			varOf(Atom("sdata"), Atom("undef"), Arr(Atom("rdata"), 0, MaxI), Hash(Atom("str"), Atom("data"), 0, MaxI)))
	} else {
		cands = append(cands, richUnfolded(), Opt(richUnfolded()),
			varOf(Atom("scalar"), Atom("bin"), Atom("default"), Obj(), TypeOf(Atom("any")), Atom("undef"), Coll(0, MaxI)),
			varOf(Atom("any"), Atom("rdata")))
	}
	return g.pickTy(cands)
}

// belowAlias: a type intended to be accepted by the alias, one to three narrowing steps below it (members of the alias, and
// composites built from them: Array / Tuple / Hash / Struct of alias members)
func (g *Gen) belowAlias(al string) Ty {
	t := g.Narrow(Atom(al))
	for k := g.n(3); k > 0; k-- {
		t = g.Narrow(t)
	}
	if g.p(30) {
		e := g.Narrow(Atom(al))
		switch g.n(5) {
		case 0:
			lo, hi := g.Size()
			return Arr(e, lo, hi)
		case 1:
			return Tup([]Ty{e, g.Narrow(Atom(al))})
		case 2:
			lo, hi := g.Size()
			return Hash(g.pickTy([]Ty{Atom("str"), StrVal("a"), Enum(false, "a", "b"), StrSz(1, 5)}), e, lo, hi)
		case 3:
			return Struct(Mem("a", g.p(40), e), Mem("b", g.p(40), g.Narrow(Atom(al))))
		default:
			return Opt(e)
		}
	}
	return t
}

// AliasChains returns n intended chains through the two built-in recursive aliases.
func (g *Gen) AliasChains(n int) []Triple {
	out := make([]Triple, 0, n)
	for i := 0; len(out) < n; i++ {
		al := "data"
		if i%3 == 2 {
			al = "rdata"
		}
		var tr Triple
		switch i % 5 {
		case 0: // a ⊒ alias ⊒ c
			tr = Triple{g.aboveAlias(al), Atom(al), g.belowAlias(al)}
		case 1: // alias ⊒ b ⊒ c
			b := g.belowAlias(al)
			tr = Triple{Atom(al), b, g.Narrow(b)}
		case 2: // a ⊒ b ⊒ alias
			b := g.aboveAlias(al)
			a := g.Widen(b)
			if g.p(30) {
				a = g.aboveAlias(al)
			}
			tr = Triple{a, b, Atom(al)}
		case 3: // the alias in the middle, below a context: F[a] ⊒ F[alias] ⊒ F[c]
			a, c := g.aboveAlias(al), g.belowAlias(al)
			save := g.Alias
			g.Alias = false
			ca := g.Contexts(a, Atom(al))
			k := g.n(len(ca))
			// the same context around c: rebuild it from FA by replacing a (contexts are built with fresh random siblings, so the
			// second half is obtained by widening the pair (alias, c) through the SAME shape: arrays and wrappers only)
			g.Alias = save
			switch ca[k].Hole {
			case "arr-elem":
				tr = Triple{ca[k].FA, ca[k].FB, Arr(c, ca[k].FB.Lo, ca[k].FB.Hi)}
			case "opt", "nu", "type", "sens", "iter", "itr":
				tr = Triple{ca[k].FA, ca[k].FB, Wrap1(ca[k].Hole, c)}
			case "hash-val":
				tr = Triple{ca[k].FA, ca[k].FB, Hash(ca[k].FB.Ts[0], c, ca[k].FB.Lo, ca[k].FB.Hi)}
			default:
				tr = Triple{Arr(a, 0, 3), Arr(Atom(al), 0, 3), Tup([]Ty{c, g.belowAlias(al)})}
			}
		default: // the two aliases against each other and against their unfoldings
			ps := []Ty{Atom("data"), Atom("rdata"), dataUnfolded(), richUnfolded(), Opt(Atom("data")), Arr(Atom("data"), 0, MaxI),
				Hash(Atom("str"), Atom("data"), 0, MaxI), Arr(Atom("rdata"), 0, MaxI), Iter(Atom("data")), Iter(Atom("rdata")),
				Hash(varOf(Atom("str"), Atom("numeric")), Atom("rdata"), 0, MaxI), Tup([]Ty{Atom("data"), Atom("data")}),
				Struct(Mem("a", false, Atom("data"))), varOf(Atom("data"), Atom("bin"))}
			tr = Triple{g.pickTy(ps), g.pickTy(ps), g.pickTy(ps)}
		}
		out = append(out, tr)
	}
	return out
}

// narrowStruct makes the struct narrower in one of the ways Struct ⊒ Struct admits: an optional member dropped, an optional member
// made required, a value type narrowed.  (Never adds a member: every member of the accepted Struct must be one of the receiver's.)
func (g *Gen) narrowStruct(t Ty) Ty {
	if t.K != "struct" || len(t.Ms) == 0 {
		return t
	}
	ms := append([]Member{}, t.Ms...)
	i := g.n(len(ms))
	switch {
	case ms[i].Opt && g.p(45):
		return Struct(append(ms[:i:i], ms[i+1:]...)...)
	case ms[i].Opt && g.p(60):
		ms[i].Opt = false
	default:
		ms[i].T = g.Narrow(ms[i].T)
	}
	return Struct(ms...)
}

func (g *Gen) someStruct() Ty {
	perm := g.R.Perm(len(namePool))
	n := 1 + g.n(4)
	ms := make([]Member, n)
	for i := range ms {
		ms[i] = Mem(namePool[perm[i]], g.p(55), g.Ty(1))
	}
	return Struct(ms...)
}

// StructChains returns n intended chains whose lower two (or all three) types are Structs.
func (g *Gen) StructChains(n int) []Triple {
	out := make([]Triple, 0, n)
	save := g.Alias
	g.Alias = false
	for i := 0; len(out) < n; i++ {
		s0 := g.someStruct()
		s1 := g.narrowStruct(s0)
		if g.p(40) {
			s1 = g.narrowStruct(s1)
		}
		s2 := g.narrowStruct(s1)
		req := int64(0)
		for _, m := range s0.Ms {
			if !m.Opt {
				req++
			}
		}
		vals := make([]Ty, len(s0.Ms))
		for j, m := range s0.Ms {
			vals[j] = m.T
		}
		var top Ty
		switch i % 8 {
		case 0, 1, 2:
			top = s0
		case 3: // Hash ⊒ Struct: key type over the names, value type over the member types
			top = Hash(g.pickTy([]Ty{Atom("str"), StrSz(1, MaxI), Atom("scalar"), Pat()}), varOf(vals...), req, int64(len(s0.Ms)))
			if g.p(40) {
				top = Hash(Atom("str"), Atom("any"), 0, MaxI)
			}
		case 4:
			top = Coll(req, int64(len(s0.Ms)))
		case 5:
			top = Iter(Tup([]Ty{Atom("str"), varOf(vals...)}))
			if g.p(40) {
				top = Iter(Atom("any"))
			}
		case 6:
			top = g.pickTy([]Ty{Atom("data"), Atom("rdata"), Opt(Atom("rdata"))})
		default:
			top = varOf(s0, g.Leaf())
			if g.p(50) {
				top = Opt(s0)
			}
		}
		if i%8 >= 3 {
			out = append(out, Triple{top, s0, s1})
		}
		if i%8 != 6 || g.p(50) {
			out = append(out, Triple{s0, s1, s2})
		}
		if i%8 >= 3 && i%8 != 6 {
			out = append(out, Triple{top, s1, s2})
		}
	}
	g.Alias = save
	if len(out) > n {
		out = out[:n]
	}
	return out
}

// IterChains returns n intended chains whose top is an Iterable type.
func (g *Gen) IterChains(n int) []Triple {
	out := make([]Triple, 0, n)
	save := g.Alias
	g.Alias = false
	for i := 0; len(out) < n; i++ {
		var tr Triple
		switch i % 8 {
		case 0: // Iterable[Tuple[k', v']] ⊒ Hash[k, v] ⊒ Hash / Struct
			k, v := g.keyTy(1), g.Ty(1)
			lo, hi := g.Size()
			h := Hash(k, v, lo, hi)
			top := Iter(Tup([]Ty{g.Widen(k), g.Widen(v)}))
			if g.p(30) {
				top = Iter(g.pickTy([]Ty{Atom("any"), Arr(Atom("any"), 2, 2), Coll(2, 2), Tup([]Ty{k, v})}))
			}
			tr = Triple{top, h, g.Narrow(h)}
		case 1: // Iterable ⊒ Hash ⊒ Struct, the Struct's names inside the key type
			s := g.someStruct()
			vals := make([]Ty, len(s.Ms))
			for j, m := range s.Ms {
				vals[j] = m.T
			}
			h := Hash(g.pickTy([]Ty{Atom("str"), StrSz(1, MaxI), Atom("scalar")}), varOf(vals...), 0, MaxI)
			tr = Triple{Iter(Tup([]Ty{Atom("scalar"), varOf(append(vals, g.Leaf())...)})), h, s}
		case 2: // Iterable ⊒ Struct ⊒ Struct
			s := g.someStruct()
			vals := make([]Ty, len(s.Ms))
			for j, m := range s.Ms {
				vals[j] = m.T
			}
			top := Iter(Tup([]Ty{g.pickTy([]Ty{Atom("str"), StrSz(1, MaxI), Pat(), Enum(false)}), varOf(vals...)}))
			if g.p(35) { // an element type fitted to ONE member only: the answer depends on every other member being looked at
				j := g.n(len(s.Ms))
				top = Iter(Tup([]Ty{g.pickTy([]Ty{Atom("str"), StrVal(s.Ms[j].Name), Enum(false, s.Ms[j].Name)}), vals[j]}))
			}
			tr = Triple{top, s, g.narrowStruct(s)}
		case 3: // the String family: Iterable[String[1,1]] (or wider) ⊒ String / Enum / Pattern ⊒ narrower
			top := Iter(g.pickTy([]Ty{StrSz(1, 1), StrSz(0, 1), StrSz(1, MaxI), Atom("str"), Atom("scalar"), Pat(), Enum(false), Atom("sdata")}))
			mid := g.pickTy([]Ty{Atom("str"), g.enum(), Pat(g.pickS(patPool)), Pat(), StrSz(0, 5), Enum(false), StrVal(g.str())})
			tr = Triple{top, mid, g.Narrow(mid)}
		case 4: // Iterable ⊒ Iterable ⊒ collection
			x := g.Ty(1)
			mid := Iter(x)
			tr = Triple{Iter(g.Widen(x)), mid, g.Narrow(mid)}
		case 5: // Iterable ⊒ Array ⊒ Tuple (position loop without a size test)
			x := g.Ty(1)
			lo, hi := g.Size()
			a := Arr(x, lo, hi)
			tr = Triple{Iter(g.Widen(x)), a, g.Narrow(a)}
		case 6: // Binary
			top := Iter(g.pickTy([]Ty{Int(0, 255), Int(MinI, MaxI), Atom("numeric"), Atom("scalar"), Int(0, 254)}))
			mid := g.pickTy([]Ty{Atom("bin"), varOf(Atom("bin"), Arr(Int(0, 5), 0, 2)), Iter(Int(0, 255))})
			tr = Triple{top, mid, g.pickTy([]Ty{Atom("bin"), Arr(Int(1, 2), 0, 1), Tup([]Ty{Int(3, 3)})})}
		default: // Variant / Optional around the Iterable, something iterable on the right
			x := g.Ty(1)
			top := g.pickTy([]Ty{Opt(Iter(g.Widen(x))), varOf(Iter(g.Widen(x)), Atom("undef")), NU(Iter(g.Widen(x)))})
			mid := g.pickTy([]Ty{Iter(x), Arr(x, 0, 3), Hash(x, x, 0, 2), Tup([]Ty{x, x})})
			tr = Triple{top, mid, g.Narrow(mid)}
		}
		out = append(out, tr)
	}
	g.Alias = save
	return out
}

// UnitNested returns n types that hold Unit somewhere below the top (the stated exclusion of C01 / C03; for C04's `common` / `gen`
// the known finding C04-common-unit): a Variant member, a Tuple slot, an Array / Hash element with a non-zero size, a Struct member,
// under Optional / NotUndef / Type / Iterable.
func (g *Gen) UnitNested(n int) []Ty {
	out := make([]Ty, 0, n)
	u := Atom("unit")
	save, saveU := g.Alias, g.NoUnit
	g.Alias, g.NoUnit = false, true
	for i := 0; len(out) < n; i++ {
		x, y := g.Ty(1), g.Leaf()
		var t Ty
		switch i % 10 {
		case 0:
			t = varOf(x, u)
		case 1:
			t = Tup([]Ty{varOf(y, u), x})
		case 2:
			lo, hi := g.Size()
			if hi == 0 {
				hi = 2
			}
			t = Arr(u, lo, hi)
		case 3:
			t = Tup([]Ty{x, u})
		case 4:
			t = Hash(Atom("str"), varOf(u, y), 0, 3)
		case 5:
			t = Struct(Mem("a", false, u), Mem("b", true, x))
		case 6:
			t = Opt(varOf(u, x))
		case 7:
			t = TypeOf(varOf(x, u))
		case 8:
			t = Iter(Tup([]Ty{u, y}))
		default:
			t = Arr(Tup([]Ty{varOf(Pat(), u), Atom("undef")}), 0, 2)
		}
		out = append(out, t)
	}
	g.Alias, g.NoUnit = save, saveU
	return out
}
