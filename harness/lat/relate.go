package lat

import (
	"math"
	"regexp"
	"unicode/utf8"
)

// Narrow and Widen make one small change to a type that is INTENDED to give a sub / super type.  They are
// generator heuristics: nothing relies on the intention being met (the evidence reports how often
// assignability actually holds).

func setKid(t Ty, i int, k Ty) Ty {
	r := t
	if t.K == "struct" {
		r.Ms = append([]Member{}, t.Ms...)
		r.Ms[i].T = k
		return r
	}
	r.Ts = append([]Ty{}, t.Ts...)
	r.Ts[i] = k
	return r
}

// shrink a range by one step at one end (when it has room).
func (g *Gen) shrink(lo, hi int64) (int64, int64) {
	if lo >= hi {
		return lo, hi
	}
	switch {
	case lo == MinI && hi == MaxI:
		return g.pickR([]rng{{0, MaxI}, {MinI, 0}, {1, 5}, {-5, 5}})
	case hi == MaxI:
		if g.p(50) {
			if lo < 0 {
				return lo, 0
			}
			return lo, satAdd(lo, int64(g.n(4)))
		}
		return lo + 1, hi
	case lo == MinI:
		if g.p(50) {
			return satAdd(hi, -int64(g.n(4))), hi
		}
		return lo, hi - 1
	}
	if g.p(50) {
		return lo + 1, hi
	}
	return lo, hi - 1
}

// satAdd adds without wrapping around the int64 bounds (a wrapped bound would give a range with lo > hi).
func satAdd(a, d int64) int64 {
	if d > 0 && a > MaxI-d {
		return MaxI
	}
	if d < 0 && a < MinI-d {
		return MinI
	}
	return a + d
}

func (g *Gen) pickR(rs []rng) (int64, int64) { z := rs[g.n(len(rs))]; return z.lo, z.hi }

// grow a range by one step at one end; floor is the smallest admissible lower bound (0 for sizes).
func (g *Gen) grow(lo, hi, floor int64) (int64, int64) {
	canLo, canHi := lo > floor, hi < MaxI
	switch {
	case canLo && (!canHi || g.p(50)):
		if g.p(25) {
			return floor, hi
		}
		return lo - 1, hi
	case canHi:
		if g.p(25) {
			return lo, MaxI
		}
		return lo, hi + 1
	}
	return lo, hi
}

func strOfRunes(n int) string {
	s := ""
	for i := 0; i < n; i++ {
		s += "a"
	}
	return s
}

// Narrow returns a term intended to denote a subtype of t.
func (g *Gen) Narrow(t Ty) Ty {
	kids := t.Kids()
	// composite: usually narrow one sub-term in place
	if len(kids) > 0 && t.K != "alias" && g.p(45) {
		i := g.n(len(kids))
		return setKid(t, i, g.Narrow(kids[i]))
	}
	switch t.K {
	case "alias":
		return g.Narrow(t.Ts[0])
	case "any":
		sub := &Gen{R: g.R, NoIter: g.NoIter, NoUnit: g.NoUnit, Call: g.Call}
		return sub.Ty(1)
	case "scalar":
		return g.pickTy([]Ty{Atom("sdata"), Atom("numeric"), Atom("str"), Bool(-1), Rx(""), Int(0, 5), Tspan(MinI, MaxI), StrVal("a")})
	case "sdata":
		return g.pickTy([]Ty{Atom("str"), Int(MinI, MaxI), Flt(-math.MaxFloat64, math.MaxFloat64), Bool(-1), Atom("numeric"), Enum(false, "a")})
	case "numeric":
		return g.pickTy([]Ty{Int(MinI, MaxI), Flt(-math.MaxFloat64, math.MaxFloat64), Int(1, 2), Flt(0, 1)})
	case "data":
		return g.pickTy([]Ty{Atom("sdata"), Atom("undef"), Arr(Atom("data"), 0, MaxI), Hash(Atom("str"), Atom("data"), 0, MaxI), Atom("str"),
			Arr(Int(1, 2), 0, 2), Struct(Mem("a", false, Int(1, 2))), Tup([]Ty{Atom("str"), Atom("undef")}), Opt(Atom("str"))})
	case "rdata":
		return g.pickTy([]Ty{Atom("data"), Atom("scalar"), Atom("bin"), Atom("default"), Obj(), Obj(1), TypeOf(Atom("any")),
			Arr(Atom("rdata"), 0, MaxI), Hash(Int(MinI, MaxI), Atom("rdata"), 0, MaxI), Tspan(1, 1), Rx("a")})
	case "str":
		lo, hi := g.Size()
		if lo == 0 && hi == MaxI {
			hi = 5
		}
		return g.pickTy([]Ty{StrSz(lo, hi), StrVal(g.str()), g.enum(), Pat(g.pickS(patPool)), Pat(), Enum(false)})
	case "int":
		lo, hi := g.shrink(t.Lo, t.Hi)
		return Int(lo, hi)
	case "tspan":
		lo, hi := g.shrink(t.Lo, t.Hi)
		return Tspan(lo, hi)
	case "tstamp": // a pool instant inside the range as the new lower or upper bound
		le := func(s1, n1, s2, n2 int64) bool { return s1 < s2 || s1 == s2 && n1 <= n2 }
		var in [][2]int64
		for _, z := range tsvPool {
			if le(t.Lo, t.NLo, z[0], z[1]) && le(z[0], z[1], t.Hi, t.NHi) {
				in = append(in, z)
			}
		}
		if len(in) == 0 {
			return t
		}
		z := in[g.n(len(in))]
		switch g.n(3) {
		case 0:
			return Tstamp(z[0], z[1], t.Hi, t.NHi)
		case 1:
			return Tstamp(t.Lo, t.NLo, z[0], z[1])
		}
		return Tstamp(z[0], z[1], z[0], z[1])
	case "flt":
		if t.FLo < t.FHi {
			var cands []float64
			for _, c := range fltPool {
				if t.FLo <= c && c <= t.FHi {
					cands = append(cands, c)
				}
			}
			if len(cands) > 0 {
				c := cands[g.n(len(cands))]
				if g.p(50) {
					return Flt(c, t.FHi)
				}
				return Flt(t.FLo, c)
			}
		}
		return t
	case "bool":
		if t.B < 0 {
			return Bool(g.n(2))
		}
		return t
	case "strsz":
		if g.p(40) {
			if n, ok := g.count(t.Lo, t.Hi); ok {
				if g.p(50) {
					return StrVal(g.strOfLen(n))
				}
				return Enum(false, g.strOfLen(n), strOfRunes(n))
			}
		}
		lo, hi := g.shrink(t.Lo, t.Hi)
		return StrSz(lo, hi)
	case "enum":
		switch {
		case len(t.S) == 0:
			return g.pickTy([]Ty{g.enum(), StrVal(g.str())})
		case len(t.S) > 1 && g.p(60):
			i := g.n(len(t.S))
			vs := append(append([]string{}, t.S[:i]...), t.S[i+1:]...)
			return Enum(t.CI, vs...)
		}
		return StrVal(g.pickS(t.S))
	case "pat":
		if len(t.S) == 0 {
			return g.pickTy([]Ty{Pat(g.pickS(patPool)), Atom("str"), StrVal(g.str()), g.enum()})
		}
		if len(t.S) > 1 && g.p(40) {
			i := g.n(len(t.S))
			return Pat(append(append([]string{}, t.S[:i]...), t.S[i+1:]...)...)
		}
		// a literal or an enum of strings the pattern matches
		var ms []string
		for _, s := range strPool {
			for _, src := range t.S {
				if ok, err := regexp.MatchString(src, s); err == nil && ok {
					ms = append(ms, s)
					break
				}
			}
		}
		if len(ms) == 0 {
			return t
		}
		if g.p(50) && len(ms) > 1 {
			return Enum(false, ms[g.n(len(ms))], ms[g.n(len(ms))])
		}
		return StrVal(ms[g.n(len(ms))])
	case "rx":
		if t.S[0] == "" {
			return Rx(g.pickS(rxPool[1:]))
		}
		return t
	case "call": // more specific: a narrower return type; the default gets a parameter list
		ps := CallParts(t)
		if ps[0] == nil && ps[1] == nil && ps[2] == nil {
			p := Tup([]Ty{g.Leaf()})
			return Call(&p, nil, nil)
		}
		if ps[1] != nil {
			r := g.Narrow(*ps[1])
			return Call(ps[0], &r, ps[2])
		}
		r := g.Leaf()
		return Call(ps[0], &r, ps[2])
	case "rt": // more specific: a runtime for the default, a name for an empty name, a pattern for none
		switch {
		case t.S[0] == "":
			return Runtime("ruby", t.S[1], t.S[2:]...)
		case t.S[1] == "" && t.S[0] != "go":
			return Runtime(t.S[0], "a", t.S[2:]...)
		case len(t.S) == 2:
			return Runtime(t.S[0], t.S[1], g.pickS(rxPool))
		}
		return t
	case "coll":
		lo, hi := t.Lo, t.Hi
		if g.p(50) {
			lo, hi = g.shrink(lo, hi)
		}
		switch g.n(5) {
		case 0:
			return Coll(lo, hi)
		case 1:
			return Arr(g.Leaf(), lo, hi)
		case 2:
			return Hash(Atom("str"), g.Leaf(), lo, hi)
		case 3:
			if n, ok := g.count(lo, hi); ok {
				ts := make([]Ty, n)
				for i := range ts {
					ts[i] = g.Leaf()
				}
				return Tup(ts)
			}
		}
		return Struct(Mem("a", false, g.Leaf()))
	case "arr":
		switch g.n(3) {
		case 0:
			lo, hi := g.shrink(t.Lo, t.Hi)
			return Arr(t.Ts[0], lo, hi)
		case 1:
			if n, ok := g.count(t.Lo, t.Hi); ok {
				ts := make([]Ty, n)
				for i := range ts {
					ts[i] = t.Ts[0]
					if g.p(40) {
						ts[i] = g.Narrow(t.Ts[0])
					}
				}
				return Tup(ts)
			}
		}
		if t.Hi >= 1 && t.Lo <= 1 {
			return TupSz([]Ty{t.Ts[0]}, t.Lo, minI(t.Hi, t.Lo+2))
		}
		return t
	case "hash":
		switch g.n(3) {
		case 0:
			lo, hi := g.shrink(t.Lo, t.Hi)
			return Hash(t.Ts[0], t.Ts[1], lo, hi)
		case 1:
			// a struct whose keys are members of the key type
			if n, ok := g.count(t.Lo, t.Hi); ok && n <= len(namePool) {
				ms := make([]Member, n)
				for i := range ms {
					ms[i] = Mem(namePool[i], false, t.Ts[1])
				}
				return Struct(ms...)
			}
		}
		return Hash(g.Narrow(t.Ts[0]), t.Ts[1], t.Lo, t.Hi)
	case "tup":
		if t.HasSize && g.p(60) {
			lo, hi := g.shrink(t.Lo, t.Hi)
			return TupSz(t.Ts, lo, hi)
		}
		if len(t.Ts) == 0 {
			return TupSz([]Ty{g.Leaf()}, 0, 0)
		}
		return t
	case "struct":
		if len(t.Ms) == 0 {
			return t
		}
		if g.p(25) {
			// the by-specification rule: a Struct accepts a Hash on key type, value type of the required members and size
			req, vt := 0, Atom("any")
			for _, m := range t.Ms {
				if !m.Opt {
					req++
					vt = m.T
				}
			}
			if g.p(50) {
				vt = g.Narrow(vt)
			}
			kt := g.pickTy([]Ty{Atom("str"), StrSz(1, MaxI), Enum(false, t.Ms[0].Name), StrVal(t.Ms[0].Name)})
			return Hash(kt, vt, int64(req), int64(len(t.Ms)))
		}
		i := g.n(len(t.Ms))
		ms := append([]Member{}, t.Ms...)
		if ms[i].Opt {
			if g.p(50) {
				ms[i].Opt = false // required is narrower
				return Struct(ms...)
			}
			return Struct(append(ms[:i], ms[i+1:]...)...) // never present is narrower
		}
		ms[i].T = g.Narrow(ms[i].T)
		return Struct(ms...)
	case "var":
		switch len(t.Ts) {
		case 0:
			return t
		case 1, 2:
			return t.Ts[g.n(len(t.Ts))]
		}
		i := g.n(len(t.Ts))
		return Var(append(append([]Ty{}, t.Ts[:i]...), t.Ts[i+1:]...)...)
	case "opt":
		return g.pickTy([]Ty{t.Ts[0], Atom("undef"), NU(t.Ts[0]), Opt(g.Narrow(t.Ts[0]))})
	case "nu", "type", "sens", "itr":
		return Wrap1(t.K, g.Narrow(t.Ts[0]))
	case "iter":
		switch g.n(4) {
		case 0:
			return Arr(t.Ts[0], 0, MaxI)
		case 1:
			return Tup([]Ty{t.Ts[0], t.Ts[0]})
		case 2:
			return Hash(t.Ts[0], t.Ts[0], 0, MaxI)
		}
		return Iter(g.Narrow(t.Ts[0]))
	case "obj":
		var cands [][]int64
		for _, p := range ObjPaths {
			if len(p) == len(t.Path)+1 && isPrefix(t.Path, p) {
				cands = append(cands, p)
			}
		}
		if len(cands) == 0 {
			return t
		}
		return Obj(cands[g.n(len(cands))]...)
	}
	return t
}

func minI(a, b int64) int64 {
	if a < b {
		return a
	}
	return b
}

// Widen returns a term intended to denote a supertype of t.
func (g *Gen) Widen(t Ty) Ty {
	kids := t.Kids()
	if len(kids) > 0 && t.K != "alias" && g.p(40) {
		i := g.n(len(kids))
		return setKid(t, i, g.Widen(kids[i]))
	}
	// generic widenings
	switch g.n(12) {
	case 0:
		return Atom("any")
	case 1:
		return Opt(t)
	case 2:
		if t.K != "var" {
			return Var(t, g.Leaf())
		}
	case 3:
		if t.K != "var" {
			return Var(g.Leaf(), t)
		}
	}
	switch t.K {
	case "alias":
		return g.Widen(t.Ts[0])
	case "undef":
		return g.pickTy([]Ty{Opt(g.Leaf()), Atom("data"), Atom("rdata"), Var(Atom("undef"), Atom("str"))})
	case "default", "bin":
		return g.pickTy([]Ty{Atom("rdata"), Atom("any"), Var(t, Atom("undef"))})
	case "numeric", "str":
		return g.pickTy([]Ty{Atom("sdata"), Atom("scalar"), Atom("data"), Atom("rdata")})
	case "sdata":
		return g.pickTy([]Ty{Atom("scalar"), Atom("data"), Atom("rdata")})
	case "scalar", "data":
		return Atom("rdata")
	case "int":
		if g.p(20) {
			return g.pickTy([]Ty{Atom("numeric"), Atom("sdata"), Atom("scalar")})
		}
		lo, hi := g.grow(t.Lo, t.Hi, MinI)
		return Int(lo, hi)
	case "tspan":
		if g.p(20) {
			return g.pickTy([]Ty{Atom("scalar"), Atom("rdata")})
		}
		lo, hi := g.grow(t.Lo, t.Hi, MinI)
		return Tspan(lo, hi)
	case "tstamp":
		if g.p(25) {
			return g.pickTy([]Ty{Atom("scalar"), Atom("rdata"), TstampAll()})
		}
		if w, ok := g.widenOwnRange(t); ok {
			return w
		}
		return TstampAll()
	case "flt":
		if g.p(20) {
			return g.pickTy([]Ty{Atom("numeric"), Atom("sdata"), Atom("scalar")})
		}
		lo, hi := t.FLo, t.FHi
		if g.p(50) {
			for i := len(fltPool) - 1; i >= 0; i-- {
				if fltPool[i] < lo {
					lo = fltPool[i]
					break
				}
			}
		} else {
			for _, c := range fltPool {
				if c > hi {
					hi = c
					break
				}
			}
		}
		return Flt(lo, hi)
	case "bool":
		if t.B >= 0 {
			return Bool(-1)
		}
		return g.pickTy([]Ty{Atom("sdata"), Atom("scalar")})
	case "strsz":
		lo, hi := g.grow(t.Lo, t.Hi, 0)
		if g.p(25) || lo == 0 && hi == MaxI {
			return Atom("str")
		}
		return StrSz(lo, hi)
	case "strval":
		n := int64(utf8.RuneCountInString(t.S[0]))
		return g.pickTy([]Ty{StrSz(n, n), StrSz(n, MaxI), Enum(false, t.S[0], g.str()), Enum(false, g.str(), t.S[0]), Atom("str"), Pat(), Enum(false)})
	case "enum":
		if g.p(30) || len(t.S) == 0 {
			return g.pickTy([]Ty{Atom("str"), Atom("scalar"), Pat()})
		}
		s := g.str()
		if t.CI {
			s = asciiLower(s)
		}
		return Enum(t.CI, append(append([]string{}, t.S...), s)...)
	case "pat":
		if len(t.S) == 0 || g.p(30) {
			return g.pickTy([]Ty{Atom("str"), Pat(), Atom("scalar")})
		}
		return Pat(append(append([]string{}, t.S...), g.pickS(patPool))...)
	case "rx":
		if t.S[0] != "" {
			return Rx("")
		}
		return Atom("scalar")
	case "call": // less specific: the default Callable, a wider return type, no return type
		ps := CallParts(t)
		switch g.n(3) {
		case 0:
			return Call(nil, nil, nil)
		case 1:
			if ps[1] != nil {
				r := g.Widen(*ps[1])
				return Call(ps[0], &r, ps[2])
			}
		}
		return Call(ps[0], nil, ps[2])
	case "rt": // less specific: drop the pattern, then the name, then the runtime
		switch {
		case len(t.S) > 2:
			return Runtime(t.S[0], t.S[1])
		case t.S[1] != "":
			return Runtime(t.S[0], "")
		case t.S[0] != "":
			return Runtime("", "")
		}
		return Atom("any")
	case "coll":
		lo, hi := g.grow(t.Lo, t.Hi, 0)
		return Coll(lo, hi)
	case "arr":
		switch g.n(4) {
		case 0:
			return Coll(t.Lo, t.Hi)
		case 1:
			if !g.NoIter {
				return Iter(t.Ts[0])
			}
		}
		lo, hi := g.grow(t.Lo, t.Hi, 0)
		return Arr(t.Ts[0], lo, hi)
	case "hash":
		if g.p(25) {
			return Coll(t.Lo, t.Hi)
		}
		lo, hi := g.grow(t.Lo, t.Hi, 0)
		return Hash(t.Ts[0], t.Ts[1], lo, hi)
	case "tup":
		if t.HasSize && g.p(50) {
			lo, hi := g.grow(t.Lo, t.Hi, 0)
			return TupSz(t.Ts, lo, hi)
		}
		n := int64(len(t.Ts))
		if !t.HasSize {
			if g.p(50) && n > 0 {
				return TupSz(t.Ts, n-1, n+1)
			}
			return Arr(Atom("any"), n, n)
		}
		return Coll(t.Lo, t.Hi)
	case "struct":
		ms := append([]Member{}, t.Ms...)
		if len(ms) > 0 && g.p(50) {
			i := g.n(len(ms))
			if !ms[i].Opt {
				ms[i].Opt = true
				return Struct(ms...)
			}
		}
		if g.p(30) {
			return Hash(Atom("str"), Atom("any"), 0, MaxI)
		}
		for _, name := range namePool {
			used := false
			for _, m := range ms {
				if m.Name == name {
					used = true
				}
			}
			if !used {
				return Struct(append(ms, Mem(name, true, g.Leaf()))...)
			}
		}
		return t
	case "var":
		if len(t.Ts) == 0 {
			return g.Leaf() // a one-member Variant cannot be constructed
		}
		return Var(append(append([]Ty{}, t.Ts...), g.Leaf())...)
	case "opt":
		return Opt(g.Widen(t.Ts[0]))
	case "nu":
		if g.p(50) {
			return t.Ts[0]
		}
		return NU(g.Widen(t.Ts[0]))
	case "type", "sens", "iter", "itr":
		return Wrap1(t.K, g.Widen(t.Ts[0]))
	case "obj":
		if len(t.Path) > 0 {
			if g.p(30) {
				return Obj()
			}
			return Obj(t.Path[:len(t.Path)-1]...)
		}
		return Atom("rdata")
	}
	return Atom("any")
}

func asciiLower(s string) string {
	b := []byte(s)
	for i, c := range b {
		if 'A' <= c && c <= 'Z' {
			b[i] = c + 32
		}
	}
	return string(b)
}

// Ctx is one covariant one-hole context of C03 applied to a pair: FA = F[A], FB = F[B], sibling parts
// identical on both sides.
type Ctx struct {
	Hole   string
	FA, FB Ty
}

// Contexts returns F[a], F[b] for every covariant hole: Array element, Hash key, Hash value, Tuple slot,
// Struct member value, Variant member, Optional, NotUndef, Type, Sensitive, Iterable.
func (g *Gen) Contexts(a, b Ty) []Ctx {
	out := []Ctx{}
	lo, hi := g.Size()
	out = append(out, Ctx{"arr-elem", Arr(a, lo, hi), Arr(b, lo, hi)})
	lo, hi = g.Size()
	sib := g.Ty(1)
	out = append(out, Ctx{"hash-key", Hash(a, sib, lo, hi), Hash(b, sib, lo, hi)})
	sib = g.keyTy(1)
	out = append(out, Ctx{"hash-val", Hash(sib, a, lo, hi), Hash(sib, b, lo, hi)})
	// a tuple with the hole at a random position among 0–2 siblings
	sibs := make([]Ty, g.n(3))
	for i := range sibs {
		sibs[i] = g.Ty(1)
	}
	pos := g.n(len(sibs) + 1)
	mk := func(x Ty) Ty {
		ts := append(append(append([]Ty{}, sibs[:pos]...), x), sibs[pos:]...)
		return Tup(ts)
	}
	ta, tb := mk(a), mk(b)
	if g.p(40) {
		n := int64(len(ta.Ts))
		zl, zh := g.pickR([]rng{{n, n}, {0, n}, {n, MaxI}, {n - 1, n + 1}})
		ta, tb = TupSz(ta.Ts, zl, zh), TupSz(tb.Ts, zl, zh)
	}
	out = append(out, Ctx{"tup-slot", ta, tb})
	// a struct member next to 0–2 sibling members
	perm := g.R.Perm(len(namePool))
	opt := g.p(40)
	ms := []Member{}
	nsib := g.n(3)
	for i := 0; i < nsib; i++ {
		ms = append(ms, Mem(namePool[perm[i+1]], g.p(40), g.Ty(1)))
	}
	out = append(out, Ctx{"struct-member",
		Struct(append([]Member{Mem(namePool[perm[0]], opt, a)}, ms...)...),
		Struct(append([]Member{Mem(namePool[perm[0]], opt, b)}, ms...)...)})
	sib = g.Ty(1)
	if g.p(50) {
		out = append(out, Ctx{"var-member", Var(a, sib), Var(b, sib)})
	} else {
		out = append(out, Ctx{"var-member", Var(sib, a), Var(sib, b)})
	}
	for _, k := range []string{"opt", "nu", "type", "sens", "iter", "itr"} {
		out = append(out, Ctx{k, Wrap1(k, a), Wrap1(k, b)})
	}
	return out
}

// WidenRange returns t with exactly ONE size / numeric range position widened (the other parts untouched).
// ok = false when t has no range that can grow.
func (g *Gen) WidenRange(t Ty) (Ty, bool) {
	n := countRanges(t)
	for tries := 0; tries < 4 && n > 0; tries++ {
		k := g.n(n)
		if r, ok := g.widenNth(t, &k); ok && !TyEq(r, t) {
			return r, true
		}
	}
	return t, false
}

func hasRange(t Ty) bool {
	switch t.K {
	case "int", "flt", "tspan", "tstamp", "strsz", "coll", "arr", "hash":
		return true
	case "tup":
		return t.HasSize
	}
	return false
}

// rangeKids: the sub-terms WidenRange descends into — not the parts of a Callable (its parameter and block positions are
// contravariant: a wider range there makes the Callable narrower; the law of C03 speaks of the ranges of the type itself)
func rangeKids(t Ty) []Ty {
	if t.K == "call" {
		return nil
	}
	return t.Kids()
}

func countRanges(t Ty) int {
	n := 0
	if hasRange(t) {
		n = 1
	}
	for _, k := range rangeKids(t) {
		n += countRanges(k)
	}
	return n
}

// widenNth widens the range of the k-th range-bearing node in pre-order.
func (g *Gen) widenNth(t Ty, k *int) (Ty, bool) {
	if hasRange(t) {
		if *k == 0 {
			*k = -1
			return g.widenOwnRange(t)
		}
		*k--
	}
	for i, kid := range rangeKids(t) {
		r, ok := g.widenNth(kid, k)
		if *k < 0 {
			if !ok {
				return t, false
			}
			return setKid(t, i, r), true
		}
	}
	return t, false
}

func (g *Gen) widenOwnRange(t Ty) (Ty, bool) {
	r := t
	switch t.K {
	case "int", "tspan":
		r.Lo, r.Hi = g.grow(t.Lo, t.Hi, MinI)
	case "tstamp": // the next pool instant below the lower bound / above the upper bound, or the default's bound
		le := func(s1, n1, s2, n2 int64) bool { return s1 < s2 || s1 == s2 && n1 <= n2 }
		if g.p(50) {
			r.Lo, r.NLo = 0, 0
			for i := len(tsvPool) - 1; i >= 0; i-- {
				z := tsvPool[i]
				if le(z[0], z[1], t.Lo, t.NLo) && !(z[0] == t.Lo && z[1] == t.NLo) {
					r.Lo, r.NLo = z[0], z[1]
					break
				}
			}
			if t.Lo < 0 {
				r.Lo, r.NLo = t.Lo, t.NLo
			}
		} else {
			r.Hi, r.NHi = TsMaxSec, TsMaxNs
			for _, z := range tsvPool {
				if le(t.Hi, t.NHi, z[0], z[1]) && !(z[0] == t.Hi && z[1] == t.NHi) {
					r.Hi, r.NHi = z[0], z[1]
					break
				}
			}
		}
		return r, !TyEq(r, t)
	case "flt":
		if g.p(50) && t.FLo > -math.MaxFloat64 {
			r.FLo = t.FLo - 1
			if g.p(30) {
				r.FLo = -math.MaxFloat64
			}
		} else if t.FHi < math.MaxFloat64 {
			r.FHi = t.FHi + 1
			if g.p(30) {
				r.FHi = math.MaxFloat64
			}
		} else if t.FLo > -math.MaxFloat64 {
			r.FLo = -math.MaxFloat64
		}
	case "strsz":
		r.Lo, r.Hi = g.grow(t.Lo, t.Hi, 0)
		if r.Lo == 0 && r.Hi == MaxI {
			return Atom("str"), true // String[0, max] IS the default String
		}
	default:
		r.Lo, r.Hi = g.grow(t.Lo, t.Hi, 0)
	}
	if r.Lo > r.Hi {
		return t, false
	}
	return r, !TyEq(r, t)
}
