package lat

import (
	"math/rand"
	"sort"
	"testing"

	"verif/harness/sx"

	"github.com/lyraproj/pcore/pcore"
	"github.com/lyraproj/pcore/px"
)

func reparseTy(t *testing.T, ty Ty) Ty {
	xs, err := sx.Parse(ty.String())
	if err != nil || len(xs) != 1 {
		t.Fatalf("sx.Parse %s: %v", ty, err)
	}
	back, err := ParseTy(xs[0])
	if err != nil {
		t.Fatalf("ParseTy %s: %v", ty, err)
	}
	return back
}

// print → parse → print is the identity on type and value terms.
func TestTermRoundTrip(t *testing.T) {
	g := &Gen{R: rand.New(rand.NewSource(1)), Alias: true}
	tys := append([]Ty{}, Universe(2)...)
	for i := 0; i < 20000; i++ {
		tys = append(tys, g.Ty(1+g.n(4)))
	}
	for _, ty := range tys {
		if back := reparseTy(t, ty); back.String() != ty.String() {
			t.Fatalf("type term round trip: %s became %s", ty, back)
		}
	}
	vals := append([]Val{}, ValUniverse()...)
	for i := 0; i < 20000; i++ {
		v := g.Val(1 + g.n(3))
		vals = append(vals, v, g.MutateVal(v))
	}
	for _, v := range vals {
		xs, err := sx.Parse(v.String())
		if err != nil || len(xs) != 1 {
			t.Fatalf("sx.Parse %s: %v", v, err)
		}
		back, err := ParseVal(xs[0])
		if err != nil {
			t.Fatalf("ParseVal %s: %v", v, err)
		}
		if back.String() != v.String() {
			t.Fatalf("value term round trip: %s became %s", v, back)
		}
	}
}

// enc(BuildCtor(t)) == t for every generated term; enc(BuildParse(t)) == t except for the shapes that do
// not survive printing (reported as a histogram).
func TestBuildEncFixedPoint(t *testing.T) {
	pcore.Do(func(c px.Context) {
		env := EnvOf(c)
		g := &Gen{R: rand.New(rand.NewSource(2)), Alias: true}
		tys := append([]Ty{}, Universe(2)...)
		t.Logf("|U0| = %d  |U1| = %d  |U2| = %d", len(Universe(0)), len(Universe(1)), len(Universe(2)))
		for i := 0; i < 20000; i++ {
			tys = append(tys, g.Ty(1+g.n(4)))
		}
		ctorBad, parseBad := map[string]int{}, map[string]int{}
		ctorEx, parseEx := map[string]string{}, map[string]string{}
		nParseOK := 0
		for _, ty := range tys {
			want := StripAlias(ty)
			built, err := env.BuildCtor(ty)
			if err != nil {
				ctorBad["unbuildable-"+Head(ty)]++
				ctorEx["unbuildable-"+Head(ty)] = ty.String() + "  " + err.Error()
				continue
			}
			back, err := EncTy(built)
			if err != nil {
				ctorBad["enc-error-"+Head(ty)]++
				ctorEx["enc-error-"+Head(ty)] = ty.String() + "  " + err.Error()
				continue
			}
			if !TyEq(back, want) {
				k := "differs-" + diffHead(want, back)
				ctorBad[k]++
				ctorEx[k] = want.String() + "  =>  " + back.String()
				continue
			}
			p, err := env.BuildParse(ty)
			if err != nil {
				k := "fails-" + failHead(want)
				parseBad[k]++
				parseEx[k] = want.String() + "  " + built.String() + "  " + err.Error()
				continue
			}
			pb, err := EncTy(p)
			if err != nil {
				parseBad["enc-error"]++
				parseEx["enc-error"] = want.String() + "  " + err.Error()
				continue
			}
			if !TyEq(pb, want) {
				k := "differs-" + diffHead(want, pb)
				parseBad[k]++
				parseEx[k] = want.String() + "  printed " + built.String() + "  =>  " + pb.String()
				continue
			}
			nParseOK++
		}
		report := func(name string, m map[string]int, ex map[string]string) {
			keys := []string{}
			for k := range m {
				keys = append(keys, k)
			}
			sort.Strings(keys)
			for _, k := range keys {
				t.Logf("%s %-28s %6d   e.g. %s", name, k, m[k], ex[k])
			}
		}
		report("ctor ", ctorBad, ctorEx)
		report("parse", parseBad, parseEx)
		t.Logf("%d terms, parse path usable for %d", len(tys), nParseOK)
		if len(ctorBad) > 0 {
			t.Errorf("generated terms are not fixed points of build∘enc")
		}
	})
}

// values: enc(BuildVal(v)) == v, and witnesses are (mostly) members by the reference interpreter.
func TestValuesAndWitnesses(t *testing.T) {
	pcore.Do(func(c px.Context) {
		env := EnvOf(c)
		g := &Gen{R: rand.New(rand.NewSource(3))}
		vals := append([]Val{}, ValUniverse()...)
		for i := 0; i < 5000; i++ {
			v := g.Val(1 + g.n(3))
			vals = append(vals, v, g.MutateVal(v))
		}
		bad := 0
		for _, v := range vals {
			lv, err := env.BuildVal(v)
			if err != nil {
				bad++
				if bad < 10 {
					t.Logf("unbuildable value %s: %v", v, err)
				}
				continue
			}
			back, err := EncVal(lv)
			if err != nil || back.String() != v.String() {
				bad++
				if bad < 10 {
					t.Logf("value %s encodes as %s (%v)", v, back, err)
				}
			}
		}
		if bad > 0 {
			t.Errorf("%d of %d values are not fixed points", bad, len(vals))
		}
		// witnesses
		n, found, member, implMember := 0, 0, 0, 0
		for i := 0; i < 5000; i++ {
			ty := g.Ty(1 + g.n(3))
			n++
			w, ok := g.Witness(ty)
			if !ok {
				continue
			}
			found++
			if RefDen(ty, w, env.AsgTerms) == RefYes {
				member++
			}
			lt, err1 := env.BuildCtor(ty)
			lv, err2 := env.BuildVal(w)
			if err1 == nil && err2 == nil {
				if ok, _ := SafeInst(lt, lv); ok {
					implMember++
				}
			}
		}
		t.Logf("witness: %d types, %d witnesses, %d members by refden, %d by IsInstance", n, found, member, implMember)
	})
}
