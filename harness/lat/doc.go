// Package lat holds what the five lattice properties (C01 C02 C03 C04 C19) share on the Go side:
// the term language (type terms `Ty`, value terms `Val`) with its s-expression syntax, constructors
// from terms to live px.Type / px.Value objects (through the Go constructors AND through ParseType of
// the printed text), the encoder from live objects back to terms (public API only, aliases expanded),
// type-directed generators, a reference interpreter of the set denotation (refden) and the direct
// predicates of the five properties.  The Lean twin is lean/Driver/Lat.lean (parser/printer) and
// lean/Pcore/Model/Lattice*.lean (the model).  THIS COMMENT IS THE CONTRACT between the two sides.
//
// # Type terms
//
//	T ::= any | unit | undef | default | scalar | sdata | numeric | data | rdata | str | bin
//	    | (int LO HI)               Integer[LO,HI]; int64 decimal; -9223372036854775808 / 9223372036854775807 = unbounded
//	    | (flt F F)                 Float[min,max]
//	    | (bool n) | (bool t) | (bool f)      Boolean / Boolean[true] / Boolean[false]
//	    | (tspan LO HI)             Timespan[min,max] in nanoseconds (int64; MinInt64/MaxInt64 = unbounded)
//	    | (tstamp S1 N1 S2 N2)      Timestamp[min,max]; an instant is S seconds and N nanoseconds (0..999999999) after 0001-01-01T00:00:00Z
//	                                (time.Time's internal epoch); default = (tstamp 0 0 9223372036854775807 999999999) = [MinTime, MaxTime]
//	    | (strsz LO HI)             String[LO,HI]  (scStringType; `str` is the unconstrained stringType)
//	    | (strval xHEX)             vcStringType (the type of a string literal; may be the empty string)
//	    | (enum CI xHEX*)           CI ::= t|f ; values exactly as Strings() returns them (lower-cased when CI)
//	    | (strraw LO HI)            the type NewStringType makes of the bounds AS GIVEN (LO may be negative); the model clamps LO to 0 (mkStrRaw)
//	    | (enumraw CI xHEX*)        the type NewEnumType makes of the values AS GIVEN (any spelling); the model lower-cases them when CI
//	    | (pat xHEX*)               Pattern; each argument is a regexp source
//	    | (rx xHEX)                 Regexp type; `(rx x)` (empty source) is the default Regexp type
//	    | (coll LO HI)              Collection[LO,HI]   (default Collection = (coll 0 9223372036854775807))
//	    | (arr T LO HI)             Array[T,LO,HI]      (default Array = (arr any 0 max); empty = (arr unit 0 0))
//	    | (hash T T LO HI)          Hash[K,V,LO,HI]
//	    | (tup (T*) none)           Tuple with `size` nil (size = number of types)
//	    | (tup (T*) (LO HI))        Tuple with an explicit size   (default Tuple = (tup () (0 max)), empty = (tup () (0 0)))
//	    | (struct (xNAME OPT T)*)   OPT ::= t|f : the member's key type is Optional[String[NAME]] / String[NAME]
//	    | (var T*)                  Variant (`(var)` = default Variant; a one-member Variant object stays `(var T)`)
//	    | (opt T) | (nu T) | (type T) | (sens T) | (iter T)     Optional NotUndef Type Sensitive Iterable; default = [any]
//	    | (rt xRUNTIME xNAME none) | (rt xRUNTIME xNAME (xPATTERN))     Runtime[runtime, name] / Runtime[runtime, name, Regexp[/pattern/]] without a Go
//	                                type; (rt x x none) is the default Runtime.  No value term denotes a runtime value.
//	    | (call P R B)              Callable: params, return and block type, each `none` (absent) or `(T)`; (call none none none) is the default
//	                                Callable.  No value term denotes a lambda.
//	    | (itr T)                   Iterator[T]; default = (itr any).  No value term denotes an iterator.
//	    | (obj)                     the default Object type
//	    | (obj N+)                  user object type named by its ancestor path, root first: (obj 1) = Lat::O1,
//	                                (obj 1 2) = Lat::O1x2 whose parent is Lat::O1, (obj 1 2 1) = Lat::O1x2x1 …
//	    | (alias T)                 Go side only: T wrapped in a fresh non-recursive user alias (aliases of aliases by
//	                                nesting).  The Lean driver reads (alias T) as T; the encoder never emits it.
//	F ::= (M E)                     the finite float M·2^E, M an int64 with |M| < 2^53, M odd or (M,E) = (0,0); -0.0 is (0 0)
//	    | inf | -inf                (NaN never travels on a model line)
//
// # Value terms
//
//	V ::= undef | default | (b t) | (b f) | (i N) | (f F) | (s xHEX)
//	    | (rxv xHEX)                Regexp value with that source
//	    | (binv xHEX)               Binary
//	    | (ts N)                    Timespan of N nanoseconds
//	    | (tsv S N)                 Timestamp: the instant S seconds, N nanoseconds after 0001-01-01T00:00:00Z
//	    | (a V*)                    Array
//	    | (h (V V)*)                Hash, entries in order; keys pairwise different
//	    | (sv V)                    Sensitive
//	    | (t T)                     a type used as a value
//	    | (o N+)                    an instance (no attributes) of the user object type (obj N+)
//
// Strings are valid UTF-8 and, wherever a case-insensitive Enum may see them, contain no upper-case
// non-ASCII letter (the model lower-cases ASCII only).  Pattern sources come from the mini regexp language
// literal alnum chars, `.`, `[abc]` `[a-c]` `[^a]`, concatenation, `|`, `*`, `( )`, `^`, `$`.
//
// # Ops (model + implementation; output must be byte-identical)
//
//	asg A B            → t|f                       px.IsAssignable(A, B)
//	inst T V           → t|f                       px.IsInstance(T, V)
//	sound A B V        → <asg A B> <inst B V> <inst A V>         e.g. "t t t"
//	eq A B             → t|f                       A.Equals(B, nil)   (a recovered runtime fault prints `fault`)
//	trans A B C        → <asg A B> <asg B C> <asg A C>
//	imp A B A2 B2      → <asg A B> <asg A2 B2>     used for monotonicity (A2=F[A], B2=F[B]) and widening (A2 wider than A, B2=B)
//	ptype V            → T                         V.PType()
//	dtype V            → T                         px.DetailedValueType(V)
//	common A B         → T                         px.CommonType(A, B)
//	gen T              → T                         px.Generalize(T)
//	infer T V          → <inst T V> <asg T (dtype V)>
//	desc E A           → empty|nonempty            px.DescribeMismatch("x", E, A) == ""
//	assert T V         → ok|reported <CODE>        px.AssertInstance("x", T, V)
//	rxmatch xSRC xSTR  → t|f                       regexp.MustCompile(SRC).MatchString(STR)
//
// Types are rebuilt from the terms separately for every argument (no pointer sharing between A and B).
// Every type argument is built twice — through the Go constructors and through ParseType of the printed
// text — and the implementation's answer must be the same for both; a difference is reported as
// `FAIL ctor-parse-differ`.  Lines starting with `@` are evaluated on the implementation only.
package lat
