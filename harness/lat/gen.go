package lat

import (
	"math"
	"math/rand"
	"regexp"
	"strings"
	"unicode/utf8"
)

// Gen holds the one source of randomness and the switches of the type-directed generators.
type Gen struct {
	R      *rand.Rand
	Alias  bool // wrap sub-terms in (alias T) now and then
	NoIter bool // never produce Iterable (outside the reference fragment of C02)
	NoUnit bool // never produce Unit (excluded by C01 and C03)
	Call   bool // produce Callable types too (opt-in: the describer of C19 has its own model of Callable expectations)
	pool   []Ty // recently made (alias T) terms: re-used so that ONE alias object occurs at several places of a term
}

func (g *Gen) n(k int) int              { return g.R.Intn(k) }
func (g *Gen) p(percent int) bool       { return g.R.Intn(100) < percent }
func (g *Gen) pickS(xs []string) string { return xs[g.R.Intn(len(xs))] }
func (g *Gen) pickI(xs []int64) int64   { return xs[g.R.Intn(len(xs))] }

var (
	strPool = []string{"", "a", "b", "B", "ab", "Ab", "é", "aé", "abc", "c", "A", "日本", "aaa", "ba", "abcdef"}
	// sources of the mini regexp language of doc.go
	patPool = []string{"a", "^a*$", "^$", "[a-c]", "ab", "^a", "b$", "a|b", "(ab)*", "^[^a]", ".", "^.$", "^(a|b)*$", "B", "a.c"}
	rxPool  = []string{"", "a", "^$", "[a-c]", "b"}
	// names of struct members: distinct, never empty
	namePool = []string{"a", "b", "c", "B", "é", "ab"}
	sizePool = []rng{{0, 0}, {1, 1}, {0, MaxI}, {1, MaxI}, {2, 5}, {0, 1}, {1, 2}, {0, 2}, {2, 2}, {2, MaxI}, {0, 5}, {3, 3}}
	intPool  = []rng{{MinI, MaxI}, {0, MaxI}, {0, 0}, {1, 1}, {MinI, 0}, {2, 5}, {-5, 5}, {-3, -1}, {MaxI, MaxI}, {MinI, MinI}, {0, 255}, {1, 2}, {0, 5}, {1, MaxI}, {MinI, -1}}
	fltPool  = []float64{-math.MaxFloat64, -2.5, -1, -0.5, 0, 0.5, 1, 1.5, 3, 1024, math.MaxFloat64}
	tsPool   = []int64{MinI, -5, 0, 1, 5, 1000000000, 3600000000000, MaxI}
	// instants as (seconds since year 1, nanoseconds), ascending; all inside the years 0001..9999 (the default Timestamp starts at year
	// 1 and the default text format has four year digits); the last one is 9999-12-31T23:59:59.999999999Z
	tsvPool = [][2]int64{{0, 0}, {0, 1}, {1, 0}, {TsEpoch, 0}, {TsEpoch + 1546300800, 123456789}, {TsEpoch + 1546300800, 123456790},
		{TsEpoch + 4102444800, 0}, {315537897599, 999999999}}
	intVals  = []int64{0, 1, 2, 3, 5, 6, -1, -3, -5, 255, 256, MaxI, MinI, MaxI - 1, MinI + 1, 42}
	fltVals  = []float64{0, math.Copysign(0, -1), 0.5, 1, 1.5, 2.5, 3, -1, -2.5, 1024, math.MaxFloat64, -math.MaxFloat64, math.Inf(1), math.Inf(-1), 1e-300}
)

// Size picks a size range: a boundary shape or a small random one.  (0, max) is "unbounded".
func (g *Gen) Size() (int64, int64) {
	if g.p(70) {
		z := sizePool[g.n(len(sizePool))]
		return z.lo, z.hi
	}
	lo := int64(g.n(4))
	return lo, lo + int64(g.n(4))
}

func (g *Gen) intRange() (int64, int64) {
	if g.p(70) {
		z := intPool[g.n(len(intPool))]
		return z.lo, z.hi
	}
	lo := int64(g.n(21) - 10)
	return lo, lo + int64(g.n(10))
}

// Leaf is a random term without type sub-terms.
func (g *Gen) Leaf() Ty {
	switch g.n(22) {
	case 0:
		return Atom("any")
	case 1:
		if g.NoUnit {
			return Atom("any")
		}
		return Atom("unit")
	case 2:
		return Atom("undef")
	case 3:
		return Atom(g.pickS([]string{"default", "bin", "scalar", "sdata"}))
	case 4:
		return Atom(g.pickS([]string{"numeric", "data", "rdata", "scalar", "sdata"}))
	case 5:
		return Atom("str")
	case 6, 7, 8:
		lo, hi := g.intRange()
		return Int(lo, hi)
	case 9:
		i := g.n(len(fltPool))
		j := i + g.n(len(fltPool)-i)
		lo, hi := fltPool[i], fltPool[j]
		if g.p(8) {
			lo = math.Inf(-1)
		}
		if g.p(8) {
			hi = math.Inf(1)
		}
		return Flt(lo, hi)
	case 10:
		return Bool(g.n(3) - 1)
	case 11:
		if g.p(35) {
			return g.tstamp()
		}
		i := g.n(len(tsPool))
		j := i + g.n(len(tsPool)-i)
		return Tspan(tsPool[i], tsPool[j])
	case 12:
		lo, hi := g.Size()
		if lo == 0 && hi == MaxI { // NewStringType answers the default String for Integer[0]
			return Atom("str")
		}
		return StrSz(lo, hi)
	case 13:
		return StrVal(g.pickS(strPool))
	case 14, 15:
		return g.enum()
	case 16:
		n := g.n(4)
		srcs := make([]string, n)
		for i := range srcs {
			srcs[i] = g.pickS(patPool)
		}
		return Pat(srcs...)
	case 17:
		if g.p(40) {
			return g.runtime()
		}
		return Rx(g.pickS(rxPool))
	case 18:
		lo, hi := g.Size()
		return Coll(lo, hi)
	case 19:
		return g.obj()
	case 20:
		switch g.n(4) {
		case 0:
			return Tup(nil)
		case 1:
			return TupSz(nil, 0, MaxI)
		case 2:
			return TupSz(nil, 0, 0)
		}
		lo, hi := g.Size()
		return TupSz(nil, lo, hi)
	default:
		if g.p(50) {
			return Struct()
		}
		return Var()
	}
}

// tstamp: a Timestamp type over the instant pool; now and then the default, or open above
func (g *Gen) tstamp() Ty {
	i := g.n(len(tsvPool))
	j := i + g.n(len(tsvPool)-i)
	switch g.n(6) {
	case 0:
		return TstampAll()
	case 1:
		return Tstamp(tsvPool[i][0], tsvPool[i][1], TsMaxSec, TsMaxNs)
	}
	return Tstamp(tsvPool[i][0], tsvPool[i][1], tsvPool[j][0], tsvPool[j][1])
}

// callable: params a Tuple (or absent), return a type (or absent), block a Callable / Optional[Callable] (or absent); now and then the
// shapes only the Go constructor can make (a parameter type that is no Tuple is left out: printing it is not defined)
func (g *Gen) callable(d int) Ty {
	var ps [3]*Ty
	if g.p(75) {
		n := g.n(3)
		ts := make([]Ty, n)
		for i := range ts {
			ts[i] = g.Ty(d)
		}
		p := Tup(ts)
		if g.p(25) {
			lo, hi := g.Size()
			p = TupSz(ts, lo, hi)
		}
		ps[0] = &p
	}
	if g.p(55) {
		r := g.Ty(d)
		ps[1] = &r
	}
	if g.p(30) {
		b := g.callable(0)
		if d <= 0 {
			b = Call(nil, nil, nil)
		}
		if g.p(40) {
			b = Opt(b)
		}
		ps[2] = &b
	}
	return Call(ps[0], ps[1], ps[2])
}

// runtime: a Runtime type without a Go type.  (Runtime['go', name] cannot be built without one: the name stays empty for 'go'.)
func (g *Gen) runtime() Ty {
	rt := g.pickS([]string{"", "ruby", "ruby", "go", "x"})
	nm := g.pickS([]string{"", "a", "a", "B"})
	if rt == "go" {
		nm = ""
	}
	if g.p(35) {
		return Runtime(rt, nm, g.pickS(rxPool))
	}
	return Runtime(rt, nm)
}

func (g *Gen) tsv() Val { z := tsvPool[g.n(len(tsvPool))]; return VTsv(z[0], z[1]) }

func (g *Gen) obj() Ty {
	all := [][]int64{{}, {1}, {1, 1}, {1, 1, 1}, {1, 2}, {2}}
	return Obj(all[g.n(len(all))]...)
}

// enum: values as the Go constructor stores them — lower-cased when case-insensitive; now and then a repeated value.
func (g *Gen) enum() Ty {
	n := g.n(4)
	ci := n > 0 && g.p(35) // NewEnumType of no values answers the default Enum whatever the flag
	vs := make([]string, 0, n+1)
	for i := 0; i < n; i++ {
		s := g.pickS(strPool)
		if ci {
			s = strings.ToLower(s)
		}
		vs = append(vs, s)
	}
	if n > 0 && g.p(10) {
		vs = append(vs, vs[0])
	}
	return Enum(ci, vs...)
}

// Ty is a random term of depth ≤ depth; every constructor of the term language is reachable.
func (g *Gen) Ty(depth int) Ty {
	if g.Alias && len(g.pool) > 0 && g.p(6) {
		return g.pool[g.n(len(g.pool))] // the same alias once more (the builder makes it the same object)
	}
	t := g.ty(depth)
	if g.Alias && g.p(8) {
		t = Alias(t)
		if g.p(20) {
			t = Alias(t) // an alias of an alias
		}
		if len(g.pool) < 3 {
			g.pool = append(g.pool, t)
		} else {
			g.pool[g.n(3)] = t
		}
	}
	return t
}

// GuardCase exercises the recursion guard of aliases (TypeAliasType.IsAssignable / IsInstance: Seen / Done).  The guard
// is created by the outermost alias and keyed by the identity of (alias, right-hand type or value), so it only ever
// matters when ONE alias object meets the SAME right-hand part twice inside one outer comparison: an outer alias
// around a Variant (or several Variants) whose members hold the same inner alias P next to different siblings.  A guard
// that remembers a finished comparison answers the second meeting with `true`.
type GuardCase struct {
	A, B Ty
	V    Val
}

// GuardCases: P is an alias of a leaf (or Data / RichData, the built-in aliases), X a type P rejects or accepts,
// T1 ≠ T2 two sibling types; A = alias(Variant[F[P, T1], F[P, T2], …]) and B = F[X, T2] for F in Tuple, Struct, Hash,
// also with the members in the other order, three members, and the Variant nested below Array / Optional / Struct.
func (g *Gen) GuardCases(n int) []GuardCase {
	var out []GuardCase
	inner := func() (Ty, Ty) { // P and the leaf it stands for
		switch g.n(8) {
		case 0:
			return Atom("data"), Atom("data")
		case 1:
			return Atom("rdata"), Atom("rdata")
		case 2:
			l := g.Leaf()
			return Alias(Alias(l)), l
		case 3:
			l := Arr(g.Leaf(), 0, MaxI)
			return Alias(l), l
		default:
			l := g.Leaf()
			return Alias(l), l
		}
	}
	for len(out) < n {
		p, l := inner()
		var x Ty
		switch g.n(6) {
		case 0:
			x = l // accepted
		case 1:
			x = g.Narrow(l)
		case 2:
			x = Atom("bin") // rejected by Data, by most leaves
		case 3:
			x = Rx("a")
		default:
			x = g.Leaf()
		}
		t1, t2 := g.Leaf(), g.Leaf()
		f := func(a, b Ty) Ty { return TupSz([]Ty{a, b}, 2, 2) }
		switch g.n(5) {
		case 0:
			f = func(a, b Ty) Ty { return Struct(Mem("a", false, a), Mem("b", false, b)) }
		case 1:
			f = func(a, b Ty) Ty { return Hash(a, b, 0, MaxI) }
		case 2:
			f = func(a, b Ty) Ty { return Tup([]Ty{a, a, b}) }
		}
		members := []Ty{f(p, t1), f(p, t2)}
		switch g.n(4) {
		case 0:
			members = []Ty{f(p, t2), f(p, t1)}
		case 1:
			members = []Ty{f(p, t1), f(p, g.Leaf()), f(p, t2)}
		}
		var a Ty = Var(members...)
		b := f(x, t2)
		switch g.n(5) {
		case 0:
			a, b = Arr(a, 0, MaxI), Arr(b, 0, 3)
		case 1:
			a, b = Opt(a), b
		case 2:
			a, b = Struct(Mem("k", false, a), Mem("l", true, a)), Struct(Mem("k", false, b), Mem("l", true, b))
		}
		a = Alias(a)
		v, ok := g.Witness(b)
		if !ok {
			v = g.Val(2)
		}
		out = append(out, GuardCase{a, b, v})
	}
	return out
}

func (g *Gen) ty(depth int) Ty {
	if depth <= 0 || g.p(25) {
		return g.Leaf()
	}
	d := depth - 1
	switch g.n(14) {
	case 0, 1:
		lo, hi := g.Size()
		return Arr(g.Ty(d), lo, hi)
	case 2, 3:
		lo, hi := g.Size()
		return Hash(g.keyTy(d), g.Ty(d), lo, hi)
	case 4, 5:
		return g.tuple(d)
	case 6, 7:
		return g.structTy(d)
	case 8:
		n := 2 + g.n(2)
		ts := make([]Ty, n)
		for i := range ts {
			ts[i] = g.Ty(d)
		}
		if g.p(10) {
			ts[n-1] = ts[0]
		}
		return Var(ts...)
	case 9:
		return Opt(g.Ty(d))
	case 10:
		return NU(g.Ty(d))
	case 11:
		if g.Call && g.p(30) {
			return g.callable(d)
		}
		return TypeOf(g.Ty(d))
	case 12:
		if g.p(35) {
			return Itr(g.Ty(d))
		}
		return Sens(g.Ty(d))
	default:
		if g.NoIter {
			return Opt(g.Ty(d))
		}
		return Iter(g.Ty(d))
	}
}

// keyTy: hash keys are mostly string-like or integers so that structs and data hashes relate to them.
func (g *Gen) keyTy(d int) Ty {
	switch g.n(8) {
	case 0, 1:
		return Atom("str")
	case 2:
		return g.enum()
	case 3:
		return StrVal(g.pickS(namePool))
	case 4:
		lo, hi := g.intRange()
		return Int(lo, hi)
	case 5:
		return StrSz(1, MaxI)
	case 6:
		return Atom("any")
	}
	return g.Ty(d)
}

// tuple: none / explicit sizes, also sizes smaller or larger than the number of types, and (0 0).
func (g *Gen) tuple(d int) Ty {
	n := g.n(4)
	ts := make([]Ty, n)
	for i := range ts {
		ts[i] = g.Ty(d)
	}
	k := int64(n)
	switch g.n(9) {
	case 0, 1, 2:
		return Tup(ts)
	case 3:
		return TupSz(ts, k, k)
	case 4:
		return TupSz(ts, 0, k)
	case 5:
		return TupSz(ts, k, MaxI)
	case 6:
		if k > 0 {
			return TupSz(ts, int64(g.n(n)), k-1) // smaller than the number of types
		}
		return TupSz(ts, 0, 0)
	case 7:
		return TupSz(ts, k, k+1+int64(g.n(2))) // larger
	}
	if g.p(30) {
		return TupSz(ts, 0, 0)
	}
	lo, hi := g.Size()
	return TupSz(ts, lo, hi)
}

// structTy: 0–3 members with distinct non-empty names, optional / required keys, values that do or do not accept undef.
func (g *Gen) structTy(d int) Ty {
	n := g.n(4)
	perm := g.R.Perm(len(namePool))
	ms := make([]Member, n)
	for i := range ms {
		var t Ty
		switch g.n(6) {
		case 0:
			t = Opt(g.Ty(d))
		case 1:
			t = g.pickTy([]Ty{Atom("undef"), Atom("any"), Atom("data")})
		default:
			t = g.Ty(d)
		}
		ms[i] = Mem(namePool[perm[i]], g.p(40), t)
	}
	return Struct(ms...)
}

func (g *Gen) pickTy(ts []Ty) Ty { return ts[g.n(len(ts))] }

// ---- values ---------------------------------------------------------------------------------------------------------

func (g *Gen) str() string { return g.pickS(strPool) }

// Scalar value of a random kind.
func (g *Gen) scalarVal() Val {
	switch g.n(12) {
	case 0:
		return VUndef
	case 1:
		return VDefault
	case 2:
		return VB(g.p(50))
	case 3, 4:
		return VI(g.pickI(intVals))
	case 5:
		return VF(fltVals[g.n(len(fltVals))])
	case 6, 7:
		return VS(g.str())
	case 8:
		return VRx(g.pickS(rxPool))
	case 9:
		return VBin(g.pickS([]string{"", "\x00\xff", "abc"}))
	case 10:
		if g.p(40) {
			return g.tsv()
		}
		return VTs(g.pickI(tsPool))
	}
	return g.objVal()
}

func (g *Gen) objVal() Val {
	p := ObjPaths[g.n(len(ObjPaths))]
	return VO(p...)
}

func (g *Gen) tyVal() Val {
	sub := &Gen{R: g.R}
	return VT(sub.Ty(g.n(3)))
}

// Val is an arbitrary value over the whole value alphabet, nested to at most depth.
func (g *Gen) Val(depth int) Val {
	if depth <= 0 || g.p(35) {
		switch g.n(10) {
		case 0:
			return g.tyVal()
		case 1:
			return VSens(g.scalarVal())
		}
		return g.scalarVal()
	}
	d := depth - 1
	switch g.n(7) {
	case 0, 1:
		n := g.n(4)
		vs := make([]Val, n)
		for i := range vs {
			vs[i] = g.Val(d)
		}
		return VA(vs...)
	case 2, 3:
		return VA(g.related(d)...)
	case 4, 5, 6:
		return g.hashVal(d)
	}
	return VA()
}

// related: a handful of values of one family but of different widths, in a random order — so that the
// wider element comes first as often as last when an element type is inferred.
func (g *Gen) related(d int) []Val {
	var vs []Val
	switch g.n(8) {
	case 0:
		vs = []Val{VI(g.pickI(intVals)), VI(g.pickI(intVals)), VI(1)}
	case 1:
		vs = []Val{VI(g.pickI(intVals)), VF(fltVals[g.n(len(fltVals))])}
	case 2:
		vs = []Val{VS(g.str()), VS(g.str()), VS("a")}
	case 3:
		sub := &Gen{R: g.R}
		t := sub.Ty(2)
		vs = []Val{VT(t), VT(sub.Narrow(t)), VT(sub.Widen(t))}
	case 4:
		vs = []Val{VO(1), VO(1, 1), g.objVal()}
	case 5:
		vs = []Val{VA(VI(1)), VA(VI(1), VI(2)), VA(), VA(VS("a"))}
	case 6:
		vs = []Val{VUndef, g.Val(d)}
	default:
		vs = []Val{g.hashVal(d), g.hashVal(d), VH()}
	}
	if g.p(30) {
		vs = append(vs, g.Val(d))
	}
	if g.p(30) {
		vs = vs[:len(vs)-1]
	}
	g.R.Shuffle(len(vs), func(i, j int) { vs[i], vs[j] = vs[j], vs[i] })
	return vs
}

// hashVal: mostly string keys; now and then the empty string, a non-string key, an undef value.
func (g *Gen) hashVal(d int) Val {
	n := g.n(4)
	es := []Entry{}
	seen := map[string]bool{}
	for i := 0; i < n; i++ {
		var k Val
		switch g.n(10) {
		case 0:
			k = VS("")
		case 1:
			k = VI(int64(g.n(3)))
		case 2:
			k = g.pickV([]Val{VUndef, VF(1.5), VA(VI(1)), VB(true), VDefault})
		default:
			k = VS(g.pickS(namePool))
		}
		if seen[k.String()] {
			continue
		}
		seen[k.String()] = true
		v := g.Val(d)
		if g.p(15) {
			v = VUndef
		}
		es = append(es, Entry{k, v})
	}
	return VH(es...)
}

func (g *Gen) pickV(vs []Val) Val { return vs[g.n(len(vs))] }

// ---- witnesses -----------------------------------------------------------------------------------------------------

// Witness walks t and produces a member of it when it finds one; ok = false when it gave up (the type
// may be empty, e.g. (var), or too large to populate).
func (g *Gen) Witness(t Ty) (Val, bool) { return g.witness(t, 6) }

func (g *Gen) strOfLen(n int) string {
	units := []string{"a", "b", "é", "B"}
	var sb strings.Builder
	for i := 0; i < n; i++ {
		if g.p(70) {
			sb.WriteString("a")
		} else {
			sb.WriteString(g.pickS(units))
		}
	}
	return sb.String()
}

// count picks a length inside [lo, hi], close to lo; ok = false when the smallest length is impractical.
func (g *Gen) count(lo, hi int64) (int, bool) {
	if lo > hi || lo > 8 || hi < 0 {
		return 0, false
	}
	if lo < 0 {
		lo = 0
	}
	span := hi - lo
	if span > 2 {
		span = 2
	}
	return int(lo) + g.n(int(span)+1), true
}

func (g *Gen) witness(t Ty, fuel int) (Val, bool) {
	if fuel < 0 {
		return Val{}, false
	}
	switch t.K {
	case "alias":
		return g.witness(t.Ts[0], fuel)
	case "any", "unit":
		return g.Val(1), true
	case "undef":
		return VUndef, true
	case "default":
		return VDefault, true
	case "scalar":
		return g.pickV([]Val{VS(g.str()), VI(g.pickI(intVals)), VF(1.5), VB(true), VRx("a"), VTs(5)}), true
	case "sdata":
		return g.pickV([]Val{VS(g.str()), VI(g.pickI(intVals)), VF(1.5), VB(false)}), true
	case "numeric":
		return g.pickV([]Val{VI(g.pickI(intVals)), VF(fltVals[g.n(len(fltVals))])}), true
	case "data":
		switch g.n(6) {
		case 0:
			return VUndef, true
		case 1:
			return VA(VI(1), VS("a"), VUndef), true
		case 2:
			return VH(Entry{VS("a"), VI(1)}, Entry{VS("b"), VA(VUndef)}), true
		}
		return g.witness(Atom("sdata"), fuel)
	case "rdata":
		switch g.n(8) {
		case 0:
			return VDefault, true
		case 1:
			return VBin("\x00\xff"), true
		case 2:
			return g.objVal(), true
		case 3:
			return g.tyVal(), true
		case 4:
			return VH(Entry{VI(1), VTs(5)}, Entry{VS("a"), VA(VRx("a"))}), true
		case 5:
			return g.witness(Atom("data"), fuel)
		}
		return g.witness(Atom("scalar"), fuel)
	case "str":
		return VS(g.str()), true
	case "bin":
		return VBin(g.pickS([]string{"", "\x00\xff", "abc"})), true
	case "int":
		if t.Lo > t.Hi {
			return Val{}, false
		}
		switch g.n(4) {
		case 0:
			return VI(t.Lo), true
		case 1:
			return VI(t.Hi), true
		}
		for _, c := range []int64{0, 1, 2, -1, t.Lo/2 + t.Hi/2} {
			if t.Lo <= c && c <= t.Hi && g.p(60) {
				return VI(c), true
			}
		}
		return VI(t.Lo), true
	case "flt":
		if t.FLo > t.FHi {
			return Val{}, false
		}
		cands := []float64{t.FLo, t.FHi}
		for _, c := range fltVals {
			if t.FLo <= c && c <= t.FHi {
				cands = append(cands, c)
			}
		}
		return VF(cands[g.n(len(cands))]), true
	case "bool":
		if t.B < 0 {
			return VB(g.p(50)), true
		}
		return VB(t.B == 1), true
	case "tspan":
		if t.Lo > t.Hi {
			return Val{}, false
		}
		if g.p(50) {
			return VTs(t.Lo), true
		}
		return VTs(t.Hi), true
	case "tstamp":
		if t.Lo > t.Hi || t.Lo == t.Hi && t.NLo > t.NHi {
			return Val{}, false
		}
		if g.p(50) || t.Hi > 315537897599 { // the upper bound of the default lies beyond the years the text format can print
			return VTsv(t.Lo, t.NLo), true
		}
		return VTsv(t.Hi, t.NHi), true
	case "strsz":
		n, ok := g.count(t.Lo, t.Hi)
		if !ok {
			return Val{}, false
		}
		return VS(g.strOfLen(n)), true
	case "strval":
		return VS(t.S[0]), true
	case "enum":
		if len(t.S) == 0 {
			return VS(g.str()), true
		}
		s := g.pickS(t.S)
		if t.CI && g.p(50) {
			s = asciiUpper(s)
		}
		return VS(s), true
	case "pat":
		if len(t.S) == 0 {
			return VS(g.str()), true
		}
		start := g.n(len(strPool))
		for i := range strPool {
			s := strPool[(start+i)%len(strPool)]
			for _, src := range t.S {
				if ok, err := regexp.MatchString(src, s); err == nil && ok {
					return VS(s), true
				}
			}
		}
		return Val{}, false
	case "rx":
		if t.S[0] == "" {
			return VRx(g.pickS(rxPool)), true
		}
		return VRx(t.S[0]), true
	case "coll":
		n, ok := g.count(t.Lo, t.Hi)
		if !ok {
			return Val{}, false
		}
		if g.p(50) {
			return g.arrayOf(Atom("any"), n, fuel)
		}
		return g.hashOf(Atom("str"), Atom("any"), n, fuel)
	case "arr":
		n, ok := g.count(t.Lo, t.Hi)
		if !ok {
			return Val{}, false
		}
		return g.arrayOf(t.Ts[0], n, fuel)
	case "iter":
		return g.arrayOf(t.Ts[0], g.n(3), fuel)
	case "hash":
		n, ok := g.count(t.Lo, t.Hi)
		if !ok {
			return Val{}, false
		}
		return g.hashOf(t.Ts[0], t.Ts[1], n, fuel)
	case "tup":
		lo, hi := int64(len(t.Ts)), int64(len(t.Ts))
		if t.HasSize {
			lo, hi = t.Lo, t.Hi
		}
		n, ok := g.count(lo, hi)
		if !ok {
			return Val{}, false
		}
		vs := make([]Val, n)
		for i := range vs {
			et := Atom("any")
			if len(t.Ts) > 0 {
				p := i
				if p >= len(t.Ts) {
					p = len(t.Ts) - 1
				}
				et = t.Ts[p]
			}
			if vs[i], ok = g.witness(et, fuel-1); !ok {
				return Val{}, false
			}
		}
		return VA(vs...), true
	case "struct":
		es := []Entry{}
		for _, m := range t.Ms {
			if m.Opt && g.p(50) {
				continue // an absent optional member
			}
			v, ok := g.witness(m.T, fuel-1)
			if !ok {
				if m.Opt {
					continue
				}
				return Val{}, false
			}
			es = append(es, Entry{VS(m.Name), v})
		}
		if g.p(30) {
			g.R.Shuffle(len(es), func(i, j int) { es[i], es[j] = es[j], es[i] })
		}
		return VH(es...), true
	case "var":
		if len(t.Ts) == 0 {
			return Val{}, false
		}
		start := g.n(len(t.Ts))
		for i := range t.Ts {
			if v, ok := g.witness(t.Ts[(start+i)%len(t.Ts)], fuel-1); ok {
				return v, true
			}
		}
		return Val{}, false
	case "opt":
		if g.p(30) {
			return VUndef, true
		}
		if v, ok := g.witness(t.Ts[0], fuel-1); ok {
			return v, true
		}
		return VUndef, true
	case "nu":
		for i := 0; i < 4; i++ {
			if v, ok := g.witness(t.Ts[0], fuel-1); ok && v.K != "undef" {
				return v, true
			}
		}
		return Val{}, false
	case "type":
		u := StripAlias(t.Ts[0])
		if g.p(40) {
			sub := &Gen{R: g.R, NoUnit: true}
			u = sub.Narrow(u)
		}
		return VT(u), true
	case "sens":
		v, ok := g.witness(t.Ts[0], fuel-1)
		return VSens(v), ok
	case "obj":
		if len(t.Path) == 0 {
			if g.p(25) {
				return g.tyVal(), true
			}
			return g.objVal(), true
		}
		var cands [][]int64
		for _, p := range ObjPaths {
			if isPrefix(t.Path, p) {
				cands = append(cands, p)
			}
		}
		if len(cands) == 0 {
			return Val{}, false
		}
		return VO(cands[g.n(len(cands))]...), true
	}
	return Val{}, false
}

func asciiUpper(s string) string {
	b := []byte(s)
	for i, c := range b {
		if 'a' <= c && c <= 'z' {
			b[i] = c - 32
		}
	}
	return string(b)
}

func (g *Gen) arrayOf(t Ty, n int, fuel int) (Val, bool) {
	vs := make([]Val, n)
	for i := range vs {
		v, ok := g.witness(t, fuel-1)
		if !ok {
			return Val{}, false
		}
		vs[i] = v
	}
	return VA(vs...), true
}

func (g *Gen) hashOf(k, v Ty, n int, fuel int) (Val, bool) {
	es := []Entry{}
	seen := map[string]bool{}
	for tries := 0; len(es) < n && tries < 6*n+6; tries++ {
		kv, ok := g.witness(k, fuel-1)
		if !ok {
			return Val{}, false
		}
		if seen[kv.String()] || !Hashable(kv) {
			continue // keys are pairwise different
		}
		vv, ok := g.witness(v, fuel-1)
		if !ok {
			return Val{}, false
		}
		seen[kv.String()] = true
		es = append(es, Entry{kv, vv})
	}
	if len(es) < n {
		return Val{}, false
	}
	return VH(es...), true
}

// Hashable: can v be a hash key?  Object instances and Sensitive values have no key (pcore raises
// INVALID_HASH_KEY by design), and 0.0 / -0.0 print alike but are one key.
func Hashable(v Val) bool {
	return !ValContains(v, func(x Val) bool { return x.K == "sv" || x.K == "o" || x.K == "f" && x.F == 0 })
}

// ---- one-point mutations of values ---------------------------------------------------------------------------------

// MutateVal changes v in one place: drops or adds an element or entry, moves a scalar to a neighbour or a
// boundary, changes a key, swaps undef in.
func (g *Gen) MutateVal(v Val) Val {
	if g.p(4) {
		return g.Val(1)
	}
	switch v.K {
	case "undef":
		return g.scalarVal()
	case "default":
		return VUndef
	case "b":
		return VB(!v.B)
	case "i":
		switch g.n(6) {
		case 0:
			if v.I < MaxI {
				return VI(v.I + 1)
			}
		case 1:
			if v.I > MinI {
				return VI(v.I - 1)
			}
		case 2:
			return VI(g.pickI([]int64{0, MaxI, MinI, -1, 256}))
		case 3:
			return VF(float64(v.I))
		case 4:
			return VS("1")
		}
		return VUndef
	case "f":
		switch g.n(5) {
		case 0:
			return VF(v.F + 0.5)
		case 1:
			return VF(v.F - 0.5)
		case 2:
			return VF(g.pickF([]float64{math.Inf(1), math.Inf(-1), 0, math.MaxFloat64}))
		case 3:
			return VI(1)
		}
		return VUndef
	case "s":
		switch g.n(8) {
		case 0:
			return VS(v.S + "a")
		case 1:
			return VS(v.S + "é")
		case 2:
			if v.S != "" {
				_, w := utf8.DecodeLastRuneInString(v.S)
				return VS(v.S[:len(v.S)-w])
			}
			return VS("a")
		case 3:
			return VS(asciiUpper(v.S))
		case 4:
			return VS(strings.ToLower(v.S))
		case 5:
			return VS("")
		case 6:
			return VI(1)
		}
		return VUndef
	case "rxv":
		return g.pickV([]Val{VRx(v.S + "b"), VRx(""), VS(v.S), VUndef})
	case "binv":
		return g.pickV([]Val{VBin(v.S + "\x01"), VS(strings.ToValidUTF8(v.S, "?")), VUndef, VA(VI(1))})
	case "tsv":
		switch g.n(4) {
		case 0:
			if v.I2 < TsMaxNs {
				return VTsv(v.I, v.I2+1)
			}
		case 1:
			if v.I2 > 0 {
				return VTsv(v.I, v.I2-1)
			}
		case 2:
			return g.tsv()
		}
		return g.pickV([]Val{VTs(v.I2), VI(v.I), VUndef})
	case "ts":
		switch g.n(4) {
		case 0:
			if v.I < MaxI {
				return VTs(v.I + 1)
			}
		case 1:
			if v.I > MinI {
				return VTs(v.I - 1)
			}
		case 2:
			return VI(v.I)
		}
		return VTs(g.pickI(tsPool))
	case "a":
		vs := append([]Val{}, v.Vs...)
		switch k := g.n(5); {
		case k == 0 && len(vs) > 0: // drop
			i := g.n(len(vs))
			return VA(append(vs[:i], vs[i+1:]...)...)
		case k == 1: // add
			var e Val
			if len(vs) > 0 && g.p(60) {
				e = vs[g.n(len(vs))]
			} else {
				e = g.Val(1)
			}
			i := g.n(len(vs) + 1)
			vs = append(vs, Val{})
			copy(vs[i+1:], vs[i:])
			vs[i] = e
			return VA(vs...)
		case k == 2 && len(vs) > 0: // swap undef in
			vs[g.n(len(vs))] = VUndef
			return VA(vs...)
		case len(vs) > 0:
			i := g.n(len(vs))
			vs[i] = g.MutateVal(vs[i])
			return VA(vs...)
		}
		return VA(g.Val(1))
	case "h":
		es := append([]Entry{}, v.Es...)
		fresh := func() Val {
			for _, k := range []Val{VS(g.pickS(namePool)), VS(""), VI(int64(g.n(3))), VS("zz"), VS("zzz")} {
				dup := false
				for _, e := range es {
					if e.K.String() == k.String() {
						dup = true
					}
				}
				if !dup {
					return k
				}
			}
			return VS("zzzz")
		}
		switch k := g.n(6); {
		case k == 0 && len(es) > 0: // drop an entry
			i := g.n(len(es))
			return VH(append(es[:i], es[i+1:]...)...)
		case k == 1: // add an entry
			return VH(append(es, Entry{fresh(), g.Val(1)})...)
		case k == 2 && len(es) > 0: // change a key
			es[g.n(len(es))].K = fresh()
			return VH(es...)
		case k == 3 && len(es) > 0: // an undef-valued entry
			es[g.n(len(es))].V = VUndef
			return VH(es...)
		case len(es) > 0:
			i := g.n(len(es))
			es[i].V = g.MutateVal(es[i].V)
			return VH(es...)
		}
		return VH(Entry{fresh(), g.Val(1)})
	case "sv":
		if g.p(30) {
			return v.Vs[0]
		}
		return VSens(g.MutateVal(v.Vs[0]))
	case "t":
		sub := &Gen{R: g.R}
		switch g.n(3) {
		case 0:
			return VT(sub.Widen(*v.T))
		case 1:
			return VT(sub.Narrow(*v.T))
		}
		return VT(sub.Ty(1))
	case "o":
		if len(v.Path) > 1 && g.p(50) {
			return VO(v.Path[:len(v.Path)-1]...)
		}
		return g.objVal()
	}
	return VUndef
}

func (g *Gen) pickF(xs []float64) float64 { return xs[g.n(len(xs))] }

// PatSources / Strings: the pools of pattern sources and strings the generators draw from.
func PatSources() []string { return append([]string{}, patPool...) }
func Strings() []string    { return append([]string{}, strPool...) }

// StrOfLen is a string of n characters, some of them multi-byte.
func (g *Gen) StrOfLen(n int) string { return g.strOfLen(n) }

// Function forms of the generators (all randomness from r).
func RandTy(r *rand.Rand, depth int) Ty        { return (&Gen{R: r}).Ty(depth) }
func RandVal(r *rand.Rand, depth int) Val      { return (&Gen{R: r}).Val(depth) }
func Witness(r *rand.Rand, t Ty) (Val, bool)   { return (&Gen{R: r}).Witness(t) }
func MutateVal(r *rand.Rand, v Val) Val        { return (&Gen{R: r}).MutateVal(v) }
func Narrow(r *rand.Rand, t Ty) Ty             { return (&Gen{R: r}).Narrow(t) }
func Widen(r *rand.Rand, t Ty) Ty              { return (&Gen{R: r}).Widen(t) }
func WidenRange(r *rand.Rand, t Ty) (Ty, bool) { return (&Gen{R: r}).WidenRange(t) }
func Contexts(r *rand.Rand, a, b Ty) []Ctx     { return (&Gen{R: r}).Contexts(a, b) }

// SwapOne answers t with exactly one member of one list-shaped node (the sources of a Pattern, the values of an Enum,
// the members of a Variant, Tuple or Struct) replaced by a different one, all lengths kept: the partner that an
// equality deciding by length alone, or by inclusion one way only, cannot tell from t. False when t has no such node.
func (g *Gen) SwapOne(t Ty) (Ty, bool) {
	var sites [][]int
	var walk func(t Ty, path []int)
	walk = func(t Ty, path []int) {
		switch t.K {
		case "pat", "enum":
			if len(t.S) > 0 {
				sites = append(sites, append([]int{}, path...))
			}
		case "var", "tup", "struct":
			if len(t.Ts)+len(t.Ms) > 0 {
				sites = append(sites, append([]int{}, path...))
			}
		}
		for i, k := range t.Ts {
			walk(k, append(path, i))
		}
		for i, m := range t.Ms {
			walk(m.T, append(path, i))
		}
	}
	walk(t, nil)
	if len(sites) == 0 {
		return t, false
	}
	path := sites[g.n(len(sites))]
	var at func(t Ty, path []int) Ty
	at = func(t Ty, path []int) Ty {
		r := t
		if len(path) > 0 {
			if len(t.Ts) > 0 {
				r.Ts = append([]Ty{}, t.Ts...)
				r.Ts[path[0]] = at(t.Ts[path[0]], path[1:])
			} else {
				r.Ms = append([]Member{}, t.Ms...)
				m := t.Ms[path[0]]
				r.Ms[path[0]] = Mem(m.Name, m.Opt, at(m.T, path[1:]))
			}
			return r
		}
		switch t.K {
		case "pat", "enum":
			pool := strPool
			if t.K == "pat" {
				pool = patPool
			}
			r.S = append([]string{}, t.S...)
			i := g.n(len(r.S))
			for k := 0; k < 20; k++ {
				s := g.pickS(pool)
				if t.K == "enum" && t.CI {
					s = strings.ToLower(s)
				}
				if s != r.S[i] {
					r.S[i] = s
					break
				}
			}
		default:
			fresh := func(old Ty) Ty {
				for k := 0; k < 20; k++ {
					n := g.Ty(1)
					if n.String() != old.String() {
						return n
					}
				}
				return old
			}
			if len(t.Ts) > 0 {
				r.Ts = append([]Ty{}, t.Ts...)
				i := g.n(len(r.Ts))
				r.Ts[i] = fresh(r.Ts[i])
			} else {
				r.Ms = append([]Member{}, t.Ms...)
				i := g.n(len(r.Ms))
				m := r.Ms[i]
				r.Ms[i] = Mem(m.Name, m.Opt, fresh(m.T))
			}
		}
		return r
	}
	return at(t, path), true
}

// PatSrcs answers n distinct-or-not pattern sources of the pool.
func (g *Gen) PatSrcs(n int) []string {
	srcs := make([]string, n)
	for i := range srcs {
		srcs[i] = g.pickS(patPool)
	}
	return srcs
}

// EnumN answers a case-sensitive Enum of n pool values.
func (g *Gen) EnumN(n int) Ty {
	vs := make([]string, n)
	for i := range vs {
		vs[i] = g.pickS(strPool)
	}
	return Enum(false, vs...)
}
