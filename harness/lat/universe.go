package lat

import "math"

// The exhaustive small universe.  Alphabet: ranges over {0,1,2,5,max}, strings from {"", "a", "B", "é", "ab"},
// four mini regexps, the object types (obj) (obj 1) (obj 1 1) (obj 2).  Everything below is enumerated in a
// fixed order; nothing is random.

type rng struct{ lo, hi int64 }

var (
	uStrings = []string{"", "a", "B", "é", "ab"}
	uRegexps = []string{"a", "^a*$", "^$", "[a-c]"}
	uBounds  = []int64{0, 1, 2, 5}
)

// U0: every leaf (a term without type sub-terms) over the alphabet.
func universe0() []Ty {
	out := []Ty{}
	for _, a := range []string{"any", "unit", "undef", "default", "scalar", "sdata", "numeric", "data", "rdata", "str", "bin"} {
		out = append(out, Atom(a))
	}
	// Integer
	for i, lo := range uBounds {
		for _, hi := range uBounds[i:] {
			out = append(out, Int(lo, hi))
		}
		out = append(out, Int(lo, MaxI))
	}
	out = append(out, Int(MinI, MaxI), Int(MinI, 0), Int(MinI, 5), Int(-1, 1))
	// Float
	mf := math.MaxFloat64
	out = append(out, Flt(-mf, mf), Flt(0, 1), Flt(1, 1), Flt(0, mf), Flt(-mf, 0), Flt(0.5, 2.5), Flt(math.Inf(-1), math.Inf(1)))
	out = append(out, Bool(-1), Bool(1), Bool(0))
	out = append(out, Tspan(MinI, MaxI), Tspan(0, MaxI), Tspan(0, 5), Tspan(1, 1), Tspan(MinI, 0))
	out = append(out, TstampAll(), Tstamp(TsEpoch, 0, TsMaxSec, TsMaxNs), Tstamp(TsEpoch, 0, TsEpoch+1546300800, 123456789),
		Tstamp(TsEpoch+1546300800, 123456789, TsEpoch+1546300800, 123456789))
	// String families
	for _, r := range []rng{{0, 0}, {1, 1}, {0, 1}, {1, 2}, {2, 5}, {0, 5}, {1, MaxI}, {2, MaxI}} {
		out = append(out, StrSz(r.lo, r.hi))
	}
	for _, s := range uStrings {
		out = append(out, StrVal(s))
	}
	out = append(out, Enum(false), Enum(false, "a"), Enum(false, "B"), Enum(false, ""), Enum(false, "a", "B"),
		Enum(true, "a", "b"), Enum(true, "ab"), Enum(false, "é", "ab"), Enum(false, "a", "a"))
	out = append(out, Pat())
	for _, s := range uRegexps {
		out = append(out, Pat(s))
	}
	out = append(out, Pat("a", "^$"), Pat("[a-c]", "^a*$"))
	out = append(out, Rx(""), Rx("a"), Rx("^$"))
	out = append(out, Runtime("", ""), Runtime("ruby", ""), Runtime("ruby", "a"), Runtime("ruby", "a", "a"), Runtime("ruby", "a", "b"),
		Runtime("ruby", "", "a"), Runtime("", "a"), Runtime("go", ""), Runtime("x", "a"))
	for _, r := range []rng{{0, MaxI}, {0, 0}, {1, 1}, {1, 2}, {2, 5}, {0, 5}, {1, MaxI}} {
		out = append(out, Coll(r.lo, r.hi))
	}
	out = append(out, Obj(), Obj(1), Obj(1, 1), Obj(2))
	out = append(out, Tup(nil), TupSz(nil, 0, MaxI), TupSz(nil, 0, 0), TupSz(nil, 1, 2))
	out = append(out, Struct(), Var())
	return out
}

// RuntimeUniverse: every Runtime type over runtimes {"", ruby, x}, names {"", a, B}, patterns {none, /a/, /b/} — the 27 shapes of
// RuntimeType.IsAssignable / Equals / commonType told apart (Go types and the 'go' runtime with a name are outside the term language)
func RuntimeUniverse() []Ty {
	out := []Ty{}
	for _, rt := range []string{"", "ruby", "x"} {
		for _, nm := range []string{"", "a", "B"} {
			out = append(out, Runtime(rt, nm), Runtime(rt, nm, "a"), Runtime(rt, nm, "b"))
		}
	}
	return out
}

// CallableUniverse: Callables over params {absent, Tuple[], Tuple[String], Tuple[Scalar], Tuple[Integer, 0, 1]}, return {absent, Any, String,
// Scalar}, block {absent, Callable, Optional[Callable[String]]} — 60 types: every shape of CallableType.IsAssignable / Equals
func CallableUniverse() []Ty {
	pp := func(t Ty) *Ty { return &t }
	params := []*Ty{nil, pp(Tup(nil)), pp(Tup([]Ty{Atom("str")})), pp(Tup([]Ty{Atom("scalar")})), pp(TupSz([]Ty{Int(MinI, MaxI)}, 0, 1))}
	rets := []*Ty{nil, pp(Atom("any")), pp(Atom("str")), pp(Atom("scalar"))}
	blocks := []*Ty{nil, pp(Call(nil, nil, nil)), pp(Opt(Call(pp(Tup([]Ty{Atom("str")})), nil, nil)))}
	out := []Ty{}
	for _, p := range params {
		for _, r := range rets {
			for _, b := range blocks {
				out = append(out, Call(p, r, b))
			}
		}
	}
	return out
}

// the reduced leaf alphabets of the composite layers
func leavesR() []Ty {
	return []Ty{Atom("any"), Atom("undef"), Atom("str"), Int(MinI, MaxI), Int(1, 2), StrVal("a"), Enum(false, "a", "B"),
		Flt(-math.MaxFloat64, math.MaxFloat64), Atom("numeric"), Atom("data"), Obj(1), Atom("unit"), Atom("scalar"), Bool(1)}
}

func leavesSmall() []Ty {
	return []Ty{Int(1, 2), Atom("str"), Atom("undef"), Atom("any"), StrVal("a")}
}

// layer1 applies every constructor once to leaves.
func layer1(r []Ty, small []Ty, full bool) []Ty {
	out := []Ty{}
	arrRanges := []rng{{0, MaxI}, {0, 0}, {1, 1}, {1, 2}, {2, 5}, {1, MaxI}}
	hashRanges := []rng{{0, MaxI}, {0, 0}, {1, 1}, {1, 2}}
	hashKeys := []Ty{Atom("str"), Int(MinI, MaxI), StrVal("a"), Atom("any")}
	hashVals := []Ty{Atom("any"), Atom("undef"), Atom("str"), Int(1, 2), Atom("data")}
	if !full {
		arrRanges = []rng{{0, MaxI}, {1, 2}}
		hashRanges = []rng{{0, MaxI}, {1, 1}}
		hashKeys = []Ty{Atom("str"), Int(MinI, MaxI)}
		hashVals = small
	}
	for _, e := range r {
		for _, z := range arrRanges {
			out = append(out, Arr(e, z.lo, z.hi))
		}
	}
	for _, k := range hashKeys {
		for _, v := range hashVals {
			for _, z := range hashRanges {
				out = append(out, Hash(k, v, z.lo, z.hi))
			}
		}
	}
	if full {
		out = append(out, Hash(Atom("unit"), Atom("unit"), 0, 0))
	}
	// tuples: one slot, two slots; size none / explicit
	for _, e := range r {
		out = append(out, Tup([]Ty{e}), TupSz([]Ty{e}, 0, 1))
		if full {
			out = append(out, TupSz([]Ty{e}, 1, MaxI))
		}
	}
	for _, a := range small[:4] {
		for _, b := range small[:4] {
			out = append(out, Tup([]Ty{a, b}))
			if full {
				out = append(out, TupSz([]Ty{a, b}, 1, 2), TupSz([]Ty{a, b}, 2, 5))
			}
		}
	}
	// structs: one member, two members
	for _, e := range r {
		out = append(out, Struct(Mem("a", false, e)), Struct(Mem("a", true, e)))
	}
	two := []Member{Mem("a", false, Int(1, 2)), Mem("a", true, Int(1, 2)), Mem("a", false, Atom("undef")), Mem("a", false, Atom("str"))}
	twoB := []Member{Mem("b", false, Int(1, 2)), Mem("b", true, Atom("str")), Mem("B", false, Atom("any")), Mem("é", true, Atom("undef"))}
	if !full {
		two, twoB = two[:2], twoB[:2]
	}
	for _, m := range two {
		for _, n := range twoB {
			out = append(out, Struct(m, n))
		}
	}
	// variants: unordered pairs, and a repeated member
	vm := []Ty{Int(1, 2), Atom("str"), Atom("undef"), StrVal("a"), Enum(false, "a", "B"), Int(MinI, MaxI)}
	if !full {
		vm = small[:4]
	}
	for i, a := range vm {
		for _, b := range vm[i+1:] {
			out = append(out, Var(a, b))
		}
	}
	out = append(out, Var(Int(1, 2), Int(1, 2)), Var(Atom("str"), Int(1, 2), Atom("undef")))
	for _, k := range []string{"opt", "nu", "type", "sens", "iter", "itr"} {
		for _, e := range r {
			out = append(out, Wrap1(k, e))
		}
	}
	return out
}

// layer2 puts every term of a small depth-1 layer into every one-hole context once.
func layer2() []Ty {
	out := []Ty{}
	i12, str, undef, any := Int(1, 2), Atom("str"), Atom("undef"), Atom("any")
	for _, x := range layer1(leavesSmall(), leavesSmall(), false) {
		out = append(out,
			Arr(x, 0, MaxI), Arr(x, 1, 2),
			Hash(str, x, 0, MaxI), Hash(x, any, 0, MaxI),
			Tup([]Ty{x}), TupSz([]Ty{x}, 0, 2), Tup([]Ty{x, i12}),
			Struct(Mem("a", false, x)), Struct(Mem("a", true, x)),
			Var(x, undef), Var(str, x),
			Opt(x), NU(x), TypeOf(x), Sens(x), Iter(x))
	}
	return out
}

var universeCache [3][]Ty

// Universe returns the exhaustive small universe up to the given depth (0, 1 or 2), in a fixed order.
// Universe(1) ⊂ Universe(2) as a prefix.
func Universe(depth int) []Ty {
	if depth < 0 {
		depth = 0
	}
	if depth > 2 {
		depth = 2
	}
	if universeCache[depth] != nil {
		return universeCache[depth]
	}
	out := universe0()
	if depth >= 1 {
		out = append(out, layer1(leavesR(), leavesSmall(), true)...)
	}
	if depth >= 2 {
		out = append(out, layer2()...)
	}
	// drop repeated terms, keeping first occurrences
	seen := map[string]bool{}
	uniq := out[:0:0]
	for _, t := range out {
		s := t.String()
		if !seen[s] {
			seen[s] = true
			uniq = append(uniq, t)
		}
	}
	universeCache[depth] = uniq
	return uniq
}

// ValUniverse is the small value universe (about 200 values) paired with the type universe in C02 and C04.
func ValUniverse() []Val {
	out := []Val{VUndef, VDefault, VB(true), VB(false)}
	for _, i := range []int64{0, 1, 2, 3, 5, 6, -1, 255, 256, MaxI, MinI} {
		out = append(out, VI(i))
	}
	for _, f := range []float64{0, 0.5, 1, 1.5, 2.5, 3, -1, math.MaxFloat64, -math.MaxFloat64, math.Inf(1), math.Inf(-1)} {
		out = append(out, VF(f))
	}
	for _, s := range []string{"", "a", "A", "b", "B", "é", "ab", "AB", "aé", "abc", "aaa", "c", "d", "éé", "日本", "abcdef"} {
		out = append(out, VS(s))
	}
	out = append(out, VRx(""), VRx("a"), VRx("^$"), VRx("b"))
	out = append(out, VBin(""), VBin("\x00\xff"))
	out = append(out, VTs(0), VTs(1), VTs(5), VTs(6), VTs(-1), VTs(MaxI), VTs(MinI))
	out = append(out, VO(1), VO(1, 1), VO(1, 1, 1), VO(1, 2), VO(2))
	out = append(out, VSens(VI(1)), VSens(VS("a")), VSens(VUndef))
	for _, t := range []Ty{Atom("any"), Atom("str"), Int(1, 2), Int(MinI, MaxI), StrVal("a"), StrSz(1, 1), Enum(false, "a", "B"), Pat("a"),
		Atom("undef"), Atom("unit"), Atom("data"), Arr(Int(1, 2), 0, MaxI), Opt(Atom("str")), Var(Int(1, 2), Atom("str")), Obj(), Obj(1),
		TypeOf(Int(1, 2)), Tspan(1, 1), Atom("scalar"), Tup(nil)} {
		out = append(out, VT(t))
	}
	// arrays
	elems := []Val{VI(1), VI(2), VI(6), VS("a"), VS("B"), VUndef, VF(1.5), VO(1)}
	out = append(out, VA())
	for _, e := range elems {
		out = append(out, VA(e))
	}
	for _, a := range elems[:6] {
		for _, b := range elems[:6] {
			out = append(out, VA(a, b))
		}
	}
	out = append(out, VA(VI(1), VI(2), VI(1)), VA(VI(1), VI(1), VI(1), VI(1), VI(1)), VA(VI(1), VS("a"), VUndef), VA(VA()), VA(VA(VI(1))), VA(VH()),
		VA(VS("a"), VS("b"), VS("c"), VS("d"), VS("e"), VS("f")))
	// hashes: string keys, the empty key, non-string keys, undef values, absent / extra members
	a, b := VS("a"), VS("b")
	out = append(out, VH(),
		VH(Entry{a, VI(1)}), VH(Entry{a, VI(6)}), VH(Entry{a, VS("x")}), VH(Entry{a, VUndef}), VH(Entry{b, VI(1)}), VH(Entry{VS("B"), VI(1)}),
		VH(Entry{VS("é"), VUndef}), VH(Entry{VS(""), VI(1)}), VH(Entry{VI(1), VS("a")}), VH(Entry{VI(1), VI(1)}), VH(Entry{VUndef, VI(1)}),
		VH(Entry{a, VI(1)}, Entry{b, VI(2)}), VH(Entry{b, VI(2)}, Entry{a, VI(1)}), VH(Entry{a, VI(1)}, Entry{b, VS("x")}),
		VH(Entry{a, VI(1)}, Entry{b, VUndef}), VH(Entry{a, VUndef}, Entry{b, VI(1)}), VH(Entry{a, VI(1)}, Entry{VS("c"), VI(1)}),
		VH(Entry{a, VI(1)}, Entry{VI(2), VI(2)}), VH(Entry{a, VI(1)}, Entry{VS(""), VI(2)}), VH(Entry{a, VS("a")}, Entry{VS("B"), VS("b")}),
		VH(Entry{a, VI(1)}, Entry{b, VI(2)}, Entry{VS("c"), VI(3)}), VH(Entry{a, VA(VI(1))}), VH(Entry{a, VH(Entry{a, VI(1)})}),
		VH(Entry{VA(VI(1)), VI(1)}), VH(Entry{VF(1.5), VS("a")}))
	return out
}

// Positional is the exhaustive universe of the positional rules (Tuple / Array against each other): declared types
// shorter than, equal to and LONGER than the maximal size (a declared type at a position no instance can have
// describes nothing), untyped tuples with an explicit size, arrays that cannot fill every declared position.
// large = the 96-type universe (its cube has 884 736 members), otherwise a 42-type subset.
func Positional(large bool) []Ty {
	i09, str, anyT := Int(0, 9), Atom("str"), Atom("any")
	lists := [][]Ty{{}, {i09}, {anyT}, {i09, str}, {i09, anyT}}
	sizes := []rng{{0, 0}, {0, 1}, {1, 1}, {1, 2}, {0, MaxI}}
	arrSizes := []rng{{0, 0}, {0, 1}, {1, 1}, {1, 2}}
	if large {
		lists = append(lists, []Ty{str}, []Ty{anyT, i09}, []Ty{i09, i09})
		sizes = append(sizes, rng{0, 2}, rng{2, 2}, rng{1, MaxI})
		arrSizes = sizes
	}
	out := []Ty{}
	for _, l := range lists {
		out = append(out, Tup(l))
		for _, r := range sizes {
			out = append(out, TupSz(l, r.lo, r.hi))
		}
	}
	for _, e := range []Ty{i09, str, anyT} {
		for _, r := range arrSizes {
			out = append(out, Arr(e, r.lo, r.hi))
		}
	}
	return out
}

// PositionalVals are the arrays that tell the positional types apart.
func PositionalVals() []Val {
	return []Val{VA(), VA(VI(1)), VA(VS("a")), VA(VI(1), VS("a")), VA(VI(1), VI(1)), VA(VS("a"), VI(1)), VA(VI(1), VS("a"), VS("b")), VA(VUndef)}
}
